"""C11: the LEF reader never crashes or hangs on any UTF-8 text.
Model Lef/LefLex.v + Lef/LefParse.v (parse), theorems Properties/C11.v, correspondence against
lef21::LefLibrary::open / to_string through harness/src/bin/c04.rs (ops "rt", "time")."""
import json, os, re, subprocess, sys, time
from vlib import *
from props.kernelcommon import kernel_tie_leg
from props.lefcommon import *

HARNESS_BINS = ["c04"]

UTF = ["é", "ß", "中", "\U0001F600", "́", "\u0085", " ", " ", "　", "Ж",
       # characters that are numeric / alphabetic / white space for Unicode but not for ASCII-minded code
       "\u00b2", "\u00bd", "\u0663", "\uff13", "\u2167", "\u00a0", "\u2003", "\u000b",
       # generator audit 2026-10-02: form feed (ASCII white space), NUL / DEL (no class at all), BOM and zero-width space (invisible, not white space),
       # paragraph separator and Ogham space (white space), the last scalar value, a title-case letter
       "\u000c", "\u0000", "\u007f", "\ufeff", "\u200b", "\u2029", "\u1680", "\U0010ffff", "\u01c5"]
# numbers at the edges of rust_decimal (96-bit magnitude, 28 decimals) and of the lexer's i32/f64 number test: arithmetic on a
# parsed number (a product, a scale change, a conversion) must not panic whatever its magnitude
EXTREME_NUMBERS = ["79228162514264337593543950335", "-79228162514264337593543950335", "79228162514264337593543950336",
                   "7922816251426433759354395034", "0.0000000000000000000000000001", "7.9228162514264337593543950335",
                   "99999999999999999999999999999999999", "0.00000000000000000000000000000000001", "1e28", "1e-28", "1e400", "2147483648", "-2147483649",
                   # rounding at the 96-bit / 28-digit limits (a 29th digit that rounds up), words of the float grammar that are no decimals, zero forms
                   "79228162514264337593543950335.5", "7922816251426433759354395033.55", "-79228162514264337593543950335.9999", "0.99999999999999999999999999995",
                   "9999999999999999999999999999.5", "-nan", "-infinity", "-inf", "1e+400", "1e-400", "4294967296", "18446744073709551616", "-0", "-0.000",
                   "0" * 40 + "1", "1." + "0" * 40, "." + "0" * 27 + "1", "." + "0" * 28 + "1", "-." + "9" * 30, "5.", ".5", "-.5", "5.85", "5.849999999999999999999999999999"]
TOKRE = re.compile(r'#[^\n]*|"[^"]*"?|;|[^\s]+')
REPL = ["END", "MACRO", "LAYER", "PIN", "PORT", "RECT", "VERSION", "PROPERTY", "BEGINEXT", "ENDEXT", "UNITS", "ITERATE", "DO",
        "1.5", "-3", "1e3", "5.3", "zz", ";", '"abc', '"s"', "#c", "-", ".", "LIBRARY", "OBS", "VIA", "DEFAULT", "SITE", "CLASS"] + EXTREME_NUMBERS

def tokens(s):
    return [(m.start(), m.end()) for m in TOKRE.finditer(s)]

def gen_texts(chk):
    """about 30 valid texts: the hand-written corpus and renderings of generated libraries"""
    rng = chk.rng
    texts = [(n, b) for n, b in corpus()]
    pairs = []
    for i in range(20 if chk.tier == "quick" else 60):
        ver = rng.choice([None, 53, 54, 55, 56, 57, 58])
        lib = gen_lib(rng, ver, "plain" if i % 2 else "mixed")
        pairs.append((gen_style(rng, lib, plain=(i % 5 == 0)), lib))
    # the library with everything set (every construct of the reader is in every run, whatever the random libraries hold): one item per
    # list under a plain style (sampled densely below), the wider one at version 5.4 with comments / LF / joined properties
    mid = {("lef_lib", "vias"): 2, ("lef_macro", "pins"): 2, ("lef_macro", "obs"): 2, ("lef_macro", "density"): 2, ("lef_density_geoms", "geometries"): 2}
    rich = [("rich_lean", Raw("(mkstyle [] [[SWs 32]] [SWs 10] None [] [] [] false true)"), rich_lib(None, wide={("lef_lib", "vias"): 2}, lean=True)),
            ("rich_54", Raw("(mkstyle [SComment %s] [[SWs 10]; [SWs 32]; [SWs 32; SComment %s]; [SWs 9]] [SWs 10] (Some %s) [[]; [true]; [false; true]] [] [] true true)"
                            % (cbytes(H("é header")), cbytes(H(" c 中")), cbytes(H("end")))), rich_lib(54, wide=mid))]
    pairs += [(sty, lib) for _, sty, lib in rich]
    n0 = len(pairs) - len(rich)
    for i, b in enumerate(render_cases(chk, pairs, "c11_render")):
        texts.append(("gen%02d" % i if i < n0 else rich[i - n0][0], b))
    return texts

def gen_cases(chk, texts):
    rng = chk.rng
    quick = chk.tier == "quick"
    cases = []
    dist = {}
    seen = set()
    def add(kind, b):
        if isinstance(b, str):
            b = b.encode("utf8")
        if b in seen:
            return
        seen.add(b)
        cases.append({"kind": kind, "src": b.hex()})
        dist[kind] = dist.get(kind, 0) + 1
    for name, b in texts:
        add("whole", b)
    # hand-picked small inputs (lexer corners, version gates, error paths at end of input)
    for s in ["", " ", "\n\n#c", '"unterminated', 'MACRO "s"', "VERSION 5.80 ;", "VERSION 5.85 ;", "VERSION 6 ;", "VERSION 5.9 ;", "VERSION 5 ;",
              "VERSION -é ;", "MACRO mé \nEND mé\n", "# é\nVERSION 5.8 ;\nMACRO m\nEND m\n", "VERSION 5.8 ; é", "éa b c d\n MACRO",
              "a éé\n", "MACRO _m END _m", "VERSION 5.4 ; NAMESCASESENSITIVE ON ; VERSION 5.8 ;", "VERSION 5.8 ; NOWIREEXTENSIONATPIN ON ;",
              'BEGINEXT "t" é x y ENDEXT', 'BEGINEXT "té" x', "MACRO m SIZE 1e2 BY -0 ; END m", "MACRO m SIZE 1e BY 2 ; END m",
              "MACRO m SIZE -inf BY 2 ; END m", "MACRO m SIZE 1_0 BY 2 ; END m", "+5", "(", "MACRO m ORIGIN 1 ; END m", "UNITS DATABASE MICRONS 100.0 ; END UNITS",
              "UNITS DATABASE MICRONS 150 ; END UNITS", "UNITS DATABASE MICRONS 100.5 ; END UNITS", "SITE s CLASS PAD ; END s", "SITE s SIZE 1 BY 1 ; END s",
              "VIA v VIARULE r ; CUTSIZE 1 1 ; END v", "VIA v FOO", "VIA v", "MACRO m PIN p PORT LAYER l ; VIA MASK 1 0 0 v ; END END p END m",
              "BUSBITCHARS \"[é\" ;", "BUSBITCHARS \"[]]\" ;", "DIVIDERCHAR \"中\" ;", "DIVIDERCHAR \"\" ;", "MACRO ééé SIZE 1 BY 1 ;\nFOO",
              "MACRO m\néééé éééé éééé x", "éééééééé VERSION", "MACRO m PROPERTY a ; END m", "MACRO m PROPERTY a",
              *["VERSION %s ;" % n for n in EXTREME_NUMBERS], *["MACRO m SIZE %s BY %s ; END m" % (n, n) for n in EXTREME_NUMBERS],
              *["UNITS DATABASE MICRONS %s ; END UNITS" % n for n in EXTREME_NUMBERS], *["MANUFACTURINGGRID %s ;" % n for n in EXTREME_NUMBERS[:6]],
              *["MACRO m ORIGIN %s %s ; END m" % (n, n) for n in EXTREME_NUMBERS[:6]],
              "\u00b2", "MACRO \u00b2", "VERSION \u00bd", "\u0663\u0663", "\uff13 ", "x \u00b2\u00a0", "MACRO m SIZE \u00b2 BY \uff13 ; END m",
              "\u00b2x \u00bdy\u00a0\u0663", "VERSION 5.8 ;\n\uff13",
              "\n" * 60000 + "VERSION 5.8 ;", "# c\n" * 40000 + "VERSION 5.8 ;\nMACRO m\nEND m\n", " \n\t" * 30000 + "FOO", ("#\n\n" * 30000),
              "\ufeffVERSION 5.8 ;", "VERSION 5.8 ;\ufeff", "VERSION 5.8 ;\rMACRO m\r  SIZE 1 BY 1 ;\rEND m\r" + "# é\r" * 60 + "FOO", "VERSION\x0c5.8\x0c;\x0cFOO",
              "\x00", "MACRO m\x00 END m\x00", 'BUSBITCHARS "[]', 'BUSBITCHARS "[', 'BUSBITCHARS "abc', 'DIVIDERCHAR "/', 'DIVIDERCHAR "ab', 'DIVIDERCHAR "', 'BUSBITCHARS "é中', 'DIVIDERCHAR "\U0001F600',
              'MACRO m PIN a NETEXPR "x', 'BEGINEXT "t', 'BEGINEXT "t" "x', "BEGINEXT", 'PROPERTYDEFINITIONS MACRO p STRING "x', "MACRO m PROPERTY p \"v", "MACRO m PROPERTY \"p\" v ; END m",
              "MACRO \"m\" END \"m\"", "MACRO 5 END 5", "MACRO ; END ;", "MACRO m END", "MACRO m END n", "MACRO m PIN p END q END m", "SITE s CLASS CORE ; SIZE 1 BY 1 ; END t", "VIA v END w",
              "END", "END LIBRARY", "END LIBRARY END LIBRARY", "END MACRO", "LIBRARY", ";", "; ; ;", "VERSION ;", "VERSION 5.8", "VERSION 5.8 5.8 ;", "VERSION five ;", "VERSION \"5.8\" ;",
              "UNITS", "UNITS END", "UNITS END LIBRARY", "UNITS DATABASE 100 ; END UNITS", "UNITS DATABASE MICRONS ; END UNITS", "PROPERTYDEFINITIONS", "PROPERTYDEFINITIONS END",
              "PROPERTYDEFINITIONS MACRO p REAL RANGE 1 ; END PROPERTYDEFINITIONS", "PROPERTYDEFINITIONS MACRO p REAL RANGE ; END PROPERTYDEFINITIONS", "PROPERTYDEFINITIONS BOGUS p REAL ; END PROPERTYDEFINITIONS",
              "MACRO m OBS", "MACRO m OBS LAYER", "MACRO m OBS LAYER l", "MACRO m OBS LAYER l ;", "MACRO m OBS LAYER l ; RECT", "MACRO m OBS LAYER l ; RECT MASK", "MACRO m OBS LAYER l ; RECT ITERATE 0 0 1 1 DO",
              "MACRO m OBS LAYER l ; RECT ITERATE 0 0 1 1 DO 1 BY 1 STEP 1 ;", "MACRO m OBS LAYER l ; POLYGON ITERATE DO 1 BY 1 STEP 1 1 ; END END m", "MACRO m OBS LAYER l ; PATH 0 0 ; END END m",
              "MACRO m OBS LAYER l ; PATH 0 ; END END m", "MACRO m OBS LAYER l ; POLYGON 0 0 1 1 2 ; END END m", "MACRO m OBS LAYER l ; VIA 0 0 ; END END m", "MACRO m OBS LAYER l ; VIA ITERATE 0 0 v DO 1 BY 1 STEP 1 1 ; END END m",
              "MACRO m OBS LAYER l ; WIDTH ; END END m", "MACRO m OBS LAYER l SPACING ; END END m", "MACRO m OBS LAYER l EXCEPTPGNET", "MACRO m DENSITY", "MACRO m DENSITY LAYER l ; RECT 0 0 1 1 ; END END m",
              "MACRO m PIN p PORT", "MACRO m PIN p PORT CLASS", "MACRO m PIN p DIRECTION OUTPUT TRISTATE", "MACRO m PIN p DIRECTION OUTPUT x ; END p END m", "MACRO m PIN p ANTENNAGATEAREA", "MACRO m PIN p ANTENNAGATEAREA 1 LAYER ; END p END m",
              "MACRO m CLASS", "MACRO m CLASS ENDCAP ; END m", "MACRO m CLASS COVER x ; END m", "MACRO m FOREIGN", "MACRO m FOREIGN f 1 ; END m", "MACRO m FOREIGN f 1 2 Q ; END m", "MACRO m SYMMETRY", "MACRO m SYMMETRY Q ; END m",
              "VIA v DEFAULT", "VIA v VIARULE", "VIA v VIARULE r ;", "VIA v RESISTANCE", "VIA v LAYER l ; RECT MASK", "VIA v LAYER l ; POLYGON 0 0 1 1 ; END v", "VIA v LAYER l ; RECT ITERATE 0 0 1 1 ; END v", "VIA v PROPERTY p 1 ; END v",
              "SITE", "SITE s", "SITE s ROWPATTERN a N ; END s", "MAXVIASTACK 4 ;", "VIARULE r GENERATE END r", "NONDEFAULTRULE n END n", "LAYER m1 TYPE ROUTING ; END m1", "USEMINSPACING PIN ON ;", "CLEARANCEMEASURE x ;",
              "x" * 300 + " y", "é" * 250 + " y", "VERSION 5.8 ;\n" + "中" * 210 + "\nFOO", "MACRO m OBS LAYER l ; POLYGON 0 0 1 1 ; END END m"]:
        add("handpicked", s)
    # every prefix (on a character boundary)
    for name, b in texts:
        s = b.decode("utf8")
        n = len(s)
        if name == "rich_lean":
            idx = sorted(set(rng.sample(range(n), min(n, 70)) + [e for _, e in tokens(s)] + [a + 1 for a, e in tokens(s) if e - a > 1][::3]))
        elif quick:
            idx = sorted(set(rng.sample(range(n), min(n, 70)) + [e for _, e in tokens(s)][:: max(1, len(tokens(s)) // 25)]))
        else:
            # every prefix of the short texts; for long ones every token end plus a sample (memory: a run is held in RAM)
            idx = range(n) if n <= 900 else sorted(set(rng.sample(range(n), 600) + [e for _, e in tokens(s)][:: max(1, len(tokens(s)) // 300)]))
        for i in idx:
            add("prefix", s[:i])
    # single-token faults
    for name, b in texts:
        s = b.decode("utf8")
        tk = tokens(s)
        if not tk:
            continue
        pos = rng.sample(range(len(tk)), min(len(tk), (len(tk) if name == "rich_lean" else 22) if quick else 120))
        for i in pos:
            a, e = tk[i]
            kinds = ["delete", "duplicate", "swap", "replace"] if not quick else [rng.choice(["delete", "duplicate", "swap", "replace", "replace"])]
            for k in kinds:
                if k == "delete":
                    add("tok_delete", s[:a] + s[e:])
                elif k == "duplicate":
                    add("tok_duplicate", s[:e] + " " + s[a:e] + s[e:])
                elif k == "swap" and i + 1 < len(tk):
                    a2, e2 = tk[i + 1]
                    add("tok_swap", s[:a] + s[a2:e2] + s[e:a2] + s[a:e] + s[e2:])
                elif k == "replace":
                    for r in (rng.sample(REPL, 5) if not quick else [rng.choice(REPL)]):
                        add("tok_replace", s[:a] + r + s[e:])
    # insertion of 1-4 byte characters at token boundaries and inside tokens (names, comments, strings, numbers)
    for name, b in texts:
        s = b.decode("utf8")
        tk = tokens(s)
        if not tk:
            continue
        for _ in range((150 if name.startswith("rich") else 28) if quick else 200):
            a, e = rng.choice(tk)
            ch = rng.choice(UTF)
            where = rng.choice(["before", "after", "inside", "inside"])
            p = a if where == "before" else e if where == "after" else rng.randrange(a, e + 1)
            t = s[a:e]
            cls = "comment" if t.startswith("#") else "string" if t.startswith('"') else "number" if t[:1] in "0123456789.-" else "name"
            add("utf8_%s_%s" % (where, cls), s[:p] + ch + s[p:])
    # medium-long single-line inputs, also through the model
    add("long_line", "MACRO m OBS LAYER l ; " + "RECT 0 0 1 1 ; " * 300 + "END END m")
    add("long_line", "# " + "é" * 3000 + "\nVERSION 5.8 ;")
    add("long_line", "MACRO " + "n中" * 1500 + " FOO")
    add("long_line", 'BEGINEXT "t" ' + "wé " * 800 + "ENDEXT")
    return cases, dist

def timing(chk):
    """wall-clock linearity of the implementation (supporting evidence): time at n, 4n, 16n"""
    fams = {
        "rects": lambda n: "MACRO m OBS LAYER l ; " + "RECT 0 0 1 1 ; " * n + "END END m",
        "comment": lambda n: "# " + "é" * (8 * n) + "\nVERSION 5.8 ;",
        "name": lambda n: "MACRO " + "n" * (15 * n) + " END",
        "string": lambda n: 'MACRO m PROPERTY a "' + "s" * (15 * n) + '" ; END m',
        "ext_nonkeys": lambda n: 'BEGINEXT "t" ' + "wé " * (4 * n) + "ENDEXT",
        "macros": lambda n: "".join("MACRO m%d SIZE 1 BY 2 ; END m%d\n" % (i, i) for i in range(n // 2)),
        "err_late": lambda n: "MACRO m OBS LAYER l ; " + "RECT 0 0 1 1 ; " * n + "FOO",
        # generator audit 2026-10-02: one family per loop of the parser (a loop that recurses or re-scans shows here as a crash or as super-linear time)
        "points": lambda n: "MACRO m OBS LAYER l ; POLYGON " + "0 0 1 1 2 2 " * (n // 2) + "; END END m",
        "props": lambda n: "MACRO m PROPERTY " + 'p 1.5 q "s" ' * n + "; END m",
        # fourth seeded wave (C11-m12): many separate PROPERTY statements in one macro / one pin (the vector of properties is carried from statement to statement)
        "prop_stmts": lambda n: "MACRO m\n" + "PROPERTY p 1.5 ;\n" * (n // 4) + "END m",
        "pin_prop_stmts": lambda n: "MACRO m PIN a\n" + 'PROPERTY q "s" ;\n' * (n // 4) + "END a END m",
        "pins": lambda n: "MACRO m\n" + "PIN p PORT LAYER l ; END END p\n" * (n // 2) + "END m",
        "layers": lambda n: "MACRO m OBS\n" + "LAYER l ; VIA 0 0 v ;\n" * n + "END END m",
        "propdefs": lambda n: "PROPERTYDEFINITIONS\n" + "MACRO p REAL RANGE 0 1 0.5 ;\n" * n + "END PROPERTYDEFINITIONS",
        "sites_vias": lambda n: "".join("SITE s CLASS CORE ; SIZE 1 BY 1 ; END s\nVIA v LAYER l ; RECT 0 0 1 1 ; END v\n" for _ in range(n // 4)),
        "lines_then_err": lambda n: "# é comment\n\n" * (2 * n) + "FOO",
        "err_after_long_string": lambda n: 'MACRO m PROPERTY a "' + "s\n" * (8 * n) + '" FOO',
    }
    base = 3000 if chk.tier == "quick" else 12000
    out = {}
    worst = 0.0
    for name, f in fams.items():
        cs = [{"op": "time", "src": f(base * k).encode("utf8").hex(), "reps": 3} for k in (1, 4, 16)]
        rs = harness("c04", cs)
        if any("ns" not in r for r in rs):
            out[name] = {"error": rs}
            worst = 1e9
            continue
        ns = [r["ns"] for r in rs]
        bytes_ = [len(c["src"]) // 2 for c in cs]
        # growth between the two LARGEST sizes (constant overheads no longer matter there): linear time gives 4,
        # quadratic 16; the violation threshold is 8
        ratio = ns[2] / max(1, ns[1])
        if ratio > 6:
            # measured again before it counts (a loaded machine): the smaller growth is kept
            rs2 = harness("c04", [dict(c, reps=5) for c in cs])
            if all("ns" in r for r in rs2):
                ns2 = [r["ns"] for r in rs2]
                if ns2[2] / max(1, ns2[1]) < ratio:
                    ns, ratio = ns2, ns2[2] / max(1, ns2[1])
        out[name] = {"bytes": bytes_, "ns": ns, "t(16n)/t(4n)": round(ratio, 2), "t(4n)/t(n)": round(ns[1] / max(1, ns[0]), 2)}
        worst = max(worst, ratio)
    return out, worst

C11_HDR = LEF_HDR + "From Coq Require Import Uint63.\nFrom L21 Require Import Lef.LefPack.\n"
_UNHEX = re.compile(r'\(unhex "([0-9a-f]*)"\)')
def pack63(item):
    """rewrite every (unhex "..") literal of a Coq item as (un63 [words]) -- see Lef/LefPack.v: a Coq string literal is
    elaborated at ~10 term nodes per character (77% of the shard time), a primitive 63-bit word is one node"""
    def enc(m):
        b = bytes.fromhex(m.group(1))
        ws = ["0x%x" % (int.from_bytes(b[i:i + 7], "little") | (len(b[i:i + 7]) << 56)) for i in range(0, len(b), 7)]
        return "(un63 [%s]%%uint63)" % ";".join(ws)
    return _UNHEX.sub(enc, item)

def w_code(r):
    w = r.get("w")
    if w is None:
        return None
    return 0 if "text" in w else 1 if "werr" in w else 2

def r2_code(r):
    r2 = r.get("r2")
    if r2 is None:
        return 1
    return 2 if ("panic" in r2 or "crash" in r2) else 0

def slim(r, code):
    """keep the harness answer of a case only when something is wrong with it (memory)"""
    if code == (0, 0) or code[0] == 3 and code[1] == 0:
        rr = r["r"]
        k = next((k for k in ("ok", "err", "panic", "crash") if k in rr), "?")
        return {"r": {k: (json.dumps(rr[k])[:200] if k != "ok" else "...")}, "w": (True if r.get("w") is not None else None)}
    return r

def evaluate(chk, cases, tag, chunk=6000):
    cfg = model_cfg()
    for pr in MODEL_CFG_PROBLEMS:
        if ("translator (LEF defect flags): " + pr) not in chk.broken:
            chk.broken.append("translator (LEF defect flags): " + pr)
    all_res, codes = [], []
    for lo in range(0, len(cases), chunk):
        part = cases[lo:lo + chunk]
        res = harness("c04", [{"op": "rt", "src": c["src"]} for c in part])
        items = []
        for c, r in zip(part, res):
            if "r" not in r:          # the harness process itself died or hung on this case
                r["r"] = {"crash": r.get("crash", "?")}
            i = res_to_coq(r["r"])
            wc = w_code(r)
            rw = "0" if wc is None else "(c11_rewrite_check %d %d)" % (wc, r2_code(r))
            items.append(pack63("(c11_check %s %s %s, %s)" % (cfg, cbytes(c["src"]), i, rw)))
        # shards of equal work: items dealt to the shards by decreasing size (the long texts would otherwise share a shard)
        nsh = max(1, -(-len(items) // 120))
        by_size = sorted(range(len(items)), key=lambda j: -len(items[j]))
        buckets = [by_size[k::nsh] for k in range(nsh)]
        shard = max(1, max(len(b) for b in buckets))
        perm = [j for b in buckets for j in b + [None] * (shard - len(b))]
        outs_p = coq_eval_lists(C11_HDR, [items[j] if j is not None else "(0, 0)" for j in perm], chk.rundir, tag, shard=shard)
        outs = [None] * len(items)
        for j, o in zip(perm, outs_p):
            if j is not None:
                outs[j] = o
        del items
        for o, r in zip(outs, res):
            m = re.match(r"\(\(?(-?\d+)\)?(?:%Z)?, \(?(-?\d+)\)?(?:%Z)?\)", o.strip())
            if not m:
                raise RuntimeError("bad coq output %r" % o)
            cd = (int(m.group(1)), int(m.group(2)))
            codes.append(cd)
            all_res.append(slim(r, cd))
    return all_res, codes

def _classes(viol):
    """failing cases by (what the implementation did, family)"""
    out = {}
    for c, r, cd in viol:
        rr = r["r"] if cd[0] == 2 else (r.get("w") if (r.get("w") or {}).get("wpanic") else r.get("r2")) or {}
        what = next((("%s: %s" % (k, str(rr[k])[:70])) for k in ("panic", "wpanic", "crash") if k in rr), "?")
        key = "%s | %s" % (what, c["kind"])
        out[key] = out.get(key, 0) + 1
    return out

def run(chk, replay=None):
    # the iteration-counting copy of the parser model follows Lef/LefParse.v (C11_steps_linear proves it returns what the model returns)
    g = subprocess.run([sys.executable, os.path.join(os.path.dirname(os.path.abspath(__file__)), "..", "gen_lef_parse_g.py")],
                       capture_output=True, text=True)
    if g.returncode != 0:
        chk.broken.append("translator (Lef/LefParseG.v): " + (g.stderr or g.stdout)[-300:])
    chk.proof_leg(["Lef/LefCheck.vo", "Lef/LefPack.vo"], "Properties/C11.v",
                  ["Lef/LefLex_proofs.v", "Lef/LefParse_proofs.v", "Lef/LefSafety_proofs.v", "Lef/LefCount_proofs.v"], "Properties.C11")
    kernel_tie_leg(chk, "lef_parse")      # LefParser token helpers and parse_density generated from lef21/src/read.rs = Lef/LefParse.v (Properties/KernelsLef.v)
    kernel_tie_leg(chk, "lef_parse2")     # LefParser::parse_units / parse_site_def / parse_macro_class / parse_property / parse_geometry .. (Gen/KernelsLefRead2Gen.v) = Lef/LefParse.v
    kernel_tie_leg(chk, "lef_parse3")     # LefParser::parse_layer_geometries / parse_via_shape / parse_via_layer_geometries / parse_obstructions / parse_port / parse_property_definitions = Lef/LefParse.v
    kernel_tie_leg(chk, "lef_parse_lib")  # LefParser::parse_pin, the whole function = parse_pin / pin_loop of Lef/LefParse.v
    kernel_tie_leg(chk, "lef_parse_macro")  # LefParser::parse_macro, the whole function = parse_macro / macro_loop of Lef/LefParse.v
    kernel_tie_leg(chk, "lef_parse_via")    # LefParser::parse_via, the whole function = parse_via / gen_via_loop / fixed_via_layers_loop of Lef/LefParse.v
    chk.assumptions += [
        "rust_decimal's Decimal::from_str is an external library: specified in Lef/LefDec.v from its source and validated by the correspondence; panics inside it are outside the model",
        "derive_builder `build()` and std formatting are modelled by their documented behaviour",
        "time: the theorems bound the model's fuel (tokens, bytes); wall-clock linearity and stack depth of the implementation are measured, not proved (partial)",
        "the model stands for %s" % model_cfg(),
    ]
    _cfg = model_cfg()
    _m = re.match(r"\(mkcfg (\w+)", _cfg)
    charpos = _cfg == "cfg_orig" or bool(_m and _m.group(1) == "true")
    chk.cov["theorems_cover_this_tree"] = not charpos
    if charpos:
        # the tree has the character-counting lexer again: C11_no_panic & co are stated for c_charpos = false and do not cover it;
        # C11_no_panic_orig_refuted does, and its witness is among the hand-picked cases below (-> VIOLATION with that input)
        chk.assumptions.append("THIS TREE's lexer counts characters (c_charpos = true): the theorems for the repaired lexer do not apply; "
                               "C11_no_panic_orig_refuted applies (witness 'VERSION -\u00e9 ;')")
    if not getattr(chk, "model_ok", False):
        return
    if replay:
        obj = json.load(open(replay))["replay"]
        cases = obj.get("cases", [])
        dist = {}
    else:
        texts = gen_texts(chk)
        cases, dist = gen_cases(chk, texts)
    chk.cov["input_distribution"] = dist
    chk.cov["rule"] = ("valid LEF texts (hand-written corpus incl. the snippets of lef21's tests, plus renderings of generated libraries by the Coq "
                       "specification renderer); every/sampled prefix, single-token faults (delete, duplicate, swap, replace by keyword/number/;/unterminated string), "
                       "insertion of 1-4 byte characters (Latin, CJK, emoji, combining, U+0085, U+2028, NBSP) at token boundaries and inside names, comments, strings, "
                       "numbers; long single lines. Since the generator audit: the library with everything set is among the texts (rich_lean: a prefix at every token end, a fault at "
                       "every token; rich_54), the alphabet has FF / NUL / DEL / BOM / ZWSP / U+2029 / U+10FFFF, hand-picked texts end inside every construct and inside string "
                       "literals, numbers round at the 96-bit limit. A case is non-trivial when the text is non-empty; distinct by bytes.")
    res, codes = evaluate(chk, cases, "c11")
    chk.cov["evaluations"] = len(cases)
    chk.cov["distinct_nontrivial"] = len({c["src"] for c in cases if c["src"]})
    chk.cov["traces_validated_against_impl"] = sum(1 for a, b in codes if a == 0)
    chk.cov["unmodelled_decimal_paths"] = sum(1 for a, b in codes if a == 3)
    outcomes = {"ok": 0, "err": 0, "panic": 0, "crash": 0}
    for r in res:
        for k in outcomes:
            if k in r["r"]:
                outcomes[k] += 1
    chk.cov["impl_outcomes"] = outcomes
    chk.cov["rewrite_checked"] = sum(1 for r in res if r.get("w") is not None)
    chk.add_samples([{"kind": c["kind"], "src_tail": bytes.fromhex(c["src"])[-60:].decode("utf8", "replace"), "codes": cd,
                      "impl": json.dumps(r["r"])[:260]} for c, r, cd in list(zip(cases, res, codes))[:: max(1, len(cases) // 6)]], k=6)
    if not replay:
        tm, worst = timing(chk)
        chk.cov["timing"] = tm
    else:
        worst = 0
    viol = [(c, r, cd) for c, r, cd in zip(cases, res, codes) if cd[0] == 2 or cd[1] == 2]
    mism = [(c, r, cd) for c, r, cd in zip(cases, res, codes) if cd[0] == 1]
    chk.cov["correspondence_mismatches"] = len(mism)
    if viol:
        viol.sort(key=lambda x: len(x[0]["src"]))
        c, r, cd = viol[0]
        what = "read" if cd[0] == 2 else "write/re-read"
        chk.violation("LEF reader crashes (%s): %r -> %s (%d failing cases of %d; kinds %s)" % (
            what, bytes.fromhex(c["src"]).decode("utf8", "replace")[:120], json.dumps(r["r"] if cd[0] == 2 else {"w": r.get("w"), "r2": r.get("r2")})[:300],
            len(viol), len(cases), sorted({v[0]["kind"] for v in viol})[:8]),
            {"cases": [v[0] for v in viol[:50]], "impl": [v[1]["r"] if "ok" not in v[1]["r"] else "ok" for v in viol[:50]],
             "classes": _classes(viol)})
    elif worst > 8:
        chk.violation("LEF reader time is not proportional to input length: t(16n)/t(4n) = %.1f (%s)" % (worst, json.dumps(chk.cov["timing"])[:400]),
                      {"timing": chk.cov["timing"]}, no_input=False)
    elif mism:
        c, r, cd = min(mism, key=lambda x: len(x[0]["src"]))
        chk.broken.append("correspondence C11: impl differs from model (%d cases), e.g. %r impl=%s" % (
            len(mism), bytes.fromhex(c["src"]).decode("utf8", "replace")[:100], json.dumps(r["r"])[:300]))
