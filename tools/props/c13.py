"""C13: point-in-shape answers agree with exact geometry.
Model Geom/Contains.v, spec Geom/ContainsSpec.v, theorems Properties/C13.v, correspondence against
layout21raw ShapeTrait::contains (Rect, Polygon, Path, and through the Shape enum).

One case = one shape + many query points; the Coq checker returns the maximum code over the
queries (+10 when its own decidable `simpleb` says the polygon is simple, which cross-checks the
generator's simplicity test).

Which model of Polygon::contains the impl is compared with follows the SOURCE, re-read on every run
(`model_variant`): the body as found (`let xsolve = ... / ...`) -> `poly_contains_orig` (op 4); the body after
work/c13/fix-polygon-contains.patch (i128 cross product, half-open rule) -> `poly_contains` (op 2); anything
else -> the tie is reported broken. VERIF_C13_ORIG=1 / VERIF_C13_ORIG=0 override (experiments only)."""
import itertools, json, math, os, re
from vlib import *
from props.kernelcommon import kernel_tie_leg

OPS = {"rect": 1, "poly": 2, "path": 3}
ORIG = False
POLY_OP = 2
VARIANT_PROBLEMS = []

def model_variant():
    """True = the tree has Polygon::contains as found, False = the repaired form; None = neither recognised."""
    e = os.environ.get("VERIF_C13_ORIG", "")
    if e in ("0", "1"):
        return e == "1"
    try:
        src = open(os.path.join(REPO, "layout21raw/src/geom.rs"), encoding="utf8").read()
    except OSError as ex:
        VARIANT_PROBLEMS.append("cannot read layout21raw/src/geom.rs: %s" % ex)
        return None
    i = src.find("impl ShapeTrait for Polygon")
    j = src.find("impl ShapeTrait for Path", i)
    if i < 0 or j < 0:
        VARIANT_PROBLEMS.append("impl ShapeTrait for Polygon not found in layout21raw/src/geom.rs")
        return None
    body = re.sub(r"//[^\n]*", "", src[i:j])
    body = re.sub(r"\s+", "", body)
    found = ("letxsolve=(next.x-past.x)*(pt.y-past.y)/(next.y-past.y)+past.x;" in body
             and "ifxsolve==pt.x{returntrue;}elseifxsolve>pt.x{ifnext.y>past.y{winding_num+=1;}else{winding_num-=1;}}" in body)
    fixed = ("letcross=(next.xasi128-past.xasi128)*(pt.yasi128-past.yasi128)-(pt.xasi128-past.xasi128)*(next.yasi128-past.yasi128);" in body
             and "ifcross==0{returntrue;}ifnext.y>past.y{ifpt.y<next.y&&cross>0{winding_num+=1;}}elseifpt.y<past.y&&cross<0{winding_num-=1;}" in body)
    common = ("if!self.points.bbox().contains(pt){returnfalse;}" in body
              and "ifpast.y.min(next.y)<=pt.y&&past.y.max(next.y)>=pt.y{ifnext.y==past.y{ifpast.x.min(next.x)<=pt.x&&past.x.max(next.x)>=pt.x{returntrue;}}else{" in body
              and body.count("winding_num!=0") == 1)
    if common and found and not fixed:
        return True
    if common and fixed and not found:
        return False
    VARIANT_PROBLEMS.append("Polygon::contains in layout21raw/src/geom.rs is neither the body as found nor the repaired body the models stand for")
    return None

# ------------------------------------------------------------------ exact integer geometry (generator side)
def cross(a, b, q):
    return (b[0] - a[0]) * (q[1] - a[1]) - (q[0] - a[0]) * (b[1] - a[1])
def inbox(a, b, q):
    return min(a[0], b[0]) <= q[0] <= max(a[0], b[0]) and min(a[1], b[1]) <= q[1] <= max(a[1], b[1])
def onseg(a, b, q):
    return cross(a, b, q) == 0 and inbox(a, b, q)
def sgn(x):
    return (x > 0) - (x < 0)
def meet(a, b, c, d):
    d1, d2, d3, d4 = sgn(cross(a, b, c)), sgn(cross(a, b, d)), sgn(cross(c, d, a)), sgn(cross(c, d, b))
    return (d1 * d2 < 0 and d3 * d4 < 0) or onseg(a, b, c) or onseg(a, b, d) or onseg(c, d, a) or onseg(c, d, b)
def dedup_cyc(P):
    Q = []
    for p in P:
        if not Q or Q[-1] != p:
            Q.append(p)
    if len(Q) >= 2 and Q[0] == Q[-1]:
        Q = Q[1:]
    return Q
def simple_nodup(P):
    n = len(P)
    if n < 3:
        return False
    E = [(P[i], P[(i + 1) % n]) for i in range(n)]
    for i in range(n):
        e = E[i]
        for j in range(i + 1, n):
            f = E[j]
            if j == i + 1:
                if onseg(e[0], e[1], f[1]) or onseg(f[0], f[1], e[0]):
                    return False
            elif i == 0 and j == n - 1:
                if onseg(e[0], e[1], f[0]) or onseg(f[0], f[1], e[1]):
                    return False
            elif max(e[0][0], e[1][0]) < min(f[0][0], f[1][0]) or max(f[0][0], f[1][0]) < min(e[0][0], e[1][0]):
                continue
            elif meet(e[0], e[1], f[0], f[1]):
                return False
    return True
def is_simple(P):
    return simple_nodup(dedup_cyc([tuple(p) for p in P]))

def py_in_region(P, q):
    """Generator-side copy of the even-odd spec; used only to pick query points and to name a witness."""
    n = len(P)
    c = 0
    for i in range(n):
        a, b = P[i], P[(i + 1) % n]
        if onseg(a, b, q):
            return True
        cr = cross(a, b, q)
        if (a[1] <= q[1] < b[1] and cr > 0) or (b[1] <= q[1] < a[1] and cr < 0):
            c += 1
    return c % 2 == 1

# ------------------------------------------------------------------ polygon generators
def outline(cells):
    """Outer boundary (counter-clockwise, unit steps) of a set of unit cells, starting at the lowest-left vertex.
    At pinch vertices the walk may touch itself; such outlines are classified by is_simple."""
    out = {}
    for (i, j) in cells:
        if (i, j - 1) not in cells: out.setdefault((i, j), []).append((i + 1, j))
        if (i + 1, j) not in cells: out.setdefault((i + 1, j), []).append((i + 1, j + 1))
        if (i, j + 1) not in cells: out.setdefault((i + 1, j + 1), []).append((i, j + 1))
        if (i - 1, j) not in cells: out.setdefault((i, j + 1), []).append((i, j))
    start = min(out, key=lambda p: (p[1], p[0]))
    P = [start]
    cur = start
    prev_dir = (1, 0)
    for _ in range(4 * len(cells) + 8):
        nxts = out[cur]
        if len(nxts) > 1:
            # prefer the sharpest right turn relative to the incoming direction (keeps the outer boundary)
            def key(nx):
                d = (nx[0] - cur[0], nx[1] - cur[1])
                return prev_dir[0] * d[1] - prev_dir[1] * d[0]
            nxts = sorted(nxts, key=key)
        nx = nxts[0]
        out[cur] = [n for n in out[cur] if n != nx]
        prev_dir = (nx[0] - cur[0], nx[1] - cur[1])
        cur = nx
        if cur == start:
            break
        P.append(cur)
    return P

def polyomino(rng, ncells):
    cells = {(0, 0)}
    frontier = [(0, 0)]
    while len(cells) < ncells:
        c = rng.choice(frontier)
        d = rng.choice([(1, 0), (-1, 0), (0, 1), (0, -1)])
        n = (c[0] + d[0], c[1] + d[1])
        if n not in cells:
            cells.add(n)
            frontier.append(n)
    return cells

def drop_collinear(rng, P, keep_prob):
    n = len(P)
    Q = []
    for i in range(n):
        a, b, c = P[i - 1], P[i], P[(i + 1) % n]
        if cross(a, c, b) == 0 and inbox(a, c, b) and rng.random() >= keep_prob:
            continue
        Q.append(b)
    return Q

def gen_rectilinear(rng, maxv):
    for _ in range(50):
        P = outline(polyomino(rng, rng.randrange(1, 14)))
        P = drop_collinear(rng, P, rng.choice([0.0, 0.0, 0.3, 1.0]))
        if len(P) <= maxv:
            break
    # non-uniform grid lines, random offset
    xs = sorted({p[0] for p in P}); ys = sorted({p[1] for p in P})
    ox, oy = rng.randrange(-50, 50), rng.randrange(-50, 50)
    mx, my = {}, {}
    v = ox
    for x in range(xs[0], xs[-1] + 1):
        mx[x] = v; v += rng.choice([1, 1, 2, 3, 7])
    v = oy
    for y in range(ys[0], ys[-1] + 1):
        my[y] = v; v += rng.choice([1, 1, 2, 3, 7])
    return [(mx[p[0]], my[p[1]]) for p in P]

def gen_45(rng, maxv):
    for _ in range(50):
        P = outline(polyomino(rng, rng.randrange(1, 9)))
        P = drop_collinear(rng, P, 0.0)
        if 2 * len(P) <= maxv:
            break
    s = rng.choice([2, 4, 6])
    ox, oy = rng.randrange(-40, 40), rng.randrange(-40, 40)
    P = [(ox + s * p[0], oy + s * p[1]) for p in P]
    n = len(P)
    Q = []
    for i in range(n):
        a, b, c = P[i - 1], P[i], P[(i + 1) % n]
        if rng.random() < 0.7:
            d = rng.randrange(1, s // 2 + 1)
            din = (sgn(b[0] - a[0]), sgn(b[1] - a[1])); dout = (sgn(c[0] - b[0]), sgn(c[1] - b[1]))
            Q.append((b[0] - d * din[0], b[1] - d * din[1]))
            Q.append((b[0] + d * dout[0], b[1] + d * dout[1]))
        else:
            Q.append(b)
    return Q

def gen_star(rng, n, R):
    cx, cy = rng.randrange(-30, 30), rng.randrange(-30, 30)
    pts = set()
    while len(pts) < n:
        p = (cx + rng.randrange(-R, R + 1), cy + rng.randrange(-R, R + 1))
        if p != (cx, cy):
            pts.add(p)
    P = sorted(pts, key=lambda p: (math.atan2(p[1] - cy, p[0] - cx), (p[0] - cx) ** 2 + (p[1] - cy) ** 2))
    return P

def gen_general(rng, maxv):
    """star polygon, then vertices inserted into random edges while the polygon stays simple"""
    P = gen_star(rng, rng.randrange(3, 9), rng.choice([3, 6, 12, 40]))
    if not is_simple(P):
        return P
    target = rng.randrange(len(P), maxv + 1)
    xs = [p[0] for p in P]; ys = [p[1] for p in P]
    lo = (min(xs) - 3, min(ys) - 3); hi = (max(xs) + 3, max(ys) + 3)
    tries = 0
    while len(P) < target and tries < 6 * maxv:
        tries += 1
        i = rng.randrange(len(P))
        v = (rng.randrange(lo[0], hi[0] + 1), rng.randrange(lo[1], hi[1] + 1))
        Q = P[:i + 1] + [v] + P[i + 1:]
        if v not in P and simple_nodup(Q):
            P = Q
    return P

def add_collinear_and_repeats(rng, P):
    """insert lattice points lying on edges, and consecutive repeats"""
    Q = []
    n = len(P)
    for i in range(n):
        a, b = P[i], P[(i + 1) % n]
        Q.append(a)
        if rng.random() < 0.25:
            Q.extend([a] * rng.choice([1, 1, 2]))
        g = math.gcd(abs(b[0] - a[0]), abs(b[1] - a[1]))
        if g > 1 and rng.random() < 0.5:
            ks = sorted(rng.sample(range(1, g), min(g - 1, rng.choice([1, 1, 2]))))
            for k in ks:
                Q.append((a[0] + k * (b[0] - a[0]) // g, a[1] + k * (b[1] - a[1]) // g))
    return Q

def poly_queries(rng, P, budget):
    """on, adjacent to and far from the boundary; points at the height of vertices"""
    n = len(P)
    xs = [p[0] for p in P]; ys = [p[1] for p in P]
    x0, x1, y0, y1 = min(xs), max(xs), min(ys), max(ys)
    core = set()
    for i in range(n):
        a, b = P[i], P[(i + 1) % n]
        core.add(a)
        m = ((a[0] + b[0]) // 2, (a[1] + b[1]) // 2)
        g = math.gcd(abs(b[0] - a[0]), abs(b[1] - a[1]))
        if g > 1:
            k = rng.randrange(1, g)
            m = (a[0] + k * (b[0] - a[0]) // g, a[1] + k * (b[1] - a[1]) // g)
        core.add(m)
    qs = set(core)
    for c in core:
        for dx in (-1, 0, 1):
            for dy in (-1, 0, 1):
                qs.add((c[0] + dx, c[1] + dy))
    # same height as vertices: left of everything, at other vertices' x, +-1, right of everything
    xcand = sorted(set([x0 - 2, x0 - 1, x1 + 1] + [x + d for x in xs for d in (-1, 0, 1)]))
    for y in set(ys):
        for x in (xcand if len(xcand) <= 12 else rng.sample(xcand, 12) + [x0 - 1, x1 + 1]):
            qs.add((x, y))
    for _ in range(20):
        qs.add((rng.randrange(x0 - 1, x1 + 2), rng.randrange(y0 - 1, y1 + 2)))
    for f in ((x0 - 1000, y0), (x1 + 1000, (y0 + y1) // 2), ((x0 + x1) // 2, y1 + 1000), ((x0 + x1) // 2, y0 - 1000),
              (x0 - 10 ** 6, y0 - 10 ** 6), (x1 + 10 ** 6, ys[0])):
        qs.add(f)
    qs = sorted(qs)
    if len(qs) > budget:
        keep = set(core)
        rest = [q for q in qs if q not in keep]
        qs = sorted(keep | set(rng.sample(rest, max(0, budget - len(keep)))))
    return qs

# ------------------------------------------------------------------ case generation
def enum_cases(chk, G, ns, sample=None, with_nonsimple=0):
    """all vertex sequences of distinct grid points of lengths ns that are simple (every start, both orientations);
    returns list of (n, enc, pts). `sample` caps the number kept per n (random subset)."""
    rng = chk.rng
    pts = [(x, y) for y in range(G) for x in range(G)]
    out = []
    nons = []
    for n in ns:
        cur = []
        for P in itertools.permutations(pts, n):
            if simple_nodup(P):
                cur.append(P)
            elif with_nonsimple and rng.random() < with_nonsimple:
                nons.append(P)
        if sample and len(cur) > sample:
            cur = rng.sample(cur, sample)
        out.extend(cur)
    return out, nons

def enc_poly(G, P):
    e = 0
    for i, p in enumerate(P):
        e += (p[0] + G * p[1]) * (G * G) ** i
    return e

def gen_cases(chk):
    rng = chk.rng
    quick = chk.tier == "quick"
    cases = []
    dist = {}
    def add(kind, op, pts, qs=None, w=0, grid=None, simple=None):
        c = {"op": op, "pts": [list(p) for p in pts], "w": w, "kind": kind}
        if grid is not None:
            c["grid"] = list(grid)
        else:
            c["qs"] = [list(q) for q in qs]
        if simple is not None:
            c["simple"] = simple
        cases.append(c)
        dist[kind] = dist.get(kind, 0) + 1

    # 1. rectangles: every ordered corner pair on the 4x4 (5x5) grid, every point of the grid extended by one
    G = 4 if quick else 5
    gp = [(x, y) for y in range(G) for x in range(G)]
    for p0 in gp:
        for p1 in gp:
            add("rect_grid", "rect", [p0, p1], grid=(-1, -1, G, G))
    for _ in range(100 if quick else 3000):
        m = rng.choice([10, 1000, 2 ** 31, 2 ** 62])
        p0 = (rng.randrange(-m, m), rng.randrange(-m, m)); p1 = (rng.randrange(-m, m), rng.randrange(-m, m))
        qs = [p0, p1, (p0[0], p1[1]), (p1[0], p0[1])]
        qs += [(q[0] + dx, q[1] + dy) for q in list(qs) for dx in (-1, 0, 1) for dy in (-1, 0, 1)]
        qs += [((p0[0] + p1[0]) // 2, (p0[1] + p1[1]) // 2), (rng.randrange(-m, m), rng.randrange(-m, m))]
        add("rect_random", "rect", [p0, p1], qs=sorted(set(qs)))

    # 2. special polygons: known witnesses, degenerate vertex lists, extreme coordinates
    add("poly_witness", "poly", [(0, 0), (5, 0), (5, 4), (0, 4), (1, 2)], grid=(-1, -1, 6, 5))
    add("poly_witness", "poly", [(0, 0), (1, 3), (1, 0)], grid=(-1, -1, 2, 4))
    add("poly_degenerate", "poly", [], grid=(-1, -1, 1, 1))
    add("poly_degenerate", "poly", [(0, 0)], grid=(-1, -1, 1, 1))
    add("poly_degenerate", "poly", [(0, 0), (2, 2)], grid=(-1, -1, 3, 3))
    add("poly_degenerate", "poly", [(0, 0), (2, 0), (1, 0)], grid=(-1, -1, 3, 1))
    add("poly_degenerate", "poly", [(1, 1), (1, 1), (1, 1)], grid=(0, 0, 2, 2))
    for m in (2 ** 30 - 1, 2 ** 31 - 1, 2 ** 62, 2 ** 63 - 1):
        P = [(-m, -m), (m, -m + 1), (m - 1, m), (-m + 5, m - 7)]
        qs = [(0, 0), (m, m), (-m, -m), (m - 1, m - 1), (0, m), (0, m - 1), (m, 0), (-m, 0), (5, -m + 1), (m // 2, m // 3)]
        add("poly_extreme", "poly", P, qs=qs, simple=None)
        add("poly_extreme", "poly", [(-m - 1 if m == 2 ** 63 - 1 else -m, -m), (m, m), (0, 5)], qs=qs)

    # 3. exhaustive: every simple vertex sequence on the grid (all starts, both orientations)
    enum = []
    if quick:
        E, nons = enum_cases(chk, 4, (3, 4, 5), with_nonsimple=0.02)
        enum.append((4, E, "poly_enum4x4_simple"))
        enum.append((4, nons, "poly_enum4x4_nonsimple"))
        chk.cov["exhaustive_subspace"] = ("all %d simple polygons with 3-5 distinct vertices on the 4x4 grid (every starting vertex, both orientations), "
                                          "each queried at all 36 points of the grid extended by one unit; all 256 ordered corner pairs as rectangles" % len(E))
    else:
        E, nons = enum_cases(chk, 4, (3, 4, 5, 6), with_nonsimple=0.05)
        enum.append((4, E, "poly_enum4x4_simple"))
        enum.append((4, nons, "poly_enum4x4_nonsimple"))
        E5, nons5 = enum_cases(chk, 5, (3, 4, 5), with_nonsimple=0.02)
        enum.append((5, E5, "poly_enum5x5_simple"))
        enum.append((5, nons5, "poly_enum5x5_nonsimple"))
        # six vertices on 5x5: random sample of sequences
        S6 = []
        gp5 = [(x, y) for y in range(5) for x in range(5)]
        while len(S6) < 300000:
            P = tuple(rng.sample(gp5, 6))
            if simple_nodup(P):
                S6.append(P)
        enum.append((5, S6, "poly_enum5x5_6v_sample"))
        chk.cov["exhaustive_subspace"] = ("all %d simple polygons with 3-6 distinct vertices on the 4x4 grid and all %d with 3-5 on the 5x5 grid "
                                          "(every start, both orientations), each at all points of the grid extended by one unit; "
                                          "300000 sampled 6-vertex ones on 5x5" % (len(E), len(E5)))
    # repeated-vertex variants of enumerated polygons (explicit cases)
    base = [P for P in enum[0][1] if len(P) <= 4]
    for P in rng.sample(base, min(len(base), 1500 if quick else 20000)):
        i = rng.randrange(len(P))
        Q = list(P[:i + 1]) + [P[i]] * rng.choice([1, 1, 2]) + list(P[i + 1:])
        add("poly_enum_repeat", "poly", Q, grid=(-1, -1, 4, 4), simple=True)

    # 4. random larger polygons
    NR = 150 if quick else 6000
    for kind, gen in (("poly_rectilinear", gen_rectilinear), ("poly_45deg", gen_45), ("poly_general", gen_general)):
        for k in range(NR):
            P = gen(rng, 40)
            if rng.random() < 0.5:
                P = add_collinear_and_repeats(rng, P)
            s = is_simple(P)
            variants = [P]
            if k % 10 == 0 and len(P) <= 24:
                variants = [P[i:] + P[:i] for i in range(len(P))]
                variants += [list(reversed(v)) for v in variants]
            elif rng.random() < 0.5:
                i = rng.randrange(len(P))
                variants = [P[i:] + P[:i]]
                if rng.random() < 0.5:
                    variants = [list(reversed(variants[0]))]
            qs = poly_queries(rng, P, 700 if len(variants) == 1 else 120)
            for V in variants:
                add(kind + ("" if s else "_nonsimple") + ("_allshifts" if len(variants) > 1 else ""), "poly", V, qs=qs, simple=s)
    # random non-simple vertex lists (the theorem for the non-zero-winding spec covers them; property silent)
    for _ in range(150 if quick else 5000):
        n = rng.randrange(3, 12)
        P = [(rng.randrange(0, 8), rng.randrange(0, 8)) for _ in range(n)]
        add("poly_random_list", "poly", P, grid=(-1, -1, 8, 8), simple=is_simple(P))

    # (generator audit 2026-10-02) the same random polygons far from the origin and blown up: vertices near 2^31, 2^40, 2^52, 2^61 (the cross
    # products need more than 64 bits; a double holds neither the coordinates nor the products), queried ON, next to and far from the boundary
    for k in range(36 if quick else 1500):
        gen = (gen_rectilinear, gen_45, gen_general)[k % 3]
        P = gen(rng, 16)
        sc = [1, 10 ** 6, 10 ** 9 + 7, 10 ** 15 + 37, 3 * 10 ** 16 + 1, 10 ** 12 + 39, 3][k % 7]
        tx, ty = [(2 ** 31 - 200, -(2 ** 31) + 200), (-(2 ** 40), 2 ** 40 + 7), (2 ** 52 + 1, 2 ** 52 + 3), (-(2 ** 61), 2 ** 61 - 12345), (2 ** 33, -5), (0, 2 ** 53 - 1)][k % 6]
        xs = [q[0] for q in P]; ys = [q[1] for q in P]
        if k % 4 == 3:
            # fill the i32 range (the coordinates of a GDSII file): extent just below 2^32 in the larger direction
            sc = (2 ** 32 - 2) // max(max(xs) - min(xs), max(ys) - min(ys), 1)
            tx, ty = -(2 ** 31) - sc * min(xs), -(2 ** 31) - sc * min(ys)
        elif k % 4 == 1:
            # fill the range in which the property itself is judged (|coordinate| < 2^30)
            sc = (2 ** 31 - 4) // max(max(xs) - min(xs), max(ys) - min(ys), 1)
            tx, ty = -(2 ** 30) + 1 - sc * min(xs), -(2 ** 30) + 1 - sc * min(ys)
        elif sc > 10 ** 14:
            tx, ty = -sc * min(xs) - 2 ** 60, -sc * min(ys) - 2 ** 60
        if max(abs(tx), abs(ty)) + sc * max(max(abs(v) for v in xs), max(abs(v) for v in ys)) >= 2 ** 62 - 2:
            sc, tx, ty = 1000, -(2 ** 61), 2 ** 61 - 12345
        Q = [(tx + sc * x, ty + sc * y) for x, y in P]
        if rng.random() < 0.5:
            i = rng.randrange(len(Q))
            Q = Q[i:] + Q[:i]
        if rng.random() < 0.5:
            Q = list(reversed(Q))
        add("poly_large_coords" + ("" if is_simple(Q) else "_nonsimple"), "poly", Q, qs=poly_queries(rng, Q, 160), simple=is_simple(Q))
    # many vertices: a comb with 100 teeth (402 vertices), probed in the teeth, in the gaps, on the spine and at the tips' height
    comb = [(0, 0)]
    for t in range(100):
        comb += [(4 * t, 10 + (t % 3)), (4 * t + 2, 10 + (t % 3)), (4 * t + 2, 2), (4 * t + 4, 2)]
    comb += [(400, 0)]
    cq = []
    for t in (0, 1, 2, 49, 50, 98, 99):
        cq += [(4 * t + 1, 5), (4 * t + 3, 5), (4 * t + 1, 10 + (t % 3)), (4 * t + 3, 2), (4 * t + 3, 3), (4 * t + 2, 6), (4 * t, 10 + (t % 3)), (4 * t - 1, 10), (4 * t + 1, 13), (4 * t + 3, 1)]
    add("poly_many_vertices", "poly", comb, qs=sorted(set(cq)), simple=True)
    add("poly_many_vertices", "poly", list(reversed(comb[200:] + comb[:200])), qs=sorted(set(cq)), simple=True)
    # rectangles whose corners are the largest and smallest integers
    I = 2 ** 63 - 1
    for p0, p1 in (((-I - 1, -I - 1), (I, I)), ((I, -I - 1), (-I - 1, I)), ((I, I), (I, I)), ((-I - 1, 5), (-I - 1, -5)), ((0, I), (I, 0))):
        add("rect_extreme", "rect", [p0, p1], qs=sorted({p0, p1, (p0[0], p1[1]), (p1[0], p0[1]), (0, 0), (I, I), (-I - 1, -I - 1), (I, -I - 1), (-I - 1, I), (I - 1, I), (-I, -I - 1), (-I - 1, 0), (0, I), (1, 1)}))

    # 5. paths
    add("path_degenerate", "path", [], qs=[(0, 0)], w=2)
    add("path_degenerate", "path", [(1, 1)], grid=(0, 0, 2, 2), w=4)
    add("path_degenerate", "path", [(1, 1), (1, 1)], grid=(-2, -2, 4, 4), w=3)
    add("path_nonmanhattan", "path", [(0, 0), (5, 0), (6, 3)], grid=(-3, -3, 8, 5), w=3)
    add("path_nonmanhattan", "path", [(0, 0), (3, 3), (3, 6)], grid=(-1, -1, 4, 7), w=2)
    add("path_extreme", "path", [(0, 0), (10, 0)], qs=[(0, 0), (5, 5)], w=2 ** 63 - 1)
    add("path_extreme", "path", [(0, 0), (10, 0)], qs=[(0, 0), (5, 5)], w=2 ** 63)
    add("path_extreme", "path", [(0, 2 ** 63 - 3), (10, 2 ** 63 - 3)], qs=[(0, 0), (5, 2 ** 63 - 3)], w=10)
    for k in range(400 if quick else 12000):
        n = rng.randrange(2, 9)
        w = rng.choice([0, 1, 2, 3, 4, 5, 6, 7, 8, 9, 10, 11, 12, 13])
        P = [(rng.randrange(-10, 10), rng.randrange(-10, 10))]
        horiz = rng.random() < 0.5
        for _ in range(n - 1):
            d = rng.choice([-9, -5, -3, -2, -1, 0, 1, 2, 3, 5, 9]) if rng.random() < 0.9 else 0
            a = P[-1]
            P.append((a[0] + d, a[1]) if horiz else (a[0], a[1] + d))
            if rng.random() < 0.85:
                horiz = not horiz
        xs = [p[0] for p in P]; ys = [p[1] for p in P]
        h = w // 2 + 2
        add("path_w_odd" if w % 2 else "path_w_even", "path", P, grid=(min(xs) - h, min(ys) - h, max(xs) + h, max(ys) + h), w=w)
    # (generator audit 2026-10-02) paths far from the origin, long segments and large widths: queried at half the width on each side of
    # every segment, one unit inside and outside it, and beyond both ends
    for k in range(24 if quick else 800):
        tx, ty = [(2 ** 31 - 40, -(2 ** 31) + 40), (-(2 ** 40), 2 ** 40 + 7), (2 ** 52 + 1, -(2 ** 52) - 3), (-(2 ** 61), 2 ** 61 - 12345), (0, 0), (2 ** 33, -5)][k % 6]
        L = [1, 9, 1000, 10 ** 6, 2 ** 31, 2 ** 33][(k // 2) % 6]
        w = [0, 1, 2, 3, 4, 7, 1000, 1001, 2 ** 31 - 1, 2 ** 31, 2 ** 32 + 1, 2 ** 40][k % 12]
        n = rng.randrange(2, 5)
        P = [(tx, ty)]
        horiz = k % 2 == 0
        for _ in range(n - 1):
            d = rng.choice([-1, 1]) * rng.randrange(max(1, L // 2), L + 1)
            a = P[-1]
            P.append((a[0] + d, a[1]) if horiz else (a[0], a[1] + d))
            horiz = not horiz
        h = w // 2
        qs = set()
        for a, b in zip(P, P[1:]):
            for t in (a, b, ((a[0] + b[0]) // 2, (a[1] + b[1]) // 2)):
                for o in (0, h - 1, h, h + 1, -h + 1, -h, -h - 1):
                    qs.add((t[0] + o, t[1])); qs.add((t[0], t[1] + o)); qs.add((t[0] + o, t[1] + o)); qs.add((t[0] + o, t[1] - o))
            dx, dy = sgn(b[0] - a[0]), sgn(b[1] - a[1])
            qs.add((a[0] - dx, a[1] - dy)); qs.add((b[0] + dx, b[1] + dy)); qs.add((b[0] + dx * (h + 1), b[1] + dy * (h + 1)))
        add("path_large_coords", "path", P, qs=sorted(qs), w=w)
    return cases, dist, enum

# ------------------------------------------------------------------ evaluation
HDR = ("From Coq Require Import ZArith List.\nImport ListNotations.\n"
       "From L21 Require Import Geom.ContainsSpec Geom.Contains Geom.ContainsCheck.\nOpen Scope Z_scope.\n")

def case_queries(c):
    if "grid" in c:
        x0, y0, x1, y1 = c["grid"]
        return [(x, y) for y in range(y0, y1 + 1) for x in range(x0, x1 + 1)]
    return [tuple(q) for q in c["qs"]]

def hcase(c):
    h = {"op": c["op"], "pts": c["pts"], "w": c["w"]}
    if "grid" in c:
        h["grid"] = c["grid"]
    else:
        h["qs"] = c["qs"]
    return h

def coq_case(c, r):
    op = POLY_OP if c["op"] == "poly" else OPS[c["op"]]
    pts = clist([ctup(cz(p[0]), cz(p[1])) for p in c["pts"]])
    qs = clist([ctup(ctup(cz(q[0]), cz(q[1])), cz(a)) for q, a in zip(case_queries(c), r)])
    return capp("c13_check", cz(op), pts, cz(c["w"]), qs)

def parse_zlist(s):
    return [int(t) for t in re.findall(r"-?\d+", s)]

def evaluate(chk, cases, tag, batch=8):
    """returns list of (code, simple_flag or None, impl result dict)"""
    res = harness("c13", [hcase(c) for c in cases])
    out = [None] * len(cases)
    exprs, idx = [], []
    for i, (c, r) in enumerate(zip(cases, res)):
        nq = len(case_queries(c))
        if "r" not in r or len(r["r"]) != nq or any(v == 3 for v in r["r"]):
            out[i] = (2, None, r)      # harness failure / Shape enum disagrees with the concrete type
        else:
            exprs.append(coq_case(c, r["r"])); idx.append(i)
    items = [clist(exprs[k:k + batch]) for k in range(0, len(exprs), batch)]
    outs = coq_eval_lists(HDR, items, chk.rundir, tag, shard=40)
    flat = []
    for s, k in zip(outs, range(0, len(exprs), batch)):
        v = parse_zlist(s)
        if len(v) != len(exprs[k:k + batch]):
            raise RuntimeError("bad Coq output: %r" % s[:200])
        flat.extend(v)
    for i, v in zip(idx, flat):
        out[i] = (v % 10, (v // 10 == 1) if cases[i]["op"] == "poly" else None, res[i])
    return out

def evaluate_enum(chk, G, polys, tag, batch=250):
    """compact path for enumerated grid polygons. returns list of codes (simple flag folded: code%10, code//10)"""
    hc = [{"op": "poly", "pts": [list(p) for p in P], "w": 0, "grid": [-1, -1, G, G]} for P in polys]
    res = harness("c13", hc)
    items = []
    masks = []
    for P, r in zip(polys, res):
        if "r" not in r or any(v > 1 for v in r["r"]):
            masks.append(None)
        else:
            m = 0
            for k, v in enumerate(r["r"]):
                if v:
                    m |= 1 << k
            masks.append(m)
    good = [i for i, m in enumerate(masks) if m is not None]
    for k in range(0, len(good), batch):
        chunk = good[k:k + batch]
        items.append(capp("c13_check_enum", cz(POLY_OP), cz(G),
                          clist([ctup(cnat(len(polys[i])), cz(enc_poly(G, polys[i])), cz(masks[i])) for i in chunk])))
    outs = coq_eval_lists(HDR, items, chk.rundir, tag, shard=30)
    codes = [22] * len(polys)     # harness failure on a grid polygon: treated as violation
    for s, k in zip(outs, range(0, len(good), batch)):
        chunk = good[k:k + batch]
        v = parse_zlist(s)
        if len(v) != len(chunk):
            raise RuntimeError("bad Coq output: %r" % s[:200])
        for i, x in zip(chunk, v):
            codes[i] = x
    return codes, res

def single_query_witness(chk, c, r):
    """split a failing case into one-query cases and return the (query, impl answer) pairs with code 2"""
    qs = case_queries(c)
    subs = []
    for q, a in zip(qs, r):
        subs.append(({"op": c["op"], "pts": c["pts"], "w": c["w"], "qs": [list(q)]}, [a]))
    exprs = [coq_case(s, a) for s, a in subs]
    outs = coq_eval_lists(HDR, [clist(exprs[k:k + 50]) for k in range(0, len(exprs), 50)], chk.rundir, "c13w", shard=20)
    flat = []
    for s in outs:
        flat.extend(parse_zlist(s))
    return [(q, a) for q, a, v in zip(qs, r, flat) if v % 10 == 2]

def case_bbox(c):
    """the shape's bounding box (for paths: widened by width/2); queries inside it make the scan really run"""
    P = c["pts"]
    if not P:
        return None
    xs = [p[0] for p in P]; ys = [p[1] for p in P]
    h = c["w"] // 2 if c["op"] == "path" else 0
    return (min(xs) - h, max(xs) + h, min(ys) - h, max(ys) + h)

def run(chk, replay=None):
    global ORIG, POLY_OP
    v = model_variant()
    ORIG = bool(v)
    POLY_OP = 4 if ORIG else 2
    for pr in VARIANT_PROBLEMS:
        chk.broken.append("tie C13: " + pr + " (compared with the repaired model)")
    chk.proof_leg(["Geom/ContainsCheck.vo"], "Properties/C13.v", ["Geom/Contains_proofs.v", "Geom/KernelsTieContains_proofs.v"], "Properties.C13")
    kernel_tie_leg(chk, "contains")       # generated-from-source kernels = the model functions (Properties/Kernels.v)
    chk.assumptions += [
        "isize is 64 bits; integer overflow is modelled as a distinct outcome (Ovf): C13_polygon holds for every returned answer with no coordinate bound, "
        "and C13_polygon_no_overflow excludes Ovf for |coordinate| < 2^62 (repaired code, i128 cross product); paths: |coordinate| < 2^62 and width < 2^62",
        "C13_polygon is proved for ALL vertex lists against the non-zero-winding closed region (the code is a winding-number test); equality with the even-odd region is proved "
        "when the signed crossing count is within {-1,0,1}; that simple polygons satisfy this bound (Jordan curve theorem, C13_simple_winding_bound_full) is NOT proved -- "
        "the correspondence run checks the impl against the even-odd region on every generated simple polygon, exhaustively on small grids",
        "simplicity of a polygon is decided by Geom/ContainsSpec.simpleb inside Coq and independently by the generator; the two are compared",
        "the winding counter itself (isize += 1) cannot overflow for vertex lists shorter than 2^63",
        "which model of Polygon::contains the impl is compared with is read from layout21raw/src/geom.rs on every run: %s" % ("code as found (poly_contains_orig)" if ORIG else "repaired code (poly_contains)"),
    ]
    if not getattr(chk, "model_ok", False):
        return
    if replay:
        obj = json.load(open(replay))["replay"]
        cases = obj.get("cases", [])
        dist, enum = {}, []
    else:
        cases, dist, enum = gen_cases(chk)
    results = evaluate(chk, cases, "c13") if cases else []
    evals = sum(len(case_queries(c)) for c in cases)
    nontriv_set = set()
    for c in cases:
        bb = case_bbox(c)
        if bb is None:
            continue
        key = (c["op"], tuple(map(tuple, c["pts"])), c["w"])
        for q in case_queries(c):
            if bb[0] <= q[0] <= bb[1] and bb[2] <= q[1] <= bb[3]:
                nontriv_set.add((key, q))
    nontriv = len(nontriv_set)
    ok0 = sum(len(case_queries(c)) for c, r in zip(cases, results) if r[0] == 0)
    viol = [(c, r) for c, r in zip(cases, results) if r[0] == 2]
    mism = [(c, r) for c, r in zip(cases, results) if r[0] == 1]
    simple_disagree = [c for c, r in zip(cases, results) if c.get("simple") is not None and r[1] is not None and c["simple"] != r[1]]
    nsimple = sum(1 for c, r in zip(cases, results) if r[1])
    # enumerated polygons (compact path)
    for gi, (G, polys, kind) in enumerate(enum):
        if not polys:
            continue
        dist[kind] = len(polys)
        codes, res = evaluate_enum(chk, G, polys, "c13e%d" % gi)
        nq = (G + 2) * (G + 2)
        evals += nq * len(polys)
        expect_simple = "nonsimple" not in kind
        for P, v, r in zip(polys, codes, res):
            xs = [p[0] for p in P]; ys = [p[1] for p in P]
            nontriv += (max(xs) - min(xs) + 1) * (max(ys) - min(ys) + 1)
            code, s = v % 10, v // 10 == 1
            c = {"op": "poly", "pts": [list(p) for p in P], "w": 0, "grid": [-1, -1, G, G], "kind": kind, "simple": expect_simple}
            if s:
                nsimple += 1
            if s != expect_simple and v != 22:
                simple_disagree.append(c)
            if code == 0:
                ok0 += nq
            elif code == 2:
                viol.append((c, (2, s, r)))
            else:
                mism.append((c, (1, s, r)))
    chk.cov["input_distribution"] = dist
    chk.cov["rule"] = ("one evaluation = one (shape, query point) pair answered by the impl (concrete type and Shape enum) and checked in Coq against model and spec; "
                       "non-trivial = the point lies in the shape's bounding box (for paths: widened by width/2), so the edge scan really runs; distinct by (shape, vertex list, width, point)")
    chk.cov["evaluations"] = evals
    chk.cov["distinct_nontrivial"] = nontriv
    chk.cov["traces_validated_against_impl"] = ok0
    chk.cov["polygons_judged_simple"] = nsimple
    chk.cov["correspondence_mismatches"] = len(mism)
    chk.cov["model_compared"] = "poly_contains_orig (code before the repair)" if ORIG else "poly_contains (repaired code)"
    step = max(1, len(cases) // 5)
    chk.add_samples([{"case": {k: (v if k != "qs" else v[:6]) for k, v in c.items()}, "impl": (r[2].get("r", r[2])[:12] if isinstance(r[2].get("r", None), list) else r[2]), "code": r[0]}
                     for c, r in list(zip(cases, results))[::step]], k=6)
    if simple_disagree:
        chk.broken.append("correspondence C13: generator and Coq simpleb disagree on %d polygons, e.g. %s" % (len(simple_disagree), simple_disagree[0]["pts"]))
    if viol:
        viol.sort(key=lambda cr: (len(cr[0]["pts"]), max([abs(v) for p in cr[0]["pts"] for v in p] + [0]), len(case_queries(cr[0]))))
        c, r = viol[0]
        wit = []
        if isinstance(r[2], dict) and "r" in r[2]:
            try:
                wit = single_query_witness(chk, c, r[2]["r"])
            except Exception as ex:
                wit = [("witness split failed", str(ex)[:200])]
        nq_bad = len(wit)
        chk.violation("%s::contains: %s pts=%s w=%d fails the property at %s (query, impl answer 0/1/2=panic); %d failing shapes of %d (%d evaluations)"
                      % (c["op"], c.get("kind"), c["pts"], c["w"], wit[:4] if wit else r[2], len(viol), len(cases) + sum(len(e[1]) for e in enum), evals),
                      {"cases": [{k: v for k, v in cc.items()} for cc, _ in viol[:40]],
                       "witness": {"case": c, "failing_queries": [[list(q) if isinstance(q, tuple) else q, a] for q, a in wit[:20]]}})
    elif mism:
        c, r = mism[0]
        chk.broken.append("correspondence C13: impl differs from the model where the property is silent, e.g. %s pts=%s w=%s impl=%s"
                          % (c["op"], c["pts"], c["w"], str(r[2])[:200]))

