"""Shared code of the GDSII stream checks C01, C02, C03, C10.

A library is a Python dict in the harness' JSON shape, except that strings are `bytes`:
 lib   = {name, version, dates[12], units[2 u64 bit patterns], structs[{name, dates[12], elems[...]}]}
 elem  = {k: boundary|path|sref|aref|text|node|box, ...fields..., elflags, plex, props[[attr, bytes]]}
Conversions: to_json (harness input), from_json (harness output), to_coq (Gallina term)."""
import json, os, re, struct, copy
from vlib import *

EKIND = {"RecordDecode": 0, "RecordLen": 1, "InvalidDataType": 2, "InvalidRecordType": 3,
         "Unsupported": 4, "Parse": 5, "Boxed": 6, "Str": 7}
HDR = ("From Coq Require Import ZArith List String.\nImport ListNotations.\n"
       "From L21 Require Import Base.Outcome Base.Hex Gds.GdsData Gds.GdsRecord Gds.GdsWrite Gds.GdsRead Gds.GdsSpec Gds.GdsCheck.\n"
       "Open Scope Z_scope.\n")
MODEL_TARGETS = ["Gds/GdsCheck.vo"]
PROOF_FILES = ["Gds/GdsWrite_proofs.v", "Gds/GdsRead_proofs.v", "Gds/GdsSpec_proofs.v", "Gds/GdsRoundtrip_proofs.v"]

def f2b(x):
    return struct.unpack(">Q", struct.pack(">d", x))[0]

# ---------------------------------------------------------------- Coq terms
def cbytes(b):
    """bytes -> Coq term of type list Z; long runs of one byte become `rep`, long literals are chunked"""
    b = bytes(b)
    if len(b) == 0:
        return Raw("(@nil Z)")
    if len(b) > 256:
        # find the longest run
        best = (0, 0)
        i = 0
        n = len(b)
        while i < n:
            j = i
            while j < n and b[j] == b[i]:
                j += 1
            if j - i > best[1] - best[0]:
                best = (i, j)
            i = j
        s, e = best
        if e - s > 128:
            parts = []
            if s > 0:
                parts.append(cbytes(b[:s]))
            parts.append("(rep %d %d)" % (b[s], e - s))
            if e < n:
                parts.append(cbytes(b[e:]))
            return Raw("(" + " ++ ".join(parts) + ")")
    if len(b) > 2000:
        chunks = [b[i:i + 2000] for i in range(0, len(b), 2000)]
        return Raw("(List.concat [" + "; ".join('unhex "%s"' % c.hex() for c in chunks) + "])")
    return Raw('(unhex "%s")' % b.hex())

def jbytes(b):
    """bytes -> harness JSON (hex string, or parts with runs)"""
    b = bytes(b)
    if len(b) > 4096:
        i = 0
        n = len(b)
        parts = []
        lit = bytearray()
        while i < n:
            j = i
            while j < n and b[j] == b[i]:
                j += 1
            if j - i > 64:
                if lit:
                    parts.append(lit.hex()); lit = bytearray()
                parts.append([b[i], j - i])
            else:
                lit += b[i:j]
            i = j
        if lit:
            parts.append(lit.hex())
        return parts
    return b.hex()

def cdates(d):
    return Raw("(mkDTs (mkDT %s) (mkDT %s))" % (" ".join(cz(x) for x in d[0:6]), " ".join(cz(x) for x in d[6:12])))

def cpoints(xy):
    """flat int list -> list point; long constant runs use `repeat`"""
    pts = [(xy[2 * i], xy[2 * i + 1]) for i in range(len(xy) // 2)]
    def lit(ps):
        return "[" + "; ".join("mkPt %s %s" % (cz(x), cz(y)) for x, y in ps) + "]"
    if len(pts) > 64:
        best = (0, 0)
        i = 0
        n = len(pts)
        while i < n:
            j = i
            while j < n and pts[j] == pts[i]:
                j += 1
            if j - i > best[1] - best[0]:
                best = (i, j)
            i = j
        s, e = best
        if e - s > 32:
            return Raw("(%s ++ repeat (mkPt %s %s) %d%%nat ++ %s)" % (lit(pts[:s]), cz(pts[s][0]), cz(pts[s][1]), e - s, lit(pts[e:])))
    return Raw(lit(pts))

def cpoint(xy):
    return Raw("(mkPt %s %s)" % (cz(xy[0]), cz(xy[1])))
def cbits(b):
    return Raw("(%s, %s)" % (cz(b[0]), cz(b[1])))
def coptf(x, f):
    return Raw("None") if x is None else Raw("(Some %s)" % f(x))
def cstrans(s):
    return Raw("(mkStrans %s %s %s %s %s)" % (cbool(s["r"]), cbool(s["am"]), cbool(s["aa"]), coptf(s["mag"], cz), coptf(s["angle"], cz)))
def cprops(ps):
    return clist(["mkProp %s %s" % (cz(a), cbytes(v)) for a, v in ps])

def celem(e):
    k = e["k"]
    common = "%s %s %s" % (coptf(e["elflags"], cbits), coptf(e["plex"], cz), cprops(e["props"]))
    if k == "boundary":
        return Raw("(EBoundary (mkBoundary %s %s %s %s))" % (cz(e["layer"]), cz(e["datatype"]), cpoints(e["xy"]), common))
    if k == "path":
        return Raw("(EPath (mkPath %s %s %s %s %s %s %s %s))" % (cz(e["layer"]), cz(e["datatype"]), cpoints(e["xy"]),
                   coptf(e["width"], cz), coptf(e["path_type"], cz), coptf(e["begin_extn"], cz), coptf(e["end_extn"], cz), common))
    if k == "sref":
        return Raw("(ESref (mkSref %s %s %s %s))" % (cbytes(e["name"]), cpoint(e["xy"]), coptf(e["strans"], cstrans), common))
    if k == "aref":
        return Raw("(EAref (mkAref %s %s %s %s %s %s))" % (cbytes(e["name"]), cpoints(e["xy"]), cz(e["cols"]), cz(e["rows"]),
                   coptf(e["strans"], cstrans), common))
    if k == "text":
        return Raw("(EText (mkText %s %s %s %s %s %s %s %s %s))" % (cbytes(e["string"]), cz(e["layer"]), cz(e["texttype"]), cpoint(e["xy"]),
                   coptf(e["presentation"], cbits), coptf(e["path_type"], cz), coptf(e["width"], cz), coptf(e["strans"], cstrans), common))
    if k == "node":
        return Raw("(ENode (mkNode %s %s %s %s))" % (cz(e["layer"]), cz(e["nodetype"]), cpoints(e["xy"]), common))
    if k == "box":
        return Raw("(EBox (mkBox %s %s %s %s))" % (cz(e["layer"]), cz(e["boxtype"]), cpoints(e["xy"]), common))
    raise ValueError(k)

def to_coq(lib):
    structs = clist(["mkStruct %s %s %s" % (cbytes(s["name"]), cdates(s["dates"]), clist([celem(e) for e in s["elems"]])) for s in lib["structs"]])
    return Raw("(mkLib %s %s %s (%s, %s) %s)" % (cbytes(lib["name"]), cz(lib["version"]), cdates(lib["dates"]),
               cz(lib["units"][0]), cz(lib["units"][1]), structs))

# ---------------------------------------------------------------- JSON
STR_FIELDS = ("name", "string")
def jelem(e):
    o = dict(e)
    for f in STR_FIELDS:
        if f in o:
            o[f] = jbytes(o[f])
    o["props"] = [[a, jbytes(v)] for a, v in e["props"]]
    if isinstance(o.get("xy"), list) and len(o["xy"]) > 256:
        xy = o["xy"]
        if all(xy[2 * i] == xy[0] and xy[2 * i + 1] == xy[1] for i in range(len(xy) // 2)):
            o["xy"] = {"rep": [xy[0], xy[1], len(xy) // 2]}
    return o
def to_json(lib):
    return {"name": jbytes(lib["name"]), "version": lib["version"], "dates": lib["dates"], "units": lib["units"],
            "structs": [{"name": jbytes(s["name"]), "dates": s["dates"], "elems": [jelem(e) for e in s["elems"]]} for s in lib["structs"]]}
def from_json(j):
    def el(e):
        o = dict(e)
        for f in STR_FIELDS:
            if f in o:
                o[f] = bytes.fromhex(o[f])
        o["props"] = [(a, bytes.fromhex(v)) for a, v in e["props"]]
        return o
    return {"name": bytes.fromhex(j["name"]), "version": j["version"], "dates": j["dates"], "units": j["units"],
            "structs": [{"name": bytes.fromhex(s["name"]), "dates": s["dates"], "elems": [el(e) for e in s["elems"]]} for s in j["structs"]]}

def c_wres(w):
    if "ok" in w:
        return Raw("(WOk %s)" % cbytes(bytes.fromhex(w["ok"])))
    if "err" in w:
        return Raw("(WErr %s)" % cz(EKIND[w["err"]]))
    return Raw("WPanic")
def c_rres(r):
    if r is None:
        return Raw("RNone")
    if "ok" in r:
        return Raw("(ROk %s)" % to_coq(from_json(r["ok"])))
    if "err" in r:
        return Raw("(RErr %s)" % cz(EKIND[r["err"]]))
    return Raw("RPanic")

# ---------------------------------------------------------------- library statistics / classes
def lib_strings(lib):
    out = [lib["name"]]
    for s in lib["structs"]:
        out.append(s["name"])
        for e in s["elems"]:
            for f in STR_FIELDS:
                if f in e:
                    out.append(e[f])
            out.extend(v for _, v in e["props"])
    return out
def in_class_even_nul(lib):
    """known-finding class gds-string-even-len-trailing-nul: some string has even length and last byte NUL"""
    return any(len(s) > 0 and len(s) % 2 == 0 and s[-1] == 0 for s in lib_strings(lib))
def has_empty_string(lib):
    return any(len(s) == 0 for s in lib_strings(lib))
def lib_size(lib):
    n = 1 + len(lib["name"])
    for s in lib["structs"]:
        n += 1 + len(s["name"])
        for e in s["elems"]:
            n += 1 + sum(1 for k, v in e.items() if v is not None) + len(e["props"])
            n += sum(len(e[f]) for f in STR_FIELDS if f in e) + sum(len(v) for _, v in e["props"])
            if isinstance(e.get("xy"), list):
                n += len(e["xy"])
    return n
def lib_key(lib):
    return json.dumps(to_json(lib), sort_keys=True)

# ---------------------------------------------------------------- generators
I16_EDGE = [0, 1, -1, 2, 255, 256, 32767, -32768]
I32_EDGE = [0, 1, -1, 2, -2, 1 << 15, -(1 << 15), (1 << 31) - 1, -((1 << 31) - 1), -(1 << 31)]

class Gen:
    def __init__(self, rng, allow_known=True, allow_empty=True, allow_out_of_range=False):
        self.rng = rng
        self.allow_known = allow_known
        self.allow_empty = allow_empty
        self.allow_oor = allow_out_of_range
        self.dist = {}
    def note(self, k):
        self.dist[k] = self.dist.get(k, 0) + 1
    def i16(self):
        r = self.rng
        return r.choice(I16_EDGE) if r.random() < 0.4 else r.randrange(-32768, 32768)
    def i32(self):
        r = self.rng
        return r.choice(I32_EDGE) if r.random() < 0.5 else r.randrange(-(1 << 31), 1 << 31)
    def u8(self):
        r = self.rng
        return r.choice([0, 1, 128, 255, 0x80, 0x06, 0x04, 0x02]) if r.random() < 0.4 else r.randrange(256)
    def dates(self):
        r = self.rng
        c = r.random()
        if c < 0.3:
            return [r.randrange(0, 200), r.randrange(1, 13), r.randrange(1, 29), r.randrange(0, 24), r.randrange(60), r.randrange(60)] * 2
        return [self.i16() for _ in range(12)]
    def uchar(self):
        r = self.rng
        c = r.randrange(6)
        if c == 0:
            return chr(r.randrange(0x80, 0x800))
        if c == 1:
            cp = r.randrange(0x800, 0x10000)
            while 0xD800 <= cp < 0xE000:
                cp = r.randrange(0x800, 0x10000)
            return chr(cp)
        if c == 2:
            return chr(r.randrange(0x10000, 0x110000))
        if c == 3:
            return r.choice(["é", "߿", "ࠀ", "퟿", "", "￿", "\U00010000", "\U0010ffff", "\u007f"])
        return chr(r.randrange(0x20, 0x7f))
    def ascii(self, n):
        r = self.rng
        return bytes(r.choice(b"abcdefghijklmnopqrstuvwxyzABCDEFXYZ0123456789_$?.<>[] ") for _ in range(n))
    def string(self):
        r = self.rng
        c = r.randrange(12)
        if c == 0:
            if self.allow_empty:
                self.note("str_empty"); return b""
            c = 1
        if c == 1:
            self.note("str_len1"); return self.ascii(1)
        if c == 2:
            self.note("str_len2"); return self.ascii(2)
        if c in (3, 4):
            self.note("str_odd"); return self.ascii(r.choice([3, 5, 7, 9, 31, 33]))
        if c in (5, 6):
            self.note("str_even"); return self.ascii(r.choice([4, 6, 8, 10, 32, 44]))
        if c in (7, 8):
            self.note("str_utf8")
            s = "".join(self.uchar() for _ in range(r.randrange(1, 7))).encode("utf8")
            if s and s[-1] == 0:
                s += b"a"
            return s
        if c == 9:
            # NUL bytes inside / at the end with odd total length (not in the known class)
            self.note("str_nul_odd")
            return r.choice([b"\0", b"a\0b", b"ab\0", b"\0\0\0", b"\0ab", b"a\0\0"])
        if c == 10:
            if self.allow_known and r.random() < 0.12:
                self.note("str_nul_even_KNOWN")
                return r.choice([b"a\0", b"\0\0", b"abc\0", b"\0a\0\0"])
            self.note("str_nul_inside_even")
            return r.choice([b"\0a", b"a\0bc", b"\0\0ab"])
        self.note("str_mixed")
        return self.ascii(r.randrange(1, 20))
    def real(self):
        r = self.rng
        c = r.randrange(10)
        sign = r.getrandbits(1) << 63
        if c == 0:
            self.note("real_zero"); return r.choice([0, 1 << 63])
        if c in (1, 2):
            self.note("real_common"); return f2b(r.choice([1e-3, 1e-9, 1.0, 90.0, 180.0, 270.0, 0.5, 2.0, 1e-6, 0.001, 45.0, -90.0, 1e-12, 16.0, 0.0625, 256.0]))
        if c in (3, 4):
            # within 3 ulp of a power of sixteen (or two) inside the range
            self.note("real_near_pow16")
            j = r.randrange(-63, 63) * 4 if r.random() < 0.7 else r.randrange(-255, 252)
            return sign | (((j + 1023) << 52) + r.randrange(-3, 4))
        if c == 5:
            self.note("real_range_edge")
            return sign | r.choice([(-256 + 1023) << 52, ((-256 + 1023) << 52) + 1, ((252 + 1023) << 52) - 1, ((251 + 1023) << 52)])
        if c == 6 and self.allow_oor:
            self.note("real_OUT_OF_RANGE")
            return sign | r.choice([f2b(1e-300), f2b(1e300), 1, 0x000FFFFFFFFFFFFF, ((-257 + 1023) << 52), ((252 + 1023) << 52)])
        if c == 7:
            # the lowest hex decade of the format, [16^-65, 16^-64): exponent byte 0 with a normalised mantissa
            self.note("real_lowest_decade")
            return sign | (r.randrange(-260 + 1023, -256 + 1023) << 52) | r.choice([0, r.getrandbits(52), (1 << 52) - 1, 1])
        self.note("real_random")
        return sign | (r.randrange(-260 + 1023, 252 + 1023) << 52) | r.getrandbits(52)
    def opt(self, f, p=0.5):
        return f() if self.rng.random() < p else None
    def xy(self, n):
        return [self.i32() for _ in range(2 * n)]
    def xylen(self):
        r = self.rng
        return r.choice([0, 1, 5, 5, 5, 2, 3, 4, 7, 9])
    def strans(self):
        r = self.rng
        return {"r": r.random() < 0.5, "am": r.random() < 0.5, "aa": r.random() < 0.5,
                "mag": self.opt(self.real), "angle": self.opt(self.real)}
    def props(self):
        return [(self.i16(), self.string()) for _ in range(self.rng.choice([0, 0, 0, 1, 1, 2, 3]))]
    def elem(self, kind=None, force=None):
        """force: None = each optional field 50%; a set of field names = exactly these optional fields present"""
        r = self.rng
        k = kind or r.choice(KINDS)
        self.note("elem_" + k)
        def o(name, f):
            if force is None:
                return self.opt(f)
            return f() if name in force else None
        e = {"k": k}
        if k in ("boundary", "path", "node", "box", "text"):
            e["layer"] = self.i16()
        if k in ("boundary", "path"):
            e["datatype"] = self.i16()
        if k == "node":
            e["nodetype"] = self.i16()
        if k == "box":
            e["boxtype"] = self.i16()
        if k in ("boundary", "path", "node"):
            e["xy"] = self.xy(self.xylen())
        if k == "box":
            e["xy"] = self.xy(5)
        if k == "path":
            e["width"] = o("width", self.i32); e["path_type"] = o("path_type", self.i16)
            e["begin_extn"] = o("begin_extn", self.i32); e["end_extn"] = o("end_extn", self.i32)
        if k in ("sref", "aref"):
            e["name"] = self.string()
        if k == "sref":
            e["xy"] = self.xy(1)
        if k == "aref":
            e["xy"] = self.xy(3); e["cols"] = self.i16(); e["rows"] = self.i16()
        if k == "text":
            e["string"] = self.string(); e["texttype"] = self.i16(); e["xy"] = self.xy(1)
            e["presentation"] = o("presentation", lambda: [self.u8(), self.u8()])
            e["path_type"] = o("path_type", self.i16); e["width"] = o("width", self.i32)
        if k in ("sref", "aref", "text"):
            e["strans"] = o("strans", self.strans)
            if force is not None and e["strans"] is not None:
                e["strans"]["mag"] = self.real() if "mag" in force else None
                e["strans"]["angle"] = self.real() if "angle" in force else None
        e["elflags"] = o("elflags", lambda: [self.u8(), self.u8()])
        e["plex"] = o("plex", self.i32)
        e["props"] = self.props() if force is None else ([(self.i16(), self.string())] if "props" in force else [])
        return e
    def struct(self, nel=None):
        r = self.rng
        n = r.choice([0, 1, 1, 2, 3, 4, 5, 6]) if nel is None else nel
        return {"name": self.string(), "dates": self.dates(), "elems": [self.elem() for _ in range(n)]}
    def lib(self, nstructs=None):
        r = self.rng
        n = r.choice([0, 1, 1, 2, 2, 3, 4]) if nstructs is None else nstructs
        return {"name": self.string(), "version": self.i16() if r.random() < 0.5 else r.choice([3, 5, 600, 7]),
                "dates": self.dates(), "units": [self.real(), self.real()],
                "structs": [self.struct() for _ in range(n)]}

KINDS = ["boundary", "path", "sref", "aref", "text", "node", "box"]
OPT_FIELDS = {
    "boundary": ["elflags", "plex", "props"],
    "path": ["elflags", "plex", "path_type", "width", "begin_extn", "end_extn", "props"],
    "sref": ["elflags", "plex", "strans", "mag", "angle", "props"],
    "aref": ["elflags", "plex", "strans", "mag", "angle", "props"],
    "text": ["elflags", "plex", "presentation", "path_type", "width", "strans", "mag", "angle", "props"],
    "node": ["elflags", "plex", "props"],
    "box": ["elflags", "plex", "props"],
}

def base_lib(name=b"lib", structs=None):
    return {"name": name, "version": 3, "dates": [100, 1, 2, 3, 4, 5, 101, 6, 7, 8, 9, 10],
            "units": [f2b(1e-3), f2b(1e-9)], "structs": structs if structs is not None else []}

def subset_libs(g, kinds=None, exhaustive=True, sample=0):
    """one library per (element kind, subset of its optional fields); mag/angle only with strans"""
    out = []
    for k in (kinds or KINDS):
        fs = OPT_FIELDS[k]
        subsets = []
        for m in range(1 << len(fs)):
            s = {f for i, f in enumerate(fs) if m >> i & 1}
            if ("mag" in s or "angle" in s) and "strans" not in s:
                continue
            subsets.append(s)
        if not exhaustive:
            full = set(fs)
            picks = [set(), full] + [g.rng.choice(subsets) for _ in range(sample)]
            subsets = picks
        for s in subsets:
            g.note("subset_" + k)
            out.append(base_lib(b"L", [{"name": b"cell", "dates": [0] * 12, "elems": [g.elem(k, force=s)]}]))
    return out

def long_libs(g):
    """payloads around the 65535-byte record limit: strings of 65530/65531/65532 bytes in each string position,
    XY lists of 8190/8191/8192 points"""
    out = []
    for n in (65530, 65531, 65532):
        s = b"a" * (n - 1) + b"z"
        out.append(("long_libname_%d" % n, base_lib(s)))
        out.append(("long_strname_%d" % n, base_lib(b"l", [{"name": s, "dates": [0] * 12, "elems": []}])))
        e = g.elem("text", force=set()); e["string"] = s
        out.append(("long_text_%d" % n, base_lib(b"l", [{"name": b"c", "dates": [0] * 12, "elems": [e]}])))
        e = g.elem("sref", force=set()); e["name"] = s
        out.append(("long_sname_%d" % n, base_lib(b"l", [{"name": b"c", "dates": [0] * 12, "elems": [e]}])))
        e = g.elem("node", force={"props"}); e["props"] = [(1, s)]
        out.append(("long_propvalue_%d" % n, base_lib(b"l", [{"name": b"c", "dates": [0] * 12, "elems": [e]}])))
    # multi-byte UTF-8 at the limit
    s = ("é" * 32765).encode("utf8")
    out.append(("long_utf8_65530", base_lib(s)))
    for n in (8190, 8191, 8192):
        for k in ("boundary", "path", "node"):
            e = g.elem(k, force=set())
            e["xy"] = [7, -9] * n
            out.append(("long_xy_%s_%d" % (k, n), base_lib(b"l", [{"name": b"c", "dates": [0] * 12, "elems": [e]}])))
    return out

# ---------------------------------------------------------------- directed families (generator audit 2026-10-02)
# Small deterministic libraries, one per combination, for input classes the random generator produces never or
# only by luck. They draw nothing from the PRNG (so the random families of every check stay what they were).
def plain_elem(k):
    """an element of kind k with fixed mandatory fields and NO optional field"""
    e = {"k": k}
    if k in ("boundary", "path", "node", "box", "text"):
        e["layer"] = 1
    if k in ("boundary", "path"):
        e["datatype"] = 2
    if k == "node":
        e["nodetype"] = 3
    if k == "box":
        e["boxtype"] = 4
    if k in ("boundary", "path", "node"):
        e["xy"] = [0, 0, 10, 0, 10, -10, 0, 0]
    if k == "box":
        e["xy"] = [0, 0, 10, 0, 10, 10, 0, 10, 0, 0]
    if k == "path":
        e["width"] = None; e["path_type"] = None; e["begin_extn"] = None; e["end_extn"] = None
    if k in ("sref", "aref"):
        e["name"] = b"ref"
    if k == "sref":
        e["xy"] = [5, -6]
    if k == "aref":
        e["xy"] = [0, 0, 30, 0, 0, 40]; e["cols"] = 3; e["rows"] = 4
    if k == "text":
        e["string"] = b"txt"; e["texttype"] = 5; e["xy"] = [7, 8]
        e["presentation"] = None; e["path_type"] = None; e["width"] = None
    if k in ("sref", "aref", "text"):
        e["strans"] = None
    e["elflags"] = None; e["plex"] = None; e["props"] = []
    return e

def plain_strans(**kw):
    s = {"r": False, "am": False, "aa": False, "mag": None, "angle": None}
    s.update(kw)
    return s

def one_elem_lib(e, name=b"L"):
    return base_lib(name, [{"name": b"cell", "dates": [0] * 12, "elems": [e]}])

def default_valued_libs():
    """Optional fields that are PRESENT but hold the value a tool assumes when they are absent (WIDTH 0, PATHTYPE 0, MAG 1.0,
    ANGLE 0.0, an all-clear STRANS / ELFLAGS / PRESENTATION, PLEX 0, extensions 0, a property with attribute 0 and an empty value):
    `Some(default)` and `None` are different library values, a writer or reader that 'normalises' one into the other breaks
    C01/C02/C03/C10 and nothing else shows it. One library per (element kind, field). -> [(name, lib)]"""
    out = []
    def add(k, what, **kw):
        e = plain_elem(k)
        e.update(kw)
        out.append(("default_%s_%s" % (k, what), one_elem_lib(e)))
    for k in KINDS:
        add(k, "elflags00", elflags=[0, 0])
        add(k, "plex0", plex=0)
        add(k, "prop0empty", props=[(0, b"")])
    for f in ("width", "path_type", "begin_extn", "end_extn"):
        add("path", f + "0", **{f: 0})
    add("text", "presentation00", presentation=[0, 0])
    add("text", "path_type0", path_type=0)
    add("text", "width0", width=0)
    for k in ("sref", "aref", "text"):
        add(k, "strans_clear", strans=plain_strans())
        add(k, "mag1", strans=plain_strans(mag=f2b(1.0)))
        add(k, "angle0", strans=plain_strans(angle=f2b(0.0)))
        add(k, "mag1_angle0", strans=plain_strans(mag=f2b(1.0), angle=f2b(0.0)))
        add(k, "mag0", strans=plain_strans(mag=f2b(0.0)))
    # every number zero, every string empty
    zs = []
    for k in KINDS:
        e = plain_elem(k)
        for f, v in list(e.items()):
            if isinstance(v, int) and not isinstance(v, bool):
                e[f] = 0
            elif isinstance(v, list) and f == "xy":
                e[f] = [0] * len(v)
            elif isinstance(v, bytes):
                e[f] = b""
        zs.append(e)
    l = base_lib(b"", [{"name": b"", "dates": [0] * 12, "elems": zs}])
    l["version"] = 0; l["dates"] = [0] * 12; l["units"] = [0, 0]
    out.append(("default_all_zero", l))
    return out

def strans_flag_libs(kind):
    """all 8 STRANS flag combinations x {no real, MAG, ANGLE, both} on one element kind (sref / aref / text): 32 libraries"""
    out = []
    for m in range(8):
        for q in range(4):
            e = plain_elem(kind)
            e["strans"] = {"r": bool(m & 1), "am": bool(m & 2), "aa": bool(m & 4),
                           "mag": f2b(2.5) if q & 1 else None, "angle": f2b(33.0) if q & 2 else None}
            out.append(("strans_%s_r%d_am%d_aa%d_%s" % (kind, m & 1, m >> 1 & 1, m >> 2 & 1, ["none", "mag", "angle", "both"][q]), one_elem_lib(e)))
    return out

def mid_len_libs(full=False):
    """record lengths at the one-byte and the signed-16-bit boundaries (the random strings stop at 44 bytes, the long family
    starts at 65530): strings of 249..258 bytes (record 254..262), XY of 31/32 points (record 252/260), strings around
    32764 bytes (record 32768) and 32767 bytes (payload 32768), XY of 4095/4096 points (record 32764/32772)"""
    out = []
    es = []
    for n in range(249, 259):
        e = plain_elem("text"); e["string"] = b"s" * (n - 1) + b"e"
        es.append(e)
    out.append(("mid_str_256", base_lib(b"l", [{"name": b"c", "dates": [0] * 12, "elems": es}])))
    es = []
    for n in (31, 32, 63, 64):
        e = plain_elem("boundary"); e["xy"] = [3, -4] * n
        es.append(e)
    out.append(("mid_xy_256", base_lib(b"l", [{"name": b"c", "dates": [0] * 12, "elems": es}])))
    for i, n in enumerate((32762, 32764, 32767) if not full else (32762, 32763, 32764, 32765, 32766, 32767, 32768)):
        s = b"a" * (n - 1) + b"z"
        if i % 3 == 0:
            e = plain_elem("text"); e["string"] = s
        elif i % 3 == 1:
            e = plain_elem("node"); e["props"] = [(7, s)]
        else:
            e = plain_elem("sref"); e["name"] = s
        out.append(("mid_str_32768_%d" % n, base_lib(b"l", [{"name": b"c", "dates": [0] * 12, "elems": [e]}])))
    for n, k in ((4095, "path"), (4096, "node")):
        e = plain_elem(k); e["xy"] = [-5, 6] * n
        out.append(("mid_xy_32768_%d" % n, base_lib(b"l", [{"name": b"c", "dates": [0] * 12, "elems": [e]}])))
    return out

def dup_libs():
    """the same thing twice: structs sharing a name (GDSII does not forbid it; a reader or writer keyed by name loses one),
    identical structs, identical elements, properties sharing an attribute number, one name used at every level"""
    out = []
    b1 = plain_elem("boundary"); t1 = plain_elem("text"); s1 = plain_elem("sref"); s1["name"] = b"a"
    out.append(("dup_struct_names", base_lib(b"l", [
        {"name": b"a", "dates": [1] * 12, "elems": [b1]}, {"name": b"a", "dates": [2] * 12, "elems": [t1, s1]},
        {"name": b"b", "dates": [3] * 12, "elems": []}, {"name": b"a", "dates": [4] * 12, "elems": []}])))
    st = {"name": b"same", "dates": [5] * 12, "elems": [plain_elem("box"), plain_elem("node")]}
    out.append(("dup_structs_identical", base_lib(b"l", [copy.deepcopy(st), copy.deepcopy(st), copy.deepcopy(st)])))
    out.append(("dup_elems_identical", base_lib(b"l", [{"name": b"c", "dates": [0] * 12,
                "elems": [plain_elem("sref"), plain_elem("sref"), plain_elem("boundary"), plain_elem("boundary"), plain_elem("sref"), plain_elem("aref"), plain_elem("aref")]}])))
    e = plain_elem("path"); e["props"] = [(5, b"x"), (5, b"y"), (5, b"x"), (-5, b"x"), (5, b"")]
    e2 = plain_elem("text"); e2["props"] = [(1, b"v"), (1, b"v")]
    out.append(("dup_prop_attr", base_lib(b"l", [{"name": b"c", "dates": [0] * 12, "elems": [e, e2]}])))
    s2 = plain_elem("sref"); s2["name"] = b"n"
    t2 = plain_elem("text"); t2["string"] = b"n"; t2["props"] = [(1, b"n")]
    out.append(("dup_one_name_everywhere", base_lib(b"n", [{"name": b"n", "dates": [0] * 12, "elems": [s2, t2]}, {"name": b"n", "dates": [0] * 12, "elems": []}])))
    return out

def special_string_libs():
    """white space and control characters at the ends of / inside strings (the random alphabet has the blank only):
    a reader that trims, or a writer that filters non-printable characters, changes them"""
    strs = [b"\t", b"a\nb", b" a", b"a ", b"\r\n", b"\x01\x1f\x7f", b"  ", b"a\tb c", b"\n", b" ", b"x\x0b\x0c",
            "\u00a0a\u00a0".encode("utf8"), "a\u0085".encode("utf8"), "\u2003a\u3000".encode("utf8")]
    es = []
    for s in strs:
        e = plain_elem("text"); e["string"] = s; e["props"] = [(1, s)]
        es.append(e)
    out = [("special_str_text", base_lib(b" lib\t", [{"name": b"c", "dates": [0] * 12, "elems": es}]))]
    structs = []
    for s in strs:
        r = plain_elem("sref"); r["name"] = s
        structs.append({"name": s, "dates": [0] * 12, "elems": [r]})
    out.append(("special_str_names", base_lib(b"\n", structs)))
    return out

def many_libs(n=1030):
    """more items than the capacity hints of the reader (Vec::with_capacity(1024)): n structs, n elements in one struct,
    48 properties on one element"""
    out = []
    out.append(("many_structs", base_lib(b"l", [{"name": b"s%d" % i, "dates": [0] * 12, "elems": []} for i in range(n)])))
    es = []
    for i in range(n):
        e = plain_elem("boundary"); e["xy"] = []; e["layer"] = i % 7
        es.append(e)
    out.append(("many_elems", base_lib(b"l", [{"name": b"c", "dates": [0] * 12, "elems": es}])))
    e = plain_elem("node"); e["props"] = [(i, b"v%d" % i) for i in range(48)]
    out.append(("many_props", one_elem_lib(e)))
    return out

def directed_libs(seed=1, quick=True, many=True):
    """all directed families -> [(family, case name, lib)]; many: True, False or the names of the `many` cases wanted"""
    out = []
    out += [("default_valued", n, l) for n, l in default_valued_libs()]
    kinds = ("sref", "aref", "text")
    for k in (kinds[seed % 3],) if quick else kinds:
        out += [("strans_flags", n, l) for n, l in strans_flag_libs(k)]
    out += [("mid_len", n, l) for n, l in mid_len_libs(full=not quick)]
    out += [("dup", n, l) for n, l in dup_libs()]
    out += [("special_str", n, l) for n, l in special_string_libs()]
    if many:
        out += [("many", n, l) for n, l in many_libs() if many is True or n in many]
    return out

HEAVY_PREFIXES = ("long_", "mid_str_32768", "mid_xy_32768", "many_", "file_io_long")
def spread_heavy(cases):
    """re-order so that the few cases that cost seconds each inside Coq (payloads of 32 KB and more, a thousand structs) do not end
    up in one coqc shard (the shards are consecutive slices of the case list and run in parallel)"""
    heavy = [c for c in cases if str(c["kind"]).startswith(HEAVY_PREFIXES)]
    light = [c for c in cases if not str(c["kind"]).startswith(HEAVY_PREFIXES)]
    if not heavy or not light:
        return cases
    step = max(1, len(light) // len(heavy))
    out = []
    h = 0
    for i, c in enumerate(light):
        if i % step == 0 and h < len(heavy):
            out.append(heavy[h]); h += 1
        out.append(c)
    out.extend(heavy[h:])
    return out

# ---------------------------------------------------------------- running
def hex_of(b):
    return bytes(b).hex()

def eval_codes(chk, items, tag, shard=60):
    """items: list of Coq terms of type Z -> list of ints"""
    if not items:
        return []
    return [parse_z(s) for s in coq_eval_lists(HDR, items, chk.rundir, tag, shard=shard)]

def eval_strings(chk, items, tag, shard=60):
    """items: Coq terms of type list string (e.g. hexchunks ...) -> python str (concatenated contents)"""
    if not items:
        return []
    outs = coq_eval_lists(HDR, items, chk.rundir, tag, shard=shard)
    return ["".join(re.findall(r'"([0-9a-fA-F]*)"', s)) for s in outs]

def known_entry(pid, cls):
    for k in load_known():
        if k.get("kind") == "finding" and k.get("property") == pid and k.get("class") == cls:
            return k
    return None

# ---------------------------------------------------------------- shrinking (greedy, batched)
def shrink_candidates(lib):
    """one-step reductions of a library"""
    out = []
    def withlib(f):
        l2 = copy.deepcopy(lib)
        if f(l2) is not False:
            out.append(l2)
    for i in range(len(lib["structs"])):
        withlib(lambda l, i=i: l["structs"].pop(i))
    for i, s in enumerate(lib["structs"]):
        for j in range(len(s["elems"])):
            withlib(lambda l, i=i, j=j: l["structs"][i]["elems"].pop(j))
        if len(s["name"]) > 1:
            withlib(lambda l, i=i: l["structs"][i].__setitem__("name", b"c"))
        for j, e in enumerate(s["elems"]):
            for f, v in e.items():
                if f in ("k",):
                    continue
                if f == "props":
                    for q in range(len(v)):
                        withlib(lambda l, i=i, j=j, q=q: l["structs"][i]["elems"][j]["props"].pop(q))
                    for q, (a, pv) in enumerate(v):
                        if len(pv) > 2:
                            withlib(lambda l, i=i, j=j, q=q, a=a, pv=pv: l["structs"][i]["elems"][j]["props"].__setitem__(q, (a, pv[-2:])))
                elif f in OPT_FIELDS[e["k"]] and v is not None:
                    withlib(lambda l, i=i, j=j, f=f: l["structs"][i]["elems"][j].__setitem__(f, None))
                elif f in STR_FIELDS and len(v) > 2:
                    withlib(lambda l, i=i, j=j, f=f, v=v: l["structs"][i]["elems"][j].__setitem__(f, v[-2:]))
                elif f == "xy" and e["k"] in ("boundary", "path", "node") and len(v) > 0:
                    withlib(lambda l, i=i, j=j: l["structs"][i]["elems"][j].__setitem__("xy", []))
    if len(lib["name"]) > 2:
        withlib(lambda l: l.__setitem__("name", lib["name"][-2:]))
    return out

def shrink(lib, still_fails, rounds=12, width=40):
    """greedy: still_fails(list of libs) -> list of bool"""
    cur = lib
    for _ in range(rounds):
        cands = shrink_candidates(cur)[:width]
        if not cands:
            break
        oks = still_fails(cands)
        nxt = [c for c, ok in zip(cands, oks) if ok]
        if not nxt:
            break
        cur = min(nxt, key=lib_size)
    return cur

# ---------------------------------------------------------------- byte-level helpers (fault injection, C10)
def split_py(b):
    """split a stream into records by length fields (python side, for choosing mutation points):
    list of (offset, total_len) up to and including ENDLIB or until malformed"""
    out = []
    i = 0
    n = len(b)
    while i + 4 <= n:
        ln = (b[i] << 8) | b[i + 1]
        if ln < 4 or i + ln > n:
            break
        out.append((i, ln))
        if b[i + 2] == 0x04:
            break
        i += ln
    return out

def classify_common(lib):
    return "gds-string-even-len-trailing-nul" if in_class_even_nul(lib) else "other"

def lib_reals_py(lib):
    out = list(lib["units"])
    for s in lib["structs"]:
        for e in s["elems"]:
            st = e.get("strans")
            if st:
                out += [x for x in (st["mag"], st["angle"]) if x is not None]
    return out

def report(chk, pid, what, cases, results, classify, to_replay, size, shrinker=None, describe=None):
    """common tail of the four checks: code 2 -> known finding or VIOLATION per class; code 1 -> broken.
    cases/results parallel; results[i] = (code, impl summary)."""
    mism = [(c, r) for c, r in zip(cases, results) if r[0] == 1]
    viol = [(c, r) for c, r in zip(cases, results) if r[0] == 2]
    chk.cov["correspondence_mismatches"] = len(mism)
    by_class = {}
    for c, r in viol:
        by_class.setdefault(classify(c, r[1]), []).append((c, r))
    chk.cov["violations_by_class"] = {k: len(v) for k, v in by_class.items()}
    describe = describe or (lambda c: json.dumps(to_replay(c))[:700])
    for cls, vs in sorted(by_class.items()):
        vs.sort(key=lambda cr: size(cr[0]))
        c0, r0 = vs[0]
        if shrinker is not None:
            c0, r0 = shrinker(c0, r0, cls)
        entry = known_entry(pid, cls)
        if entry is not None:
            chk.known(entry, c0)
            chk.notes.append("known finding %s: %d of %d cases, smallest %s -> impl %s" % (cls, len(vs), len(cases), describe(c0), json.dumps(r0[1])[:300]))
            continue
        chk.violation("%s [%s]: %d of %d cases fail; smallest: %s -> impl %s" % (what, cls, len(vs), len(cases), describe(c0), json.dumps(r0[1])[:300]),
                      {"cases": [to_replay(c0)] + [to_replay(c) for c, _ in vs[:8] if size(c) < 5000], "class": cls}, suffix="-" + cls)
    if mism and not [v for v in chk.violations]:
        c, r = min(mism, key=lambda cr: size(cr[0]))
        chk.broken.append("correspondence %s: impl differs from model (property holds), e.g. %s impl=%s" % (pid, describe(c), json.dumps(r[1])[:200]))
    elif mism:
        chk.notes.append("%d correspondence mismatches besides the violations" % len(mism))
