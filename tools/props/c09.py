"""C09: relative placement. Model Tetris/Placer.v, spec Tetris/PlacerSpec.v, checks Tetris/PlacerCheck.v,
theorems Properties/C09.v; correspondence against layout21tetris::placer::Placer::place (harness bin c09).

A case = {"cells", "nodes", "runs", "same_set", "kind"}: one pool of placeables, run through a fresh library
once per entry of "runs" (different listings).  See harness/src/bin/c09.rs for the JSON shapes."""
import json, re
from vlib import *
from props.kernelcommon import kernel_tie_leg

TOP, BOTTOM, LEFT, RIGHT = 0, 1, 2, 3
SIDE_NAME = ["Top", "Bottom", "Left", "Right"]
HORIZ, VERT = 0, 1
DIR_NAME = ["Horiz", "Vert"]

def axis(side):
    return HORIZ if side in (LEFT, RIGHT) else VERT

# ------------------------------------------------------------------ case constructors
def ab(x, y, xd=HORIZ, yd=VERT):
    return {"abs": [xd, x, yd, y]}
def sp(x=None, y=None, z=None):
    return {"x": x, "y": y, "z": z}
def rel(to, side, align, sep=None):
    return {"rel": {"to": to, "side": side, "align": align, "sep": sep or sp()}}
def inst(cell, loc, rh=False, rv=False):
    return {"k": "inst", "cell": cell, "loc": loc, "rh": rh, "rv": rv}
def arrinst(arr, loc, rh=False, rv=False):
    return {"k": "array", "arr": arr, "loc": loc, "rh": rh, "rv": rv}
def sep_on(side_axis, s):
    return sp(x=s) if side_axis == HORIZ else sp(y=s)

# ------------------------------------------------------------------ Coq printing
def c_pp(d, n):
    return "(mkPP %s %s)" % (DIR_NAME[d], cz(n))
def c_xy(a):
    return "(mkXy %s %s)" % (c_pp(a[0], a[1]), c_pp(a[2], a[3]))
def c_sepby(s):
    if s is None:
        return "None"
    if "prim" in s:
        return "(Some (SepUnits (UPrim %s %s)))" % (DIR_NAME[s["prim"][0]], cz(s["prim"][1]))
    if "db" in s:
        return "(Some (SepUnits (UDb %s)))" % cz(s["db"])
    if "layer" in s:
        return "(Some (SepUnits (ULayer %s %s)))" % (cz(s["layer"][0]), cz(s["layer"][1]))
    return "(Some (SepSizeOf %s))" % cnat(s["sizeof"])
def c_sep(s):
    return "(mkSep %s %s %s)" % (c_sepby(s["x"]), c_sepby(s["y"]), copt(None if s["z"] is None else cz(s["z"])))
def c_align(a):
    if a == "center":
        return "ACenter"
    if a == "ports":
        return "APorts"
    return "(ASide %s)" % SIDE_NAME[a["side"]]
def c_loc(l):
    if "abs" in l:
        return "(PAbs %s)" % c_xy(l["abs"])
    r = l["rel"]
    return "(PRel (mkRel %s %s %s %s))" % (cnat(r["to"]), SIDE_NAME[r["side"]], c_align(r["align"]), c_sep(r["sep"]))
def c_arr(a):
    u = a["unit"]
    unit = "(UCell %s)" % cnat(u["cell"]) if "cell" in u else "(UArr %s)" % c_arr(u["arr"])
    return "(mkArray %s %s %s)" % (unit, cnat(a["count"]), c_sep(a["sep"]))
def c_node(n):
    if n["k"] == "inst":
        return "(NInst (mkInst %s %s %s %s))" % (cnat(n["cell"]), c_loc(n["loc"]), cbool(n["rh"]), cbool(n["rv"]))
    if n["k"] == "array":
        return "(NArray (mkArrayInst %s %s %s %s))" % (c_arr(n["arr"]), c_loc(n["loc"]), cbool(n["rh"]), cbool(n["rv"]))
    return "(NPort %s)" % cnat(n["inst"])
def c_cells(cells):
    # Cell::outline() takes the most abstract view: the abstract's outline when the cell has one
    def oc(c):
        return c.get("abs") or c
    return clist(["None" if c is None else "(Some (%s, %s))" % (cz(oc(c)["x"][0]), cz(oc(c)["y"][-1])) for c in cells])

NAME_RE = re.compile(r"^([ia])(\d+)((?:\[\d+\])*)$")
def parse_name(s):
    m = NAME_RE.match(s)
    if not m:
        raise ValueError("unexpected instance name %r" % s)
    return [int(m.group(2))] + [int(x) for x in re.findall(r"\[(\d+)\]", m.group(3))]

def c_impl(r):
    if "ok" in r:
        es = []
        for name, _id, cell, loc, rh, rv in r["ok"]:
            l = "rel_marker" if loc == "rel" else "(PAbs %s)" % c_xy(loc)
            es.append("(mkOInst %s %s %s %s %s)" % (clist([cnat(k) for k in parse_name(name)]), cnat(max(cell, 0)), l, cbool(rh), cbool(rv)))
        return "(IOk %s)" % clist(es)
    if "err" in r:
        return "IErr"
    if "panic" in r:
        return "IPanic"
    raise ValueError("unexpected harness result %r" % (r,))

def listing(run):
    return list(run["instances"]) + list(run["places"])

def coq_item(case, res):
    runs = [ctup(clist([cnat(n) for n in listing(run)]), c_impl(r)) for run, r in zip(case["runs"], res["runs"])]
    return capp("c09_check", c_cells(case["cells"]), clist([c_node(n) for n in case["nodes"]]),
                cbool(case.get("same_set", False)), clist(runs))

# ------------------------------------------------------------------ generators
def rand_outline(rng, maxdim=20, lo=1):
    """A valid tetris outline: x non-increasing, y non-decreasing, same length."""
    k = rng.choice([1, 1, 1, 2, 3])
    xs = sorted((rng.randint(lo, maxdim) for _ in range(k)), reverse=True)
    ys = sorted(rng.randint(lo, maxdim) for _ in range(k))
    return {"x": xs, "y": ys}

def rand_cells(rng, n, with_none=True):
    cells = [rand_outline(rng) for _ in range(n)]
    # (fourth seeded wave, C09-m11) a cell with an abstract view as well, whose outline differs from the layout's, or abstract only:
    # every size the placer reads must come from the same view (Cell::outline(): the abstract)
    for k in range(n):
        if rng.random() < 0.3:
            cells[k] = dict(cells[k], abs=rand_outline(rng))
            if rng.random() < 0.3:
                cells[k]["layout"] = False
    if with_none:
        cells.append(None)
    return cells

SEP_KINDS = ["none", "prim+", "prim-", "prim0", "primwrongdir", "sizeof", "sizeof_nooutline",
             "alignaxis", "z", "db", "layer",
             # generator audit 2026-10-02: COMBINATIONS of two of the three optional separation fields, and SizeOf aliasing
             "bothaxes", "z+prim", "sizeof_placed", "sizeof_ref"]
ALIGNS = [{"side": s} for s in range(4)] + ["center", "ports"]

def make_sep(rng, kind, side, sepcell, nonecell):
    ax = axis(side)
    if kind == "none":
        return sp()
    if kind == "prim+":
        return sep_on(ax, {"prim": [ax, rng.randint(1, 9)]})
    if kind == "prim-":
        return sep_on(ax, {"prim": [ax, -rng.randint(1, 9)]})
    if kind == "prim0":
        return sep_on(ax, {"prim": [ax, 0]})
    if kind == "primwrongdir":
        return sep_on(ax, {"prim": [1 - ax, rng.randint(1, 9)]})
    if kind == "sizeof":
        return sep_on(ax, {"sizeof": sepcell})
    if kind == "sizeof_nooutline":
        return sep_on(ax, {"sizeof": nonecell})
    if kind == "alignaxis":
        return sep_on(1 - ax, {"prim": [1 - ax, rng.randint(1, 9)]})
    if kind == "z":
        return sp(z=rng.randint(-2, 2))
    if kind == "db":
        return sep_on(ax, {"db": rng.randint(1, 9)})
    if kind == "layer":
        return sep_on(ax, {"layer": [rng.randint(0, 2), rng.randint(1, 9)]})
    if kind == "bothaxes":       # a legal side-axis separation AND one in the alignment axis (Err expected)
        a, b = {"prim": [HORIZ, rng.randint(1, 9)]}, {"prim": [VERT, rng.randint(1, 9)]}
        return sp(x=a, y=b)
    if kind == "z+prim":         # a legal side-axis separation AND a z separation (Err expected)
        s = sep_on(ax, {"prim": [ax, rng.randint(1, 9)]}); s["z"] = rng.choice([-1, 0, 1]); return s
    if kind == "sizeof_placed":  # SizeOf(the cell of the instance being placed): the same cell lock is read twice
        return sep_on(ax, {"sizeof": 1})
    if kind == "sizeof_ref":     # SizeOf(the cell of the reference instance)
        return sep_on(ax, {"sizeof": 0})
    raise ValueError(kind)

REFL = [(False, False), (True, False), (False, True), (True, True)]

def table_case(rng, side, align, sepkind, variant):
    """One relation (side, align, separation kind): 4 reference reflections x 4 placed reflections."""
    cells = [rand_outline(rng), rand_outline(rng), rand_outline(rng), None]
    if variant % 3 == 2:
        cells[1] = None          # the placed cell has no outline
    nodes = []
    for rh, rv in REFL:
        nodes.append(inst(0, ab(rng.randint(-30, 30), rng.randint(-30, 30)), rh, rv))
    runs = []
    for ri in range(4):
        for rh, rv in REFL:
            k = len(nodes)
            nodes.append(inst(1, rel(ri, side, align, make_sep(rng, sepkind, side, 2, 3)), rh, rv))
            runs.append({"instances": [[ri, k], [k, ri], [k]][(k + variant) % 3], "places": []})
    return {"cells": cells, "nodes": nodes, "runs": runs, "same_set": False,
            "kind": "table/%s" % sepkind, "tag": [side, str(align), sepkind, variant]}

def rand_good_rel(rng, to, ncells):
    side = rng.randrange(4)
    al = rng.choice([s for s in range(4) if axis(s) != axis(side)])
    k = rng.choice(["none", "none", "prim+", "prim+", "prim-", "prim0", "sizeof"])
    return rel(to, side, {"side": al}, make_sep(rng, k, side, rng.randrange(ncells), ncells))

def rand_arr(rng, ncells, depth, good=True):
    def s(d):
        c = rng.randrange(8)
        if c < 2:
            return None
        if c < 7 or good:
            return {"prim": [d, rng.randint(-6, 9)]}
        return rng.choice([{"prim": [1 - d, rng.randint(1, 5)]}, {"sizeof": rng.randrange(ncells)}, {"db": 3}, {"layer": [0, 2]}])
    unit = {"cell": rng.randrange(ncells + (0 if good else 1))} if depth <= 1 else {"arr": rand_arr(rng, ncells, depth - 1, good)}
    return {"unit": unit, "count": rng.choice([0, 1, 2, 2, 3, 3, 4]) if depth > 1 else rng.choice([0, 1, 2, 3, 4, 5, 7]),
            "sep": sp(s(HORIZ), s(VERT), rng.choice([None, None, None, 2]))}

def shuffled_runs(rng, nodes, ids, nruns=3):
    """Listings of the same objects in different orders; instances go to `instances`, the rest to `places`,
    and in the last run instances are listed as Placeable::Instance inside `places` as well."""
    runs = []
    for r in range(nruns):
        p = list(ids)
        rng.shuffle(p)
        if r == nruns - 1:
            runs.append({"instances": [], "places": p})
        else:
            runs.append({"instances": [n for n in p if nodes[n]["k"] == "inst"], "places": [n for n in p if nodes[n]["k"] != "inst"]})
    return runs

def program_case(rng, bad_rate=0.0):
    """Chains and trees of relative placements, depth 1-8 (and deeper chains), a few arrays."""
    ncells = rng.randint(1, 5)
    cells = rand_cells(rng, ncells)           # index ncells = cell without outline
    n = rng.randint(2, 24)
    shape = rng.choice(["chain", "tree", "tree", "bushy"])
    nodes = []
    depth = {}
    for k in range(n):
        rh, rv = rng.choice(REFL)
        cands = [j for j in range(k) if nodes[j]["k"] == "inst"]
        if not cands or rng.random() < (0.12 if shape != "chain" else 0.05):
            if rng.random() < 0.12:
                nodes.append(arrinst(rand_arr(rng, ncells, rng.randint(1, 3)), ab(rng.randint(-40, 40), rng.randint(-40, 40)), rh, rv))
            else:
                nodes.append(inst(rng.randrange(ncells), ab(rng.randint(-40, 40), rng.randint(-40, 40)), rh, rv))
            depth[k] = 0
            continue
        if shape == "chain":
            to = cands[-1]
        elif shape == "bushy":
            to = rng.choice(cands[: max(1, len(cands) // 3)])
        else:
            to = rng.choice(cands)
        nodes.append(inst(rng.randrange(ncells), rand_good_rel(rng, to, ncells), rh, rv))
        depth[k] = depth[to] + 1
    kind = "program/%s" % shape
    if bad_rate and rng.random() < bad_rate:
        # one object outside the property's space
        k = rng.randrange(n)
        c = rng.randrange(9)
        nd = nodes[k]
        if nd["k"] == "inst" and "rel" in nd["loc"]:
            r = nd["loc"]["rel"]
            if c == 0:
                r["align"] = {"side": rng.choice([s for s in range(4) if axis(s) == axis(r["side"])])}
            elif c == 1:
                r["align"] = rng.choice(["center", "ports"])
            elif c == 2:
                r["sep"] = make_sep(rng, rng.choice(["primwrongdir", "sizeof_nooutline", "alignaxis", "z", "db", "layer"]), r["side"], 0, ncells)
            elif c == 3:
                nd["cell"] = ncells
            elif c == 4:
                nodes.append({"k": "port", "inst": r["to"]})
                r["to"] = len(nodes) - 1
            elif c == 5:
                nodes.append(arrinst(rand_arr(rng, ncells, 1), ab(0, 0)))
                r["to"] = len(nodes) - 1
            elif c == 6:
                nodes.append(arrinst(rand_arr(rng, ncells, 1), rel(r["to"], 0, {"side": 2})))
            elif c == 7:
                nodes.append(arrinst(rand_arr(rng, ncells, 2, good=False), ab(1, 2), True, False))
            else:
                nodes[r["to"]]["cell"] = ncells
            kind = "program_bad/%d" % c
        elif nd["k"] == "inst":
            nd["loc"] = ab(nd["loc"]["abs"][1], nd["loc"]["abs"][3], rng.choice([0, 1]), rng.choice([0, 1]))
            kind = "program_bad/tag"
    ids = list(range(len(nodes)))
    runs = shuffled_runs(rng, nodes, ids)
    case = {"cells": cells, "nodes": nodes, "runs": runs, "same_set": True, "kind": kind,
            "maxdepth": max(depth.values()) if depth else 0}
    return case

def subset_case(rng):
    """Only some of the objects are listed: referenced but unlisted instances are pulled in by the orderer."""
    case = program_case(rng)
    nodes = case["nodes"]
    ids = [k for k in range(len(nodes)) if rng.random() < 0.5] or [len(nodes) - 1]
    dup = ids + [rng.choice(ids)]
    rng.shuffle(dup)
    case["runs"] = shuffled_runs(rng, nodes, ids, 2) + [{"instances": [], "places": dup}]
    case["same_set"] = True        # same set of objects (a duplicate listing of one pointer changes nothing)
    case["kind"] = "subset"
    return case

def cycle_case(rng):
    """A cycle of length 1-4 among the relations, with tails leading into it and unrelated placed objects."""
    ncells = rng.randint(1, 3)
    cells = rand_cells(rng, ncells)
    L = rng.randint(1, 4)
    nodes = []
    for k in range(L):
        rh, rv = rng.choice(REFL)
        nodes.append(inst(rng.randrange(ncells), rand_good_rel(rng, (k + 1) % L, ncells), rh, rv))
    for _ in range(rng.randint(0, 4)):      # tails into the cycle / chains of tails
        nodes.append(inst(rng.randrange(ncells), rand_good_rel(rng, rng.randrange(len(nodes)), ncells), *rng.choice(REFL)))
    base = len(nodes)
    for k in range(rng.randint(0, 4)):      # an unrelated, valid component
        if k == 0:
            nodes.append(inst(rng.randrange(ncells), ab(rng.randint(-9, 9), rng.randint(-9, 9))))
        else:
            nodes.append(inst(rng.randrange(ncells), rand_good_rel(rng, rng.randrange(base, len(nodes)), ncells)))
    # renumber randomly so that the cycle is not always at the front of the pool
    perm = list(range(len(nodes)))
    rng.shuffle(perm)
    new = [None] * len(nodes)
    for old, nd in enumerate(nodes):
        if "rel" in nd["loc"]:
            nd["loc"]["rel"]["to"] = perm[nd["loc"]["rel"]["to"]]
        new[perm[old]] = nd
    ids = list(range(len(new)))
    return {"cells": cells, "nodes": new, "runs": shuffled_runs(rng, new, ids), "same_set": True, "kind": "cycle/%d" % L}

def array_case(rng, bad=False):
    ncells = rng.randint(1, 3)
    cells = rand_cells(rng, ncells)
    nodes = []
    for _ in range(rng.randint(1, 3)):
        rh, rv = rng.choice(REFL)
        loc = ab(rng.randint(-40, 40), rng.randint(-40, 40))
        if bad and rng.random() < 0.15:
            loc = ab(1, 2, rng.choice([0, 1]), rng.choice([0, 1]))
        nodes.append(arrinst(rand_arr(rng, ncells, rng.randint(1, 3), good=not bad), loc, rh, rv))
    nodes.append(inst(rng.randrange(ncells), ab(rng.randint(-9, 9), rng.randint(-9, 9))))
    nodes.append(inst(rng.randrange(ncells), rand_good_rel(rng, len(nodes) - 1, ncells), *rng.choice(REFL)))
    ids = list(range(len(nodes)))
    return {"cells": cells, "nodes": nodes, "runs": shuffled_runs(rng, nodes, ids, 2), "same_set": True,
            "kind": "array_bad" if bad else "array"}

def fixed_cases():
    """Hand-written corner cases (all confirmed on the real code while the model was written)."""
    cells = [{"x": [11], "y": [12]}, {"x": [2], "y": [1]}, None, {"x": [5, 3], "y": [2, 7]}]
    out = []
    # self reference, two-cycle, a tail into a cycle, a port of oneself
    out.append({"cells": cells, "nodes": [inst(1, rel(0, LEFT, {"side": BOTTOM}))],
                "runs": [{"instances": [0], "places": []}], "kind": "fixed/self"})
    out.append({"cells": cells, "nodes": [inst(1, rel(1, LEFT, {"side": BOTTOM})), {"k": "port", "inst": 0}],
                "runs": [{"instances": [0], "places": []}, {"instances": [], "places": [1]}], "kind": "fixed/port_self"})
    # relative to an array, array placed relatively, element count 0 with a wrong-axis pitch, count 1 with it
    a = {"unit": {"cell": 1}, "count": 3, "sep": sp({"prim": [0, 5]})}
    out.append({"cells": cells, "nodes": [arrinst(a, ab(10, 20), True, False), inst(1, rel(0, RIGHT, {"side": BOTTOM})),
                                          arrinst(a, rel(0, RIGHT, {"side": BOTTOM})),
                                          arrinst({"unit": {"cell": 1}, "count": 0, "sep": sp({"prim": [1, 5]})}, ab(0, 0)),
                                          arrinst({"unit": {"cell": 1}, "count": 1, "sep": sp({"prim": [1, 5]})}, ab(0, 0)),
                                          arrinst({"unit": {"cell": 2}, "count": 2, "sep": sp()}, ab(0, 0)),
                                          inst(1, rel(5, RIGHT, {"side": BOTTOM}))],
                "runs": [{"instances": [], "places": [0]}, {"instances": [1], "places": [0]}, {"instances": [], "places": [2]},
                         {"instances": [], "places": [3]}, {"instances": [], "places": [4]}, {"instances": [], "places": [5]},
                         {"instances": [6], "places": []}], "kind": "fixed/array"})
    # non-orthogonal alignment: accepted with a mis-tagged coordinate, then a later user of the box panics
    out.append({"cells": cells, "nodes": [inst(0, ab(16, 15)), inst(1, rel(0, LEFT, {"side": LEFT})), inst(1, rel(1, RIGHT, {"side": BOTTOM})),
                                          inst(1, rel(0, LEFT, {"side": LEFT}), False, True)],
                "runs": [{"instances": [0, 1], "places": []}, {"instances": [0, 1, 2], "places": []}, {"instances": [0, 3], "places": []}],
                "kind": "fixed/nonorthogonal"})
    # a cell without outline can be placed when no reflection offset is needed
    out.append({"cells": cells, "nodes": [inst(0, ab(0, 0)), inst(2, rel(0, RIGHT, {"side": BOTTOM})), inst(2, rel(0, LEFT, {"side": BOTTOM}))],
                "runs": [{"instances": [0, 1], "places": []}, {"instances": [0, 2], "places": []}], "kind": "fixed/nooutline"})
    for c in out:
        c.setdefault("same_set", False)
    return out

def audit_cases():
    """Directed families added by the generator audit of 2026-10-02 (each class was absent from the quick tier):
    one pointer listed twice (within `instances`, within `places`, in both lists, an array twice); relation cycles that run through a
    Port placeable or through a relatively placed array; big arrays (flat 300, nested 12 x 12 x 3, all reflections); and library-level
    structure: the parent below 1-3 wrapper cells that instantiate it, and a sibling cell with a relative placement of its own listed
    before / after the parent (`wrap` / `sibling` options of a run; judged on `all_abs` and the sibling's location by evaluate())."""
    cells = [{"x": [11], "y": [12]}, {"x": [2], "y": [1]}, None, {"x": [5, 3], "y": [2, 7]}]
    out = []
    R = lambda to, side=RIGHT, al=BOTTOM, sep=None: rel(to, side, {"side": al}, sep)
    base = [inst(0, ab(3, -4), True, False), inst(1, R(0)), inst(3, R(1, TOP, LEFT, sp(y={"prim": [VERT, 2]})), False, True),
            inst(1, R(2, LEFT, TOP, sp(x={"sizeof": 3})), True, True)]
    # one pointer reached twice
    out.append({"cells": cells, "nodes": base, "kind": "audit/listed_twice", "same_set": True,
                "runs": [{"instances": [0, 1, 2, 3], "places": []},
                         {"instances": [3, 3, 2, 1, 0], "places": []},             # twice in `instances`, dependent first
                         {"instances": [1, 0, 1, 2, 3, 0], "places": []},
                         {"instances": [3, 2, 1, 0], "places": [0, 3]},            # in `instances` and in `places`
                         {"instances": [], "places": [2, 2, 3, 3, 0, 0, 1, 1]},
                         {"instances": [1], "places": [3, 2, 1, 0, 1]}]})
    a = {"unit": {"cell": 1}, "count": 3, "sep": sp({"prim": [0, 5]}, {"prim": [1, -2]})}
    out.append({"cells": cells, "nodes": [arrinst(a, ab(10, 20), True, True), inst(1, ab(0, 0))], "kind": "audit/listed_twice", "same_set": True,
                "runs": [{"instances": [1], "places": [0]}, {"instances": [1, 1], "places": [0, 0]}, {"instances": [], "places": [0, 1, 0]}]})
    # cycles that do not consist of instances only
    out.append({"cells": cells, "nodes": [inst(1, R(2)), inst(1, R(0, TOP, LEFT)), {"k": "port", "inst": 1}, inst(0, ab(0, 0))], "kind": "audit/cycle_via_port",
                "runs": [{"instances": [0, 1, 3], "places": []}, {"instances": [3, 1, 0], "places": []}, {"instances": [3], "places": [2]},
                         {"instances": [], "places": [3, 2, 0]}]})
    out.append({"cells": cells, "nodes": [inst(1, R(1)), arrinst(a, R(0, TOP, LEFT)), inst(0, ab(0, 0))], "kind": "audit/cycle_via_array",
                "runs": [{"instances": [0, 2], "places": []}, {"instances": [2], "places": [1]}, {"instances": [2, 0], "places": [1]},
                         {"instances": [], "places": [1, 0, 2]}]})
    out.append({"cells": cells, "nodes": [arrinst(a, R(0))], "kind": "audit/cycle_via_array", "runs": [{"instances": [], "places": [0]}]})
    # big arrays
    big = {"unit": {"cell": 1}, "count": 300, "sep": sp({"prim": [0, 3]}, {"prim": [1, -1]})}
    inner = {"unit": {"cell": 3}, "count": 3, "sep": sp({"prim": [0, 1]}, None)}
    mid = {"unit": {"arr": inner}, "count": 12, "sep": sp(None, {"prim": [1, 9]})}
    n3 = {"unit": {"arr": mid}, "count": 12, "sep": sp({"prim": [0, 40]}, {"prim": [1, 1]})}
    nodes = [arrinst(big, ab(1, 2), rh, rv) for rh, rv in REFL] + [arrinst(n3, ab(-7, 5), rh, rv) for rh, rv in REFL]
    out.append({"cells": cells, "nodes": nodes, "kind": "audit/array_large", "same_set": False,
                "runs": [{"instances": [], "places": [k]} for k in range(8)]})
    # numeric boundaries: cells of width / height 0, and coordinates / separations around 2^40 (far from the isize limits)
    zc = [{"x": [0], "y": [7]}, {"x": [4], "y": [0]}, {"x": [0], "y": [0]}, {"x": [6, 0], "y": [0, 3]}]
    B = 1 << 40
    for kind, cs, refs, sepn in (("audit/zero_size", zc, [inst(0, ab(5, -5), True, False), inst(1, ab(-5, 5), False, True), inst(2, ab(0, 0), True, True)], 0),
                                 ("audit/big_coords", cells, [inst(0, ab(B, -B), True, False), inst(1, ab(-B + 1, B - 1), False, True), inst(3, ab(B, B), True, True)], B)):
        nodes = list(refs)
        runs = []
        for ri in range(len(refs)):
            for side in range(4):
                for al in [a for a in range(4) if axis(a) != axis(side)]:
                    rh, rv = REFL[(side + al + ri) % 4]
                    k = len(nodes)
                    sep = sep_on(axis(side), {"prim": [axis(side), sepn - ri]}) if (side + ri) % 2 else sep_on(axis(side), {"sizeof": (ri + side) % len(cs)})
                    nodes.append(inst((k + side) % len(cs), rel(ri, side, {"side": al}, sep), rh, rv))
                    runs.append({"instances": [k, ri], "places": []})
        out.append({"cells": cs, "nodes": nodes, "kind": kind, "same_set": False, "runs": runs})
    # library structure around the parent
    runs = []
    for wrap in (0, 1, 3):
        for sib in (None, "before", "after"):
            if wrap == 0 and sib is None:
                continue
            r = {"instances": [3, 1, 2, 0] if wrap != 1 else [1, 0], "places": [] if wrap != 1 else [3, 2], "wrap": wrap}
            if sib:
                r["sibling"] = sib
            runs.append(r)
            if wrap > 0:
                # the parent cell reachable only through the cells that instantiate it (not listed in lib.cells)
                runs.append(dict(r, unlisted=True))
    out.append({"cells": cells, "nodes": base, "kind": "audit/library_levels", "same_set": True, "runs": runs})
    # the same with a failing parent: the whole call must fail, whatever surrounds the parent
    bad = [inst(1, R(0)), inst(1, R(0, TOP, LEFT))]
    out.append({"cells": cells, "nodes": bad + [inst(1, R(1))], "kind": "audit/library_levels", "same_set": False,
                "runs": [{"instances": [0, 1, 2], "places": [], "wrap": 2, "sibling": "before"}, {"instances": [2], "places": [], "wrap": 1, "sibling": "after"}]})
    for c in out:
        c.setdefault("same_set", False)
    return out

SIBLING_EXPECT = [7, 7]     # s0 at (5, 7), cell 2 x 3, s1 to its Right aligned Bottom (harness/src/bin/c09.rs)

def structure_ok(run, r):
    """The part of the statement the Coq check does not see for `wrap` / `sibling` runs: after a successful call every instance of
    EVERY cell is absolutely placed, and the sibling's own relation was resolved."""
    if "ok" not in r:
        return True
    if r.get("all_abs") is False:
        return False
    if run.get("sibling") and r.get("sibling") != SIBLING_EXPECT:
        return False
    return True

def gen_cases(chk):
    rng = chk.rng
    quick = chk.tier == "quick"
    cases = list(fixed_cases()) + audit_cases()
    for variant in range(2 if quick else 12):
        for side in range(4):
            for align in ALIGNS:
                for sk in SEP_KINDS:
                    cases.append(table_case(rng, side, align, sk, variant))
    if not quick:
        chk.cov["exhaustive_subspace"] = ("single relation: 4 sides x 6 alignments (4 edges, centre, ports) x 11 separation kinds x 4 reflections "
                                          "of the placed x 4 of the reference instance, 12 size variants each")
    m = 2 if quick else 20
    for _ in range(500 * m):
        cases.append(program_case(rng))
    for _ in range(150 * m):
        cases.append(program_case(rng, bad_rate=1.0))
    for _ in range(100 * m):
        cases.append(subset_case(rng))
    for _ in range(200 * m):
        cases.append(cycle_case(rng))
    for _ in range(150 * m):
        cases.append(array_case(rng))
    for _ in range(60 * m):
        cases.append(array_case(rng, bad=True))
    return cases

def harness_view(c):
    v = {"cells": c["cells"], "nodes": c["nodes"], "runs": c["runs"]}
    if c.get("uses_parent_cell"):
        v["uses_parent_cell"] = True
    return v

HDR = ("From Coq Require Import ZArith List Bool.\nImport ListNotations.\n"
       "From L21 Require Import Tetris.Placer Tetris.PlacerSpec Tetris.PlacerCheck.\nOpen Scope Z_scope.\n")

def evaluate(chk, cases, tag):
    res = harness("c09", [harness_view(c) for c in cases])
    items, idx = [], []
    out = [None] * len(cases)
    for i, (c, r) in enumerate(zip(cases, res)):
        if "runs" not in r:
            out[i] = (2, r)          # the harness itself failed (crash / hang): nothing in the generated space may do that
        else:
            items.append(coq_item(c, r))
            idx.append(i)
    codes = coq_eval_lists(HDR, items, chk.rundir, tag, shard=120)
    for i, s in zip(idx, codes):
        code = parse_z(s)
        if code != 2 and not all(structure_ok(run, rr) for run, rr in zip(cases[i]["runs"], res[i]["runs"])):
            code = 2       # an instance somewhere in the returned library is still relatively placed / the sibling was not resolved
        out[i] = (code, res[i])
    return out

def nontrivial(c):
    return any(n["k"] == "array" or (n["k"] == "inst" and "rel" in n["loc"]) for n in c["nodes"])

def run(chk, replay=None):
    chk.proof_leg(["Tetris/PlacerCheck.vo"], "Properties/C09.v", ["Tetris/Placer_proofs.v"], "Properties.C09")
    kernel_tie_leg(chk, "tetris_place")       # generated-from-source kernels = the model functions (Properties/KernelsTetris.v)
    kernel_tie_leg(chk, "order_generic")      # DepOrderer::push / order generated from the source (the placement orderer) = the model (Properties/KernelsOrder.v)
    kernel_tie_leg(chk, "order_tetris")       # PlaceOrder::process and the orderer of Tetris/Placer.v (push, node_dep) = the generated code (Properties/KernelsOrderTetris.v)
    chk.assumptions += [
        "isize arithmetic does not overflow (coordinates are Z in the model; generated coordinates are small)",
        "a layout's placeables are a finite pool of distinct pointers, node id = pointer identity; RwLock behaviour is not modelled "
        "(a separation SizeOf(the cell being placed) dead-locks the real code: reported, outside the property)",
        "cells enter only through Cell::outline(): (xmax, ymax) = (x[0], y[last]) of an outline validated by Outline::new",
        "RelAssign / Group placeables are outside the model (Group cannot be built through the public API)",
    ]
    if not getattr(chk, "model_ok", False):
        return
    if replay:
        obj = json.load(open(replay))["replay"]
        cases = obj.get("cases", [])
    else:
        cases = gen_cases(chk)
    dist = {}
    for c in cases:
        dist[c.get("kind", "?")] = dist.get(c.get("kind", "?"), 0) + 1
    chk.cov["input_distribution"] = dist
    chk.cov["rule"] = ("placement programs built through the public tetris API: exhaustive single-relation table, random chains/trees "
                       "(depth up to 24) in shuffled listings, partial listings, cycles of length 1-4, nested arrays with reflections, "
                       "and programs with one object outside the property's space; one evaluation = one Placer::place call; a case is "
                       "non-trivial when it has a relative placement or an array; distinct by (cells, nodes, runs)")
    results = evaluate(chk, cases, "c09")
    chk.cov["evaluations"] = sum(len(c["runs"]) for c in cases)
    chk.cov["cases"] = len(cases)
    chk.cov["distinct_nontrivial"] = len({json.dumps(harness_view(c), sort_keys=True) for c in cases if nontrivial(c)})
    chk.cov["traces_validated_against_impl"] = sum(len(c["runs"]) for c, r in zip(cases, results) if r[0] == 0)
    chk.cov["max_relation_depth"] = max([c.get("maxdepth", 0) for c in cases] + [0])
    outcomes = {"ok": 0, "err": 0, "panic": 0}
    for c, r in zip(cases, results):
        for rr in r[1].get("runs", []):
            for k in outcomes:
                if k in rr:
                    outcomes[k] += 1
    chk.cov["impl_outcomes"] = outcomes
    step = max(1, len(cases) // 6)
    chk.add_samples([{"case": harness_view(c), "impl": r[1], "code": r[0]} for c, r in list(zip(cases, results))[::step]], k=6)
    mism = [(c, r) for c, r in zip(cases, results) if r[0] == 1]
    viol = [(c, r) for c, r in zip(cases, results) if r[0] == 2]
    chk.cov["correspondence_mismatches"] = len(mism)
    if viol:
        viol.sort(key=lambda cr: (len(cr[0]["nodes"]), len(cr[0]["runs"])))
        c, r = viol[0]
        chk.violation("Placer::place: case kind=%s nodes=%s runs=%s impl=%s fails the property (%d failing cases of %d)"
                      % (c.get("kind"), json.dumps(c["nodes"]), json.dumps(c["runs"]), json.dumps(r[1])[:600], len(viol), len(cases)),
                      {"cases": [c for c, _ in viol[:20]], "impl": [r[1] for _, r in viol[:20]]})
    elif mism:
        c, r = mism[0]
        chk.broken.append("correspondence C09: impl differs from model, e.g. kind=%s nodes=%s runs=%s impl=%s"
                          % (c.get("kind"), json.dumps(c["nodes"]), json.dumps(c["runs"]), json.dumps(r[1])[:600]))
