"""C03: every grammar-conformant GDSII stream is read to exactly the content it encodes.
Streams come from the reference encoder spec_render (Gds/GdsSpec.v) evaluated inside Coq,
independently of the crate's writer; the impl reads them; unsupported library-level records
must give an error. Foreign-written files of /repo are cross-checked against the reference decoder."""
import json, os
from vlib import *
from props.kernelcommon import kernel_tie_leg
from props.gdscommon import *

HARNESS_BINS = ["c01"]
# lemma files whose Qed-closed obligations belong to this property (Properties/C03.v holds the theorems)
PROOF_FILES = ["Gds/GdsBytes_proofs.v", "Gds/GdsWrite_proofs.v", "Gds/GdsWFits_proofs.v", "Gds/GdsWTables_proofs.v", "Gds/GdsRtUnfold_proofs.v", "Gds/GdsRtRead_proofs.v", "Gds/GdsRoundtrip_proofs.v", "Gds/GdsRtSpec_proofs.v", "Gds/GdsRtUnsupp_proofs.v", "Gds/GdsRtUnsuppKind_proofs.v", "Gds/GdsRtStrip_proofs.v"]

FOREIGN = ["/repo/gds21/resources/sample1.gds", "/repo/gds21/resources/invalid_dates.gds",
           "/repo/layout21converters/resources/sky130_fd_sc_hd__dfxtp_1.gds"]

def extras(g):
    """(name, pre, post) Coq terms: optional library-level records as the manual describes them"""
    r = g.rng
    name44 = cbytes(b"REFLIB1" + b"\0" * 37 + b"REFLIB2" + b"\0" * 37)
    fonts = cbytes((b"GDSII:CALMAFONT.TX" + b"\0" * 26) * 4)
    return [
        ("LIBDIRSIZE", "[x_libdirsize %s]" % cz(g.i16()), "[]"),
        ("SRFNAME", "[x_srfname %s]" % cbytes(b"SPACING.RULES"), "[]"),
        ("SRFNAME_empty", "[x_srfname %s]" % cbytes(b""), "[]"),
        ("LIBSECUR_1", "[x_libsecur [1; 2; 7]]", "[]"),
        ("LIBSECUR_2", "[x_libsecur [1; 2; 7; 3; 4; 5]]", "[]"),
        ("LIBSECUR_short", "[x_libsecur [1]]", "[]"),
        ("pre_all", "[x_libdirsize 3; x_srfname %s; x_libsecur [1; 2; 3]]" % cbytes(b"RULES"), "[]"),
        ("REFLIBS", "[]", "[x_reflibs %s]" % name44),
        ("REFLIBS_short", "[]", "[x_reflibs %s]" % cbytes(b"lib")),
        ("FONTS", "[]", "[x_fonts %s]" % fonts),
        ("ATTRTABLE", "[]", "[x_attrtable %s]" % cbytes(b"ATTRS.TABLE")),
        ("GENERATIONS", "[]", "[x_generations %s]" % cz(r.choice([3, 2, 99]))),
        ("FORMAT_archive", "[]", "[x_format 0]"),
        ("FORMAT_filtered", "[]", "[x_format 1; x_mask %s; x_endmasks]" % cbytes(b"1 5-7 10 ; 0-63")),
        ("post_all", "[]", "[x_reflibs %s; x_fonts %s; x_attrtable %s; x_generations 3; x_format 0]" % (name44, fonts, cbytes(b"A"))),
        ("both", "[x_libdirsize 1]", "[x_generations 3]"),
    ]

PAD = "pad-to-tape-block"      # marker returned by tails(): zeros up to the next multiple of 2048 bytes, filled in once the stream is rendered
def tails(g, n):
    r = g.rng
    c = r.randrange(9)
    if c <= 2:
        g.note("tail_none")
        return b""
    if c == 3:
        g.note("tail_zeros_1_3")
        return bytes(r.choice([1, 2, 3]))
    if c == 4:
        # tape-block padding with zeros. (Until 2026-10-02 this was bytes((2048 - n) % 2048) with n = 0 at every call site,
        # i.e. always empty: the length of the stream is only known after Coq has rendered it, see evaluate.)
        g.note("tail_tape_pad")
        return PAD
    if c == 5:
        g.note("tail_nonzero_garbage")
        return bytes(r.randrange(1, 256) for _ in range(r.choice([1, 2, 3, 4, 5, 8, 31])))   # non-zero garbage
    if c == 6:
        g.note("tail_more_records")
        return bytes.fromhex("00060002000300040400")      # looks like more records
    if c == 7:
        g.note("tail_ff")
        return bytes([0xFF] * r.choice([1, 4, 7]))
    g.note("tail_random")
    return bytes(r.randrange(256) for _ in range(r.randrange(1, 40)))

def mk(kind, lib, tail=b"", pre="[]", post="[]", **kw):
    """a case; tail = PAD: zeros up to the next multiple of kw['pad_to'] (default 2048) bytes"""
    c = {"kind": kind, "lib": lib, "pre": pre, "post": post, "tail": b"" if tail is PAD else tail}
    if tail is PAD:
        c["pad_to"] = kw.pop("pad_to", 2048)
    c.update(kw)
    return c

def gen_cases(chk):
    quick = chk.tier == "quick"
    g = Gen(chk.rng, allow_known=True, allow_empty=True, allow_out_of_range=False)
    cases = []
    for _ in range(260 if quick else 10000):
        l = g.lib()
        cases.append(mk("random", l, tails(g, 0)))
    for l in subset_libs(g, exhaustive=not quick, sample=8):
        cases.append(mk("subset", l, tails(g, 0)))
    for k in KINDS:
        g.note("full_" + k)
        l = base_lib(b"L", [{"name": b"cell", "dates": [0] * 12, "elems": [g.elem(k, force=set(OPT_FIELDS[k]))]}])
        cases.append(mk("full_" + k, l))
    for name, pre, post in extras(g):
        for _ in range(2 if quick else 20):
            g.note("unsupported_" + name)
            cases.append(mk("unsupported_" + name, g.lib(), pre=pre, post=post))
    longs = long_libs(g)
    longs = [x for x in longs if not x[0].endswith("65531") and not x[0].endswith("65532") and not x[0].endswith("8192")]
    if quick:
        k = (chk.seed + 2) % 3
        longs = [x for i, x in enumerate(longs) if i % 3 == k]
    for name, l in longs:
        g.note(name.rsplit("_", 1)[0])
        cases.append(mk(name, l, b"\0\0"))
    # directed families (generator audit 2026-10-02), shared with C01 / C02: optional records holding the value a reader assumes when
    # they are absent, all STRANS flag combinations, record lengths at the 256 / 32768 boundaries, the same name / element /
    # attribute twice, white space and control characters in strings, more than 1024 structs / elements
    for fam, name, l in directed_libs(chk.seed + 2, quick):
        g.note(fam)
        cases.append(mk(name, l))
    # tape-block padding: the stream filled with zeros to a multiple of 2048 / 512 bytes, and whole blocks of zeros after it
    full = base_lib(b"all", [{"name": b"cell", "dates": list(range(12)), "elems": [g.elem(k, force=set(OPT_FIELDS[k])) for k in KINDS]}])
    few = [("empty", base_lib(b"e")), ("full", full), ("dup", dup_libs()[0][1])]
    for nm, l in few:
        for what, tail, kw in (("block2048", PAD, {"pad_to": 2048}), ("block512", PAD, {"pad_to": 512}), ("zeros2048", bytes(2048), {})):
            g.note("tape_pad")
            cases.append(mk("tape_pad_%s_%s" % (what, nm), l, tail, **kw))
    # the file entry point GdsLibrary::open / load (everything above is read from a byte slice with from_bytes)
    big = plain_elem("text"); big["string"] = b"b" * 65529 + b"e"
    fl = [("file_read_full", full, PAD), ("file_read_empty", base_lib(b""), b""), ("file_read_long_text", one_elem_lib(big), b"\0\0")]
    fl += [("file_read_random", g.lib(), tails(g, 0)) for _ in range(7 if quick else 200)]
    for nm, l, t in fl:
        g.note("file_read")
        cases.append(mk(nm, l, t, file=True))
    return spread_heavy(cases), g.dist

def evaluate(chk, cases, tag):
    """phase 1: Coq renders the streams; phase 2: impl reads; phase 3: Coq judges"""
    streams = eval_strings(chk, [capp("hexchunks", capp("c03_stream", Raw(c["pre"]), Raw(c["post"]), to_coq(c["lib"]), cbytes(c["tail"]))) for c in cases], tag + "_render", shard=28)
    for i, c in enumerate(cases):
        if c.get("pad_to"):
            # tape-block padding: now that the length is known, the tail becomes zeros up to the next multiple of the block size
            # (the judge below is given the same tail)
            pad = (-(len(streams[i]) // 2)) % c["pad_to"]
            c["tail"] = c["tail"] + bytes(pad)
            c["pad_to"] = None
            streams[i] += "00" * pad
    # a stream goes to from_bytes, or (family file_read) into a file that GdsLibrary::load opens
    res = harness("c01", [{"op": "read_file" if c.get("file") else "read", "bytes": s} for c, s in zip(cases, streams)])
    items, idx = [], []
    out = [None] * len(cases)
    for i, (c, r) in enumerate(zip(cases, res)):
        if "r" not in r:
            out[i] = (2, r)
            continue
        items.append(capp("c03_check", Raw(c["pre"]), Raw(c["post"]), to_coq(c["lib"]), cbytes(c["tail"]), c_rres(r["r"])))
        idx.append(i)
    codes = eval_codes(chk, items, tag, shard=28)
    for i, cde in zip(idx, codes):
        r = res[i]["r"]
        out[i] = (cde, {"stream_len": len(streams[i]) // 2, "stream_head": streams[i][:80], "r": ("ok" if "ok" in r else r)})
    return out

def foreign(chk):
    """files written by other tools: reference decoder against the impl reader and the reader model"""
    files = [f for f in FOREIGN if os.path.exists(f) and os.path.getsize(f) > 0]
    data = [open(f, "rb").read() for f in files]
    res = harness("c01", [{"op": "read", "bytes": d.hex()} for d in data])
    items = [capp("c03_foreign_check", cbytes(d), c_rres(r.get("r"))) for d, r in zip(data, res)]
    codes = eval_codes(chk, items, "c03foreign", shard=1)
    out = []
    for f, d, r, c in zip(files, data, res, codes):
        out.append({"file": f, "bytes": len(d), "impl": "ok" if "ok" in r.get("r", {}) else r.get("r"), "code": c})
    return out

def run(chk, replay=None):
    chk.proof_leg(MODEL_TARGETS, "Properties/C03.v", PROOF_FILES, "Properties.C03")
    kernel_tie_leg(chk, "gds_read")       # GdsReader::read_record_header / read_record_content / read_record generated from gds21/src/read.rs = read_header / read_content / read_record of the reader model (Properties/KernelsGdsCodec.v)
    kernel_tie_leg(chk, "gds_parse")      # GdsParser::parse_property / parse_strans generated from gds21/src/read.rs = the parser model (Properties/KernelsGdsCodec.v)
    kernel_tie_leg(chk, "gds_parse_e1")   # GdsParser::parse_boundary / parse_path / parse_node / parse_box = parse_elem of Gds/GdsRead.v, fuel for fuel
    kernel_tie_leg(chk, "gds_parse_e2")   # GdsParser::parse_struct_ref / parse_array_ref / parse_text_elem = parse_elem
    kernel_tie_leg(chk, "gds_parse_lib")  # GdsParser::parse_struct / parse_lib (+ the generated read_record) = parse_struct / parse_lib / read_lib_fuel
    chk.assumptions += [
        "GdsSpec.v is a faithful transcription of the GDSII stream format manual; the reference encoder pads odd-length strings with exactly one NUL and never pads even-length strings (DESIGN.md section 4)",
        "the reference encoding of a double is gds_spec_encode (C15)",
        "reading from a byte slice (GdsLibrary::from_bytes), family file_read: from a scratch file through GdsLibrary::load (= open); errors compared by GdsError variant",
    ]
    if not getattr(chk, "model_ok", False):
        return
    if replay:
        obj = json.load(open(replay))["replay"]
        cases = [{"kind": "replay", "lib": from_json(j["lib"]), "pre": j["pre"], "post": j["post"], "tail": bytes.fromhex(j["tail"]), "file": j.get("file", False)} for j in obj.get("cases", [])]
        dist = {}
    else:
        cases, dist = gen_cases(chk)
    results = evaluate(chk, cases, "c03")
    fr = foreign(chk) if not replay else []
    chk.cov["foreign_files"] = fr
    chk.cov["input_distribution"] = dist
    chk.cov["rule"] = ("streams rendered inside Coq by the reference encoder from generated libraries (all element kinds, enumerated optional-record subsets, "
                       "string classes, arbitrary dates, directed libraries: optional records at their default value, STRANS flag combinations, record lengths at 256 / 32768, repeated names / elements / attributes, "
                       "white space and control characters, more than 1024 items), followed by tails of zero / non-zero bytes incl. zero padding to a 2048- or 512-byte tape block; "
                       "plus streams with each optional library-level record (expected: error); plus streams read from a file through GdsLibrary::load; "
                       "non-trivial = at least one element; distinct by (library JSON, extras, tail)")
    chk.cov["evaluations"] = len(cases) + len(fr)
    chk.cov["distinct_nontrivial"] = len({(lib_key(c["lib"]), c["pre"], c["post"], c["tail"]) for c in cases if any(s["elems"] for s in c["lib"]["structs"])})
    chk.cov["traces_validated_against_impl"] = sum(1 for r in results if r[0] == 0) + sum(1 for f in fr if f["code"] == 0)
    chk.add_samples([{"kind": c["kind"], "lib_size": lib_size(c["lib"]), "tail_len": len(c["tail"]), "impl": r[1], "code": r[0]}
                     for c, r in list(zip(cases, results))[:: max(1, len(cases) // 5)]], k=5)
    for f in fr:
        if f["code"] == 2:
            chk.violation("foreign-written GDSII file %s: impl read result %s disagrees with the reference decoder" % (f["file"], f["impl"]),
                          {"file": f["file"]}, suffix="-foreign")
        elif f["code"] == 1:
            chk.broken.append("correspondence C03: reader model differs from impl on %s" % f["file"])
    def to_replay(c):
        return {"lib": to_json(c["lib"]), "pre": c["pre"], "post": c["post"], "tail": c["tail"].hex(), "file": bool(c.get("file"))}
    def shrinker(c, r, cls):
        if lib_size(c["lib"]) >= 5000:
            return c, r
        def still(cands):
            cs = [dict(c, lib=l) for l in cands]
            rs = evaluate(chk, cs, "c03shr")
            return [rr[0] == 2 and classify_common(l) == cls for l, rr in zip(cands, rs)]
        small = shrink(c["lib"], still, rounds=8, width=24)
        c2 = dict(c, lib=small)
        return c2, evaluate(chk, [c2], "c03wit")[0]
    report(chk, chk.pid, "GDSII reader on reference-encoded streams", cases, results,
           classify=lambda c, impl: classify_common(c["lib"]),
           to_replay=to_replay, size=lambda c: lib_size(c["lib"]), shrinker=shrinker)
