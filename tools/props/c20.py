"""C20: conversions are deterministic (same input, same output, in one process and across processes).
Proof leg: Properties/C20.v (iteration of a hash map through a sort is independent of the iteration order; the
conversion models take the order as an explicit oracle).  Correspondence: the real conversion chains
GDSII -> raw -> {GDSII, protobuf -> raw, LEF} and LEF -> raw -> {GDSII, protobuf -> raw, LEF} (and gridded -> raw via C08's
harness) repeated inside one process and in several separate processes (fresh hash seeds), outputs compared.
Model leg for the raw -> LEF exporter (section at the end of this file): LefExporter::export on generated raw libraries with
abstracts, and LefImporter::import followed by LefExporter::export on generated LEF libraries, against the Coq model
Raw/RawLefExport.v (harness bin c20x).
Model leg for Layers::from_proto (section "technology protobuf -> layer table" below): the "tech" sources of the main run, whose
printed layer table (slots in order, both purpose maps of every layer, Layers.nums / names) is compared with the Coq model
Raw/RawLayersProto.v evaluated by Raw/RawLayersProtoCheck.v; the text of the second loop (NoSort / SortByNum / SortByKey) is read
from layout21raw/src/proto.rs on every run."""
import json, os, re, struct, subprocess
from vlib import *

HARNESS_BINS = ["c20", "c20x", "c08"]      # c20x: the raw -> LEF exporter against its Coq model (section at the end of this file)

# ------------------------------------------------------------------ a small GDSII byte writer (independent of /repo)
def gds_real(x):
    if x == 0:
        return b"\0" * 8
    sign = 0x80 if x < 0 else 0
    x = abs(x)
    from fractions import Fraction
    f = Fraction(x)
    e = 0
    while f >= 1:
        f /= 16; e += 1
    while f < Fraction(1, 16):
        f *= 16; e -= 1
    m = int(f * (1 << 56))
    return bytes([sign | (64 + e)]) + m.to_bytes(7, "big")

def rec(rt, dt, payload=b""):
    if len(payload) % 2:
        payload += b"\0"
    return struct.pack(">HBB", len(payload) + 4, rt, dt) + payload
def i16s(*xs):
    return b"".join(struct.pack(">h", x) for x in xs)
def i32s(*xs):
    return b"".join(struct.pack(">i", x) for x in xs)

def gds_bytes(lib):
    out = [rec(0x00, 2, i16s(3)), rec(0x01, 2, i16s(*([2020, 1, 2, 3, 4, 5] * 2))), rec(0x02, 6, lib["name"].encode()),
           rec(0x03, 5, gds_real(1e-3) + gds_real(1e-9))]
    for s in lib["structs"]:
        out += [rec(0x05, 2, i16s(*([2020, 1, 2, 3, 4, 5] * 2))), rec(0x06, 6, s["name"].encode())]
        for e in s["elems"]:
            k = e["k"]
            if k == "boundary":
                out += [rec(0x08, 0), rec(0x0D, 2, i16s(e["layer"])), rec(0x0E, 2, i16s(e["dt"])), rec(0x10, 3, i32s(*sum(e["xy"], []))), rec(0x11, 0)]
            elif k == "path":
                out += [rec(0x09, 0), rec(0x0D, 2, i16s(e["layer"])), rec(0x0E, 2, i16s(e["dt"])), rec(0x0F, 3, i32s(e["width"])), rec(0x10, 3, i32s(*sum(e["xy"], []))), rec(0x11, 0)]
            elif k == "box":
                out += [rec(0x2D, 0), rec(0x0D, 2, i16s(e["layer"])), rec(0x2E, 2, i16s(e["dt"])), rec(0x10, 3, i32s(*sum(e["xy"], []))), rec(0x11, 0)]
            elif k == "text":
                out += [rec(0x0C, 0), rec(0x0D, 2, i16s(e["layer"])), rec(0x16, 2, i16s(e["dt"])), rec(0x10, 3, i32s(*e["xy"])), rec(0x19, 6, e["s"].encode()), rec(0x11, 0)]
            elif k == "sref":
                out += [rec(0x0A, 0), rec(0x12, 6, e["name"].encode())]
                if e["reflect"] or e["angle"]:
                    out += [rec(0x1A, 1, struct.pack(">H", 0x8000 if e["reflect"] else 0))]
                    if e["angle"]:
                        out += [rec(0x1C, 5, gds_real(float(e["angle"])))]
                out += [rec(0x10, 3, i32s(*e["xy"])), rec(0x11, 0)]
            elif k == "aref":
                out += [rec(0x0B, 0), rec(0x12, 6, e["name"].encode()), rec(0x13, 2, i16s(e["cols"], e["rows"])),
                        rec(0x10, 3, i32s(*sum(e["xy"], []))), rec(0x11, 0)]
        out.append(rec(0x07, 0))
    out.append(rec(0x04, 0))
    return b"".join(out)

def gen_gds(rng, n=None, maxel=8, layers=(1, 2, 5, 7, 31, 66), dts=(0, 0, 1, 20)):
    if n is None:
        n = rng.randrange(1, 6)
    names = ["cell%d" % i for i in range(n)]
    structs = []
    for i in range(n):
        elems = []
        for _ in range(rng.randrange(0, maxel)):
            layer = rng.choice(layers)
            dt = rng.choice(dts)
            x0, y0 = rng.randrange(-500, 500), rng.randrange(-500, 500)
            w, h = rng.randrange(10, 300), rng.randrange(10, 300)
            c = rng.randrange(6)
            if c <= 1:
                pts = [[x0, y0], [x0 + w, y0], [x0 + w, y0 + h], [x0, y0 + h], [x0, y0]]
                if c == 1:
                    pts = pts[::-1]
                elems.append({"k": "boundary", "layer": layer, "dt": dt, "xy": pts})
                if rng.random() < 0.5:
                    elems.append({"k": "text", "layer": layer, "dt": dt, "xy": [x0 + w // 2, y0 + h // 2], "s": rng.choice(["VDD", "a", "Net_1", "out"])})
            elif c == 2:
                elems.append({"k": "boundary", "layer": layer, "dt": dt, "xy": [[x0, y0], [x0 + w, y0], [x0 + w, y0 + h], [x0 + w // 2, y0 + h + 20], [x0, y0 + h], [x0, y0]]})
            elif c == 3:
                elems.append({"k": "path", "layer": layer, "dt": dt, "width": rng.choice([2, 10, 14]), "xy": [[x0, y0], [x0 + w, y0], [x0 + w, y0 + h]]})
            elif c == 4:
                elems.append({"k": "box", "layer": layer, "dt": dt, "xy": [[x0, y0], [x0 + w, y0], [x0 + w, y0 + h], [x0, y0 + h], [x0, y0]]})
            else:
                elems.append({"k": "text", "layer": layer, "dt": dt, "xy": [x0, y0], "s": "note"})
        for j in range(i):
            if rng.random() < 0.5:
                if rng.random() < 0.8:
                    elems.append({"k": "sref", "name": names[j], "reflect": rng.random() < 0.4, "angle": rng.choice([0, 0, 90, 180, 270]),
                                  "xy": [rng.randrange(-1000, 1000), rng.randrange(-1000, 1000)]})
                else:
                    cols, rows = rng.randrange(1, 4), rng.randrange(1, 4)
                    x0, y0 = rng.randrange(-1000, 1000), rng.randrange(-1000, 1000)
                    elems.append({"k": "aref", "name": names[j], "cols": cols, "rows": rows,
                                  "xy": [[x0, y0], [x0 + cols * 400, y0], [x0, y0 + rows * 300]]})
        rng.shuffle(elems)
        structs.append({"name": names[i], "elems": elems})
    rng.shuffle(structs)
    return {"name": "lib", "structs": structs}

def gen_lef(rng, layers=("met1", "met2", "met3", "via1", "poly"), maxmac=4, maxpin=4, maxport=3, maxlay=4):
    layers = list(layers)
    out = ["VERSION 5.8 ;", 'BUSBITCHARS "[]" ;', 'DIVIDERCHAR "/" ;', "UNITS", "  DATABASE MICRONS 1000 ;", "END UNITS"]
    nm = rng.randrange(1, maxmac)
    for m in range(nm):
        name = "mac%d" % m
        out += ["MACRO %s" % name, "  CLASS CORE ;", "  SIZE %d BY %d ;" % (rng.randrange(1, 20), rng.randrange(1, 20))]
        for p in range(rng.randrange(1, maxpin)):
            pn = "p%d" % p
            out += ["  PIN %s" % pn, "    DIRECTION INPUT ;"]
            for _ in range(rng.randrange(1, maxport)):
                out.append("    PORT")
                for l in rng.sample(layers, rng.randrange(1, min(maxlay, len(layers) + 1))):
                    out.append("      LAYER %s ;" % l)
                    for _ in range(rng.randrange(1, 3)):
                        x, y = rng.randrange(0, 10), rng.randrange(0, 10)
                        out.append("        RECT %d %d %d %d ;" % (x, y, x + rng.randrange(1, 5), y + rng.randrange(1, 5)))
                out.append("    END")
            out.append("  END %s" % pn)
        if rng.random() < 0.8:
            out.append("  OBS")
            for l in rng.sample(layers, rng.randrange(1, min(max(5, maxlay), len(layers) + 1))):
                out.append("    LAYER %s ;" % l)
                x, y = rng.randrange(0, 10), rng.randrange(0, 10)
                out.append("      RECT %d %d %d %d ;" % (x, y, x + rng.randrange(1, 5), y + rng.randrange(1, 5)))
            out.append("  END")
        out.append("END %s" % name)
    out.append("END LIBRARY")
    return "\n".join(out) + "\n"

# ------------------------------------------------------------------ generator audit 2026-10-02: sources the quick tier never had
NEW_LEF_LAYERS = ("met1", "li1", "nwell", "M1", "met3", "pwell", "via2", "poly", "mcon")
def audit_sources(rng, quick):
    """rawlib_views: raw libraries with BOTH views, abstract-only leaf cells, ports / blockages on up to all six layers, elements on many
    layers and purposes, cells listed in shuffled order (every exporter has a map AND a dependency order to walk);
    gds_new_layers / lef_new_layers: layers that are not in the prepared table, and importers started without any table (every
    layer is created on the way); gds_big / lef_big: 12 structs x up to 60 elements over 6 layers x 4 datatypes, macros with
    8 pins x 3 ports x 5 layers (hash maps with many more than two keys)."""
    out = []
    reps = 4 if quick else 8
    nums = [1, 2, 5, 7, 31, 66]
    def shape_map(lo, hi, pool):
        return [[l, rng.randrange(1, 4)] for l in rng.sample(pool, rng.randrange(lo, min(hi, len(pool)) + 1))]
    for k in range(24 if quick else 240):
        n = rng.randrange(3, 9)
        order = list(range(n)); rng.shuffle(order)
        pool = nums if k % 2 else nums[:5]            # the sixth layer has no name: the LEF exporter refuses it
        cells = []
        for j in range(n):
            lower = [i for i in range(n) if order[i] < order[j]]
            c = {"name": "c%d" % j, "insts": [rng.choice(lower) for _ in range(rng.randrange(0, 5))] if lower else [],
                 "elems": [[rng.choice(nums), rng.choice([0, 0, 1, 3]), rng.randrange(-50, 50), rng.randrange(-50, 50), rng.choice([None, None, "a", "b"])]
                           for _ in range(rng.randrange(0, 9))]}
            if rng.random() < 0.6:
                c["abs"] = {"ports": [shape_map(1, 5, pool) for _ in range(rng.randrange(1, 4))], "blk": shape_map(0, 5, pool)}
                if not c["insts"] and rng.random() < 0.4:
                    c["nolayout"] = True
            cells.append(c)
        out.append({"src": "rawlib", "fam": "rawlib_views", "cells": cells, "reps": reps})
    allmap = [[l, 2] for l in nums]
    out.append({"src": "rawlib", "fam": "rawlib_views", "reps": 8, "cells": [
        {"name": "top", "insts": [2, 1, 2], "elems": [[l, p, 3 * l, p, None] for l in nums for p in (0, 1, 3)], "abs": {"ports": [allmap, allmap[::-1], allmap[:5]], "blk": allmap[::-1]}},
        {"name": "leafabs", "insts": [], "nolayout": True, "abs": {"ports": [allmap[:5][::-1]], "blk": allmap[:5]}},
        {"name": "leaf", "insts": [], "elems": [[2, 0, 1, 1, None]]}]})
    for k in range(12 if quick else 120):
        g = gen_gds(rng, layers=(1, 3, 4, 8, 66, 100, 200, 255), dts=(0, 2, 5, 20, 63))
        out.append({"src": "gds", "fam": "gds_new_layers", "hex": gds_bytes(g).hex(), "reps": reps, "nolayers": k % 2 == 0})
    for k in range(2 if quick else 10):
        g = gen_gds(rng, n=12, maxel=61, dts=(0, 1, 20, 3))
        out.append({"src": "gds", "fam": "gds_big", "hex": gds_bytes(g).hex(), "reps": reps, "nolayers": k % 2 == 1})
    for k in range(12 if quick else 120):
        out.append({"src": "lef", "fam": "lef_new_layers", "text": gen_lef(rng, layers=NEW_LEF_LAYERS, maxlay=6), "reps": reps, "nolayers": k % 2 == 0})
    for k in range(2 if quick else 10):
        out.append({"src": "lef", "fam": "lef_big", "text": gen_lef(rng, layers=NEW_LEF_LAYERS if k % 2 else ("met1", "met2", "met3", "via1", "poly"), maxmac=4, maxpin=9, maxport=4, maxlay=6),
                    "reps": reps, "nolayers": k % 2 == 1})
    return out

def tetris_leg(chk, nproc, replay_cases=None):
    """gridded -> raw (the fifth conversion the statement names): C08's generators and C08's harness (Library::to_raw, shapes printed in
    the exporter's own order), every library converted twice inside each of `nproc` separate processes; all outputs must agree."""
    from props import c08 as t
    quick = chk.tier == "quick"
    fam = t.stack_family()
    cases = [c for c in t.directed_cases(fam) + t.audit_cases(fam) if c.get("op") == "compile"]
    for st in fam:
        for _ in range(8 if quick else 80):
            cases.append({"op": "compile", "stack": st, "cells": t.gen_lib(chk.rng, st, big=True), "kind": "rand"})
    if replay_cases is not None:
        cases = replay_cases
    inp = [t.strip(c) for c in cases]
    from concurrent.futures import ThreadPoolExecutor
    with ThreadPoolExecutor(max_workers=min(nproc, NCPU)) as ex:
        runs = list(ex.map(lambda _: harness("c08", inp + inp), range(nproc)))
    n = len(inp)
    view = lambda r: r if "ok" in r else sorted(r.keys())        # error texts carry Debug prints: only the class is compared
    bad = []
    for i in range(n):
        vs = [view(r[i]) for r in runs] + [view(r[i + n]) for r in runs]
        if any(v != vs[0] for v in vs[1:]):
            bad.append(i)
    chk.cov["evaluations"] += 2 * n * nproc
    chk.cov["traces_validated_against_impl"] += 2 * (n - len(bad)) * nproc
    chk.cov["input_distribution"]["tetris_sources"] = {"libraries": n, "converted_ok": sum(1 for r in runs[0][:n] if "ok" in r), "conversions_each": 2 * nproc,
                                                       "shapes_in_first_run": sum(len(c) for r in runs[0][:n] for c in r.get("ok", []))}
    if bad:
        i = min(bad, key=lambda j: len(json.dumps(inp[j])))
        chk.violation("conversion stage tetris_to_raw gives different results for one input (%d libraries); smallest: %s" % (len(bad), json.dumps(inp[i])[:400]),
                      {"cases": [cases[i]], "stage": "tetris_to_raw"}, suffix="-tetris_to_raw")

def src_of(c):
    return c.get("hex") or c.get("text") or json.dumps(c.get("layers") or c.get("cells"))

def run_proc(cases):
    """one separate process over all cases (fresh RandomState)"""
    return harness("c20", cases)

def run(chk, replay=None):
    chk.proof_leg(["Order/SortedIter.vo", "Order/HashIterAllowed.vo", "Gen/HashIterGen.vo", "Raw/RawLefExportCheck.vo", "Raw/RawLayersProtoCheck.vo"], "Properties/C20.v",
                   ["Order/SortedIter.v", "Order/Determinism_proofs.v", "Raw/RawLefExport_proofs.v", "Raw/RawLayersProto_proofs.v"], "Properties.C20")
    chk.assumptions += [
        "cross-process hash seeds are sampled (a fixed number of separate processes per run); the theorem, not the sampling, carries the claim for the modelled iteration sites",
        "conversions whose models take no order argument are deterministic by construction; that their code iterates no hash container is the obligation C20_conversion_sites_covered (textual site list), the repeated runs support it",
    ]
    quick = chk.tier == "quick"
    known = {k["class"]: k for k in load_known() if k.get("kind") == "finding" and k.get("property") == "C20"}
    xcases = None
    if replay:
        cases = json.load(open(replay))["replay"]["cases"]
        tcases = [c for c in cases if c.get("op") == "compile"]      # gridded -> raw (harness c08)
        if tcases:
            chk.cov["input_distribution"] = {}
            tetris_leg(chk, 4, tcases)
            return
        xcases = [c for c in cases if "op" in c]          # cases of the raw -> LEF model leg (harness c20x)
        cases = [c for c in cases if "op" not in c]
        if not cases:
            lefx_leg(chk, xcases)
            return
    else:
        cases = []
        for _ in range(40 if quick else 400):
            cases.append({"src": "gds", "hex": gds_bytes(gen_gds(chk.rng)).hex(), "reps": 4 if quick else 8})
        for _ in range(40 if quick else 400):
            cases.append({"src": "lef", "text": gen_lef(chk.rng), "reps": 4 if quick else 8})
        # raw libraries built directly: cell DAGs listed in shuffled order (parents before children too)
        for _ in range(20 if quick else 200):
            n = chk.rng.randrange(3, 10)
            order = list(range(n)); chk.rng.shuffle(order)          # order[k] = rank of cell k; an instance goes to a lower rank
            cells = []
            for k in range(n):
                lower = [j for j in range(n) if order[j] < order[k]]
                insts = [chk.rng.choice(lower) for _ in range(chk.rng.randrange(0, 5))] if lower else []
                cells.append({"name": "c%d" % k, "insts": insts})
            cases.append({"src": "rawlib", "cells": cells, "reps": 4 if quick else 8})
        cases.append({"src": "rawlib", "reps": 8, "cells": [{"name": "top", "insts": [1, 2, 3, 4, 5]}] + [{"name": "leaf%d" % k, "insts": []} for k in range(5)]})
        # cells reachable only through instances (not listed in lib.cells): leaves and inner cells
        cases.append({"src": "rawlib", "reps": 8, "cells": [{"name": "top", "insts": [1, 2, 3, 4, 5]}] + [{"name": "leaf%d" % k, "insts": [], "listed": False} for k in range(5)]})
        cases.append({"src": "rawlib", "reps": 8, "cells": [{"name": "top", "insts": [1, 2]}, {"name": "mid1", "insts": [3, 4], "listed": False}, {"name": "mid2", "insts": [4, 3], "listed": False},
                                                            {"name": "leafa", "insts": [], "listed": False}, {"name": "leafb", "insts": []}]})
        for _ in range(10 if quick else 100):
            n = chk.rng.randrange(3, 9)
            order = list(range(n)); chk.rng.shuffle(order)
            cells = []
            for k in range(n):
                lower = [j for j in range(n) if order[j] < order[k]]
                cells.append({"name": "u%d" % k, "insts": [chk.rng.choice(lower) for _ in range(chk.rng.randrange(0, 4))] if lower else [], "listed": chk.rng.random() < 0.5})
            if not any(c["listed"] for c in cells):
                cells[0]["listed"] = True
            cases.append({"src": "rawlib", "cells": cells, "reps": 4 if quick else 8})
        # technology protobuf -> layer table (Layers::from_proto): 2..12 major layers in shuffled order, several purposes each
        for _ in range(20 if quick else 200):
            nums = chk.rng.sample(range(0, 200), chk.rng.randrange(2, 13))
            ls = [[n, sub, chk.rng.choice([None, 0, 1, 2, 3, 4, 5])] for n in nums for sub in chk.rng.sample(range(0, 40), chk.rng.randrange(1, 4))]
            chk.rng.shuffle(ls)
            cases.append({"src": "tech", "layers": ls, "reps": 4 if quick else 8})
        cases.append({"src": "tech", "layers": [[1, 0, 2], [2, 0, 2]], "reps": 8})
        # layer indices are 64-bit in the schema and 16-bit in the layer table: two that agree modulo 2^16
        cases.append({"src": "tech", "layers": [[1, 0, 2], [65537, 1, 2]], "reps": 8})
        for _ in range(6 if quick else 60):
            base = chk.rng.sample(range(0, 200), chk.rng.randrange(2, 6))
            ls = [[n + 65536 * chk.rng.randrange(0, 4), sub, chk.rng.choice([None, 1, 2, 3])] for n in base for sub in chk.rng.sample(range(0, 40), 2)]
            chk.rng.shuffle(ls)
            cases.append({"src": "tech", "layers": ls, "reps": 4 if quick else 8})
        # always: one port on two and three layers, obstructions on three layers
        cases.append({"src": "lef", "reps": 8, "text": "VERSION 5.8 ;\nMACRO m\n  SIZE 4 BY 4 ;\n  PIN a\n    PORT\n      LAYER met1 ;\n        RECT 0 0 1 1 ;\n      LAYER met2 ;\n        RECT 1 1 2 2 ;\n    END\n  END a\nEND m\nEND LIBRARY\n"})
        cases.append({"src": "lef", "reps": 8, "text": "VERSION 5.8 ;\nMACRO m\n  SIZE 4 BY 4 ;\n  PIN a\n    PORT\n      LAYER met1 ;\n        RECT 0 0 1 1 ;\n      LAYER met2 ;\n        RECT 1 1 2 2 ;\n      LAYER met3 ;\n        RECT 2 2 3 3 ;\n    END\n  END a\n  OBS\n    LAYER met1 ;\n      RECT 0 0 1 1 ;\n    LAYER met2 ;\n      RECT 0 0 1 1 ;\n    LAYER met3 ;\n      RECT 0 0 1 1 ;\n  END\nEND m\nEND LIBRARY\n"})
        cases += audit_sources(chk.rng, quick)
        cases += tech_cases(chk.rng, quick)
    nproc = 4 if quick else 16
    from concurrent.futures import ThreadPoolExecutor
    with ThreadPoolExecutor(max_workers=min(nproc, NCPU)) as ex:
        runs = list(ex.map(lambda _: run_proc(cases), range(nproc)))
    bad = []          # (case index, stage, kind)
    stage_counts = {}
    errs = 0
    for i, c in enumerate(cases):
        rs = [r[i] for r in runs]
        if any("stages" not in r for r in rs):
            bad.append((i, "harness", "panic-or-crash: %s" % json.dumps([r for r in rs if "stages" not in r][0])[:200]))
            continue
        for r in rs:
            for st in r["unstable_in_process"]:
                bad.append((i, st, "differs between repetitions inside one process"))
        base = rs[0]["stages"]
        for st in base:
            stage_counts[st[0]] = stage_counts.get(st[0], 0) + 1
            if st[3]:
                errs += 1
        for r in rs[1:]:
            for a, b in zip(base, r["stages"]):
                if a[:2] != b[:2]:
                    bad.append((i, a[0], "differs between separate processes"))
            if len(base) != len(r["stages"]):
                bad.append((i, "chain", "different chain length between processes"))
    chk.cov["evaluations"] = len(cases) * nproc
    chk.cov["distinct_nontrivial"] = len({src_of(c) for c in cases if len(src_of(c)) > 200})
    chk.cov["rule"] = ("generated hierarchical GDSII streams (own byte writer) and LEF texts with multi-layer ports/obstructions; each converted through the whole chain "
                       "%d times per process in %d separate processes; non-trivial = source longer than 200 characters; distinct by source" % (cases[0]["reps"], nproc))
    chk.cov["traces_validated_against_impl"] = len(cases) * nproc - len({b[0] for b in bad}) * nproc
    chk.cov["input_distribution"] = {"gds_sources": sum(1 for c in cases if c["src"] == "gds"), "tech_sources": sum(1 for c in cases if c["src"] == "tech"), "rawlib_sources": sum(1 for c in cases if c["src"] == "rawlib"), "lef_sources": sum(1 for c in cases if c["src"] == "lef"),
                                     "audit_families": {f: sum(1 for c in cases if c.get("fam") == f) for f in sorted({c.get("fam") for c in cases if c.get("fam")})},
                                     "stage_results": stage_counts, "stages_ending_in_error": errs, "processes": nproc}
    if layers_leg(chk, cases, runs):
        bad = [b for b in bad if not (b[1] == "tech_to_layers" and cases[b[0]]["src"] == "tech")]      # reported by layers_leg, with the model's view
    if xcases is None or xcases:
        lefx_leg(chk, xcases)
    if not replay:
        tetris_leg(chk, nproc)
    chk.add_samples([{"src": c["src"], "source": src_of(c)[:400], "stages": runs[0][i].get("stages")} for i, c in list(enumerate(cases))[:: max(1, len(cases) // 3)]], k=3)
    if bad:
        # group by stage; pick the smallest source per stage
        by_stage = {}
        for i, st, kind in bad:
            by_stage.setdefault(st, []).append((len(src_of(cases[i])), i, kind))
        for st, lst in sorted(by_stage.items()):
            lst.sort()
            _, i, kind = lst[0]
            cls = "nondeterministic-" + st
            if cls in known:
                chk.known(known[cls], cases[i])
                continue
            chk.violation("conversion stage %s %s (%d cases); smallest source: %s" % (st, kind, len({x[1] for x in lst}), src_of(cases[i])[:300]),
                          {"cases": [cases[i]], "stage": st, "kind": kind}, suffix="-" + st)


# ====================================================================================================================
# The raw -> LEF exporter against its Coq model (Raw/RawLefExport.v; theorems C20_lef_* of Properties/C20.v).
# Harness bin c20x: "export" builds a raw library with abstracts through the public API (every hash map filled in a
# different insertion order per repetition, fresh hash seeds) and runs LefExporter::export; "roundtrip" runs
# LefImporter::import then LefExporter::export.  The exported LefLibrary is printed in its own order and compared with
# the model's (Coq, vm_compute): code 0 = equal, 1 = differs; outputs that differ BETWEEN repetitions are a violation
# of the property itself (nondeterministic-lef_export).
LEFX_PROBLEMS = []
def lefx_variant():
    """Which `export_point` the tree has, read from the source on every run: "original" = `LefDecimal::from(point.x)`
    (raw units written as they are), "repaired" = the proposed work/lefx/fix-lef-export-microns.patch
    (`LefDecimal::new(n, digits)`: microns).  Neither -> the tie to the source is broken (reported); original is used."""
    src = open(os.path.join(REPO, "layout21raw/src/lef.rs"), encoding="utf8").read()
    i = src.find("fn export_point(")
    j = src.find("\nimpl ErrorHelper for LefExporter", i)
    body = src[i:j] if i >= 0 and j > i else ""
    orig = re.search(r"LefDecimal::from\(\s*point\.x\s*\)", body) is not None and re.search(r"LefDecimal::from\(\s*point\.y\s*\)", body) is not None
    rep = "fn export_dist(" in body and re.search(r"LefDecimal::new\(", body) is not None and "Units::Angstrom => 4" in body
    if orig and not rep:
        return "original"
    if rep and not orig:
        return "repaired"
    LEFX_PROBLEMS.append("cannot tell which LefExporter::export_point the tree has (neither LefDecimal::from(point.x) nor export_dist with LefDecimal::new)")
    return "original"

LEFX_NAMES = ["met1", "met2", "met3", "via1", "poly", "li1", "M1", "nwell"]
def lefx_coord(rng):
    r = rng.random()
    if r < 0.55:
        return rng.randrange(-3000, 3000)
    if r < 0.75:
        return rng.randrange(-3000, 3000) * 10 ** rng.randrange(1, 5)        # whole numbers of 0.001 / 0.0001 micron grids and not
    if r < 0.85:
        return 0
    if r < 0.95:
        return rng.choice([-1, 1]) * rng.randrange(1 << 31, 1 << 62)
    return rng.choice([-(1 << 63), (1 << 63) - 1, (1 << 63) - 2, -(1 << 63) + 1, 1 << 32, -(1 << 32)])
def lefx_shape(rng, paths):
    t = rng.random()
    P = lambda: [lefx_coord(rng), lefx_coord(rng)]
    if paths and t < 0.5:
        return {"P": [[P() for _ in range(rng.randrange(2, 5))], rng.randrange(0, 50)]}
    if t < 0.6:
        return {"R": [P(), P()]}
    return {"G": [P() for _ in range(rng.randrange(0, 7))]}
def lefx_shapemap(rng, nlayers, lo, hi, named, flavour):
    """entries on `lo..hi` distinct layers, in a shuffled listing order; keys: named layers only unless flavour says otherwise"""
    pool = list(named) if flavour not in ("unnamed",) else list(range(nlayers))
    if flavour == "nullkey":
        pool = pool + [nlayers]                 # index past the table = the null key (in no slot)
    n = min(len(pool), rng.randrange(lo, hi + 1))
    keys = rng.sample(pool, n)
    if flavour == "unnamed" and keys and all(k in named for k in keys) and len(named) < nlayers:
        keys[rng.randrange(len(keys))] = rng.choice([k for k in range(nlayers) if k not in named and k not in keys] or [keys[0]])
        keys = list(dict.fromkeys(keys))
    if flavour == "nullkey" and keys and nlayers not in keys and rng.random() < 0.7:
        keys[rng.randrange(len(keys))] = nlayers
    paths = flavour == "path"
    return [[k, [lefx_shape(rng, paths and rng.random() < 0.5) for _ in range(rng.randrange(0, 4))]] for k in keys]
def lefx_gen_lib(rng, flavour):
    """flavour: plain (exportable), unnamed (some shapes on a layer without name), nullkey, path, units (Micro/Pico), mixed cells"""
    nl = rng.randrange(2, 7)
    names = rng.sample(LEFX_NAMES, nl)
    layers = []
    for i in range(nl):
        nm = names[i]
        if flavour == "unnamed" and (i == nl - 1 or rng.random() < 0.3):
            nm = None
        elif flavour != "plain" and rng.random() < 0.15:
            nm = None
        if rng.random() < 0.08 and i > 0:
            nm = layers[0]["name"]              # two layers with one name: both are legal keys with the same LEF name
        layers.append({"num": rng.randrange(0, 200), "name": nm, "pairs": []})
    named = [i for i, l in enumerate(layers) if l["name"] is not None]
    if not named:
        layers[0]["name"] = "met1"; named = [0]
    units = rng.choice(["Nano", "Angstrom"]) if flavour != "units" else rng.choice(["Micro", "Pico", "Micro", "Pico", "Nano"])
    ncells = rng.randrange(1, 4)
    cells = []
    for ci in range(ncells):
        name = "c%d" % ci
        layout = None
        if rng.random() < 0.3:
            layout = {"name": name, "insts": [{"name": "i%d" % k, "cell": rng.randrange(0, ncells), "loc": [lefx_coord(rng), lefx_coord(rng)], "reflect": rng.random() < 0.5, "angle": None}
                                              for k in range(rng.randrange(0, 3))],
                      "elems": [{"net": rng.choice([None, "a"]), "layer": rng.randrange(0, nl), "purpose": "Drawing", "shape": lefx_shape(rng, True)} for _ in range(rng.randrange(0, 3))],
                      "annots": []}
        ab = None
        if rng.random() < 0.85 or ci == 0:
            ports = [{"net": rng.choice(["A", "B", "VDD", "VSS", "clk", "q_%d" % k]), "shapes": lefx_shapemap(rng, nl, 1, 4, named, flavour)} for k in range(rng.randrange(1, 5))]
            ab = {"name": name if rng.random() < 0.9 else "other", "outline": [[0, 0], [100, 0], [100, 100], [0, 100]],
                  "ports": ports, "blockages": lefx_shapemap(rng, nl, 0, 4, named, flavour)}
        cells.append({"name": name, "layout": layout, "abs": ab})
    return {"name": rng.choice(["lib", "", "L2"]), "units": units, "layers": layers, "cells": cells}

def lefx_D(neg, mag, scale):
    return [bool(neg), str(mag), scale]
def lefx_gen_dec(rng, kind):
    neg = rng.random() < 0.3
    if kind == "bad":
        return lefx_D(neg, rng.randrange(0, 3000) * 10 + rng.randrange(1, 10), 5)
    s = rng.randrange(0, 7)
    extra = rng.randrange(0, 3)
    return lefx_D(neg and rng.random() < 0.9, rng.randrange(0, 2000 * 10 ** min(s, 4)) * 10 ** (max(0, s - 4) + extra), s + extra)
def lefx_gen_leflib(rng, flavour):
    """LEF libraries for the chain LEF -> raw -> LEF: plain (rectangles and polygons on the 0.0001 micron grid: import and export
    succeed), path (import succeeds, export panics), bad (an off-grid coordinate: import fails)"""
    names = rng.sample(LEFX_NAMES + ["boundary"], rng.randrange(1, 5))
    dk = lambda: lefx_gen_dec(rng, "bad" if flavour == "bad" and rng.random() < 0.05 else "ok")
    P = lambda: [dk(), dk()]
    def lg():
        geoms = []
        for _ in range(rng.randrange(1, 4)):
            t = rng.random()
            if flavour == "path" and t < 0.3:
                geoms.append(["w", [P() for _ in range(rng.randrange(2, 4))]])
            elif t < 0.6:
                geoms.append(["r", P(), P()])
            else:
                geoms.append(["p", [P() for _ in range(rng.randrange(3, 6))]])
        width = None
        if any(g[0] == "w" for g in geoms) or rng.random() < 0.2:
            width = dk(); width[0] = False
        return {"layer": rng.choice(names), "width": width, "spacing": None, "epg": None, "nvias": 0, "geoms": geoms}
    macros = []
    for mi in range(rng.randrange(1, 4)):
        pins = [{"name": rng.choice(["A", "B", "VDD", "q_%d" % pi]), "ports": [[lg() for _ in range(rng.randrange(1, 4))] for _ in range(rng.randrange(1, 3))]} for pi in range(rng.randrange(1, 4))]
        macros.append({"name": "m%d" % mi, "size": [dk(), dk()], "pins": pins, "obs": [lg() for _ in range(rng.randrange(0, 4))]})
    lib = {"op": "roundtrip", "layers": None, "ncs": None, "macros": macros}
    if rng.random() < 0.3:
        lib["dbu"] = rng.choice([100, 200, 400, 800, 1000, 2000, 4000, 8000, 10000, 20000])
    if rng.random() < 0.3:
        lib["layers"] = [[rng.choice([0, 1, 2, 3, 5, 7, 40]), rng.choice(names + ["boundary", "other", None])] for _ in range(rng.randrange(0, 5))]
    return lib

# ------------------------------------------------------------------ Coq terms
def x_pt(p):
    return Raw("(mkpt %s %s)" % (cz(p[0]), cz(p[1])))
def x_shape(s):
    if "R" in s:
        return Raw("(Rect %s %s)" % (x_pt(s["R"][0]), x_pt(s["R"][1])))
    if "G" in s:
        return Raw("(Polygon %s)" % clist([x_pt(p) for p in s["G"]]))
    return Raw("(Path %s %s)" % (clist([x_pt(p) for p in s["P"][0]]), cz(s["P"][1])))
def x_smap(m):
    return clist([ctup(cnat(k), clist([x_shape(s) for s in sh])) for k, sh in m])
def x_lib(lib):
    layers = clist([capp("mklayer", cz(l["num"]), copt(None if l["name"] is None else cstr(l["name"])), Raw("[]")) for l in lib["layers"]])
    cells = []
    for c in lib["cells"]:
        ab = None
        if c["abs"] is not None:
            a = c["abs"]
            ports = clist([capp("mkabsport", cstr(p["net"]), x_smap(p["shapes"])) for p in a["ports"]])
            ab = capp("mkabstract", cstr(a["name"]), clist([x_pt(p) for p in a["outline"]]), ports, x_smap(a["blockages"]))
        lay = None
        if c["layout"] is not None:
            l = c["layout"]
            insts = clist([capp("mkinst", cstr(i["name"]), cnat(i["cell"]), x_pt(i["loc"]), cbool(i["reflect"]), Raw("None")) for i in l["insts"]])
            elems = clist([capp("mkelem", copt(None if e["net"] is None else cstr(e["net"])), cnat(e["layer"]), Raw("Drawing"), x_shape(e["shape"])) for e in l["elems"]])
            lay = capp("mklayout", cstr(l["name"]), insts, elems, Raw("[]"))
        cells.append(capp("mkcell", cstr(c["name"]), copt(ab), copt(lay)))
    return capp("mklib", cstr(lib["name"]), Raw(lib["units"]), layers, clist(cells))
def x_dec(d):
    return Raw("(mkdec %s %s %d%%nat)" % ("true" if d[0] else "false", d[1], d[2]))
def x_lp(p):
    return Raw("(T.mklpoint %s %s)" % (x_dec(p[0]), x_dec(p[1])))
def x_lshape(g):
    if g[0] == "r":
        return Raw("(T.LRect %s %s)" % (x_lp(g[1]), x_lp(g[2])))
    return Raw("(%s %s)" % ("T.LPolygon" if g[0] == "p" else "T.LPath", clist([x_lp(p) for p in g[1]])))
def x_lgeom(g):
    if g[0] == "i":
        return Raw("(T.LIterate %s)" % x_lshape(g[1]))
    return Raw("(T.LShape %s)" % x_lshape(g))
def x_lg(lg):
    sp = None
    if lg["spacing"] is not None:
        sp = Raw("(%s %s)" % ("T.LSpacing" if lg["spacing"][0] == "s" else "T.LDesignRuleWidth", x_dec(lg["spacing"][1])))
    return capp("T.mkllg", cstr(lg["layer"]), clist([x_lgeom(g) for g in lg["geoms"]]), cnat(lg["nvias"]),
                cbool(lg["epg"] is not None), copt(sp), copt(None if lg["width"] is None else x_dec(lg["width"])))
def x_llib(lib):
    ms = []
    for m in lib["macros"]:
        pins = [capp("T.mklpin", cstr(p["name"]), clist([clist([x_lg(lg) for lg in port]) for port in p["ports"]])) for p in m["pins"]]
        size = None if m["size"] is None else ctup(x_dec(m["size"][0]), x_dec(m["size"][1]))
        ms.append(capp("T.mklmacro", cstr(m["name"]), copt(size), clist(pins), clist([x_lg(lg) for lg in m["obs"]])))
    return capp("T.mkllib", cbool(lib.get("ncs") == "off"), clist(ms))
def x_impl(out):
    if out is None:
        return Raw("XIPanic")            # placeholder (the import failed: nothing was exported); ignored by the checker
    if "panic" in out:
        return Raw("XIPanic")
    if "err" in out:
        k = "XUnits" if "invalid units" in out["err"] else "XNoName" if "un-named layer" in out["err"] else "XOther"
        return Raw("(XIErr %s)" % k)
    ok = out["ok"]
    return capp("XIOk", copt(None if ok["dbu"] is None else cz(ok["dbu"])), x_llib(ok))
LEFX_IMPORT_ERRS = [("non-zero fractional part", 1), ("TryFromIntError", 2), ("out of range integral type", 2), ("Missing LEF size", 3), ("Path with no Width", 4),
                    ("except_pg_net", 5), ("nonzero spacing", 6), ("Iterate", 7), ("case-insensitive", 8), ("No more layer numbers", 9)]
def x_reimport(out):
    """LefImporter::import of the exported library, as the number of RawLefExportCheck.reimport_code"""
    if out is None or "ok" not in out:
        return -1
    r = out.get("reimport")
    if r == "ok":
        return 0
    if isinstance(r, dict) and "err" in r:
        return next((k for pat, k in LEFX_IMPORT_ERRS if pat in r["err"]), 10)
    return 100
def x_layers0(ls):
    if ls is None:
        return Raw("None")
    return Raw("(Some %s)" % clist([ctup(cz(n), copt(None if nm is None else cstr(nm))) for n, nm in ls]))

LEFX_HDR = ("From Coq Require Import ZArith List String Bool.\nImport ListNotations.\n"
            "From L21 Require Import Base.Outcome Raw.RawData Raw.RawLefDec Raw.RawLefExport Raw.RawLefExportCheck.\nOpen Scope Z_scope.\n")

def lefx_cases(chk):
    rng = chk.rng
    quick = chk.tier == "quick"
    mult = 1 if quick else 20
    reps = 4 if quick else 8
    cases = []
    R = lambda a, b, c, d: {"R": [[a, b], [c, d]]}
    def lib2(m, blk, units="Nano", names=("met1", "met2", "met3")):
        return {"name": "lib", "units": units, "layers": [{"num": 5 + i, "name": n, "pairs": []} for i, n in enumerate(names)],
                "cells": [{"name": "c", "layout": None, "abs": {"name": "c", "outline": [[0, 0], [100, 0], [100, 100], [0, 100]], "ports": [{"net": "a", "shapes": m}], "blockages": blk}}]}
    # always: the two-layer witness of C20_lef_export_map_order_refuted in both listing orders, three layers, and one case per outcome class
    m12 = [[0, [R(0, 0, 10, 10)]], [1, [R(20, 20, 30, 30)]]]
    for m in (m12, m12[::-1]):
        cases.append({"op": "export", "kind": "dir_two_layers", "reps": 8, "lib": lib2(m, m)})
    m123 = m12 + [[2, [R(-5, -5, 0, 0), {"G": [[0, 0], [4, 0], [4, -4]]}]]]
    cases.append({"op": "export", "kind": "dir_three_layers", "reps": 8, "lib": lib2(m123[::-1], m123[1:] + m123[:1], units="Angstrom")})
    cases.append({"op": "export", "kind": "dir_unnamed", "reps": 2, "lib": lib2(m12, [], names=("met1", None))})
    cases.append({"op": "export", "kind": "dir_nullkey", "reps": 2, "lib": lib2([[0, []], [7, []]], [])})
    cases.append({"op": "export", "kind": "dir_path", "reps": 2, "lib": lib2([[0, [{"P": [[[0, 0], [5, 0]], 2]}]]], [])})
    cases.append({"op": "export", "kind": "dir_path_unnamed", "reps": 2, "lib": lib2([[1, [{"P": [[[0, 0], [5, 0]], 2]}]]], [], names=("met1", None))})
    for u in ("Micro", "Pico", "Nano", "Angstrom"):
        cases.append({"op": "export", "kind": "dir_units", "reps": 2, "lib": lib2(m12, [], units=u)})
    cases.append({"op": "export", "kind": "dir_no_abstract", "reps": 2, "lib": {"name": "lib", "units": "Nano", "layers": [{"num": 1, "name": None, "pairs": []}],
                  "cells": [{"name": "a", "layout": None, "abs": None},
                            {"name": "b", "layout": {"name": "b", "insts": [{"name": "i", "cell": 0, "loc": [1, 2], "reflect": False, "angle": None}],
                                                     "elems": [{"net": None, "layer": 0, "purpose": "Drawing", "shape": {"P": [[[0, 0], [5, 0]], 2]}}], "annots": []}, "abs": None}]}})
    cases.append({"op": "export", "kind": "dir_limits", "reps": 2, "lib": lib2([[0, [R(-(1 << 63), (1 << 63) - 1, 0, -1)]]], [], units="Angstrom")})
    for flavour, n in (("plain", 220), ("unnamed", 40), ("nullkey", 25), ("path", 40), ("units", 25), ("mixed", 50)):
        for _ in range(n * mult):
            cases.append({"op": "export", "kind": "lib_" + flavour, "reps": reps, "lib": lefx_gen_lib(rng, flavour)})
    for flavour, n in (("plain", 90), ("path", 20), ("bad", 20)):
        for _ in range(n * mult):
            cases.append(dict(lefx_gen_leflib(rng, flavour), kind="rt_" + flavour, reps=reps))
    return cases

def lefx_strip(c):
    return {k: v for k, v in c.items() if k != "kind"}
def lefx_nontrivial(c):
    if c["op"] == "export":
        return any(cl["abs"] is not None and any(len(p["shapes"]) >= 2 for p in cl["abs"]["ports"] + [{"shapes": cl["abs"]["blockages"]}]) for cl in c["lib"]["cells"])
    return any(len({lg["layer"] for port in p["ports"] for lg in port}) >= 2 for m in c["macros"] for p in m["pins"]) or any(len({lg["layer"] for lg in m["obs"]}) >= 2 for m in c["macros"])

def lefx_leg(chk, replay_cases=None):
    chk.assumptions += [
        "raw -> LEF: rust_decimal `From<isize>` / `Decimal::new` and lef21 `LefDbuPerMicron::try_new` are modelled by contract (Raw/RawLefExport.v), validated by every exported coordinate of the correspondence run; "
        "slot-map keys compare in insertion order (no layer is ever removed); errors are compared by kind, the context stack is not modelled",
    ]
    if not getattr(chk, "model_ok", False):
        return
    variant = lefx_variant()
    for pb in LEFX_PROBLEMS:
        chk.broken.append("tie to the source (raw -> LEF model variant): " + pb)
    cases = replay_cases if replay_cases is not None else lefx_cases(chk)
    res = harness("c20x", [lefx_strip(c) for c in cases])
    items, idx = [], []
    codes = [None] * len(cases)
    for i, (c, r) in enumerate(zip(cases, res)):
        if "out" not in r:
            codes[i] = 1                   # harness error / crash
            continue
        if r.get("unstable"):
            codes[i] = 2
            continue
        out = r["out"]
        if out is not None and "ok" in out and not out["ok"]["defaults_ok"]:
            codes[i] = 1                   # a field the model does not represent was written
            continue
        if c["op"] == "export":
            items.append(capp("c20x_check", Raw(variant), x_lib(c["lib"]), x_impl(out), cz(x_reimport(out))))
        else:
            items.append(capp("c20x_check_rt", Raw(variant), x_layers0(c.get("layers")), x_llib(c), cbool(r["import"] == "ok"), x_impl(out)))
        idx.append(i)
    vals = coq_eval_lists(LEFX_HDR, items, chk.rundir, "c20x", shard=60)
    for i, s in zip(idx, vals):
        codes[i] = parse_z(s)
    outcome = {}
    for c, r in zip(cases, res):
        o = r.get("out")
        k = ("import-failed" if o is None else "ok" if "ok" in o else "err-units" if "invalid units" in o.get("err", "") else "err-unnamed-layer" if "err" in o else "panic-path" if "LefExporter::PATH" in o.get("panic", "") else "other") if "out" in r else "harness"
        outcome[c["op"] + ":" + k] = outcome.get(c["op"] + ":" + k, 0) + 1
    kinds = {}
    for c in cases:
        kinds[c.get("kind", "?")] = kinds.get(c.get("kind", "?"), 0) + 1
    reimp = {}
    for c, r in zip(cases, res):
        o = r.get("out")
        if c["op"] == "export" and o is not None and "ok" in o:
            k = "%s (%s)" % ({-1: "n/a", 0: "imported", 3: "err Missing LEF size", 100: "panic"}.get(x_reimport(o), "err other"), "no macro" if not o["ok"]["macros"] else "with macros")
            reimp[k] = reimp.get(k, 0) + 1
    nruns = sum(r.get("runs", 0) for r in res)
    chk.cov["evaluations"] += nruns
    chk.cov["distinct_nontrivial"] += len({json.dumps(lefx_strip(c), sort_keys=True) for c in cases if lefx_nontrivial(c)})
    chk.cov["traces_validated_against_impl"] += sum(r.get("runs", 0) for r, k in zip(res, codes) if k == 0)
    chk.cov["rule"] += ("; raw -> LEF model leg: raw libraries with abstracts built through the public API (1-3 cells, 1-4 ports on 1-4 layers, blockages on 0-4 layers, "
                        "rectangles / polygons / paths, coordinates up to the 64-bit limits, layers with and without names, null keys, all four units, cells without abstract, layouts with instances) "
                        "and LEF libraries sent through import then export; every case exported %d times with a different insertion order of every map, the LefLibrary compared with the Coq model's; "
                        "non-trivial = some port or blockage map has two or more layers; distinct by case content" % (max([c.get("reps", 0) for c in cases[-1:]] + [0])))
    chk.cov["input_distribution"]["lef_export_model_leg"] = {"model_variant": variant, "cases": len(cases), "exports_run": nruns, "kinds": kinds, "impl_outcomes": outcome, "reimport_of_exported_library": reimp,
                                                             "codes": {str(k): sum(1 for x in codes if x == k) for k in (0, 1, 2)}}
    step = max(1, len(cases) // 3)
    chk.add_samples([{"case": lefx_strip(c) if len(json.dumps(c)) < 2500 else {"op": c["op"], "kind": c.get("kind"), "size": len(json.dumps(c))},
                      "impl": r if len(json.dumps(r)) < 2500 else "(large)", "code": k} for c, r, k in list(zip(cases, res, codes))[3::step]], k=3)
    viol = sorted([(len(json.dumps(c)), i) for i, (c, k) in enumerate(zip(cases, codes)) if k == 2])
    mism = sorted([(len(json.dumps(c)), i) for i, (c, k) in enumerate(zip(cases, codes)) if k == 1])
    chk.cov["correspondence_mismatches"] += len(mism)
    if viol:
        i = viol[0][1]
        chk.violation("LefExporter::export: the exported library differs between repetitions of one input (%d cases); smallest: %s"
                      % (len(viol), json.dumps(lefx_strip(cases[i]))[:400]), {"cases": [cases[j] for _, j in viol[:20]], "stage": "lef_export_model"}, suffix="-lefx")
    elif mism:
        i = mism[0][1]
        chk.broken.append("correspondence C20 raw -> LEF: impl differs from the model Raw/RawLefExport.v (%s; %d cases), e.g. %s impl=%s"
                          % (variant, len(mism), json.dumps(lefx_strip(cases[i]))[:500], json.dumps(res[i])[:500]))


# ====================================================================================================================
# technology protobuf -> layer table: Layers::from_proto against its Coq model (Raw/RawLayersProto.v; theorems
# C20_layers_from_proto_* of Properties/C20.v).  The "tech" sources run with all the others in the separate processes of the
# main leg (hashes of the printed table compared); here they are run once more with the table printed in full, and the table is
# compared with the model's (Raw/RawLayersProtoCheck.v c20l_check: code 0 = equal, 1 = differs) and with the specification side
# of C20_layers_from_proto_spec (c20l_spec_check).  A table that differs between repetitions or processes is a violation of the
# property itself (code 2, decided here).
U64 = 1 << 64
LAYERS_PROBLEMS = []
def layers_variant():
    """Which text the second loop of Layers::from_proto has, read from layout21raw/src/proto.rs on every run:
    SortByKey = `layers_by_number.iter()` collected and `sort_by_key(|(index, _)| **index)` (HEAD, commit ccd13a3);
    SortByNum = `.values()` collected and `sort_by_key(|layer| layer.layernum)` (commit ff55d4d);
    NoSort    = `for layer in layers_by_number.values()` (as found).
    The statements of the first loop that the model transcribes are looked for as well; anything else -> the tie to the source is
    broken (reported) and SortByKey is used."""
    del LAYERS_PROBLEMS[:]
    src = open(os.path.join(REPO, "layout21raw/src/proto.rs"), encoding="utf8").read()
    i = src.find("pub fn from_proto(library_pb: &proto::Technology)")
    j = src.find("fn proto_to_internal_layer_purpose(", i)
    if i < 0 or j < i:
        LAYERS_PROBLEMS.append("Layers::from_proto / proto_to_internal_layer_purpose not found in layout21raw/src/proto.rs")
        return "SortByKey"
    body = re.sub(r"//[^\n]*", "", src[i:j])
    flat = re.sub(r"\s+", "", body)
    for what, marker in (("map keyed by the 64-bit index", ".entry(layer_pb.index)"),
                         ("new layer numbered `index as i16`", ".or_insert(Layer::from_num(layer_pb.indexasi16))"),
                         ("`sub_index as i16`", "letsub_index=layer_pb.sub_indexasi16;"),
                         ("no purpose message -> Other(sub_index)", "None=>LayerPurpose::Other(sub_index),"),
                         ("add_purpose(sub_index, purpose)?", "layer.add_purpose(sub_index,layer_purpose)?;"),
                         ("fresh table", "letmutlayers=Layers::default();"),
                         ("Layers::add of a clone", "layers.add(layer.clone());")):
        if marker not in flat:
            LAYERS_PROBLEMS.append("Layers::from_proto no longer has the statement the model transcribes (%s): %s" % (what, marker))
    k = src.find("}", j)
    helper = re.sub(r"\s+", "", src[j:src.find("\n}\n", j)])
    if "proto::LayerPurposeType::Label=>LayerPurpose::Label,_=>LayerPurpose::Other(sub_index)," not in helper:
        LAYERS_PROBLEMS.append("proto_to_internal_layer_purpose is not `Label => Label, _ => Other(sub_index)` any more")
    by_key = "sort_by_key(|(index,_)|**index)" in flat and "layers_by_number.iter().collect()" in flat and "for(_,layer)insorted{" in flat
    by_num = "sort_by_key(|layer|layer.layernum)" in flat and "layers_by_number.values().collect()" in flat and "forlayerinsorted{" in flat
    no_sort = "forlayerinlayers_by_number.values(){" in flat and "sort" not in flat
    if [by_key, by_num, no_sort].count(True) != 1:
        LAYERS_PROBLEMS.append("cannot tell which second loop Layers::from_proto has (sorted by the map key / sorted by layer number / unsorted values())")
        return "SortByKey"
    return "SortByKey" if by_key else "SortByNum" if by_num else "NoSort"

TECH_TYPES = [None, None, 0, 1, 1, 1, 2, 3, 4, 5]
def tech_cases(rng, quick):
    """Technologies for Layers::from_proto.  [index, sub_index, purpose type | null]; indices and sub-indices are u64 in the schema.
    dir_*: fixed inputs, one per behaviour read from the code; rand_*: generated."""
    out = []
    reps = 4 if quick else 8
    def add(fam, layers, reps_=None):
        out.append({"src": "tech", "fam": fam, "layers": layers, "reps": reps_ or reps})
    add("tech_dir_empty", [], 2)
    add("tech_dir_single", [[7, 0, 2]], 2)
    # indices that collide after `as i16` (both become layer number 5), in both input orders; more than two; very large ones
    add("tech_dir_collide", [[5, 0, 2], [65541, 1, 2]], 8)
    add("tech_dir_collide", [[65541, 1, 2], [5, 0, 2]], 8)
    add("tech_dir_collide", [[131077, 2, 1], [5, 0, 2], [(1 << 63) + 5, 4, None], [65541, 1, 2], [(1 << 32) + 5, 3, 3], [6, 0, 2]], 8)
    # the witness of the non-vacuity example of Properties/C20.v
    add("tech_dir_example", [[65541, 1, 1], [7, 0, 2], [5, 2, None], [7, 70000, 3], [5, 2, 1], [65541, 9, 4], [7, 1, 1]], 8)
    # layer numbers that come out negative: index >= 32768 modulo 65536
    add("tech_dir_negative", [[40000, 0, 2], [32768, 0, 2], [65535, 1, 1], [U64 - 1, 2, None], [32767, 0, 2], [0, 0, 2]], 8)
    # sub_index beyond i16: 70000 -> 4464, 65536 -> 0 (the same purpose number as sub_index 0), 32768 -> -32768, 2^64-1 -> -1
    add("tech_dir_sub_wrap", [[3, 70000, 2], [3, 65536, 3], [3, 0, 1], [3, 32768, None], [3, U64 - 1, 1], [3, 65535, 4]], 4)
    # the same (index, sub_index) several times: add_purpose overwrites `purps`, `nums` keeps one entry per purpose
    add("tech_dir_duplicate", [[5, 3, 1], [5, 3, 2], [5, 3, 1]], 4)
    add("tech_dir_duplicate", [[5, 3, 2], [5, 3, 2], [9, 3, 2], [5, 3, 1], [5, 3, None]], 4)
    # Label under several numbers of one layer: `nums[Label]` is the last one
    add("tech_dir_label", [[7, 1, 1], [7, 2, 1], [7, 0, 1], [8, 5, 1]], 4)
    # every purpose type, an absent purpose message, and type numbers outside the enumeration (prost: the default, UNKNOWN)
    add("tech_dir_types", [[4, k, t] for k, t in enumerate([None, 0, 1, 2, 3, 4, 5, 6, 7, -1, (1 << 31) - 1, -(1 << 31)])], 4)
    add("tech_dir_many_purposes", [[11, s, TECH_TYPES[s % len(TECH_TYPES)]] for s in range(40)] + [[12, 0, 2]], 4)
    def idx(pool):
        return rng.choice(pool) + rng.choice([0, 0, 0, 65536, 65536, 131072, 1 << 32, 1 << 63, 3 << 16, (U64 - 65536)])
    def sub():
        r = rng.random()
        return rng.randrange(0, 6) if r < 0.6 else rng.randrange(0, 40) if r < 0.8 else rng.choice([65536, 65537, 70000, 32768, 32767, 65535, U64 - 1, U64 - 2, 1 << 32])
    for _ in range(90 if quick else 900):
        pool = rng.sample(range(0, 12), rng.randrange(1, 5)) + rng.sample([32768, 40000, 65535, 32767], rng.randrange(0, 2))
        ls = [[idx(pool) % U64, sub(), rng.choice(TECH_TYPES)] for _ in range(rng.randrange(1, 14))]
        add("tech_rand_small", ls)
    for _ in range(40 if quick else 400):
        ls = []
        for _ in range(rng.randrange(2, 10)):
            i = rng.randrange(0, U64)
            ls += [[i, rng.randrange(0, U64) if rng.random() < 0.5 else rng.randrange(0, 8), rng.choice(TECH_TYPES + [6, -1])] for _ in range(rng.randrange(1, 4))]
        rng.shuffle(ls)
        add("tech_rand_wide", ls)
    for _ in range(10 if quick else 100):
        base = rng.sample(range(0, 3000), rng.randrange(20, 70))
        ls = [[n + 65536 * rng.choice([0, 0, 0, 1, 2]), s, rng.choice(TECH_TYPES)] for n in base for s in rng.sample(range(0, 10), rng.randrange(1, 3))]
        rng.shuffle(ls)
        add("tech_rand_many", ls)
    return out

def l_purpose(s):
    m = re.fullmatch(r"Other\((-?\d+)\)", s)
    if m:
        return Raw("(Other %s)" % cz(int(m.group(1))))
    if s in ("Drawing", "Pin", "Label", "Obstruction", "Outline"):
        return Raw(s)
    raise ValueError("purpose %r" % s)
def l_tech(layers):
    return clist([capp("mktl", cz(l[0]), cz(l[1]), copt(None if l[2] is None else cz(l[2]))) for l in layers])
def l_impl(table):
    slots = [capp("mkislot", cz(num), cbool(name is not None), clist([ctup(cz(n), l_purpose(p)) for n, p in purps]), clist([ctup(l_purpose(p), cz(n)) for p, n in nums]))
             for num, name, purps, nums in table["slots"]]
    return capp("LIOk", clist(slots), clist([ctup(cz(n), cz(k)) for n, k in table["nums"]]), cz(table["names"]))

LAYERS_HDR = ("From Coq Require Import ZArith List String Bool.\nImport ListNotations.\n"
              "From L21 Require Import Base.Outcome Raw.RawData Raw.RawLayersProto Raw.RawLayersProtoCheck.\nOpen Scope Z_scope.\n")

def layers_leg(chk, cases, runs):
    """Returns True when the leg ran (it then owns the reporting of the stage tech_to_layers)."""
    tidx = [i for i, c in enumerate(cases) if c.get("src") == "tech"]
    if not tidx or not getattr(chk, "model_ok", False):
        return False
    variant = layers_variant()
    for pb in LAYERS_PROBLEMS:
        chk.broken.append("tie to the source (Layers::from_proto model): " + pb)
    chk.assumptions += [
        "Layers::from_proto: slot-map keys of a fresh table are handed out in insertion order; prost's generated `type()` getter maps unknown enumeration numbers to UNKNOWN; "
        "`Vec::sort_by_key` is a stable sort; the two private maps of a Layer are read from its Debug print (cross-checked with the public lookup)",
    ]
    tcases = [cases[i] for i in tidx]
    res = harness("c20", [dict(c, want_out=True) for c in tcases])
    codes, tables, seen = [None] * len(tcases), [None] * len(tcases), [None] * len(tcases)
    items, pos = [], []
    for k, (i, c, r) in enumerate(zip(tidx, tcases, res)):
        allr = [run[i] for run in runs] + [r]
        # the property itself: one table, in every repetition and every process
        views = []
        for x in allr:
            if "stages" not in x:
                views.append("panic" if "panic" in x else "crash")
            elif x["unstable_in_process"] or len(x["stages"]) != 1:
                views.append("unstable-in-process")
            else:
                views.append(x["stages"][0][1])
        seen[k] = views
        if "unstable-in-process" in views or len(set(views)) != 1:
            codes[k] = 2
            if "stages" in r and not r["stages"][0][2].startswith("ERR"):
                tables[k] = r["stages"][0][2]
            continue
        if "stages" not in r:
            impl = Raw("LIPanic") if "panic" in r else None
        elif r["stages"][0][2].startswith("ERR"):
            impl = Raw("LIErr")
        else:
            tables[k] = r["stages"][0][2]
            try:
                impl = l_impl(json.loads(tables[k]))
            except (ValueError, KeyError, TypeError):
                impl = None
        if impl is None:
            codes[k] = 1                  # crash, or a table the model's types cannot express (a Named purpose)
            continue
        spec = "c20l_spec_check t i" if variant == "SortByKey" else "0"
        items.append(Raw("(let t := %s in let i := %s in (c20l_check %s t i, %s))" % (l_tech(c["layers"]), impl, variant, spec)))
        pos.append(k)
    vals = coq_eval_lists(LAYERS_HDR, items, chk.rundir, "c20l", shard=40)
    spec_bad = []
    for k, sv in zip(pos, vals):
        m = re.match(r"^\(\s*\(?(-?\d+)\)?(?:%Z)?\s*,\s*\(?(-?\d+)\)?(?:%Z)?\s*\)$", sv.strip())
        if not m:
            raise RuntimeError("c20l: unexpected Coq value %r" % sv)
        codes[k] = 0 if (int(m.group(1)), int(m.group(2))) == (0, 0) else 1
        if int(m.group(2)) != 0:
            spec_bad.append(k)
    fams, outcome = {}, {}
    for c, r in zip(tcases, res):
        fams[c.get("fam", "tech_main")] = fams.get(c.get("fam", "tech_main"), 0) + 1
        o = "panic" if "panic" in r else "crash" if "stages" not in r else "err" if r["stages"][0][2].startswith("ERR") else "table"
        outcome[o] = outcome.get(o, 0) + 1
    def shape(c):
        ix = {l[0] for l in c["layers"]}
        return {"indices": len(ix), "numbers": len({((x + 32768) % 65536) - 32768 for x in ix})}
    nontrivial = [c for c in tcases if shape(c)["indices"] >= 2]
    nruns = sum(c.get("reps", 3) for c in tcases)
    chk.cov["evaluations"] += nruns
    chk.cov["distinct_nontrivial"] += len({json.dumps(c["layers"]) for c in nontrivial})
    chk.cov["traces_validated_against_impl"] += sum(c.get("reps", 3) for c, k in zip(tcases, codes) if k == 0)
    chk.cov["rule"] += ("; Layers::from_proto model leg: technologies of 0-130 entries over 1-70 major-layer indices (small pools with offsets of 2^16, 2^17, 2^32, 2^63 so that truncated "
                        "layer numbers collide and come out negative; random 64-bit indices and sub-indices; every purpose type, absent purposes, type numbers outside the enumeration; repeated "
                        "(index, sub_index) pairs), the printed table (slot order, both purpose maps of each layer, Layers.nums, names) compared with the Coq model and with the specification "
                        "(ascending distinct indices, per index the purposes in input order), and between %d repetitions and the separate processes; non-trivial = two or more distinct indices"
                        % (tcases[-1].get("reps", 3)))
    chk.cov["input_distribution"]["layers_from_proto_model_leg"] = {
        "iteration_site": "layout21raw/src/proto.rs Layers::from_proto `layers_by_number` (HashMap<u64, Layer>): modelled with an order oracle in Raw/RawLayersProto.v; second loop read from the source",
        "model_variant": variant, "cases": len(tcases), "families": fams, "impl_outcomes": outcome,
        "with_colliding_layer_numbers": sum(1 for c in tcases if shape(c)["numbers"] < shape(c)["indices"]),
        "with_repeated_index_sub_pair": sum(1 for c in tcases if len({(l[0], l[1]) for l in c["layers"]}) < len(c["layers"])),
        "max_distinct_indices": max(shape(c)["indices"] for c in tcases),
        "codes": {str(k): sum(1 for x in codes if x == k) for k in (0, 1, 2)}, "differs_from_specification": len(spec_bad)}
    order = sorted(range(len(tcases)), key=lambda k: len(json.dumps(tcases[k]["layers"])))
    chk.add_samples([{"tech": tcases[k]["layers"], "table": tables[k], "code": codes[k]} for k in order if 200 < len(json.dumps(tcases[k]["layers"])) < 600][:2], k=2)
    viol = [k for k in order if codes[k] == 2]
    mism = [k for k in order if codes[k] == 1]
    chk.cov["correspondence_mismatches"] += len(mism)
    if viol:
        k = viol[0]
        # the tables themselves: the smallest technology converted a dozen times, once per harness case
        again = harness("c20", [dict(tcases[k], reps=1, want_out=True)] * 12)
        distinct = sorted({x["stages"][0][2] if "stages" in x else json.dumps(x) for x in again})
        seen[k] = [t[:300] for t in distinct[:3]] if len(distinct) > 1 else seen[k]
        predicted = {"NoSort": " -- what the model of this text of the loop predicts (C20_layers_from_proto_orig_refuted)",
                     "SortByNum": " -- possible for this text of the loop when truncated numbers collide (C20_layers_from_proto_sort_by_num_refuted)"}.get(variant, "")
        chk.violation("Layers::from_proto: one technology gives different layer tables between repetitions / processes (%d of %d technologies; second loop of the source: %s%s); smallest: layers=%s tables seen: %s"
                      % (len(viol), len(tcases), variant, predicted, json.dumps(tcases[k]["layers"])[:300], sorted(set(map(str, seen[k])))[:4]),
                      {"cases": [tcases[j] for j in viol[:20]], "stage": "tech_to_layers", "model_variant": variant}, suffix="-layers_from_proto")
    elif mism:
        k = mism[0]
        chk.broken.append("correspondence C20 Layers::from_proto: impl differs from the model Raw/RawLayersProto.v (%s; %d cases%s), e.g. layers=%s impl=%s"
                          % (variant, len(mism), "; %d differ from the specification of C20_layers_from_proto_spec" % len(spec_bad) if spec_bad else "",
                             json.dumps(tcases[k]["layers"])[:400], json.dumps(res[k])[:600]))
    return True
