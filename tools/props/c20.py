"""C20: conversions are deterministic (same input, same output, in one process and across processes).
Proof leg: Properties/C20.v (iteration of a hash map through a sort is independent of the iteration order; the
conversion models take the order as an explicit oracle).  Correspondence: the real conversion chains
GDSII -> raw -> {GDSII, protobuf -> raw, LEF} and LEF -> raw -> {GDSII, protobuf -> raw, LEF} (and gridded -> raw via C08's
harness) repeated inside one process and in several separate processes (fresh hash seeds), outputs compared."""
import json, os, struct, subprocess
from vlib import *

# ------------------------------------------------------------------ a small GDSII byte writer (independent of /repo)
def gds_real(x):
    if x == 0:
        return b"\0" * 8
    sign = 0x80 if x < 0 else 0
    x = abs(x)
    from fractions import Fraction
    f = Fraction(x)
    e = 0
    while f >= 1:
        f /= 16; e += 1
    while f < Fraction(1, 16):
        f *= 16; e -= 1
    m = int(f * (1 << 56))
    return bytes([sign | (64 + e)]) + m.to_bytes(7, "big")

def rec(rt, dt, payload=b""):
    if len(payload) % 2:
        payload += b"\0"
    return struct.pack(">HBB", len(payload) + 4, rt, dt) + payload
def i16s(*xs):
    return b"".join(struct.pack(">h", x) for x in xs)
def i32s(*xs):
    return b"".join(struct.pack(">i", x) for x in xs)

def gds_bytes(lib):
    out = [rec(0x00, 2, i16s(3)), rec(0x01, 2, i16s(*([2020, 1, 2, 3, 4, 5] * 2))), rec(0x02, 6, lib["name"].encode()),
           rec(0x03, 5, gds_real(1e-3) + gds_real(1e-9))]
    for s in lib["structs"]:
        out += [rec(0x05, 2, i16s(*([2020, 1, 2, 3, 4, 5] * 2))), rec(0x06, 6, s["name"].encode())]
        for e in s["elems"]:
            k = e["k"]
            if k == "boundary":
                out += [rec(0x08, 0), rec(0x0D, 2, i16s(e["layer"])), rec(0x0E, 2, i16s(e["dt"])), rec(0x10, 3, i32s(*sum(e["xy"], []))), rec(0x11, 0)]
            elif k == "path":
                out += [rec(0x09, 0), rec(0x0D, 2, i16s(e["layer"])), rec(0x0E, 2, i16s(e["dt"])), rec(0x0F, 3, i32s(e["width"])), rec(0x10, 3, i32s(*sum(e["xy"], []))), rec(0x11, 0)]
            elif k == "box":
                out += [rec(0x2D, 0), rec(0x0D, 2, i16s(e["layer"])), rec(0x2E, 2, i16s(e["dt"])), rec(0x10, 3, i32s(*sum(e["xy"], []))), rec(0x11, 0)]
            elif k == "text":
                out += [rec(0x0C, 0), rec(0x0D, 2, i16s(e["layer"])), rec(0x16, 2, i16s(e["dt"])), rec(0x10, 3, i32s(*e["xy"])), rec(0x19, 6, e["s"].encode()), rec(0x11, 0)]
            elif k == "sref":
                out += [rec(0x0A, 0), rec(0x12, 6, e["name"].encode())]
                if e["reflect"] or e["angle"]:
                    out += [rec(0x1A, 1, struct.pack(">H", 0x8000 if e["reflect"] else 0))]
                    if e["angle"]:
                        out += [rec(0x1C, 5, gds_real(float(e["angle"])))]
                out += [rec(0x10, 3, i32s(*e["xy"])), rec(0x11, 0)]
            elif k == "aref":
                out += [rec(0x0B, 0), rec(0x12, 6, e["name"].encode()), rec(0x13, 2, i16s(e["cols"], e["rows"])),
                        rec(0x10, 3, i32s(*sum(e["xy"], []))), rec(0x11, 0)]
        out.append(rec(0x07, 0))
    out.append(rec(0x04, 0))
    return b"".join(out)

def gen_gds(rng):
    n = rng.randrange(1, 6)
    names = ["cell%d" % i for i in range(n)]
    structs = []
    for i in range(n):
        elems = []
        for _ in range(rng.randrange(0, 8)):
            layer = rng.choice([1, 2, 5, 7, 31, 66])
            dt = rng.choice([0, 0, 1, 20])
            x0, y0 = rng.randrange(-500, 500), rng.randrange(-500, 500)
            w, h = rng.randrange(10, 300), rng.randrange(10, 300)
            c = rng.randrange(6)
            if c <= 1:
                pts = [[x0, y0], [x0 + w, y0], [x0 + w, y0 + h], [x0, y0 + h], [x0, y0]]
                if c == 1:
                    pts = pts[::-1]
                elems.append({"k": "boundary", "layer": layer, "dt": dt, "xy": pts})
                if rng.random() < 0.5:
                    elems.append({"k": "text", "layer": layer, "dt": dt, "xy": [x0 + w // 2, y0 + h // 2], "s": rng.choice(["VDD", "a", "Net_1", "out"])})
            elif c == 2:
                elems.append({"k": "boundary", "layer": layer, "dt": dt, "xy": [[x0, y0], [x0 + w, y0], [x0 + w, y0 + h], [x0 + w // 2, y0 + h + 20], [x0, y0 + h], [x0, y0]]})
            elif c == 3:
                elems.append({"k": "path", "layer": layer, "dt": dt, "width": rng.choice([2, 10, 14]), "xy": [[x0, y0], [x0 + w, y0], [x0 + w, y0 + h]]})
            elif c == 4:
                elems.append({"k": "box", "layer": layer, "dt": dt, "xy": [[x0, y0], [x0 + w, y0], [x0 + w, y0 + h], [x0, y0 + h], [x0, y0]]})
            else:
                elems.append({"k": "text", "layer": layer, "dt": dt, "xy": [x0, y0], "s": "note"})
        for j in range(i):
            if rng.random() < 0.5:
                if rng.random() < 0.8:
                    elems.append({"k": "sref", "name": names[j], "reflect": rng.random() < 0.4, "angle": rng.choice([0, 0, 90, 180, 270]),
                                  "xy": [rng.randrange(-1000, 1000), rng.randrange(-1000, 1000)]})
                else:
                    cols, rows = rng.randrange(1, 4), rng.randrange(1, 4)
                    x0, y0 = rng.randrange(-1000, 1000), rng.randrange(-1000, 1000)
                    elems.append({"k": "aref", "name": names[j], "cols": cols, "rows": rows,
                                  "xy": [[x0, y0], [x0 + cols * 400, y0], [x0, y0 + rows * 300]]})
        rng.shuffle(elems)
        structs.append({"name": names[i], "elems": elems})
    rng.shuffle(structs)
    return {"name": "lib", "structs": structs}

def gen_lef(rng):
    layers = ["met1", "met2", "met3", "via1", "poly"]
    out = ["VERSION 5.8 ;", 'BUSBITCHARS "[]" ;', 'DIVIDERCHAR "/" ;', "UNITS", "  DATABASE MICRONS 1000 ;", "END UNITS"]
    nm = rng.randrange(1, 4)
    for m in range(nm):
        name = "mac%d" % m
        out += ["MACRO %s" % name, "  CLASS CORE ;", "  SIZE %d BY %d ;" % (rng.randrange(1, 20), rng.randrange(1, 20))]
        for p in range(rng.randrange(1, 4)):
            pn = "p%d" % p
            out += ["  PIN %s" % pn, "    DIRECTION INPUT ;"]
            for _ in range(rng.randrange(1, 3)):
                out.append("    PORT")
                for l in rng.sample(layers, rng.randrange(1, 4)):
                    out.append("      LAYER %s ;" % l)
                    for _ in range(rng.randrange(1, 3)):
                        x, y = rng.randrange(0, 10), rng.randrange(0, 10)
                        out.append("        RECT %d %d %d %d ;" % (x, y, x + rng.randrange(1, 5), y + rng.randrange(1, 5)))
                out.append("    END")
            out.append("  END %s" % pn)
        if rng.random() < 0.8:
            out.append("  OBS")
            for l in rng.sample(layers, rng.randrange(1, 5)):
                out.append("    LAYER %s ;" % l)
                x, y = rng.randrange(0, 10), rng.randrange(0, 10)
                out.append("      RECT %d %d %d %d ;" % (x, y, x + rng.randrange(1, 5), y + rng.randrange(1, 5)))
            out.append("  END")
        out.append("END %s" % name)
    out.append("END LIBRARY")
    return "\n".join(out) + "\n"

def src_of(c):
    return c.get("hex") or c.get("text") or json.dumps(c.get("layers") or c.get("cells"))

def run_proc(cases):
    """one separate process over all cases (fresh RandomState)"""
    return harness("c20", cases)

def run(chk, replay=None):
    chk.proof_leg(["Order/SortedIter.vo", "Order/HashIterAllowed.vo", "Gen/HashIterGen.vo"], "Properties/C20.v", ["Order/SortedIter.v", "Order/Determinism_proofs.v"], "Properties.C20")
    chk.assumptions += [
        "cross-process hash seeds are sampled (a fixed number of separate processes per run); the theorem, not the sampling, carries the claim for the modelled iteration sites",
        "conversions whose models take no order argument are deterministic by construction; that their code iterates no hash container is the obligation C20_conversion_sites_covered (textual site list), the repeated runs support it",
    ]
    quick = chk.tier == "quick"
    known = {k["class"]: k for k in load_known() if k.get("kind") == "finding" and k.get("property") == "C20"}
    if replay:
        cases = json.load(open(replay))["replay"]["cases"]
    else:
        cases = []
        for _ in range(40 if quick else 400):
            cases.append({"src": "gds", "hex": gds_bytes(gen_gds(chk.rng)).hex(), "reps": 4 if quick else 8})
        for _ in range(40 if quick else 400):
            cases.append({"src": "lef", "text": gen_lef(chk.rng), "reps": 4 if quick else 8})
        # raw libraries built directly: cell DAGs listed in shuffled order (parents before children too)
        for _ in range(20 if quick else 200):
            n = chk.rng.randrange(3, 10)
            order = list(range(n)); chk.rng.shuffle(order)          # order[k] = rank of cell k; an instance goes to a lower rank
            cells = []
            for k in range(n):
                lower = [j for j in range(n) if order[j] < order[k]]
                insts = [chk.rng.choice(lower) for _ in range(chk.rng.randrange(0, 5))] if lower else []
                cells.append({"name": "c%d" % k, "insts": insts})
            cases.append({"src": "rawlib", "cells": cells, "reps": 4 if quick else 8})
        cases.append({"src": "rawlib", "reps": 8, "cells": [{"name": "top", "insts": [1, 2, 3, 4, 5]}] + [{"name": "leaf%d" % k, "insts": []} for k in range(5)]})
        # technology protobuf -> layer table (Layers::from_proto): 2..12 major layers in shuffled order, several purposes each
        for _ in range(20 if quick else 200):
            nums = chk.rng.sample(range(0, 200), chk.rng.randrange(2, 13))
            ls = [[n, sub, chk.rng.choice([None, 0, 1, 2, 3, 4, 5])] for n in nums for sub in chk.rng.sample(range(0, 40), chk.rng.randrange(1, 4))]
            chk.rng.shuffle(ls)
            cases.append({"src": "tech", "layers": ls, "reps": 4 if quick else 8})
        cases.append({"src": "tech", "layers": [[1, 0, 2], [2, 0, 2]], "reps": 8})
        # layer indices are 64-bit in the schema and 16-bit in the layer table: two that agree modulo 2^16
        cases.append({"src": "tech", "layers": [[1, 0, 2], [65537, 1, 2]], "reps": 8})
        for _ in range(6 if quick else 60):
            base = chk.rng.sample(range(0, 200), chk.rng.randrange(2, 6))
            ls = [[n + 65536 * chk.rng.randrange(0, 4), sub, chk.rng.choice([None, 1, 2, 3])] for n in base for sub in chk.rng.sample(range(0, 40), 2)]
            chk.rng.shuffle(ls)
            cases.append({"src": "tech", "layers": ls, "reps": 4 if quick else 8})
        # always: one port on two and three layers, obstructions on three layers
        cases.append({"src": "lef", "reps": 8, "text": "VERSION 5.8 ;\nMACRO m\n  SIZE 4 BY 4 ;\n  PIN a\n    PORT\n      LAYER met1 ;\n        RECT 0 0 1 1 ;\n      LAYER met2 ;\n        RECT 1 1 2 2 ;\n    END\n  END a\nEND m\nEND LIBRARY\n"})
        cases.append({"src": "lef", "reps": 8, "text": "VERSION 5.8 ;\nMACRO m\n  SIZE 4 BY 4 ;\n  PIN a\n    PORT\n      LAYER met1 ;\n        RECT 0 0 1 1 ;\n      LAYER met2 ;\n        RECT 1 1 2 2 ;\n      LAYER met3 ;\n        RECT 2 2 3 3 ;\n    END\n  END a\n  OBS\n    LAYER met1 ;\n      RECT 0 0 1 1 ;\n    LAYER met2 ;\n      RECT 0 0 1 1 ;\n    LAYER met3 ;\n      RECT 0 0 1 1 ;\n  END\nEND m\nEND LIBRARY\n"})
    nproc = 4 if quick else 16
    from concurrent.futures import ThreadPoolExecutor
    with ThreadPoolExecutor(max_workers=min(nproc, NCPU)) as ex:
        runs = list(ex.map(lambda _: run_proc(cases), range(nproc)))
    bad = []          # (case index, stage, kind)
    stage_counts = {}
    errs = 0
    for i, c in enumerate(cases):
        rs = [r[i] for r in runs]
        if any("stages" not in r for r in rs):
            bad.append((i, "harness", "panic-or-crash: %s" % json.dumps([r for r in rs if "stages" not in r][0])[:200]))
            continue
        for r in rs:
            for st in r["unstable_in_process"]:
                bad.append((i, st, "differs between repetitions inside one process"))
        base = rs[0]["stages"]
        for st in base:
            stage_counts[st[0]] = stage_counts.get(st[0], 0) + 1
            if st[3]:
                errs += 1
        for r in rs[1:]:
            for a, b in zip(base, r["stages"]):
                if a[:2] != b[:2]:
                    bad.append((i, a[0], "differs between separate processes"))
            if len(base) != len(r["stages"]):
                bad.append((i, "chain", "different chain length between processes"))
    chk.cov["evaluations"] = len(cases) * nproc
    chk.cov["distinct_nontrivial"] = len({src_of(c) for c in cases if len(src_of(c)) > 200})
    chk.cov["rule"] = ("generated hierarchical GDSII streams (own byte writer) and LEF texts with multi-layer ports/obstructions; each converted through the whole chain "
                       "%d times per process in %d separate processes; non-trivial = source longer than 200 characters; distinct by source" % (cases[0]["reps"], nproc))
    chk.cov["traces_validated_against_impl"] = len(cases) * nproc - len({b[0] for b in bad}) * nproc
    chk.cov["input_distribution"] = {"gds_sources": sum(1 for c in cases if c["src"] == "gds"), "tech_sources": sum(1 for c in cases if c["src"] == "tech"), "rawlib_sources": sum(1 for c in cases if c["src"] == "rawlib"), "lef_sources": sum(1 for c in cases if c["src"] == "lef"),
                                     "stage_results": stage_counts, "stages_ending_in_error": errs, "processes": nproc}
    chk.add_samples([{"src": c["src"], "source": src_of(c)[:400], "stages": runs[0][i].get("stages")} for i, c in list(enumerate(cases))[:: max(1, len(cases) // 3)]], k=3)
    if bad:
        # group by stage; pick the smallest source per stage
        by_stage = {}
        for i, st, kind in bad:
            by_stage.setdefault(st, []).append((len(src_of(cases[i])), i, kind))
        for st, lst in sorted(by_stage.items()):
            lst.sort()
            _, i, kind = lst[0]
            cls = "nondeterministic-" + st
            if cls in known:
                chk.known(known[cls], cases[i])
                continue
            chk.violation("conversion stage %s %s (%d cases); smallest source: %s" % (st, kind, len({x[1] for x in lst}), src_of(cases[i])[:300]),
                          {"cases": [cases[i]], "stage": st, "kind": kind}, suffix="-" + st)
