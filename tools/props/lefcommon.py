"""Shared glue for the LEF family (C04, C05, C11).

* SCHEMA: the shape of coq/Lef/LefData.v (records / variants / enums), used to turn Python values
  (the JSON printed by harness/src/bin/c04.rs, or generated libraries) into Coq terms.
* parsing of the `Debug` text of `LefError` into the model's `lef_err` terms.
* generators: decimals, names, libraries (every field of every record), number spellings, styles.
Python values: records are dicts keyed by the Rust field name, variants are {"v": Ctor, "a": [args]},
enums are the Rust variant name, options are None / value, strings are hex of UTF-8 bytes (as printed by
the harness), decimals are [neg, "mantissa", scale], chars are scalar values."""
import json, os, re
from vlib import *

# ------------------------------------------------------------------ schema
# type expressions
B, D, BOOL, Z, CH = "bytes", "dec", "bool", "Z", "char"
def O(t): return ("opt", t)
def L(t): return ("list", t)
def PR(a, b): return ("pair", a, b)
def E(n): return ("enum", n)
def R(n): return ("rec", n)
def VR(n): return ("var", n)

ENUM_NAMES = ["LefOnOff", "LefClearanceStyle", "LefDefSource", "LefSymmetry", "LefOrient", "LefPinUse", "LefPinShape",
              "LefMacroClassName", "LefPadClassType", "LefEndCapClassType", "LefBlockClassType", "LefCoreClassType",
              "LefPortClass", "LefSiteClass", "LefAntennaModel", "LefPropertyDefinitionObjectType"]

# name -> (kind, coq field prefix, fields)   in dependency order
SCHEMA = [
 ("lef_point", "rec", "pt_", [("x", D), ("y", D)]),
 ("lef_shape", "var", "Sh", [("Rect", [O(D), R("lef_point"), R("lef_point")]),
                             ("Polygon", [O(D), L(R("lef_point"))]),
                             ("Path", [O(D), L(R("lef_point"))])]),
 ("lef_step", "rec", "st_", [("numx", D), ("numy", D), ("spacex", D), ("spacey", D)]),
 ("lef_geometry", "var", "G", [("Shape", [VR("lef_shape")]), ("Iterate", [VR("lef_shape"), R("lef_step")])]),
 ("lef_via_inst", "rec", "vi_", [("via_name", B), ("pt", R("lef_point"))]),
 ("lef_layer_spacing", "var", "Ls", [("Spacing", [D]), ("DesignRuleWidth", [D])]),
 ("lef_layer_geoms", "rec", "lg_", [("layer_name", B), ("geometries", L(VR("lef_geometry"))), ("vias", L(R("lef_via_inst"))),
                                    ("except_pg_net", O(BOOL)), ("spacing", O(VR("lef_layer_spacing"))), ("width", O(D))]),
 ("lef_port", "rec", "po_", [("class", O(E("LefPortClass"))), ("layers", L(R("lef_layer_geoms")))]),
 ("lef_pin_direction", "var", "Dir", [("Input", []), ("Output", [BOOL]), ("Inout", []), ("FeedThru", [])]),
 ("lef_antenna_attr", "rec", "aa_", [("key", B), ("val", D), ("layer", O(B))]),
 ("lef_property", "rec", "pr_", [("name", B), ("value", B)]),
 ("lef_pin", "rec", "pin_", [("name", B), ("ports", L(R("lef_port"))), ("direction", O(VR("lef_pin_direction"))),
                             ("use_", O(E("LefPinUse"))), ("shape", O(E("LefPinShape"))), ("antenna_model", O(E("LefAntennaModel"))),
                             ("antenna_attrs", L(R("lef_antenna_attr"))), ("taper_rule", O(B)), ("supply_sensitivity", O(B)),
                             ("ground_sensitivity", O(B)), ("must_join", O(B)), ("net_expr", O(B)),
                             ("properties", L(R("lef_property")))]),
 ("lef_macro_class", "var", "Mc", [("Cover", [BOOL]), ("Ring", []), ("Block", [O(E("LefBlockClassType"))]),
                                   ("Pad", [O(E("LefPadClassType"))]), ("Core", [O(E("LefCoreClassType"))]),
                                   ("EndCap", [E("LefEndCapClassType")])]),
 ("lef_foreign", "rec", "fo_", [("cell_name", B), ("pt", O(R("lef_point"))), ("orient", O(E("LefOrient")))]),
 ("lef_density_rect", "rec", "dr_", [("pt1", R("lef_point")), ("pt2", R("lef_point")), ("density_value", D)]),
 ("lef_density_geoms", "rec", "dg_", [("layer_name", B), ("geometries", L(R("lef_density_rect")))]),
 ("lef_macro", "rec", "mac_", [("name", B), ("pins", L(R("lef_pin"))), ("obs", L(R("lef_layer_geoms"))),
                               ("class", O(VR("lef_macro_class"))), ("foreign", O(R("lef_foreign"))), ("origin", O(R("lef_point"))),
                               ("size", O(PR(D, D))), ("symmetry", O(L(E("LefSymmetry")))), ("site", O(B)),
                               ("source", O(E("LefDefSource"))), ("eeq", O(B)), ("fixed_mask", BOOL),
                               ("properties", L(R("lef_property"))), ("density", O(L(R("lef_density_geoms"))))]),
 ("lef_via_shape", "var", "Vs", [("Rect", [O(D), R("lef_point"), R("lef_point")]), ("Polygon", [O(D), L(R("lef_point"))])]),
 ("lef_via_layer_geoms", "rec", "vl_", [("layer_name", B), ("shapes", L(VR("lef_via_shape")))]),
 ("lef_fixed_via", "rec", "fv_", [("resistance_ohms", O(D)), ("layers", L(R("lef_via_layer_geoms")))]),
 ("lef_rowcol", "rec", "rc_", [("rows", D), ("cols", D)]),
 ("lef_offset", "rec", "of_", [("bot_x", D), ("bot_y", D), ("top_x", D), ("top_y", D)]),
 ("lef_gen_via", "rec", "gv_", [("via_rule_name", B), ("cut_size_x", D), ("cut_size_y", D), ("bot_metal_layer", B), ("cut_layer", B),
                                ("top_metal_layer", B), ("cut_spacing_x", D), ("cut_spacing_y", D), ("bot_enc_x", D), ("bot_enc_y", D),
                                ("top_enc_x", D), ("top_enc_y", D), ("rowcol", O(R("lef_rowcol"))), ("origin", O(R("lef_point"))),
                                ("offset", O(R("lef_offset")))]),
 ("lef_via_data", "var", "Vd", [("Fixed", [R("lef_fixed_via")]), ("Generated", [R("lef_gen_via")])]),
 ("lef_via_def", "rec", "vd_", [("name", B), ("default", BOOL), ("data", VR("lef_via_data"))]),
 ("lef_site", "rec", "site_", [("name", B), ("class", E("LefSiteClass")), ("size", PR(D, D)), ("symmetry", O(L(E("LefSymmetry"))))]),
 ("lef_units", "rec", "u_", [("database_microns", O(Z)), ("time_ns", O(D)), ("capacitance_pf", O(D)), ("resistance_ohms", O(D)),
                             ("power_mw", O(D)), ("current_ma", O(D)), ("voltage_volts", O(D)), ("frequency_mhz", O(D))]),
 ("lef_propdef", "var", "Pd", [("LefString", [E("LefPropertyDefinitionObjectType"), B, O(B)]),
                               ("LefReal", [E("LefPropertyDefinitionObjectType"), B, O(D), O(PR(D, D))]),
                               ("LefInteger", [E("LefPropertyDefinitionObjectType"), B, O(D), O(PR(D, D))])]),
 ("lef_extension", "rec", "ext_", [("name", B), ("data", B)]),
 ("lef_lib", "rec", "lib_", [("macros", L(R("lef_macro"))), ("sites", L(R("lef_site"))), ("vias", L(R("lef_via_def"))),
                             ("version", O(D)), ("names_case_sensitive", O(E("LefOnOff"))), ("no_wire_extension_at_pin", O(E("LefOnOff"))),
                             ("bus_bit_chars", O(PR(CH, CH))), ("divider_char", O(CH)), ("units", O(R("lef_units"))),
                             ("fixed_mask", BOOL), ("clearance_measure", O(E("LefClearanceStyle"))),
                             ("extensions", L(R("lef_extension"))), ("manufacturing_grid", O(D)), ("use_min_spacing", O(E("LefOnOff"))),
                             ("property_definitions", L(VR("lef_propdef")))]),
]
SCH = {n: (k, p, f) for n, k, p, f in SCHEMA}

def cbytes(h):
    """hex string -> Coq bytes term"""
    return Raw('(unhex "%s")' % h)

def cdec(d):
    neg, mant, scale = d
    return Raw("(mkdec %s (%s)%%Z (%d)%%Z)" % ("true" if neg else "false", str(mant), scale))

def to_coq(t, v):
    """Python value of schema type t -> Coq term (Raw)"""
    if t == B:
        return cbytes(v)
    if t == D:
        return cdec(v)
    if t == BOOL:
        return cbool(v)
    if t in (Z, CH):
        return cz(v)
    k = t[0]
    if k == "opt":
        return Raw("None") if v is None else Raw("(Some %s)" % to_coq(t[1], v))
    if k == "list":
        return Raw("[" + "; ".join(to_coq(t[1], x) for x in v) + "]")
    if k == "pair":
        return Raw("(%s, %s)" % (to_coq(t[1], v[0]), to_coq(t[2], v[1])))
    if k == "enum":
        return Raw("%s_%s" % (t[1], v))
    if k == "rec":
        _, pre, fields = SCH[t[1]]
        return Raw("(Build_%s %s)" % (t[1], " ".join(to_coq(ft, v[fn]) for fn, ft in fields)))
    if k == "var":
        _, pre, ctors = SCH[t[1]]
        for cn, ats in ctors:
            if cn == v["v"]:
                if not ats:
                    return Raw(pre + cn)
                return Raw("(%s%s %s)" % (pre, cn, " ".join(to_coq(at, a) for at, a in zip(ats, v["a"]))))
        raise ValueError("bad variant %r for %s" % (v, t[1]))
    raise ValueError("bad type %r" % (t,))

def lib_to_coq(lib):
    return to_coq(R("lef_lib"), lib)

# ------------------------------------------------------------------ LefError Debug text -> lef_err term
def _unescape(s):
    """Rust `str::escape_debug` text (between the quotes) -> str"""
    out = []
    i = 0
    while i < len(s):
        c = s[i]
        if c != "\\":
            out.append(c); i += 1; continue
        n = s[i + 1]
        if n == "u":
            j = s.index("}", i)
            out.append(chr(int(s[i + 3:j], 16))); i = j + 1; continue
        out.append({"n": "\n", "t": "\t", "r": "\r", "0": "\0", "\\": "\\", '"': '"', "'": "'"}[n]); i += 2
    return "".join(out)

def _take_str(s, i):
    """s[i] == '"': returns (unescaped string, index after the closing quote)"""
    assert s[i] == '"', s[i:i + 20]
    j = i + 1
    while s[j] != '"':
        j += 2 if s[j] == "\\" else 1
    return _unescape(s[i + 1:j]), j + 1

TT = {"Name": "TName", "Number": "TNumber", "SemiColon": "TSemi", "StringLiteral": "TString"}

def parse_lef_error(e):
    """Debug text of lef21::LefError -> dict. Raises ValueError if the text has an unknown shape."""
    if e.startswith("Lex {"):
        m = re.match(r"Lex \{ next_char: (None|Some\('((?:\\.|\\u\{[0-9a-f]+\}|[^\\])+?)'\)), line: (\d+), pos: (\d+) \}$", e, re.S)
        if not m:
            raise ValueError("bad Lex error text: %r" % e)
        ch = None if m.group(1) == "None" else ord(_unescape(m.group(2)))
        return {"k": "lex", "ch": ch, "line": int(m.group(3)), "pos": int(m.group(4))}
    if e.startswith("Parse {"):
        m = re.match(r"Parse \{ msg: (None|Some\()", e)
        i = m.end()
        msg = None
        if m.group(1) != "None":
            msg, i = _take_str(e, i)
            assert e[i] == ")"; i += 1
        m = re.match(r", tp: (Unsupported|InvalidKey|InvalidValue|Other|InvalidToken \{ expected: (\w+) \}|RequiredWord \{ expected: )", e[i:])
        if not m:
            raise ValueError("bad Parse error text (tp): %r" % e)
        i += m.end()
        tp = m.group(1)
        if tp.startswith("InvalidToken"):
            tpv = ("InvalidToken", m.group(2))
        elif tp.startswith("RequiredWord"):
            w, i = _take_str(e, i)
            assert e[i:i + 2] == " }"; i += 2
            tpv = ("RequiredWord", w)
        else:
            tpv = (tp, None)
        m = re.match(r", state: ParserState \{ ctx: \[([A-Za-z, ]*)\], token: ", e[i:])
        if not m:
            raise ValueError("bad Parse error text (state): %r" % e)
        ctx = [c.strip() for c in m.group(1).split(",") if c.strip()]
        i += m.end()
        tok, i = _take_str(e, i)
        assert e[i:i + 16] == ", line_content: ", e[i:i + 30]
        lc, i = _take_str(e, i + 16)
        m = re.match(r", line_num: (\d+), pos: (\d+) \} \}$", e[i:])
        if not m:
            raise ValueError("bad Parse error text (tail): %r" % e)
        return {"k": "parse", "msg": msg, "tp": tpv, "ctx": ctx, "token": tok, "line_content": lc,
                "line": int(m.group(1)), "pos": int(m.group(2))}
    if e.startswith("Boxed("):
        return {"k": "boxed", "text": e}
    if e.startswith("Str("):
        s, _ = _take_str(e, 4)
        return {"k": "str", "text": s}
    raise ValueError("unknown LefError text: %r" % e)

MSGS = {
    None: "MsgNone",
    "The LEF NAMESCASESENSITIVE option is invalid for LEF versions > 5.4": "MsgNamesCase",
    "The Lef MACRO's SOURCE field is invalid for LEF versions > 5.4": "MsgSource",
    "Unexpected token while parsing PROPERTY, must be string/number/name": "MsgProperty",
    "The LEF NOWIREEXTENSIONATPIN option is invalid for LEF versions > 5.4": "MsgNoWire",
    "The LEF VERSION statement may appear only once": "MsgVersionTwice",
}

def err_to_coq(e):
    """dict from parse_lef_error -> Coq term of type lef_err"""
    if e["k"] == "lex":
        return Raw("(ELex %s %s %s)" % (copt(None if e["ch"] is None else cz(e["ch"])), cz(e["line"]), cz(e["pos"])))
    if e["k"] == "parse":
        tp, arg = e["tp"]
        if tp == "InvalidToken":
            tpt = "(EtInvalidToken %s)" % TT[arg]
        elif tp == "RequiredWord":
            tpt = "(EtRequiredWord %s)" % cbytes(arg.encode().hex())
        else:
            tpt = "Et" + tp
        if e["msg"] not in MSGS:
            raise ValueError("unknown parse message %r" % e["msg"])
        return Raw("(EParse %s %s %s %s %s %s %s)" % (
            tpt, MSGS[e["msg"]], clist([Raw("Ctx" + c) for c in e["ctx"]]), cbytes(e["token"].encode().hex()),
            cbytes(e["line_content"].encode().hex()), cz(e["line"]), cz(e["pos"])))
    if e["k"] == "boxed":
        return Raw("EDecimal")
    if e["k"] == "str":
        return Raw("(EStr %s)" % cbytes(e["text"].encode().hex()))
    raise ValueError(e)

def res_to_coq(r):
    """harness RES -> Coq term of type (impl_res lef_lib): IOk lib | IErr e | IPanic"""
    if r is None:
        return Raw("INone")
    if "ok" in r:
        if r["ok"].get("unsupported_set"):
            return Raw("IWeird")
        return Raw("(IOk %s)" % lib_to_coq(r["ok"]))
    if "err" in r:
        return Raw("(IErr %s)" % err_to_coq(parse_lef_error(r["err"])))
    if "panic" in r or "crash" in r:
        return Raw("IPanic")
    raise ValueError("bad RES %r" % (r,))

LEF_HDR = ("From Coq Require Import ZArith List String Bool.\nImport ListNotations.\n"
           "From L21 Require Import Lef.LefDec Lef.LefData Lef.LefLex Lef.LefParse Lef.LefWrite Lef.LefSpec Lef.LefCheck.\n"
           "Open Scope Z_scope.\n")

def unquote_coq_string(s):
    """printed Coq string "..." (with "" for a quote) -> str"""
    s = s.strip()
    assert s[0] == '"' and s[-1] == '"', s[:40]
    return s[1:-1].replace('""', '"')

# ------------------------------------------------------------------ generators
import sys as _sys
_sys.path.insert(0, os.path.join(VERIF, "tools"))
import translate_lef_keys as _tk
ENUMS = dict(_tk.parse(open(_tk.SRC, encoding="utf8").read()))   # enum -> [(Variant, "STRING")]

def H(s):
    return s.encode("utf8").hex()

ANTENNA_KEYS = ["ANTENNADIFFAREA", "ANTENNAGATEAREA", "ANTENNAPARTIALMETALAREA", "ANTENNAPARTIALMETALSIDEAREA",
                "ANTENNAPARTIALCUTAREA", "ANTENNAPARTIALDIFFAREA", "ANTENNAMAXAREACAR", "ANTENNAMAXSIDEAREACAR", "ANTENNAMAXCUTCAR"]
DBU = [100, 200, 400, 800, 1000, 2000, 4000, 8000, 10000, 20000]
NAME_START = "abcxyzABCXYZmQ" + "éßΩж中"
NAME_REST = "abcxyz019_[]<>/.-;#$%&*+=|~!?:,'\"(){}\\^`@" + "éΩ中😀́"
NONALPHA_START = "_$[<(/*+!@%&=|~^{\\:,?'😀"

_FLOAT = re.compile(r"^[+-]?(inf|infinity|nan|(\d+\.?\d*|\.\d+)([eE][+-]?\d+)?)$", re.I)
def is_rust_float(s):
    return bool(_FLOAT.match(s))

def gen_name(rng, kind="plain"):
    """kind: plain (alphabetic first character), numlike (starts with digit . - but is not a number), nonalpha"""
    while True:
        s = _gen_name(rng, kind)
        # a word is lexed as a number only when it starts like one (digit . -): `inf`, `nan`, `infinity` are names
        if not (s[0] in "0123456789.-" and is_rust_float(s)):
            return s

def _gen_name(rng, kind):
    r = rng.random()
    n = rng.choice([1, 1, 2, 3, 5, 8, 13])
    rest = "".join(rng.choice(NAME_REST if rng.random() < 0.35 else "abcdefgh0123456789_") for _ in range(n - 1))
    if kind == "nonalpha":
        return rng.choice(NONALPHA_START) + rest
    if kind == "numlike" or (kind == "mixed" and r < 0.1):
        return rng.choice(["18T", "1a", "-x", ".y", "-", "3.3v", "1e", "1.2.3", "--1", "0x10", "-inf_", "5_", "9é"]) + rest.replace('"', "q")
    if r > 0.97:
        return rng.choice(["inf", "nan", "NaN", "Infinity", "e5", "END", "layer", "Pin"])
    return rng.choice(NAME_START) + rest

STR_BODY = ["", "x", "a b", "hello world", "é中 😀", "# not a comment ;", "a\tb", "MACRO END", "1.5", "line1\nline2", "[]", "a'b"]
def gen_quoted(rng, spaces=True):
    b = rng.choice(STR_BODY)
    if not spaces:
        b = "".join(c for c in b if not c.isspace())
    return '"' + b + '"'

def gen_dec(rng, fam=None):
    fam = fam or rng.choice(["zero", "int", "int", "d1", "d2", "d3", "d6", "neg", "trail0", "big28", "frac28", "small"])
    neg = False
    if fam == "zero":
        m, s = 0, rng.choice([0, 0, 1, 3])
    elif fam == "int":
        m, s = rng.choice([1, 2, 5, 10, 100, 999, 12345, 2 ** 31, 10 ** 9, 2 ** 32, 2 ** 63, 2 ** 64]), 0
    elif fam in ("d1", "d2", "d3", "d6"):
        s = int(fam[1:]); m = rng.randrange(1, 10 ** (s + rng.choice([0, 1, 3])))
    elif fam == "neg":
        s = rng.choice([0, 1, 3]); m = rng.randrange(1, 10 ** (s + 2)); neg = True
    elif fam == "trail0":
        s = rng.choice([2, 3, 6]); m = rng.randrange(1, 1000) * 10 ** rng.randrange(1, s + 1)
    elif fam == "big28":
        s = rng.choice([0, 5, 14]); m = rng.randrange(10 ** 27, 10 ** 28)
    elif fam == "frac28":
        s = 28; m = rng.randrange(1, 10 ** 28)
    else:
        s = rng.choice([4, 9, 20]); m = rng.randrange(1, 100)
    if rng.random() < 0.15 and m != 0:
        neg = True
    return [neg, str(m), s]

def gen_point(rng):
    return {"x": gen_dec(rng), "y": gen_dec(rng)}

def _len(rng, lo=0):
    return max(lo, rng.choice([0, 0, 1, 1, 1, 2, 2, 3]))

class LibGen:
    """Random values of the SCHEMA types inside the supported subset (LefSpec.lib_supportedb)."""
    def __init__(self, rng, old, name_kind="mixed"):
        self.rng = rng; self.old = old; self.name_kind = name_kind
    def name(self):
        return H(gen_name(self.rng, self.name_kind))
    def val(self, t, rec=None, field=None):
        rng = self.rng
        if t == B:
            if (rec, field) in (("lef_pin", "net_expr"), ("lef_extension", "name")):
                return H(gen_quoted(rng))
            if (rec, field) == ("lef_antenna_attr", "key"):
                k = rng.choice(ANTENNA_KEYS)
                return H(rng.choice([k, k.lower(), k.capitalize(), "".join(c.lower() if rng.random() < 0.5 else c for c in k)]))
            if (rec, field) == ("lef_property", "value"):
                r = rng.random()
                return H(gen_quoted(rng) if r < 0.4 else (rng.choice(["1", "1.50", "-0.5", "1e3", "007"]) if r < 0.7 else gen_name(rng, "plain")))
            if (rec, field) == ("lef_extension", "data"):
                toks = []
                for _ in range(_len(rng)):
                    r = rng.random()
                    toks.append(";" if r < 0.15 else gen_quoted(rng, spaces=False) if r < 0.3 else rng.choice(["1.5", "-2", "MACRO", "end", "Layer"]) if r < 0.6 else gen_name(rng, "plain"))
                toks = [x for x in toks if x.upper() != "ENDEXT"]
                return H("".join(x + " " for x in toks))
            return self.name()
        if t == D:
            return gen_dec(rng)
        if t == BOOL:
            return rng.random() < 0.5
        if t == Z:
            return rng.choice(DBU)
        if t == CH:
            return ord(rng.choice("[]<>(){}|/:.!é中#;'\\\U0001F600"))
        k = t[0]
        if k == "opt":
            if (rec, field) == ("lef_layer_geoms", "except_pg_net"):
                return True if rng.random() < 0.4 else None
            if (rec, field) in (("lef_macro", "source"), ("lef_lib", "names_case_sensitive"), ("lef_lib", "no_wire_extension_at_pin")) and not self.old:
                return None
            return self.val(t[1], rec, field) if rng.random() < 0.5 else None
        if k == "list":
            lo = 0
            return [self.val(t[1], rec, field) for _ in range(_len(rng, lo))]
        if k == "pair":
            return [self.val(t[1], rec, field), self.val(t[2], rec, field)]
        if k == "enum":
            return rng.choice(ENUMS[t[1]])[0]
        if k == "rec":
            _, _, fields = SCH[t[1]]
            v = {fn: self.val(ft, t[1], fn) for fn, ft in fields}
            if t[1] == "lef_foreign" and v["pt"] is None:
                v["orient"] = None
            return v
        if k == "var":
            _, _, ctors = SCH[t[1]]
            cn, ats = rng.choice(ctors)
            args = [self.val(a, t[1], cn) for a in ats]
            if t[1] in ("lef_shape", "lef_via_shape") and cn in ("Polygon", "Path"):
                need = 3 if cn == "Polygon" else 2
                while len(args[1]) < need:
                    args[1].append(gen_point(rng))
                # point lists with structure a reader or writer might be tempted to "normalise": explicitly closed
                # (last point repeats the first), a repeated interior point, all points equal
                r = rng.random()
                if r < 0.15:
                    args[1].append(dict(args[1][0]))
                elif r < 0.22:
                    k = rng.randrange(len(args[1]))
                    args[1].insert(k, dict(args[1][k]))
                elif r < 0.25:
                    args[1] = [dict(args[1][0]) for _ in args[1]]
            if t[1] == "lef_propdef" and cn == "LefString" and args[2] is not None:
                args[2] = H(gen_quoted(rng))
            return {"v": cn, "a": args}
        raise ValueError(t)

def gen_version(rng, v):
    """v in 53..58 or None"""
    if v is None:
        return None
    return rng.choice([[False, str(v), 1], [False, str(v), 1], [False, str(v * 10), 2]])

def gen_lib(rng, ver, name_kind="mixed"):
    old = ver is not None and ver <= 54
    g = LibGen(rng, old, name_kind)
    lib = g.val(R("lef_lib"))
    lib["version"] = gen_version(rng, ver)
    return lib

def minimal_lib(ver=None):
    lib = {fn: ([] if ft[0] == "list" else False if ft == BOOL else None) for fn, ft in SCH["lef_lib"][2]}
    lib["version"] = None if ver is None else [False, str(ver), 1]
    return lib

class Rich:
    """Deterministic library with EVERY option set, every constructor and every enum value somewhere, decimals and names all
    different (so a value that lands in the wrong field, or two statements that are merged, show).  `name_fn(k)` gives the
    k-th identifier; `width` = number of items in lists of records (lists of variants hold one item per constructor, lists
    of enum values every value)."""
    WIDE = {("lef_lib", "macros"): 2, ("lef_lib", "vias"): 2, ("lef_macro", "pins"): 2, ("lef_pin", "ports"): 2, ("lef_macro", "obs"): 2,
            ("lef_macro", "density"): 2, ("lef_density_geoms", "geometries"): 2, ("lef_fixed_via", "layers"): 2, ("lef_lib", "extensions"): 2}
    def __init__(self, old, name_fn=None, width=1, wide=None, lean=False):
        self.old = old; self.k = 0; self.nk = 0; self.cyc = {}; self.width = width; self.lean = lean
        self.name_fn = name_fn or (lambda k: "n%d" % k)
        self.wide = self.WIDE if wide is None else wide
    def _next(self, key, n):
        i = self.cyc.get(key, 0); self.cyc[key] = i + 1
        return i % n
    def dec(self):
        self.k += 1; k = self.k
        return [k % 5 == 0, str(7 * k + 1), k % 4]
    def name(self):
        self.nk += 1
        return H(self.name_fn(self.nk))
    def val(self, t, rec=None, field=None):
        if t == B:
            if (rec, field) in (("lef_pin", "net_expr"), ("lef_extension", "name")):
                return H('"%s %d"' % (field, self._next("q", 1000)))
            if (rec, field) == ("lef_antenna_attr", "key"):
                i = self._next("ak", len(ANTENNA_KEYS))
                return H(ANTENNA_KEYS[i] if i % 2 else ANTENNA_KEYS[i].lower())
            if (rec, field) == ("lef_property", "value"):
                i = self._next("pv", 3)
                return H(['"v %d"' % self.k, "-1.50", "val"][i])
            if (rec, field) == ("lef_extension", "data"):
                return H('x 1.5 ; "q" MACRO end ')
            return self.name()
        if t == D:
            return self.dec()
        if t == BOOL:
            return True
        if t == Z:
            return DBU[self._next("dbu", len(DBU))]
        if t == CH:
            return ord("[]/<>|"[self._next("ch", 6)])
        k = t[0]
        if k == "opt":
            if (rec, field) in (("lef_macro", "source"), ("lef_lib", "names_case_sensitive"), ("lef_lib", "no_wire_extension_at_pin")) and not self.old:
                return None
            return self.val(t[1], rec, field)
        if k == "list":
            et = t[1]
            if self.lean and et[0] in ("enum", "var"):
                return [self.val(et, rec, field)]
            if et[0] == "enum":
                return [v for v, _ in ENUMS[et[1]]]
            if et[0] == "var":
                return [self.ctor(et[1], cn, ats) for cn, ats in SCH[et[1]][2]]
            n = self.wide.get((rec, field), self.width) if et[0] == "rec" else self.width
            if et == R("lef_antenna_attr") and not self.lean:
                n = len(ANTENNA_KEYS)
            if et == R("lef_property") and not self.lean:
                n = 3
            return [self.val(et, rec, field) for _ in range(n)]
        if k == "pair":
            return [self.val(t[1], rec, field), self.val(t[2], rec, field)]
        if k == "enum":
            vs = ENUMS[t[1]]
            return vs[self._next("e:" + t[1], len(vs))][0]
        if k == "rec":
            return {fn: self.val(ft, t[1], fn) for fn, ft in SCH[t[1]][2]}
        if k == "var":
            ctors = SCH[t[1]][2]
            cn, ats = ctors[self._next("v:" + t[1], len(ctors))]
            return self.ctor(t[1], cn, ats)
        raise ValueError(t)
    def ctor(self, vn, cn, ats):
        args = [self.val(a, vn, cn) for a in ats]
        if vn in ("lef_shape", "lef_via_shape") and cn in ("Polygon", "Path"):
            args[1] = [{"x": self.dec(), "y": self.dec()} for _ in range(3 if cn == "Polygon" else 2)]
        if vn == "lef_propdef" and cn == "LefString":
            args[2] = H('"s %d"' % self.k)
        return {"v": cn, "a": args}

def rich_lib(ver=None, name_fn=None, width=1, wide=None, lean=False):
    """ver: None or 50..58 (tenths); lean: one item per list (the identifier positions are all still there)"""
    old = ver is not None and ver <= 54
    lib = Rich(old, name_fn, width, wide, lean).val(R("lef_lib"))
    lib["version"] = None if ver is None else [False, str(ver), 1]
    return lib

def walk(t, v, path, out):
    """collect coverage facts: fields set / enum variants / list lengths"""
    if v is None:
        return
    k = t[0] if isinstance(t, tuple) else t
    if k == "opt":
        out.add(path + "=Some"); walk(t[1], v, path, out)
    elif k == "list":
        out.add("%s#%d" % (path, min(len(v), 3)))
        for x in v:
            walk(t[1], x, path, out)
    elif k == "pair":
        walk(t[1], v[0], path, out); walk(t[2], v[1], path, out)
    elif k == "enum":
        out.add("%s:%s" % (t[1], v))
    elif k == "rec":
        for fn, ft in SCH[t[1]][2]:
            walk(ft, v[fn], t[1] + "." + fn, out)
    elif k == "var":
        out.add("%s:%s" % (t[1], v["v"]))
        for cn, ats in SCH[t[1]][2]:
            if cn == v["v"]:
                for a, x in zip(ats, v["a"]):
                    walk(a, x, t[1] + "." + cn, out)
    elif k == "bool":
        out.add("%s=%s" % (path, v))

def lib_coverage(lib):
    out = set()
    walk(R("lef_lib"), lib, "lef_lib", out)
    return out

# ---- styles
WS = [32, 32, 32, 9, 10, 10, 13, 32, 9, 10, 11, 12]     # the ASCII white-space characters (C isspace): blank, TAB, LF, CR, VT, FF
COMMENTS = ["", " plain comment", "é中😀 non-ascii ́", " MACRO x ; END", "#\"quote", " \u0085  spaces", " crlf file\r"]
def gen_sep_items(rng, first_ws=True, lo=1):
    n = max(lo, rng.choice([1, 1, 1, 2, 3, 4]))
    items = []
    for i in range(n):
        if (i == 0 and first_ws) or rng.random() < 0.7:
            items.append("SWs %d" % rng.choice(WS))
        else:
            items.append("SComment %s" % cbytes(H(rng.choice(COMMENTS))))
    return items

def sep_list(items):
    return "[" + "; ".join("(" + i + ")" if " " in i else i for i in items) + "]"

def gen_style(rng, lib, plain=False):
    """returns the Coq term of a style that is style_ok for lib"""
    ver = lib["version"]
    v10 = None if ver is None else int(ver[1]) * 10 // 10 ** ver[2]     # 5.x -> 5x
    may_skip_end = ver is None or v10 >= 56
    if plain:
        return Raw("(mkstyle [] [[SWs 32]] [SWs 10] None [] [] [] false true)")
    lead = gen_sep_items(rng, first_ws=False, lo=0) if rng.random() < 0.5 else []
    seps = [gen_sep_items(rng) for _ in range(rng.choice([1, 3, 5, 7]))]
    trail = gen_sep_items(rng) if rng.random() < 0.7 else []
    tc = cbytes(H(rng.choice(COMMENTS))) if (trail and rng.random() < 0.3) else None
    cases = rng.choice([[[]], [[True]], [[True, False]], [[False, True, True]], [[], [True], [False, True]],
                        [[rng.random() < 0.5 for _ in range(rng.randrange(1, 6))] for _ in range(rng.randrange(1, 5))]])
    nums = [(rng.choice([0, 0, 1, 2]), rng.random() < 0.4, rng.choice([0, 0, 1, 2, 3]), rng.random() < 0.3) for _ in range(rng.choice([1, 2, 3, 5]))]
    keys = [rng.randrange(0, 6) for _ in range(rng.choice([1, 5, 7, 11, 13]))]
    return Raw("(mkstyle %s [%s] %s %s [%s] [%s] [%s] %s %s)" % (
        sep_list(lead), "; ".join(sep_list(s) for s in seps), sep_list(trail), "None" if tc is None else "(Some %s)" % tc,
        "; ".join("[" + "; ".join("true" if b else "false" for b in m) + "]" for m in cases),
        "; ".join("mknumsp %d %s %d %s" % (a, "true" if b else "false", c, "true" if d else "false") for a, b, c, d in nums),
        "; ".join("%d%%nat" % k for k in keys),
        "true" if rng.random() < 0.5 else "false",
        "true" if (not may_skip_end or rng.random() < 0.5) else "false"))

def render_cases(chk, pairs, tag):
    """pairs: list of (style term, lib value) -> list of rendered texts (bytes), evaluated in Coq"""
    items = ["(hex (render %s %s))" % (s, lib_to_coq(l)) for s, l in pairs]
    outs = coq_eval_lists(LEF_HDR, items, chk.rundir, tag, shard=40)
    return [bytes.fromhex(unquote_coq_string(o.replace("%string", ""))) for o in outs]

# ---- hand-written corpus (valid texts; the first ones are the snippets of lef21/src/tests.rs)
CORPUS_DIR = os.path.join(os.path.dirname(os.path.abspath(__file__)), "lef_corpus")
def corpus():
    out = []
    for fn in sorted(os.listdir(CORPUS_DIR)):
        if fn.endswith(".lef"):
            out.append((fn, open(os.path.join(CORPUS_DIR, fn), "rb").read()))
    return out

def _fn_body(src, name):
    """text of `fn name(` up to the next `\n    fn ` / `\n    pub fn ` at method indentation (good enough for the markers below)"""
    i = src.find("fn %s(" % name)
    if i < 0:
        return None
    m = re.search(r"\n    (?:pub(?:\([a-z]+\))? )?fn ", src[i + 3:])
    return src[i:i + 3 + m.start()] if m else src[i:]

def model_cfg():
    try:
        return _model_cfg()
    except RuntimeError as e:
        # the tie between the flagged model and the source is broken: the model no longer knows which code it stands for.
        # cfg_fixed is used so that the run still compares something; the caller reports the broken tie.
        MODEL_CFG_PROBLEMS.append(str(e))
        return "cfg_fixed"

MODEL_CFG_PROBLEMS = []
def _model_cfg():
    """Which code the model stands for.  The Coq model of the LEF reader/writer carries one boolean per defect that was
    found in the pinned tree (Lef/LefParse.v, Record cfg); each flag is RE-READ FROM THE SOURCE on every run, so the model
    follows the tree: a flag is `true` (defective behaviour) when the source still has the defective form.  Where the source
    has neither the defective nor the repaired form the reader of the flags gives up (None -> the check reports a broken tie).
    VERIF_LEF_CFG=cfg_fixed|cfg_orig|"(mkcfg ...)" overrides (experiments only)."""
    c = os.environ.get("VERIF_LEF_CFG")
    if c:
        assert c in ("cfg_fixed", "cfg_orig") or c.startswith("(mkcfg ")
        return c
    from vlib import REPO
    rd = open(os.path.join(REPO, "lef21/src/read.rs")).read()
    wr = open(os.path.join(REPO, "lef21/src/write.rs")).read()
    da = open(os.path.join(REPO, "lef21/src/data.rs")).read()
    flags = []
    def flag(defective, repaired, what):
        if defective and not repaired:
            flags.append("true")
        elif repaired and not defective:
            flags.append("false")
        else:
            raise RuntimeError("cannot tell which LEF code the tree has for: " + what)
    nc = _fn_body(rd, "next_char") or ""
    flag("self.pos += 1" in nc, "len_utf8()" in nc, "LefLexer::next_char position unit")
    pm, pp = _fn_body(rd, "parse_macro") or "", _fn_body(rd, "parse_pin") or ""
    nprop = (".properties(properties)" in pm) + (".properties(properties)" in pp)
    flag(nprop == 0, nprop == 2, "parse_macro/parse_pin hand properties to the builder")
    pl = _fn_body(rd, "parse_point_list") or ""
    flag("while !self.matches(TokenType::SemiColon)" in pl, "while self.matches(TokenType::Number)" in pl, "parse_point_list terminator")
    tn = _fn_body(da, "try_new") or ""
    flag("contains(&x.mantissa())" in tn, "trunc().mantissa()" in tn, "LefDbuPerMicron::try_new integer value")
    m = re.search(r"LefKey::NoWireExtensionAtPin => \{(.*?)self\.advance\(\)", rd, re.S)
    gate = m.group(1) if m else ""
    flag(m is not None and "lef_version" not in gate, m is not None and "lef_version > *V5P4" in gate, "NOWIREEXTENSIONATPIN version gate in the reader")
    ws = _fn_body(wr, "write_site") or ""
    flag('{Site} {site.name} ; "' in ws and '{site.class};"' in ws, '{Site} {site.name} "' in ws and '{site.class} ;"' in ws and '{End} {site.name} "' in ws, "write_site punctuation")
    wp = _fn_body(wr, "write_property") or ""
    flag('"{Property} {} {}"' in wp, '"{Property} {} {} ;"' in wp, "write_property terminator")
    pl2 = _fn_body(rd, "parse_lib") or ""
    flag("LefKey::Version => lib.version(self.parse_version()?)" in pl2, "has_version = true" in pl2 and "may appear only once" in pl2, "repeated VERSION statement in the reader")
    return "(mkcfg %s)" % " ".join(flags)
