"""Shared glue for the LEF family (C04, C05, C11).

* SCHEMA: the shape of coq/Lef/LefData.v (records / variants / enums), used to turn Python values
  (the JSON printed by harness/src/bin/c04.rs, or generated libraries) into Coq terms.
* parsing of the `Debug` text of `LefError` into the model's `lef_err` terms.
* generators: decimals, names, libraries (every field of every record), number spellings, styles.
Python values: records are dicts keyed by the Rust field name, variants are {"v": Ctor, "a": [args]},
enums are the Rust variant name, options are None / value, strings are hex of UTF-8 bytes (as printed by
the harness), decimals are [neg, "mantissa", scale], chars are scalar values."""
import json, os, re
from vlib import *

# ------------------------------------------------------------------ schema
# type expressions
B, D, BOOL, Z, CH = "bytes", "dec", "bool", "Z", "char"
def O(t): return ("opt", t)
def L(t): return ("list", t)
def PR(a, b): return ("pair", a, b)
def E(n): return ("enum", n)
def R(n): return ("rec", n)
def VR(n): return ("var", n)

ENUM_NAMES = ["LefOnOff", "LefClearanceStyle", "LefDefSource", "LefSymmetry", "LefOrient", "LefPinUse", "LefPinShape",
              "LefMacroClassName", "LefPadClassType", "LefEndCapClassType", "LefBlockClassType", "LefCoreClassType",
              "LefPortClass", "LefSiteClass", "LefAntennaModel", "LefPropertyDefinitionObjectType"]

# name -> (kind, coq field prefix, fields)   in dependency order
SCHEMA = [
 ("lef_point", "rec", "pt_", [("x", D), ("y", D)]),
 ("lef_shape", "var", "Sh", [("Rect", [O(D), R("lef_point"), R("lef_point")]),
                             ("Polygon", [O(D), L(R("lef_point"))]),
                             ("Path", [O(D), L(R("lef_point"))])]),
 ("lef_step", "rec", "st_", [("numx", D), ("numy", D), ("spacex", D), ("spacey", D)]),
 ("lef_geometry", "var", "G", [("Shape", [VR("lef_shape")]), ("Iterate", [VR("lef_shape"), R("lef_step")])]),
 ("lef_via_inst", "rec", "vi_", [("via_name", B), ("pt", R("lef_point"))]),
 ("lef_layer_spacing", "var", "Ls", [("Spacing", [D]), ("DesignRuleWidth", [D])]),
 ("lef_layer_geoms", "rec", "lg_", [("layer_name", B), ("geometries", L(VR("lef_geometry"))), ("vias", L(R("lef_via_inst"))),
                                    ("except_pg_net", O(BOOL)), ("spacing", O(VR("lef_layer_spacing"))), ("width", O(D))]),
 ("lef_port", "rec", "po_", [("class", O(E("LefPortClass"))), ("layers", L(R("lef_layer_geoms")))]),
 ("lef_pin_direction", "var", "Dir", [("Input", []), ("Output", [BOOL]), ("Inout", []), ("FeedThru", [])]),
 ("lef_antenna_attr", "rec", "aa_", [("key", B), ("val", D), ("layer", O(B))]),
 ("lef_property", "rec", "pr_", [("name", B), ("value", B)]),
 ("lef_pin", "rec", "pin_", [("name", B), ("ports", L(R("lef_port"))), ("direction", O(VR("lef_pin_direction"))),
                             ("use_", O(E("LefPinUse"))), ("shape", O(E("LefPinShape"))), ("antenna_model", O(E("LefAntennaModel"))),
                             ("antenna_attrs", L(R("lef_antenna_attr"))), ("taper_rule", O(B)), ("supply_sensitivity", O(B)),
                             ("ground_sensitivity", O(B)), ("must_join", O(B)), ("net_expr", O(B)),
                             ("properties", L(R("lef_property")))]),
 ("lef_macro_class", "var", "Mc", [("Cover", [BOOL]), ("Ring", []), ("Block", [O(E("LefBlockClassType"))]),
                                   ("Pad", [O(E("LefPadClassType"))]), ("Core", [O(E("LefCoreClassType"))]),
                                   ("EndCap", [E("LefEndCapClassType")])]),
 ("lef_foreign", "rec", "fo_", [("cell_name", B), ("pt", O(R("lef_point"))), ("orient", O(E("LefOrient")))]),
 ("lef_density_rect", "rec", "dr_", [("pt1", R("lef_point")), ("pt2", R("lef_point")), ("density_value", D)]),
 ("lef_density_geoms", "rec", "dg_", [("layer_name", B), ("geometries", L(R("lef_density_rect")))]),
 ("lef_macro", "rec", "mac_", [("name", B), ("pins", L(R("lef_pin"))), ("obs", L(R("lef_layer_geoms"))),
                               ("class", O(VR("lef_macro_class"))), ("foreign", O(R("lef_foreign"))), ("origin", O(R("lef_point"))),
                               ("size", O(PR(D, D))), ("symmetry", O(L(E("LefSymmetry")))), ("site", O(B)),
                               ("source", O(E("LefDefSource"))), ("eeq", O(B)), ("fixed_mask", BOOL),
                               ("properties", L(R("lef_property"))), ("density", O(L(R("lef_density_geoms"))))]),
 ("lef_via_shape", "var", "Vs", [("Rect", [O(D), R("lef_point"), R("lef_point")]), ("Polygon", [O(D), L(R("lef_point"))])]),
 ("lef_via_layer_geoms", "rec", "vl_", [("layer_name", B), ("shapes", L(VR("lef_via_shape")))]),
 ("lef_fixed_via", "rec", "fv_", [("resistance_ohms", O(D)), ("layers", L(R("lef_via_layer_geoms")))]),
 ("lef_rowcol", "rec", "rc_", [("rows", D), ("cols", D)]),
 ("lef_offset", "rec", "of_", [("bot_x", D), ("bot_y", D), ("top_x", D), ("top_y", D)]),
 ("lef_gen_via", "rec", "gv_", [("via_rule_name", B), ("cut_size_x", D), ("cut_size_y", D), ("bot_metal_layer", B), ("cut_layer", B),
                                ("top_metal_layer", B), ("cut_spacing_x", D), ("cut_spacing_y", D), ("bot_enc_x", D), ("bot_enc_y", D),
                                ("top_enc_x", D), ("top_enc_y", D), ("rowcol", O(R("lef_rowcol"))), ("origin", O(R("lef_point"))),
                                ("offset", O(R("lef_offset")))]),
 ("lef_via_data", "var", "Vd", [("Fixed", [R("lef_fixed_via")]), ("Generated", [R("lef_gen_via")])]),
 ("lef_via_def", "rec", "vd_", [("name", B), ("default", BOOL), ("data", VR("lef_via_data"))]),
 ("lef_site", "rec", "site_", [("name", B), ("class", E("LefSiteClass")), ("size", PR(D, D)), ("symmetry", O(L(E("LefSymmetry"))))]),
 ("lef_units", "rec", "u_", [("database_microns", O(Z)), ("time_ns", O(D)), ("capacitance_pf", O(D)), ("resistance_ohms", O(D)),
                             ("power_mw", O(D)), ("current_ma", O(D)), ("voltage_volts", O(D)), ("frequency_mhz", O(D))]),
 ("lef_propdef", "var", "Pd", [("LefString", [E("LefPropertyDefinitionObjectType"), B, O(B)]),
                               ("LefReal", [E("LefPropertyDefinitionObjectType"), B, O(D), O(PR(D, D))]),
                               ("LefInteger", [E("LefPropertyDefinitionObjectType"), B, O(D), O(PR(D, D))])]),
 ("lef_extension", "rec", "ext_", [("name", B), ("data", B)]),
 ("lef_lib", "rec", "lib_", [("macros", L(R("lef_macro"))), ("sites", L(R("lef_site"))), ("vias", L(R("lef_via_def"))),
                             ("version", O(D)), ("names_case_sensitive", O(E("LefOnOff"))), ("no_wire_extension_at_pin", O(E("LefOnOff"))),
                             ("bus_bit_chars", O(PR(CH, CH))), ("divider_char", O(CH)), ("units", O(R("lef_units"))),
                             ("fixed_mask", BOOL), ("clearance_measure", O(E("LefClearanceStyle"))),
                             ("extensions", L(R("lef_extension"))), ("manufacturing_grid", O(D)), ("use_min_spacing", O(E("LefOnOff"))),
                             ("property_definitions", L(VR("lef_propdef")))]),
]
SCH = {n: (k, p, f) for n, k, p, f in SCHEMA}

def cbytes(h):
    """hex string -> Coq bytes term"""
    return Raw('(unhex "%s")' % h)

def cdec(d):
    neg, mant, scale = d
    return Raw("(mkdec %s (%s)%%Z (%d)%%Z)" % ("true" if neg else "false", str(mant), scale))

def to_coq(t, v):
    """Python value of schema type t -> Coq term (Raw)"""
    if t == B:
        return cbytes(v)
    if t == D:
        return cdec(v)
    if t == BOOL:
        return cbool(v)
    if t in (Z, CH):
        return cz(v)
    k = t[0]
    if k == "opt":
        return Raw("None") if v is None else Raw("(Some %s)" % to_coq(t[1], v))
    if k == "list":
        return Raw("[" + "; ".join(to_coq(t[1], x) for x in v) + "]")
    if k == "pair":
        return Raw("(%s, %s)" % (to_coq(t[1], v[0]), to_coq(t[2], v[1])))
    if k == "enum":
        return Raw("%s_%s" % (t[1], v))
    if k == "rec":
        _, pre, fields = SCH[t[1]]
        return Raw("(Build_%s %s)" % (t[1], " ".join(to_coq(ft, v[fn]) for fn, ft in fields)))
    if k == "var":
        _, pre, ctors = SCH[t[1]]
        for cn, ats in ctors:
            if cn == v["v"]:
                if not ats:
                    return Raw(pre + cn)
                return Raw("(%s%s %s)" % (pre, cn, " ".join(to_coq(at, a) for at, a in zip(ats, v["a"]))))
        raise ValueError("bad variant %r for %s" % (v, t[1]))
    raise ValueError("bad type %r" % (t,))

def lib_to_coq(lib):
    return to_coq(R("lef_lib"), lib)

# ------------------------------------------------------------------ LefError Debug text -> lef_err term
def _unescape(s):
    """Rust `str::escape_debug` text (between the quotes) -> str"""
    out = []
    i = 0
    while i < len(s):
        c = s[i]
        if c != "\\":
            out.append(c); i += 1; continue
        n = s[i + 1]
        if n == "u":
            j = s.index("}", i)
            out.append(chr(int(s[i + 3:j], 16))); i = j + 1; continue
        out.append({"n": "\n", "t": "\t", "r": "\r", "0": "\0", "\\": "\\", '"': '"', "'": "'"}[n]); i += 2
    return "".join(out)

def _take_str(s, i):
    """s[i] == '"': returns (unescaped string, index after the closing quote)"""
    assert s[i] == '"', s[i:i + 20]
    j = i + 1
    while s[j] != '"':
        j += 2 if s[j] == "\\" else 1
    return _unescape(s[i + 1:j]), j + 1

TT = {"Name": "TName", "Number": "TNumber", "SemiColon": "TSemi", "StringLiteral": "TString"}

def parse_lef_error(e):
    """Debug text of lef21::LefError -> dict. Raises ValueError if the text has an unknown shape."""
    if e.startswith("Lex {"):
        m = re.match(r"Lex \{ next_char: (None|Some\('((?:\\.|\\u\{[0-9a-f]+\}|[^\\])+?)'\)), line: (\d+), pos: (\d+) \}$", e, re.S)
        if not m:
            raise ValueError("bad Lex error text: %r" % e)
        ch = None if m.group(1) == "None" else ord(_unescape(m.group(2)))
        return {"k": "lex", "ch": ch, "line": int(m.group(3)), "pos": int(m.group(4))}
    if e.startswith("Parse {"):
        m = re.match(r"Parse \{ msg: (None|Some\()", e)
        i = m.end()
        msg = None
        if m.group(1) != "None":
            msg, i = _take_str(e, i)
            assert e[i] == ")"; i += 1
        m = re.match(r", tp: (Unsupported|InvalidKey|InvalidValue|Other|InvalidToken \{ expected: (\w+) \}|RequiredWord \{ expected: )", e[i:])
        if not m:
            raise ValueError("bad Parse error text (tp): %r" % e)
        i += m.end()
        tp = m.group(1)
        if tp.startswith("InvalidToken"):
            tpv = ("InvalidToken", m.group(2))
        elif tp.startswith("RequiredWord"):
            w, i = _take_str(e, i)
            assert e[i:i + 2] == " }"; i += 2
            tpv = ("RequiredWord", w)
        else:
            tpv = (tp, None)
        m = re.match(r", state: ParserState \{ ctx: \[([A-Za-z, ]*)\], token: ", e[i:])
        if not m:
            raise ValueError("bad Parse error text (state): %r" % e)
        ctx = [c.strip() for c in m.group(1).split(",") if c.strip()]
        i += m.end()
        tok, i = _take_str(e, i)
        assert e[i:i + 16] == ", line_content: ", e[i:i + 30]
        lc, i = _take_str(e, i + 16)
        m = re.match(r", line_num: (\d+), pos: (\d+) \} \}$", e[i:])
        if not m:
            raise ValueError("bad Parse error text (tail): %r" % e)
        return {"k": "parse", "msg": msg, "tp": tpv, "ctx": ctx, "token": tok, "line_content": lc,
                "line": int(m.group(1)), "pos": int(m.group(2))}
    if e.startswith("Boxed("):
        return {"k": "boxed", "text": e}
    if e.startswith("Str("):
        s, _ = _take_str(e, 4)
        return {"k": "str", "text": s}
    raise ValueError("unknown LefError text: %r" % e)

MSGS = {
    None: "MsgNone",
    "The LEF NAMESCASESENSITIVE option is invalid for LEF versions > 5.4": "MsgNamesCase",
    "The Lef MACRO's SOURCE field is invalid for LEF versions > 5.4": "MsgSource",
    "Unexpected token while parsing PROPERTY, must be string/number/name": "MsgProperty",
}

def err_to_coq(e):
    """dict from parse_lef_error -> Coq term of type lef_err"""
    if e["k"] == "lex":
        return Raw("(ELex %s %s %s)" % (copt(None if e["ch"] is None else cz(e["ch"])), cz(e["line"]), cz(e["pos"])))
    if e["k"] == "parse":
        tp, arg = e["tp"]
        if tp == "InvalidToken":
            tpt = "(EtInvalidToken %s)" % TT[arg]
        elif tp == "RequiredWord":
            tpt = "(EtRequiredWord %s)" % cbytes(arg.encode().hex())
        else:
            tpt = "Et" + tp
        if e["msg"] not in MSGS:
            raise ValueError("unknown parse message %r" % e["msg"])
        return Raw("(EParse %s %s %s %s %s %s %s)" % (
            tpt, MSGS[e["msg"]], clist([Raw("Ctx" + c) for c in e["ctx"]]), cbytes(e["token"].encode().hex()),
            cbytes(e["line_content"].encode().hex()), cz(e["line"]), cz(e["pos"])))
    if e["k"] == "boxed":
        return Raw("EDecimal")
    if e["k"] == "str":
        return Raw("(EStr %s)" % cbytes(e["text"].encode().hex()))
    raise ValueError(e)

def res_to_coq(r):
    """harness RES -> Coq term of type (impl_res lef_lib): IOk lib | IErr e | IPanic"""
    if r is None:
        return Raw("INone")
    if "ok" in r:
        if r["ok"].get("unsupported_set"):
            return Raw("IWeird")
        return Raw("(IOk %s)" % lib_to_coq(r["ok"]))
    if "err" in r:
        return Raw("(IErr %s)" % err_to_coq(parse_lef_error(r["err"])))
    if "panic" in r or "crash" in r:
        return Raw("IPanic")
    raise ValueError("bad RES %r" % (r,))

LEF_HDR = ("From Coq Require Import ZArith List String Bool.\nImport ListNotations.\n"
           "From L21 Require Import Lef.LefDec Lef.LefData Lef.LefLex Lef.LefParse Lef.LefWrite Lef.LefSpec Lef.LefCheck.\n"
           "Open Scope Z_scope.\n")

def unquote_coq_string(s):
    """printed Coq string "..." (with "" for a quote) -> str"""
    s = s.strip()
    assert s[0] == '"' and s[-1] == '"', s[:40]
    return s[1:-1].replace('""', '"')
