"""Kernel ties (tie (a) of DESIGN.md 2.3 for the small arithmetic functions): shared by the checks whose models
contain hand-written transcriptions of functions that tools/translate_rust_kernels.py also translates mechanically.

kernel_tie_leg(chk, family) regenerates coq/Gen/KernelsGen.v from the repository in use, rebuilds the family's
tie-proof file (generated definition = hand-written model function, one lemma `tie_<fn>` per function, restated
as `Ktie_<fn>` in Properties/Kernels.v) and reports a broken obligation BY NAME when it no longer holds:

    KERNEL-TIE-BROKEN: property=C12 obligation=Ktie_matvec ...

on stdout, the same text in chk.broken (so the run ends in VIOLATION ... no-failing-input-found when the correspondence
finds no failing input) and in the evidence (coverage.kernel_ties)."""
import os, re, sys
from vlib import *

FAMILIES = {
    # family -> (tie-proof file, module, statements file, what it covers)
    "transform": ("Geom/KernelsTie_proofs.v", "Geom.KernelsTie_proofs", "Properties/Kernels.v",
                  "layout21raw/src/geom.rs: matmul, matvec, Transform::{identity, translate, rotate, reflect_vert, from_instance, cascade}, "
                  "Point::transform, Rect::transform, sin_cos_degrees = Geom/Transform.v at the ring level and at the float level"),
    "contains": ("Geom/KernelsTieContains_proofs.v", "Geom.KernelsTieContains_proofs", "Properties/Kernels.v",
                 "layout21raw/src/geom.rs, bbox.rs: Rect::contains, Path::contains, Polygon::contains (loops included), BoundBox::{empty, contains, union}, "
                 "Vec<Point>::bbox = Geom/Contains.v over Z with range checks"),
    "gds": ("Gds/KernelsTieGds_proofs.v", "Gds.KernelsTieGds_proofs", "Properties/KernelsGds.v",
            "gds21/src/data.rs: GdsFloat64::decode = the fields gds_sign / gds_exp7 / gds_mant and the float expression of Gds/GdsReal.v"),
    "raw": ("Raw/KernelsTieRaw_proofs.v", "Raw.KernelsTieRaw_proofs", "Properties/KernelsRaw.v",
            "layout21raw/src/geom.rs, bbox.rs: Rect::center, BoundBox::center, Vec<Point>::bbox = rect_center / bbox_center of Raw/RawGdsExport.v"),
    # second part of the subset (match, `?`, Result, enums, external functions): coq/Base/KernelOpsX.v, Gen/KernelsTetrisGen.v, Gen/KernelsRaw2Gen.v
    "tetris_stack": ("Tetris/KernelsTieTetris_proofs.v", "Tetris.KernelsTieTetris_proofs", "Properties/KernelsTetris.v",
                     "layout21tetris/src/validate.rs, stack.rs, coords.rs: ValidMetalLayer::{track_start_width, center, span, track_index}, ValidStack::metal, "
                     "LibValidator::{validate_track_ref, validate_track_cross}, MetalLayer::{entries, pitch, to_layer_period_data} (and the DbUnits operators they go through) "
                     "= track_start_width / center / span fixed, track_index, metal_at, validate_track_ref / _cross (Tetris/Compile.v), entries, pitch, to_layer_period_data (Tetris/Stack.v)"),
    "tetris_tracks": ("Tetris/KernelsTieTracks_proofs.v", "Tetris.KernelsTieTracks_proofs", "Properties/KernelsTetris.v",
                      "layout21tetris/src/tracks.rs: Track::cut_or_block (bounds check, position, type match, overlap check, `&mut` write-back, insert loop) = cut_or_block of Tetris/Tracks.v"),
    "tetris_place": ("Tetris/KernelsTiePlace_proofs.v", "Tetris.KernelsTiePlace_proofs", "Properties/KernelsTetris.v",
                     "layout21tetris/src/instance.rs, placer.rs, bbox.rs, coords.rs, placement.rs: Instance::boundbox, Placer::resolve_instance_place (the whole match over "
                     "side / align / reflection / separation), impl Add/Sub for PrimPitches, Place::abs = inst_boundbox, target_boundbox ;; resolve (Tetris/Placer.v)"),
    "raw_lef": ("Raw/KernelsTieRawLef_proofs.v", "Raw.KernelsTieRawLef_proofs", "Properties/KernelsRaw2.v",
                "layout21raw/src/lef.rs: LefImporter::import_dist, import_point = import_dist / import_point of Raw/RawLef.v (decimal operations external)"),
    "raw_proto": ("Raw/KernelsTieRaw2_proofs.v", "Raw.KernelsTieRaw2_proofs", "Properties/KernelsRaw2.v",
                  "layout21raw/src/proto.rs: ProtoExporter::export_point, export_rect, ProtoImporter::import_point, import_rect = export_point / export_rect / import_point / import_rect of Raw/RawProto.v"),
    "raw_gds": ("Raw/KernelsTieRawGds_proofs.v", "Raw.KernelsTieRawGds_proofs", "Properties/KernelsRaw2.v",
                "layout21raw/src/gds.rs: GdsImporter::import_boundary (closure test, pop, the two rectangle patterns, Rect / Polygon) = import_boundary of Raw/RawGds.v"),
    # third part of the subset (HashSet / HashMap as abstract finite sets / maps, `&mut` parameters, open recursion): coq/Base/KernelOpsS.v
    "order_generic": ("Order/KernelsTieOrder_proofs.v", "Order.KernelsTieOrder_proofs", "Properties/KernelsOrder.v",
                      "layout21utils/src/dep_order.rs: DepOrderer::push (seen test, pending test + P::fail(), pending.insert, P::process(item, self)?, pending.remove test, seen.insert, "
                      "stack.push) and DepOrderer::order = push / order_pending of Order/DepOrder.v: the body for any `process`, one step (model at fuel f -> model at fuel S f), and the whole "
                      "function iterated on the model's fuel"),
    "order_raw": ("Order/KernelsTieOrderRaw_proofs.v", "Order.KernelsTieOrderRaw_proofs", "Properties/KernelsOrder.v",
                  "layout21raw/src/data.rs DepOrder::push / order, layout21raw/src/gds.rs GdsDepOrder::get / push / order (name map built by the first loop, SREF / AREF elements, lookup "
                  "that can fail) = cpush / order_checked of Order/DepOrderFixed.v, one step of the recursion per theorem (the recursive call is an argument of the generated body)"),
    "order_tetris": ("Tetris/KernelsTieOrderTetris_proofs.v", "Tetris.KernelsTieOrderTetris_proofs", "Properties/KernelsOrderTetris.v",
                     "layout21tetris/src/library.rs DepOrder::push / order = cpush / order_checked (Order/DepOrderFixed.v); placer.rs PlaceOrder::process / fail and conv/proto.rs "
                     "CellOrder::process / fail = `push every dependency, pass the error on` / the error return (the reading of P::process in the tie of the generic helper), on the graph "
                     "lib_deps of Tetris/TProto.v; the orderer inside the placement model of C09 (Tetris/Placer.v push, node_dep) = the generic helper + PlaceOrder::process"),
    "tetris_conv": ("Tetris/KernelsTieConv_proofs.v", "Tetris.KernelsTieConv_proofs", "Properties/KernelsTetrisConv.v",
                    "layout21tetris/src/conv/raw.rs: RawExporter::track_cross_xy (centres of the track and of the crossing track, transposed on a horizontal layer) and "
                    "RawExporter::instance_intersects (extent of the instance in the periodic direction, reflection, the two strict comparisons; with Dir::not, Place::abs, "
                    "Index<Dir> for Xy, the DbUnits operators) = track_cross_xy / instance_intersects of Tetris/Compile.v"),
    "raw_gdsx": ("Raw/KernelsTieRawGdsExport_proofs.v", "Raw.KernelsTieRawGdsExport_proofs", "Properties/KernelsRawGdsExport.v",
                 "layout21raw/src/gds.rs (exporter): GdsExporter::export_point, export_layerspec, export_shape (rectangle as five points, polygon closed, path + width), "
                 "label_location of Rect / Path / Polygon (bounding-box centre, four neighbours, early return) / Shape = export_point, export_layerspec, export_shape, rect_center, "
                 "path_label, poly_label, label_location of Raw/RawGdsExport.v"),
    "raw_gdsi": ("Raw/KernelsTieRawGdsImport_proofs.v", "Raw.KernelsTieRawGdsImport_proofs", "Properties/KernelsRawGdsImport.v",
                 "layout21raw/src/gds.rs (importer): GdsImporter::import_point, import_point_vec, import_box, import_path (unsigned_abs of the width), import_units (the four float comparisons), import_instance (cell lookup, "
                 "STRANS flags, magnification test, reflection and angle) = import_point, import_box, import_path, import_instance of Raw/RawGds.v (repaired variants)"),
    "tetris_proto": ("Tetris/KernelsTieProto_proofs.v", "Tetris.KernelsTieProto_proofs", "Properties/KernelsTetrisProto.v",
                     "layout21tetris/src/conv/proto.rs: ProtoExporter::export_outline (+ export_dimensions / export_dimension, generic over HasUnits, at PrimPitches), "
                     "ProtoLibImporter::import_outline (+ import_prim_pitches_list / import_prim_pitches); outline.rs: Outline::from_prim_pitches (length test, two index loops) "
                     "= export_outline / import_outline / from_prim_pitches of Tetris/TProto.v"),
    "tetris_period": ("Tetris/KernelsTiePeriod_proofs.v", "Tetris.KernelsTiePeriod_proofs", "Properties/KernelsTetrisConv.v",
                      "layout21tetris/src/conv/raw.rs: RawExporter::assign_track and the WHOLE of RawExporter::export_cell_layer_period (blockage loop, cut loop with the `&mut` borrow of "
                      "track % nsig and the span centre - cutsize/2 .. + cutsize, bottom assignments with the via rectangle centre - size/2 .. + size and the cached via layer, top "
                      "assignments, rails then signals) = assign_track / export_period of Tetris/Compile.v (repaired tree), outcomes by class"),
    # fourth part of the subset (traits, joined branches, slices, loops on fuel, monadic self, derive_builder, format templates): the two codecs
    "gds_write": ("Gds/KernelsTieGdsWrite_proofs.v", "Gds.KernelsTieGdsWrite_proofs", "Properties/KernelsGdsCodec.v",
                  "gds21/src/write.rs, every provided method of `trait Encode` (encode_lib, encode_struct, encode_element, encode_boundary, encode_path, encode_struct_ref, "
                  "encode_array_ref, encode_text_elem, encode_node, encode_box, encode_strans, encode_datetimes / encode_datetime) and data.rs GdsPoint::flatten / flatten_vec "
                  "= flatten_lib, flat_struct, flat_element, flat_boundary .. flat_box, flat_strans, flat_dates, flat_points of Gds/GdsWrite.v: the same records in the same order handed to "
                  "`encode_record`, for any implementor; over a byte vector with write_record = enc_record the whole of encode_lib = write_lib"),
    "gds_read": ("Gds/KernelsTieGdsRead_proofs.v", "Gds.KernelsTieGdsRead_proofs", "Properties/KernelsGdsCodec.v",
                 "gds21/src/read.rs GdsReader::read_record_header (length < 4 / odd, record type by number and valid(), data type by number), read_record_content (all 49 arms over "
                 "(record type, data type, length): the typed read, the length, which vector elements go to which field of the GdsRecord variant), read_record; data.rs GdsRecordType::valid "
                 "= read_header, read_content, read_record of Gds/GdsRead.v, rtype_valid of Gds/GdsRecord.v (monadic self: the unread bytes are the state; byte-level IO external; error variants apart)"),
    "gds_parse": ("Gds/KernelsTieGdsParse_proofs.v", "Gds.KernelsTieGdsParse_proofs", "Properties/KernelsGdsCodec.v",
                  "gds21/src/read.rs GdsParser::parse_property, parse_strans (flag bits; the loop over MAG / ANGLE on fuel), data.rs GdsPoint::parse = parse_property, parse_strans / strans_loop, "
                  "parse_point of Gds/GdsRead.v; `next` (defined through the generated read_record) keeps the parser state the model's (monadic self: look-ahead record + unread bytes)"),
    "gds_parse_e1": ("Gds/KernelsTieGdsParseE1_proofs.v", "Gds.KernelsTieGdsParseE1_proofs", "Properties/KernelsGdsCodec.v",
                     "gds21/src/read.rs GdsParser::parse_boundary, parse_path, parse_node, parse_box: the whole functions (`loop { b = match self.next()? {..} }` on fuel with `break`, every arm, the "
                     "derive_builder setters synthesised from #[builder(..)], properties + build) = parse_elem of Gds/GdsRead.v at KBoundary / KPath / KNode / KBox, fuel for fuel"),
    "gds_parse_e2": ("Gds/KernelsTieGdsParseE2_proofs.v", "Gds.KernelsTieGdsParseE2_proofs", "Properties/KernelsGdsCodec.v",
                     "gds21/src/read.rs GdsParser::parse_struct_ref, parse_array_ref (COLROW, the three-point XY), parse_text_elem (with parse_strans on the remaining fuel) = parse_elem at KSref / KAref / KText"),
    "gds_parse_lib": ("Gds/KernelsTieGdsParseL_proofs.v", "Gds.KernelsTieGdsParseL_proofs", "Properties/KernelsGdsCodec.v",
                      "gds21/src/read.rs GdsParser::parse_datetimes, parse_struct (element loop on fuel), parse_lib (header, BGNLIB, the loop over LIBNAME / UNITS / BGNSTR, build) = dates_of, struct_loop, "
                      "parse_struct, lib_loop, parse_lib of Gds/GdsRead.v; composed with the generated read_record = read_lib_fuel (GdsLibrary::from_bytes)"),
    "lef_write": ("Lef/KernelsTieLefWrite_proofs.v", "Lef.KernelsTieLefWrite_proofs", "Properties/KernelsLef.v",
                  "lef21/src/write.rs LefWriter::format_mask, format_geom, write_geom, write_layer_geom, write_property, write_symmetries, write_macro_class, write_via_shape, write_density, "
                  "write_units, write_site, write_via_layer_geom, write_via, write_port, write_pin (format templates read piece by piece: literal text, `{expr}` holes under Display; "
                  "indentation through `self.indent += 1`; one `write_line` per line) = the lines of the functions of the same names of Lef/LefWrite.v "
                  "(model variant flags: the code as it is now)"),
    "lef_write_lib": ("Lef/KernelsTieLefWriteL_proofs.v", "Lef.KernelsTieLefWriteL_proofs", "Properties/KernelsLef.v",
                  "lef21/src/write.rs LefWriter::write_macro (version gate, loops over pins / obstructions / properties, optional blocks), format_numeric_prop_def and write_lib (the whole file from "
                  "a new writer: VERSION, the two version-gated statements, optional statements, PROPERTYDEFINITIONS, vias, sites, macros, extensions, END LIBRARY, flush) = write_macro, "
                  "format_numeric_prop_def, write_lib_lines of Lef/LefWrite.v, lines and failure alike (error value apart)"),
    "lef_parse": ("Lef/KernelsTieLefRead_proofs.v", "Lef.KernelsTieLefRead_proofs", "Properties/KernelsLef.v",
                  "lef21/src/read.rs LefParser::advance, matches, expect, peek_key, get_key, expect_key, parse_ident, parse_number, parse_point and the whole of parse_density (two nested loops "
                  "with break, each on the fuel the state gives; derive_builder of LefDensityGeometries; context stack) = the functions of the same names of Lef/LefParse.v "
                  "(monadic self: the model's parser state; lexer, txt, LefKey::parse, rust_decimal external; error value apart)"),
    # the LEF parser, second part: its own generated file (unit "lefr2"), the helpers of the family lef_parse external there
    "lef_parse2": ("Lef/KernelsTieLefRead2_proofs.v", "Lef.KernelsTieLefRead2_proofs", "Properties/KernelsLef.v",
                   "lef21/src/read.rs LefParser::parse_units (the loop over the eight unit statements, LefDbuPerMicron::try_new external), parse_size, parse_symmetries, parse_macro_class "
                   "(all six classes), parse_site_def (loop; derive_builder of LefSite with build() as an error of its own), parse_property (the token-type test), parse_pin_direction, "
                   "parse_geometry_mask, parse_iterate, parse_step_pattern, parse_point_list, parse_geometry_tail, parse_geometry (RECT / POLYGON / PATH, the point-count tests), "
                   "parse_bus_bit_chars, parse_divider_char (the characters of the string literal, the length test, `chars[i]`), expect_and_get_str, get_name, expect_ident = the functions of the same names of Lef/LefParse.v (monadic self; the helpers tied in the family lef_parse, "
                   "parse_enum::<T> at each T, the lexer, txt, rust_decimal external; error value apart; the variant flag c_points_to_semi as the code is now)"),
    "lef_parse3": ("Lef/KernelsTieLefRead3_proofs.v", "Lef.KernelsTieLefRead3_proofs", "Properties/KernelsLef.v",
                   "lef21/src/read.rs LefParser::parse_layer_geometries (the loop over the options of the LAYER statement, the body loop over PATH / POLYGON / RECT / VIA / WIDTH with the "
                   "end-of-input exit, derive_builder of LefLayerGeometries), parse_via_shape (RECT / POLYGON, the MASK test, the point-count test), parse_via_layer_geometries, "
                   "parse_obstructions, parse_port, parse_property_definition_tail, parse_property_definitions (object type, name, STRING / REAL / INTEGER) = the functions of the same names "
                   "of Lef/LefParse.v, the callees through their own ties of the family lef_parse2 (same reading, same externals; the code as it is now)"),
    "lef_parse_lib": ("Lef/KernelsTieLefReadL_proofs.v", "Lef.KernelsTieLefReadL_proofs", "Properties/KernelsLef.v",
                      "lef21/src/read.rs LefParser::parse_pin, the whole function (the loop over END / PORT / DIRECTION / USE / SHAPE / ANTENNAMODEL / the nine antenna attributes with the optional "
                      "LAYER / TAPERRULE / MUSTJOIN / SUPPLYSENSITIVITY / GROUNDSENSITIVITY / NETEXPR / PROPERTY, derive_builder of LefPin, the closing name, properties handed to the builder) "
                      "= parse_pin / pin_loop of Lef/LefParse.v, the callees through their own ties of the families lef_parse2 / lef_parse3 (the code as it is now)"),
    "lef_parse_macro": ("Lef/KernelsTieLefReadM_proofs.v", "Lef.KernelsTieLefReadM_proofs", "Properties/KernelsLef.v",
                        "lef21/src/read.rs LefParser::parse_macro, the whole function (the loop over CLASS / SITE / EEQ / FIXEDMASK / FOREIGN with the optional point and orientation / ORIGIN / SIZE / "
                        "PIN / OBS / PROPERTY / SYMMETRY / SOURCE with the version gate on the session version / DENSITY / END, derive_builder of LefMacro, the closing name, properties handed to the "
                        "builder) = parse_macro / macro_loop of Lef/LefParse.v, the callees through their own ties (families lef_parse2, lef_parse3, lef_parse_lib; parse_density: family lef_parse)"),
    "lef_parse_via": ("Lef/KernelsTieLefReadV_proofs.v", "Lef.KernelsTieLefReadV_proofs", "Properties/KernelsLef.v",
                      "lef21/src/read.rs LefParser::parse_via, the whole function (DEFAULT; VIARULE with the loop over CUTSIZE / LAYERS / CUTSPACING / ENCLOSURE / ROWCOL / ORIGIN / OFFSET, "
                      "derive_builder of LefGeneratedViaDef and its build() in declaration order; RESISTANCE and the `while let` loop over LAYER, derive_builder of LefFixedViaDef; PROPERTY / END, "
                      "the closing name, derive_builder of LefViaDef) = parse_via / gen_via_loop / gen_via_build / fixed_via_layers_loop of Lef/LefParse.v, parse_via_layer_geometries through "
                      "its own tie (family lef_parse3)"),
}
# the file generated for each family (evidence text)
GENERATED = {"lef_parse_via": "KernelsLefRead2Gen.v", "lef_parse_macro": "KernelsLefRead2Gen.v", "lef_parse": "KernelsLefReadGen.v", "lef_parse2": "KernelsLefRead2Gen.v", "lef_parse3": "KernelsLefRead2Gen.v", "lef_parse_lib": "KernelsLefRead2Gen.v", "gds_write": "KernelsGdsWriteGen.v", "gds_read": "KernelsGdsReadGen.v", "gds_parse": "KernelsGdsReadGen.v", "gds_parse_e1": "KernelsGdsReadGen.v", "gds_parse_e2": "KernelsGdsReadGen.v", "gds_parse_lib": "KernelsGdsReadGen.v", "lef_write": "KernelsLefWriteGen.v", "lef_write_lib": "KernelsLefWriteGen.v", "tetris_period": "KernelsTetrisConvPGen.v", "tetris_proto": "KernelsTetrisProtoGen.v", "raw_gdsi": "KernelsRawGdsImportGen.v", "tetris_conv": "KernelsTetrisConvXGen.v, KernelsTetrisConvIGen.v", "raw_gdsx": "KernelsRawGdsExportGen.v", "order_generic": "KernelsOrderGen.v", "order_raw": "KernelsRawOrderGen.v", "order_tetris": "KernelsTetrisOrderGen.v, KernelsTetrisProtoOrderGen.v (and KernelsOrderGen.v)", "tetris_stack": "KernelsTetrisGen.v", "tetris_tracks": "KernelsTetrisGen.v", "tetris_place": "KernelsTetrisGen.v", "raw_lef": "KernelsRaw2Gen.v", "raw_proto": "KernelsRaw2Gen.v", "raw_gds": "KernelsRaw2Gen.v"}
TRANSLATOR = os.path.join(VERIF, "tools", "translate_rust_kernels.py")

_TRANSLATED = None     # (rc, output) of the translator run of this process

def _failing_lemma(out, coqdir):
    """(file, line, lemma name or None) of the first Coq error in a make log"""
    m = re.search(r'File "\./([^"]+)", line (\d+)', out)
    if not m:
        return None, None, None
    f, line = m.group(1), int(m.group(2))
    name = None
    try:
        lines = open(os.path.join(coqdir, f), encoding="utf8").read().split("\n")[:line]
        for l in lines:
            mm = re.match(r"\s*(?:Lemma|Theorem|Corollary)\s+([A-Za-z0-9_']+)", l)
            if mm:
                name = mm.group(1)
    except OSError:
        pass
    return f, line, name

def kernel_tie_leg(chk, family):
    tie_file, tie_mod, prop_file, what = FAMILIES[family]
    info = {"family": family, "covers": what, "generated_file": "coq/Gen/%s (tools/translate_rust_kernels.py, regenerated from %s on this run)" % (GENERATED.get(family, "KernelsGen.v"), REPO)}
    chk.cov.setdefault("kernel_ties", {})[family] = info
    def broken(obligation, msg):
        info["status"] = "BROKEN"
        info["broken_obligation"] = obligation
        info["detail"] = msg[:1500]
        text = "kernel tie broken: %s -- %s" % (obligation, msg[:600])
        chk.broken.append(text)
        chk.proof_ok = False
        chk.cov["discharged"] = 0
        log("%s: %s" % (chk.pid, text))
        print("KERNEL-TIE-BROKEN: property=%s obligation=%s %s" % (chk.pid, obligation, " ".join(msg.split())[:400]))
        sys.stdout.flush()
        return False
    # one translator run per check: the repository does not change while a check runs, and a check has several kernel-tie legs
    global _TRANSLATED
    if _TRANSLATED is None:
        _TRANSLATED = sh([sys.executable, TRANSLATOR], timeout=300)
    rc, out = _TRANSLATED
    info["translator"] = out.strip()[-300:]
    mine = [l for l in out.splitlines() if l.startswith("FAILED family=%s " % family)]
    anyf = [l for l in out.splitlines() if l.startswith("FAILED family=")]
    if mine or (rc != 0 and not anyf):
        # (the script exits 0 when only families of its later units fail: their FAILED lines are read here)
        return broken("translator", "tools/translate_rust_kernels.py could not translate the kernels of this tree: " + (" | ".join(mine) or out.strip()[-1200:]))
    if anyf:
        chk.notes.append("kernel translator: functions of other families no longer translate (%s); this family is unaffected" % " | ".join(anyf)[:600])
    ok, mk = coq_make([tie_file[:-2] + ".vo"])
    chk.write_log("coq_kernel_tie_build.log", mk)
    nq = count_qed([os.path.join(COQ, tie_file)])
    if not ok:
        f, line, lemma = _failing_lemma(mk, COQ)
        # (a family whose proof file builds on another family's: the failing lemma of that file names the obligation just the same)
        if lemma and (f == tie_file or f in [v[0] for v in FAMILIES.values()]):
            ob = "K" + lemma if lemma.startswith("tie_") else lemma
            try:    # a helper lemma `tie_<fn>_round` / `_loop` belongs to the published theorem `Ktie_<fn>`
                pub = [n for n in theorem_names(os.path.join(COQ, prop_file)) if ob.startswith(n)]
                if pub:
                    ob = max(pub, key=len)
            except OSError:
                pass
            return broken(ob, "the definition generated from the Rust source no longer equals the hand-written model function "
                              "(%s line %d, lemma %s): %s" % (f, line, lemma, last_error(mk)))
        return broken(f or tie_file, "the kernel tie does not build: " + last_error(mk))
    names = [n for n in theorem_names(os.path.join(COQ, tie_file)) if n.startswith("tie_")]
    ax, aout = print_assumptions(tie_mod, names, chk.rundir)
    if ax is None:
        return broken(tie_file, "Print Assumptions failed: " + last_error(aout))
    bad = sorted({a for n in names for a in ax.get(n, [])})
    if bad:
        return broken(tie_file, "kernel tie lemmas depend on axioms: " + ", ".join(bad))
    # the statements as published (Properties/Kernels.v restates every family); a failure there that comes from ANOTHER
    # family's proof file is that family's business and is only noted
    ok2, mk2 = coq_make([prop_file[:-2] + ".vo"])
    if not ok2:
        f, line, lemma = _failing_lemma(mk2, COQ)
        other = [v[0] for fam, v in FAMILIES.items() if fam != family]
        if f in other:
            chk.notes.append("%s does not build because of %s (another family of kernels); this family's ties hold" % (prop_file, f))
        else:
            chk.write_log("coq_kernels_prop_build.log", mk2)
            return broken(f or prop_file, "%s does not build: %s" % (prop_file, last_error(mk2)))
    info["status"] = "ok"
    try:
        published = [n for n in theorem_names(os.path.join(COQ, prop_file)) if n[1:] in names]
    except OSError:
        published = []
    info["obligations"] = published                 # the theorems Ktie_<fn> of the statements file
    info["lemmas"] = names                          # every lemma tie_* of the proof file (helpers of the loops included)
    info["assumptions"] = "none (Closed under the global context)"
    info["qed"] = nq      # counted in coverage.obligations through the proof_leg file list of the check
    return True
