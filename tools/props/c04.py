"""C04: reading a LEF text yields every statement in it, with exact values.
Spec Lef/LefSpec.v (independent renderer `render : style -> lef_lib -> bytes`), model Lef/LefLex.v + Lef/LefParse.v,
theorems Properties/C04.v, correspondence against lef21::LefLibrary::open through harness/src/bin/c04.rs (op "parse").

One case = (style, library). The text is `render style library`, evaluated inside Coq; the implementation reads it; the
checker `c04_check` (Lef/LefCheck.v) compares what it read with the library (decimals numerically) and with the model.

Case families
  feature   systematic: for every field of every record of the data model, for every variant and enum value, the smallest
            library in which exactly that one thing is present (all other options absent, all other lists empty), each under
            three styles (plain; padded numbers `01.0` / `100.0`; one random style).  These give the smallest witnesses.
  random    libraries with every option set independently and 0-3 items per list, versions none / 5.3 .. 5.8, under random
            styles (separators with comments incl. non-ASCII text, keyword case masks, number spellings, permutations,
            END LIBRARY present or not)."""
import json, re
from vlib import *
from props.lefcommon import *

HARNESS_BINS = ["c04"]
PROOF_FILES = ["Lef/LefRoundtrip_proofs.v", "Lef/LefRtLex_proofs.v", "Lef/LefRtDec_proofs.v", "Lef/LefRtPerm_proofs.v", "Lef/LefRtFrame_proofs.v",
               "Lef/LefRtConstr_proofs.v", "Lef/LefRtPin_proofs.v", "Lef/LefRtVia_proofs.v", "Lef/LefRtSiteUnits_proofs.v", "Lef/LefRtMacro_proofs.v",
               "Lef/LefRtLib_proofs.v", "Lef/LefRtRender_proofs.v", "Lef/LefRtTop_proofs.v"]

# ------------------------------------------------------------------ smallest values and one-step enrichments
def _name(rec, field):
    if (rec, field) in (("lef_pin", "net_expr"), ("lef_extension", "name")):
        return H('"s"')
    if (rec, field) == ("lef_antenna_attr", "key"):
        return H("ANTENNAGATEAREA")
    if (rec, field) == ("lef_property", "value"):
        return H("v")
    if (rec, field) == ("lef_extension", "data"):
        return H("")
    return H({"lef_macro": "m", "lef_pin": "p", "lef_site": "s", "lef_via_def": "v", "lef_layer_geoms": "l"}.get(rec, "a"))

def minimal(t, rec=None, field=None):
    """the smallest supported value of schema type t"""
    if t == B:
        return _name(rec, field)
    if t == D:
        return [False, "1", 0]
    if t == BOOL:
        return False
    if t == Z:
        return 100
    if t == CH:
        return ord("/")
    k = t[0]
    if k == "opt":
        return None
    if k == "list":
        return []
    if k == "pair":
        return [minimal(t[1], rec, field), minimal(t[2], rec, field)]
    if k == "enum":
        return ENUMS[t[1]][0][0]
    if k == "rec":
        return {fn: minimal(ft, t[1], fn) for fn, ft in SCH[t[1]][2]}
    if k == "var":
        cn_, ats = SCH[t[1]][2][0]
        return _ctor(t[1], cn_, ats)
    raise ValueError(t)

def _pt(x, y):
    return {"x": [False, str(x), 0], "y": [False, str(y), 0]}

def _ctor(vn, cn_, ats):
    args = [minimal(a, vn, cn_) for a in ats]
    if vn in ("lef_shape", "lef_via_shape") and cn_ in ("Polygon", "Path"):
        args[1] = [_pt(0, 0), _pt(1, 0), _pt(1, 1)][: 3 if cn_ == "Polygon" else 2]
    return {"v": cn_, "a": args}

def variants(t, rec=None, field=None):
    """(label, value) pairs: every way of adding exactly one thing to minimal(t)"""
    if t == B:
        if (rec, field) == ("lef_property", "value"):
            return [("=str", H('"a b"')), ("=num", H("1.50"))]
        if (rec, field) == ("lef_extension", "data"):
            return [("=toks", H('x 1.5 ; "q" '))]
        if (rec, field) == ("lef_antenna_attr", "key"):
            return [("=" + k, H(k if i % 2 else k.lower())) for i, k in enumerate(ANTENNA_KEYS)]
        return []
    if t == D:
        return [("=neg", [True, "15", 1])]
    if t == BOOL:
        return [("=true", True)]
    if t == Z:
        return [("=%d" % v, v) for v in DBU[1:]]
    if t == CH:
        return [("=u", ord("é"))]
    k = t[0]
    if k == "opt":
        if (rec, field) == ("lef_layer_geoms", "except_pg_net"):
            return [("", True)]
        m = minimal(t[1], rec, field)
        return [("", m)] + [(l, v) for l, v in variants(t[1], rec, field)]
    if k == "list":
        m = minimal(t[1], rec, field)
        out = [("#1", [m])] + [(l, [v]) for l, v in variants(t[1], rec, field)]
        if t[1] in (E("LefSymmetry"),) or t[1][0] in ("rec", "var"):
            out.append(("#2", [m, m]))
        return out
    if k == "pair":
        a, b = minimal(t[1], rec, field), minimal(t[2], rec, field)
        return [(".0" + l, [v, b]) for l, v in variants(t[1], rec, field)] + [(".1" + l, [a, v]) for l, v in variants(t[2], rec, field)]
    if k == "enum":
        return [(":" + v, v) for v, _ in ENUMS[t[1]][1:]]
    if k == "rec":
        base = minimal(t, rec, field)
        out = []
        for fn, ft in SCH[t[1]][2]:
            for l, v in variants(ft, t[1], fn):
                x = dict(base)
                x[fn] = v
                if t[1] == "lef_foreign" and fn == "orient":
                    x["pt"] = _pt(1, 1)
                out.append(("/%s%s" % (fn, l), x))
        return out
    if k == "var":
        out = []
        for i, (cn_, ats) in enumerate(SCH[t[1]][2]):
            base = _ctor(t[1], cn_, ats)
            if i > 0:
                out.append((":" + cn_, base))
            for j, a in enumerate(ats):
                if t[1] in ("lef_shape", "lef_via_shape") and cn_ in ("Polygon", "Path") and j == 1:
                    # point lists keep their minimum length: one more point, one negative coordinate
                    pts = base["a"][1]
                    vs = [("#+1", pts + [_pt(0, 2)]), ("/x=neg", [{"x": [True, "15", 1], "y": pts[0]["y"]}] + pts[1:])]
                else:
                    vs = variants(a, t[1], cn_)
                for l, v in vs:
                    if t[1] == "lef_propdef" and cn_ == "LefString" and j == 2:
                        if l:
                            continue
                        v = H('"s"')
                    x = {"v": cn_, "a": list(base["a"])}
                    x["a"][j] = v
                    out.append((":%s.%d%s" % (cn_, j, l), x))
        return out
    raise ValueError(t)

def _uses_old(lib):
    return (lib["names_case_sensitive"] is not None or lib["no_wire_extension_at_pin"] is not None
            or any(m["source"] is not None for m in lib["macros"]))

def feature_libs():
    out = [("minimal", minimal_lib())]
    for v in (53, 54, 55, 56, 57, 58):
        out.append(("/version=5.%d" % (v % 10), minimal_lib(v)))
    out.append(("/version=5.80", dict(minimal_lib(), version=[False, "580", 2])))
    for l, lib in variants(R("lef_lib")):
        if l.startswith("/version"):
            continue
        if _uses_old(lib):
            # statements of LEF <= 5.4: at both versions below the gate, and in another spelling of the version
            out.append((l + "@5.3", dict(lib, version=[False, "53", 1])))
            out.append((l + "@5.40", dict(lib, version=[False, "540", 2])))
            lib = dict(lib, version=[False, "54", 1])
        out.append((l, lib))
    return out

STY_PLAIN = "(mkstyle [] [[SWs 32]] [SWs 10] None [] [] [] false true)"
# numbers written 01.0 / 0100.0 ; keywords lower case ; properties joined into one statement
STY_PADDED = "(mkstyle [] [[SWs 32]; [SWs 10; SWs 32]] [SWs 10] None [[true]] [mknumsp 1 false 1 false] [] true true)"

# ------------------------------------------------------------------ cases
def gen_cases(chk):
    rng = chk.rng
    quick = chk.tier == "quick"
    cases, dist = [], {}
    def add(kind, label, sty, lib):
        cases.append({"kind": kind, "label": label, "sty": str(sty), "lib": lib})
        dist[kind] = dist.get(kind, 0) + 1
    for label, lib in feature_libs():
        add("feature_plain", label, STY_PLAIN, lib)
        add("feature_padded", label, STY_PADDED, lib)
        if not quick or rng.random() < 0.5:
            add("feature_styled", label, gen_style(rng, lib), lib)
    nlib, nsty = (260, 3) if quick else (2000, 6)
    for i in range(nlib):
        ver = rng.choice([None, 53, 54, 55, 56, 57, 58])
        lib = gen_lib(rng, ver, "plain" if i % 3 == 0 else "mixed")
        for j in range(nsty):
            add("random", "v%s" % ver, gen_style(rng, lib, plain=(i % 7 == 0 and j == 0)), lib)
    return cases, dist

# ------------------------------------------------------------------ labelling of failures (Python side; the verdict is Coq's)
def dec_num_eq(a, b):
    sa = (-1 if a[0] else 1) * int(a[1])
    sb = (-1 if b[0] else 1) * int(b[1])
    return sa * 10 ** b[2] == sb * 10 ** a[2]

def lib_diff(t, a, b, path="lib"):
    """first difference between two values of schema type t (decimals numerically), as a path without indices; None if equal"""
    if t == D:
        return None if dec_num_eq(a, b) else path
    if t in (B, BOOL, Z, CH):
        return None if a == b else path
    k = t[0]
    if k == "opt":
        if a is None or b is None:
            return None if a is b else path + ("(missing)" if b is None else "(unexpected)")
        return lib_diff(t[1], a, b, path)
    if k == "list":
        if len(a) != len(b):
            return "%s(%s)" % (path, "items missing" if len(b) < len(a) else "extra items")
        for x, y in zip(a, b):
            d = lib_diff(t[1], x, y, path + "[]")
            if d:
                return d
        return None
    if k == "pair":
        return lib_diff(t[1], a[0], b[0], path + ".0") or lib_diff(t[2], a[1], b[1], path + ".1")
    if k == "enum":
        return None if a == b else path
    if k == "rec":
        for fn, ft in SCH[t[1]][2]:
            d = lib_diff(ft, a[fn], b[fn], path + "." + fn)
            if d:
                return d
        return None
    if k == "var":
        if a["v"] != b["v"]:
            return path + ":" + a["v"]
        for cn_, ats in SCH[t[1]][2]:
            if cn_ == a["v"]:
                for j, at in enumerate(ats):
                    d = lib_diff(at, a["a"][j], b["a"][j], "%s:%s.%d" % (path, cn_, j))
                    if d:
                        return d
        return None
    raise ValueError(t)

def err_signature(e):
    try:
        p = parse_lef_error(e)
    except Exception:
        return "error " + e[:80]
    if p["k"] == "parse":
        tok = p["token"]
        tok = tok.upper() if tok.upper() in _KEYWORDS else ("<number>" if is_rust_float(tok) else "<name>")
        return "error Parse %s%s in %s at %s" % (p["tp"][0], "" if p["tp"][1] is None else "(%s)" % p["tp"][1], (p["ctx"] or ["-"])[-1], tok)
    if p["k"] == "str":
        return "error Str(%s)" % p["text"][:80]
    return "error " + p["k"]

_KEYWORDS = {s for s in dict(ENUMS.get("LefKey", [])).values()} | {"EOF"}

def failure_class(lib, r):
    """why the implementation's answer r (harness RES) is not `lib`"""
    if r is None:
        return "not run"
    if "ok" in r:
        if r["ok"].get("unsupported_set"):
            return "an Unsupported field is set"
        return "read differently: " + (lib_diff(R("lef_lib"), lib, r["ok"]) or "?")
    if "err" in r:
        return err_signature(r["err"])
    return "panic" if "panic" in r else "crash"

# ------------------------------------------------------------------ evaluation
RENDER_HDR = LEF_HDR + """
Fixpoint c04_chunks (fuel : nat) (s : bytes) : list string :=
  match fuel with
  | O => []
  | S f => match s with [] => [] | _ => hex (firstn 400 s) :: c04_chunks f (skipn 400 s) end
  end.
Definition c04_render_hex (sty : style) (l : lef_lib) : list string :=
  let b := render sty l in c04_chunks (S (List.length b)) b.
"""
def render_pairs(chk, pairs, tag):
    """[(style term, library value)] -> rendered texts (bytes), evaluated in Coq. The text is printed in pieces of 400 bytes
    (coqc's printer overflows its stack on one string literal of some ten thousand characters)."""
    items = ["(c04_render_hex %s %s)" % (s, lib_to_coq(l)) for s, l in pairs]
    outs = coq_eval_lists(RENDER_HDR, items, chk.rundir, tag, shard=max(10, len(items) // (3 * NCPU) + 1))
    return [bytes.fromhex("".join(re.findall(r'"([0-9a-f]*)"', o))) for o in outs]

def render_all(chk, cases, tag):
    """fills c["src"] (hex) for every case"""
    outs = render_pairs(chk, [(Raw(c["sty"]), c["lib"]) for c in cases], tag)
    for c, b in zip(cases, outs):
        c["src"] = b.hex()

def evaluate(chk, cases, tag):
    cfg = model_cfg()
    for pr in MODEL_CFG_PROBLEMS:
        if ("translator (LEF defect flags): " + pr) not in chk.broken:
            chk.broken.append("translator (LEF defect flags): " + pr)
    render_all(chk, cases, tag + "_render")
    res = harness("c04", [{"op": "parse", "src": c["src"]} for c in cases])
    items = []
    for c, r in zip(cases, res):
        if "r" not in r:
            r["r"] = {"crash": r.get("crash", "?")}
        items.append("(c04_check %s %s %s %s)" % (cfg, c["sty"], lib_to_coq(c["lib"]), res_to_coq(r["r"])))
    outs = coq_eval_lists(LEF_HDR, items, chk.rundir, tag, shard=max(20, len(items) // (3 * NCPU) + 1))
    return res, [parse_z(o) for o in outs]

def nontrivial(c):
    return c["lib"] != minimal_lib() and bool(c.get("src"))

def run(chk, replay=None):
    chk.proof_leg(["Lef/LefCheck.vo"], "Properties/C04.v", PROOF_FILES, "Properties.C04")
    chk.assumptions += [
        "rust_decimal's Decimal::from_str / PartialEq are an external library: specified in Lef/LefDec.v from its source (dec_of_bytes, dec_eq) and validated by the correspondence",
        "derive_builder `build()` is modelled by its documented behaviour (last setter wins, a missing required field is an error)",
        "LEF syntax is the one of Lef/LefSpec.v (written from the LEF 5.8 language reference); the supported subset is lib_supportedb, the lexical freedoms are those of `style`",
        "the model stands for %s (each flag re-read from the source text of /repo on this run)" % model_cfg(),
    ]
    if not getattr(chk, "model_ok", False):
        return
    if replay:
        obj = json.load(open(replay))["replay"]
        cases = obj.get("cases", [])
        dist = {}
    else:
        cases, dist = gen_cases(chk)
    chk.cov["input_distribution"] = dist
    chk.cov["rule"] = ("(style, library) pairs; text = Coq `render style library`. feature_*: for every field / variant / enum value of the LEF data model the "
                       "smallest library holding exactly that one thing, under a plain style, a padded-number lower-case style and a random style; random: libraries "
                       "with each option set independently, 0-3 items per list, decimals from {0, integers, 1-6 decimals, negative, trailing zeros, 28 digits}, "
                       "versions none/5.3..5.8, under random styles (comments with non-ASCII text, CR/LF/TAB, case masks, number spellings, statement permutations, "
                       "END LIBRARY optional). Non-trivial: the library is not the empty library; distinct by rendered text.")
    res, codes = evaluate(chk, cases, "c04")
    chk.cov["evaluations"] = len(cases)
    chk.cov["distinct_nontrivial"] = len({c["src"] for c in cases if nontrivial(c)})
    chk.cov["traces_validated_against_impl"] = sum(1 for k in codes if k == 0)
    chk.cov["unmodelled_decimal_paths"] = sum(1 for k in codes if k == 3)
    cover = set()
    for c in cases:
        cover |= lib_coverage(c["lib"])
    chk.cov["data_model_facts_covered"] = len(cover)
    chk.cov["impl_outcomes"] = {k: sum(1 for r in res if k in r["r"]) for k in ("ok", "err", "panic", "crash")}
    step = max(1, len(cases) // 6)
    chk.add_samples([{"kind": c["kind"], "label": c["label"], "text": bytes.fromhex(c["src"]).decode("utf8", "replace")[:300], "code": k,
                      "impl": json.dumps(r["r"])[:200]} for c, r, k in list(zip(cases, res, codes))[::step]], k=6)
    gen_err = [c for c, k in zip(cases, codes) if k == 4]
    if gen_err:
        chk.broken.append("generator C04: %d cases outside lib_supported / style_ok, e.g. %s %s" % (len(gen_err), gen_err[0]["label"], gen_err[0]["sty"][:200]))
    viol = [(c, r, k) for c, r, k in zip(cases, res, codes) if k == 2]
    mism = [(c, r, k) for c, r, k in zip(cases, res, codes) if k == 1]
    chk.cov["correspondence_mismatches"] = len(mism)
    if viol:
        classes = {}
        for c, r, k in viol:
            classes.setdefault(failure_class(c["lib"], r["r"]), []).append((c, r))
        chk.cov["violation_classes"] = {k: len(v) for k, v in sorted(classes.items(), key=lambda kv: -len(kv[1]))}
        order = sorted(classes.items(), key=lambda kv: min(len(x[0]["src"]) for x in kv[1]))
        for cls, lst in order[:12]:
            lst.sort(key=lambda x: len(x[0]["src"]))
            c, r = lst[0]
            chk.violation("LEF text %r is %s (impl: %s; %d failing cases of %d in this class)" % (
                bytes.fromhex(c["src"]).decode("utf8", "replace")[:200], cls, json.dumps(r["r"])[:240], len(lst), len(cases)),
                {"cases": [{k: v for k, v in x[0].items()} for x in lst[:10]], "class": cls, "impl": [x[1]["r"] if "ok" not in x[1]["r"] else "ok(differs)" for x in lst[:10]]})
    elif mism:
        c, r, k = min(mism, key=lambda x: len(x[0]["src"]))
        chk.broken.append("correspondence C04: impl differs from model (%d cases), e.g. %r impl=%s" % (
            len(mism), bytes.fromhex(c["src"]).decode("utf8", "replace")[:120], json.dumps(r["r"])[:300]))
