"""C04: reading a LEF text yields every statement in it, with exact values.
Spec Lef/LefSpec.v (independent renderer `render : style -> lef_lib -> bytes`), model Lef/LefLex.v + Lef/LefParse.v,
theorems Properties/C04.v, correspondence against lef21::LefLibrary::open through harness/src/bin/c04.rs (op "parse").

One case = (style, library). The text is `render style library`, evaluated inside Coq; the implementation reads it; the
checker `c04_check` (Lef/LefCheck.v) compares what it read with the library (decimals numerically) and with the model.

Case families
  feature   systematic: for every field of every record of the data model, for every variant and enum value, the smallest
            library in which exactly that one thing is present (all other options absent, all other lists empty), each under
            three styles (plain; padded numbers `01.0` / `100.0`; one random style).  These give the smallest witnesses.
  random    libraries with every option set independently and 0-3 items per list, versions none / 5.3 .. 5.8, under random
            styles (separators with comments incl. non-ASCII text, keyword case masks, number spellings, permutations,
            END LIBRARY present or not).
  dir_*     directed families, one case per class (directed_cases): dir_numspell every spelling (leading zeros, dropped zero, trailing
            zeros, trailing point: 36) of 28 decimal classes (zero with a scale, i32/u32/i64/u64/96-bit/28-digit edges, negative, 1e-28);
            dir_version every accepted VERSION value 5, 5.0 .. 5.8, 5.00, 5.40 .. x spellings, with the <= 5.4 statements below the gate
            and without END LIBRARY from 5.6; dir_dbu every DATABASE MICRONS value x spellings with a point; dir_layer_hdr EXCEPTPGNET x
            SPACING/DESIGNRULEWIDTH x WIDTH x geometry in OBS and PORT; dir_names_keyword / _odd / _same a library with everything set whose
            identifiers are all one LEF keyword (43 keywords, either case) / nearly numbers (inf, nan, 1e, -., 0x1F ..) / all equal;
            dir_full_styled the library with everything set under directed styles (LF / CRLF / TAB only, non-ASCII comment before every
            token, empty comments, comment ending in CR, 40-item separators, nothing after the last token, case masks, reversed and
            alternating statement order, all spellings); dir_long_lists 24-200 items per list (macros, pins, ports, layers, geometries,
            points, properties, antenna values, sites, vias, extensions, property definitions, density rectangles, symmetries);
            dir_chars BUSBITCHARS / DIVIDERCHAR that are `#`, `;`, quote, backslash, 2/3/4-byte boundary characters; dir_ext BEGINEXT text
            holding keywords, near misses of ENDEXT, odd tokens, neighbouring blocks, a block at the very end of the text."""
import json, re
from vlib import *
from props.kernelcommon import kernel_tie_leg
from props.lefcommon import *

HARNESS_BINS = ["c04"]
PROOF_FILES = ["Lef/LefRoundtrip_proofs.v", "Lef/LefRtLex_proofs.v", "Lef/LefRtDec_proofs.v", "Lef/LefRtPerm_proofs.v", "Lef/LefRtFrame_proofs.v",
               "Lef/LefRtConstr_proofs.v", "Lef/LefRtPin_proofs.v", "Lef/LefRtVia_proofs.v", "Lef/LefRtSiteUnits_proofs.v", "Lef/LefRtMacro_proofs.v",
               "Lef/LefRtLib_proofs.v", "Lef/LefRtRender_proofs.v", "Lef/LefRtTop_proofs.v"]

# ------------------------------------------------------------------ smallest values and one-step enrichments
def _name(rec, field):
    if (rec, field) in (("lef_pin", "net_expr"), ("lef_extension", "name")):
        return H('"s"')
    if (rec, field) == ("lef_antenna_attr", "key"):
        return H("ANTENNAGATEAREA")
    if (rec, field) == ("lef_property", "value"):
        return H("v")
    if (rec, field) == ("lef_extension", "data"):
        return H("")
    return H({"lef_macro": "m", "lef_pin": "p", "lef_site": "s", "lef_via_def": "v", "lef_layer_geoms": "l"}.get(rec, "a"))

def minimal(t, rec=None, field=None):
    """the smallest supported value of schema type t"""
    if t == B:
        return _name(rec, field)
    if t == D:
        return [False, "1", 0]
    if t == BOOL:
        return False
    if t == Z:
        return 100
    if t == CH:
        return ord("/")
    k = t[0]
    if k == "opt":
        return None
    if k == "list":
        return []
    if k == "pair":
        return [minimal(t[1], rec, field), minimal(t[2], rec, field)]
    if k == "enum":
        return ENUMS[t[1]][0][0]
    if k == "rec":
        return {fn: minimal(ft, t[1], fn) for fn, ft in SCH[t[1]][2]}
    if k == "var":
        cn_, ats = SCH[t[1]][2][0]
        return _ctor(t[1], cn_, ats)
    raise ValueError(t)

def _pt(x, y):
    return {"x": [False, str(x), 0], "y": [False, str(y), 0]}

def _ctor(vn, cn_, ats):
    args = [minimal(a, vn, cn_) for a in ats]
    if vn in ("lef_shape", "lef_via_shape") and cn_ in ("Polygon", "Path"):
        args[1] = [_pt(0, 0), _pt(1, 0), _pt(1, 1)][: 3 if cn_ == "Polygon" else 2]
    return {"v": cn_, "a": args}

def variants(t, rec=None, field=None):
    """(label, value) pairs: every way of adding exactly one thing to minimal(t)"""
    if t == B:
        if (rec, field) == ("lef_property", "value"):
            return [("=str", H('"a b"')), ("=num", H("1.50"))]
        if (rec, field) == ("lef_extension", "data"):
            return [("=toks", H('x 1.5 ; "q" '))]
        if (rec, field) == ("lef_antenna_attr", "key"):
            return [("=" + k, H(k if i % 2 else k.lower())) for i, k in enumerate(ANTENNA_KEYS)]
        return []
    if t == D:
        return [("=neg", [True, "15", 1])]
    if t == BOOL:
        return [("=true", True)]
    if t == Z:
        return [("=%d" % v, v) for v in DBU[1:]]
    if t == CH:
        return [("=u", ord("é"))]
    k = t[0]
    if k == "opt":
        if (rec, field) == ("lef_layer_geoms", "except_pg_net"):
            return [("", True)]
        m = minimal(t[1], rec, field)
        return [("", m)] + [(l, v) for l, v in variants(t[1], rec, field)]
    if k == "list":
        m = minimal(t[1], rec, field)
        out = [("#1", [m])] + [(l, [v]) for l, v in variants(t[1], rec, field)]
        if t[1] in (E("LefSymmetry"),) or t[1][0] in ("rec", "var"):
            out.append(("#2", [m, m]))
        return out
    if k == "pair":
        a, b = minimal(t[1], rec, field), minimal(t[2], rec, field)
        return [(".0" + l, [v, b]) for l, v in variants(t[1], rec, field)] + [(".1" + l, [a, v]) for l, v in variants(t[2], rec, field)]
    if k == "enum":
        return [(":" + v, v) for v, _ in ENUMS[t[1]][1:]]
    if k == "rec":
        base = minimal(t, rec, field)
        out = []
        for fn, ft in SCH[t[1]][2]:
            for l, v in variants(ft, t[1], fn):
                x = dict(base)
                x[fn] = v
                if t[1] == "lef_foreign" and fn == "orient":
                    x["pt"] = _pt(1, 1)
                out.append(("/%s%s" % (fn, l), x))
        return out
    if k == "var":
        out = []
        for i, (cn_, ats) in enumerate(SCH[t[1]][2]):
            base = _ctor(t[1], cn_, ats)
            if i > 0:
                out.append((":" + cn_, base))
            for j, a in enumerate(ats):
                if t[1] in ("lef_shape", "lef_via_shape") and cn_ in ("Polygon", "Path") and j == 1:
                    # point lists keep their minimum length: one more point, one negative coordinate
                    pts = base["a"][1]
                    vs = [("#+1", pts + [_pt(0, 2)]), ("/x=neg", [{"x": [True, "15", 1], "y": pts[0]["y"]}] + pts[1:])]
                else:
                    vs = variants(a, t[1], cn_)
                for l, v in vs:
                    if t[1] == "lef_propdef" and cn_ == "LefString" and j == 2:
                        if l:
                            continue
                        v = H('"s"')
                    x = {"v": cn_, "a": list(base["a"])}
                    x["a"][j] = v
                    out.append((":%s.%d%s" % (cn_, j, l), x))
        return out
    raise ValueError(t)

def _uses_old(lib):
    return (lib["names_case_sensitive"] is not None or lib["no_wire_extension_at_pin"] is not None
            or any(m["source"] is not None for m in lib["macros"]))

def feature_libs():
    out = [("minimal", minimal_lib())]
    for v in (53, 54, 55, 56, 57, 58):
        out.append(("/version=5.%d" % (v % 10), minimal_lib(v)))
    out.append(("/version=5.80", dict(minimal_lib(), version=[False, "580", 2])))
    for l, lib in variants(R("lef_lib")):
        if l.startswith("/version"):
            continue
        if _uses_old(lib):
            # statements of LEF <= 5.4: at both versions below the gate, and in another spelling of the version
            out.append((l + "@5.3", dict(lib, version=[False, "53", 1])))
            out.append((l + "@5.40", dict(lib, version=[False, "540", 2])))
            lib = dict(lib, version=[False, "54", 1])
        out.append((l, lib))
    return out

STY_PLAIN = "(mkstyle [] [[SWs 32]] [SWs 10] None [] [] [] false true)"
# numbers written 01.0 / 0100.0 ; keywords lower case ; properties joined into one statement
STY_PADDED = "(mkstyle [] [[SWs 32]; [SWs 10; SWs 32]] [SWs 10] None [[true]] [mknumsp 1 false 1 false] [] true true)"

# ------------------------------------------------------------------ directed families (generator audit 2026-10-02)
def _sty(lead="[]", seps="[[SWs 32]]", trail="[SWs 10]", tc="None", cases="[]", nums="[]", keys="[]", joined=False, endlib=True):
    return "(mkstyle %s %s %s %s %s %s %s %s %s)" % (lead, seps, trail, tc, cases, nums, keys, "true" if joined else "false", "true" if endlib else "false")

# every spelling the specification has for one number: leading zeros x dropped zero x trailing zeros x trailing point
ALL_SPELLINGS = [(a, b, c, d) for a in (0, 1, 2) for b in (False, True) for c in (0, 1, 3) for d in (False, True)]
def _nums(sp):
    return "[" + "; ".join("mknumsp %d %s %d %s" % (a, "true" if b else "false", c, "true" if d else "false") for a, b, c, d in sp) + "]"

# decimal classes: (label, [neg, mantissa, scale]); magnitudes at the edges of i32 / u32 / i64 / u64 / 96 bits / 28 digits, zero with
# a scale, integer part zero (the dropped-zero spelling applies), negative, trailing zeros in the mantissa
DEC_CLASSES = [("zero", [False, "0", 0]), ("zero.000", [False, "0", 3]), ("one", [False, "1", 0]), ("half", [False, "5", 1]), ("neg_half", [True, "5", 1]),
               ("neg_int", [True, "7", 0]), ("0.05", [False, "5", 2]), ("1.50", [False, "150", 2]), ("100", [False, "100", 0]), ("100.000", [False, "100000", 3]),
               ("i32max", [False, str(2 ** 31 - 1), 0]), ("2^31", [False, str(2 ** 31), 0]), ("neg2^31", [True, str(2 ** 31 + 1), 0]), ("2^32", [False, str(2 ** 32), 0]),
               ("2^63", [False, str(2 ** 63), 0]), ("u64max", [False, str(2 ** 64 - 1), 0]), ("2^64", [False, str(2 ** 64), 0]), ("2^64/1e5", [False, str(2 ** 64), 5]),
               ("1e19", [False, str(10 ** 19), 0]), ("28nines", [False, str(10 ** 28 - 1), 0]), ("1e27", [False, str(10 ** 27), 0]), ("1e-28", [False, "1", 28]),
               ("0.28nines", [False, str(10 ** 28 - 1), 28]), ("neg0.28nines", [True, str(10 ** 28 - 1), 28]), ("1.0..01", [False, str(10 ** 27 + 1), 27]),
               ("neg28nines/1e14", [True, str(10 ** 28 - 1), 14]), ("12345.6789", [False, "123456789", 4]), ("0.0010", [False, "10", 4])]

KEYWORD_NAMES = ["END", "MACRO", "PIN", "PORT", "LAYER", "OBS", "LIBRARY", "PROPERTY", "VIA", "SITE", "DEFAULT", "VIARULE", "RECT", "POLYGON", "PATH", "MASK",
                 "ITERATE", "DO", "BY", "STEP", "CLASS", "SIZE", "ON", "X", "N", "BEGINEXT", "ENDEXT", "VERSION", "UNITS", "DENSITY", "EXCEPTPGNET", "SPACING",
                 "DESIGNRULEWIDTH", "WIDTH", "RANGE", "STRING", "TRISTATE", "BUMP", "FOREIGN", "RESISTANCE", "ANTENNAGATEAREA", "SOURCE", "FIXEDMASK"]
# words that are nearly numbers, or number-like words of the float grammar that the lexer takes as names because of their first letter
ODD_NAMES = ["inf", "nan", "NaN", "Infinity", "INF", "e5", "E", "-", "--", "-.", "..", ".", "-e5", "1e", "1e+", "1e-", ".e5", "5e5e5", "0x1F", "1_0", "1.2.3",
             "-inf_", "-infx", "1+", "5;", "a;", "a#b", 'a"b', "-#", "1..", "-.e", "infinity_", "nanx", "18T", "3.3v", "-1-", "1e5x", "é", "中1", "a\U0001F600"]

def _macro(**kw):
    m = minimal(R("lef_macro"))
    m.update(kw)
    return m

def _lg(name="l", **kw):
    g = minimal(R("lef_layer_geoms"))
    g["layer_name"] = H(name)
    g.update(kw)
    return g

def directed_cases(quick=True):
    """(kind, label, style term, library): small families, one case per class; every kind shows up in input_distribution"""
    out = []
    d1 = lambda v, s=0: [False, str(v), s]
    # -- numbers: every spelling of every decimal class, at the positions MANUFACTURINGGRID, ORIGIN, SIZE and the points of a polygon
    for label, d in DEC_CLASSES:
        lib = minimal_lib()
        lib["manufacturing_grid"] = d
        poly = {"v": "Shape", "a": [{"v": "Polygon", "a": [None, [{"x": d, "y": d} for _ in range(18)]]}]}
        lib["macros"] = [_macro(origin={"x": d, "y": d}, size=[d, d], obs=[_lg(geometries=[poly])])]
        # 41 numbers; the cyclic list of 36 spellings is shifted by 5 so that the polygon's 36 numbers meet each spelling once
        sp = ALL_SPELLINGS[-5:] + ALL_SPELLINGS[:-5]
        out.append(("dir_numspell", label, _sty(nums=_nums(sp)), lib))
    # -- VERSION: every value the reader accepts (5, 5.0 .. 5.8) in several spellings; statements of LEF <= 5.4 below the gate; no END LIBRARY from 5.6
    for v, s in [(5, 0)] + [(50 + k, 1) for k in range(9)] + [(500, 2), (540, 2), (560, 2), (5800, 3)]:
        tenths = v * 10 // 10 ** s
        for sp in [(0, False, 0, False), (1, False, 0, False), (0, False, 2, False), (2, False, 1, True), (0, False, 0, True)]:
            lib = minimal_lib()
            lib["version"] = [False, str(v), s]
            if tenths <= 54:
                lib["names_case_sensitive"] = "On"
                lib["no_wire_extension_at_pin"] = "Off"
                lib["macros"] = [_macro(source="User")]
            else:
                lib["macros"] = [_macro()]
            out.append(("dir_version", "%s/10^%d sp%s" % (v, s, sp), _sty(nums=_nums([sp]), endlib=(tenths < 56 or sp[0] == 1)), lib))
    # -- DATABASE MICRONS: every legal value x spellings with a point
    for v in DBU:
        for sp in [(0, False, 0, True), (0, False, 3, False), (2, False, 0, False), (1, False, 1, True)]:
            lib = minimal_lib()
            lib["units"] = dict(minimal(R("lef_units")), database_microns=v)
            out.append(("dir_dbu", "%d sp%s" % (v, sp), _sty(nums=_nums([sp])), lib))
    # -- the LAYER statement of a PORT / OBS: EXCEPTPGNET x {none, SPACING, DESIGNRULEWIDTH} x WIDTH, with and without geometry
    rect = {"v": "Shape", "a": [{"v": "Rect", "a": [None, _pt(0, 0), _pt(1, 1)]}]}
    for epg in (None, True):
        for sp in (None, {"v": "Spacing", "a": [d1(15, 1)]}, {"v": "DesignRuleWidth", "a": [d1(25, 2)]}):
            for w in (None, d1(3)):
                for geo in ([], [rect]):
                    lg = _lg(except_pg_net=epg, spacing=sp, width=w, geometries=geo)
                    lg2 = _lg("k", except_pg_net=epg, spacing=sp, width=w, geometries=geo)
                    label = "epg=%s sp=%s w=%s g=%d" % (epg, sp and sp["v"], w is not None, len(geo))
                    out.append(("dir_layer_hdr", "obs " + label, STY_PLAIN, dict(minimal_lib(), macros=[_macro(obs=[lg, lg2])])))
                    pin = dict(minimal(R("lef_pin")), ports=[{"class": None, "layers": [lg, lg2]}])
                    if geo:
                        out.append(("dir_layer_hdr", "port " + label, STY_PADDED, dict(minimal_lib(), macros=[_macro(pins=[pin])])))
    # -- identifiers that are LEF keywords / nearly numbers / all the same, at EVERY identifier position of a library with everything set
    small = {("lef_lib", "vias"): 2}
    for i, kw in enumerate(KEYWORD_NAMES):
        w = kw if i % 2 == 0 else kw.lower()
        out.append(("dir_names_keyword", w, STY_PLAIN if i % 3 else STY_PADDED, rich_lib(54 if i % 2 else None, lambda k, w=w: w, wide=small, lean=True)))
    for i in range(0, len(ODD_NAMES), 3):
        grp = ODD_NAMES[i:i + 3]
        out.append(("dir_names_odd", " ".join(grp), STY_PLAIN, rich_lib(None, lambda k, grp=grp: grp[k % len(grp)], wide=small, lean=True)))
    for nm in ("a", "m"):
        out.append(("dir_names_same", nm, STY_PLAIN, rich_lib(53, lambda k, nm=nm: nm, wide={("lef_lib", "macros"): 2, ("lef_macro", "pins"): 2, ("lef_lib", "vias"): 2}, lean=True)))
    # -- the library with everything set (two macros, pins, ports, vias ...), under directed styles
    mid = {("lef_lib", "vias"): 2, ("lef_macro", "pins"): 2, ("lef_macro", "obs"): 2, ("lef_macro", "density"): 2, ("lef_density_geoms", "geometries"): 2}
    full = rich_lib(None, wide=mid)
    full54 = rich_lib(54, wide=mid)
    nonascii = cbytes(H("é中\U0001F600 ́"))
    styles = [
        ("plain", STY_PLAIN), ("padded", STY_PADDED),
        ("sep=LF (every token at the start of a line)", _sty(seps="[[SWs 10]]", trail="[]")),
        ("sep=CRLF", _sty(seps="[[SWs 13; SWs 10]]", trail="[SWs 13; SWs 10]")),
        ("sep=TAB", _sty(seps="[[SWs 9]]", trail="[SWs 9]")),
        ("sep=VT (vertical tab directly after every token)", _sty(seps="[[SWs 11]]", trail="[SWs 11]")),
        ("sep=FF (form feed directly after every token)", _sty(seps="[[SWs 12]]", trail="[SWs 12]")),
        ("sep=VT FF blank mixed", _sty(seps="[[SWs 11; SWs 32]; [SWs 12; SWs 11]; [SWs 32; SWs 12]]", trail="[SWs 12; SWs 10]")),
        ("sep=blank + non-ASCII comment, next token at the start of the line", _sty(seps="[[SWs 32; SComment %s]]" % nonascii, trail="[SWs 32; SComment %s]" % nonascii)),
        ("sep=LF + non-ASCII comment + blank", _sty(lead="[SComment %s]" % nonascii, seps="[[SWs 10; SComment %s; SWs 32]]" % nonascii, trail="[SWs 10]", tc="(Some %s)" % nonascii)),
        ("sep=empty comment", _sty(lead="[SComment %s]" % cbytes(""), seps="[[SWs 32; SComment %s]; [SWs 9; SComment %s; SComment %s]]" % ((cbytes(""),) * 3), trail="[SWs 32]", tc="(Some %s)" % cbytes(""))),
        ("sep=comment ending in CR", _sty(seps="[[SWs 32; SComment %s; SWs 13; SWs 10]]" % cbytes(H("c ; MACRO \r")))),
        ("sep=40 items", _sty(seps="[[%s]]" % "; ".join(["SWs 32", "SWs 10", "SComment %s" % cbytes(H(" c")), "SWs 9", "SWs 13"] * 8))),
        ("no text after the last token", _sty(trail="[]", endlib=True)),
        ("no END LIBRARY, no text after the last token", _sty(trail="[]", endlib=False)),
        ("case=all lower", _sty(cases="[[true]]")), ("case=alternating aB", _sty(cases="[[true; false]]")), ("case=alternating Ab", _sty(cases="[[false; true]]")),
        ("case=first letter lower", _sty(cases="[[true; false; false; false; false; false; false; false; false; false; false; false; false; false; false; false; false; false; false; false; false; false; false; false; false; false; false; false; false; false]]")),
        ("case=by keyword", _sty(cases="[[true]; []; [false; true]; [true; true; false]]")),
        ("order=reversed", _sty(keys="[%s]" % "; ".join("%d%%nat" % k for k in range(60, -1, -1)))),
        ("order=alternating", _sty(keys="[1%nat; 0%nat]")), ("order=three-way", _sty(keys="[2%nat; 0%nat; 1%nat; 0%nat; 2%nat]", joined=True)),
        ("all spellings", _sty(nums=_nums(ALL_SPELLINGS), joined=True)),
    ]
    leanlib = rich_lib(None, wide=small, lean=True)
    for label, sty in styles:
        # separators that multiply the length of the text go with the one-item-per-list library
        out.append(("dir_full_styled", label, sty, leanlib if "comment" in label or "40 items" in label else full))
        if label.startswith(("order", "case=by", "sep=LF", "plain")):
            out.append(("dir_full_styled", "5.4 " + label, sty, full54))
    # -- long lists (the random libraries have 0-3 items per list)
    def long_lib(what):
        lib = minimal_lib()
        r = Rich(False)
        if what == "macros":
            lib["macros"] = [_macro(name=H("m%d" % i), size=[d1(i), d1(i + 1)]) for i in range(40)]
        elif what == "pins":
            lib["macros"] = [_macro(pins=[dict(minimal(R("lef_pin")), name=H("p%d" % i), use_=ENUMS["LefPinUse"][i % 5][0]) for i in range(30)])]
        elif what == "ports_layers":
            ports = [{"class": None, "layers": [_lg("l%d_%d" % (i, j), geometries=[{"v": "Shape", "a": [{"v": "Rect", "a": [None, _pt(i, j), _pt(i + 1, j + 1)]}]}]) for j in range(6)]} for i in range(8)]
            lib["macros"] = [_macro(pins=[dict(minimal(R("lef_pin")), ports=ports)])]
        elif what == "geometries":
            gs = [r.ctor("lef_geometry", *SCH["lef_geometry"][2][i % 2]) for i in range(36)]
            vs = [{"via_name": H("v%d" % i), "pt": {"x": d1(i), "y": [True, str(i), 0]}} for i in range(1, 9)]
            lib["macros"] = [_macro(obs=[_lg(geometries=gs, vias=vs)])]
        elif what == "points":
            pts = [{"x": d1(i), "y": [True, str(i + 1), 1]} for i in range(200)]
            lib["macros"] = [_macro(obs=[_lg(geometries=[{"v": "Shape", "a": [{"v": "Polygon", "a": [None, pts]}]}, {"v": "Iterate", "a": [{"v": "Path", "a": [d1(2), pts[:150]]}, r.val(R("lef_step"))]}])])]
            lib["vias"] = [{"name": H("v"), "default": False, "data": {"v": "Fixed", "a": [{"resistance_ohms": None, "layers": [{"layer_name": H("l"), "shapes": [{"v": "Polygon", "a": [None, pts[:120]]}]}]}]}}]
        elif what == "properties":
            props = [{"name": H("p%d" % i), "value": H(['"s %d"' % i, str(i) + ".50", "w%d" % i][i % 3])} for i in range(24)]
            lib["macros"] = [_macro(properties=props, pins=[dict(minimal(R("lef_pin")), properties=props[::-1], antenna_attrs=[r.val(R("lef_antenna_attr")) for _ in range(27)])])]
        elif what == "sites_vias_ext":
            lib["sites"] = [dict(minimal(R("lef_site")), name=H("s%d" % i), size=[d1(i), d1(2 * i)]) for i in range(12)]
            lib["vias"] = [r.val(R("lef_via_def")) for _ in range(12)]
            lib["extensions"] = [{"name": H('"t%d"' % i), "data": H("x%d %d ; " % (i, i))} for i in range(10)]
            lib["property_definitions"] = [r.ctor("lef_propdef", *SCH["lef_propdef"][2][i % 3]) for i in range(18)]
        elif what == "density_symmetry":
            dens = [{"layer_name": H("l%d" % i), "geometries": [{"pt1": _pt(i, j), "pt2": _pt(i + 1, j + 1), "density_value": d1(10 * i + j, 1)} for j in range((i * 3) % 5)]} for i in range(8)]
            lib["macros"] = [_macro(density=dens, symmetry=["X", "Y", "R90", "X", "R90", "Y", "Y"])]
            lib["sites"] = [dict(minimal(R("lef_site")), symmetry=["R90", "R90", "X", "Y", "X"])]
        return lib
    for what in ("macros", "pins", "ports_layers", "geometries", "points", "properties", "sites_vias_ext", "density_symmetry"):
        out.append(("dir_long_lists", what, STY_PLAIN, long_lib(what)))
        out.append(("dir_long_lists", what + " joined, reversed order", _sty(seps="[[SWs 32]; [SWs 10]]", keys="[%s]" % "; ".join("%d%%nat" % k for k in range(40, -1, -1)), joined=True), long_lib(what)))
    # -- characters of BUSBITCHARS / DIVIDERCHAR that mean something to the lexer, 4-byte and combining characters, equal pair
    for a, b, c in [("#", ";", "#"), (";", "#", ";"), ("'", "\\", "\\"), ("\U0001F600", "́", "\U0001F600"), ("[", "[", "'"), ("!", "~", "́"), ("é", "\U00010348", "߿"), ("￿", "ࠀ", "\U0010ffff")]:
        out.append(("dir_chars", "%r %r %r" % (a, b, c), STY_PLAIN, dict(minimal_lib(), bus_bit_chars=[ord(a), ord(b)], divider_char=ord(c))))
        out.append(("dir_chars", "%r alone" % a, STY_PADDED, dict(minimal_lib(), bus_bit_chars=[ord(b), ord(a)])))
    # -- BEGINEXT blocks: keywords (BEGINEXT itself, near misses of ENDEXT) and odd tokens in the text, neighbouring blocks, block at the end of the text
    ext_datas = ["", "BEGINEXT ", "ENDEXTX XENDEXT END EXT ENDEX ", "MACRO m END m END LIBRARY ", "; ; ", '"q" "" "é#;" ', "1e5 - -. 1.5 79228162514264337593543950336 ",
                 "é 中\U0001F600 a;b a#b ", "CREATOR \"x\" ; DATE 1 ; "]
    for i, dta in enumerate(ext_datas):
        e = {"name": H('"t %d;#"' % i), "data": H(dta)}
        out.append(("dir_ext", "data=%r" % dta, STY_PLAIN, dict(minimal_lib(), extensions=[e])))
        out.append(("dir_ext", "data=%r twice, lower case, last in the text" % dta, _sty(cases="[[true]]", trail="[]", endlib=False),
                    dict(minimal_lib(), extensions=[e, e], macros=[_macro()])))
    return out

# ------------------------------------------------------------------ cases
def gen_cases(chk):
    rng = chk.rng
    quick = chk.tier == "quick"
    cases, dist = [], {}
    def add(kind, label, sty, lib):
        cases.append({"kind": kind, "label": label, "sty": str(sty), "lib": lib})
        dist[kind] = dist.get(kind, 0) + 1
    for label, lib in feature_libs():
        add("feature_plain", label, STY_PLAIN, lib)
        add("feature_padded", label, STY_PADDED, lib)
        if not quick or rng.random() < 0.5:
            add("feature_styled", label, gen_style(rng, lib), lib)
    for kind, label, sty, lib in directed_cases(quick):
        add(kind, label, sty, lib)
    nlib, nsty = (260, 3) if quick else (2000, 6)
    for i in range(nlib):
        ver = rng.choice([None, 53, 54, 55, 56, 57, 58])
        lib = gen_lib(rng, ver, "plain" if i % 3 == 0 else "mixed")
        for j in range(nsty):
            add("random", "v%s" % ver, gen_style(rng, lib, plain=(i % 7 == 0 and j == 0)), lib)
    # the Coq evaluation is sharded by position: spread the long directed texts evenly over the shards
    heavy = [c for c in cases if c["kind"] in ("dir_full_styled", "dir_long_lists", "dir_names_keyword", "dir_names_odd", "dir_names_same")]
    if heavy:
        rest = [c for c in cases if c not in heavy]
        stride = max(1, len(rest) // len(heavy))
        cases = []
        for i, c in enumerate(rest):
            if i % stride == 0 and heavy:
                cases.append(heavy.pop())
            cases.append(c)
        cases += heavy
    return cases, dist

# ------------------------------------------------------------------ labelling of failures (Python side; the verdict is Coq's)
def dec_num_eq(a, b):
    sa = (-1 if a[0] else 1) * int(a[1])
    sb = (-1 if b[0] else 1) * int(b[1])
    return sa * 10 ** b[2] == sb * 10 ** a[2]

def lib_diff(t, a, b, path="lib"):
    """first difference between two values of schema type t (decimals numerically), as a path without indices; None if equal"""
    if t == D:
        return None if dec_num_eq(a, b) else path
    if t in (B, BOOL, Z, CH):
        return None if a == b else path
    k = t[0]
    if k == "opt":
        if a is None or b is None:
            return None if a is b else path + ("(missing)" if b is None else "(unexpected)")
        return lib_diff(t[1], a, b, path)
    if k == "list":
        if len(a) != len(b):
            return "%s(%s)" % (path, "items missing" if len(b) < len(a) else "extra items")
        for x, y in zip(a, b):
            d = lib_diff(t[1], x, y, path + "[]")
            if d:
                return d
        return None
    if k == "pair":
        return lib_diff(t[1], a[0], b[0], path + ".0") or lib_diff(t[2], a[1], b[1], path + ".1")
    if k == "enum":
        return None if a == b else path
    if k == "rec":
        for fn, ft in SCH[t[1]][2]:
            d = lib_diff(ft, a[fn], b[fn], path + "." + fn)
            if d:
                return d
        return None
    if k == "var":
        if a["v"] != b["v"]:
            return path + ":" + a["v"]
        for cn_, ats in SCH[t[1]][2]:
            if cn_ == a["v"]:
                for j, at in enumerate(ats):
                    d = lib_diff(at, a["a"][j], b["a"][j], "%s:%s.%d" % (path, cn_, j))
                    if d:
                        return d
        return None
    raise ValueError(t)

def err_signature(e):
    try:
        p = parse_lef_error(e)
    except Exception:
        return "error " + e[:80]
    if p["k"] == "parse":
        tok = p["token"]
        tok = tok.upper() if tok.upper() in _KEYWORDS else ("<number>" if is_rust_float(tok) else "<name>")
        return "error Parse %s%s in %s at %s" % (p["tp"][0], "" if p["tp"][1] is None else "(%s)" % p["tp"][1], (p["ctx"] or ["-"])[-1], tok)
    if p["k"] == "str":
        return "error Str(%s)" % p["text"][:80]
    return "error " + p["k"]

_KEYWORDS = {s for s in dict(ENUMS.get("LefKey", [])).values()} | {"EOF"}

def failure_class(lib, r):
    """why the implementation's answer r (harness RES) is not `lib`"""
    if r is None:
        return "not run"
    if "ok" in r:
        if r["ok"].get("unsupported_set"):
            return "an Unsupported field is set"
        return "read differently: " + (lib_diff(R("lef_lib"), lib, r["ok"]) or "?")
    if "err" in r:
        return err_signature(r["err"])
    return "panic" if "panic" in r else "crash"

# ------------------------------------------------------------------ evaluation
RENDER_HDR = LEF_HDR + """
Fixpoint c04_chunks (fuel : nat) (s : bytes) : list string :=
  match fuel with
  | O => []
  | S f => match s with [] => [] | _ => hex (firstn 400 s) :: c04_chunks f (skipn 400 s) end
  end.
Definition c04_render_hex (sty : style) (l : lef_lib) : list string :=
  let b := render sty l in c04_chunks (S (List.length b)) b.
"""
def render_pairs(chk, pairs, tag):
    """[(style term, library value)] -> rendered texts (bytes), evaluated in Coq. The text is printed in pieces of 400 bytes
    (coqc's printer overflows its stack on one string literal of some ten thousand characters)."""
    items = ["(c04_render_hex %s %s)" % (s, lib_to_coq(l)) for s, l in pairs]
    outs = coq_eval_lists(RENDER_HDR, items, chk.rundir, tag, shard=max(10, len(items) // (3 * NCPU) + 1))
    return [bytes.fromhex("".join(re.findall(r'"([0-9a-f]*)"', o))) for o in outs]

def render_all(chk, cases, tag):
    """fills c["src"] (hex) for every case"""
    outs = render_pairs(chk, [(Raw(c["sty"]), c["lib"]) for c in cases], tag)
    for c, b in zip(cases, outs):
        c["src"] = b.hex()

def evaluate(chk, cases, tag):
    cfg = model_cfg()
    for pr in MODEL_CFG_PROBLEMS:
        if ("translator (LEF defect flags): " + pr) not in chk.broken:
            chk.broken.append("translator (LEF defect flags): " + pr)
    render_all(chk, cases, tag + "_render")
    res = harness("c04", [{"op": "parse", "src": c["src"]} for c in cases])
    items = []
    for c, r in zip(cases, res):
        if "r" not in r:
            r["r"] = {"crash": r.get("crash", "?")}
        items.append("(c04_check %s %s %s %s)" % (cfg, c["sty"], lib_to_coq(c["lib"]), res_to_coq(r["r"])))
    outs = coq_eval_lists(LEF_HDR, items, chk.rundir, tag, shard=max(20, len(items) // (3 * NCPU) + 1))
    return res, [parse_z(o) for o in outs]

def nontrivial(c):
    return c["lib"] != minimal_lib() and bool(c.get("src"))

def run(chk, replay=None):
    chk.proof_leg(["Lef/LefCheck.vo"], "Properties/C04.v", PROOF_FILES, "Properties.C04")
    kernel_tie_leg(chk, "lef_write")      # LefWriter::write_layer_geom / write_geom / write_port / write_pin / write_via / write_site / write_units / write_density .. generated from lef21/src/write.rs = the lines of Lef/LefWrite.v (Properties/KernelsLef.v)
    kernel_tie_leg(chk, "lef_write_lib")  # LefWriter::write_macro / format_numeric_prop_def / write_lib (the whole file) = write_macro / write_lib_lines of Lef/LefWrite.v, lines and failure alike
    kernel_tie_leg(chk, "lef_parse")      # LefParser token helpers and parse_density generated from lef21/src/read.rs = Lef/LefParse.v (Properties/KernelsLef.v)
    kernel_tie_leg(chk, "lef_parse2")     # LefParser::parse_units / parse_site_def / parse_macro_class / parse_property / parse_geometry .. (Gen/KernelsLefRead2Gen.v) = Lef/LefParse.v
    kernel_tie_leg(chk, "lef_parse3")     # LefParser::parse_layer_geometries / parse_via_shape / parse_via_layer_geometries / parse_obstructions / parse_port / parse_property_definitions = Lef/LefParse.v
    kernel_tie_leg(chk, "lef_parse_lib")  # LefParser::parse_pin, the whole function = parse_pin / pin_loop of Lef/LefParse.v
    kernel_tie_leg(chk, "lef_parse_macro")  # LefParser::parse_macro, the whole function = parse_macro / macro_loop of Lef/LefParse.v
    kernel_tie_leg(chk, "lef_parse_via")    # LefParser::parse_via, the whole function = parse_via / gen_via_loop / fixed_via_layers_loop of Lef/LefParse.v
    chk.assumptions += [
        "rust_decimal's Decimal::from_str / PartialEq are an external library: specified in Lef/LefDec.v from its source (dec_of_bytes, dec_eq) and validated by the correspondence",
        "derive_builder `build()` is modelled by its documented behaviour (last setter wins, a missing required field is an error)",
        "LEF syntax is the one of Lef/LefSpec.v (written from the LEF 5.8 language reference); the supported subset is lib_supportedb, the lexical freedoms are those of `style`",
        "the model stands for %s (each flag re-read from the source text of /repo on this run)" % model_cfg(),
    ]
    if not getattr(chk, "model_ok", False):
        return
    if replay:
        obj = json.load(open(replay))["replay"]
        cases = obj.get("cases", [])
        dist = {}
    else:
        cases, dist = gen_cases(chk)
    chk.cov["input_distribution"] = dist
    chk.cov["rule"] = ("(style, library) pairs; text = Coq `render style library`. feature_*: for every field / variant / enum value of the LEF data model the "
                       "smallest library holding exactly that one thing, under a plain style, a padded-number lower-case style and a random style; random: libraries "
                       "with each option set independently, 0-3 items per list, decimals from {0, integers, 1-6 decimals, negative, trailing zeros, 28 digits}, "
                       "versions none/5.3..5.8, under random styles (comments with non-ASCII text, CR/LF/TAB, case masks, number spellings, statement permutations, "
                       "END LIBRARY optional); dir_*: directed families, one case per class (all spellings x decimal classes at the 32/64/96-bit and 28-digit edges, "
                       "every VERSION value and DATABASE MICRONS value x spellings, LAYER statement option combinations, identifiers that are keywords / nearly numbers / "
                       "all equal at every identifier position, the library with everything set under directed separator / case / order styles, lists of 24-200 items, "
                       "special BUSBITCHARS / DIVIDERCHAR characters, BEGINEXT texts). Non-trivial: the library is not the empty library; distinct by rendered text.")
    res, codes = evaluate(chk, cases, "c04")
    chk.cov["evaluations"] = len(cases)
    chk.cov["distinct_nontrivial"] = len({c["src"] for c in cases if nontrivial(c)})
    chk.cov["traces_validated_against_impl"] = sum(1 for k in codes if k == 0)
    chk.cov["unmodelled_decimal_paths"] = sum(1 for k in codes if k == 3)
    cover = set()
    for c in cases:
        cover |= lib_coverage(c["lib"])
    chk.cov["data_model_facts_covered"] = len(cover)
    chk.cov["impl_outcomes"] = {k: sum(1 for r in res if k in r["r"]) for k in ("ok", "err", "panic", "crash")}
    step = max(1, len(cases) // 6)
    chk.add_samples([{"kind": c["kind"], "label": c["label"], "text": bytes.fromhex(c["src"]).decode("utf8", "replace")[:300], "code": k,
                      "impl": json.dumps(r["r"])[:200]} for c, r, k in list(zip(cases, res, codes))[::step]], k=6)
    gen_err = [c for c, k in zip(cases, codes) if k == 4]
    if gen_err:
        chk.broken.append("generator C04: %d cases outside lib_supported / style_ok, e.g. %s %s" % (len(gen_err), gen_err[0]["label"], gen_err[0]["sty"][:200]))
    viol = [(c, r, k) for c, r, k in zip(cases, res, codes) if k == 2]
    mism = [(c, r, k) for c, r, k in zip(cases, res, codes) if k == 1]
    chk.cov["correspondence_mismatches"] = len(mism)
    if viol:
        classes = {}
        for c, r, k in viol:
            classes.setdefault(failure_class(c["lib"], r["r"]), []).append((c, r))
        chk.cov["violation_classes"] = {k: len(v) for k, v in sorted(classes.items(), key=lambda kv: -len(kv[1]))}
        order = sorted(classes.items(), key=lambda kv: min(len(x[0]["src"]) for x in kv[1]))
        for cls, lst in order[:12]:
            lst.sort(key=lambda x: len(x[0]["src"]))
            c, r = lst[0]
            chk.violation("LEF text %r is %s (impl: %s; %d failing cases of %d in this class)" % (
                bytes.fromhex(c["src"]).decode("utf8", "replace")[:200], cls, json.dumps(r["r"])[:240], len(lst), len(cases)),
                {"cases": [{k: v for k, v in x[0].items()} for x in lst[:10]], "class": cls, "kinds": {k: sum(1 for x in lst if x[0]["kind"] == k) for k in sorted({x[0]["kind"] for x in lst})}, "impl": [x[1]["r"] if "ok" not in x[1]["r"] else "ok(differs)" for x in lst[:10]]})
    elif mism:
        c, r, k = min(mism, key=lambda x: len(x[0]["src"]))
        chk.broken.append("correspondence C04: impl differs from model (%d cases), e.g. %r impl=%s" % (
            len(mism), bytes.fromhex(c["src"]).decode("utf8", "replace")[:120], json.dumps(r["r"])[:300]))
