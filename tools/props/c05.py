"""C05: LEF write-then-read returns the library that was written.
Model Lef/LefParse.v (parse) + Lef/LefWrite.v (write_lib), theorems Properties/C05.v, correspondence against
lef21::LefLibrary::open / to_string through harness/src/bin/c04.rs (op "rt": read, write, read again).

One case = a LEF text. Libraries in the image of the reader are obtained by reading texts; a text the reader rejects is not a
case of this property (counted in `rejected_by_reader`). For each accepted text the implementation's library is written by the
implementation, the written text is read again, and `c05_check` (Lef/LefCheck.v) demands: the writer succeeds, the second
read returns a library equal to the first (decimals numerically); and it compares writer text and second read with the model.

Case families
  feature / random   renderings (Lef/LefSpec.v) of the feature libraries and random libraries of C04 (props/c04.py)
  corpus             the hand-written valid texts (incl. the snippets of lef21's own tests)
  directed           small texts for the version gates (statements of LEF <= 5.4 at every version, a second VERSION statement
                     after a gated statement), numbers in every spelling the reader accepts (exponents, 28 digits), odd names
  version_gate_sweep exhaustive: every version spelling (none, 5, 5.0 .. 5.8, 5.40, 5.50, 5.60, 5.80) x every version-dependent statement
                     of reader or writer (NAMESCASESENSITIVE, NOWIREEXTENSIONATPIN, MACRO SOURCE) and a set of later-version statements
                     x the statement before / after VERSION x END LIBRARY present or not
  mutated            single-token faults (delete, duplicate, swap, replace) of the above that the reader still accepts
  c04_dir_*          renderings of the directed families of C04 (props/c04.py directed_cases)
Every accepted library is written twice: `to_string`, and `save` over an existing longer file (what the lefrw binary does); the
saved bytes must be the to_string text (else the saved file is read back and judged)."""
import json, re
from vlib import *
from props.kernelcommon import kernel_tie_leg
from props.lefcommon import *
from props import c04 as C4

HARNESS_BINS = ["c04"]
PROOF_FILES = ["Lef/LefWrite_proofs.v", "Lef/LefWFrame_proofs.v", "Lef/LefWDec_proofs.v", "Lef/LefWPin_proofs.v", "Lef/LefWVia_proofs.v",
               "Lef/LefWMacro_proofs.v", "Lef/LefWLib_proofs.v", "Lef/LefIFrame_proofs.v", "Lef/LefIConstr_proofs.v", "Lef/LefILex_proofs.v",
               "Lef/LefIPin_proofs.v", "Lef/LefIVia_proofs.v", "Lef/LefIMacro_proofs.v", "Lef/LefILib_proofs.v"] + C4.PROOF_FILES[1:]

TOKRE = re.compile(r'#[^\n]*|"[^"]*"?|;|[^\s;]+')
REPL = ["END", "MACRO", "LAYER", "PIN", "PORT", "RECT", "VERSION", "PROPERTY", "UNITS", "ITERATE", "DO", "1.5", "-3", "1e3", "5.4", "5.8", "zz", ";",
        '"s"', "ON", "OFF", "SOURCE", "USER", "NAMESCASESENSITIVE", "NOWIREEXTENSIONATPIN", "SITE", "CLASS", "CORE", "FIXEDMASK", "MASK", "0.10", "-0"]

DIRECTED = [
    "VERSION 5.8 ; NOWIREEXTENSIONATPIN ON ;",
    "VERSION 5.5 ; NOWIREEXTENSIONATPIN OFF ; END LIBRARY",
    "NOWIREEXTENSIONATPIN ON ;",
    "VERSION 5.4 ; NOWIREEXTENSIONATPIN ON ; END LIBRARY",
    "VERSION 5.3 ; NAMESCASESENSITIVE OFF ; END LIBRARY",
    "VERSION 5.4 ; NAMESCASESENSITIVE ON ; VERSION 5.8 ;",
    "VERSION 5.4 ; NOWIREEXTENSIONATPIN ON ; VERSION 5.6 ;",
    "VERSION 5.4 ; MACRO m SOURCE USER ; END m VERSION 5.8 ;",
    "VERSION 5.4 ; MACRO m SOURCE USER ; END m END LIBRARY",
    "VERSION 5.8 ; VERSION 5.4 ; END LIBRARY",
    "VERSION 5.8 ; MACRO m END m VERSION 5.3 ; END LIBRARY",
    "VERSION 5.80 ;", "VERSION 5.8000 ;", "VERSION 5.60 ;", "VERSION 5 ; END LIBRARY", "VERSION 5.0 ; END LIBRARY",
    "SITE s CLASS CORE ; SIZE 1 BY 1 ; END s",
    "SITE s CLASS PAD ; SYMMETRY X Y R90 ; SIZE 0.19 BY 1.71 ; END s",
    "MACRO m PROPERTY p v ; END m",
    'MACRO m PROPERTY p "a b" q 1.50 ; PROPERTY r -1 ; END m',
    "MACRO m PIN a PROPERTY p v ; END a END m",
    "MACRO m SIZE 1e2 BY 1E-2 ; END m", "MACRO m SIZE 1.5e1 BY 0.000e5 ; END m", "MACRO m SIZE -0 BY -0.0 ; END m",
    "MACRO m SIZE 1e28 BY 1 ; END m", "MACRO m SIZE 1e-28 BY 79228162514264337593543950335 ; END m",
    "MACRO m SIZE 0.0000000000000000000000000001 BY 7.9228162514264337593543950335 ; END m",
    "MACRO m SIZE 1.00000000000000000000000000005 BY .5 ; END m", "MACRO m SIZE 5. BY 00.50 ; END m",
    "MACRO m ORIGIN -.5 +1 ; END m", "MACRO m ORIGIN 1 2 ; FOREIGN f 1 2 N ; FOREIGN g ; END m",
    "MACRO m FOREIGN f N ; END m", "MACRO m FOREIGN f 1 2 ; END m",
    "MACRO m CLASS COVER BUMP ; CLASS RING ; CLASS BLOCK ; END m", "MACRO m CLASS PAD AREAIO ; END m", "MACRO m CLASS ENDCAP PRE ; END m",
    "MACRO m SYMMETRY ; END m", "MACRO m SYMMETRY x r90 ; SITE s ; EEQ e ; FIXEDMASK ; END m",
    "MACRO m DENSITY END END m", "MACRO m DENSITY LAYER l ; END END m", "MACRO m DENSITY LAYER l ; RECT 0 0 1 1 0.5 ; END END m",
    "MACRO m OBS END END m", "MACRO m OBS LAYER l ; END END m", "MACRO m OBS LAYER l EXCEPTPGNET SPACING 0.1 ; WIDTH 1 ; END END m",
    "MACRO m OBS LAYER l DESIGNRULEWIDTH 2 EXCEPTPGNET ; RECT MASK 1 0 0 1 1 ; VIA 0 0 v ; END END m",
    "MACRO m OBS LAYER l ; RECT ITERATE 0 0 1 1 DO 2 BY 3 STEP 4 5 ; POLYGON MASK 2 ITERATE 0 0 1 0 1 1 DO 1 BY 1 STEP 0 0 ; PATH 0 0 1 1 ; END END m",
    "MACRO m OBS LAYER l ; PATH ITERATE 0 0 1 1 DO 2 BY 2 STEP 1 1 ; END END m",
    "MACRO m PIN a DIRECTION OUTPUT TRISTATE ; USE CLOCK ; SHAPE FEEDTHRU ; ANTENNAMODEL OXIDE2 ; END a END m",
    "MACRO m PIN a ANTENNAGATEAREA 1.5 ; antennadiffarea 2 LAYER l ; TAPERRULE t ; MUSTJOIN j ; END a END m",
    'MACRO m PIN a NETEXPR "n e" ; SUPPLYSENSITIVITY s ; GROUNDSENSITIVITY g ; END a END m',
    "MACRO m PIN a PORT END PORT CLASS CORE ; LAYER l ; END END a END m", "MACRO m PIN a PORT CLASS BUMP ; CLASS NONE ; END END a END m",
    "MACRO m PIN a DIRECTION INPUT ; DIRECTION INOUT ; END a PIN a END a END m",
    "VIA v END v", "VIA v DEFAULT RESISTANCE 1.5 ; LAYER l ; RECT 0 0 1 1 ; POLYGON MASK 1 0 0 1 0 1 1 ; LAYER k ; END v",
    "VIA v VIARULE r ; CUTSIZE 1 1 ; LAYERS a b c ; CUTSPACING 1 1 ; ENCLOSURE 1 2 3 4 ; END v",
    "VIA v DEFAULT VIARULE r ; ENCLOSURE 1 2 3 4 ; CUTSPACING 1 1 ; LAYERS a b c ; CUTSIZE 1 1 ; ROWCOL 2 3 ; ORIGIN 0 1 ; OFFSET 1 2 3 4 ; END v",
    "UNITS END UNITS", "UNITS DATABASE MICRONS 100 ; END UNITS", "UNITS DATABASE MICRONS 100.0 ; END UNITS", "UNITS DATABASE MICRONS 2e3 ; END UNITS",
    "UNITS TIME NANOSECONDS 1 ; CAPACITANCE PICOFARADS 1 ; RESISTANCE OHMS 1 ; POWER MILLIWATTS 1 ; CURRENT MILLIAMPS 1 ; VOLTAGE VOLTS 1 ; FREQUENCY MEGAHERTZ 1 ; END UNITS",
    'BUSBITCHARS "[]" ; DIVIDERCHAR "/" ;', 'BUSBITCHARS "<é" ; DIVIDERCHAR "中" ;', 'DIVIDERCHAR " " ;', 'BUSBITCHARS "\t\n" ;',
    "MANUFACTURINGGRID 0.005 ; USEMINSPACING OBS ON ; CLEARANCEMEASURE EUCLIDEAN ; FIXEDMASK ;",
    'PROPERTYDEFINITIONS MACRO a STRING ; PIN b STRING "x y" ; LAYER c REAL ; VIA d REAL 1.5 ; VIARULE e INTEGER RANGE 1 2 ; LIBRARY f INTEGER RANGE 1 2 3 ; NONDEFAULTRULE g REAL RANGE 0 1 ; END PROPERTYDEFINITIONS',
    "PROPERTYDEFINITIONS END PROPERTYDEFINITIONS", "PROPERTYDEFINITIONS END PROPERTYDEFINITIONS PROPERTYDEFINITIONS MACRO a STRING ; END PROPERTYDEFINITIONS",
    'BEGINEXT "t" ENDEXT', 'BEGINEXT "t" a 1.5 ; "q r" endext', 'BEGINEXT "a b" x  y\n z ENDEXT BEGINEXT "" ENDEXT', 'BEGINEXT "t" é "unterminated',
    "MACRO _m END _m", "MACRO 18T END 18T", "MACRO -x END -x", "MACRO mé END mé", 'MACRO m PROPERTY "p" "v" ; END m', "MACRO m SITE 1a ; END m",
    "MACRO m PIN a PROPERTY p 1e3 ; END a END m", "MACRO m PROPERTY p inf ; END m", "MACRO m PROPERTY p ; END m", "MACRO m PROPERTY ; END m",
    "MACRO M END M MACRO M END M", "MACRO END END END",
    "VERSION 5.4 ; NAMESCASESENSITIVE ON ; MACRO m END m END LIBRARY MACRO n",
    # generator audit 2026-10-02: statements the reader accepts in an order / number the writer does not use (the later one wins,
    # or both are kept); WIDTH and VIA between geometries; quoted text with newlines; BEGINEXT text with comments and keywords
    'MACRO m PIN a PROPERTY p v q "two words" r -1.50 ; PROPERTY s t ; END a END m', 'MACRO m PIN a PROPERTY p v ; PROPERTY q w ; PROPERTY r x y z ; END a END m',
    "MACRO m OBS LAYER a ; RECT 0 0 1 1 ; END OBS LAYER b ; END END m", "MACRO m DENSITY LAYER a ; RECT 0 0 1 1 5 ; END DENSITY LAYER b ; END END m",
    "MACRO m SIZE 1 BY 2 ; SIZE 3.0 BY 4.00 ; ORIGIN 1 1 ; ORIGIN -0.50 0 ; SYMMETRY X ; SYMMETRY R90 Y ; SITE a ; SITE b ; EEQ e ; EEQ f ; END m",
    "MACRO m OBS LAYER l ; RECT 0 0 1 1 ; WIDTH 2 ; VIA 0 0 v ; PATH 0 0 1 1 ; WIDTH 3.0 ; VIA 1 1 w ; POLYGON 0 0 1 0 1 1 0 0 ; END END m",
    "MACRO m OBS LAYER l SPACING 1 DESIGNRULEWIDTH 2 ; LAYER l DESIGNRULEWIDTH 2 SPACING 1 EXCEPTPGNET EXCEPTPGNET ; LAYER l ; END END m",
    "MACRO m PIN a PORT LAYER l ; RECT 0 0 1 1 ; LAYER l ; RECT 0 0 1 1 ; END PORT END PORT CLASS NONE ; LAYER l ; END END a END m",
    "MACRO m PIN a USE SIGNAL ; USE POWER ; SHAPE RING ; SHAPE ABUTMENT ; ANTENNAMODEL OXIDE1 ; ANTENNAGATEAREA 1 ; ANTENNAMODEL OXIDE2 ; ANTENNAGATEAREA 2 ; END a END m",
    'MACRO m PIN a NETEXPR "line1\nline2 # ; " ; TAPERRULE t ; TAPERRULE u ; MUSTJOIN a ; END a END m', "MACRO m PIN a ANTENNAGATEAREA 1 LAYER LAYER ; END a END m",
    "UNITS DATABASE MICRONS 100 ; END UNITS UNITS TIME NANOSECONDS 2 ; END UNITS", "UNITS DATABASE MICRONS 100 ; DATABASE MICRONS 20000 ; TIME NANOSECONDS 1 ; TIME NANOSECONDS 2.50 ; END UNITS",
    "VIA v RESISTANCE 2 ; END v", "VIA v DEFAULT END v", "VIA DEFAULT DEFAULT END DEFAULT", "VIA DEFAULT END DEFAULT", "VIA v LAYER l ; LAYER l ; RECT MASK 1 0 0 1 1 ; END v VIA v END v",
    "VIA v VIARULE r ; CUTSIZE 1 1 ; CUTSIZE 2 2 ; LAYERS a b c ; CUTSPACING 1 1 ; ENCLOSURE 1 2 3 4 ; ROWCOL 1 1 ; ROWCOL 2 2 ; END v",
    "SITE s CLASS CORE ; CLASS PAD ; SIZE 1 BY 1 ; SIZE 2 BY 2 ; SYMMETRY ; END s SITE s CLASS CORE ; SIZE 1 BY 1 ; END s",
    "MANUFACTURINGGRID 1 ; MANUFACTURINGGRID 0.0050 ; FIXEDMASK ; FIXEDMASK ; USEMINSPACING OBS ON ; USEMINSPACING OBS OFF ; CLEARANCEMEASURE MAXXY ; CLEARANCEMEASURE EUCLIDEAN ;",
    'BUSBITCHARS "[]" ; BUSBITCHARS "<>" ; DIVIDERCHAR "/" ; DIVIDERCHAR "|" ;', 'BUSBITCHARS "#;" ; DIVIDERCHAR "#" ;', 'BUSBITCHARS "😀́" ; DIVIDERCHAR "\\" ;',
    'BEGINEXT "a\nb" ENDEXT', 'BEGINEXT "t" "a\nb" x # comment ENDEXT\n y ENDEXT', 'BEGINEXT "t" BEGINEXT "u" ENDEXT', 'BEGINEXT "t" END LIBRARY ENDEXT MACRO m END m',
    'BEGINEXT "t" x ENDEXT\nBEGINEXT "t" x ENDEXT', "MACRO LIBRARY END LIBRARY END LIBRARY", "MACRO m PIN END END END END m", "MACRO m PROPERTY PROPERTY PROPERTY ; END m",
    "MACRO inf SIZE 1 BY 1 ; END inf MACRO nan END nan", "MACRO m FOREIGN inf 1 2 ; END m", "MACRO m FOREIGN - 1 2 FN ; EEQ -. ; SITE 1e+ ; END m",
    "PROPERTYDEFINITIONS MACRO RANGE REAL RANGE 1 2 ; MACRO STRING STRING \"STRING\" ; LIBRARY a INTEGER 5 ; END PROPERTYDEFINITIONS",
    "MACRO m OBS LAYER l ; " + "RECT 0 0 1 1 ; " * 40 + "END END m", "MACRO m PIN a " + "PORT LAYER l ; END " * 12 + "END a END m", "".join("MACRO m%d END m%d " % (i, i) for i in range(30)),
    "MACRO m OBS LAYER l ; POLYGON " + " ".join("%d.%d -%d" % (i, i % 10, i) for i in range(1, 150)) + " ; END END m",
]

SWEEP_VERSIONS = [None, "5", "5.0", "5.1", "5.2", "5.3", "5.4", "5.40", "5.5", "5.50", "5.6", "5.60", "5.7", "5.8", "5.80"]
SWEEP_STATEMENTS = [
    # gated by the reader and the writer (LEF <= 5.4)
    "NAMESCASESENSITIVE ON ;", "NAMESCASESENSITIVE OFF ;", "NOWIREEXTENSIONATPIN ON ;", "NOWIREEXTENSIONATPIN OFF ;",
    "MACRO m SOURCE USER ; END m", "MACRO m SOURCE NETLIST ; END m", "MACRO m SOURCE DIST ; END m", "MACRO m SOURCE TIMING ; END m",
    "MACRO m SOURCE GENERATE ; END m", "MACRO m SOURCE BLOCK ; END m",
    "MACRO m SOURCE USER ; END m MACRO n END n", "NAMESCASESENSITIVE ON ; NOWIREEXTENSIONATPIN OFF ; MACRO m SOURCE USER ; END m",
    # statements of later LEF versions that lef21 accepts at any version (no gate in read.rs / write.rs): must stay writable
    "FIXEDMASK ;", "MACRO m FIXEDMASK ; END m", "USEMINSPACING OBS ON ;", "CLEARANCEMEASURE MAXXY ;", "MANUFACTURINGGRID 0.005 ;",
    "MACRO m OBS LAYER l ; RECT MASK 1 0 0 1 1 ; END END m", "MACRO m PIN a ANTENNAMODEL OXIDE1 ; ANTENNAGATEAREA 1 ; END a END m",
    'MACRO m PIN a NETEXPR "n e" ; SUPPLYSENSITIVITY s ; END a END m', "MACRO m DENSITY LAYER l ; RECT 0 0 1 1 50 ; END END m",
    "MACRO m OBS LAYER l EXCEPTPGNET ; END END m", "PROPERTYDEFINITIONS MACRO a STRING ; END PROPERTYDEFINITIONS", 'BEGINEXT "t" x ENDEXT',
    "VIA v VIARULE r ; CUTSIZE 1 1 ; LAYERS a b c ; CUTSPACING 1 1 ; ENCLOSURE 1 2 3 4 ; END v", "SITE s CLASS CORE ; SIZE 1 BY 1 ; END s",
    "UNITS DATABASE MICRONS 1000 ; END UNITS", "",
]

def version_gate_sweep():
    out = []
    for v in SWEEP_VERSIONS:
        head = "" if v is None else "VERSION %s ; " % v
        for st in SWEEP_STATEMENTS:
            for end in ("", " END LIBRARY"):
                out.append((head + st + end).strip())
                if v is not None and st:
                    out.append((st + " " + head.strip() + end).strip())       # the statement BEFORE the VERSION statement
    return out

def tokens(s):
    return [(m.start(), m.end()) for m in TOKRE.finditer(s)]

def clong(h, n=1600):
    """hex string -> Coq bytes term; a long text is given in pieces (one string literal of some ten thousand characters
    overflows coqc's stack)"""
    if len(h) <= n:
        return cbytes(h)
    parts = [h[i:i + n] for i in range(0, len(h), n)]
    t = '(unhex "%s")' % parts[-1]
    for p in reversed(parts[:-1]):
        t = '(app (unhex "%s") %s)' % (p, t)
    return Raw(t)

def gen_cases(chk):
    rng = chk.rng
    quick = chk.tier == "quick"
    cases, dist, seen = [], {}, set()
    def add(kind, b):
        if isinstance(b, str):
            b = b.encode("utf8")
        if b in seen:
            return False
        seen.add(b)
        cases.append({"kind": kind, "src": b.hex()})
        dist[kind] = dist.get(kind, 0) + 1
        return True
    # renderings
    pairs, kinds = [], []
    for label, lib in C4.feature_libs():
        pairs.append((Raw(C4.STY_PLAIN), lib)); kinds.append("feature")
        if not quick:
            pairs.append((gen_style(rng, lib), lib)); kinds.append("feature")
    for i in range(140 if quick else 1500):
        ver = rng.choice([None, 53, 54, 55, 56, 57, 58])
        lib = gen_lib(rng, ver, "plain" if i % 3 == 0 else "mixed")
        pairs.append((gen_style(rng, lib, plain=(i % 5 == 0)), lib)); kinds.append("random")
    # the directed families of C04 (decimal classes in every spelling, every VERSION / DATABASE MICRONS value, LAYER statement options,
    # identifiers that are keywords / nearly numbers / all equal, long lists, special characters, BEGINEXT texts); of the styled copies
    # of one library only a few (the property is about the library value, not its lexical form)
    for kind, label, sty, lib in C4.directed_cases(quick):
        if kind == "dir_full_styled" and not label.endswith(("plain", "all spellings", "order=reversed", "sep=CRLF")):
            continue
        if kind in ("dir_version", "dir_dbu") and "sp(0, False, 0, False)" not in label and "sp(0, False, 3, False)" not in label and quick:
            continue
        pairs.append((Raw(sty), lib)); kinds.append("c04_" + kind)
    base = []
    for k, b in zip(kinds, C4.render_pairs(chk, pairs, "c05_render")):
        if add(k, b):
            base.append(b.decode("utf8"))
    for n, b in corpus():
        if add("corpus", b):
            base.append(b.decode("utf8"))
    for s in DIRECTED:
        if add("directed", s):
            base.append(s)
    # exhaustive sweep of the version gates (read.rs / write.rs: every test of `lef_version`): every version spelling x every
    # version-dependent statement x END LIBRARY present or not; whatever the reader accepts must be written and read back
    for s in version_gate_sweep():
        add("version_gate_sweep", s)
    # single-token faults; only the texts the reader still accepts become cases of the property
    nm = 3 if quick else 10
    for s in base:
        tk = tokens(s)
        if not tk:
            continue
        for _ in range(nm):
            i = rng.randrange(len(tk))
            a, e = tk[i]
            k = rng.choice(["delete", "duplicate", "swap", "replace", "replace"])
            if k == "delete":
                add("mut_delete", s[:a] + s[e:])
            elif k == "duplicate":
                add("mut_duplicate", s[:e] + " " + s[a:e] + s[e:])
            elif k == "swap" and i + 1 < len(tk):
                a2, e2 = tk[i + 1]
                add("mut_swap", s[:a] + s[a2:e2] + s[e:a2] + s[a:e] + s[e2:])
            elif k == "replace":
                add("mut_replace", s[:a] + rng.choice(REPL) + s[e:])
    return cases, dist

def evaluate(chk, cases, tag):
    """returns per case: None (rejected by the reader / not a case) or (code_property, code_first_read), plus the harness results"""
    cfg = model_cfg()
    for pr in MODEL_CFG_PROBLEMS:
        if ("translator (LEF defect flags): " + pr) not in chk.broken:
            chk.broken.append("translator (LEF defect flags): " + pr)
    res = harness("c04", [{"op": "rt", "src": c["src"]} for c in cases])
    items, idx = [], []
    out = [None] * len(cases)
    for i, (c, r) in enumerate(zip(cases, res)):
        if "r" not in r:
            r["r"] = {"crash": r.get("crash", "?")}
        if "ok" not in r["r"]:
            continue
        if r["r"]["ok"].get("unsupported_set"):
            out[i] = (2, 0)
            continue
        w = r.get("w") or {}
        sv = r.get("save")
        if sv is not None and not sv.get("same"):
            # `save` (the file the lefrw binary leaves) is not the text of `to_string`: judged by reading the saved file back
            r3 = sv.get("r3") or {}
            same_lib = "ok" in r3 and C4.lib_diff(R("lef_lib"), {k: v for k, v in r["r"]["ok"].items() if k != "unsupported_set"},
                                                  {k: v for k, v in r3["ok"].items() if k != "unsupported_set"}) is None
            c["save_problem"] = ("save refuses / panics: %s" % json.dumps(sv)[:200]) if "text" not in sv else \
                                ("the saved file differs from to_string and reads back %s" % ("equal" if same_lib else "differently: " + json.dumps(r3)[:200]))
            out[i] = (1 if same_lib else 2, 0)
            continue
        wt = "(Some %s)" % clong(w["text"]) if "text" in w else "None"
        wpanic = cbool("wpanic" in w or not w)
        i1 = res_to_coq(r["r"])
        i2 = res_to_coq(r.get("r2"))
        lib = lib_to_coq(r["r"]["ok"])
        items.append("(c05_check %s %s %s %s %s, if res_matches (parse %s %s) %s then 0 else 1)" % (cfg, lib, wt, wpanic, i2, cfg, clong(c["src"]), i1))
        idx.append(i)
    # shards of equal work: the items are dealt to the shards by decreasing size (long texts would otherwise sit in one shard)
    shard = max(20, len(items) // (3 * NCPU) + 1)
    nsh = max(1, -(-len(items) // shard))
    by_size = sorted(range(len(items)), key=lambda j: -len(items[j]))
    buckets = [by_size[k::nsh] for k in range(nsh)]
    shard = max(1, max(len(b) for b in buckets))
    perm = [j for b in buckets for j in b + [None] * (shard - len(b))]
    outs_p = coq_eval_lists(LEF_HDR, [items[j] if j is not None else "(0, 0)" for j in perm], chk.rundir, tag, shard=shard)
    outs = [None] * len(items)
    for j, o in zip(perm, outs_p):
        if j is not None:
            outs[j] = o
    for i, o in zip(idx, outs):
        m = re.match(r"\(\(?(-?\d+)\)?(?:%Z)?, \(?(-?\d+)\)?(?:%Z)?\)", o.strip())
        if not m:
            raise RuntimeError("bad coq output %r" % o)
        out[i] = (int(m.group(1)), int(m.group(2)))
    return res, out

def failure_class(r):
    w = r.get("w") or {}
    sv = r.get("save")
    if sv is not None and not sv.get("same"):
        return "save: " + ("the file written differs from to_string" if "text" in sv else "refuses or panics although to_string succeeds")
    if "wpanic" in w:
        return "the writer panics"
    if "werr" in w:
        return "the writer refuses: " + re.sub(r"[0-9.]+", "N", w["werr"])[:120]
    if "text" not in w:
        return "not written"
    return "written text is " + C4.failure_class(r["r"]["ok"], r.get("r2"))

def run(chk, replay=None):
    chk.proof_leg(["Lef/LefCheck.vo"], "Properties/C05.v", PROOF_FILES, "Properties.C05")
    kernel_tie_leg(chk, "lef_write")      # LefWriter::write_layer_geom / write_geom / write_port / write_pin / write_via / write_site / write_units / write_density .. generated from lef21/src/write.rs = the lines of Lef/LefWrite.v (Properties/KernelsLef.v)
    kernel_tie_leg(chk, "lef_write_lib")  # LefWriter::write_macro / format_numeric_prop_def / write_lib (the whole file) = write_macro / write_lib_lines of Lef/LefWrite.v, lines and failure alike
    kernel_tie_leg(chk, "lef_parse")      # LefParser token helpers and parse_density generated from lef21/src/read.rs = Lef/LefParse.v (Properties/KernelsLef.v)
    kernel_tie_leg(chk, "lef_parse2")     # LefParser::parse_units / parse_site_def / parse_macro_class / parse_property / parse_geometry .. (Gen/KernelsLefRead2Gen.v) = Lef/LefParse.v
    kernel_tie_leg(chk, "lef_parse3")     # LefParser::parse_layer_geometries / parse_via_shape / parse_via_layer_geometries / parse_obstructions / parse_port / parse_property_definitions = Lef/LefParse.v
    kernel_tie_leg(chk, "lef_parse_lib")  # LefParser::parse_pin, the whole function = parse_pin / pin_loop of Lef/LefParse.v
    kernel_tie_leg(chk, "lef_parse_macro")  # LefParser::parse_macro, the whole function = parse_macro / macro_loop of Lef/LefParse.v
    kernel_tie_leg(chk, "lef_parse_via")    # LefParser::parse_via, the whole function = parse_via / gen_via_loop / fixed_via_layers_loop of Lef/LefParse.v
    chk.assumptions += [
        "rust_decimal's Decimal::from_str / Display / PartialEq are an external library: specified in Lef/LefDec.v from its source and validated by the correspondence",
        "std formatting (`write!`, Display of char and integers) and derive_builder `build()` are modelled by their documented behaviour",
        "the image of the reader is explored by reading texts (renderings of generated libraries, hand-written texts, token faults that are still accepted)",
        "the model stands for %s (each flag re-read from the source text of /repo on this run)" % model_cfg(),
    ]
    if not getattr(chk, "model_ok", False):
        return
    if replay:
        obj = json.load(open(replay))["replay"]
        cases = obj.get("cases", [])
        dist = {}
    else:
        cases, dist = gen_cases(chk)
    chk.cov["input_distribution"] = dist
    chk.cov["rule"] = ("LEF texts; a text is a case when lef21 reads it (the property is about libraries in the image of the reader). Renderings of the C04 feature "
                       "libraries (one per field / variant / enum value of the data model) and of random libraries (versions none/5.3..5.8, random styles), the hand-written "
                       "corpus, directed texts (version gates, a second VERSION statement, exponent and 28-digit numbers, odd names), an exhaustive sweep of version x "
                       "version-dependent statement x position x END LIBRARY, renderings of C04's directed families (c04_dir_*), and single-token faults of all of "
                       "these that are still accepted. Non-trivial: the text is accepted and the library read is not the empty library; distinct by text.")
    res, codes = evaluate(chk, cases, "c05")
    acc = [(c, r, k) for c, r, k in zip(cases, res, codes) if k is not None]
    chk.cov["evaluations"] = len(acc)
    chk.cov["rejected_by_reader"] = len(cases) - len(acc)
    empty = {k: v for k, v in minimal_lib().items()}
    def nontriv(r):
        l = {k: v for k, v in r["r"]["ok"].items() if k != "unsupported_set"}
        return l != empty
    chk.cov["distinct_nontrivial"] = len({c["src"] for c, r, k in acc if nontriv(r)})
    chk.cov["traces_validated_against_impl"] = sum(1 for c, r, k in acc if k == (0, 0))
    chk.cov["unmodelled_decimal_paths"] = sum(1 for c, r, k in acc if k[0] == 3)
    chk.cov["accepted_by_kind"] = {}
    for c, r, k in acc:
        chk.cov["accepted_by_kind"][c["kind"]] = chk.cov["accepted_by_kind"].get(c["kind"], 0) + 1
    step = max(1, len(acc) // 6)
    chk.add_samples([{"kind": c["kind"], "text": bytes.fromhex(c["src"]).decode("utf8", "replace")[:240], "codes": k,
                      "written": bytes.fromhex((r.get("w") or {}).get("text", "")).decode("utf8", "replace")[:240]} for c, r, k in acc[::step]], k=6)
    viol = [(c, r, k) for c, r, k in acc if k[0] == 2]
    mism = [(c, r, k) for c, r, k in acc if k[0] == 1 or k[1] == 1]
    chk.cov["correspondence_mismatches"] = len(mism)
    if viol:
        classes = {}
        for c, r, k in viol:
            classes.setdefault(failure_class(r), []).append((c, r))
        chk.cov["violation_classes"] = {k: len(v) for k, v in sorted(classes.items(), key=lambda kv: -len(kv[1]))}
        order = sorted(classes.items(), key=lambda kv: min(len(x[0]["src"]) for x in kv[1]))
        for cls, lst in order[:12]:
            lst.sort(key=lambda x: len(x[0]["src"]))
            c, r = lst[0]
            w = r.get("w") or {}
            chk.violation("LEF text %r is read, but %s (written: %r; second read: %s; %d failing cases of %d in this class)" % (
                bytes.fromhex(c["src"]).decode("utf8", "replace")[:200], cls, bytes.fromhex(w.get("text", "")).decode("utf8", "replace")[:200] or w,
                json.dumps(r.get("r2"))[:200], len(lst), len(acc)),
                {"cases": [x[0] for x in lst[:10]], "class": cls, "kinds": {k: sum(1 for x in lst if x[0]["kind"] == k) for k in sorted({x[0]["kind"] for x in lst})}, "impl": [{"w": x[1].get("w"), "r2": x[1].get("r2") if "ok" not in (x[1].get("r2") or {}) else "ok(differs)"} for x in lst[:10]]})
    elif mism:
        c, r, k = min(mism, key=lambda x: len(x[0]["src"]))
        chk.broken.append("correspondence C05: impl differs from model (%d cases; codes %s), e.g. %r written=%r%s" % (
            len(mism), k, bytes.fromhex(c["src"]).decode("utf8", "replace")[:120], bytes.fromhex((r.get("w") or {}).get("text", "")).decode("utf8", "replace")[:200],
            (" ; " + c["save_problem"]) if c.get("save_problem") else ""))
