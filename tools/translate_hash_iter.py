#!/usr/bin/env python3
"""Translator for C20: lists every place where the conversion code ITERATES a hash container.

Determinism of the conversions (C20) rests on one assumption of the models: a `HashMap`/`HashSet` is only ever looked
up, or iterated through a sort by key (theorem C20_sorted_iteration_order_irrelevant), or iterated in a way whose
result cannot depend on the order.  This script re-reads the Rust sources on every run and writes
coq/Gen/HashIterGen.v, the list of all iteration sites over hash-typed names with a flag "goes through a sort";
Properties/C20.v proves (vm_compute) that every site is sorted or is on the reviewed list Order/HashIterAllowed.v.
A new unsorted iteration therefore breaks a proof obligation even when no sampled run happens to show two orders.

Heuristics (regex, no Rust parser; stated so the trusted base is clear):
 * hash-typed names: struct fields and parameters whose declared type mentions HashMap/HashSet (in ANY scanned file: fields
   are used across files), and `let` bindings initialised from HashMap::/HashSet:: constructors (same file only); a Vec
   that happens to carry one of these names shows up as a site too and is then listed, with that reason, as allowed;
 * an iteration site: `<name>.iter()|iter_mut()|into_iter()|values()|values_mut()|keys()|drain()|into_values()|into_keys()`
   or `for .. in [&][mut] <path ending in name>`;
 * "sorted": the statement passes the map to `sorted_by_layer(`, or the iterator is collected and the next four lines
   sort it (`.sort`), or the chain itself contains `.sorted`.
"""
import os, re, sys

REPO = os.environ.get("VERIF_REPO", "/repo")
COQ = os.environ.get("VERIF_COQ_DIR", os.path.join(os.path.dirname(os.path.dirname(os.path.abspath(__file__))), "coq"))
SCAN = ["layout21raw/src", "layout21tetris/src", "layout21tetris/src/conv", "layout21utils/src", "layout21converters/src"]
ITER = r"(?:iter|iter_mut|into_iter|values|values_mut|keys|drain|into_values|into_keys)"

def rust_files():
    out = []
    for d in SCAN:
        p = os.path.join(REPO, d)
        if not os.path.isdir(p):
            continue
        for fn in sorted(os.listdir(p)):
            if fn.endswith(".rs") and fn not in ("tests.rs",) and not fn.startswith("test"):
                out.append(os.path.join(d, fn))
    return out

def strip_comments(src):
    src = re.sub(r"//[^\n]*", "", src)
    return re.sub(r"/\*.*?\*/", lambda m: "\n" * m.group(0).count("\n"), src, flags=re.S)

def field_names(src):
    """names declared with a hash type as struct fields or parameters: visible from other files too"""
    names = set()
    for m in re.finditer(r"\b(?:pub(?:\([a-z]+\))?\s+)?([a-z_][a-z0-9_]*)\s*:\s*&?\s*(?:'[a-z]+\s+)?(?:mut\s+)?(?:std::collections::)?Hash(?:Map|Set)\s*<", src):
        names.add(m.group(1))
    return names

def hash_names(src):
    names = field_names(src)
    for m in re.finditer(r"\blet\s+(?:mut\s+)?([a-z_][a-z0-9_]*)\s*(?::[^=;]*)?=\s*(?:std::collections::)?Hash(?:Map|Set)\s*::", src):
        names.add(m.group(1))
    return names

def enclosing_fn(src, pos):
    best = "?"
    for m in re.finditer(r"\bfn\s+([A-Za-z_][A-Za-z0-9_]*)", src[:pos]):
        best = m.group(1)
    return best

def main():
    sites = []
    shared = set()
    for rel in rust_files():
        shared |= field_names(strip_comments(open(os.path.join(REPO, rel)).read()))
    for rel in rust_files():
        raw = open(os.path.join(REPO, rel)).read()
        src = strip_comments(raw)
        # drop #[cfg(test)] modules at the end of a file
        cut = re.search(r"#\[cfg\(test\)\]\s*mod\s", src)
        if cut:
            src = src[:cut.start()]
        names = hash_names(src) | shared
        if not names:
            continue
        alt = "|".join(sorted(re.escape(n) for n in names))
        lines = src.split("\n")
        offs = [0]
        for l in lines:
            offs.append(offs[-1] + len(l) + 1)
        for i, l in enumerate(lines):
            hit = None
            m = re.search(r"((?:[A-Za-z_][A-Za-z0-9_]*\s*\.\s*)*\b(?:%s))\s*\.\s*(%s)\s*\(" % (alt, ITER), l)
            if m:
                hit = (m.group(1) + "." + m.group(2) + "()")
            else:
                m = re.search(r"\bfor\b[^{;]*\bin\s+&?\s*(?:mut\s+)?((?:[A-Za-z_][A-Za-z0-9_]*\s*\.\s*)*\b(?:%s))\s*\{" % alt, l)
                if m:
                    hit = "for in " + m.group(1)
            m2 = re.search(r"sorted_by_layer\s*\(\s*&?\s*((?:[A-Za-z_][A-Za-z0-9_]*\s*\.\s*)*\b(?:%s))\s*\)" % alt, l)
            if m2 and not hit:
                hit = "sorted_by_layer(" + m2.group(1) + ")"
            if not hit:
                continue
            window = " ".join(lines[i:i + 5])
            srt = bool(m2) or ".sorted" in l or (".collect" in window and re.search(r"\.\s*sort(?:_by|_by_key|_unstable|_unstable_by|_unstable_by_key)?\s*\(", window) is not None)
            expr = re.sub(r"\s+", "", hit)
            sites.append((rel, enclosing_fn(src, offs[i]), expr, srt))
    sites = sorted(set(sites))
    q = lambda s: '"' + s.replace('"', '""') + '"'
    body = ["(** GENERATED by tools/translate_hash_iter.py from the Rust sources on every run -- do not edit. *)",
            "From Coq Require Import String List Bool.", "Import ListNotations.", "Local Open Scope string_scope.",
            "(** (file, enclosing function, iteration expression, goes through a sort by key) *)",
            "Definition hash_iter_sites : list (string * string * string * bool) := ["]
    body.append(";\n".join("  (%s, %s, %s, %s)" % (q(a), q(b), q(c), "true" if d else "false") for a, b, c, d in sites))
    body.append("].")
    txt = "\n".join(body) + "\n"
    out = os.path.join(COQ, "Gen", "HashIterGen.v")
    old = open(out).read() if os.path.exists(out) else None
    if old != txt:
        open(out, "w").write(txt)
    print("hash-iteration sites: %d (%d sorted)%s" % (len(sites), sum(1 for s in sites if s[3]), "" if old == txt else " [rewritten]"))

if __name__ == "__main__":
    main()
