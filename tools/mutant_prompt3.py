#!/usr/bin/env python3
"""Fourth-wave prompt: mutant_prompt2.py with deliverables m10..m12 (the list of earlier changes now includes waves 1-3)."""
import os, subprocess, sys
out = subprocess.run([sys.executable, os.path.join(os.path.dirname(os.path.abspath(__file__)), "mutant_prompt2.py")] + sys.argv[1:],
                     stdout=subprocess.PIPE, text=True).stdout
print(out.replace("m<i+6>", "m<i+9>").replace("m7, m8, m9 (not m1..m6)", "m10, m11, m12 (not m1..m9)"))
