#!/usr/bin/env python3
"""Entry point: tools/verif.py <Cxx> [--tier quick|thorough] [--replay path]"""
import argparse, importlib, os, sys
sys.path.insert(0, os.path.dirname(os.path.abspath(__file__)))
import vlib

def main():
    ap = argparse.ArgumentParser()
    ap.add_argument("pid")
    ap.add_argument("--tier", default=os.environ.get("VERIF_TIER", "quick"))
    ap.add_argument("--replay", default=None)
    a = ap.parse_args()
    seed = int(os.environ.get("VERIF_SEED", "1") or "1")
    tier = a.tier if a.tier in ("quick", "thorough") else "quick"
    mod = importlib.import_module("props.%s" % a.pid.lower())
    chk = vlib.Check(a.pid, tier, seed)
    ok, out = vlib.build_harness(getattr(mod, 'HARNESS_BINS', [a.pid.lower()]))
    if not ok:
        chk.write_log("cargo_build.log", out)
        chk.broken.append("harness build against /repo failed: " + vlib.last_error(out))
        sys.exit(chk.finish())
    mod.run(chk, replay=a.replay)
    sys.exit(chk.finish())

if __name__ == "__main__":
    main()
