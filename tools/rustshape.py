"""Tiny Rust declaration reader: structs / enums / enumstr! with serde attributes (regex + bracket matching).
Used by translate_serde_shapes.py. Returns dict name -> decl."""
import re

def strip_comments(src):
    out = []
    i = 0
    n = len(src)
    while i < n:
        if src.startswith("//", i):
            j = src.find("\n", i)
            i = n if j < 0 else j
        elif src.startswith("/*", i):
            j = src.find("*/", i)
            i = n if j < 0 else j + 2
        elif src[i] == '"':
            j = i + 1
            while j < n and src[j] != '"':
                j += 2 if src[j] == "\\" else 1
            out.append(src[i:j + 1]); i = j + 1
        else:
            out.append(src[i]); i += 1
    return "".join(out)

def match_close(s, i, open_ch, close_ch):
    d = 0
    while i < len(s):
        if s[i] == open_ch:
            d += 1
        elif s[i] == close_ch:
            d -= 1
            if d == 0:
                return i
        elif s[i] == '"':
            i += 1
            while s[i] != '"':
                i += 2 if s[i] == "\\" else 1
        i += 1
    raise ValueError("unbalanced")

def split_top(s, sep=","):
    parts = []
    d = 0
    cur = []
    i = 0
    while i < len(s):
        c = s[i]
        if c in "([{<":
            d += 1
        elif c in ")]}>":
            d -= 1
        if c == '"':
            j = i + 1
            while s[j] != '"':
                j += 2 if s[j] == "\\" else 1
            cur.append(s[i:j + 1]); i = j + 1; continue
        if c == sep and d == 0:
            parts.append("".join(cur)); cur = []
        else:
            cur.append(c)
        i += 1
    if "".join(cur).strip():
        parts.append("".join(cur))
    return [p.strip() for p in parts]

def parse_attrs(txt):
    """txt: the attribute text preceding an item/field. Returns (derives:set, serde:list[str])"""
    derives = set()
    serde = []
    for m in re.finditer(r"#\[\s*derive\s*\((.*?)\)\s*\]", txt, re.S):
        derives |= {x.strip().split("::")[-1] for x in m.group(1).split(",")}
    i = 0
    while True:
        m = re.search(r"#\[\s*serde\s*\(", txt[i:])
        if not m:
            break
        st = i + m.end() - 1
        en = match_close(txt, st, "(", ")")
        serde += split_top(txt[st + 1:en])
        i = en
    return derives, serde

def take_attrs(body, pos):
    """consume attributes starting at pos; returns (attrtext, newpos)"""
    start = pos
    while True:
        m = re.match(r"\s*#\[", body[pos:])
        if not m:
            break
        st = pos + m.end() - 1
        en = match_close(body, st, "[", "]")
        pos = en + 1
    return body[start:pos], pos

def parse_fields(body):
    """named fields of a struct body '{ ... }' content"""
    fields = []
    for part in split_top(body):
        if not part:
            continue
        attrs, p = take_attrs(part, 0)
        rest = part[p:].strip()
        m = re.match(r"(?:pub(?:\([^)]*\))?\s+)?(r#)?([A-Za-z_][A-Za-z0-9_]*)\s*:\s*(.*)$", rest, re.S)
        if not m:
            raise ValueError("cannot parse field: %r" % rest[:80])
        _, serde = parse_attrs(attrs)
        fields.append({"name": m.group(2), "ty": re.sub(r"\s+", "", m.group(3)), "serde": serde})
    return fields

def parse_tuple_types(body):
    res = []
    for part in split_top(body):
        attrs, p = take_attrs(part, 0)
        rest = part[p:].strip()
        rest = re.sub(r"^pub(\([^)]*\))?\s+", "", rest)
        res.append(re.sub(r"\s+", "", rest))
    return res

def parse_decls(src):
    s = strip_comments(src)
    decls = {}
    # enumstr! invocations
    for m in re.finditer(r"enumstr!\s*\(", s):
        st = m.end() - 1
        en = match_close(s, st, "(", ")")
        inner = s[st + 1:en]
        attrs, p = take_attrs(inner, 0)
        m2 = re.match(r"\s*([A-Za-z_][A-Za-z0-9_]*)\s*\{", inner[p:])
        if not m2:
            raise ValueError("enumstr parse")
        b0 = p + m2.end() - 1
        b1 = match_close(inner, b0, "{", "}")
        variants = []
        for part in split_top(inner[b0 + 1:b1]):
            a, q = take_attrs(part, 0)
            mm = re.match(r"\s*([A-Za-z_][A-Za-z0-9_]*)\s*:\s*\"(.*)\"\s*$", part[q:], re.S)
            if not mm:
                raise ValueError("enumstr variant: %r" % part)
            variants.append({"name": mm.group(1), "str": mm.group(2), "kind": "unit"})
        decls[m2.group(1)] = {"kind": "enumstr", "variants": variants, "derives": {"Serialize", "Deserialize"}, "serde": []}
    # structs and enums (top level or nested in modules), with preceding attributes
    for m in re.finditer(r"((?:#\[[^\]]*\]\s*)*)pub\s+(struct|enum)\s+([A-Za-z_][A-Za-z0-9_]*)\s*(<[^>{(;]*>)?\s*([{(;])", s):
        attrs, kind, name, generics, opener = m.groups()
        # attributes may contain nested brackets rarely; re-take them properly
        derives, serde = parse_attrs(attrs)
        pos = m.end() - 1
        if kind == "struct":
            if opener == ";":
                decls[name] = {"kind": "unit_struct", "derives": derives, "serde": serde}
            elif opener == "(":
                en = match_close(s, pos, "(", ")")
                decls[name] = {"kind": "tuple_struct", "types": parse_tuple_types(s[pos + 1:en]), "derives": derives, "serde": serde}
            else:
                en = match_close(s, pos, "{", "}")
                decls[name] = {"kind": "struct", "fields": parse_fields(s[pos + 1:en]), "derives": derives, "serde": serde}
        else:
            en = match_close(s, pos, "{", "}")
            variants = []
            for part in split_top(s[pos + 1:en]):
                a, q = take_attrs(part, 0)
                _, vserde = parse_attrs(a)
                rest = part[q:].strip()
                mm = re.match(r"([A-Za-z_][A-Za-z0-9_]*)\s*(.*)$", rest, re.S)
                vname, tail = mm.group(1), mm.group(2).strip()
                tail = re.sub(r"=\s*[-0-9xA-Fa-f_]+\s*$", "", tail).strip()   # explicit discriminant
                if not tail:
                    variants.append({"name": vname, "kind": "unit", "serde": vserde})
                elif tail.startswith("("):
                    e2 = match_close(tail, 0, "(", ")")
                    variants.append({"name": vname, "kind": "tuple", "types": parse_tuple_types(tail[1:e2]), "serde": vserde})
                elif tail.startswith("{"):
                    e2 = match_close(tail, 0, "{", "}")
                    variants.append({"name": vname, "kind": "struct", "fields": parse_fields(tail[1:e2]), "serde": vserde})
                else:
                    raise ValueError("variant: %r" % rest[:60])
            decls[name] = {"kind": "enum", "variants": variants, "derives": derives, "serde": serde}
    return decls

if __name__ == "__main__":
    import sys, json
    d = parse_decls(open(sys.argv[1]).read())
    tys = set()
    for n, x in d.items():
        ser = "Serialize" in x["derives"]
        print(n, x["kind"], "SER" if ser else "-", x.get("serde"))
        for f in x.get("fields", []):
            print("    ", f["name"], f["ty"], f["serde"]); tys.add(f["ty"])
        for t in x.get("types", []):
            print("    ", t); tys.add(t)
        for v in x.get("variants", []):
            print("    |", v["name"], v["kind"], v.get("types") or [(f["name"], f["ty"], f["serde"]) for f in v.get("fields", [])] or v.get("str", ""))
            for t in v.get("types", []):
                tys.add(t)
            for f in v.get("fields", []):
                tys.add(f["ty"])
    print(sorted(tys))
