#!/usr/bin/env python3
"""Translator (run on every GDSII check): reads from the repository
  gds21/src/data.rs   enum GdsRecordType (declaration order and explicit discriminants), enum GdsDataType,
                      GdsRecordType::valid()
  gds21/src/write.rs  the match arms of GdsWriter::write_record_header  (variant -> rtype, dtype, length expression)
                      and of write_record_content (variant -> payload writer)
  gds21/src/read.rs   the match arms of GdsReader::read_record_content (rtype, dtype, length pattern -> variant, payload reader)
and writes coq/Gen/GdsTablesGen.v. Regex / bracket matching only, no Rust parser. The file is rewritten only when
its content changes. Exit code != 0 when the source has a shape the translator does not understand (a broken tie:
the C01/C02/C03/C10 checks report it). Theorems over the generated tables: Gds/GdsWTables_proofs.v, Properties/C02.v."""
import os, re, sys

VERIF = os.path.dirname(os.path.dirname(os.path.abspath(__file__)))
REPO = os.environ.get("VERIF_REPO", "/repo")
COQ_DIR = os.environ.get("VERIF_COQ_DIR", os.path.join(VERIF, "coq"))
OUT = os.path.join(COQ_DIR, "Gen", "GdsTablesGen.v")


class Unsupported(Exception):
    pass


def strip_comments(t):
    t = re.sub(r"/\*.*?\*/", "", t, flags=re.S)
    return re.sub(r"//[^\n]*", "", t)


def block_after(txt, start_re, what):
    """text between the `{` that follows the match of start_re and its matching `}`"""
    m = re.search(start_re, txt)
    if not m:
        raise Unsupported("cannot find %s" % what)
    i = txt.index("{", m.end() - 1) if txt[m.end() - 1] != "{" else m.end() - 1
    depth = 0
    for j in range(i, len(txt)):
        if txt[j] == "{":
            depth += 1
        elif txt[j] == "}":
            depth -= 1
            if depth == 0:
                return txt[i + 1:j]
    raise Unsupported("unbalanced braces in %s" % what)


def split_top(s, sep=","):
    """split at top-level separators (outside (), [], {})"""
    out, depth, cur = [], 0, []
    i = 0
    while i < len(s):
        c = s[i]
        if c in "([{":
            depth += 1
        elif c in ")]}":
            depth -= 1
        if depth == 0 and s.startswith(sep, i):
            out.append("".join(cur)); cur = []
            i += len(sep)
            continue
        cur.append(c)
        i += 1
    if "".join(cur).strip():
        out.append("".join(cur))
    return [x.strip() for x in out]


def parse_enum(txt, name):
    body = block_after(txt, r"\benum\s+%s\s*\{" % name, "enum " + name)
    out, nxt = [], 0
    for item in split_top(body):
        m = re.match(r"^([A-Za-z_][A-Za-z0-9_]*)\s*(?:=\s*(0x[0-9A-Fa-f]+|\d+))?$", item)
        if not m:
            raise Unsupported("enum %s: variant %r" % (name, item))
        if m.group(2) is not None:
            nxt = int(m.group(2), 0)
        out.append((m.group(1), nxt))
        nxt += 1
    if not out:
        raise Unsupported("enum %s is empty" % name)
    return out


def parse_valid(txt):
    body = block_after(txt, r"\bfn\s+valid\s*\(\s*&self\s*\)\s*->\s*bool\s*\{", "GdsRecordType::valid")
    mb = block_after(body, r"\bmatch\s+self\s*\{", "match in valid()")
    arms = split_arms(mb)
    invalid = None
    default = None
    for pat, rhs in arms:
        rhs = rhs.strip().rstrip(",").strip()
        if rhs not in ("true", "false"):
            raise Unsupported("valid(): arm value %r" % rhs)
        if pat.strip() == "_":
            default = rhs
        else:
            names = []
            for p in pat.split("|"):
                m = re.match(r"^\s*Self::([A-Za-z0-9_]+)\s*$", p)
                if not m:
                    raise Unsupported("valid(): pattern %r" % p)
                names.append(m.group(1))
            if rhs == "false":
                invalid = (invalid or []) + names
            else:
                raise Unsupported("valid(): explicit `true` arm (expected the invalid list and `_ => true`)")
    if default != "true" or invalid is None:
        raise Unsupported("valid(): expected `<list> => false, _ => true`")
    return invalid


def split_arms(body):
    """match body -> [(pattern, rhs)]; arms are separated at top-level commas or after a top-level `}` block"""
    arms = []
    i, n = 0, len(body)
    while True:
        while i < n and body[i] in " \t\r\n,":
            i += 1
        if i >= n:
            break
        # pattern: up to top-level `=>`
        depth, j = 0, i
        while j < n:
            c = body[j]
            if c in "([{":
                depth += 1
            elif c in ")]}":
                depth -= 1
            elif depth == 0 and body.startswith("=>", j):
                break
            j += 1
        if j >= n:
            raise Unsupported("match arm without `=>` near %r" % body[i:i + 60])
        pat = body[i:j].strip()
        k = j + 2
        while k < n and body[k] in " \t\r\n":
            k += 1
        if k < n and body[k] == "{":
            depth = 0
            e = k
            while e < n:
                if body[e] == "{":
                    depth += 1
                elif body[e] == "}":
                    depth -= 1
                    if depth == 0:
                        break
                e += 1
            rhs = body[k:e + 1]
            i = e + 1
        else:
            depth, e = 0, k
            while e < n:
                c = body[e]
                if c in "([{":
                    depth += 1
                elif c in ")]}":
                    depth -= 1
                elif depth == 0 and c == ",":
                    break
                e += 1
            rhs = body[k:e]
            i = e + 1
        arms.append((pat, rhs.strip()))
    return arms


LEN_EXPRS = {"gds_strlen(s)": "strlen", "4 * d.len()": "4*len"}


def parse_write_header(txt):
    fn = block_after(txt, r"\bfn\s+write_record_header\s*\(", "write_record_header")
    m = re.search(r"let\s+gds_strlen\s*=\s*\|s:\s*&str\|\s*->\s*usize\s*\{\s*s\.len\(\)\s*\+\s*s\.len\(\)\s*%\s*2\s*\}", fn)
    if not m:
        raise Unsupported("write_record_header: gds_strlen is not `s.len() + s.len() % 2`")
    mb = block_after(fn, r"=\s*match\s+record\s*\{", "match in write_record_header")
    rows = []
    for pat, rhs in split_arms(mb):
        pm = re.match(r"^GdsRecord::([A-Za-z0-9_]+)\s*(\(.*\)|\{.*\})?$", pat, re.S)
        rm = re.match(r"^\(\s*GdsRecordType::([A-Za-z0-9_]+)\s*,\s*([A-Za-z0-9_]+)\s*,\s*(.+?)\s*\)$", rhs, re.S)
        if not pm or not rm:
            raise Unsupported("write_record_header arm %r => %r" % (pat, rhs))
        ln = rm.group(3).strip()
        if re.match(r"^\d+$", ln):
            n, ex = int(ln), "fixed"
        elif ln in LEN_EXPRS:
            n, ex = -1, LEN_EXPRS[ln]
            binder = (pm.group(2) or "").strip("(){} ")
            if binder != ln[ln.index("(") + 1] and binder != ln.split(".")[0].split()[-1]:
                raise Unsupported("write_record_header arm %r: length %r does not use the bound variable" % (pat, ln))
        else:
            raise Unsupported("write_record_header arm %r: length expression %r" % (pat, ln))
        rows.append((pm.group(1), rm.group(1), rm.group(2), n, ex))
    tail = fn[fn.index("match u16::try_from"):] if "match u16::try_from" in fn else ""
    if not re.search(r"match\s+u16::try_from\(\s*len\s*\+\s*4\s*\)\s*\{\s*Ok\(val\)\s*=>\s*self\.dest\.write_u16::<BigEndian>\(val\)\?\s*,\s*"
                     r"Err\(_\)\s*=>\s*return\s+Err\(GdsError::RecordLen\(len\)\)\s*,?\s*\}\s*;?\s*"
                     r"self\.dest\.write_u8\(rtype as u8\)\?;\s*self\.dest\.write_u8\(dtype as u8\)\?;", tail):
        raise Unsupported("write_record_header: the header-writing statements changed (u16 len+4 big-endian, rtype, dtype)")
    return rows


CONTENT_KINDS = [
    (r"^\(\)$", "none"),
    (r"^\{\s*self\.dest\.write_u8\(\*d0\)\?;\s*self\.dest\.write_u8\(\*d1\)\?;\s*\}$", "u8,u8"),
    (r"^self\.dest\.write_i16::<BigEndian>\(\*d\)\?$", "i16"),
    (r"^self\.dest\.write_i32::<BigEndian>\(\*d\)\?$", "i32"),
    (r"^\{\s*self\.dest\.write_u64::<BigEndian>\(GdsFloat64::encode\(\*d\)\)\?\s*\}$", "f64"),
    (r"^\{\s*self\.dest\.write_u64::<BigEndian>\(GdsFloat64::encode\(\*d0\)\)\?;\s*self\.dest\.write_u64::<BigEndian>\(GdsFloat64::encode\(\*d1\)\)\?;\s*\}$", "f64,f64"),
    (r"^\{\s*self\.dest\.write_i16::<BigEndian>\(\*cols\)\?;\s*self\.dest\.write_i16::<BigEndian>\(\*rows\)\?;\s*\}$", "i16,i16"),
    (r"^\{\s*for val in d\.iter\(\)\s*\{\s*self\.dest\.write_i16::<BigEndian>\(\*val\)\?;\s*\}\s*\}$", "i16*"),
    (r"^\{\s*for val in d\.iter\(\)\s*\{\s*self\.dest\.write_i32::<BigEndian>\(\*val\)\?;\s*\}\s*\}$", "i32*"),
    (r"^\{\s*for b in s\.as_bytes\(\)\s*\{\s*self\.dest\.write_u8\(\*b\)\?;\s*\}\s*if s\.len\(\) % 2 != 0\s*\{\s*self\.dest\.write_u8\(0x00\)\?;\s*\}\s*\}$", "str+pad"),
]


def parse_write_content(txt):
    fn = block_after(txt, r"\bfn\s+write_record_content\s*\(", "write_record_content")
    mb = block_after(fn, r"\bmatch\s+record\s*\{", "match in write_record_content")
    rows = []
    for pat, rhs in split_arms(mb):
        rhs1 = re.sub(r"\s+", " ", rhs.strip())
        kind = None
        for rx, k in CONTENT_KINDS:
            if re.match(rx, rhs1):
                kind = k
                break
        if kind is None:
            raise Unsupported("write_record_content: body %r" % rhs1[:120])
        for p in pat.split("|"):
            pm = re.match(r"^\s*GdsRecord::([A-Za-z0-9_]+)\s*(\(.*\)|\{.*\})?\s*$", p, re.S)
            if not pm:
                raise Unsupported("write_record_content: pattern %r" % p)
            rows.append((pm.group(1), kind))
    return rows


def parse_read_content(txt):
    fn = block_after(txt, r"\bfn\s+read_record_content\s*\(", "read_record_content")
    if not re.search(r"let\s+len\s*=\s*header\.len\s*;", fn):
        raise Unsupported("read_record_content: `let len = header.len;` not found")
    mb = block_after(fn, r"=\s*match\s*\(\s*header\.rtype\s*,\s*header\.dtype\s*,\s*len\s*\)\s*\{", "match in read_record_content")
    rows = []
    default = False
    for pat, rhs in split_arms(mb):
        if pat.strip() == "_":
            if not re.match(r"^return\s+Err\(GdsError::RecordDecode\(", rhs):
                raise Unsupported("read_record_content: default arm %r" % rhs)
            default = True
            continue
        pm = re.match(r"^\(\s*GdsRecordType::([A-Za-z0-9_]+)\s*,\s*([A-Za-z0-9_]+)\s*,\s*(\d+|_)\s*\)$", pat)
        if not pm:
            raise Unsupported("read_record_content: pattern %r" % pat)
        vm = re.search(r"GdsRecord::([A-Za-z0-9_]+)", rhs)
        if not vm:
            raise Unsupported("read_record_content: arm body %r" % rhs[:80])
        readers = re.findall(r"self\.(read_[a-z0-9_]+)\(\s*([A-Za-z0-9_]+)\s*\)", rhs)
        if len(readers) > 1:
            raise Unsupported("read_record_content: more than one read call in %r" % rhs[:80])
        n = -1 if pm.group(3) == "_" else int(pm.group(3))
        if readers:
            rd, arg = readers[0]
            if arg != "len" and not (arg.isdigit() and int(arg) == n):
                raise Unsupported("read_record_content: %s(%s) in the arm of length %s" % (rd, arg, pm.group(3)))
        else:
            rd = "none"
        # the vector accesses of the arm: [0], [1], try_into
        idx = sorted(set(int(x) for x in re.findall(r"\[(\d+)\]", rhs)))
        acc = "all" if "try_into().unwrap()" in rhs else ("whole" if not idx else "idx" + "".join(str(i) for i in idx))
        rows.append((pm.group(1), pm.group(2), n, vm.group(1), rd, acc))
    if not default:
        raise Unsupported("read_record_content: no default arm")
    return rows


def cs(s):
    return '"%s"' % s


def clist(items, indent="   "):
    if not items:
        return "[]"
    return "[\n" + ";\n".join(indent + x for x in items) + " ]"


def main():
    try:
        data = strip_comments(open(REPO + "/gds21/src/data.rs", encoding="utf8").read())
        write = strip_comments(open(REPO + "/gds21/src/write.rs", encoding="utf8").read())
        read = strip_comments(open(REPO + "/gds21/src/read.rs", encoding="utf8").read())
        rtypes = parse_enum(data, "GdsRecordType")
        dtypes = parse_enum(data, "GdsDataType")
        invalid = parse_valid(data)
        wh = parse_write_header(write)
        wc = parse_write_content(write)
        rc = parse_read_content(read)
    except (Unsupported, OSError, ValueError) as e:
        return False, "translate_gds_tables: %s" % e
    L = ["(** GENERATED by tools/translate_gds_tables.py from gds21/src/data.rs, write.rs, read.rs. Do not edit.",
         "    gen_rtypes / gen_dtypes: variants in declaration order with their numeric values;",
         "    gen_invalid: the variants for which `valid()` is false;",
         "    gen_write_header: (GdsRecord variant, record type, data type, length or -1, kind of length expression);",
         "    gen_write_content: (GdsRecord variant, payload writer);",
         "    gen_read_content: (record type, data type, length or -1 for `_`, GdsRecord variant, payload reader, vector access). *)",
         "From Coq Require Import ZArith String List.",
         "Import ListNotations.",
         "Local Open Scope string_scope.",
         "Local Open Scope Z_scope.",
         "",
         "Definition gen_rtypes : list (string * Z) := " + clist(["(%s, %d)" % (cs(n), v) for n, v in rtypes]) + ".",
         "",
         "Definition gen_dtypes : list (string * Z) := " + clist(["(%s, %d)" % (cs(n), v) for n, v in dtypes]) + ".",
         "",
         "Definition gen_invalid : list string := " + clist([cs(n) for n in invalid]) + ".",
         "",
         "Definition gen_write_header : list (string * string * string * Z * string) := " +
         clist(["(%s, %s, %s, %d, %s)" % (cs(a), cs(b), cs(c), n, cs(e)) for a, b, c, n, e in wh]) + ".",
         "",
         "Definition gen_write_content : list (string * string) := " + clist(["(%s, %s)" % (cs(a), cs(b)) for a, b in wc]) + ".",
         "",
         "Definition gen_read_content : list (string * string * Z * string * string * string) := " +
         clist(["(%s, %s, %d, %s, %s, %s)" % (cs(a), cs(b), n, cs(v), cs(r), cs(x)) for a, b, n, v, r, x in rc]) + ".",
         ""]
    txt = "\n".join(L)
    old = open(OUT, encoding="utf8").read() if os.path.exists(OUT) else None
    if old != txt:
        os.makedirs(os.path.dirname(OUT), exist_ok=True)
        with open(OUT, "w", encoding="utf8") as f:
            f.write(txt)
        return True, "rewrote %s (%d record types, %d writer arms, %d reader arms)" % (OUT, len(rtypes), len(wh), len(rc))
    return True, "unchanged %s" % OUT


if __name__ == "__main__":
    ok, msg = main()
    print(msg)
    sys.exit(0 if ok else 1)
