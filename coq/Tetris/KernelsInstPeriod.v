(** Reading of the generated compiler kernels for ONE PERIOD of one layer of one cell (Gen/KernelsTetrisConvPGen.v:
    layout21tetris/src/conv/raw.rs `RawExporter::assign_track` and `RawExporter::export_cell_layer_period`, with
    `export_point`, `impl Index<Dir> for Xy`, the DbUnits operators) at the level of the compiler model of C08
    (Tetris/Compile.v [assign_track], [export_period]): outcomes and integers of [ts_xops] (Tetris/KernelsInstTetris.v) and
    the maps from the model's data to the generated records.

    A track is the model's [track] (the generated code only moves tracks around: `Track` is external, like the operations
    on tracks and periods `LayerPeriod::block`, `Track::cut`, `Track::set_net`, `MetalLayer::to_layer_period`, whose own ties
    are in family tetris_tracks); `track_cross_xy` has its tie in family tetris_conv; `export_track`, `via_from`, `db_units`
    are external.  What stands for an external function is the model's function with its error / panic CODE forgotten
    ([fcls]; codes are diagnostics, outcomes are compared by class as everywhere in C08).  A net is its number; an
    assignment key IS the validated assignment (the slot map `assignments` then always answers); a cut's source is found
    again from the crossing by [keyf] (the model files the cut's index in the segment it makes).
    No proofs in this file. *)
From Coq Require Import ZArith Bool List.
From L21 Require Import Base.KernelOps Base.KernelOpsX Base.KernelOpsS Gen.KernelsTetrisConvPGen.
From L21 Require Tetris.Stack Tetris.Tracks Tetris.Compile Tetris.KernelsInstTetris.
Import ListNotations.
Local Open Scope Z_scope.
Module S := Tetris.Stack.
Module TR := Tetris.Tracks.
Module C := Tetris.Compile.

Definition ts_xops := Tetris.KernelsInstTetris.ts_xops.
Definition cls {A B : Type} (f : A -> B) (r : S.res A) : S.res B := Tetris.KernelsInstTetris.cls f r.
(** forget the code of an error / a panic *)
Definition fcls {A : Type} (r : S.res A) : S.res A := cls (fun a => a) r.

Definition gkey : Type := C.vassign.
Definition Gu (z : Z) : gDbUnits unit Z := mk_gDbUnits z.
Definition Gdirb (horiz : bool) : gDir unit Z := if horiz then gDir_Horiz else gDir_Vert.
Definition is_horiz (d : gDir unit Z) : bool := match d with gDir_Horiz => true | gDir_Vert => false end.
Definition Gcross (c : C.cross) : gTrackCross unit Z :=
  mk_gTrackCross (mk_gTrackRef (C.x_tl c) (C.x_tt c)) (mk_gTrackRef (C.x_cl c) (C.x_ct c)).
Definition unGcross (g : gTrackCross unit Z) : C.cross :=
  C.mkCross (gTrackRef_layer (gTrackCross_track g)) (gTrackRef_track (gTrackCross_track g))
            (gTrackRef_layer (gTrackCross_cross g)) (gTrackRef_track (gTrackCross_cross g)).
Definition Gva (v : C.vassign) : gValidAssign Z unit Z :=
  mk_gValidAssign Z (mk_gAssign Z (C.va_net v) (Gcross (C.va_at v)))
                  (mk_gTrackRef (fst (C.va_top v)) (snd (C.va_top v))) (mk_gTrackRef (fst (C.va_bot v)) (snd (C.va_bot v))).
Definition gmap : kmapops gkey (gValidAssign Z unit Z) :=
  {| km_t := unit; km_empty := tt; km_insert := fun m _ _ => m; km_get := fun _ k => Some (Gva k) |}.
Definition Gxy (p : Z * Z) : gXy unit Z := mk_gXy (Gu (fst p)) (Gu (snd p)).
Definition Gvia (v : S.via) : gViaLayer Z unit Z := mk_gViaLayer Z (Gxy (S.v_sx v, S.v_sy v)) (S.v_raw v).
Definition Gvm (vm : S.vmetal) : gValidMetalLayer unit Z :=
  mk_gValidMetalLayer (mk_gMetalLayer (Gdirb (S.m_horiz (S.vm_spec vm))) (Gu (S.m_cutsize (S.vm_spec vm)))) (S.vm_index vm).
Definition glp : Type := gLayerPeriod S.track unit Z.
(** a period: its signal and rail tracks (the `index` field is not read by the translated functions) *)
Definition Glp (p : list S.track * list S.track) : glp := mk_gLayerPeriod S.track 0 (fst p) (snd p).
Definition unGlp (l : glp) : list S.track * list S.track := (gLayerPeriod_signals S.track l, gLayerPeriod_rails S.track l).
(** a rectangle of the output *)
Definition Gshape (s : C.shape) : gElement Z Z unit Z :=
  mk_gElement Z Z (C.sh_net s) (C.sh_layer s) (gLayerPurpose_Drawing Z)
              (gShape_Rect (mk_gRect (mk_gPoint (C.sh_x0 s) (C.sh_y0 s)) (mk_gPoint (C.sh_x1 s) (C.sh_y1 s)))).
Definition Gx : gRawExporter unit Z := mk_gRawExporter mk_gValidStack.

Section Period.
Variables (fx : C.fixes) (vs : S.vstack) (vm : S.vmetal) (keyf : C.cross -> Z).
Let horiz := S.m_horiz (S.vm_spec vm).

(** the external operations *)
Definition x_cross_xy (_ : gRawExporter unit Z) (c : gTrackCross unit Z) : S.res (gXy unit Z) :=
  cls Gxy (C.track_cross_xy fx vs (unGcross c)).
Definition x_set_net (t : S.track) (at_ : gDbUnits unit Z) (a : gAssign Z unit Z) : S.res S.track :=
  fcls (TR.track_set_net (gDbUnits_0 at_) (gAssign_net Z a) t).
Definition x_cut (t : S.track) (start stop : gDbUnits unit Z) (c : gTrackCross unit Z) : S.res S.track :=
  fcls (TR.track_cut (gDbUnits_0 start) (gDbUnits_0 stop) (keyf (unGcross c)) t).
Definition x_block (l : glp) (start stop : gDbUnits unit Z) (src : kptr) : S.res glp :=
  cls Glp (TR.period_block (gDbUnits_0 start) (gDbUnits_0 stop) (Z.of_nat src) (unGlp l)).
Definition x_to_lp (_ : gMetalLayer unit Z) (index stop : Z) : S.res glp :=
  cls Glp (S.to_layer_period (S.vm_spec vm) index stop).
Definition x_db_units (_ : gRawExporter unit Z) (p : gPrimPitches unit Z) : S.res (gDbUnits unit Z) :=
  S.Ok (Gu (C.db_dir vs (is_horiz (gPrimPitches_dir p)) (gPrimPitches_num p))).
Definition x_export_track (_ : gRawExporter unit Z) (t : S.track) (_ : gValidMetalLayer unit Z) : S.res (list (gElement Z Z unit Z)) :=
  cls (map Gshape) (C.export_track vs vm t).
Definition x_via_from (_ : gValidStack unit Z) (idx : Z) : S.res (gViaLayer Z unit Z) := cls Gvia (C.via_from vs idx).

Definition g_assign_track (sigs rails : list S.track) (v : C.vassign) (top : bool) : S.res glp :=
  g_RawExporter_assign_track ts_xops Z S.track x_cross_xy x_set_net Gx (Gvm vm) (Glp (sigs, rails)) (Gva v) top.

(** the TempPeriod of the model's period: blockages in primitive pitches of the layer's direction with the index of the
    instance as its pointer, the cuts, the assignments; of the enclosing TempCell / TempCellLayer only `assignments`,
    `layer` and `span` are read *)
Definition Gtcell : gTempCell gkey unit unit Z gmap unit Z := mk_gTempCell gkey unit unit Z gmap tt tt [] [] tt [] [].
Definition Gblock (b : Z * Z * Z) : gPrimPitches unit Z * gPrimPitches unit Z * kptr :=
  let '(n1, n2, src) := b in (mk_gPrimPitches (Gdirb horiz) n1, mk_gPrimPitches (Gdirb horiz) n2, Z.to_nat src).
Definition Gtp (span_ periodnum : Z) (tp : C.tperiod) : gTempPeriod gkey unit unit Z gmap unit Z :=
  mk_gTempPeriod gkey unit unit Z gmap periodnum Gtcell
                 (mk_gTempCellLayer gkey unit unit Z gmap (Gvm vm) Gtcell [] (Gu 0) 0 (Gu span_))
                 (map Gblock (C.tp_blocks tp)) (map (fun kc => Gcross (snd kc)) (C.tp_cuts tp)) (C.tp_top tp) (C.tp_bot tp).
Definition g_export_period (span_ periodnum : Z) (tp : C.tperiod) : S.res (list (gElement Z Z unit Z)) :=
  g_RawExporter_export_cell_layer_period ts_xops gkey Z unit unit Z S.track gmap
    x_block x_to_lp x_db_units x_export_track x_cross_xy x_cut x_set_net x_via_from Gx (Gtp span_ periodnum tp).
End Period.
