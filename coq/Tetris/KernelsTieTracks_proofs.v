(** Tie (a) of DESIGN.md 2.3 for the segment surgery of a track (family "tetris_tracks", property C08):
    the definition generated from layout21tetris/src/tracks.rs `Track::cut_or_block` (Gen/KernelsTetrisGen.v) -- the bounds
    check against the last segment, `position(|seg| seg.stop > start)`, the match on the segment's type, the overlap
    check, the Vec of pending insertions, the assignment through `let seg = &mut self.segments[segidx]` and the
    `insert` loop -- read over Z with the outcomes of Tetris/Stack.v ([ts_xops]), EQUALS [cut_or_block] of
    Tetris/Tracks.v, error codes apart.  The model walks the list recursively ([cob_go]) where the code works with an
    index and insertions: the equality is proved here, the model is not changed. *)
From Coq Require Import ZArith Bool List Lia.
From L21 Require Import Base.KernelOps Base.KernelOpsX Gen.KernelsTetrisGen Tetris.KernelsInstTetris.
From L21 Require Import Tetris.Stack Tetris.Tracks.
Import ListNotations.
Local Open Scope Z_scope.

Lemma k_last_Gseg : forall l, k_last (map Gseg l) = option_map Gseg (last (map Some l) None).
Proof.
  intros l. unfold k_last. rewrite <- map_rev.
  destruct l as [|a r] using rev_ind; [reflexivity|]. clear IHr.
  rewrite rev_app_distr. rewrite (map_app Some). cbn [rev app map]. rewrite last_last. reflexivity.
Qed.

(** position: the segments before the first one with stop > start *)
Lemma find_index_app : forall (p : gTrackSegment unit Z -> bool) pre x rest n,
  forallb (fun y => negb (p y)) pre = true -> p x = true ->
  k_find_index p (pre ++ x :: rest) n = Some (n + length pre)%nat.
Proof.
  intros p. induction pre as [|y pre IH]; intros x rest n Hpre Hx; cbn [app k_find_index length].
  - rewrite Hx. f_equal. lia.
  - cbn [forallb] in Hpre. apply andb_true_iff in Hpre. destruct Hpre as [Hy Hpre].
    apply negb_true_iff in Hy. rewrite Hy. rewrite IH by assumption. f_equal. lia.
Qed.
Lemma find_index_none : forall (p : gTrackSegment unit Z -> bool) l n,
  forallb (fun y => negb (p y)) l = true -> k_find_index p l n = None.
Proof.
  intros p. induction l as [|y l IH]; intros n H; cbn [k_find_index]; [reflexivity|].
  cbn [forallb] in H. apply andb_true_iff in H. destruct H as [Hy H]. apply negb_true_iff in Hy. rewrite Hy. apply IH, H.
Qed.

(** the model's search, the same way *)
Lemma cob_go_skip : forall start stop tp pre rest,
  forallb (fun y => negb (s_stop y >? start)) pre = true ->
  cob_go start stop tp (pre ++ rest) = bind (cob_go start stop tp rest) (fun r => Ok (pre ++ r)).
Proof.
  intros start stop tp. induction pre as [|y pre IH]; intros rest H; cbn [app cob_go].
  - destruct (cob_go start stop tp rest); reflexivity.
  - cbn [forallb] in H. apply andb_true_iff in H. destruct H as [Hy H]. apply negb_true_iff in Hy. rewrite Hy.
    rewrite IH by assumption. destruct (cob_go start stop tp rest); reflexivity.
Qed.
Lemma split_first : forall (p : seg -> bool) l,
  (exists pre x rest, l = pre ++ x :: rest /\ forallb (fun y => negb (p y)) pre = true /\ p x = true)
  \/ forallb (fun y => negb (p y)) l = true.
Proof.
  intros p. induction l as [|y l IH]; [right; reflexivity|].
  destruct (p y) eqn:E.
  - left. exists [], y, l. repeat split; assumption.
  - destruct IH as [[pre [x [rest [H1 [H2 H3]]]]]|H].
    + left. exists (y :: pre), x, rest. subst l. repeat split; [|assumption]. cbn [forallb]. rewrite E. exact H2.
    + right. cbn [forallb]. rewrite E. exact H.
Qed.
Lemma cob_go_none : forall start stop tp l,
  forallb (fun y => negb (s_stop y >? start)) l = true -> cob_go start stop tp l = Err E_OutOfBounds.
Proof.
  intros start stop tp. induction l as [|y l IH]; intros H; cbn [cob_go]; [reflexivity|].
  cbn [forallb] in H. apply andb_true_iff in H. destruct H as [Hy H]. apply negb_true_iff in Hy. rewrite Hy.
  rewrite IH by assumption. reflexivity.
Qed.

Lemma forallb_map_G : forall (q : gTrackSegment unit Z -> bool) (p : seg -> bool) l,
  (forall y, q (Gseg y) = p y) -> forallb q (map Gseg l) = forallb p l.
Proof. intros q p l H. induction l as [|y l IH]; [reflexivity|]. cbn [map forallb]. rewrite H, IH. reflexivity. Qed.

Lemma nth_mid : forall (A : Type) (pre : list A) x rest, nth_error (pre ++ x :: rest) (length pre) = Some x.
Proof. intros A. induction pre as [|y pre IH]; intros; [reflexivity|apply IH]. Qed.
Lemma set_mid : forall (A : Type) (pre : list A) x rest y, k_list_set (pre ++ x :: rest) (length pre) y = pre ++ y :: rest.
Proof. intros A. induction pre as [|z pre IH]; intros; [reflexivity|]. cbn [app length k_list_set]. rewrite IH. reflexivity. Qed.
Lemma insert_at : forall (A : Type) (pre : list A) rest y, k_list_insert (pre ++ rest) (length pre) y = pre ++ y :: rest.
Proof.
  intros A pre rest y. unfold k_list_insert. rewrite firstn_app, Nat.sub_diag, firstn_all. cbn [firstn]. rewrite app_nil_r.
  rewrite skipn_app, Nat.sub_diag, skipn_all. reflexivity.
Qed.

Lemma vset_mid : forall (pre : list (gTrackSegment unit Z)) x rest y,
  v_set ts_xops (pre ++ x :: rest) (Z.of_nat (length pre)) y = Ok (pre ++ y :: rest).
Proof.
  intros. cbn [ts_xops z_xops v_set]. rewrite app_length. cbn [length].
  destruct ((Z.of_nat (length pre) <? 0) || (Z.of_nat (length pre + S (length rest)) <=? Z.of_nat (length pre))) eqn:E.
  - apply orb_true_iff in E. destruct E as [E|E]; [apply Z.ltb_lt in E|apply Z.leb_le in E]; lia.
  - rewrite Nat2Z.id, set_mid. reflexivity.
Qed.
Lemma vins_at : forall (pre : list (gTrackSegment unit Z)) rest y,
  v_insert ts_xops (pre ++ rest) (Z.of_nat (length pre)) y = Ok (pre ++ y :: rest).
Proof.
  intros. cbn [ts_xops z_xops v_insert]. rewrite app_length.
  destruct ((Z.of_nat (length pre) <? 0) || (Z.of_nat (length pre + length rest) <? Z.of_nat (length pre))) eqn:E.
  - apply orb_true_iff in E. destruct E as [E|E]; apply Z.ltb_lt in E; lia.
  - rewrite Nat2Z.id, insert_at. reflexivity.
Qed.
Lemma vins1 : forall (pre : list (gTrackSegment unit Z)) a rest y,
  v_insert ts_xops (pre ++ a :: rest) (Z.of_nat (length pre) + 1) y = Ok (pre ++ a :: y :: rest).
Proof.
  intros. replace (pre ++ a :: rest) with ((pre ++ [a]) ++ rest) by (rewrite <- app_assoc; reflexivity).
  replace (Z.of_nat (length pre) + 1) with (Z.of_nat (length (pre ++ [a]))) by (rewrite app_length; cbn [length]; lia).
  rewrite vins_at. rewrite <- app_assoc. reflexivity.
Qed.
Lemma vins2 : forall (pre : list (gTrackSegment unit Z)) a b rest y,
  v_insert ts_xops (pre ++ a :: b :: rest) (Z.of_nat (length pre) + 2) y = Ok (pre ++ a :: b :: y :: rest).
Proof.
  intros. replace (pre ++ a :: b :: rest) with ((pre ++ [a; b]) ++ rest) by (rewrite <- app_assoc; reflexivity).
  replace (Z.of_nat (length pre) + 2) with (Z.of_nat (length (pre ++ [a; b]))) by (rewrite app_length; cbn [length]; lia).
  rewrite vins_at. rewrite <- app_assoc. reflexivity.
Qed.
Lemma tie_cut_or_block_loop1 : forall d (l : list (gTrackSegment unit Z)) i sg,
  g_Track_cut_or_block_loop1 ts_xops (i, sg) (mk_gTrack d l)
  = bind (v_insert ts_xops l i sg) (fun l' => Ok (Cont (mk_gTrack d l'))).
Proof.
  intros. unfold g_Track_cut_or_block_loop1. cbn [gTrack_segments gTrack_data].
  cbn [ts_xops z_xops kx_base z_kops k_bind k_ret]. fold ts_xops.
  destruct (v_insert ts_xops l i sg); reflexivity.
Qed.
Lemma tie_cut_or_block_loop2 : forall d (l : list (gTrackSegment unit Z)) i sg,
  g_Track_cut_or_block_loop2 ts_xops (i, sg) (mk_gTrack d l)
  = bind (v_insert ts_xops l i sg) (fun l' => Ok (Cont (mk_gTrack d l'))).
Proof.
  intros. unfold g_Track_cut_or_block_loop2. cbn [gTrack_segments gTrack_data].
  cbn [ts_xops z_xops kx_base z_kops k_bind k_ret]. fold ts_xops.
  destruct (v_insert ts_xops l i sg); reflexivity.
Qed.

Definition pG (start : Z) (sg : gTrackSegment unit Z) : bool := start <? gDbUnits_0 (gTrackSegment_stop sg).

Lemma tie_cut_or_block : forall d start stop tp segs,
  g_cob d start stop tp segs = cls (fun s => mk_gTrack d (map Gseg s)) (cut_or_block start stop tp segs).
Proof.
  intros d start stop tp segs. unfold g_cob, g_Track_cut_or_block, cut_or_block.
  cbn [gTrack_segments gTrack_data].
  cbn [ts_xops z_xops kx_base z_kops k_bind k_ret k_panic k_fail i_lt i_eq i_add i_lit v_get]. fold ts_xops.
  rewrite k_last_Gseg.
  destruct (last (map Some segs) None) as [l|]; cbn [option_map]; [|reflexivity].
  cbn [ts_bind bind ts_ret Gseg gTrackSegment_stop Gu gDbUnits_0].
  rewrite Z.gtb_ltb. destruct (s_stop l <? stop); [reflexivity|].
  unfold k_position. change (fun seg : gTrackSegment unit Z => start <? gDbUnits_0 (gTrackSegment_stop seg)) with (pG start).
  assert (HpG : forall y, pG start (Gseg y) = (s_stop y >? start)) by (intros y; unfold pG; cbn; rewrite Z.gtb_ltb; reflexivity).
  destruct (split_first (fun y => s_stop y >? start) segs) as [[pre [x [rest [Hl [Hpre Hx]]]]]|Hnone].
  - subst segs. rewrite map_app. cbn [map].
    rewrite (find_index_app (pG start) (map Gseg pre) (Gseg x) (map Gseg rest) 0%nat).
    2:{ rewrite (forallb_map_G _ (fun y => negb (s_stop y >? start))); [exact Hpre|]. intros y. rewrite HpG. reflexivity. }
    2:{ rewrite HpG. exact Hx. }
    cbn [option_map Nat.add]. rewrite map_length.
    rewrite (cob_go_skip start stop tp pre (x :: rest) Hpre). cbn [cob_go]. rewrite Hx.
    set (n := length pre).
    assert (Hget : zget ts_ret ts_pan (gTrackSegment unit Z) (map Gseg pre ++ Gseg x :: map Gseg rest) (Z.of_nat n) = Ok (Gseg x)).
    { unfold zget. destruct (Z.of_nat n <? 0) eqn:E; [apply Z.ltb_lt in E; lia|]. rewrite Nat2Z.id.
      unfold n. rewrite <- (map_length Gseg pre). rewrite nth_mid. reflexivity. }
    cbn [ts_bind bind ts_ret i_lit z_kops].
    rewrite !Hget. cbn [ts_bind bind ts_ret Gseg gTrackSegment_tp gTrackSegment_stop gTrackSegment_start Gu gDbUnits_0].
    destruct x as [xtp xs xe]. cbn [s_tp s_start s_stop] in *.
    assert (Hlen : length (map Gseg pre ++ Gseg (mkSeg xtp xs xe) :: map Gseg rest) = (n + S (length rest))%nat)
      by (rewrite app_length, map_length; cbn [length]; rewrite map_length; reflexivity).
    destruct xtp as [src|src|net|k]; cbn [Gstp]; try reflexivity.
    all: try (destruct k); cbn [ts_bind bind ts_ret]; rewrite ?Hget; cbn [ts_bind bind ts_ret Gseg gTrackSegment_tp gTrackSegment_stop gTrackSegment_start Gu gDbUnits_0 s_tp s_start s_stop Gstp].
    all: destruct (xe <? stop); try reflexivity.
    all: unfold n; rewrite <- (map_length Gseg pre); rewrite vset_mid.
    all: cbn [ts_bind bind ts_ret app].
    all: destruct (xe =? stop); cbn [negb app k_foreach].
    all: cbn [z_kops k_bind k_ret]; fold ts_xops.
    all: rewrite ?tie_cut_or_block_loop1, ?tie_cut_or_block_loop2, vins1; cbn [bind ts_bind].
    all: rewrite ?tie_cut_or_block_loop1, ?tie_cut_or_block_loop2, ?vins2; cbn [bind ts_bind ts_ret cls].
    all: rewrite !map_app; cbn [map Gseg Gstp s_tp s_start s_stop]; reflexivity.
  - rewrite (find_index_none (pG start) (map Gseg segs) 0%nat).
    2:{ rewrite (forallb_map_G _ (fun y => negb (s_stop y >? start))); [exact Hnone|]. intros y. rewrite HpG. reflexivity. }
    rewrite (cob_go_none start stop tp segs Hnone). reflexivity.
Qed.
