(** Model of the gridded-cell compiler layout21tetris/src/conv/raw.rs (RawExporter::convert,
    export_layout_impl, temp_cell, temp_cell_layer, temp_cell_layer_period, instance_intersects,
    export_cell_layer_period, assign_track, export_track, track_cross_xy, db_units) and of
    validate.rs (ValidStack::metal, via_from, ValidMetalLayer::center, span, track_index,
    LibValidator::validate_track_ref / validate_track_cross / validate_assign / validate_layout)
    -- property C08.  No proofs here.

    Scope of the model (what a "library" is here): a list of cells each having a layout view with a
    rectangular outline, absolutely placed instances (Placer::place is then the identity and
    keeps the instance order), no `places`; an instance is described by the `metals` and
    rectangular outline of the cell it refers to (all the exporter reads of it).  Cell and
    library names are non-empty and layout.name = cell.name (the harness builds them so).
    Nets are numbers: k > 0 is the name "n<k>", 0 is the empty string; in the OUTPUT
    VDD = -1, VSS = -2.  Raw layers are numbers (layernum*1000 + purpose number of Drawing).

    Two variants of the code are modelled through the switch [fx]:
      [orig]  -- the code at the pinned commit,
      [fixed] -- with the repairs fix-center-span-flip, fix-blockage-reflect,
                 fix-assign-underflow, fix-cell-metals-bounds, fix-odd-sizes applied.
    The harness runs whatever is in the /repo working tree; the correspondence says which
    variant it agrees with. *)
From Coq Require Import ZArith List Bool.
From L21 Require Import Tetris.Stack Tetris.Tracks.
Import ListNotations.
Local Open Scope Z_scope.

Record fixes := mkFixes {
  fx_flip : bool;      (* center/span honour FlipMode::EveryOther *)
  fx_reflect : bool;   (* blockage span of an instance reflected along the track *)
  fx_underflow : bool; (* validate_assign: checked `cross.layer - 1` *)
  fx_bounds : bool;    (* temp_cell: cut / assignment layer >= layout.metals is an Err *)
  fx_odd : bool;       (* via p1 = p0 + size, cut stop = start + cutsize *)
  fx_raw : bool }.     (* export_stack: a metal or via layer without a raw layer is an Err (2026-10-02) *)
Definition orig := mkFixes false false false false false false.
Definition fixed := mkFixes true true true true true true.

(** ** cell description *)
Record cross := mkCross { x_tl : Z; x_tt : Z; x_cl : Z; x_ct : Z }.   (* track.(layer,track), cross.(layer,track) *)
Record inst := mkInst {
  i_metals : Z; i_ox : Z; i_oy : Z;      (* of the instantiated cell *)
  i_x : Z; i_y : Z; i_rh : bool; i_rv : bool }.
Record cell := mkCell {
  c_metals : Z; c_ox : Z; c_oy : Z;
  c_insts : list inst; c_cuts : list cross; c_assigns : list (Z * cross) }.

Record shape := mkShape { sh_layer : Z; sh_x0 : Z; sh_y0 : Z; sh_x1 : Z; sh_y1 : Z; sh_net : option Z }.

Definition NET_VDD := -1.
Definition NET_VSS := -2.
Definition rail_net (k : railkind) : Z := match k with Pwr => NET_VDD | Gnd => NET_VSS end.

Definition zlen {A} (l : list A) : Z := Z.of_nat (length l).
Definition indexed {A} (l : list A) : list (Z * A) := combine (map Z.of_nat (seq 0 (length l))) l.

(** ** validate.rs *)
(** ValidStack::metal *)
Definition metal_at (vs : vstack) (idx : Z) : res vmetal :=
  if idx <? 0 then Err 501 else
  match nth_error (vs_metals vs) (Z.to_nat idx) with Some m => Ok m | None => Err 501 end.

(** ValidStack::via_from *)
Definition via_from (vs : vstack) (idx : Z) : res via :=
  match find (fun v => match v_bot v with Some k => k =? idx | None => false end) (s_vias (vs_stack vs)) with
  | Some v => Ok v
  | None => Err 502
  end.

(** start and width of signal track [idx] as center/span compute them.
    orig: template track idx % len shifted by pitch * (idx / len) -- the flip is ignored.
    fixed: in odd periods of an EveryOther layer, the mirror image of template track
    len-1 - idx % len within the period's extent [offset, offset + pitch + overlap]; a layer
    without signal tracks is an Err instead of the `idx % 0` panic. *)
Definition track_start_width (fx : fixes) (vm : vmetal) (idx : Z) : res (Z * Z) :=
  let len := zlen (vm_sigs vm) in
  if len =? 0 then (if fx_flip fx then Err 503 else Panic 503 (* idx % 0 *)) else
  let per := Z.quot idx len in
  let r := Z.rem idx len in
  let m := vm_spec vm in
  if fx_flip fx && m_flip m && (Z.rem per 2 =? 1) then
    match nth_error (vm_sigs vm) (Z.to_nat (len - 1 - r)) with
    | None => Panic 504
    | Some t => Ok (vm_pitch vm * per + (m_offset m * 2 + vm_pitch vm + m_overlap m - td_start t - td_width t), td_width t)
    end
  else
    match nth_error (vm_sigs vm) (Z.to_nat r) with
    | None => Panic 504
    | Some t => Ok (vm_pitch vm * per + td_start t, td_width t)
    end.

(** ValidMetalLayer::center / span *)
Definition center (fx : fixes) (vm : vmetal) (idx : Z) : res Z :=
  do sw <- track_start_width fx vm idx; Ok (fst sw + Z.quot (snd sw) 2).
Definition span (fx : fixes) (vm : vmetal) (idx : Z) : res (Z * Z) :=
  do sw <- track_start_width fx vm idx; Ok (fst sw, fst sw + snd sw).

(** ValidMetalLayer::track_index (not used by the raw exporter; kept for the record) *)
Fixpoint position {A} (p : A -> bool) (l : list A) : option Z :=
  match l with
  | [] => None
  | x :: r => if p x then Some 0 else option_map Z.succ (position p r)
  end.
Definition track_index (vm : vmetal) (dist : Z) : res Z :=
  let np := Z.quot dist (vm_pitch vm) in
  let rm := Z.rem dist (vm_pitch vm) in
  if np <? 0 then Err 505 (* usize::try_from *) else
  match position (fun s => td_start s + td_width s >? rm) (vm_sigs vm) with
  | None => Panic 506
  | Some k => Ok (np * zlen (vm_sigs vm) + k)
  end.

(** LibValidator::validate_track_ref / validate_track_cross *)
Definition validate_track_ref (vs : vstack) (layer : Z) : res unit :=
  assert (layer <? zlen (vs_metals vs)) 507.
Definition validate_track_cross (vs : vstack) (c : cross) : res unit :=
  do _ <- validate_track_ref vs (x_tl c);
  do _ <- validate_track_ref vs (x_cl c);
  do mt <- metal_at vs (x_tl c);
  do mc <- metal_at vs (x_cl c);
  assert (negb (Bool.eqb (m_horiz (vm_spec mt)) (m_horiz (vm_spec mc)))) 508.

(** ValidAssign: net, source crossing, top and bottom (layer, track) *)
Record vassign := mkVa { va_net : Z; va_at : cross; va_top : Z * Z; va_bot : Z * Z }.

(** LibValidator::validate_assign.  `i.cross.layer - 1` is a usize subtraction, evaluated only
    when the first comparison fails: with cross.layer = 0 it panics (debug / overflow checks). *)
Definition validate_assign (fx : fixes) (vs : vstack) (a : Z * cross) : res vassign :=
  let '(net, c) := a in
  do _ <- assert (negb (net =? 0)) 509;
  do _ <- validate_track_cross vs c;
  let t := (x_tl c, x_tt c) in
  let x := (x_cl c, x_ct c) in
  if x_tl c =? x_cl c + 1 then Ok (mkVa net c t x)
  else if x_cl c =? 0 then (if fx_underflow fx then Err 510 else Panic 511)
  else if x_tl c =? x_cl c - 1 then Ok (mkVa net c x t)
  else Err 510.

(** LibValidator::validate_layout (instances: nothing is checked; places: empty) *)
Definition validate_layout (fx : fixes) (vs : vstack) (c : cell) : res unit :=
  do _ <- mapM (validate_track_cross vs) (c_cuts c);
  do _ <- mapM (validate_assign fx vs) (c_assigns c);
  Ok tt.

(** ** conv/raw.rs *)
(** db_units of a PrimPitches value in x / y *)
Definition dbx (vs : vstack) (n : Z) : Z := n * s_px (vs_stack vs).
Definition dby (vs : vstack) (n : Z) : Z := n * s_py (vs_stack vs).
Definition db_dir (vs : vstack) (horiz : bool) (n : Z) : Z := if horiz then dbx vs n else dby vs n.

(** track_cross_xy: (x, y) in db units *)
Definition track_cross_xy (fx : fixes) (vs : vstack) (c : cross) : res (Z * Z) :=
  do mt <- metal_at vs (x_tl c);
  do x <- center fx mt (x_tt c);
  do mc <- metal_at vs (x_cl c);
  do y <- center fx mc (x_ct c);
  do mt' <- metal_at vs (x_tl c);
  if m_horiz (vm_spec mt') then Ok (y, x) else Ok (x, y).
Definition xy_dir (horiz : bool) (p : Z * Z) : Z := if horiz then fst p else snd p.

(** temp_cell: validates cuts and assignments again and files them per layer in vectors of
    length layout.metals -- `cuts[cut.track.layer]`, `bot_assns[bot]`, `top_assns[top]` index
    out of bounds when the layer is not below layout.metals.  Returns the validated assignments. *)
Definition temp_cell (fx : fixes) (vs : vstack) (c : cell) : res (list vassign) :=
  do _ <- mapM (fun cut =>
            do _ <- validate_track_cross vs cut;
            if x_tl cut <? c_metals c then Ok tt
            else if fx_bounds fx then Err 520 else Panic 521) (c_cuts c);
  mapM (fun a =>
          do v <- validate_assign fx vs a;
          do _ <- metal_at vs (fst (va_bot v));
          do _ <- metal_at vs (fst (va_top v));
          if (fst (va_bot v) <? c_metals c) && (fst (va_top v) <? c_metals c) then Ok v
          else if fx_bounds fx then Err 522 else Panic 523) (c_assigns c).

(** instance_intersects inst layer periodnum *)
Definition instance_intersects (vs : vstack) (i : inst) (vm : vmetal) (periodnum : Z) : bool :=
  let ph := negb (m_horiz (vm_spec vm)) in          (* the layer's periodic direction is horizontal? *)
  let inst_start := db_dir vs ph (if ph then i_x i else i_y i) in
  let reflected := if ph then i_rh i else i_rv i in
  let sp := db_dir vs ph (if ph then i_ox i else i_oy i) in
  let '(imin, imax) := if reflected then (inst_start - sp, inst_start) else (inst_start, inst_start + sp) in
  (imax >? vm_pitch vm * periodnum) && (imin <? vm_pitch vm * (periodnum + 1)).

(** the blockage an intersecting instance makes along the track, in primitive pitches.
    orig: [loc, loc + size] whatever the reflection.  fixed: [loc - size, loc] when reflected. *)
Definition blockage_pp (fx : fixes) (horiz : bool) (i : inst) : Z * Z :=
  let loc := if horiz then i_x i else i_y i in
  let sz := if horiz then i_ox i else i_oy i in
  let reflected := if horiz then i_rh i else i_rv i in
  if fx_reflect fx && reflected then (loc - sz, loc) else (loc, loc + sz).

(** TempPeriod: blockages (start, stop, instance index) in prim pitches; cuts (index, crossing);
    top and bottom assignments of the period *)
Record tperiod := mkTp {
  tp_blocks : list (Z * Z * Z); tp_cuts : list (Z * cross);
  tp_top : list vassign; tp_bot : list vassign }.

Definition in_range (lo hi x : Z) : bool := (x >=? lo) && (x <? hi).

(** temp_cell_layer (instances reaching the layer) + temp_cell_layer_period *)
Definition temp_period (fx : fixes) (vs : vstack) (c : cell) (vas : list vassign) (vm : vmetal)
           (periodnum : Z) : tperiod :=
  let L := vm_index vm in
  let horiz := m_horiz (vm_spec vm) in
  let insts := filter (fun ii => i_metals (snd ii) >? L) (indexed (c_insts c)) in
  let blocks := map (fun ii => let '(a, b) := blockage_pp fx horiz (snd ii) in (a, b, fst ii))
                    (filter (fun ii => instance_intersects vs (snd ii) vm periodnum) insts) in
  let nsig := zlen (vm_sigs vm) in
  let lo := periodnum * nsig in
  let hi := (periodnum + 1) * nsig in
  mkTp blocks
       (filter (fun kc => (x_tl (snd kc) =? L) && in_range lo hi (x_tt (snd kc))) (indexed (c_cuts c)))
       (filter (fun v => (fst (va_top v) =? L) && in_range lo hi (snd (va_top v))) vas)
       (filter (fun v => (fst (va_bot v) =? L) && in_range lo hi (snd (va_bot v))) vas).

(** `&mut layer_period.signals[track % nsig]` then an operation on that track *)
Definition on_signal (sigs : list track) (idx : Z) (f : track -> res track) : res (list track) :=
  let nsig := zlen sigs in
  if nsig =? 0 then Panic 530 else
  let k := Z.to_nat (Z.rem idx nsig) in
  match nth_error sigs k with
  | None => Panic 531
  | Some t => do t' <- f t; Ok (firstn k sigs ++ t' :: skipn (S k) sigs)
  end.

(** assign_track *)
Definition assign_track (fx : fixes) (vs : vstack) (vm : vmetal) (sigs : list track) (v : vassign) (top : bool)
  : res (list track) :=
  let nsig := zlen sigs in
  if nsig =? 0 then Panic 530 else
  let tr := if top then snd (va_top v) else snd (va_bot v) in
  let k := Z.to_nat (Z.rem tr nsig) in
  match nth_error sigs k with
  | None => Panic 531
  | Some t =>
    do loc <- track_cross_xy fx vs (va_at v);
    do t' <- track_set_net (xy_dir (m_horiz (vm_spec vm)) loc) (va_net v) t;
    Ok (firstn k sigs ++ t' :: skipn (S k) sigs)
  end.

(** export_track *)
Definition export_track (vs : vstack) (vm : vmetal) (t : track) : res (list shape) :=
  do r <- mapM (fun s =>
      let mk (net : option Z) :=
        do m <- metal_at vs (vm_index vm);
        match m_raw (vm_spec m) with
        | None => Panic 540
        | Some lay =>
          let d := t_data t in
          Ok [if m_horiz (vm_spec vm)
              then mkShape lay (s_start s) (td_start d) (s_stop s) (td_start d + td_width d) net
              else mkShape lay (td_start d) (s_start s) (td_start d + td_width d) (s_stop s) net]
        end in
      match s_tp s with
      | TWire net => mk net
      | TRail k => mk (Some (rail_net k))
      | TCut _ | TBlock _ => Ok []
      end) (t_segs t);
  Ok (concat r).

(** the via rectangle of an assignment *)
Definition via_shape (fx : fixes) (vl : via) (lay : Z) (loc : Z * Z) (net : Z) : shape :=
  let x0 := fst loc - Z.quot (v_sx vl) 2 in
  let y0 := snd loc - Z.quot (v_sy vl) 2 in
  if fx_odd fx then mkShape lay x0 y0 (x0 + v_sx vl) (y0 + v_sy vl) (Some net)
  else mkShape lay x0 y0 (fst loc + Z.quot (v_sx vl) 2) (snd loc + Z.quot (v_sy vl) 2) (Some net).

(** export_cell_layer_period *)
Definition export_period (fx : fixes) (vs : vstack) (vm : vmetal) (span_ : Z) (periodnum : Z) (tp : tperiod)
  : res (list shape) :=
  let m := vm_spec vm in
  let horiz := m_horiz m in
  do lp <- to_layer_period m periodnum span_;
  (* blockages *)
  do lp <- foldM (fun lp b => let '(n1, n2, src) := b in
                   period_block (db_dir vs horiz n1) (db_dir vs horiz n2) src lp) (tp_blocks tp) lp;
  let '(sigs, rails) := lp in
  (* cuts *)
  do sigs <- foldM (fun sigs kc =>
      let '(k, cut) := kc in
      let nsig := zlen sigs in
      if nsig =? 0 then Panic 530 else
      let idx := Z.to_nat (Z.rem (x_tt cut) nsig) in
      match nth_error sigs idx with
      | None => Panic 531
      | Some t =>
        do loc <- track_cross_xy fx vs cut;
        let dist := xy_dir horiz loc in
        let start := dist - Z.quot (m_cutsize m) 2 in
        let stop := if fx_odd fx then start + m_cutsize m else dist + Z.quot (m_cutsize m) 2 in
        do t' <- track_cut start stop k t;
        Ok (firstn idx sigs ++ t' :: skipn (S idx) sigs)
      end) (tp_cuts tp) sigs;
  (* bottom assignments and their vias *)
  do sv <- foldM (fun (sv : list track * list shape) v =>
      let '(sigs, vias) := sv in
      do vl <- via_from vs (vm_index vm);
      do sigs' <- assign_track fx vs vm sigs v false;
      do loc <- track_cross_xy fx vs (va_at v);
      match v_raw vl with
      | None => Panic 541
      | Some lay => Ok (sigs', vias ++ [via_shape fx vl lay loc (va_net v)])
      end) (tp_bot tp) (sigs, []);
  let '(sigs, vias) := sv in
  (* top assignments *)
  do sigs <- foldM (fun sigs v => assign_track fx vs vm sigs v true) (tp_top tp) sigs;
  do r <- mapM (export_track vs vm) rails;
  do s <- mapM (export_track vs vm) sigs;
  Ok (vias ++ concat r ++ concat s).

Definition zseq (n : Z) : list Z := map Z.of_nat (seq 0 (Z.to_nat n)).

(** temp_cell_layer + the loop over periods of one layer *)
Definition export_layer (fx : fixes) (vs : vstack) (c : cell) (vas : list vassign) (layernum : Z) : res (list shape) :=
  do vm <- metal_at vs layernum;
  let x := dbx vs (c_ox c) in
  let y := dby vs (c_oy c) in
  let '(span_, breadth) := if m_horiz (vm_spec vm) then (x, y) else (y, x) in
  do _ <- assert (Z.rem breadth (vm_pitch vm) =? 0) 550;
  let np := Z.quot breadth (vm_pitch vm) in
  if np <? 0 then Panic 551 (* usize::try_from(..).unwrap() *) else
  do r <- mapM (fun p => export_period fx vs vm span_ p (temp_period fx vs c vas vm p)) (zseq np);
  Ok (concat r).

(** export_layout_impl (elements only; instances are exported as instances, not shapes) *)
Definition export_layout (fx : fixes) (vs : vstack) (c : cell) : res (list shape) :=
  do vas <- temp_cell fx vs c;
  do r <- mapM (export_layer fx vs c vas) (zseq (c_metals c));
  Ok (concat r).

(** RawExporter::export_stack: `rawlayers` and `boundary_layer` must be Some.
    orig: nothing else is checked -- a metal / via layer with `raw: None` is met later by
    `.raw.unwrap()` in export_track (Panic 540) and in the via of an assignment (Panic 541).
    fixed (fix-stack-raw-layers): `for idx in 0..self.stack.pitches.len()` the metal
    `self.stack.metal(idx)?` must have a raw layer, then every via layer of `self.stack.vias`. *)
Definition export_stack (fx : fixes) (vs : vstack) : res unit :=
  do _ <- assert (s_haslayers (vs_stack vs)) 560;
  do _ <- assert (s_hasboundary (vs_stack vs)) 561;
  if fx_raw fx then
    do _ <- mapM (fun idx => do m <- metal_at vs idx;
                    match m_raw (vm_spec m) with Some _ => Ok tt | None => Err 562 end)
                 (zseq (zlen (vs_pitches vs)));
    do _ <- mapM (fun v => match v_raw v with Some _ => Ok tt | None => Err 563 end) (s_vias (vs_stack vs));
    Ok tt
  else Ok tt.

(** RawExporter::convert on a validated stack: validate every cell, export_stack, export every
    cell (library order = dependency order for the libraries considered) *)
Definition convert (fx : fixes) (vs : vstack) (cells : list cell) : res (list (list shape)) :=
  do _ <- mapM (validate_layout fx vs) cells;
  do _ <- export_stack fx vs;
  mapM (export_layout fx vs) cells.

(** Stack::validate followed by Library::to_raw *)
Definition compile (fx : fixes) (st : stack) (cells : list cell) : res (list (list shape)) :=
  do vs <- validate_stack st; convert fx vs cells.
