(** Tie (a) of DESIGN.md 2.3 for ONE PERIOD of the tetris -> raw compiler (family "tetris_period", property C08): the
    definitions generated from layout21tetris/src/conv/raw.rs `RawExporter::assign_track` and
    `RawExporter::export_cell_layer_period` -- the whole function: six loops, the `&mut` borrow of one track of the period
    inside the loops, the cut span `centre - cutsize / 2 .. + cutsize`, the via rectangle `centre - size / 2 .. + size`, the
    via layer looked up on the first round and kept, the order of the output (vias, rails, signals) --
    (Gen/KernelsTetrisConvPGen.v), read as in Tetris/KernelsInstPeriod.v, EQUAL [assign_track] and [export_period] of
    Tetris/Compile.v for the tree as repaired ([fx_odd]), outcomes compared by class.  The model folds with list surgery
    ([firstn] / [skipn]) where the code writes a Vec cell back, and looks the via layer up on every round: the equalities
    are proved here, the model is not changed. *)
From Coq Require Import ZArith Bool List Lia.
From L21 Require Import Base.KernelOps Base.KernelOpsX Base.KernelOpsS Gen.KernelsTetrisConvPGen Tetris.KernelsInstPeriod.
From L21 Require Tetris.Stack Tetris.Tracks Tetris.Compile Tetris.KernelsInstTetris.
Import ListNotations.
Local Open Scope Z_scope.
Module KT := Tetris.KernelsInstTetris.

Ltac ps := cbn [ts_xops KT.ts_xops KT.z_xops KT.z_kops kx_base k_bind k_ret k_fail k_panic KT.ts_bind KT.ts_ret KT.ts_pan KT.ts_err S.bind
                i_rem i_div i_add i_sub i_lit i_eq i_lt v_get v_len v_set KT.zsub cls KT.cls fcls].

Lemma cls_bind : forall (A B C : Type) (x : S.res A) (f : A -> S.res B) (g : B -> C),
  cls g (S.bind x f) = S.bind (fcls x) (fun a => cls g (f a)).
Proof. intros A B C x f g. destruct x; reflexivity. Qed.
Lemma cls_cls : forall (A B C : Type) (x : S.res A) (f : A -> B) (g : B -> C),
  cls g (cls f x) = cls (fun a => g (f a)) x.
Proof. intros A B C x f g. destruct x; reflexivity. Qed.

Lemma list_set_surgery : forall (A : Type) (l : list A) k x, (k < length l)%nat ->
  k_list_set l k x = firstn k l ++ x :: skipn (S k) l.
Proof.
  intros A. induction l as [|a r IH]; intros k x H; [cbn in H; lia|].
  destruct k as [|k]; [reflexivity|]. cbn [k_list_set firstn skipn app]. rewrite IH by (cbn in H; lia). reflexivity.
Qed.

Lemma unG_Gcross : forall c, unGcross (Gcross c) = c.
Proof. intros [a b c d]. reflexivity. Qed.
Lemma xy_index : forall h p,
  g_Xy_index ts_xops (Gxy p) (Gdirb h) = S.Ok (Gu (C.xy_dir h p)).
Proof. intros [] [x y]; reflexivity. Qed.

Section Period.
Variables (fx : C.fixes) (vs : S.vstack) (vm : S.vmetal) (keyf : C.cross -> Z).

(** `assign_track`: the track `track % nsig` of the period (a remainder by zero and an index out of range are panics),
    the crossing's coordinates, `set_net` at the coordinate along the layer, the track written back *)
Lemma tie_assign_track : forall sigs rails v top,
  0 <= snd (C.va_top v) -> 0 <= snd (C.va_bot v) ->
  g_assign_track fx vs vm sigs rails v top
  = cls (fun s' => Glp (s', rails)) (C.assign_track fx vs vm sigs v top).
Proof.
  intros sigs rails v top Ht Hb. unfold g_assign_track, g_RawExporter_assign_track, C.assign_track, C.zlen. ps.
  cbn [Glp gLayerPeriod_signals gLayerPeriod_rails gLayerPeriod_index fst snd Gva gValidAssign_top gValidAssign_bot gValidAssign_src gTrackRef_track gAssign_at gAssign_net].
  set (tr := if top then snd (C.va_top v) else snd (C.va_bot v)).
  replace (if top then snd (C.va_top v) else snd (C.va_bot v)) with tr by reflexivity.
  assert (Htr : 0 <= tr) by (unfold tr; destruct top; assumption).
  destruct (Z.of_nat (length sigs) =? 0) eqn:En; [reflexivity|]. ps.
  apply Z.eqb_neq in En.
  assert (Hr : 0 <= Z.rem tr (Z.of_nat (length sigs))) by (apply Z.rem_nonneg; lia).
  unfold KT.zget. replace (Z.rem tr (Z.of_nat (length sigs)) <? 0) with false by (symmetry; apply Z.ltb_ge; lia).
  destruct (nth_error sigs (Z.to_nat (Z.rem tr (Z.of_nat (length sigs))))) as [t|] eqn:Enth; ps; [|reflexivity].
  unfold x_cross_xy at 1. rewrite unG_Gcross.
  destruct (C.track_cross_xy fx vs (C.va_at v)) as [loc|c|c]; ps; try reflexivity.
  cbn [Gvm gValidMetalLayer_spec gMetalLayer_dir]. rewrite xy_index. ps.
  unfold x_set_net. cbn [Gu gDbUnits_0 gAssign_net].
  destruct (TR.track_set_net (C.xy_dir (S.m_horiz (S.vm_spec vm)) loc) (C.va_net v) t) as [t'|c|c]; ps; try reflexivity.
  assert (Hlt : (Z.to_nat (Z.rem tr (Z.of_nat (length sigs))) < length sigs)%nat) by (apply nth_error_Some; rewrite Enth; discriminate).
  replace (Z.rem tr (Z.of_nat (length sigs)) <? 0) with false by (symmetry; apply Z.ltb_ge; lia).
  replace (Z.of_nat (length sigs) <=? Z.rem tr (Z.of_nat (length sigs))) with false by (symmetry; apply Z.leb_gt; lia).
  cbn [orb]. ps. rewrite list_set_surgery by exact Hlt. reflexivity.
Qed.

Lemma is_horiz_G : forall h, is_horiz (Gdirb h) = h.
Proof. intros []; reflexivity. Qed.
Lemma bind_cls_cont : forall (A G R B : Type) (X : S.res A) (g : A -> G) (K : G -> S.res B) (Kb : R -> S.res B),
  S.bind (cls (fun a => Cont (R:=R) (g a)) X) (fun r => match r with Brk v => Kb v | Cont x => K x end)
  = S.bind (fcls X) (fun a => K (g a)).
Proof. intros. destruct X; reflexivity. Qed.
Lemma surgery_length : forall (A : Type) (l : list A) k x, (k < length l)%nat ->
  length (firstn k l ++ x :: skipn (S k) l) = length l.
Proof.
  intros A l k x H. rewrite app_length, firstn_length_le by lia. cbn [length]. rewrite skipn_length. lia.
Qed.

(** loop 1: the blockages *)
Lemma tie_export_period_blocks : forall bl lp, (forall a b i, In (a, b, i) bl -> 0 <= i) ->
  k_foreach (kx_base ts_xops) (map (Gblock vm) bl)
            (fun it st__ => g_RawExporter_export_cell_layer_period_loop1 ts_xops Z Z S.track x_block (x_db_units vs) Gx it st__) (Glp lp)
  = cls (fun lp' => Cont (R:=list (gElement Z Z unit Z)) (Glp lp'))
        (S.foldM (fun lp b => let '(n1, n2, src) := b in
                    TR.period_block (C.db_dir vs (S.m_horiz (S.vm_spec vm)) n1) (C.db_dir vs (S.m_horiz (S.vm_spec vm)) n2) src lp) bl lp).
Proof.
  induction bl as [|[[n1 n2] src] r IH]; intros lp H; [reflexivity|].
  cbn [map k_foreach S.foldM]. unfold g_RawExporter_export_cell_layer_period_loop1 at 1. cbn [Gblock]. ps.
  unfold x_db_units. cbn [gPrimPitches_dir gPrimPitches_num]. rewrite is_horiz_G. ps.
  unfold x_block at 1. cbn [Gu gDbUnits_0]. rewrite Z2Nat.id by (apply (H n1 n2 src); left; reflexivity).
  replace (unGlp (Glp lp)) with lp by (destruct lp; reflexivity).
  destruct (TR.period_block _ _ src lp) as [lp'|c|c]; ps; try reflexivity.
  apply IH. intros a b i Hin. apply (H a b i). right. exact Hin.
Qed.

(** the body of the model's fold over the cuts ([export_period], Tetris/Compile.v) *)
Definition cut_body (sigs : list S.track) (kc : Z * C.cross) : S.res (list S.track) :=
  let '(k, cut) := kc in
  let nsig := C.zlen sigs in
  if nsig =? 0 then S.Panic 530 else
  let idx := Z.to_nat (Z.rem (C.x_tt cut) nsig) in
  match nth_error sigs idx with
  | None => S.Panic 531
  | Some t =>
    S.bind (C.track_cross_xy fx vs cut) (fun loc =>
    let dist := C.xy_dir (S.m_horiz (S.vm_spec vm)) loc in
    let start := dist - Z.quot (S.m_cutsize (S.vm_spec vm)) 2 in
    let stop := if C.fx_odd fx then start + S.m_cutsize (S.vm_spec vm) else dist + Z.quot (S.m_cutsize (S.vm_spec vm)) 2 in
    S.bind (TR.track_cut start stop k t) (fun t' =>
    S.Ok (firstn idx sigs ++ t' :: skipn (S idx) sigs)))
  end.

(** loop 2: the cuts, each on the track `track % nsig`, from `centre - cutsize / 2` over the full cut size *)
Lemma tie_export_period_cuts : forall cuts sigs rails, C.fx_odd fx = true ->
  (forall k c, In (k, c) cuts -> keyf c = k /\ 0 <= C.x_tt c) ->
  k_foreach (kx_base ts_xops) (map (fun kc => Gcross (snd kc)) cuts)
            (fun cut st__ => g_RawExporter_export_cell_layer_period_loop2 ts_xops Z Z S.track (x_cross_xy fx vs) (x_cut keyf) Gx (Gvm vm)
                               (Z.of_nat (length sigs)) cut st__) (Glp (sigs, rails))
  = cls (fun s' => Cont (R:=list (gElement Z Z unit Z)) (Glp (s', rails))) (S.foldM cut_body cuts sigs).
Proof.
  induction cuts as [|[k cut] r IH]; intros sigs rails Hodd H; [reflexivity|].
  destruct (H k cut (or_introl eq_refl)) as [Hk Htt].
  cbn [map k_foreach S.foldM snd]. unfold g_RawExporter_export_cell_layer_period_loop2 at 1. unfold cut_body at 1. unfold C.zlen. ps.
  cbn [Glp gLayerPeriod_signals gLayerPeriod_rails gLayerPeriod_index fst snd Gcross gTrackCross_track gTrackRef_track].
  destruct (Z.of_nat (length sigs) =? 0) eqn:En; [reflexivity|]. ps. apply Z.eqb_neq in En.
  assert (Hr : 0 <= Z.rem (C.x_tt cut) (Z.of_nat (length sigs))) by (apply Z.rem_nonneg; lia).
  unfold KT.zget. replace (Z.rem (C.x_tt cut) (Z.of_nat (length sigs)) <? 0) with false by (symmetry; apply Z.ltb_ge; lia).
  destruct (nth_error sigs (Z.to_nat (Z.rem (C.x_tt cut) (Z.of_nat (length sigs))))) as [t|] eqn:Enth; ps; [|reflexivity].
  unfold x_cross_xy at 1. fold (Gcross cut). rewrite unG_Gcross.
  destruct (C.track_cross_xy fx vs cut) as [loc|c|c]; ps; try reflexivity.
  cbn [Gvm gValidMetalLayer_spec gMetalLayer_dir gMetalLayer_cutsize]. rewrite xy_index. ps.
  unfold g_DbUnits_div_Int, g_DbUnits_sub, g_DbUnits_add, g_DbUnits_raw. ps. cbn [Gu gDbUnits_0].
  change (2 =? 0) with false. cbv iota. ps. cbn [Gu gDbUnits_0].
  unfold x_cut at 1. cbn [gDbUnits_0]. fold (Gcross cut). rewrite unG_Gcross, Hk, Hodd.
  destruct (TR.track_cut _ _ k t) as [t'|c|c]; ps; try reflexivity.
  assert (Hlt : (Z.to_nat (Z.rem (C.x_tt cut) (Z.of_nat (length sigs))) < length sigs)%nat) by (apply nth_error_Some; rewrite Enth; discriminate).
  replace (Z.rem (C.x_tt cut) (Z.of_nat (length sigs)) <? 0) with false by (symmetry; apply Z.ltb_ge; lia).
  replace (Z.of_nat (length sigs) <=? Z.rem (C.x_tt cut) (Z.of_nat (length sigs))) with false by (symmetry; apply Z.leb_gt; lia).
  cbn [orb]. ps. rewrite list_set_surgery by exact Hlt.
  set (sigs' := firstn _ sigs ++ t' :: skipn _ sigs).
  replace (Z.of_nat (length sigs)) with (Z.of_nat (length sigs')) by (unfold sigs'; rewrite surgery_length by exact Hlt; reflexivity).
  change (mk_gLayerPeriod S.track 0 sigs' rails) with (Glp (sigs', rails)).
  apply IH; [exact Hodd|]. intros k0 c0 Hin. apply H. right. exact Hin.
Qed.

(** the body of the model's fold over the bottom assignments *)
Definition bot_body (sv : list S.track * list C.shape) (v : C.vassign) : S.res (list S.track * list C.shape) :=
  let '(sigs, vias) := sv in
  S.bind (C.via_from vs (S.vm_index vm)) (fun vl =>
  S.bind (C.assign_track fx vs vm sigs v false) (fun sigs' =>
  S.bind (C.track_cross_xy fx vs (C.va_at v)) (fun loc =>
  match S.v_raw vl with
  | None => S.Panic 541
  | Some lay => S.Ok (sigs', vias ++ [C.via_shape fx vl lay loc (C.va_net v)])
  end))).

(** loop 3: the assignments for which this is the lower layer, each with its via: lower-left corner at
    `centre - size / 2`, the opposite corner a full `size` away.  The via layer is looked up on the first round and
    kept ([vo]); the model looks it up on every round. *)
Lemma tie_export_period_bots : forall (K : list (gElement Z Z unit Z) -> glp -> S.res (list (gElement Z Z unit Z))) span_ periodnum tp,
  C.fx_odd fx = true ->
  forall bots sigs rails vias vo,
  (forall v, In v bots -> 0 <= snd (C.va_top v) /\ 0 <= snd (C.va_bot v)) ->
  (vo = None \/ exists vl, C.via_from vs (S.vm_index vm) = S.Ok vl /\ vo = Some (Gvia vl)) ->
  S.bind (k_foreach (kx_base ts_xops) bots
            (fun assn_id st__ => g_RawExporter_export_cell_layer_period_loop3 ts_xops gkey Z unit unit Z S.track gmap
                                   (x_cross_xy fx vs) x_set_net (x_via_from vs) Gx (Gtp vm span_ periodnum tp) (Gvm vm) assn_id st__)
            (vo, map Gshape vias, Glp (sigs, rails)))
         (fun r__ => match r__ with Brk v__ => S.Ok v__ | Cont st__ => let '(_, elems, lp) := st__ in K elems lp end)
  = S.bind (fcls (S.foldM bot_body bots (sigs, vias))) (fun sv => K (map Gshape (snd sv)) (Glp (fst sv, rails))).
Proof.
  intros K span_ periodnum tp Hodd. induction bots as [|v r IH]; intros sigs rails vias vo Hv Hvo; [reflexivity|].
  destruct (Hv v (or_introl eq_refl)) as [Ht Hb].
  assert (Hr : forall v0, In v0 r -> 0 <= snd (C.va_top v0) /\ 0 <= snd (C.va_bot v0)) by (intros v0 Hin; apply Hv; right; exact Hin).
  assert (Hstep : forall vl, C.via_from vs (S.vm_index vm) = S.Ok vl ->
     S.bind (k_foreach (kx_base ts_xops) (v :: r)
            (fun assn_id st__ => g_RawExporter_export_cell_layer_period_loop3 ts_xops gkey Z unit unit Z S.track gmap
                                   (x_cross_xy fx vs) x_set_net (x_via_from vs) Gx (Gtp vm span_ periodnum tp) (Gvm vm) assn_id st__)
            (Some (Gvia vl), map Gshape vias, Glp (sigs, rails)))
         (fun r__ => match r__ with Brk v__ => S.Ok v__ | Cont st__ => let '(_, elems, lp) := st__ in K elems lp end)
     = S.bind (fcls (S.foldM bot_body (v :: r) (sigs, vias))) (fun sv => K (map Gshape (snd sv)) (Glp (fst sv, rails)))).
  { intros vl Hvl. cbn [k_foreach S.foldM]. unfold g_RawExporter_export_cell_layer_period_loop3 at 1. unfold bot_body at 1. rewrite Hvl. ps.
    cbn [Gtp gTempPeriod_cell Gtcell gTempCell_assignments gmap km_get]. ps.
    fold (g_assign_track fx vs vm sigs rails v false). rewrite (tie_assign_track sigs rails v false Ht Hb).
    destruct (C.assign_track fx vs vm sigs v false) as [sigs'|c|c]; ps; try reflexivity.
    cbn [Gva gValidAssign_src gAssign_at gAssign_net]. unfold x_cross_xy at 1. rewrite unG_Gcross.
    destruct (C.track_cross_xy fx vs (C.va_at v)) as [[lx ly]|c|c]; ps; try reflexivity.
    unfold g_DbUnits_div_Int, g_DbUnits_sub, g_DbUnits_add, g_DbUnits_raw, g_RawExporter_export_point, g_Point_new. ps.
    cbn [Gvia gViaLayer_size gViaLayer_raw Gxy gXy_x gXy_y Gu gDbUnits_0 fst snd]. change (2 =? 0) with false. cbv iota. ps.
    cbn [Gu gDbUnits_0].
    destruct (S.v_raw vl) as [lay|]; ps; [|reflexivity].
    replace (map Gshape vias ++ [mk_gElement Z Z (Some (C.va_net v)) lay (gLayerPurpose_Drawing Z)
               (gShape_Rect (mk_gRect (mk_gPoint (lx - S.v_sx vl ÷ 2) (ly - S.v_sy vl ÷ 2))
                                      (mk_gPoint (lx - S.v_sx vl ÷ 2 + S.v_sx vl) (ly - S.v_sy vl ÷ 2 + S.v_sy vl))))])%list
      with (map Gshape (vias ++ [C.via_shape fx vl lay (lx, ly) (C.va_net v)]))
      by (rewrite map_app; unfold C.via_shape; rewrite Hodd; reflexivity).
    apply (IH sigs' rails _ (Some (Gvia vl)) Hr). right. exists vl. split; [exact Hvl|reflexivity]. }
  destruct Hvo as [->|[vl [Hvl ->]]]; [|exact (Hstep vl Hvl)].
  (* first round: the lookup *)
  destruct (C.via_from vs (S.vm_index vm)) as [vl|c|c] eqn:Hvl.
  - rewrite <- (Hstep vl eq_refl). cbn [k_foreach].
    assert (E : forall e lp,
      g_RawExporter_export_cell_layer_period_loop3 ts_xops gkey Z unit unit Z S.track gmap (x_cross_xy fx vs) x_set_net (x_via_from vs) Gx
        (Gtp vm span_ periodnum tp) (Gvm vm) v (None, e, lp)
      = g_RawExporter_export_cell_layer_period_loop3 ts_xops gkey Z unit unit Z S.track gmap (x_cross_xy fx vs) x_set_net (x_via_from vs) Gx
        (Gtp vm span_ periodnum tp) (Gvm vm) v (Some (Gvia vl), e, lp)).
    { intros e lp. unfold g_RawExporter_export_cell_layer_period_loop3. ps. unfold x_via_from at 1.
      cbn [Gvm gValidMetalLayer_index gRawExporter_stack Gx]. rewrite Hvl. reflexivity. }
    rewrite E. reflexivity.
  - cbn [k_foreach S.foldM]. unfold g_RawExporter_export_cell_layer_period_loop3 at 1. unfold bot_body at 1. ps. unfold x_via_from at 1.
    cbn [Gvm gValidMetalLayer_index gRawExporter_stack Gx]. rewrite Hvl. reflexivity.
  - cbn [k_foreach S.foldM]. unfold g_RawExporter_export_cell_layer_period_loop3 at 1. unfold bot_body at 1. ps. unfold x_via_from at 1.
    cbn [Gvm gValidMetalLayer_index gRawExporter_stack Gx]. rewrite Hvl. reflexivity.
Qed.

(** loop 4: the assignments for which this is the upper layer *)
Lemma tie_export_period_tops : forall span_ periodnum tp (tops : list gkey) sigs rails,
  (forall v, In v tops -> 0 <= snd (C.va_top v) /\ 0 <= snd (C.va_bot v)) ->
  k_foreach (kx_base ts_xops) tops
            (fun assn_id st__ => g_RawExporter_export_cell_layer_period_loop4 ts_xops gkey Z unit unit Z S.track gmap
                                   (x_cross_xy fx vs) x_set_net Gx (Gtp vm span_ periodnum tp) (Gvm vm) assn_id st__) (Glp (sigs, rails))
  = cls (fun s' => Cont (R:=list (gElement Z Z unit Z)) (Glp (s', rails)))
        (S.foldM (fun sigs v => C.assign_track fx vs vm sigs v true) tops sigs).
Proof.
  intros span_ periodnum tp. induction tops as [|v r IH]; intros sigs rails Hv; [reflexivity|].
  destruct (Hv v (or_introl eq_refl)) as [Ht Hb].
  cbn [k_foreach S.foldM]. unfold g_RawExporter_export_cell_layer_period_loop4 at 1. ps.
  cbn [Gtp gTempPeriod_cell Gtcell gTempCell_assignments gmap km_get]. ps.
  fold (g_assign_track fx vs vm sigs rails v true). rewrite (tie_assign_track sigs rails v true Ht Hb).
  destruct (C.assign_track fx vs vm sigs v true) as [sigs'|c|c]; ps; try reflexivity.
  apply IH. intros v0 Hin. apply Hv. right. exact Hin.
Qed.

(** loops 5 and 6: the rectangles of the rail tracks, then of the signal tracks *)
Lemma tie_export_period_tracks : forall ts acc,
  k_foreach (kx_base ts_xops) ts
            (fun t st__ => g_RawExporter_export_cell_layer_period_loop5 ts_xops Z Z S.track (x_export_track vs vm) Gx (Gvm vm) t st__) (map Gshape acc)
  = cls (fun r => Cont (R:=list (gElement Z Z unit Z)) (map Gshape (acc ++ concat r))) (S.mapM (C.export_track vs vm) ts).
Proof.
  induction ts as [|t r IH]; intros acc.
  - cbn. rewrite app_nil_r. reflexivity.
  - cbn [k_foreach S.mapM]. unfold g_RawExporter_export_cell_layer_period_loop5 at 1. ps. unfold x_export_track at 1.
    destruct (C.export_track vs vm t) as [sh|c|c]; ps; try reflexivity.
    rewrite <- map_app. rewrite IH. destruct (S.mapM (C.export_track vs vm) r) as [rs|c|c]; ps; try reflexivity.
    cbn [concat]. rewrite app_assoc. reflexivity.
Qed.
Lemma loop6_is_loop5 : forall t st,
  g_RawExporter_export_cell_layer_period_loop6 ts_xops Z Z S.track (x_export_track vs vm) Gx (Gvm vm) t st
  = g_RawExporter_export_cell_layer_period_loop5 ts_xops Z Z S.track (x_export_track vs vm) Gx (Gvm vm) t st.
Proof. reflexivity. Qed.

(** ONE PERIOD: the layer's tracks for this period, the blockages of the instances, the cuts, the assignments of the
    lower layer with their vias, those of the upper layer, then the rectangles: vias, rails, signals *)
Lemma tie_export_period : forall span_ periodnum tp, C.fx_odd fx = true ->
  (forall a b i, In (a, b, i) (C.tp_blocks tp) -> 0 <= i) ->
  (forall k c, In (k, c) (C.tp_cuts tp) -> keyf c = k /\ 0 <= C.x_tt c) ->
  (forall v, In v (C.tp_bot tp) -> 0 <= snd (C.va_top v) /\ 0 <= snd (C.va_bot v)) ->
  (forall v, In v (C.tp_top tp) -> 0 <= snd (C.va_top v) /\ 0 <= snd (C.va_bot v)) ->
  g_export_period fx vs vm keyf span_ periodnum tp = cls (map Gshape) (C.export_period fx vs vm span_ periodnum tp).
Proof.
  intros span_ periodnum tp Hodd Hbl Hcu Hbo Hto.
  unfold g_export_period, g_RawExporter_export_cell_layer_period, C.export_period.
  fold cut_body. fold bot_body.
  match goal with |- context [S.foldM cut_body] => idtac end. match goal with |- context [S.foldM bot_body] => idtac end.
  ps.
  cbn [Gtp gTempPeriod_layer gTempPeriod_periodnum gTempPeriod_blockages gTempPeriod_cuts gTempPeriod_bot_assns gTempPeriod_top_assns
       gTempCellLayer_layer gTempCellLayer_span Gu gDbUnits_0].
  unfold x_to_lp at 1.
  destruct (S.to_layer_period (S.vm_spec vm) periodnum span_) as [lp|c|c]; ps; try reflexivity.
  change (KT.z_kops KT.ts_ret KT.ts_bind KT.ts_pan) with (kx_base ts_xops).
  rewrite (tie_export_period_blocks _ lp Hbl).
  match goal with |- context [S.foldM ?f (C.tp_blocks tp) lp] => destruct (S.foldM f (C.tp_blocks tp) lp) as [[sigs rails]|c|c] end; ps; try reflexivity.
  cbn [Glp gLayerPeriod_signals fst snd].
  change (mk_gLayerPeriod S.track 0 sigs rails) with (Glp (sigs, rails)).
  change (KT.z_kops KT.ts_ret KT.ts_bind KT.ts_pan) with (kx_base ts_xops).
  rewrite (tie_export_period_cuts _ sigs rails Hodd Hcu).
  destruct (S.foldM cut_body (C.tp_cuts tp) sigs) as [sigs2|c|c]; ps; try reflexivity.
  change (@nil (gElement Z Z unit Z)) with (map Gshape []).
  change (KT.z_kops KT.ts_ret KT.ts_bind KT.ts_pan) with (kx_base ts_xops).
  fold (Gtp vm span_ periodnum tp).
  rewrite (tie_export_period_bots _ span_ periodnum tp Hodd (C.tp_bot tp) sigs2 rails [] None Hbo (or_introl eq_refl)).
  destruct (S.foldM bot_body (C.tp_bot tp) (sigs2, [])) as [[sigs3 vias]|c|c]; ps; try reflexivity.
  cbn [fst snd]. change (KT.z_kops KT.ts_ret KT.ts_bind KT.ts_pan) with (kx_base ts_xops).
  rewrite (tie_export_period_tops span_ periodnum tp _ sigs3 rails Hto).
  destruct (S.foldM _ (C.tp_top tp) sigs3) as [sigs4|c|c]; ps; try reflexivity.
  cbn [Glp gLayerPeriod_rails gLayerPeriod_signals fst snd]. change (KT.z_kops KT.ts_ret KT.ts_bind KT.ts_pan) with (kx_base ts_xops).
  rewrite (tie_export_period_tracks rails vias).
  destruct (S.mapM (C.export_track vs vm) rails) as [rr|c|c]; ps; try reflexivity.
  change (KT.z_kops KT.ts_ret KT.ts_bind KT.ts_pan) with (kx_base ts_xops).
  change (fun (t__l2_ : S.track) (st__ : list (gElement Z Z unit Z)) =>
            g_RawExporter_export_cell_layer_period_loop6 ts_xops Z Z S.track (x_export_track vs vm) Gx (Gvm vm) t__l2_ st__)
    with (fun (t : S.track) (st__ : list (gElement Z Z unit Z)) =>
            g_RawExporter_export_cell_layer_period_loop5 ts_xops Z Z S.track (x_export_track vs vm) Gx (Gvm vm) t st__).
  rewrite (tie_export_period_tracks sigs4 (vias ++ concat rr)).
  destruct (S.mapM (C.export_track vs vm) sigs4) as [ss|c|c]; ps; try reflexivity.
  rewrite <- app_assoc. reflexivity.
Qed.
End Period.
