(** Specification side of property C19, written from the property statement (and, for outline
    validity, from the documentation of `Outline` in layout21tetris/src/outline.rs), not from the
    converters.  Only definitions; no proofs. *)
From Coq Require Import ZArith NArith List Bool String Sorted.
From L21 Require Import Order.DepOrder Order.DepOrderSpec Tetris.TProto.
Import ListNotations.
Local Open Scope Z_scope.

(** * Tetris libraries *)
Definition cell_insts (c : TCell) : list TInst :=
  match tc_layout c with Some l => tl_insts l | None => [] end.

(** typing: every pointer of the listing and of every instance denotes a cell object *)
Definition ptr_ok (L : TLib) (p : N) : Prop := (N.to_nat p < List.length (tlib_heap L))%nat.
Definition ptrs_valid (L : TLib) : Prop :=
  (forall p, In p (tlib_cells L) -> ptr_ok L p) /\
  (forall c i, In c (tlib_heap L) -> In i (cell_insts c) -> ptr_ok L (ti_cell i)).

(** the cells the library is about: the listed ones and everything they instantiate *)
Definition lib_reachable (L : TLib) (p : N) : Prop := reachable (lib_deps L) (tlib_cells L) p.
Definition rcell (L : TLib) (p : N) (c : TCell) : Prop := lib_reachable L p /\ heap_get L p = Some c.

(** "placed": every instance has an absolute location *)
Definition placed (L : TLib) : Prop :=
  forall p c i, rcell L p c -> In i (cell_insts c) -> ti_loc i <> PRel.

(** no cell instantiates itself, directly or through other cells *)
Definition acyclic (L : TLib) : Prop := ~ cyclic (lib_deps L) (tlib_cells L).

(** outline.rs: "Two equal-length vectors x and y ... (a) x values are monotonically non-increasing,
    and (b) y values are monotonically non-decreasing", at least one step, x steps counted in
    horizontal pitches, y steps in vertical pitches, none negative *)
Definition outline_valid (o : TOutline) : Prop :=
  (1 <= List.length (to_x o))%nat /\ List.length (to_x o) = List.length (to_y o) /\
  Forall (fun p => pp_dir p = Horiz /\ 0 <= pp_num p) (to_x o) /\
  Forall (fun p => pp_dir p = Vert /\ 0 <= pp_num p) (to_y o) /\
  Sorted (fun a b => b <= a) (map pp_num (to_x o)) /\
  Sorted (fun a b => a <= b) (map pp_num (to_y o)).

(** a `usize` that the schema's int64 can carry *)
Definition fits63 (v : Z) : Prop := 0 <= v < two63.
Definition tr_fits (t : TTrackRef) : Prop := fits63 (tr_layer t) /\ fits63 (tr_track t).
Definition tx_fits (c : TCross) : Prop := tr_fits (tx_track c) /\ tr_fits (tx_cross c).
(** an absolute location is an x in horizontal pitches and a y in vertical pitches *)
Definition loc_canon (p : TPlace) : Prop :=
  match p with PAbs x y => pp_dir x = Horiz /\ pp_dir y = Vert | PRel => True end.

Definition layout_wf (l : TLayout) : Prop :=
  outline_valid (tl_outline l) /\ fits63 (tl_metals l) /\
  Forall (fun i => loc_canon (ti_loc i)) (tl_insts l) /\
  Forall (fun a => tx_fits (ta_at a)) (tl_assigns l) /\
  Forall tx_fits (tl_cuts l).
(** abstracts: outline and metal count as for layouts; ports are outside the property *)
Definition abs_wf (a : TAbs) : Prop :=
  outline_valid (tabs_outline a) /\ fits63 (tabs_metals a) /\ tabs_ports a = [].
Definition cell_wf (c : TCell) : Prop :=
  (forall l, tc_layout c = Some l -> layout_wf l) /\ (forall a, tc_abs c = Some a -> abs_wf a).

Definition wf (L : TLib) : Prop :=
  (forall p c, rcell L p c -> cell_wf c) /\
  (forall p q c d, rcell L p c -> rcell L q d -> tc_name c = tc_name d -> p = q).

(** * What "the library came back" means.
    [ord] lists the cells of L in the order in which they appear in L': the k-th cell of L' is
    the image of cell [ord_k] of L.  Every field is equal, and the target of every instance of
    L' is the image of the target of the corresponding instance of L. *)
Definition inst_equiv (ord : list N) (i i' : TInst) : Prop :=
  ti_name i' = ti_name i /\
  nth_error ord (N.to_nat (ti_cell i')) = Some (ti_cell i) /\
  ti_loc i' = ti_loc i /\ ti_rh i' = ti_rh i /\ ti_rv i' = ti_rv i.
Definition layout_equiv (ord : list N) (l l' : TLayout) : Prop :=
  tl_name l' = tl_name l /\ tl_metals l' = tl_metals l /\ tl_outline l' = tl_outline l /\
  Forall2 (inst_equiv ord) (tl_insts l) (tl_insts l') /\
  tl_assigns l' = tl_assigns l /\ tl_cuts l' = tl_cuts l.
Definition opt_rel {A : Type} (R : A -> A -> Prop) (a b : option A) : Prop :=
  match a, b with
  | None, None => True
  | Some x, Some y => R x y
  | _, _ => False
  end.
Definition cell_equiv (ord : list N) (c c' : TCell) : Prop :=
  tc_name c' = tc_name c /\ tc_abs c' = tc_abs c /\ opt_rel (layout_equiv ord) (tc_layout c) (tc_layout c').
Definition tlib_equiv (L L' : TLib) : Prop :=
  tlib_name L' = tlib_name L /\
  exists ord,
    NoDup ord /\ (forall p, In p ord <-> lib_reachable L p) /\
    tlib_cells L' = seqN (List.length ord) /\
    Forall2 (fun p c' => exists c, heap_get L p = Some c /\ cell_equiv ord c c') ord (tlib_heap L').

(** * Protobuf libraries *)
Definition pcell_insts (c : PCell) : list PInstance :=
  match pc_layout c with Some l => pl_insts l | None => [] end.
Definition pinst_local (i : PInstance) : option string :=
  match pi_cell i with
  | Some r => match pref_to r with Some (RLocal n) => Some n | _ => None end
  | None => None
  end.

(** every cell is listed after the cells its instances name *)
Definition deps_first (P : PLib) : Prop :=
  forall k c i n, nth_error (plib_cells P) k = Some c -> In i (pcell_insts c) -> pinst_local i = Some n ->
    exists j c', (j < k)%nat /\ nth_error (plib_cells P) j = Some c' /\ pc_name c' = n.

(** a message with a mandatory sub-message missing, a reference that does not resolve, or a
    relative place.  [defined n]: a cell named n is listed earlier. *)
Definition inst_malformed (defined : string -> Prop) (i : PInstance) : Prop :=
  pi_cell i = None \/
  (exists r, pi_cell i = Some r /\
     (pref_to r = None \/ pref_to r = Some RExternal \/ exists n, pref_to r = Some (RLocal n) /\ ~ defined n)) \/
  pi_loc i = None \/
  (exists pl, pi_loc i = Some pl /\ (pplace_place pl = None \/ pplace_place pl = Some PPRel)).
Definition cross_malformed (c : PTrackCross) : Prop := ptx_track c = None \/ ptx_cross c = None.
Definition assign_malformed (a : PAssign) : Prop :=
  pa_at a = None \/ exists c, pa_at a = Some c /\ cross_malformed c.
Definition layout_malformed (defined : string -> Prop) (l : PLayout) : Prop :=
  pl_outline l = None \/ Exists (inst_malformed defined) (pl_insts l) \/
  Exists assign_malformed (pl_assigns l) \/ Exists cross_malformed (pl_cuts l).
Definition cell_malformed (defined : string -> Prop) (c : PCell) : Prop :=
  (exists l, pc_layout c = Some l /\ layout_malformed defined l) \/
  (exists a, pc_abs c = Some a /\ pabs_outline a = None).
Definition defined_before (P : PLib) (k : nat) (n : string) : Prop :=
  exists j c', (j < k)%nat /\ nth_error (plib_cells P) j = Some c' /\ pc_name c' = n.
Definition malformed (P : PLib) : Prop :=
  exists k c, nth_error (plib_cells P) k = Some c /\ cell_malformed (defined_before P k) c.

(** abstract ports are outside the property (the importer has `todo!()` for them) *)
Definition no_abs_ports (P : PLib) : Prop :=
  forall c a, In c (plib_cells P) -> pc_abs c = Some a -> pabs_ports a = [].
