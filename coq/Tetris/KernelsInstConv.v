(** Reading of the generated conv/raw.rs kernels (Gen/KernelsTetrisConvXGen.v: `RawExporter::track_cross_xy`;
    Gen/KernelsTetrisConvIGen.v: `RawExporter::instance_intersects`) at the level of the compiler model of C08
    (Tetris/Compile.v): outcomes and integers of [ts_xops] (Tetris/KernelsInstTetris.v), and the maps from the model's data
    to the generated records.  `Xy<T>` is read at one instance per generated file (DbUnits in the first, PrimPitches in the
    second).  External to the generated definitions: `ValidStack::metal`, `ValidMetalLayer::center` (their own ties:
    family tetris_stack), `Cell::outline`, `Outline::max` (family tetris_place) and `RawExporter::db_units` (its parameter is
    `impl Into<UnitSpeced>`, outside the subset): the models' [metal_at], [center], outline sizes and [db_dir] stand for
    them.  No proofs in this file. *)
From Coq Require Import ZArith Bool List.
From L21 Require Import Base.KernelOps Base.KernelOpsX Base.KernelOpsS.
From L21 Require Gen.KernelsTetrisConvXGen Gen.KernelsTetrisConvIGen.
From L21 Require Tetris.Stack Tetris.Tracks Tetris.Compile Tetris.KernelsInstTetris.
Import ListNotations.
Local Open Scope Z_scope.
Module S := Tetris.Stack.
Module C := Tetris.Compile.

(** * track_cross_xy *)
Module CX.
Import Gen.KernelsTetrisConvXGen.
Definition ts_xops := Tetris.KernelsInstTetris.ts_xops.
Definition Gu (z : Z) : gDbUnits unit Z := mk_gDbUnits z.
Definition Gdirb (horiz : bool) : gDir unit Z := if horiz then gDir_Horiz else gDir_Vert.
(** of a validated layer the generated record keeps the direction (read by the function) and the index (kept so that
    the external `center` knows which layer it is called on) *)
Definition Gvm (vm : S.vmetal) : gValidMetalLayer unit Z :=
  mk_gValidMetalLayer (mk_gMetalLayer (Gdirb (S.m_horiz (S.vm_spec vm)))) (S.vm_index vm).
Definition Gcross (c : C.cross) : gTrackCross unit Z :=
  mk_gTrackCross (mk_gTrackRef (C.x_tl c) (C.x_tt c)) (mk_gTrackRef (C.x_cl c) (C.x_ct c)).
Definition Gxy (p : Z * Z) : gXy unit Z := mk_gXy (Gu (fst p)) (Gu (snd p)).
(** `ValidStack::metal` / `ValidMetalLayer::center`: the model's functions (tied to the sources in family tetris_stack) *)
Definition x_metal (vs : S.vstack) (_ : gValidStack unit Z) (idx : Z) : S.res (gValidMetalLayer unit Z) :=
  S.bind (C.metal_at vs idx) (fun vm => S.Ok (Gvm vm)).
Definition x_center (fx : C.fixes) (vs : S.vstack) (g : gValidMetalLayer unit Z) (idx : Z) : S.res (gDbUnits unit Z) :=
  S.bind (C.metal_at vs (gValidMetalLayer_index g)) (fun vm => S.bind (C.center fx vm idx) (fun z => S.Ok (Gu z))).
Definition g_track_cross_xy (fx : C.fixes) (vs : S.vstack) (c : C.cross) : S.res (gXy unit Z) :=
  g_RawExporter_track_cross_xy ts_xops (x_center fx vs) (x_metal vs) (mk_gRawExporter mk_gValidStack) (Gcross c).
(** a validated stack numbers its layers by their position *)
Definition indexed_stack (vs : S.vstack) : Prop := forall k vm, C.metal_at vs k = S.Ok vm -> S.vm_index vm = k.
End CX.

(** * instance_intersects *)
Module CI.
Import Gen.KernelsTetrisConvIGen.
Definition ts_xops := Tetris.KernelsInstTetris.ts_xops.
Definition Gu (z : Z) : gDbUnits unit Z := mk_gDbUnits z.
Definition Gdirb (horiz : bool) : gDir unit Z := if horiz then gDir_Horiz else gDir_Vert.
Definition is_horiz (d : gDir unit Z) : bool := match d with gDir_Horiz => true | gDir_Vert => false end.
Definition Gvm (vm : S.vmetal) : gValidMetalLayer unit Z :=
  mk_gValidMetalLayer (mk_gMetalLayer (Gdirb (S.m_horiz (S.vm_spec vm)))) (Gu (S.vm_pitch vm)).
(** an instance at an absolute location (a relative one makes `loc.abs()` an error, before placement) *)
Definition Ginst (i : C.inst) : gInstance unit unit Z :=
  mk_gInstance unit 0%nat
    (gPlace_Abs unit (mk_gXy (mk_gPrimPitches gDir_Horiz (C.i_x i)) (mk_gPrimPitches gDir_Vert (C.i_y i))))
    (C.i_rh i) (C.i_rv i).
(** `db_units` of a PrimPitches value: times the primitive pitch of its direction *)
Definition x_db_units (vs : S.vstack) (_ : gRawExporter unit Z) (p : gPrimPitches unit Z) : S.res (gDbUnits unit Z) :=
  S.Ok (Gu (C.db_dir vs (is_horiz (gPrimPitches_dir p)) (gPrimPitches_num p))).
(** the outline of the instantiated cell: `max(dir)` is its size in that direction *)
Definition x_outline_max (i : C.inst) (_ : unit) (d : gDir unit Z) : S.res (gPrimPitches unit Z) :=
  S.Ok (mk_gPrimPitches d (if is_horiz d then C.i_ox i else C.i_oy i)).
Definition g_instance_intersects (vs : S.vstack) (i : C.inst) (vm : S.vmetal) (periodnum : Z) : S.res bool :=
  g_RawExporter_instance_intersects ts_xops unit unit unit (fun _ => S.Ok tt) (x_outline_max i) (x_db_units vs) (fun _ => S.Ok tt)
    mk_gRawExporter (Ginst i) (Gvm vm) periodnum.
End CI.
