(** Lemmas for the WHOLE-CELL part of property C08 (extension of Tetris/Compile_proofs.v): the composition of the
    per-track theorems through export_period / export_layer / export_layout / compile.
    Theorem statements are repeated in Properties/C08.v; this file holds the proofs.

    Part A  generic lemmas (error monad, point updates of a vector, partitions of a list by a key)
    Part B  the validated stack seen from the specification (metal_at / metal_of, center = centre of track_pos)
    Part C  period_structure: what export_period does to every single track (model level)
    Part D  structure of a layer, a cell, a library; well-formedness unpacked
    Part E  cell_structure: the shapes of a well-formed cell, layer by layer and period by period
    Part F  the via of one assignment passes the specification's test
    Part G  (d) vias_realised: one via per assignment, of the via layer's size, centred on the crossing
    Part H  the rails / signal tracks a period instantiates are the specification's tracks (mirrored periods too)
    Part I  (b) per-period selection: blockages, cuts, assignments filed under (layer, period, track)
    Part J  cuts of a track: admissible placements inside the outline
    Part K  nets of a track: the exporter's set_net calls are the specification's assignments
    Part L  period_tracks: every drawn track described in the specification's terms (track_real)
    Part M  (c) track_real_tiles: per-track tiling, position, layer
    Part N  the executable tiling test accepts every tiling (sorting)
    Part O  cell_layer_tracks: the rectangles on a metal's raw layer are the rectangles of its tracks
    Part P  (c) layer_track_tiled, layer_no_stray
    Part R  nets on the segments of one track (flanked, cover_unique, net_phase_exact, gaps_chain)
    Part S  the two phases of a drawn track; rails (nets, gaps)
    Part T  (e) signal_nets: nets of a signal track in the specification's terms
    Part U  spec_layer_judged
    Part V  (f) cell_spec_judged, cell_spec_holds, compile_spec_judged, compile_spec_holds
    Part W  even widths imply the clearance hypothesis; closed witnesses
    Part X  the intermediate layers at the level of `compile` *)
From Coq Require Import ZArith List Bool Lia Permutation Sorting.Sorted.
From L21 Require Import Tetris.Stack Tetris.Tracks Tetris.Compile Tetris.CompileSpec Tetris.CompileCheck Tetris.Compile_proofs.
Import ListNotations.
Local Open Scope Z_scope.

(** * Part A: generic lemmas on the error monad and lists *)
Lemma bind_ok : forall A B (x : res A) (f : A -> res B) b, bind x f = Ok b -> exists a, x = Ok a /\ f a = Ok b.
Proof. intros A B x f b H. destruct x as [a| |]; simpl in H; try discriminate. exists a; auto. Qed.

Lemma mapM_Forall2 : forall A B (f : A -> res B) l r, mapM f l = Ok r -> Forall2 (fun x y => f x = Ok y) l r.
Proof.
  intros A B f l. induction l as [|x l IH]; intros r H; simpl in H.
  - inversion H; constructor.
  - destruct (f x) as [y| |] eqn:Hy; simpl in H; try discriminate.
    destruct (mapM f l) as [ys| |] eqn:Hys; simpl in H; try discriminate.
    inversion H; subst. constructor; auto.
Qed.

Lemma Forall2_mapM : forall A B (f : A -> res B) l r, Forall2 (fun x y => f x = Ok y) l r -> mapM f l = Ok r.
Proof. intros A B f l r H. induction H; simpl; [reflexivity|]. rewrite H, IHForall2. reflexivity. Qed.

Lemma mapM_app : forall A B (f : A -> res B) l1 l2 r1 r2,
  mapM f l1 = Ok r1 -> mapM f l2 = Ok r2 -> mapM f (l1 ++ l2) = Ok (r1 ++ r2).
Proof.
  intros. apply Forall2_mapM. apply Forall2_app; apply mapM_Forall2; assumption.
Qed.

Lemma foldM_app : forall A S (f : S -> A -> res S) l1 l2 s,
  foldM f (l1 ++ l2) s = (do s' <- foldM f l1 s; foldM f l2 s').
Proof.
  intros A S f l1. induction l1 as [|x l1 IH]; intros l2 s; simpl; [reflexivity|].
  destruct (f s x); simpl; auto.
Qed.

Lemma foldM_ext_inv : forall A S (I : S -> Prop) (f g : S -> A -> res S) l s,
  I s -> (forall s x, I s -> f s x = g s x) -> (forall s x s', I s -> g s x = Ok s' -> I s') ->
  foldM f l s = foldM g l s.
Proof.
  intros A S I f g l. induction l as [|x l IH]; intros s Hs Hfg Hinv; simpl; [reflexivity|].
  rewrite (Hfg s x Hs). destruct (g s x) as [s'| |] eqn:E; simpl; auto.
  apply IH; auto. eapply Hinv; eauto.
Qed.

Lemma foldM_inv : forall A S (I : S -> Prop) (f : S -> A -> res S) l s s',
  I s -> (forall s x s', I s -> f s x = Ok s' -> I s') -> foldM f l s = Ok s' -> I s'.
Proof.
  intros A S I f l. induction l as [|x l IH]; intros s s' Hs Hinv H; simpl in H.
  - inversion H; subst; assumption.
  - destruct (f s x) as [s1| |] eqn:E; simpl in H; try discriminate.
    apply (IH s1 s'); [eapply Hinv; eauto|exact Hinv|exact H].
Qed.

(** ** point updates: a fold that updates one component of a vector per element is, on every
    component, the fold of the elements selecting that component *)
Definition upd {T} (k : nat) (t' : T) (ts : list T) : list T := firstn k ts ++ t' :: skipn (S k) ts.

Lemma nth_error_upd : forall T (ts : list T) k t', (k < length ts)%nat ->
  forall r, nth_error (upd k t' ts) r = if Nat.eqb r k then Some t' else nth_error ts r.
Proof.
  intros T ts k t' Hk r. unfold upd.
  assert (Hl : length (firstn k ts) = k) by (rewrite firstn_length; lia).
  destruct (Nat.eqb r k) eqn:E.
  - apply Nat.eqb_eq in E. subst r. rewrite nth_error_app2 by lia. rewrite Hl, Nat.sub_diag. reflexivity.
  - apply Nat.eqb_neq in E. destruct (Nat.lt_ge_cases r k) as [Hlt|Hge].
    + rewrite nth_error_app1 by lia. rewrite <- (firstn_skipn k ts) at 2. rewrite nth_error_app1 by lia. reflexivity.
    + rewrite nth_error_app2 by lia. rewrite Hl.
      destruct (r - k)%nat as [|d] eqn:Ed; [lia|]. cbn [nth_error].
      rewrite <- (firstn_skipn (S k) ts) at 2.
      assert (Hl2 : length (firstn (S k) ts) = S k) by (rewrite firstn_length; lia).
      rewrite nth_error_app2 by lia. rewrite Hl2. f_equal. lia.
Qed.

Lemma upd_length : forall T (ts : list T) k t', (k < length ts)%nat -> length (upd k t' ts) = length ts.
Proof.
  intros T ts k t' Hk. unfold upd. rewrite app_length, firstn_length.
  change (length (t' :: skipn (S k) ts)) with (S (length (skipn (S k) ts))). rewrite skipn_length. lia.
Qed.

Section PointUpdate.
  Context {X T O : Type}.
  Variable idx : X -> nat.
  Variable g : X -> res O.
  Variable app : T -> O -> res T.
  Definition pstep (ts : list T) (x : X) : res (list T) :=
    match nth_error ts (idx x) with
    | None => Panic 531
    | Some t => do o <- g x; do t' <- app t o; Ok (upd (idx x) t' ts)
    end.

  Lemma pstep_length : forall ts x ts', pstep ts x = Ok ts' -> length ts' = length ts.
  Proof.
    intros ts x ts' H. unfold pstep in H. destruct (nth_error ts (idx x)) as [t|] eqn:Hn; [|discriminate].
    destruct (g x) as [o| |]; cbn [bind] in H; try discriminate.
    destruct (app t o) as [t'| |]; cbn [bind] in H; try discriminate. injection H as H; subst ts'.
    assert (idx x < length ts)%nat by (apply nth_error_Some; congruence).
    apply upd_length; assumption.
  Qed.

  Lemma pfold : forall xs ts ts', foldM pstep xs ts = Ok ts' ->
    length ts' = length ts /\
    forall r t, nth_error ts r = Some t ->
      exists ops t', mapM g (filter (fun x => Nat.eqb (idx x) r) xs) = Ok ops /\ foldM app ops t = Ok t' /\
                     nth_error ts' r = Some t'.
  Proof.
    induction xs as [|x xs IH]; intros ts ts' H; simpl in H.
    - inversion H; subst. split; [reflexivity|]. intros r t Hr. exists [], t. simpl. auto.
    - destruct (pstep ts x) as [ts1| |] eqn:E1; cbn [bind] in H; try discriminate.
      destruct (IH _ _ H) as [Hl IHr]. pose proof (pstep_length _ _ _ E1) as Hl1.
      split; [congruence|]. intros r t Hr.
      unfold pstep in E1. destruct (nth_error ts (idx x)) as [t0|] eqn:Hn; [|discriminate].
      destruct (g x) as [o| |] eqn:Hg; cbn [bind] in E1; try discriminate.
      destruct (app t0 o) as [t0'| |] eqn:Ha; cbn [bind] in E1; try discriminate. injection E1 as E1; subst ts1.
      assert (Hk : (idx x < length ts)%nat) by (apply nth_error_Some; congruence).
      cbn [filter]. destruct (Nat.eqb (idx x) r) eqn:Er.
      + apply Nat.eqb_eq in Er. subst r. rewrite Hn in Hr. inversion Hr; subst t0.
        destruct (IHr (idx x) t0') as [ops [t' [A [B C]]]].
        { rewrite nth_error_upd by assumption. rewrite Nat.eqb_refl. reflexivity. }
        exists (o :: ops), t'. simpl. rewrite Hg, A. simpl. rewrite Ha. simpl. auto.
      + destruct (IHr r t) as [ops [t' [A [B C]]]].
        { rewrite nth_error_upd by assumption. rewrite Nat.eqb_sym, Er. assumption. }
        exists ops, t'. auto.
  Qed.
End PointUpdate.

(** ** a list split by a key that selects exactly one class for every element *)
Lemma flat_map_cons_perm : forall K A (keys : list K) (s : K -> bool) (x : A) (f : K -> list A),
  Permutation (flat_map (fun k => (if s k then [x] else []) ++ f k) keys)
              (map (fun _ => x) (filter s keys) ++ flat_map f keys).
Proof.
  intros K A keys s x f. induction keys as [|k keys IH]; simpl; [constructor|].
  destruct (s k); simpl.
  - constructor. eapply Permutation_trans; [apply Permutation_app_head, IH|]. apply Permutation_app_swap_app.
  - eapply Permutation_trans; [apply Permutation_app_head, IH|]. apply Permutation_app_swap_app.
Qed.

Lemma partition_perm : forall K A (keys : list K) (sel : K -> A -> bool) (l : list A),
  (forall x, In x l -> length (filter (fun k => sel k x) keys) = 1%nat) ->
  Permutation (flat_map (fun k => filter (sel k) l) keys) l.
Proof.
  intros K A keys sel l. induction l as [|x l IH]; intros H.
  - clear H. induction keys as [|k keys IHk]; simpl; [constructor|exact IHk].
  - assert (E : flat_map (fun k => filter (sel k) (x :: l)) keys
              = flat_map (fun k => (if sel k x then [x] else []) ++ filter (sel k) l) keys).
    { apply flat_map_ext. intros k. simpl. destruct (sel k x); reflexivity. }
    rewrite E. eapply Permutation_trans; [apply flat_map_cons_perm|].
    specialize (H x (or_introl eq_refl)) as H1.
    destruct (filter (fun k => sel k x) keys) as [|k0 [|k1 r]]; simpl in H1; try discriminate.
    simpl. constructor. apply IH. intros y Hy. apply H. right; assumption.
Qed.

Lemma filter_flat_map : forall A B (p : B -> bool) (f : A -> list B) l,
  filter p (flat_map f l) = flat_map (fun x => filter p (f x)) l.
Proof. intros A B p f l. induction l as [|x l IH]; simpl; [reflexivity|]. rewrite filter_app, IH. reflexivity. Qed.

Lemma filter_concat : forall A (p : A -> bool) ll, filter p (concat ll) = concat (map (filter p) ll).
Proof. intros A p ll. induction ll as [|l ll IH]; simpl; [reflexivity|]. rewrite filter_app, IH. reflexivity. Qed.

Lemma filter_filter : forall A (p q : A -> bool) l, filter p (filter q l) = filter (fun x => q x && p x) l.
Proof.
  intros A p q l. induction l as [|x l IH]; simpl; [reflexivity|].
  destruct (q x); simpl; [destruct (p x); rewrite IH; reflexivity|assumption].
Qed.

Lemma filter_ext_in' : forall A (p q : A -> bool) l, (forall x, In x l -> p x = q x) -> filter p l = filter q l.
Proof.
  intros A p q l H. induction l as [|x l IH]; simpl; [reflexivity|].
  rewrite (H x (or_introl eq_refl)), IH; [reflexivity|]. intros y Hy. apply H. right; assumption.
Qed.

Lemma filter_all_true : forall A (p : A -> bool) l, (forall x, In x l -> p x = true) -> filter p l = l.
Proof.
  intros A p l H. induction l as [|x l IH]; simpl; [reflexivity|].
  rewrite (H x (or_introl eq_refl)), IH; [reflexivity|]. intros y Hy. apply H. right; assumption.
Qed.

Lemma filter_none : forall A (p : A -> bool) l, (forall x, In x l -> p x = false) -> filter p l = [].
Proof.
  intros A p l H. induction l as [|x l IH]; simpl; [reflexivity|].
  rewrite (H x (or_introl eq_refl)). apply IH. intros y Hy. apply H. right; assumption.
Qed.

Lemma concat_map_flat_map : forall A B (f : A -> list B) l, concat (map f l) = flat_map f l.
Proof. intros. symmetry. apply flat_map_concat_map. Qed.

(** ** zseq *)
Lemma zseq_In : forall n k, In k (zseq n) <-> 0 <= k < n.
Proof.
  intros n k. unfold zseq. rewrite in_map_iff. split.
  - intros [i [<- Hi]]. apply in_seq in Hi. lia.
  - intros Hk. exists (Z.to_nat k). split; [lia|]. apply in_seq. lia.
Qed.

Lemma zseq_NoDup : forall n, NoDup (zseq n).
Proof.
  intros n. unfold zseq. apply FinFun.Injective_map_NoDup; [|apply seq_NoDup].
  intros a b H. lia.
Qed.

Lemma NoDup_filter_eq_one : forall (l : list Z) k, NoDup l -> In k l -> length (filter (fun x => x =? k) l) = 1%nat.
Proof.
  intros l k Hnd. induction Hnd as [|x l Hx Hnd IH]; intros Hin; [destruct Hin|].
  simpl. destruct (x =? k) eqn:E.
  - apply Z.eqb_eq in E. subst x. simpl. f_equal.
    rewrite filter_none; [reflexivity|]. intros y Hy. apply Z.eqb_neq. intro; subst. contradiction.
  - destruct Hin as [->|Hin]; [rewrite Z.eqb_refl in E; discriminate|]. auto.
Qed.

Lemma indexed_nth : forall A (l : list A) k x, In (k, x) (indexed l) <-> (0 <= k /\ nth_error l (Z.to_nat k) = Some x).
Proof.
  intros A l k x. unfold indexed.
  assert (G : forall a, In (k, x) (combine (map Z.of_nat (seq a (length l))) l) <->
                        (Z.of_nat a <= k /\ nth_error l (Z.to_nat k - a) = Some x)).
  { induction l as [|y l IH]; intros a; simpl.
    - split; [tauto|]. intros [_ H]. destruct (Z.to_nat k - a)%nat; discriminate.
    - rewrite IH. split.
      + intros [H|[H1 H2]].
        * inversion H; subst. split; [lia|]. replace (Z.to_nat (Z.of_nat a) - a)%nat with O by lia. reflexivity.
        * split; [lia|]. replace (Z.to_nat k - a)%nat with (S (Z.to_nat k - S a)) by lia. exact H2.
      + intros [H1 H2]. destruct (Z.eq_dec k (Z.of_nat a)) as [->|Hne].
        * left. replace (Z.to_nat (Z.of_nat a) - a)%nat with O in H2 by lia. simpl in H2. congruence.
        * right. split; [lia|]. replace (Z.to_nat k - a)%nat with (S (Z.to_nat k - S a)) in H2 by lia. exact H2. }
  rewrite G. rewrite Nat.sub_0_r. simpl. tauto.
Qed.

Lemma Forall2_imp : forall A B (R S : A -> B -> Prop) l1 l2,
  (forall x y, R x y -> S x y) -> Forall2 R l1 l2 -> Forall2 S l1 l2.
Proof. intros A B R S l1 l2 H F. induction F; constructor; auto. Qed.

(** * Part B: the validated stack seen from the specification *)
Lemma validate_metals_nth : forall px py ms i vms,
  validate_metals px py ms i = Ok vms ->
  length vms = length ms /\
  forall k m, nth_error ms k = Some m ->
    exists vm, nth_error vms k = Some vm /\ validate_metal px py m (i + Z.of_nat k) = Ok vm.
Proof.
  intros px py ms. induction ms as [|m ms IH]; intros i vms H; simpl in H.
  - inversion H; subst. split; [reflexivity|]. intros k m Hk. destruct k; discriminate.
  - destruct (validate_metal px py m i) as [v| |] eqn:Hv; cbn [bind] in H; try discriminate.
    destruct (validate_metals px py ms (i + 1)) as [vs| |] eqn:Hvs; cbn [bind] in H; try discriminate.
    inversion H; subst vms; clear H. destruct (IH _ _ Hvs) as [Hl Hn]. split; [simpl; congruence|].
    intros k m0 Hk. destruct k as [|k]; simpl in Hk.
    + inversion Hk; subst m0. exists v. split; [reflexivity|]. rewrite Z.add_0_r. exact Hv.
    + destruct (Hn _ _ Hk) as [vm [A B]]. exists vm. split; [exact A|].
      replace (i + Z.of_nat (S k)) with (i + 1 + Z.of_nat k) by lia. exact B.
Qed.

Record vs_of (st : stack) (vs : vstack) : Prop := {
  vso_stack : vs_stack vs = st;
  vso_px : 0 < s_px st;
  vso_py : 0 < s_py st;
  vso_metals : validate_metals (s_px st) (s_py st) (s_metals st) 0 = Ok (vs_metals vs) }.

Lemma validate_stack_vs_of : forall st vs, validate_stack st = Ok vs -> vs_of st vs.
Proof.
  intros st vs H. unfold validate_stack, assert in H.
  destruct (s_px st >? 0) eqn:Hx; cbn [bind] in H; [|discriminate].
  destruct (s_py st >? 0) eqn:Hy; cbn [bind] in H; [|discriminate].
  destruct (validate_metals _ _ _ _) as [vms| |] eqn:Hvms; cbn [bind] in H; try discriminate.
  inversion H; subst vs; clear H. apply Z.gtb_lt in Hx. apply Z.gtb_lt in Hy.
  constructor; simpl; auto.
Qed.

Lemma metal_at_of : forall st vs l vm, vs_of st vs -> metal_at vs l = Ok vm ->
  exists m, metal_of st l = Some m /\ validate_metal (s_px st) (s_py st) m l = Ok vm.
Proof.
  intros st vs l vm Hvs H. unfold metal_at in H. unfold metal_of.
  destruct (l <? 0) eqn:El; [discriminate|]. apply Z.ltb_ge in El.
  destruct (nth_error (vs_metals vs) (Z.to_nat l)) as [vm'|] eqn:En; [|discriminate]. inversion H; subst vm'.
  destruct (validate_metals_nth _ _ _ _ _ (vso_metals _ _ Hvs)) as [Hl Hn].
  destruct (nth_error (s_metals st) (Z.to_nat l)) as [m|] eqn:Em.
  - destruct (Hn _ _ Em) as [vm2 [A B]]. exists m. split; [reflexivity|].
    rewrite En in A. inversion A; subst vm2. replace (0 + Z.of_nat (Z.to_nat l)) with l in B by lia. exact B.
  - apply nth_error_None in Em. assert (Z.to_nat l < length (vs_metals vs))%nat by (apply nth_error_Some; congruence). lia.
Qed.

Lemma metal_of_at : forall st vs l m, vs_of st vs -> metal_of st l = Some m ->
  exists vm, metal_at vs l = Ok vm /\ validate_metal (s_px st) (s_py st) m l = Ok vm.
Proof.
  intros st vs l m Hvs H. unfold metal_of in H. unfold metal_at.
  destruct (l <? 0) eqn:El; [discriminate|]. apply Z.ltb_ge in El.
  destruct (validate_metals_nth _ _ _ _ _ (vso_metals _ _ Hvs)) as [Hl Hn].
  destruct (Hn _ _ H) as [vm [A B]]. exists vm. rewrite A. split; [reflexivity|].
  replace (0 + Z.of_nat (Z.to_nat l)) with l in B by lia. exact B.
Qed.

Lemma metal_of_range : forall st l m, metal_of st l = Some m -> 0 <= l < zlen (s_metals st).
Proof.
  intros st l m H. unfold metal_of in H. destruct (l <? 0) eqn:El; [discriminate|]. apply Z.ltb_ge in El.
  assert (Z.to_nat l < length (s_metals st))%nat by (apply nth_error_Some; congruence). unfold zlen. lia.
Qed.

(** what a validated metal knows *)
Record vm_of (m : metal) (l : Z) (vm : vmetal) : Prop := {
  vmo_spec : vm_spec vm = m;
  vmo_index : vm_index vm = l;
  vmo_pitch : vm_pitch vm = period_len m;
  vmo_pos : 0 < period_len m;
  vmo_nsig : zlen (vm_sigs vm) = nsig m }.

Lemma validate_metal_vm_of : forall px py m l vm, validate_metal px py m l = Ok vm -> vm_of m l vm.
Proof.
  intros px py m l vm H. destruct (validate_metal_data _ _ _ _ _ H) as [A [B [C [D E]]]].
  constructor; auto.
  - rewrite C. apply pitch_period_len.
  - rewrite <- pitch_period_len. exact D.
  - unfold zlen, nsig, sig_idx. rewrite <- (map_length td_pos), E, walk_sig_list, entries_flat, sig_list_length. reflexivity.
Qed.

(** the centre of a track as the code computes it *)
Definition cen (p : Z * Z) : Z := fst p + Z.quot (snd p) 2.

Lemma center_cen : forall px py m l vm k, validate_metal px py m l = Ok vm -> 0 <= k -> 0 < nsig m ->
  exists p, track_pos_m m k = Some p /\ center fixed vm k = Ok (cen p).
Proof.
  intros px py m l vm k Hv Hk Hn.
  destruct (track_start_width_spec px py m l vm k Hv Hk Hn) as [p [H1 H2]].
  exists p. split; [exact H1|]. unfold center. rewrite H2. reflexivity.
Qed.

Lemma cen_centre2 : forall p, 0 <= snd p -> 2 * cen p <= centre2 p <= 2 * cen p + 1.
Proof.
  intros [s w] Hw. unfold cen, centre2. cbn [fst snd] in *.
  rewrite Z.quot_div_nonneg by lia. pose proof (Z.div_mod w 2). pose proof (Z.mod_pos_bound w 2). lia.
Qed.

Lemma cen_floor : forall p, 0 <= snd p -> cen p = centre2 p / 2.
Proof.
  intros p Hw. pose proof (cen_centre2 p Hw). apply Z.div_unique with (r := centre2 p - 2 * cen p); lia.
Qed.

(** track_cross_xy on a crossing of two existing layers: (centre of the vertical, centre of the horizontal)
    when the directions differ *)
Lemma track_cross_xy_ok : forall st vs x mt mc,
  vs_of st vs -> metal_of st (x_tl x) = Some mt -> metal_of st (x_cl x) = Some mc ->
  0 < nsig mt -> 0 < nsig mc -> 0 <= x_tt x -> 0 <= x_ct x ->
  exists pt pc, track_pos_m mt (x_tt x) = Some pt /\ track_pos_m mc (x_ct x) = Some pc /\
    track_cross_xy fixed vs x = Ok (if m_horiz mt then (cen pc, cen pt) else (cen pt, cen pc)).
Proof.
  intros st vs x mt mc Hvs Hmt Hmc Hnt Hnc Htt Hct.
  destruct (metal_of_at _ _ _ _ Hvs Hmt) as [vt [At Bt]].
  destruct (metal_of_at _ _ _ _ Hvs Hmc) as [vc [Ac Bc]].
  destruct (center_cen _ _ _ _ _ _ Bt Htt Hnt) as [pt [Pt Ct]].
  destruct (center_cen _ _ _ _ _ _ Bc Hct Hnc) as [pc [Pc Cc]].
  exists pt, pc. split; [exact Pt|]. split; [exact Pc|].
  unfold track_cross_xy. rewrite At. cbn [bind]. rewrite Ct. cbn [bind]. rewrite Ac. cbn [bind]. rewrite Cc. cbn [bind].
  rewrite (vmo_spec _ _ _ (validate_metal_vm_of _ _ _ _ _ Bt)). destruct (m_horiz mt); reflexivity.
Qed.

(** * Part C: what export_period does to every single track *)
Definition tapp (t : track) (o : op) : res track := do s <- apply_op (t_segs t) o; Ok (mkTrack (t_data t) s).

Lemma tapp_fold : forall ops t t', foldM tapp ops t = Ok t' ->
  foldM apply_op ops (t_segs t) = Ok (t_segs t') /\ t_data t' = t_data t.
Proof.
  induction ops as [|o ops IH]; intros t t' H; simpl in H.
  - inversion H; subst. auto.
  - unfold tapp at 1 in H. destruct (apply_op (t_segs t) o) as [s| |] eqn:E; cbn [bind] in H; try discriminate.
    destruct (IH _ _ H) as [A B]. cbn [t_segs t_data] in A, B. simpl. rewrite E. cbn [bind]. auto.
Qed.

Definition block_op (vs : vstack) (horiz : bool) (b : Z * Z * Z) : op :=
  let '(n1, n2, src) := b in OBlock (db_dir vs horiz n1) (db_dir vs horiz n2) src.
Definition cut_op (vs : vstack) (m : metal) (kc : Z * cross) : res op :=
  do loc <- track_cross_xy fixed vs (snd kc);
  let start := xy_dir (m_horiz m) loc - Z.quot (m_cutsize m) 2 in
  Ok (OCut start (start + m_cutsize m) (fst kc)).
Definition net_op (vs : vstack) (horiz : bool) (v : vassign) : res op :=
  do loc <- track_cross_xy fixed vs (va_at v); Ok (ONet (xy_dir horiz loc) (va_net v)).

Lemma Forall2_nth : forall A B (R : A -> B -> Prop) l1 l2, Forall2 R l1 l2 ->
  length l2 = length l1 /\ forall k x, nth_error l1 k = Some x -> exists y, nth_error l2 k = Some y /\ R x y.
Proof.
  intros A B R l1 l2 H. induction H as [|x y l1 l2 Hxy H IH].
  - split; [reflexivity|]. intros k x Hk. destruct k; discriminate.
  - destruct IH as [Hl Hn]. split; [simpl; congruence|]. intros k x0 Hk. destruct k as [|k]; simpl in *.
    + inversion Hk; subst. eauto.
    + apply Hn; assumption.
Qed.

Lemma period_block_F2 : forall a b src sigs rails sigs' rails',
  period_block a b src (sigs, rails) = Ok (sigs', rails') ->
  Forall2 (fun t t' => tapp t (OBlock a b src) = Ok t') sigs sigs' /\
  Forall2 (fun t t' => tapp t (OBlock a b src) = Ok t') rails rails'.
Proof.
  intros a b src sigs rails sigs' rails' H. unfold period_block in H.
  destruct (mapM (track_block a b src) rails) as [r| |] eqn:E1; cbn [bind] in H; try discriminate.
  destruct (mapM (track_block a b src) sigs) as [s| |] eqn:E2; cbn [bind] in H; try discriminate.
  inversion H; subst. split; apply mapM_Forall2; assumption.
Qed.

Lemma blocks_fold : forall vs horiz bs sigs rails sigs' rails',
  foldM (block_step vs horiz) bs (sigs, rails) = Ok (sigs', rails') ->
  Forall2 (fun t t' => foldM tapp (map (block_op vs horiz) bs) t = Ok t') sigs sigs' /\
  Forall2 (fun t t' => foldM tapp (map (block_op vs horiz) bs) t = Ok t') rails rails'.
Proof.
  intros vs horiz bs. induction bs as [|[[n1 n2] src] bs IH]; intros sigs rails sigs' rails' H; cbn [foldM] in H.
  - inversion H; subst. split; simpl.
    + clear. induction sigs'; constructor; auto.
    + clear. induction rails'; constructor; auto.
  - unfold block_step at 1 in H.
    destruct (period_block _ _ _ _) as [[s1 r1]| |] eqn:E; cbn [bind] in H; try discriminate.
    destruct (period_block_F2 _ _ _ _ _ _ _ E) as [A1 A2]. destruct (IH _ _ _ _ H) as [B1 B2].
    assert (G : forall l1 l2 l3,
      Forall2 (fun t t' => tapp t (OBlock (db_dir vs horiz n1) (db_dir vs horiz n2) src) = Ok t') l1 l2 ->
      Forall2 (fun t t' => foldM tapp (map (block_op vs horiz) bs) t = Ok t') l2 l3 ->
      Forall2 (fun t t' => foldM tapp (map (block_op vs horiz) ((n1, n2, src) :: bs)) t = Ok t') l1 l3).
    { clear. intros l1 l2 l3 H1. revert l3. induction H1 as [|x y l1 l2 Hxy H1 IH]; intros l3 H2; inversion H2; subst; constructor.
      - simpl. rewrite Hxy. cbn [bind]. assumption.
      - apply IH; assumption. }
    split; eapply G; eauto.
Qed.

(** the cut step and the assignment step are point updates *)
Definition cut_idx (N : nat) (kc : Z * cross) : nat := Z.to_nat (Z.rem (x_tt (snd kc)) (Z.of_nat N)).
Definition asg_idx (N : nat) (top : bool) (v : vassign) : nat :=
  Z.to_nat (Z.rem (if top then snd (va_top v) else snd (va_bot v)) (Z.of_nat N)).

Lemma cut_step_pstep : forall vs m N sigs kc, length sigs = N -> N <> O ->
  cut_step fixed vs m sigs kc = pstep (cut_idx N) (cut_op vs m) tapp sigs kc.
Proof.
  intros vs m N sigs [k cut] Hl HN. unfold cut_step, pstep, cut_idx, cut_op. cbn [fst snd].
  unfold zlen. rewrite Hl. destruct (Z.of_nat N =? 0) eqn:E; [apply Z.eqb_eq in E; lia|].
  destruct (nth_error sigs _) as [t|]; [|reflexivity].
  destruct (track_cross_xy fixed vs cut) as [loc| |]; cbn [bind]; try reflexivity.
Qed.

Lemma assign_track_pstep : forall vs vm N sigs v top, length sigs = N -> N <> O ->
  assign_track fixed vs vm sigs v top = pstep (asg_idx N top) (net_op vs (m_horiz (vm_spec vm))) tapp sigs v.
Proof.
  intros vs vm N sigs v top Hl HN. unfold assign_track, pstep, asg_idx, net_op.
  unfold zlen. rewrite Hl. destruct (Z.of_nat N =? 0) eqn:E; [apply Z.eqb_eq in E; lia|].
  destruct (nth_error sigs _) as [t|]; [|reflexivity].
  destruct (track_cross_xy fixed vs (va_at v)) as [loc| |]; cbn [bind]; try reflexivity.
Qed.

Lemma fold_pstep_eq : forall X (step : list track -> X -> res (list track)) idx g N xs sigs,
  length sigs = N -> (forall s x, length s = N -> step s x = pstep idx g tapp s x) ->
  foldM step xs sigs = foldM (pstep idx g tapp) xs sigs.
Proof.
  intros X step idx g N xs sigs Hl Heq.
  apply (foldM_ext_inv _ _ (fun s => length s = N)); auto.
  intros s x s' Hs H. rewrite (pstep_length _ _ _ _ _ _ H). exact Hs.
Qed.

(** vias of the bottom assignments *)
Definition via_rel (vs : vstack) (vm : vmetal) (v : vassign) (s : shape) : Prop :=
  exists vl lay loc, via_from vs (vm_index vm) = Ok vl /\ v_raw vl = Some lay /\
    track_cross_xy fixed vs (va_at v) = Ok loc /\ s = via_shape fixed vl lay loc (va_net v).

Lemma bots_fold : forall vs vm xs sigs vias sigs' vias',
  foldM (bot_step fixed vs vm) xs (sigs, vias) = Ok (sigs', vias') ->
  foldM (fun s v => assign_track fixed vs vm s v false) xs sigs = Ok sigs' /\
  exists vnew, vias' = vias ++ vnew /\ Forall2 (via_rel vs vm) xs vnew.
Proof.
  intros vs vm xs. induction xs as [|v xs IH]; intros sigs vias sigs' vias' H; simpl in H.
  - inversion H; subst. split; [reflexivity|]. exists []. rewrite app_nil_r. split; [reflexivity|constructor].
  - destruct (via_from vs (vm_index vm)) as [vl| |] eqn:Hvl; cbn [bind] in H; try discriminate.
    destruct (assign_track fixed vs vm sigs v false) as [s1| |] eqn:Ha; cbn [bind] in H; try discriminate.
    destruct (track_cross_xy fixed vs (va_at v)) as [loc| |] eqn:Hloc; cbn [bind] in H; try discriminate.
    destruct (v_raw vl) as [lay|] eqn:Hraw; cbn [bind] in H; try discriminate.
    destruct (IH _ _ _ _ H) as [A [vnew [B C]]]. split.
    + simpl. rewrite Ha. cbn [bind]. exact A.
    + exists (via_shape fixed vl lay loc (va_net v) :: vnew). split; [rewrite B, <- app_assoc; reflexivity|].
      constructor; [|exact C]. exists vl, lay, loc. auto.
Qed.

(** THE PERIOD STRUCTURE: the shapes of a period are the vias of its bottom assignments, then the
    rectangles of every rail after the period's blockages, then those of every signal track after
    the blockages, ITS cuts, ITS bottom and ITS top assignments, in this order *)
Definition sig_ops_ok (vs : vstack) (vm : vmetal) (tp : tperiod) (N r : nat) (ops : list op) : Prop :=
  exists cops bops tops,
    mapM (cut_op vs (vm_spec vm)) (filter (fun x => Nat.eqb (cut_idx N x) r) (tp_cuts tp)) = Ok cops /\
    mapM (net_op vs (m_horiz (vm_spec vm))) (filter (fun x => Nat.eqb (asg_idx N false x) r) (tp_bot tp)) = Ok bops /\
    mapM (net_op vs (m_horiz (vm_spec vm))) (filter (fun x => Nat.eqb (asg_idx N true x) r) (tp_top tp)) = Ok tops /\
    ops = map (block_op vs (m_horiz (vm_spec vm))) (tp_blocks tp) ++ cops ++ bops ++ tops.

Theorem period_structure : forall vs vm span_ q tp out,
  export_period fixed vs vm span_ q tp = Ok out ->
  vm_sigs vm <> [] -> vm_sigs vm = filter is_sig (walk (entries (vm_spec vm)) (m_offset (vm_spec vm))) ->
  exists sigs0 rails0 vias rs ss,
    to_layer_period (vm_spec vm) q span_ = Ok (sigs0, rails0) /\
    out = vias ++ concat rs ++ concat ss /\
    Forall2 (via_rel vs vm) (tp_bot tp) vias /\
    Forall2 (fun t sh => exists t', foldM tapp (map (block_op vs (m_horiz (vm_spec vm))) (tp_blocks tp)) t = Ok t' /\
                                    export_track vs vm t' = Ok sh) rails0 rs /\
    length ss = length sigs0 /\
    forall r t, nth_error sigs0 r = Some t ->
      exists ops t' sh, sig_ops_ok vs vm tp (length sigs0) r ops /\ foldM tapp ops t = Ok t' /\
                        export_track vs vm t' = Ok sh /\ nth_error ss r = Some sh.
Proof.
  intros vs vm span_ q tp out H Hne Hsigs. rewrite export_period_unfold in H. cbv zeta in H.
  destruct (to_layer_period (vm_spec vm) q span_) as [[sigs0 rails0]| |] eqn:Hlp; cbn [bind] in H; try discriminate.
  destruct (to_layer_period_inv _ _ _ _ _ Hlp) as [_ [_ Hlen0]]. rewrite <- Hsigs in Hlen0.
  set (N := length sigs0) in *.
  assert (HN : N <> O) by (rewrite Hlen0; destruct (vm_sigs vm); [congruence|discriminate]).
  destruct (foldM (block_step vs (m_horiz (vm_spec vm))) (tp_blocks tp) (sigs0, rails0)) as [[sigs1 rails1]| |] eqn:H1;
    cbn [bind] in H; try discriminate.
  destruct (blocks_fold _ _ _ _ _ _ _ H1) as [B1 B2].
  destruct (Forall2_nth _ _ _ _ _ B1) as [L1 N1].
  destruct (foldM (cut_step fixed vs (vm_spec vm)) (tp_cuts tp) sigs1) as [sigs2| |] eqn:H2; cbn [bind] in H; try discriminate.
  rewrite (fold_pstep_eq _ _ (cut_idx N) (cut_op vs (vm_spec vm)) N) in H2;
    [|exact L1|intros; apply cut_step_pstep; assumption].
  destruct (pfold _ _ _ _ _ _ H2) as [L2 N2].
  destruct (foldM (bot_step fixed vs vm) (tp_bot tp) (sigs2, [])) as [[sigs3 vias]| |] eqn:H3; cbn [bind] in H; try discriminate.
  destruct (bots_fold _ _ _ _ _ _ _ H3) as [H3' [vnew [Hv1 Hv2]]]. simpl in Hv1. subst vias.
  rewrite (fold_pstep_eq _ _ (asg_idx N false) (net_op vs (m_horiz (vm_spec vm))) N) in H3';
    [|rewrite L2; exact L1|intros; apply assign_track_pstep; assumption].
  destruct (pfold _ _ _ _ _ _ H3') as [L3 N3].
  destruct (foldM (fun sigs v => assign_track fixed vs vm sigs v true) (tp_top tp) sigs3) as [sigs4| |] eqn:H4;
    cbn [bind] in H; try discriminate.
  rewrite (fold_pstep_eq _ _ (asg_idx N true) (net_op vs (m_horiz (vm_spec vm))) N) in H4;
    [|rewrite L3, L2; exact L1|intros; apply assign_track_pstep; assumption].
  destruct (pfold _ _ _ _ _ _ H4) as [L4 N4].
  destruct (mapM (export_track vs vm) rails1) as [rs| |] eqn:H5; cbn [bind] in H; try discriminate.
  destruct (mapM (export_track vs vm) sigs4) as [ss| |] eqn:H6; cbn [bind] in H; try discriminate.
  inversion H; subst out; clear H.
  exists sigs0, rails0, vnew, rs, ss. split; [reflexivity|]. split; [reflexivity|]. split; [exact Hv2|].
  pose proof (mapM_Forall2 _ _ _ _ _ H5) as F5. pose proof (mapM_Forall2 _ _ _ _ _ H6) as F6.
  destruct (Forall2_nth _ _ _ _ _ F6) as [L6 N6].
  split; [|split].
  - clear - B2 F5. revert rs F5. induction B2 as [|t t' l l' Ht B2 IH]; intros rs F5; inversion F5; subst; constructor; eauto.
  - rewrite L6, L4, L3, L2. exact L1.
  - intros r t Hr.
    destruct (N1 _ _ Hr) as [t1 [Hr1 F1]].
    destruct (N2 _ _ Hr1) as [cops [t2 [C1 [C2 Hr2]]]].
    destruct (N3 _ _ Hr2) as [bops [t3 [D1 [D2 Hr3]]]].
    destruct (N4 _ _ Hr3) as [tops [t4 [E1 [E2 Hr4]]]].
    destruct (N6 _ _ Hr4) as [sh [Hsh Hex]].
    exists (map (block_op vs (m_horiz (vm_spec vm))) (tp_blocks tp) ++ cops ++ bops ++ tops), t4, sh.
    split; [exists cops, bops, tops; auto|]. split; [|auto].
    rewrite foldM_app, F1. cbn [bind]. rewrite foldM_app, C2. cbn [bind]. rewrite foldM_app, D2. cbn [bind]. exact E2.
Qed.

(** * Part D: structure of a layer, a cell, a library; what well-formedness says *)
Definition layer_dims (vs : vstack) (c : cell) (vm : vmetal) : Z * Z :=
  if m_horiz (vm_spec vm) then (dbx vs (c_ox c), dby vs (c_oy c)) else (dby vs (c_oy c), dbx vs (c_ox c)).

Lemma layer_structure : forall vs c vas l out,
  export_layer fixed vs c vas l = Ok out ->
  exists vm outs,
    metal_at vs l = Ok vm /\
    Z.rem (snd (layer_dims vs c vm)) (vm_pitch vm) = 0 /\
    0 <= Z.quot (snd (layer_dims vs c vm)) (vm_pitch vm) /\
    Forall2 (fun q o => export_period fixed vs vm (fst (layer_dims vs c vm)) q (temp_period fixed vs c vas vm q) = Ok o)
            (zseq (Z.quot (snd (layer_dims vs c vm)) (vm_pitch vm))) outs /\
    out = concat outs.
Proof.
  intros vs c vas l out H. unfold export_layer in H.
  destruct (metal_at vs l) as [vm| |] eqn:Hvm; cbn [bind] in H; try discriminate.
  exists vm. unfold layer_dims.
  destruct (m_horiz (vm_spec vm)); cbn [fst snd].
  - unfold assert in H. destruct (Z.rem (dby vs (c_oy c)) (vm_pitch vm) =? 0) eqn:E; cbn [bind] in H; [|discriminate].
    destruct (Z.quot (dby vs (c_oy c)) (vm_pitch vm) <? 0) eqn:E2; [discriminate|].
    destruct (mapM _ _) as [r| |] eqn:Hr; cbn [bind] in H; try discriminate. inversion H; subst out.
    exists r. apply Z.eqb_eq in E. apply Z.ltb_ge in E2. repeat split; auto. apply mapM_Forall2 in Hr. exact Hr.
  - unfold assert in H. destruct (Z.rem (dbx vs (c_ox c)) (vm_pitch vm) =? 0) eqn:E; cbn [bind] in H; [|discriminate].
    destruct (Z.quot (dbx vs (c_ox c)) (vm_pitch vm) <? 0) eqn:E2; [discriminate|].
    destruct (mapM _ _) as [r| |] eqn:Hr; cbn [bind] in H; try discriminate. inversion H; subst out.
    exists r. apply Z.eqb_eq in E. apply Z.ltb_ge in E2. repeat split; auto. apply mapM_Forall2 in Hr. exact Hr.
Qed.

Lemma layout_structure : forall vs c shapes,
  export_layout fixed vs c = Ok shapes ->
  exists vas louts, temp_cell fixed vs c = Ok vas /\
    Forall2 (fun l o => export_layer fixed vs c vas l = Ok o) (zseq (c_metals c)) louts /\
    shapes = concat louts.
Proof.
  intros vs c shapes H. unfold export_layout in H.
  destruct (temp_cell fixed vs c) as [vas| |] eqn:Hv; cbn [bind] in H; try discriminate.
  destruct (mapM _ _) as [r| |] eqn:Hr; cbn [bind] in H; try discriminate. inversion H; subst.
  exists vas, r. split; [reflexivity|]. split; [apply mapM_Forall2; assumption|reflexivity].
Qed.

Lemma compile_structure : forall st cells out,
  compile fixed st cells = Ok out ->
  exists vs, validate_stack st = Ok vs /\ Forall2 (fun c shapes => export_layout fixed vs c = Ok shapes) cells out.
Proof.
  intros st cells out H. unfold compile in H.
  destruct (validate_stack st) as [vs| |] eqn:Hvs; cbn [bind] in H; try discriminate.
  exists vs. split; [reflexivity|]. unfold convert in H.
  destruct (mapM (validate_layout fixed vs) cells); cbn [bind] in H; try discriminate.
  destruct (export_stack fixed vs); cbn [bind] in H; try discriminate.
  apply mapM_Forall2. exact H.
Qed.

(** ** validated assignments *)
Lemma validate_assign_bt : forall vs a v, validate_assign fixed vs a = Ok v ->
  assign_bt a = Some (fst a, va_bot v, va_top v) /\ va_at v = snd a /\ va_net v = fst a.
Proof.
  intros vs [net x] v H. unfold validate_assign in H. unfold assign_bt. cbn [fst snd].
  destruct (assert (negb (net =? 0)) 509); cbn [bind] in H; try discriminate.
  destruct (validate_track_cross vs x); cbn [bind] in H; try discriminate.
  destruct (x_tl x =? x_cl x + 1) eqn:E1.
  - inversion H; subst v; simpl. auto.
  - destruct (x_cl x =? 0) eqn:E0; [cbn in H; discriminate|].
    destruct (x_tl x =? x_cl x - 1) eqn:E2; [|discriminate]. inversion H; subst v; simpl.
    apply Z.eqb_eq in E2. assert (E3 : (x_cl x =? x_tl x + 1) = true) by (apply Z.eqb_eq; lia). rewrite E3. auto.
Qed.

Lemma temp_cell_structure : forall vs c vas, temp_cell fixed vs c = Ok vas ->
  Forall2 (fun a v => validate_assign fixed vs a = Ok v /\ fst (va_bot v) < c_metals c /\ fst (va_top v) < c_metals c)
          (c_assigns c) vas.
Proof.
  intros vs c vas H. unfold temp_cell in H.
  destruct (mapM _ (c_cuts c)); cbn [bind] in H; try discriminate.
  apply mapM_Forall2 in H. revert H. apply Forall2_imp.
  clear. intros a v Hv. destruct (validate_assign fixed vs a) as [v0| |] eqn:Hva; cbn [bind] in Hv; try discriminate.
  destruct (metal_at vs (fst (va_bot v0))); cbn [bind] in Hv; try discriminate.
  destruct (metal_at vs (fst (va_top v0))); cbn [bind] in Hv; try discriminate.
  destruct ((fst (va_bot v0) <? c_metals c) && (fst (va_top v0) <? c_metals c)) eqn:E; [|cbn in Hv; discriminate].
  inversion Hv; subst v0. apply andb_prop in E. destruct E as [E1 E2]. apply Z.ltb_lt in E1. apply Z.ltb_lt in E2. auto.
Qed.

(** ** well-formedness, unpacked *)
Record wf_metal (m : metal) : Prop := {
  wfm_widths : Forall (fun e => 0 < e_w e) (flat m);
  wfm_period : 0 < period_len m;
  wfm_nsig : 0 < nsig m;
  wfm_cut : 0 < m_cutsize m;
  wfm_overlap : 0 <= m_overlap m;
  wfm_raw : exists r, m_raw m = Some r }.
Record wf_via (v : via) : Prop := { wfv_sx : 0 < v_sx v; wfv_sy : 0 < v_sy v; wfv_raw : exists r, v_raw v = Some r }.

Definition raw_layers (st : stack) : list Z :=
  flat_map (fun m => match m_raw m with Some r => [r] | None => [] end) (s_metals st)
  ++ flat_map (fun v => match v_raw v with Some r => [r] | None => [] end) (s_vias st).

Lemma nodupb_NoDup : forall l, nodupb l = true -> NoDup l.
Proof.
  induction l as [|x l IH]; intros H; [constructor|]. simpl in H. apply andb_prop in H. destruct H as [H1 H2].
  constructor; [|auto]. intro Hin. apply negb_true_iff in H1.
  assert (existsb (Z.eqb x) l = true) by (apply existsb_exists; exists x; split; [assumption|apply Z.eqb_refl]). congruence.
Qed.

Record wf_stack (st : stack) : Prop := {
  wfs_px : 0 < s_px st; wfs_py : 0 < s_py st;
  wfs_metals : Forall wf_metal (s_metals st);
  wfs_vias : Forall wf_via (s_vias st);
  wfs_nodup : NoDup (raw_layers st) }.

Lemma wf_stackb_wf : forall st, wf_stackb st = true -> wf_stack st.
Proof.
  intros st H. unfold wf_stackb in H.
  repeat (apply andb_prop in H; destruct H as [H ?]).
  constructor.
  - apply Z.ltb_lt; assumption.
  - apply Z.ltb_lt; assumption.
  - apply Forall_forall. intros m Hm. rewrite forallb_forall in H2. specialize (H2 _ Hm).
    repeat (apply andb_prop in H2; destruct H2 as [H2 ?]).
    constructor; try (apply Z.ltb_lt; assumption); try (apply Z.leb_le; assumption).
    + apply Forall_forall. intros e He. rewrite forallb_forall in H2. apply Z.ltb_lt. auto.
    + destruct (m_raw m); [eexists; reflexivity|discriminate].
  - apply Forall_forall. intros v Hv. rewrite forallb_forall in H1. specialize (H1 _ Hv).
    repeat (apply andb_prop in H1; destruct H1 as [H1 ?]).
    constructor; try (apply Z.ltb_lt; assumption). destruct (v_raw v); [eexists; reflexivity|discriminate].
  - apply nodupb_NoDup. assumption.
Qed.

Lemma metal_of_In : forall st l m, metal_of st l = Some m -> In m (s_metals st).
Proof. intros st l m H. unfold metal_of in H. destruct (l <? 0); [discriminate|]. eapply nth_error_In; eauto. Qed.

Lemma wf_metal_of : forall st l m, wf_stack st -> metal_of st l = Some m -> wf_metal m.
Proof. intros st l m H Hm. pose proof (wfs_metals _ H) as F. rewrite Forall_forall in F. apply F. eapply metal_of_In; eauto. Qed.

Record wf_cell (st : stack) (c : cell) : Prop := {
  wfc_stack : wf_stack st;
  wfc_ox : 0 < c_ox c; wfc_oy : 0 < c_oy c;
  wfc_metals : 0 <= c_metals c <= zlen (s_metals st);
  wfc_cuts : Forall (fun x => cut_wfb st c x = true) (c_cuts c);
  wfc_assigns : Forall (fun a => assign_wfb st c a = true) (c_assigns c);
  wfc_insts : Forall (fun i => inst_wfb st c i = true) (c_insts c) }.

Lemma wf_cellb_wf : forall st c, wf_cellb st c = true -> wf_cell st c.
Proof.
  intros st c H. unfold wf_cellb in H. remember (wf_stackb st) as w eqn:Hw. repeat (apply andb_prop in H; destruct H as [H ?]).
  constructor; try (apply Z.ltb_lt; assumption); try (apply Forall_forall; apply forallb_forall; assumption).
  - apply wf_stackb_wf; congruence.
  - split; apply Z.leb_le; assumption.
Qed.

(** * Part E: the shapes of a well-formed cell, layer by layer and period by period *)
Definition period_rel (vs : vstack) (vm : vmetal) (span_ : Z) (tp : tperiod) (q : Z) (out : list shape) : Prop :=
  exists sigs0 rails0 vias rs ss,
    to_layer_period (vm_spec vm) q span_ = Ok (sigs0, rails0) /\
    out = vias ++ concat rs ++ concat ss /\
    Forall2 (via_rel vs vm) (tp_bot tp) vias /\
    Forall2 (fun t sh => exists t', foldM tapp (map (block_op vs (m_horiz (vm_spec vm))) (tp_blocks tp)) t = Ok t' /\
                                    export_track vs vm t' = Ok sh) rails0 rs /\
    length ss = length sigs0 /\
    forall r t, nth_error sigs0 r = Some t ->
      exists ops t' sh, sig_ops_ok vs vm tp (length sigs0) r ops /\ foldM tapp ops t = Ok t' /\
                        export_track vs vm t' = Ok sh /\ nth_error ss r = Some sh.

Definition layer_rel (st : stack) (vs : vstack) (c : cell) (vas : list vassign) (l : Z) (out : list shape) : Prop :=
  exists m vm pouts,
    metal_of st l = Some m /\ metal_at vs l = Ok vm /\ validate_metal (s_px st) (s_py st) m l = Ok vm /\
    out = concat pouts /\
    Forall2 (fun q o => period_rel vs vm (along_len st c m) (temp_period fixed vs c vas vm q) q o)
            (zseq (nperiods st c m)) pouts.

Lemma layer_dims_spec : forall st vs c m l vm, vs_of st vs -> vm_of m l vm ->
  layer_dims vs c vm = (along_len st c m, across_len st c m).
Proof.
  intros st vs c m l vm Hvs Hvm. unfold layer_dims, along_len, across_len, dbx, dby.
  rewrite (vso_stack _ _ Hvs), (vmo_spec _ _ _ Hvm). destruct (m_horiz m); reflexivity.
Qed.

Lemma across_len_pos : forall st c m, wf_cell st c -> 0 < across_len st c m.
Proof.
  intros st c m H. unfold across_len. pose proof (wfs_px _ (wfc_stack _ _ H)). pose proof (wfs_py _ (wfc_stack _ _ H)).
  pose proof (wfc_ox _ _ H). pose proof (wfc_oy _ _ H). destruct (m_horiz m); nia.
Qed.
Lemma along_len_pos : forall st c m, wf_cell st c -> 0 < along_len st c m.
Proof.
  intros st c m H. unfold along_len. pose proof (wfs_px _ (wfc_stack _ _ H)). pose proof (wfs_py _ (wfc_stack _ _ H)).
  pose proof (wfc_ox _ _ H). pose proof (wfc_oy _ _ H). destruct (m_horiz m); nia.
Qed.

Lemma vm_sigs_nonempty : forall m l vm, vm_of m l vm -> 0 < nsig m -> vm_sigs vm <> [].
Proof. intros m l vm H Hn E. pose proof (vmo_nsig _ _ _ H) as Hz. rewrite E in Hz. unfold zlen in Hz. simpl in Hz. lia. Qed.

Theorem cell_structure : forall st vs c shapes,
  wf_cell st c -> vs_of st vs -> export_layout fixed vs c = Ok shapes ->
  exists vas louts, temp_cell fixed vs c = Ok vas /\ shapes = concat louts /\
    Forall2 (layer_rel st vs c vas) (zseq (c_metals c)) louts.
Proof.
  intros st vs c shapes Hwf Hvs H.
  destruct (layout_structure _ _ _ H) as [vas [louts [Hv [HF Hs]]]].
  exists vas, louts. split; [exact Hv|]. split; [exact Hs|].
  revert HF. apply Forall2_imp. intros l out Hl.
  destruct (layer_structure _ _ _ _ _ Hl) as [vm [outs [Hvm [Hrem [Hq [HF Ho]]]]]].
  destruct (metal_at_of _ _ _ _ Hvs Hvm) as [m [Hm Hval]].
  pose proof (validate_metal_vm_of _ _ _ _ _ Hval) as Hvmo.
  pose proof (wf_metal_of _ _ _ (wfc_stack _ _ Hwf) Hm) as Hwm.
  destruct (validate_metal_data _ _ _ _ _ Hval) as [_ [_ [_ [_ Hsigs]]]].
  exists m, vm, outs. repeat (split; [assumption|]).
  rewrite (layer_dims_spec _ _ _ _ _ _ Hvs Hvmo) in *. cbn [fst snd] in *.
  rewrite (vmo_pitch _ _ _ Hvmo) in *.
  assert (Hnp : Z.quot (across_len st c m) (period_len m) = nperiods st c m).
  { unfold nperiods. apply Z.quot_div_nonneg; [pose proof (across_len_pos st c m Hwf); lia|apply (vmo_pos _ _ _ Hvmo)]. }
  rewrite Hnp in HF. revert HF. apply Forall2_imp. intros q o Hp.
  apply period_structure in Hp.
  - exact Hp.
  - eapply vm_sigs_nonempty; eauto. apply (wfm_nsig _ Hwm).
  - rewrite (vmo_spec _ _ _ Hvmo). exact Hsigs.
Qed.

(** ** raw layers tell metals and vias apart *)
Lemma NoDup_app_disj : forall A (l1 l2 : list A) x, NoDup (l1 ++ l2) -> In x l1 -> In x l2 -> False.
Proof.
  intros A l1. induction l1 as [|a l1 IH]; intros l2 x H H1 H2; [destruct H1|].
  simpl in H. inversion H; subst. destruct H1 as [->|H1].
  - apply H4. apply in_or_app; right; assumption.
  - eapply IH; eauto.
Qed.

Lemma metal_raw_in : forall st m r, In m (s_metals st) -> m_raw m = Some r ->
  In r (flat_map (fun m => match m_raw m with Some r => [r] | None => [] end) (s_metals st)).
Proof. intros st m r Hm Hr. apply in_flat_map. exists m. split; [assumption|]. rewrite Hr. left; reflexivity. Qed.
Lemma via_raw_in : forall st v r, In v (s_vias st) -> v_raw v = Some r ->
  In r (flat_map (fun v => match v_raw v with Some r => [r] | None => [] end) (s_vias st)).
Proof. intros st v r Hv Hr. apply in_flat_map. exists v. split; [assumption|]. rewrite Hr. left; reflexivity. Qed.

Lemma metal_not_via : forall st m r s, wf_stack st -> In m (s_metals st) -> m_raw m = Some r -> sh_layer s = r ->
  is_via_shape st s = false.
Proof.
  intros st m r s Hwf Hm Hr Hs. unfold is_via_shape. destruct (existsb _ _) eqn:E; [|reflexivity].
  apply existsb_exists in E. destruct E as [v [Hv Hon]]. unfold on_layer in Hon.
  destruct (v_raw v) as [r'|] eqn:Hr'; [|discriminate]. apply Z.eqb_eq in Hon. exfalso.
  eapply (NoDup_app_disj _ _ _ r (wfs_nodup _ Hwf)); [eapply metal_raw_in; eauto|eapply via_raw_in; eauto; congruence].
Qed.

Lemma via_is_via : forall st v r s, In v (s_vias st) -> v_raw v = Some r -> sh_layer s = r -> is_via_shape st s = true.
Proof.
  intros st v r s Hv Hr Hs. unfold is_via_shape. apply existsb_exists. exists v. split; [assumption|].
  unfold on_layer. rewrite Hr. apply Z.eqb_eq. assumption.
Qed.

Lemma via_from_between : forall st vs l vl, vs_of st vs -> via_from vs l = Ok vl -> via_between st l = Some vl.
Proof.
  intros st vs l vl Hvs H. unfold via_from in H. rewrite (vso_stack _ _ Hvs) in H. unfold via_between.
  destruct (find _ _); [inversion H; reflexivity|discriminate].
Qed.

(** every rectangle of a track lies on the layer's raw layer *)
Lemma export_track_layer : forall vs vm lay t sh,
  metal_at vs (vm_index vm) = Ok vm -> m_raw (vm_spec vm) = Some lay ->
  export_track vs vm t = Ok sh -> Forall (fun s => sh_layer s = lay) sh.
Proof.
  intros vs vm lay t sh Hm Hr H. rewrite (export_track_shapes _ _ _ _ _ Hm Hr) in H. inversion H; subst sh.
  apply Forall_forall. intros s Hs. apply in_map_iff in Hs. destruct Hs as [g [<- _]].
  unfold rect_of. destruct (m_horiz (vm_spec vm)); reflexivity.
Qed.

Lemma Forall_concat : forall A (P : A -> Prop) ll, Forall (Forall P) ll -> Forall P (concat ll).
Proof. intros A P ll H. induction H; simpl; [constructor|]. apply Forall_app. auto. Qed.

Lemma Forall2_Forall_r : forall A B (R : A -> B -> Prop) (P : B -> Prop) l1 l2,
  Forall2 R l1 l2 -> (forall x y, In x l1 -> R x y -> P y) -> Forall P l2.
Proof.
  intros A B R P l1 l2 H. induction H; intros HP; constructor.
  - eapply HP; [left; reflexivity|eassumption].
  - apply IHForall2. intros x0 y0 Hx. apply HP. right; assumption.
Qed.

(** the parts of one period's output *)
Lemma period_rel_parts : forall st vs l m vm span_ tp q out lay,
  vs_of st vs -> metal_of st l = Some m -> metal_at vs l = Ok vm -> vm_of m l vm -> m_raw m = Some lay ->
  period_rel vs vm span_ tp q out ->
  exists vias trk, out = vias ++ trk /\ Forall2 (via_rel vs vm) (tp_bot tp) vias /\ Forall (fun s => sh_layer s = lay) trk.
Proof.
  intros st vs l m vm span_ tp q out lay Hvs Hm Hvm Hvmo Hraw [sigs0 [rails0 [vias [rs [ss [Hlp [Ho [Hv [Hr [Hl Hs]]]]]]]]]].
  exists vias, (concat rs ++ concat ss). split; [exact Ho|]. split; [exact Hv|].
  assert (Hidx : metal_at vs (vm_index vm) = Ok vm) by (rewrite (vmo_index _ _ _ Hvmo); exact Hvm).
  assert (Hraw' : m_raw (vm_spec vm) = Some lay) by (rewrite (vmo_spec _ _ _ Hvmo); exact Hraw).
  apply Forall_app. split; apply Forall_concat.
  - eapply Forall2_Forall_r; [exact Hr|]. intros t sh _ [t' [_ He]]. eapply export_track_layer; eauto.
  - apply Forall_forall. intros sh Hsh. apply In_nth_error in Hsh. destruct Hsh as [r Hr'].
    assert (Hlt : (r < length sigs0)%nat) by (rewrite <- Hl; apply nth_error_Some; congruence).
    destruct (nth_error sigs0 r) as [t|] eqn:Ht; [|apply nth_error_None in Ht; lia].
    destruct (Hs _ _ Ht) as [ops [t' [sh' [_ [_ [He Hn]]]]]]. rewrite Hn in Hr'. inversion Hr'; subst sh'.
    eapply export_track_layer; eauto.
Qed.

(** * Part F: one via per assignment, of the via layer's size, centred on the crossing *)
Lemma assign_wfb_unpack : forall st c a n b t,
  assign_wfb st c a = true -> assign_bt a = Some (n, b, t) ->
  0 < fst a /\ fst t < c_metals c /\ dir_differs st (fst b) (fst t) = true /\
  track_in_cell st c (fst b) (snd b) = true /\ track_in_cell st c (fst t) (snd t) = true /\
  exists vl mb mt cb2 ct2,
    via_between st (fst b) = Some vl /\ metal_of st (fst b) = Some mb /\ metal_of st (fst t) = Some mt /\
    cross2 st (fst t) (snd t) = Some cb2 /\ cross2 st (fst b) (snd b) = Some ct2 /\
    existsb (Z.eqb cb2) (boundaries2 st c (fst b) mb (snd b)) = false /\
    existsb (Z.eqb ct2) (boundaries2 st c (fst t) mt (snd t)) = false /\
    separatedb st c (fst b) mb (snd b) = true /\ separatedb st c (fst t) mt (snd t) = true.
Proof.
  intros st c a n b t H Hbt. unfold assign_wfb in H. rewrite Hbt in H.
  apply andb_prop in H. destruct H as [H0 H]. apply andb_prop in H0. destruct H0 as [H0 _].
  destruct (via_between st (fst b)) as [vl|] eqn:Hvl; [|repeat (apply andb_prop in H; destruct H as [H ?]); discriminate].
  destruct (metal_of st (fst b)) as [mb|] eqn:Hmb; [|repeat (apply andb_prop in H; destruct H as [H ?]); discriminate].
  destruct (metal_of st (fst t)) as [mt|] eqn:Hmt; [|repeat (apply andb_prop in H; destruct H as [H ?]); discriminate].
  destruct (cross2 st (fst t) (snd t)) as [cb2|] eqn:Hcb; [|repeat (apply andb_prop in H; destruct H as [H ?]); discriminate].
  destruct (cross2 st (fst b) (snd b)) as [ct2|] eqn:Hct; [|repeat (apply andb_prop in H; destruct H as [H ?]); discriminate].
  apply andb_prop in H. destruct H as [H Hm].
  apply andb_prop in H. destruct H as [H Htt]. apply andb_prop in H. destruct H as [H Htb].
  apply andb_prop in H. destruct H as [Hlt Hdir].
  apply andb_prop in Hm. destruct Hm as [Hm Hs2]. apply andb_prop in Hm. destruct Hm as [Hm Hs1].
  apply andb_prop in Hm. destruct Hm as [Hn1 Hn2].
  apply Z.ltb_lt in H0. apply Z.ltb_lt in Hlt. apply negb_true_iff in Hn1. apply negb_true_iff in Hn2.
  repeat (split; [assumption|]). exists vl, mb, mt, cb2, ct2. repeat (split; [first [assumption|reflexivity]|]). assumption.
Qed.

Lemma assign_wfb_clear : forall st c a, assign_wfb st c a = true -> crossing_clearb st c a = true.
Proof.
  intros st c a H. unfold assign_wfb in H. apply andb_prop in H. destruct H as [H _].
  apply andb_prop in H. tauto.
Qed.

Lemma track_in_cell_unpack : forall st c l k, track_in_cell st c l k = true ->
  exists m, metal_of st l = Some m /\ 0 <= k < nperiods st c m * nsig m.
Proof.
  intros st c l k H. unfold track_in_cell in H. destruct (metal_of st l) as [m|]; [|discriminate].
  apply andb_prop in H. destruct H as [H1 H2]. apply Z.leb_le in H1. apply Z.ltb_lt in H2. exists m. unfold ntracks in H2. auto.
Qed.

Lemma dir_differs_unpack : forall st l1 l2 m1 m2, dir_differs st l1 l2 = true ->
  metal_of st l1 = Some m1 -> metal_of st l2 = Some m2 -> m_horiz m1 = negb (m_horiz m2).
Proof.
  intros st l1 l2 m1 m2 H H1 H2. unfold dir_differs in H. rewrite H1, H2 in H.
  destruct (m_horiz m1), (m_horiz m2); simpl in *; congruence.
Qed.

Lemma track_pos_metal : forall st l m k, metal_of st l = Some m -> track_pos st l k = track_pos_m m k.
Proof. intros st l m k H. unfold track_pos. unfold metal_of in H. destruct (l <? 0); [discriminate|]. rewrite H. reflexivity. Qed.

Lemma track_pos_m_width : forall m k p, wf_metal m -> track_pos_m m k = Some p -> 0 < snd p.
Proof.
  intros m k p Hwf H. unfold track_pos_m in H. destruct ((nsig m =? 0) || (k <? 0)); [discriminate|].
  destruct (nth_error (sig_idx m) _) as [i|] eqn:Hi; [|discriminate]. inversion H; subst p. unfold entry_pos. cbn [snd].
  apply nth_error_In in Hi. unfold sig_idx, idx_where in Hi. apply filter_In in Hi. destruct Hi as [Hi _]. apply in_seq in Hi.
  pose proof (wfm_widths _ Hwf) as F. rewrite Forall_forall in F. apply F. apply nth_In. lia.
Qed.

(** the crossing of a well-formed assignment as the exporter computes it and as the specification defines it *)
Lemma assign_crossing : forall st vs c a v,
  wf_cell st c -> vs_of st vs -> assign_wfb st c a = true -> validate_assign fixed vs a = Ok v ->
  exists P Q, 0 < snd P /\ 0 < snd Q /\
    track_cross_xy fixed vs (va_at v) = Ok (cen P, cen Q) /\
    crossing2 st (va_bot v) (va_top v) = Some (centre2 P, centre2 Q) /\
    exists mb mt pb pt, metal_of st (fst (va_bot v)) = Some mb /\ metal_of st (fst (va_top v)) = Some mt /\
      track_pos_m mb (snd (va_bot v)) = Some pb /\ track_pos_m mt (snd (va_top v)) = Some pt /\
      (P, Q) = (if m_horiz mb then (pt, pb) else (pb, pt)) /\ m_horiz mb = negb (m_horiz mt).
Proof.
  intros st vs c [net x] v Hwf Hvs Ha Hv.
  destruct (validate_assign_bt _ _ _ Hv) as [Hbt [Hat Hnet]]. cbn [fst snd] in *.
  destruct (assign_wfb_unpack _ _ _ _ _ _ Ha Hbt) as [_ [_ [Hdir [Hib [Hit [vl [mb [mt [cb2 [ct2 [_ [Hmb [Hmt _]]]]]]]]]]]]].
  destruct (track_in_cell_unpack _ _ _ _ Hib) as [mb' [Hmb' Hkb]]. rewrite Hmb in Hmb'. inversion Hmb'; subst mb'.
  destruct (track_in_cell_unpack _ _ _ _ Hit) as [mt' [Hmt' Hkt]]. rewrite Hmt in Hmt'. inversion Hmt'; subst mt'.
  pose proof (wf_metal_of _ _ _ (wfc_stack _ _ Hwf) Hmb) as Wb. pose proof (wf_metal_of _ _ _ (wfc_stack _ _ Hwf) Hmt) as Wt.
  pose proof (dir_differs_unpack _ _ _ _ _ Hdir Hmb Hmt) as Hd.
  rewrite Hat. unfold crossing2. rewrite Hmb, (track_pos_metal _ _ _ _ Hmb), (track_pos_metal _ _ _ _ Hmt).
  unfold validate_assign in Hv. unfold assign_bt in Hbt.
  destruct (assert (negb (net =? 0)) 509); cbn [bind] in Hv; try discriminate.
  destruct (validate_track_cross vs x); cbn [bind] in Hv; try discriminate.
  destruct (x_tl x =? x_cl x + 1) eqn:E1.
  - inversion Hv; subst v; cbn [va_bot va_top va_at fst snd] in *.
    destruct (track_cross_xy_ok st vs x mt mb Hvs Hmt Hmb (wfm_nsig _ Wt) (wfm_nsig _ Wb) (proj1 Hkt) (proj1 Hkb))
      as [pt [pb [Ppt [Ppb Hxy]]]].
    rewrite Ppt, Ppb. pose proof (track_pos_m_width _ _ _ Wt Ppt). pose proof (track_pos_m_width _ _ _ Wb Ppb).
    destruct (m_horiz mb) eqn:Eb, (m_horiz mt) eqn:Et; simpl in Hd; try discriminate.
    + exists pt, pb. repeat (split; [assumption|]). split; [reflexivity|]. exists mb, mt, pb, pt. rewrite Eb, ?Et. auto 10.
    + exists pb, pt. repeat (split; [assumption|]). split; [reflexivity|]. exists mb, mt, pb, pt. rewrite Eb, ?Et. auto 10.
  - destruct (x_cl x =? 0); [cbn in Hv; discriminate|].
    destruct (x_tl x =? x_cl x - 1) eqn:E2; [|discriminate].
    inversion Hv; subst v; cbn [va_bot va_top va_at fst snd] in *.
    destruct (track_cross_xy_ok st vs x mb mt Hvs Hmb Hmt (wfm_nsig _ Wb) (wfm_nsig _ Wt) (proj1 Hkb) (proj1 Hkt))
      as [pb [pt [Ppb [Ppt Hxy]]]].
    rewrite Ppt, Ppb. pose proof (track_pos_m_width _ _ _ Wt Ppt). pose proof (track_pos_m_width _ _ _ Wb Ppb).
    destruct (m_horiz mb) eqn:Eb, (m_horiz mt) eqn:Et; simpl in Hd; try discriminate.
    + exists pt, pb. repeat (split; [assumption|]). split; [reflexivity|]. exists mb, mt, pb, pt. rewrite Eb, ?Et. auto 10.
    + exists pb, pt. repeat (split; [assumption|]). split; [reflexivity|]. exists mb, mt, pb, pt. rewrite Eb, ?Et. auto 10.
Qed.

Lemma centred_via : forall P s, 0 < snd P -> 0 < s ->
  centredb (centre2 P) s (cen P - Z.quot s 2) (cen P - Z.quot s 2 + s) = true.
Proof.
  intros P s HP Hs. unfold centredb. apply andb_true_intro. split; [apply Z.eqb_eq; lia|].
  apply Z.leb_le. pose proof (cen_centre2 P ltac:(lia)). rewrite Z.quot_div_nonneg by lia.
  pose proof (Z.div_mod s 2 ltac:(lia)). pose proof (Z.mod_pos_bound s 2 ltac:(lia)). lia.
Qed.

Lemma norm_id : forall s, sh_x0 s <= sh_x1 s -> sh_y0 s <= sh_y1 s -> norm s = s.
Proof.
  intros [l x0 y0 x1 y1 n] Hx Hy. unfold norm. cbn [sh_layer sh_x0 sh_x1 sh_y0 sh_y1 sh_net] in *.
  rewrite (Z.min_l x0 x1), (Z.min_l y0 y1), (Z.max_r x0 x1), (Z.max_r y0 y1) by lia. reflexivity.
Qed.

(** THE VIA OF ONE ASSIGNMENT passes the specification's test *)
Theorem via_of_assignment_ok : forall st vs c a v vm s,
  wf_cell st c -> vs_of st vs -> assign_wfb st c a = true -> validate_assign fixed vs a = Ok v ->
  vm_index vm = fst (va_bot v) -> via_rel vs vm v s ->
  via_okb st a s = true /\ is_via_shape st s = true /\ norm s = s.
Proof.
  intros st vs c a v vm s Hwf Hvs Ha Hv Hidx [vl [lay [loc [Hvl [Hraw [Hloc Hs]]]]]].
  destruct (assign_crossing _ _ _ _ _ Hwf Hvs Ha Hv) as [P [Q [HP [HQ [Hxy [Hc2 _]]]]]].
  destruct (validate_assign_bt _ _ _ Hv) as [Hbt [Hat Hnet]].
  rewrite Hxy in Hloc. inversion Hloc; subst loc. rewrite Hidx in Hvl.
  pose proof (via_from_between _ _ _ _ Hvs Hvl) as Hvb.
  assert (Hin : In vl (s_vias st)) by (unfold via_between in Hvb; apply find_some in Hvb; tauto).
  pose proof (wfs_vias _ (wfc_stack _ _ Hwf)) as Fv. rewrite Forall_forall in Fv. specialize (Fv _ Hin).
  pose proof (wfv_sx _ Fv) as Hsx. pose proof (wfv_sy _ Fv) as Hsy.
  subst s. unfold via_shape. cbn [fx_odd fixed fst snd].
  split; [|split].
  - unfold via_okb. rewrite Hbt. cbn [fst]. rewrite Hvb, Hc2. cbn [sh_layer sh_x0 sh_x1 sh_y0 sh_y1 sh_net].
    unfold on_layer. rewrite Hraw. cbn [sh_layer]. rewrite Z.eqb_refl, Hnet, Z.eqb_refl.
    rewrite (centred_via P _ HP Hsx), (centred_via Q _ HQ Hsy). reflexivity.
  - eapply via_is_via; eauto.
  - apply norm_id; cbn [sh_x0 sh_x1 sh_y0 sh_y1]; lia.
Qed.

(** * Part G: the via rectangles of a cell are, up to order, one per assignment *)
Definition fvia (st : stack) (o : list shape) : list shape := filter (is_via_shape st) (map norm o).

Lemma fvia_app : forall st a b, fvia st (a ++ b) = fvia st a ++ fvia st b.
Proof. intros. unfold fvia. rewrite map_app, filter_app. reflexivity. Qed.
Lemma fvia_concat : forall st l, fvia st (concat l) = concat (map (fvia st) l).
Proof. intros st l. induction l as [|x l IH]; simpl; [reflexivity|]. rewrite fvia_app, IH. reflexivity. Qed.

Lemma is_via_norm : forall st s, is_via_shape st (norm s) = is_via_shape st s.
Proof. intros. reflexivity. Qed.

Lemma fvia_metal : forall st m lay o, wf_stack st -> In m (s_metals st) -> m_raw m = Some lay ->
  Forall (fun s => sh_layer s = lay) o -> fvia st o = [].
Proof.
  intros st m lay o Hwf Hm Hr Ho. unfold fvia. apply filter_none. intros s Hs. apply in_map_iff in Hs.
  destruct Hs as [s0 [<- Hs0]]. rewrite is_via_norm. rewrite Forall_forall in Ho. eapply metal_not_via; eauto.
Qed.

Lemma via_rel_shape : forall st vs vm v s, wf_stack st -> vs_of st vs -> via_rel vs vm v s ->
  is_via_shape st s = true /\ norm s = s.
Proof.
  intros st vs vm v s Hwf Hvs [vl [lay [loc [Hvl [Hraw [Hloc Hs]]]]]].
  pose proof (via_from_In _ _ _ Hvl) as Hin. rewrite (vso_stack _ _ Hvs) in Hin.
  pose proof (wfs_vias _ Hwf) as Fv. rewrite Forall_forall in Fv. specialize (Fv _ Hin).
  pose proof (wfv_sx _ Fv). pose proof (wfv_sy _ Fv). subst s. unfold via_shape. cbn [fx_odd fixed]. split.
  - eapply via_is_via; eauto.
  - apply norm_id; cbn [sh_x0 sh_x1 sh_y0 sh_y1]; lia.
Qed.

Lemma fvia_vias : forall st vs vm (xs : list vassign) vias, wf_stack st -> vs_of st vs ->
  Forall2 (via_rel vs vm) xs vias -> fvia st vias = vias.
Proof.
  intros st vs vm xs vias Hwf Hvs H. induction H as [|x s xs vias Hr H IH]; [reflexivity|].
  destruct (via_rel_shape _ _ _ _ _ Hwf Hvs Hr) as [A B]. unfold fvia in *. simpl. rewrite B, A, IH. reflexivity.
Qed.

Lemma Forall2_flat_concat : forall X Y A B (R : A -> B -> Prop) (f : X -> list A) (g : Y -> list B) xs os,
  Forall2 (fun x o => Forall2 R (f x) (g o)) xs os -> Forall2 R (flat_map f xs) (concat (map g os)).
Proof. intros X Y A B R f g xs os H. induction H; simpl; [constructor|]. apply Forall2_app; assumption. Qed.

Definition via_rel2 (vs : vstack) (v : vassign) (s : shape) : Prop :=
  exists vm, vm_index vm = fst (va_bot v) /\ via_rel vs vm v s.

Definition bots_l (st : stack) (vs : vstack) (c : cell) (vas : list vassign) (l : Z) : list vassign :=
  match metal_at vs l, metal_of st l with
  | Ok vm, Some m => flat_map (fun q => tp_bot (temp_period fixed vs c vas vm q)) (zseq (nperiods st c m))
  | _, _ => []
  end.

Lemma tp_bot_eq : forall vs c vas vm q,
  tp_bot (temp_period fixed vs c vas vm q) =
  filter (fun v => (fst (va_bot v) =? vm_index vm) &&
                   in_range (q * zlen (vm_sigs vm)) ((q + 1) * zlen (vm_sigs vm)) (snd (va_bot v))) vas.
Proof. reflexivity. Qed.
Lemma tp_top_eq : forall vs c vas vm q,
  tp_top (temp_period fixed vs c vas vm q) =
  filter (fun v => (fst (va_top v) =? vm_index vm) &&
                   in_range (q * zlen (vm_sigs vm)) ((q + 1) * zlen (vm_sigs vm)) (snd (va_top v))) vas.
Proof. reflexivity. Qed.
Lemma tp_cuts_eq : forall vs c vas vm q,
  tp_cuts (temp_period fixed vs c vas vm q) =
  filter (fun kc => (x_tl (snd kc) =? vm_index vm) &&
                    in_range (q * zlen (vm_sigs vm)) ((q + 1) * zlen (vm_sigs vm)) (x_tt (snd kc))) (indexed (c_cuts c)).
Proof. reflexivity. Qed.

Lemma layer_vias : forall st vs c vas l out, wf_cell st c -> vs_of st vs ->
  layer_rel st vs c vas l out -> Forall2 (via_rel2 vs) (bots_l st vs c vas l) (fvia st out).
Proof.
  intros st vs c vas l out Hwf Hvs [m [vm [pouts [Hm [Hvm [Hval [Ho HF]]]]]]].
  unfold bots_l. rewrite Hvm, Hm. subst out. rewrite fvia_concat.
  pose proof (validate_metal_vm_of _ _ _ _ _ Hval) as Hvmo.
  destruct (wfm_raw _ (wf_metal_of _ _ _ (wfc_stack _ _ Hwf) Hm)) as [lay Hlay].
  apply Forall2_flat_concat. revert HF. apply Forall2_imp. intros q o Hp.
  destruct (period_rel_parts _ _ _ _ _ _ _ _ _ _ Hvs Hm Hvm Hvmo Hlay Hp) as [vias [trk [Ho [Hv Ht]]]].
  subst o. rewrite fvia_app, (fvia_vias _ _ _ _ _ (wfc_stack _ _ Hwf) Hvs Hv).
  rewrite (fvia_metal _ _ _ _ (wfc_stack _ _ Hwf) (metal_of_In _ _ _ Hm) Hlay Ht), app_nil_r.
  assert (Hall : Forall (fun v => fst (va_bot v) = vm_index vm) (tp_bot (temp_period fixed vs c vas vm q))).
  { rewrite tp_bot_eq. apply Forall_forall. intros v Hin. apply filter_In in Hin. destruct Hin as [_ Hc].
    apply andb_prop in Hc. destruct Hc as [Hc _]. apply Z.eqb_eq in Hc. exact Hc. }
  clear - Hv Hall. induction Hv as [|v s xs ys Hr Hv IH]; [constructor|].
  inversion Hall; subst. constructor; [|apply IH; assumption]. exists vm. split; [symmetry; assumption|exact Hr].
Qed.

Lemma Permutation_flat_map_ext : forall A B (f g : A -> list B) l,
  (forall x, In x l -> Permutation (f x) (g x)) -> Permutation (flat_map f l) (flat_map g l).
Proof.
  intros A B f g l H. induction l as [|x l IH]; simpl; [constructor|].
  apply Permutation_app; [apply H; left; reflexivity|apply IH; intros y Hy; apply H; right; assumption].
Qed.

Lemma in_range_period : forall n q k, 0 < n -> in_range (q * n) ((q + 1) * n) k = (q =? k / n).
Proof.
  intros n q k Hn. unfold in_range. rewrite Z.geb_leb.
  destruct (q =? k / n) eqn:E.
  - apply Z.eqb_eq in E. pose proof (Z.div_mod k n ltac:(lia)). pose proof (Z.mod_pos_bound k n Hn).
    apply andb_true_intro. split; [apply Z.leb_le|apply Z.ltb_lt]; nia.
  - apply Z.eqb_neq in E. apply andb_false_iff.
    destruct (Z.leb_spec (q * n) k) as [H1|H1]; [|left; reflexivity].
    destruct (Z.ltb_spec k ((q + 1) * n)) as [H2|H2]; [|right; reflexivity].
    exfalso. apply E. apply Z.div_unique with (r := k - q * n); lia.
Qed.

Lemma period_count : forall n np k, 0 < n -> 0 <= k < np * n ->
  length (filter (fun q => in_range (q * n) ((q + 1) * n) k) (zseq np)) = 1%nat.
Proof.
  intros n np k Hn Hk.
  rewrite (filter_ext_in' _ _ (fun q => q =? k / n)) by (intros; apply in_range_period; assumption).
  apply NoDup_filter_eq_one; [apply zseq_NoDup|]. apply zseq_In.
  split; [apply Z.div_pos; lia|]. apply Z.div_lt_upper_bound; lia.
Qed.

(** a selection by (layer, track range) over all layers and periods is a permutation of the list *)
Lemma layered_partition : forall A (key : A -> Z * Z) (xs : list A) (M : Z) (np nn : Z -> Z),
  (forall x, In x xs -> 0 <= fst (key x) < M /\ 0 < nn (fst (key x)) /\
                        0 <= snd (key x) < np (fst (key x)) * nn (fst (key x))) ->
  Permutation
    (flat_map (fun l => flat_map (fun q => filter (fun x => (fst (key x) =? l) &&
                 in_range (q * nn l) ((q + 1) * nn l) (snd (key x))) xs) (zseq (np l))) (zseq M))
    xs.
Proof.
  intros A key xs M np nn H.
  eapply Permutation_trans; [apply Permutation_flat_map_ext with (g := fun l => filter (fun x => fst (key x) =? l) xs)|].
  - intros l Hl.
    rewrite (flat_map_ext _ (fun q => filter (fun x => in_range (q * nn l) ((q + 1) * nn l) (snd (key x)))
                                             (filter (fun x => fst (key x) =? l) xs)))
      by (intros q; rewrite filter_filter; reflexivity).
    apply partition_perm. intros x Hx. apply filter_In in Hx. destruct Hx as [Hx Hk]. apply Z.eqb_eq in Hk.
    destruct (H x Hx) as [_ [Hn Hr]]. rewrite Hk in *. apply period_count; assumption.
  - apply partition_perm. intros x Hx. destruct (H x Hx) as [Hl _].
    rewrite (filter_ext_in' _ _ (fun l => l =? fst (key x))) by (intros; apply Z.eqb_sym).
    apply NoDup_filter_eq_one; [apply zseq_NoDup|apply zseq_In; assumption].
Qed.

Lemma Forall2_In_l : forall A B (R : A -> B -> Prop) l1 l2 x, Forall2 R l1 l2 -> In x l1 -> exists y, In y l2 /\ R x y.
Proof.
  intros A B R l1 l2 x H. induction H; intros Hin; [destruct Hin|]. destruct Hin as [<-|Hin].
  - eexists; split; [left; reflexivity|assumption].
  - destruct (IHForall2 Hin) as [y0 [A1 A2]]. exists y0. split; [right; assumption|assumption].
Qed.
Lemma Forall2_In_r : forall A B (R : A -> B -> Prop) l1 l2 y, Forall2 R l1 l2 -> In y l2 -> exists x, In x l1 /\ R x y.
Proof.
  intros A B R l1 l2 y H. induction H; intros Hin; [destruct Hin|]. destruct Hin as [<-|Hin].
  - eexists; split; [left; reflexivity|assumption].
  - destruct (IHForall2 Hin) as [x0 [A1 A2]]. exists x0. split; [right; assumption|assumption].
Qed.
Lemma Forall2_length' : forall A B (R : A -> B -> Prop) l1 l2, Forall2 R l1 l2 -> length l1 = length l2.
Proof. intros A B R l1 l2 H. induction H; simpl; congruence. Qed.

(** the validated assignments of a well-formed cell *)
Definition asg_rel (st : stack) (vs : vstack) (c : cell) (a : Z * cross) (v : vassign) : Prop :=
  assign_wfb st c a = true /\ validate_assign fixed vs a = Ok v /\
  fst (va_bot v) < c_metals c /\ fst (va_top v) < c_metals c.

Lemma vas_rel : forall st vs c vas, wf_cell st c -> temp_cell fixed vs c = Ok vas ->
  Forall2 (asg_rel st vs c) (c_assigns c) vas.
Proof.
  intros st vs c vas Hwf H. pose proof (temp_cell_structure _ _ _ H) as F. pose proof (wfc_assigns _ _ Hwf) as W.
  clear H. induction F as [|a v l1 l2 [A [B C]] F IH]; [constructor|]. inversion W; subst.
  constructor; [unfold asg_rel; auto|auto].
Qed.

Lemma asg_rel_bot : forall st vs c a v, wf_cell st c -> vs_of st vs -> asg_rel st vs c a v ->
  exists mb vmb, metal_of st (fst (va_bot v)) = Some mb /\ metal_at vs (fst (va_bot v)) = Ok vmb /\
    vm_of mb (fst (va_bot v)) vmb /\ 0 <= fst (va_bot v) < c_metals c /\
    0 <= snd (va_bot v) < nperiods st c mb * nsig mb /\ 0 < nsig mb.
Proof.
  intros st vs c a v Hwf Hvs [Ha [Hv [Hb Ht]]]. destruct (validate_assign_bt _ _ _ Hv) as [Hbt _].
  destruct (assign_wfb_unpack _ _ _ _ _ _ Ha Hbt) as [_ [_ [_ [Hib _]]]].
  destruct (track_in_cell_unpack _ _ _ _ Hib) as [mb [Hmb Hk]].
  destruct (metal_of_at _ _ _ _ Hvs Hmb) as [vmb [A B]].
  exists mb, vmb. repeat (split; [first [assumption|eapply validate_metal_vm_of; eauto]|]).
  split; [pose proof (metal_of_range _ _ _ Hmb); lia|]. split; [assumption|].
  apply (wfm_nsig _ (wf_metal_of _ _ _ (wfc_stack _ _ Hwf) Hmb)).
Qed.
Lemma asg_rel_top : forall st vs c a v, wf_cell st c -> vs_of st vs -> asg_rel st vs c a v ->
  exists mt vmt, metal_of st (fst (va_top v)) = Some mt /\ metal_at vs (fst (va_top v)) = Ok vmt /\
    vm_of mt (fst (va_top v)) vmt /\ 0 <= fst (va_top v) < c_metals c /\
    0 <= snd (va_top v) < nperiods st c mt * nsig mt /\ 0 < nsig mt.
Proof.
  intros st vs c a v Hwf Hvs [Ha [Hv [Hb Ht]]]. destruct (validate_assign_bt _ _ _ Hv) as [Hbt _].
  destruct (assign_wfb_unpack _ _ _ _ _ _ Ha Hbt) as [_ [_ [_ [_ [Hit _]]]]].
  destruct (track_in_cell_unpack _ _ _ _ Hit) as [mt [Hmt Hk]].
  destruct (metal_of_at _ _ _ _ Hvs Hmt) as [vmt [A B]].
  exists mt, vmt. repeat (split; [first [assumption|eapply validate_metal_vm_of; eauto]|]).
  split; [pose proof (metal_of_range _ _ _ Hmt); lia|]. split; [assumption|].
  apply (wfm_nsig _ (wf_metal_of _ _ _ (wfc_stack _ _ Hwf) Hmt)).
Qed.

(** np / nsig as functions of the layer number *)
Definition np_of (st : stack) (c : cell) (l : Z) : Z := match metal_of st l with Some m => nperiods st c m | None => 0 end.
Definition nn_of (st : stack) (l : Z) : Z := match metal_of st l with Some m => nsig m | None => 0 end.

Lemma bots_partition : forall st vs c vas, wf_cell st c -> vs_of st vs ->
  Forall2 (asg_rel st vs c) (c_assigns c) vas ->
  Permutation (flat_map (bots_l st vs c vas) (zseq (c_metals c))) vas.
Proof.
  intros st vs c vas Hwf Hvs HF.
  eapply Permutation_trans; [|apply (layered_partition _ va_bot vas (c_metals c) (np_of st c) (nn_of st))].
  - apply Permutation_flat_map_ext. intros l Hl. apply zseq_In in Hl.
    assert (Hr : 0 <= l < zlen (s_metals st)) by (pose proof (wfc_metals _ _ Hwf); lia).
    unfold bots_l, np_of, nn_of, metal_of.
    destruct (l <? 0) eqn:El; [apply Z.ltb_lt in El; lia|].
    destruct (nth_error_in_range _ (s_metals st) l Hr) as [m Hm]. rewrite Hm.
    assert (Hmo : metal_of st l = Some m) by (unfold metal_of; rewrite El; exact Hm).
    destruct (metal_of_at _ _ _ _ Hvs Hmo) as [vm [Hvm Hval]]. rewrite Hvm.
    pose proof (validate_metal_vm_of _ _ _ _ _ Hval) as Hvmo.
    rewrite (flat_map_ext _ _ (fun q => tp_bot_eq vs c vas vm q)).
    rewrite (vmo_index _ _ _ Hvmo), (vmo_nsig _ _ _ Hvmo). apply Permutation_refl.
  - intros v Hv. destruct (Forall2_In_r _ _ _ _ _ _ HF Hv) as [a [_ Hrel]].
    destruct (asg_rel_bot _ _ _ _ _ Hwf Hvs Hrel) as [mb [vmb [Hmb [_ [_ [Hl [Hk Hn]]]]]]].
    unfold np_of, nn_of. rewrite Hmb. auto.
Qed.

(** THE VIAS OF A CELL: the via rectangles among the (normalised) shapes are, in exporter order, the
    vias of a permutation of the validated assignments *)
Theorem cell_vias : forall st vs c shapes,
  wf_cell st c -> vs_of st vs -> export_layout fixed vs c = Ok shapes ->
  exists vas bots, Forall2 (asg_rel st vs c) (c_assigns c) vas /\ Permutation bots vas /\
    Forall2 (via_rel2 vs) bots (fvia st shapes).
Proof.
  intros st vs c shapes Hwf Hvs H.
  destruct (cell_structure _ _ _ _ Hwf Hvs H) as [vas [louts [Hv [Hs HF]]]].
  pose proof (vas_rel _ _ _ _ Hwf Hv) as Hrel.
  exists vas, (flat_map (bots_l st vs c vas) (zseq (c_metals c))).
  split; [exact Hrel|]. split; [apply bots_partition; assumption|].
  subst shapes. rewrite fvia_concat. apply Forall2_flat_concat.
  revert HF. apply Forall2_imp. intros l o Hl. apply layer_vias; assumption.
Qed.

(** (d) VIAS AND CENTRES: the via part of the specification holds for every well-formed cell that
    compiles: as many via rectangles as assignments, every assignment has its via (on the via layer
    between its two metals, of exactly that layer's size, centred on the crossing of the two tracks'
    centres, carrying the net), and every via rectangle is the via of an assignment *)
Definition vias_okb (st : stack) (c : cell) (shapes : list shape) : bool :=
  let vs := filter (is_via_shape st) (map norm shapes) in
  (zlen vs =? zlen (c_assigns c))
  && forallb (fun a => existsb (via_okb st a) vs) (c_assigns c)
  && forallb (fun s => existsb (fun a => via_okb st a s) (c_assigns c)) vs.

Theorem vias_realised : forall st vs c shapes,
  wf_cell st c -> vs_of st vs -> export_layout fixed vs c = Ok shapes -> vias_okb st c shapes = true.
Proof.
  intros st vs c shapes Hwf Hvs H.
  destruct (cell_vias _ _ _ _ Hwf Hvs H) as [vas [bots [Hrel [Hperm HF]]]].
  unfold vias_okb. fold (fvia st shapes).
  assert (Hok : forall a v s, asg_rel st vs c a v -> via_rel2 vs v s -> via_okb st a s = true).
  { intros a v s [Ha [Hv _]] [vm [Hidx Hr]]. eapply via_of_assignment_ok; eauto. }
  apply andb_true_intro. split; [apply andb_true_intro; split|].
  - apply Z.eqb_eq. unfold zlen. f_equal.
    rewrite <- (Forall2_length' _ _ _ _ _ HF), (Permutation_length Hperm), <- (Forall2_length' _ _ _ _ _ Hrel). reflexivity.
  - apply forallb_forall. intros a Ha. destruct (Forall2_In_l _ _ _ _ _ _ Hrel Ha) as [v [Hv Hr]].
    apply (Permutation_in _ (Permutation_sym Hperm)) in Hv.
    destruct (Forall2_In_l _ _ _ _ _ _ HF Hv) as [s [Hs Hr2]].
    apply existsb_exists. exists s. split; [exact Hs|eapply Hok; eauto].
  - apply forallb_forall. intros s Hs. destruct (Forall2_In_r _ _ _ _ _ _ HF Hs) as [v [Hv Hr2]].
    apply (Permutation_in _ Hperm) in Hv. destruct (Forall2_In_r _ _ _ _ _ _ Hrel Hv) as [a [Ha Hr]].
    apply existsb_exists. exists a. split; [exact Ha|eapply Hok; eauto].
Qed.

(** * Part H: the tracks a period instantiates are the specification's tracks of that period *)
(** entries of a kind selected by [p] (never gaps), with their kind, cursor and width *)
Fixpoint ent_list (p : ttype -> bool) (es : list entry) (c : Z) : list (ttype * (Z * Z)) :=
  match es with
  | [] => []
  | e :: r => (if p (e_tt e) then [(e_tt e, (c, e_w e))] else []) ++ ent_list p r (c + e_w e)
  end.

Definition td_kp (d : tdata) : ttype * (Z * Z) := (td_tt d, td_pos d).

Lemma walk_ent_list : forall p es c, p Gap = false ->
  map td_kp (filter (fun d => p (td_tt d)) (walk es c)) = ent_list p es c.
Proof.
  intros p es c Hg. revert c. induction es as [|e es IH]; intros c; simpl; [reflexivity|].
  destruct (e_tt e) eqn:Ht; simpl; rewrite ?Ht, ?Hg; simpl; try apply IH.
  - destruct (p Signal); simpl; rewrite IH; reflexivity.
  - destruct (p (Rail k)); simpl; rewrite IH; reflexivity.
Qed.

Lemma ent_list_app : forall p l1 l2 c, ent_list p (l1 ++ l2) c = ent_list p l1 c ++ ent_list p l2 (c + total l1).
Proof.
  intros p l1. induction l1 as [|e l1 IH]; intros l2 c; simpl.
  - rewrite total_nil. replace (c + 0) with c by lia. reflexivity.
  - rewrite total_cons, IH, <- app_assoc. replace (c + (e_w e + total l1)) with (c + e_w e + total l1) by lia. reflexivity.
Qed.

Definition shift_kp (d : Z) (x : ttype * (Z * Z)) : ttype * (Z * Z) := (fst x, (fst (snd x) + d, snd (snd x))).
Definition mir_kp (c tot : Z) (x : ttype * (Z * Z)) : ttype * (Z * Z) := (fst x, mir c tot (snd x)).

Lemma ent_list_shift : forall p es c d, ent_list p es (c + d) = map (shift_kp d) (ent_list p es c).
Proof.
  intros p es. induction es as [|e es IH]; intros c d; simpl; [reflexivity|].
  replace (c + d + e_w e) with (c + e_w e + d) by lia. rewrite map_app, IH.
  destruct (p (e_tt e)); reflexivity.
Qed.

Lemma ent_list_rev : forall p es c, ent_list p (rev es) c = rev (map (mir_kp c (total es)) (ent_list p es c)).
Proof.
  intros p es. induction es as [|e es IH]; intros c; simpl; [reflexivity|].
  rewrite ent_list_app, total_rev, IH, total_cons, map_app, rev_app_distr.
  assert (Hsh : map (mir_kp c (e_w e + total es)) (ent_list p es (c + e_w e)) = map (mir_kp c (total es)) (ent_list p es c)).
  { rewrite ent_list_shift, map_map. apply map_ext. intros [k [s w]]. unfold mir_kp, shift_kp, mir; cbn [fst snd]. f_equal. f_equal. lia. }
  rewrite Hsh. f_equal. simpl. rewrite app_nil_r.
  destruct (p (e_tt e)); simpl; [|reflexivity]. unfold mir_kp, mir; cbn [fst snd].
  replace (2 * c + (e_w e + total es) - c - e_w e) with (c + total es) by lia. reflexivity.
Qed.

Lemma ent_list_idx : forall p es c,
  ent_list p es c = map (fun i => (e_tt (nth i es dflt), (c + prefix es i, e_w (nth i es dflt)))) (idx_where p es).
Proof.
  intros p es. induction es as [|e es IH]; intros c; [reflexivity|].
  rewrite idx_where_cons, map_app, map_map. simpl ent_list. f_equal.
  - destruct (p (e_tt e)); [|reflexivity]. simpl. unfold prefix. simpl. rewrite total_nil. f_equal. f_equal. f_equal. lia.
  - rewrite IH. apply map_ext. intros i. unfold prefix. simpl firstn. rewrite total_cons. simpl nth. f_equal. f_equal. lia.
Qed.

(** the tracks of kind [p] of period q, in the ORDER OF INCREASING POSITION of the pattern when the
    period is not mirrored, in decreasing pattern order when it is *)
Lemma period_tracks_spec : forall p m q, p Gap = false -> 0 <= q ->
  ent_list p (period_entries m q) (m_offset m + pitch m * q) =
  (if mirrored m q then @rev _ else (fun x => x))
    (map (fun i => (e_tt (nth i (flat m) dflt), entry_pos m q i)) (idx_where p (flat m))).
Proof.
  intros p m q Hg Hq. unfold period_entries, mirrored. rewrite (rem2_odd _ Hq), entries_flat, pitch_period_len.
  set (es := flat m). set (c0 := m_offset m + period_len m * q).
  destruct (m_flip m && Z.odd q) eqn:Hmir.
  - rewrite ent_list_rev, ent_list_idx, map_map. f_equal. apply map_ext. intros i.
    unfold mir_kp, mir, entry_pos, mirrored. rewrite Hmir. fold es. fold dflt. fold c0. cbn [fst snd]. f_equal. f_equal. lia.
  - rewrite ent_list_idx. apply map_ext. intros i. unfold entry_pos, mirrored. rewrite Hmir. fold es. fold dflt. fold c0. reflexivity.
Qed.

(** the rails and signals instantiated by to_layer_period *)
Lemma to_layer_period_tracks : forall m q stop sigs rails,
  to_layer_period m q stop = Ok (sigs, rails) ->
  sigs = map (fresh_track stop) (filter is_sig (walk (period_entries m q) (m_offset m + pitch m * q))) /\
  rails = map (fresh_track stop) (filter is_rail (walk (period_entries m q) (m_offset m + pitch m * q))).
Proof.
  intros m q stop sigs rails H. unfold to_layer_period in H.
  destruct (mapM _ _) as [ts| |] eqn:Hts; cbn [bind] in H; try discriminate.
  inversion H; subst sigs rails; clear H.
  rewrite (mapM_validate _ _ _ Hts), !filter_map_fresh. auto.
Qed.

Lemma is_rail_railt : forall d, is_rail d = is_railt (td_tt d). Proof. reflexivity. Qed.
Lemma is_sig_signal : forall d, is_sig d = is_signal (td_tt d). Proof. reflexivity. Qed.

Lemma period_rails_spec : forall m q stop sigs rails, 0 <= q ->
  to_layer_period m q stop = Ok (sigs, rails) ->
  exists ds, rails = map (fresh_track stop) ds /\
    map td_kp ds = (if mirrored m q then @rev _ else (fun x => x))
                     (map (fun i => (e_tt (nth i (flat m) dflt), entry_pos m q i)) (rail_idx m)).
Proof.
  intros m q stop sigs rails Hq H. destruct (to_layer_period_tracks _ _ _ _ _ H) as [_ Hr].
  eexists. split; [exact Hr|].
  rewrite (filter_ext_in' _ is_rail (fun d => is_railt (td_tt d))) by reflexivity.
  rewrite walk_ent_list by reflexivity. apply period_tracks_spec; [reflexivity|assumption].
Qed.

Lemma period_sigs_spec : forall m q stop sigs rails, 0 <= q ->
  to_layer_period m q stop = Ok (sigs, rails) ->
  exists ds, sigs = map (fresh_track stop) ds /\
    map td_kp ds = (if mirrored m q then @rev _ else (fun x => x))
                     (map (fun i => (e_tt (nth i (flat m) dflt), entry_pos m q i)) (sig_idx m)).
Proof.
  intros m q stop sigs rails Hq H. destruct (to_layer_period_tracks _ _ _ _ _ H) as [Hs _].
  eexists. split; [exact Hs|].
  rewrite (filter_ext_in' _ is_sig (fun d => is_signal (td_tt d))) by reflexivity.
  rewrite walk_ent_list by reflexivity. apply period_tracks_spec; [reflexivity|assumption].
Qed.

(** * Part I: PER-PERIOD SELECTION -- what the exporter files under (layer, period, track) is what
    the specification attributes to that track *)
Lemma indexed_map_snd : forall A (l : list A), map snd (indexed l) = l.
Proof.
  intros A l. unfold indexed.
  assert (G : forall (ks : list Z), length ks = length l -> map snd (combine ks l) = l).
  { induction l as [|x l IH]; intros ks Hk; destruct ks; simpl in *; try discriminate; try reflexivity. rewrite IH; [reflexivity|lia]. }
  apply G. rewrite map_length, seq_length. reflexivity.
Qed.

Lemma filter_map_comm : forall A B (f : A -> B) (p : B -> bool) l, filter p (map f l) = map f (filter (fun x => p (f x)) l).
Proof. intros A B f p l. induction l as [|x l IH]; simpl; [reflexivity|]. destruct (p (f x)); simpl; rewrite IH; reflexivity. Qed.

Lemma indexed_filter_snd : forall A (p : A -> bool) (l : list A),
  map snd (filter (fun ii => p (snd ii)) (indexed l)) = filter p l.
Proof. intros A p l. rewrite <- filter_map_comm, indexed_map_snd. reflexivity. Qed.

(** ** blockages *)
Lemma requested_blocks : forall vs horiz bs,
  map bounds (requested (map (block_op vs horiz) bs)) =
  map (fun b => (db_dir vs horiz (fst (fst b)), db_dir vs horiz (snd (fst b)))) bs.
Proof. intros vs horiz bs. induction bs as [|[[a b] s] bs IH]; simpl; [reflexivity|]. rewrite IH. reflexivity. Qed.

Lemma tp_blocks_eq : forall vs c vas vm q,
  tp_blocks (temp_period fixed vs c vas vm q) =
  map (fun ii => let '(a, b) := blockage_pp fixed (m_horiz (vm_spec vm)) (snd ii) in (a, b, fst ii))
      (filter (fun ii => instance_intersects vs (snd ii) vm q)
              (filter (fun ii => i_metals (snd ii) >? vm_index vm) (indexed (c_insts c)))).
Proof. reflexivity. Qed.

Lemma intersects_spec : forall st vs m l vm i q, vs_of st vs -> vm_of m l vm ->
  instance_intersects vs i vm q =
  (let a := box_across m (inst_box st i) in (period_len m * q <? snd a) && (fst a <? period_len m * (q + 1))).
Proof.
  intros st vs m l vm i q Hvs Hvm. unfold instance_intersects, box_across, inst_box, db_dir, dbx, dby.
  rewrite (vso_stack _ _ Hvs), (vmo_spec _ _ _ Hvm), (vmo_pitch _ _ _ Hvm). cbv zeta.
  destruct (m_horiz m); cbn [negb fst snd].
  - destruct (i_rv i); cbn [fst snd]; rewrite Z.gtb_ltb; f_equal; f_equal; ring.
  - destruct (i_rh i); cbn [fst snd]; rewrite Z.gtb_ltb; f_equal; f_equal; ring.
Qed.

Lemma blockage_spec : forall st vs m i, vs_of st vs ->
  (db_dir vs (m_horiz m) (fst (blockage_pp fixed (m_horiz m) i)), db_dir vs (m_horiz m) (snd (blockage_pp fixed (m_horiz m) i)))
  = box_along m (inst_box st i).
Proof.
  intros st vs m i Hvs. unfold blockage_pp, box_along, inst_box, db_dir, dbx, dby. rewrite (vso_stack _ _ Hvs).
  cbn [fx_reflect fixed andb]. destruct (m_horiz m); cbn [fst snd].
  - destruct (i_rh i); reflexivity.
  - destruct (i_rv i); reflexivity.
Qed.

Theorem period_blocks_spec : forall st vs c vas m l vm q, vs_of st vs -> vm_of m l vm ->
  map bounds (requested (map (block_op vs (m_horiz m)) (tp_blocks (temp_period fixed vs c vas vm q)))) = blocks st c l m q.
Proof.
  intros st vs c vas m l vm q Hvs Hvm. rewrite requested_blocks, tp_blocks_eq, map_map.
  rewrite (vmo_spec _ _ _ Hvm), (vmo_index _ _ _ Hvm). rewrite filter_filter.
  unfold blocks. rewrite <- (indexed_filter_snd _ _ (c_insts c)), map_map.
  rewrite (filter_ext_in' _ (fun x => (i_metals (snd x) >? l) && instance_intersects vs (snd x) vm q)
            (fun ii => (l <? i_metals (snd ii)) &&
                       (let a := box_across m (inst_box st (snd ii)) in
                        (period_len m * q <? snd a) && (fst a <? period_len m * (q + 1))))).
  - apply map_ext. intros [k i]. cbn [fst snd]. rewrite <- (blockage_spec st vs m i Hvs).
    destruct (blockage_pp fixed (m_horiz m) i). reflexivity.
  - intros [k i] _. cbn [snd]. rewrite Z.gtb_ltb, (intersects_spec st vs m l vm i q Hvs Hvm). reflexivity.
Qed.

Lemma blocks_in_cell : forall st c l m q p, wf_cell st c -> In p (blocks st c l m q) ->
  0 <= fst p /\ fst p < snd p /\ snd p <= along_len st c m.
Proof.
  intros st c l m q p Hwf Hp. unfold blocks in Hp. apply in_map_iff in Hp. destruct Hp as [i [<- Hi]].
  apply filter_In in Hi. destruct Hi as [Hi _].
  pose proof (wfc_insts _ _ Hwf) as F. rewrite Forall_forall in F. specialize (F _ Hi). unfold inst_wfb in F.
  repeat (apply andb_prop in F; destruct F as [F ?]).
  pose proof (wfs_px _ (wfc_stack _ _ Hwf)). pose proof (wfs_py _ (wfc_stack _ _ Hwf)).
  unfold box_along, along_len, inst_box in *. cbn [fst snd] in *.
  repeat match goal with H : (_ <=? _) = true |- _ => apply Z.leb_le in H | H : (_ <? _) = true |- _ => apply Z.ltb_lt in H end.
  destruct (m_horiz m); cbn [fst snd].
  - destruct (i_rh i); cbn [fst snd] in *; nia.
  - destruct (i_rv i); cbn [fst snd] in *; nia.
Qed.

Lemma requested_op_ok : forall span ops,
  (forall p, In p (map bounds (requested ops)) -> 0 <= fst p /\ fst p < snd p /\ snd p <= span) ->
  Forall (op_ok span) ops.
Proof.
  intros span ops. induction ops as [|o ops IH]; intros H; constructor.
  - destruct o as [a b s|a b s|x n]; simpl; auto; apply (H (a, b)); simpl; auto.
  - apply IH. intros p Hp. apply H. destruct o; simpl; auto.
Qed.

(** ** the track selected by `track % nsig` in period `track / nsig` *)
Lemma sel_track : forall (N : nat) q r k, (0 < N)%nat -> 0 <= q -> (r < N)%nat ->
  in_range (q * Z.of_nat N) ((q + 1) * Z.of_nat N) k && Nat.eqb (Z.to_nat (Z.rem k (Z.of_nat N))) r
  = (k =? q * Z.of_nat N + Z.of_nat r).
Proof.
  intros N q r k HN Hq Hr. set (n := Z.of_nat N). assert (Hn : 0 < n) by lia.
  rewrite in_range_period by assumption.
  destruct (q =? k / n) eqn:E.
  - apply Z.eqb_eq in E. cbn [andb].
    destruct (Z.eqb_spec k (q * n + Z.of_nat r)) as [->|Hne].
    + apply Nat.eqb_eq. assert (0 <= q * n) by nia. rewrite Z.rem_mod_nonneg by lia.
      rewrite Z.add_comm, Z.mod_add by lia. rewrite Z.mod_small by lia. lia.
    + apply Nat.eqb_neq. intro Hc. apply Hne.
      assert (0 <= k) by (pose proof (Z.div_mod k n ltac:(lia)); pose proof (Z.mod_pos_bound k n Hn);
                          destruct (Z.lt_ge_cases k 0); [|assumption]; assert (k / n < 0) by (apply Z.div_lt_upper_bound; lia); lia).
      rewrite Z.rem_mod_nonneg in Hc by lia. pose proof (Z.div_mod k n ltac:(lia)). pose proof (Z.mod_pos_bound k n Hn). subst q. nia.
  - cbn [andb]. symmetry. apply Z.eqb_neq. intro Hc. apply Z.eqb_neq in E. apply E. subst k.
    rewrite Z.div_add_l by lia. rewrite Z.div_small by lia. lia.
Qed.

(** cuts of track r of period q on layer l: the cuts whose (layer, track) is (l, q * nsig + r) *)
Lemma cuts_of_track : forall vs c vas vm (N r : nat) q, (0 < N)%nat -> 0 <= q -> (r < N)%nat ->
  zlen (vm_sigs vm) = Z.of_nat N ->
  filter (fun x => Nat.eqb (cut_idx N x) r) (tp_cuts (temp_period fixed vs c vas vm q)) =
  filter (fun kc => (x_tl (snd kc) =? vm_index vm) && (x_tt (snd kc) =? q * Z.of_nat N + Z.of_nat r)) (indexed (c_cuts c)).
Proof.
  intros vs c vas vm N r q HN Hq Hr Hz. rewrite tp_cuts_eq, filter_filter, Hz. apply filter_ext_in'. intros kc _.
  unfold cut_idx. rewrite <- andb_assoc, sel_track by assumption. reflexivity.
Qed.
Lemma bots_of_track : forall vs c vas vm (N r : nat) q, (0 < N)%nat -> 0 <= q -> (r < N)%nat ->
  zlen (vm_sigs vm) = Z.of_nat N ->
  filter (fun x => Nat.eqb (asg_idx N false x) r) (tp_bot (temp_period fixed vs c vas vm q)) =
  filter (fun v => (fst (va_bot v) =? vm_index vm) && (snd (va_bot v) =? q * Z.of_nat N + Z.of_nat r)) vas.
Proof.
  intros vs c vas vm N r q HN Hq Hr Hz. rewrite tp_bot_eq, filter_filter, Hz. apply filter_ext_in'. intros v _.
  unfold asg_idx. rewrite <- andb_assoc, sel_track by assumption. reflexivity.
Qed.
Lemma tops_of_track : forall vs c vas vm (N r : nat) q, (0 < N)%nat -> 0 <= q -> (r < N)%nat ->
  zlen (vm_sigs vm) = Z.of_nat N ->
  filter (fun x => Nat.eqb (asg_idx N true x) r) (tp_top (temp_period fixed vs c vas vm q)) =
  filter (fun v => (fst (va_top v) =? vm_index vm) && (snd (va_top v) =? q * Z.of_nat N + Z.of_nat r)) vas.
Proof.
  intros vs c vas vm N r q HN Hq Hr Hz. rewrite tp_top_eq, filter_filter, Hz. apply filter_ext_in'. intros v _.
  unfold asg_idx. rewrite <- andb_assoc, sel_track by assumption. reflexivity.
Qed.

(** * Part J: the operations on one track in the specification's terms *)
(** ** cuts *)
Lemma centred_candidates_mem : forall P s, 0 < snd P -> 0 < s ->
  In (cen P - Z.quot s 2, cen P - Z.quot s 2 + s) (centred_candidates (centre2 P) s).
Proof.
  intros [pos w] s Hw Hs. unfold cen, centre2, centred_candidates. cbn [fst snd] in *.
  rewrite !Z.quot_div_nonneg by lia.
  pose proof (Z.div_mod w 2 ltac:(lia)) as Ew. pose proof (Z.mod_pos_bound w 2 ltac:(lia)) as Bw.
  pose proof (Z.div_mod s 2 ltac:(lia)) as Es. pose proof (Z.mod_pos_bound s 2 ltac:(lia)) as Bs.
  set (A := pos + w / 2 - s / 2).
  assert (Hc : 2 * pos + w - s = 2 * A + (w mod 2 - s mod 2)) by (unfold A; lia).
  destruct (Z.eq_dec (w mod 2) (s mod 2)) as [Heq|Hne].
  - assert (Hd : (2 * pos + w - s) / 2 = A) by (symmetry; apply Z.div_unique with (r := 0); lia).
    assert (Hm : (2 * pos + w - s) mod 2 = 0) by (symmetry; apply Z.mod_unique with (q := A); lia).
    rewrite Hm, Hd. simpl. left. reflexivity.
  - destruct (Z.eq_dec (w mod 2) 1) as [H1|H1].
    + assert (Hd : (2 * pos + w - s) / 2 = A) by (symmetry; apply Z.div_unique with (r := 1); lia).
      assert (Hm : (2 * pos + w - s) mod 2 = 1) by (symmetry; apply Z.mod_unique with (q := A); lia).
      rewrite Hm, Hd. simpl. left. reflexivity.
    + assert (Hd : (2 * pos + w - s) / 2 = A - 1) by (symmetry; apply Z.div_unique with (r := 1); lia).
      assert (Hm : (2 * pos + w - s) mod 2 = 1) by (symmetry; apply Z.mod_unique with (q := A - 1); lia).
      rewrite Hm, Hd. simpl. right. left. f_equal; lia.
Qed.

Lemma cut_wfb_unpack : forall st c x, cut_wfb st c x = true ->
  exists m mc pc, metal_of st (x_tl x) = Some m /\ x_tl x < c_metals c /\
    0 <= x_tt x < nperiods st c m * nsig m /\ metal_of st (x_cl x) = Some mc /\ m_horiz m = negb (m_horiz mc) /\
    0 <= x_ct x < nperiods st c mc * nsig mc /\
    track_pos_m mc (x_ct x) = Some pc /\ cross2 st (x_cl x) (x_ct x) = Some (centre2 pc) /\
    forall p, In p (centred_candidates (centre2 pc) (m_cutsize m)) -> 0 <= fst p /\ snd p <= along_len st c m.
Proof.
  intros st c x H. unfold cut_wfb in H. destruct (metal_of st (x_tl x)) as [m|] eqn:Hm; [|discriminate].
  apply andb_prop in H. destruct H as [H Hc]. apply andb_prop in H. destruct H as [H Htc].
  apply andb_prop in H. destruct H as [H Hd]. apply andb_prop in H. destruct H as [Hlt Htt].
  destruct (track_in_cell_unpack _ _ _ _ Htt) as [m' [Hm' Hk]]. rewrite Hm in Hm'. inversion Hm'; subst m'.
  destruct (track_in_cell_unpack _ _ _ _ Htc) as [mc [Hmc Hkc]].
  destruct (cross2 st (x_cl x) (x_ct x)) as [c2|] eqn:Hc2; [|discriminate].
  unfold cross2 in Hc2. rewrite (track_pos_metal _ _ _ _ Hmc) in Hc2.
  destruct (track_pos_m mc (x_ct x)) as [pc|] eqn:Hpc; [|discriminate]. simpl in Hc2. inversion Hc2; subst c2.
  exists m, mc, pc. apply Z.ltb_lt in Hlt. repeat (split; [first [assumption|reflexivity]|]).
  split; [eapply dir_differs_unpack; eauto|]. repeat (split; [first [assumption|reflexivity]|]).
  intros p Hp. rewrite forallb_forall in Hc. specialize (Hc _ Hp). apply andb_prop in Hc. destruct Hc as [A B].
  apply Z.leb_le in A. apply Z.leb_le in B. auto.
Qed.

Definition cut_real (st : stack) (c : cell) (m : metal) (kc : Z * cross) (o : op) : Prop :=
  exists pc a b, cross2 st (x_cl (snd kc)) (x_ct (snd kc)) = Some (centre2 pc) /\ o = OCut a b (fst kc) /\
    In (a, b) (centred_candidates (centre2 pc) (m_cutsize m)) /\ 0 <= a /\ a < b /\ b <= along_len st c m.

Lemma cut_op_real : forall st vs c m kc o, wf_cell st c -> vs_of st vs ->
  cut_wfb st c (snd kc) = true -> metal_of st (x_tl (snd kc)) = Some m ->
  cut_op vs m kc = Ok o -> cut_real st c m kc o.
Proof.
  intros st vs c m [k x] o Hwf Hvs Hc Hm Ho. cbn [fst snd] in *.
  destruct (cut_wfb_unpack _ _ _ Hc) as [m' [mc [pc [Hm' [_ [Hk [Hmc [Hd [Hkc [Hpc [Hc2 Hin]]]]]]]]]]].
  rewrite Hm in Hm'. inversion Hm'; subst m'.
  pose proof (wf_metal_of _ _ _ (wfc_stack _ _ Hwf) Hm) as Wm. pose proof (wf_metal_of _ _ _ (wfc_stack _ _ Hwf) Hmc) as Wc.
  destruct (track_cross_xy_ok st vs x m mc Hvs Hm Hmc (wfm_nsig _ Wm) (wfm_nsig _ Wc) (proj1 Hk) (proj1 Hkc))
    as [pt [pc' [Ppt [Ppc Hxy]]]]. rewrite Hpc in Ppc. inversion Ppc; subst pc'.
  unfold cut_op in Ho. cbn [fst snd] in Ho. rewrite Hxy in Ho. cbn [bind] in Ho.
  assert (Hdist : xy_dir (m_horiz m) (if m_horiz m then (cen pc, cen pt) else (cen pt, cen pc)) = cen pc)
    by (unfold xy_dir; destruct (m_horiz m); reflexivity).
  rewrite Hdist in Ho. inversion Ho; subst o.
  pose proof (track_pos_m_width _ _ _ Wc Hpc) as Hw. pose proof (wfm_cut _ Wm) as Hcs.
  pose proof (centred_candidates_mem pc (m_cutsize m) Hw Hcs) as Hmem. destruct (Hin _ Hmem) as [A B]. cbn [fst snd] in A, B.
  exists pc, (cen pc - Z.quot (m_cutsize m) 2), (cen pc - Z.quot (m_cutsize m) 2 + m_cutsize m).
  repeat (split; [first [assumption|reflexivity]|]). split; [lia|assumption].
Qed.

Lemma choices_In : forall A B (cands : A -> list B) xs ps,
  Forall2 (fun x p => In p (cands x)) xs ps -> In ps (choices (map cands xs)).
Proof.
  intros A B cands xs ps H. induction H as [|x p xs ps Hp H IH]; simpl; [left; reflexivity|].
  apply in_flat_map. exists p. split; [assumption|]. apply in_map. assumption.
Qed.

(** the cuts of signal track (l, k): every selected cut becomes an OCut on an admissible interval *)
Theorem track_cuts_real : forall st vs c l m k cops, wf_cell st c -> vs_of st vs -> metal_of st l = Some m ->
  mapM (cut_op vs m) (filter (fun kc => (x_tl (snd kc) =? l) && (x_tt (snd kc) =? k)) (indexed (c_cuts c))) = Ok cops ->
  In (map bounds (requested cops)) (choices (cut_candidates st c l m k)) /\
  Forall (op_ok (along_len st c m)) cops /\
  Forall (fun o => match o with OCut _ _ _ => True | _ => False end) cops.
Proof.
  intros st vs c l m k cops Hwf Hvs Hm H. apply mapM_Forall2 in H.
  set (sel := filter (fun kc => (x_tl (snd kc) =? l) && (x_tt (snd kc) =? k)) (indexed (c_cuts c))) in *.
  assert (HR : Forall2 (cut_real st c m) sel cops).
  { assert (Hsel : forall kc, In kc sel -> cut_wfb st c (snd kc) = true /\ metal_of st (x_tl (snd kc)) = Some m).
    { intros [i x] Hin. apply filter_In in Hin. destruct Hin as [Hin Hp]. apply indexed_In in Hin. cbn [snd] in *.
      pose proof (wfc_cuts _ _ Hwf) as F. rewrite Forall_forall in F. split; [apply F; assumption|].
      apply andb_prop in Hp. destruct Hp as [Hp _]. apply Z.eqb_eq in Hp. rewrite Hp. exact Hm. }
    clear - H Hsel Hwf Hvs. induction H as [|kc o sel cops Ho H IH]; [constructor|].
    constructor; [|apply IH; intros kc' Hin; apply Hsel; right; assumption].
    destruct (Hsel kc (or_introl eq_refl)) as [A B]. eapply cut_op_real; eauto. }
  split; [|split].
  - unfold cut_candidates. rewrite <- (indexed_filter_snd _ (fun x => (x_tl x =? l) && (x_tt x =? k)) (c_cuts c)), map_map.
    fold sel. apply choices_In. clear - HR. induction HR as [|kc o sel cops Hr HR IH]; simpl; [constructor|].
    destruct Hr as [pc [a [b [Hc2 [-> [Hin _]]]]]]. simpl. constructor; [|exact IH].
    rewrite Hc2. exact Hin.
  - clear - HR. induction HR as [|kc o sel cops Hr HR IH]; constructor; [|exact IH].
    destruct Hr as [pc [a [b [_ [-> [_ [A [B C]]]]]]]]. simpl. auto.
  - clear - HR. induction HR as [|kc o sel cops Hr HR IH]; constructor; [|exact IH].
    destruct Hr as [pc [a [b [_ [-> _]]]]]. exact I.
Qed.

(** * Part K: the net assignments of one track in the specification's terms *)
Lemma net_op_real : forall st vs c a v, wf_cell st c -> vs_of st vs -> asg_rel st vs c a v ->
  exists mb mt pb pt,
    metal_of st (fst (va_bot v)) = Some mb /\ metal_of st (fst (va_top v)) = Some mt /\
    track_pos_m mb (snd (va_bot v)) = Some pb /\ track_pos_m mt (snd (va_top v)) = Some pt /\
    0 < snd pb /\ 0 < snd pt /\
    net_op vs (m_horiz mb) v = Ok (ONet (cen pt) (fst a)) /\
    net_op vs (m_horiz mt) v = Ok (ONet (cen pb) (fst a)).
Proof.
  intros st vs c a v Hwf Hvs [Ha [Hv _]].
  destruct (assign_crossing _ _ _ _ _ Hwf Hvs Ha Hv) as [P [Q [HP [HQ [Hxy [_ [mb [mt [pb [pt [Hmb [Hmt [Ppb [Ppt [HPQ Hd]]]]]]]]]]]]]]].
  destruct (validate_assign_bt _ _ _ Hv) as [_ [_ Hnet]].
  exists mb, mt, pb, pt. repeat (split; [assumption|]).
  unfold net_op. rewrite Hxy, Hnet. cbn [bind]. unfold xy_dir. cbn [fst snd].
  destruct (m_horiz mb), (m_horiz mt); simpl in Hd; try discriminate; inversion HPQ; subst P Q; auto.
Qed.

Definition op_pair (o : op) : list (Z * Z) := match o with ONet a n => [(a, n)] | _ => [] end.
Definition ats_of (ops : list op) : list (Z * Z) := flat_map op_pair ops.

(** [ats] (crossing coordinate along the track, net) are the specification's assignments of track (l, k),
    with the coordinate rounded down as `center` does *)
Definition ats_rel (st : stack) (c : cell) (l k : Z) (ats : list (Z * Z)) : Prop :=
  (forall at_ n, In (at_, n) ats -> exists c2, In (n, c2) (assigns_on st c l k) /\ at_ = c2 / 2) /\
  (forall n c2, In (n, c2) (assigns_on st c l k) -> In (c2 / 2, n) ats).

Lemma pair_sel : forall (p : Z * Z) l k, (fst p =? l) && (snd p =? k) = true <-> p = (l, k).
Proof.
  intros [a b] l k. cbn [fst snd]. split.
  - intros H. apply andb_prop in H. destruct H as [H1 H2]. apply Z.eqb_eq in H1. apply Z.eqb_eq in H2. congruence.
  - intros H. inversion H; subst. rewrite !Z.eqb_refl. reflexivity.
Qed.

Theorem track_nets_real : forall st vs c vas l m k bops tops,
  wf_cell st c -> vs_of st vs -> Forall2 (asg_rel st vs c) (c_assigns c) vas -> metal_of st l = Some m ->
  mapM (net_op vs (m_horiz m)) (filter (fun v => (fst (va_bot v) =? l) && (snd (va_bot v) =? k)) vas) = Ok bops ->
  mapM (net_op vs (m_horiz m)) (filter (fun v => (fst (va_top v) =? l) && (snd (va_top v) =? k)) vas) = Ok tops ->
  ats_rel st c l k (ats_of (bops ++ tops)) /\
  Forall (fun o => match o with ONet _ _ => True | _ => False end) (bops ++ tops).
Proof.
  intros st vs c vas l m k bops tops Hwf Hvs HF Hm Hb Ht.
  apply mapM_Forall2 in Hb. apply mapM_Forall2 in Ht.
  (* what each selected assignment contributes *)
  assert (Hbot : forall v o, In v vas -> va_bot v = (l, k) -> net_op vs (m_horiz m) v = Ok o ->
            exists a pt mt, In a (c_assigns c) /\ assign_bt a = Some (fst a, va_bot v, va_top v) /\
              metal_of st (fst (va_top v)) = Some mt /\ track_pos_m mt (snd (va_top v)) = Some pt /\ 0 < snd pt /\
              o = ONet (cen pt) (fst a)).
  { intros v o Hv Hbv Ho. destruct (Forall2_In_r _ _ _ _ _ _ HF Hv) as [a [Ha Hrel]].
    destruct (net_op_real _ _ _ _ _ Hwf Hvs Hrel) as [mb [mt [pb [pt [Hmb [Hmt [Ppb [Ppt [Wb [Wt [N1 _]]]]]]]]]]].
    rewrite Hbv in Hmb. cbn [fst] in Hmb. rewrite Hm in Hmb. inversion Hmb; subst mb.
    rewrite N1 in Ho. inversion Ho; subst o. destruct Hrel as [_ [Hva _]].
    destruct (validate_assign_bt _ _ _ Hva) as [Hbt _]. exists a, pt, mt. auto 10. }
  assert (Htop : forall v o, In v vas -> va_top v = (l, k) -> net_op vs (m_horiz m) v = Ok o ->
            exists a pb mb, In a (c_assigns c) /\ assign_bt a = Some (fst a, va_bot v, va_top v) /\
              metal_of st (fst (va_bot v)) = Some mb /\ track_pos_m mb (snd (va_bot v)) = Some pb /\ 0 < snd pb /\
              o = ONet (cen pb) (fst a)).
  { intros v o Hv Htv Ho. destruct (Forall2_In_r _ _ _ _ _ _ HF Hv) as [a [Ha Hrel]].
    destruct (net_op_real _ _ _ _ _ Hwf Hvs Hrel) as [mb [mt [pb [pt [Hmb [Hmt [Ppb [Ppt [Wb [Wt [_ N2]]]]]]]]]]].
    rewrite Htv in Hmt. cbn [fst] in Hmt. rewrite Hm in Hmt. inversion Hmt; subst mt.
    rewrite N2 in Ho. inversion Ho; subst o. destruct Hrel as [_ [Hva _]].
    destruct (validate_assign_bt _ _ _ Hva) as [Hbt _]. exists a, pb, mb. auto 10. }
  split; [split|].
  - (* every exporter net is a specification assignment *)
    intros at_ n Hin. unfold ats_of in Hin. apply in_flat_map in Hin. destruct Hin as [o [Ho Hp]].
    apply in_app_or in Ho. destruct Ho as [Ho|Ho].
    + destruct (Forall2_In_r _ _ _ _ _ _ Hb Ho) as [v [Hv Hop]]. apply filter_In in Hv. destruct Hv as [Hv Hsel].
      apply pair_sel in Hsel. destruct (Hbot _ _ Hv Hsel Hop) as [a [pt [mt [Ha [Hbt [Hmt [Ppt [Wt ->]]]]]]]].
      simpl in Hp. destruct Hp as [Hp|[]]. inversion Hp; subst at_ n.
      exists (centre2 pt). split; [|apply cen_floor; lia].
      unfold assigns_on. apply in_flat_map. exists a. split; [exact Ha|]. rewrite Hbt. apply in_or_app. left.
      rewrite Hsel. cbn [fst snd]. rewrite !Z.eqb_refl. cbn [andb]. unfold cross2. rewrite (track_pos_metal _ _ _ _ Hmt), Ppt.
      left. reflexivity.
    + destruct (Forall2_In_r _ _ _ _ _ _ Ht Ho) as [v [Hv Hop]]. apply filter_In in Hv. destruct Hv as [Hv Hsel].
      apply pair_sel in Hsel. destruct (Htop _ _ Hv Hsel Hop) as [a [pb [mb [Ha [Hbt [Hmb [Ppb [Wb ->]]]]]]]].
      simpl in Hp. destruct Hp as [Hp|[]]. inversion Hp; subst at_ n.
      exists (centre2 pb). split; [|apply cen_floor; lia].
      unfold assigns_on. apply in_flat_map. exists a. split; [exact Ha|]. rewrite Hbt. apply in_or_app. right.
      rewrite Hsel. cbn [fst snd]. rewrite !Z.eqb_refl. cbn [andb]. unfold cross2. rewrite (track_pos_metal _ _ _ _ Hmb), Ppb.
      left. reflexivity.
  - (* every specification assignment is an exporter net *)
    intros n c2 Hin. unfold assigns_on in Hin. apply in_flat_map in Hin. destruct Hin as [a [Ha Hin]].
    destruct (Forall2_In_l _ _ _ _ _ _ HF Ha) as [v [Hv Hrel]].
    pose proof Hrel as [_ [Hva _]]. destruct (validate_assign_bt _ _ _ Hva) as [Hbt _]. rewrite Hbt in Hin.
    unfold ats_of. apply in_flat_map. apply in_app_or in Hin. destruct Hin as [Hin|Hin].
    + destruct ((fst (va_bot v) =? l) && (snd (va_bot v) =? k)) eqn:Hsel; [|destruct Hin].
      assert (Hvf : In v (filter (fun v => (fst (va_bot v) =? l) && (snd (va_bot v) =? k)) vas)) by (apply filter_In; auto).
      destruct (Forall2_In_l _ _ _ _ _ _ Hb Hvf) as [o [Ho Hop]]. apply pair_sel in Hsel.
      destruct (Hbot _ _ Hv Hsel Hop) as [a' [pt [mt [_ [_ [Hmt [Ppt [Wt ->]]]]]]]].
      unfold cross2 in Hin. rewrite (track_pos_metal _ _ _ _ Hmt), Ppt in Hin. simpl in Hin. destruct Hin as [Hin|[]].
      inversion Hin; subst n c2. exists (ONet (cen pt) (fst a')). split; [apply in_or_app; left; exact Ho|].
      simpl. left. rewrite (cen_floor pt) by lia.
      (* the exporter's net is the assignment's net *)
      destruct (Forall2_In_r _ _ _ _ _ _ HF Hv) as [a2 [Ha2 Hrel2]].
      destruct (net_op_real _ _ _ _ _ Hwf Hvs Hrel) as [mb0 [mt0 [pb0 [pt0 [Hmb0 [Hmt0 [Ppb0 [Ppt0 [_ [_ [N1 _]]]]]]]]]]].
      rewrite Hsel in Hmb0. cbn [fst] in Hmb0. rewrite Hm in Hmb0. inversion Hmb0; subst mb0.
      rewrite N1 in Hop. inversion Hop. reflexivity.
    + destruct ((fst (va_top v) =? l) && (snd (va_top v) =? k)) eqn:Hsel; [|destruct Hin].
      assert (Hvf : In v (filter (fun v => (fst (va_top v) =? l) && (snd (va_top v) =? k)) vas)) by (apply filter_In; auto).
      destruct (Forall2_In_l _ _ _ _ _ _ Ht Hvf) as [o [Ho Hop]]. apply pair_sel in Hsel.
      destruct (Htop _ _ Hv Hsel Hop) as [a' [pb [mb [_ [_ [Hmb [Ppb [Wb ->]]]]]]]].
      unfold cross2 in Hin. rewrite (track_pos_metal _ _ _ _ Hmb), Ppb in Hin. simpl in Hin. destruct Hin as [Hin|[]].
      inversion Hin; subst n c2. exists (ONet (cen pb) (fst a')). split; [apply in_or_app; right; exact Ho|].
      simpl. left. rewrite (cen_floor pb) by lia.
      destruct (net_op_real _ _ _ _ _ Hwf Hvs Hrel) as [mb0 [mt0 [pb0 [pt0 [Hmb0 [Hmt0 [Ppb0 [Ppt0 [_ [_ [_ N2]]]]]]]]]]].
      rewrite Hsel in Hmt0. cbn [fst] in Hmt0. rewrite Hm in Hmt0. inversion Hmt0; subst mt0.
      rewrite N2 in Hop. inversion Hop. reflexivity.
  - apply Forall_app. split.
    + eapply Forall2_Forall_r; [exact Hb|]. intros v o Hv Hop. apply filter_In in Hv. destruct Hv as [Hv Hsel].
      apply pair_sel in Hsel. destruct (Hbot _ _ Hv Hsel Hop) as [a [pt [mt [_ [_ [_ [_ [_ ->]]]]]]]]. exact I.
    + eapply Forall2_Forall_r; [exact Ht|]. intros v o Hv Hop. apply filter_In in Hv. destruct Hv as [Hv Hsel].
      apply pair_sel in Hsel. destruct (Htop _ _ Hv Hsel Hop) as [a [pb [mb [_ [_ [_ [_ [_ ->]]]]]]]]. exact I.
Qed.

(** * Part L: every track the exporter draws, described in the specification's terms *)
Definition kind_of (ct : ctrack) : ttype := match ct_rail ct with Some k => Rail k | None => Signal end.
Definition is_OBlock (o : op) : Prop := match o with OBlock _ _ _ => True | _ => False end.
Definition is_OCut (o : op) : Prop := match o with OCut _ _ _ => True | _ => False end.
Definition is_ONet (o : op) : Prop := match o with ONet _ _ => True | _ => False end.

(** the operations applied to the track [ct] of layer l: the blockages of its period, then (signal
    tracks only) one admissible placement of each of its cuts, then its net assignments *)
Definition ops_real (st : stack) (c : cell) (l : Z) (m : metal) (ct : ctrack) (ops : list op) : Prop :=
  exists bops cops nops, ops = bops ++ cops ++ nops /\
    Forall is_OBlock bops /\ map bounds (requested bops) = blocks st c l m (ct_q ct) /\
    Forall is_OCut cops /\ Forall is_ONet nops /\
    Forall (op_ok (along_len st c m)) ops /\
    match ct_rail ct with
    | Some _ => cops = [] /\ nops = []
    | None => In (map bounds (requested cops)) (choices (cut_candidates st c l m (ct_k ct))) /\
              ats_rel st c l (ct_k ct) (ats_of nops)
    end.

Definition track_real (st : stack) (c : cell) (l : Z) (m : metal) (lay : Z) (e : ctrack * list shape) : Prop :=
  exists d ops segs,
    td_kp d = (kind_of (fst e), ct_pos (fst e)) /\ ops_real st c l m (fst e) ops /\
    foldM apply_op ops (t_segs (fresh_track (along_len st c m) d)) = Ok segs /\
    snd e = map (rect_of (m_horiz m) lay d) (filter is_wire segs).

(** the specification's tracks of period q *)
Definition period_cts (st : stack) (c : cell) (m : metal) (q : Z) : list ctrack :=
  map (fun i => mkCt (-1) (match e_tt (nth i (flat m) (mkEntry Gap 0)) with Rail k => Some k | _ => None end)
                     q (entry_pos m q i)) (rail_idx m)
  ++ flat_map (fun r => let k := q * nsig m + r in
                 match track_pos_m m k with Some p => [mkCt k None q p] | None => [] end) (zseq (nsig m)).

Lemma tracks_of_periods : forall st c m, tracks_of st c m = flat_map (period_cts st c m) (zseq (nperiods st c m)).
Proof. reflexivity. Qed.

Lemma combine_F2 : forall A B C (P : A -> B -> Prop) (R : C * B -> Prop) (F : A -> C) ds rs,
  Forall2 P ds rs -> (forall d sh, In d ds -> P d sh -> R (F d, sh)) ->
  exists etr, map fst etr = map F ds /\ map snd etr = rs /\ Forall R etr.
Proof.
  intros A B C P R F ds rs H. induction H as [|d sh ds rs Hp H IH]; intros HR.
  - exists []. repeat split; constructor.
  - destruct IH as [etr [E1 [E2 E3]]]; [intros; apply HR; [right; assumption|assumption]|].
    exists ((F d, sh) :: etr). simpl. rewrite E1, E2. repeat split. constructor; [|exact E3].
    apply HR; [left; reflexivity|assumption].
Qed.

Lemma Forall2_map_l : forall A A' B (f : A -> A') (R : A' -> B -> Prop) l1 l2,
  Forall2 R (map f l1) l2 -> Forall2 (fun x y => R (f x) y) l1 l2.
Proof.
  intros A A' B f R l1. induction l1 as [|x l1 IH]; intros l2 H; inversion H; subst; constructor; auto.
Qed.

Lemma map_nth_seq : forall A (l : list A) d, map (fun r => nth r l d) (seq 0 (length l)) = l.
Proof.
  intros A l d. induction l as [|x l IH]; [reflexivity|]. simpl. f_equal.
  rewrite <- seq_shift, map_map. exact IH.
Qed.

Lemma flat_map_single : forall A B (f : A -> option B) (g : A -> B) l,
  (forall x, In x l -> f x = Some (g x)) ->
  flat_map (fun x => match f x with Some p => [p] | None => [] end) l = map g l.
Proof.
  intros A B f g l H. induction l as [|x l IH]; simpl; [reflexivity|].
  rewrite (H x (or_introl eq_refl)). simpl. f_equal. apply IH. intros y Hy. apply H. right; assumption.
Qed.

Lemma track_pos_m_some : forall m k, 0 < nsig m -> 0 <= k -> exists p, track_pos_m m k = Some p.
Proof.
  intros m k Hn Hk. unfold track_pos_m.
  assert (E1 : (nsig m =? 0) = false) by (apply Z.eqb_neq; lia). assert (E2 : (k <? 0) = false) by (apply Z.ltb_ge; lia).
  rewrite E1, E2. cbn [orb].
  pose proof (Z.mod_pos_bound k (nsig m) Hn) as Hr.
  assert (Hj : 0 <= (if mirrored m (k / nsig m) then nsig m - 1 - k mod nsig m else k mod nsig m) < Z.of_nat (length (sig_idx m))).
  { unfold nsig in *. destruct (mirrored m _); lia. }
  destruct (nth_error (sig_idx m) _) eqn:E; [eexists; reflexivity|]. apply nth_error_None in E. lia.
Qed.

Section PeriodTracks.
  Variables (st : stack) (vs : vstack) (c : cell) (vas : list vassign) (l : Z) (m : metal) (vm : vmetal) (lay : Z).
  Hypothesis Hwf : wf_cell st c.
  Hypothesis Hvs : vs_of st vs.
  Hypothesis HF : Forall2 (asg_rel st vs c) (c_assigns c) vas.
  Hypothesis Hm : metal_of st l = Some m.
  Hypothesis Hvm : metal_at vs l = Ok vm.
  Hypothesis Hval : validate_metal (s_px st) (s_py st) m l = Ok vm.
  Hypothesis Hlay : m_raw m = Some lay.

  Let Hvmo : vm_of m l vm := validate_metal_vm_of _ _ _ _ _ Hval.
  Let Wm : wf_metal m := wf_metal_of _ _ _ (wfc_stack _ _ Hwf) Hm.

  Lemma export_track_real : forall d ops t' sh,
    foldM tapp ops (fresh_track (along_len st c m) d) = Ok t' -> export_track vs vm t' = Ok sh ->
    exists segs, foldM apply_op ops (t_segs (fresh_track (along_len st c m) d)) = Ok segs /\
      sh = map (rect_of (m_horiz m) lay d) (filter is_wire segs).
  Proof.
    intros d ops t' sh Hf He. destruct (tapp_fold _ _ _ Hf) as [A B]. cbn [t_data fresh_track] in B.
    exists (t_segs t'). split; [exact A|].
    rewrite (export_track_shapes vs vm vm lay t') in He.
    - inversion He. rewrite B, (vmo_spec _ _ _ Hvmo). reflexivity.
    - rewrite (vmo_index _ _ _ Hvmo). exact Hvm.
    - rewrite (vmo_spec _ _ _ Hvmo). exact Hlay.
  Qed.

  Lemma block_ops_real : forall q,
    let bops := map (block_op vs (m_horiz m)) (tp_blocks (temp_period fixed vs c vas vm q)) in
    Forall is_OBlock bops /\ map bounds (requested bops) = blocks st c l m q /\ Forall (op_ok (along_len st c m)) bops.
  Proof.
    intros q bops. pose proof (period_blocks_spec st vs c vas m l vm q Hvs Hvmo) as Hb. fold bops in Hb.
    split; [|split; [exact Hb|]].
    - subst bops. apply Forall_forall. intros o Ho. apply in_map_iff in Ho. destruct Ho as [[[a b] s] [<- _]]. exact I.
    - apply requested_op_ok. rewrite Hb. intros p Hp. eapply blocks_in_cell; eauto.
  Qed.

  Theorem period_tracks : forall q out, 0 <= q ->
    period_rel vs vm (along_len st c m) (temp_period fixed vs c vas vm q) q out ->
    exists vias etr, out = vias ++ concat (map snd etr) /\
      Forall2 (via_rel vs vm) (tp_bot (temp_period fixed vs c vas vm q)) vias /\
      Forall (track_real st c l m lay) etr /\ Permutation (map fst etr) (period_cts st c m q).
  Proof.
    intros q out Hq [sigs0 [rails0 [vias [rs [ss [Hlp [Ho [Hv [Hr [Hl Hs]]]]]]]]]].
    rewrite (vmo_spec _ _ _ Hvmo) in *.
    set (L := along_len st c m) in *. set (tp := temp_period fixed vs c vas vm q) in *.
    destruct (block_ops_real q) as [Bk1 [Bk2 Bk3]]. fold tp in Bk1, Bk2, Bk3.
    set (bops := map (block_op vs (m_horiz m)) (tp_blocks tp)) in *.
    destruct (to_layer_period_tracks _ _ _ _ _ Hlp) as [Esig Erail].
    set (c0 := m_offset m + pitch m * q) in *.
    (* rails *)
    set (dr := filter is_rail (walk (period_entries m q) c0)) in *.
    set (Fr := fun d : tdata => mkCt (-1) (match td_tt d with Rail k => Some k | _ => None end) q (td_pos d)).
    rewrite Erail in Hr. apply Forall2_map_l in Hr.
    destruct (combine_F2 _ _ _ _ (track_real st c l m lay) Fr _ _ Hr) as [er [Er1 [Er2 Er3]]].
    { intros d sh Hd [t' [Hf He]]. destruct (export_track_real _ _ _ _ Hf He) as [segs [Hsegs Hsh]].
      apply filter_In in Hd. destruct Hd as [_ Hd]. unfold is_rail in Hd.
      exists d, bops, segs. cbn [fst snd]. split; [|split; [|split; assumption]].
      - unfold td_kp, kind_of, Fr. cbn [ct_rail ct_pos]. destruct (td_tt d); try discriminate. reflexivity.
      - exists bops, [], []. rewrite !app_nil_r. repeat (split; [first [assumption|constructor]|]).
        unfold Fr. cbn [ct_rail ct_q]. destruct (td_tt d); try discriminate. auto. }
    (* signals *)
    set (N := length sigs0) in *.
    assert (HN : Z.of_nat N = nsig m).
    { destruct (to_layer_period_inv _ _ _ _ _ Hlp) as [_ [_ Hlen]].
      destruct (validate_metal_data _ _ _ _ _ Hval) as [_ [_ [_ [_ Hsg]]]]. rewrite <- Hsg in Hlen.
      pose proof (vmo_nsig _ _ _ Hvmo) as Hz. unfold zlen in Hz. unfold N. lia. }
    pose proof (wfm_nsig _ Wm) as Hnpos.
    set (posr := fun r : nat => match track_pos_m m (q * nsig m + Z.of_nat r) with Some p => p | None => (0, 0) end).
    set (es := map (fun r => (mkCt (q * nsig m + Z.of_nat r) None q (posr r), nth r ss [])) (seq 0 N)).
    assert (Es1 : map fst es = flat_map (fun r => let k := q * nsig m + r in
                     match track_pos_m m k with Some p => [mkCt k None q p] | None => [] end) (zseq (nsig m))).
    { unfold es, zseq. rewrite map_map. cbn [fst]. replace (Z.to_nat (nsig m)) with N by lia.
      rewrite flat_map_concat_map, map_map, <- flat_map_concat_map. cbv zeta.
      assert (Hx := flat_map_single nat ctrack
                 (fun r => option_map (mkCt (q * nsig m + Z.of_nat r) None q) (track_pos_m m (q * nsig m + Z.of_nat r)))
                 (fun r => mkCt (q * nsig m + Z.of_nat r) None q (posr r)) (seq 0 N)).
      rewrite <- Hx.
      - apply flat_map_ext. intros r. destruct (track_pos_m m _); reflexivity.
      - intros r _. unfold posr. destruct (track_pos_m_some m (q * nsig m + Z.of_nat r) Hnpos ltac:(nia)) as [p ->]. reflexivity. }
    assert (Es2 : concat (map snd es) = concat ss).
    { unfold es. rewrite map_map. cbn [snd]. rewrite <- Hl, map_nth_seq. reflexivity. }
    assert (Es3 : Forall (track_real st c l m lay) es).
    { apply Forall_forall. intros e He. unfold es in He. apply in_map_iff in He. destruct He as [r [<- Hr']].
      apply in_seq in Hr'. assert (HrN : (r < N)%nat) by lia.
      destruct (nth_error sigs0 r) as [t|] eqn:Ht; [|apply nth_error_None in Ht; unfold N in HrN; lia].
      destruct (Hs _ _ Ht) as [ops [t' [sh [[cops [bo [to [C1 [C2 [C3 C4]]]]]] [Hf [He Hn]]]]]].
      rewrite (vmo_spec _ _ _ Hvmo) in C1, C2, C3, C4. fold bops in C4. unfold tp in C1, C2, C3.
      rewrite (nth_error_nth _ _ _ Hn).
      (* the track's data *)
      pose proof Ht as Ht2. rewrite Esig in Ht2. rewrite nth_error_map in Ht2.
      destruct (nth_error (filter is_sig (walk (period_entries m q) c0)) r) as [d|] eqn:Hd; [|discriminate].
      simpl in Ht2. inversion Ht2; subst t. clear Ht2.
      apply nth_error_In in Hd. apply filter_In in Hd. destruct Hd as [_ Hd]. unfold is_sig in Hd.
      pose proof (track_pos_model m q L sigs0 rails0 (Z.of_nat r) Hq Hlp ltac:(lia)) as Hpos.
      rewrite Nat2Z.id, Ht in Hpos. simpl in Hpos.
      destruct (export_track_real _ _ _ _ Hf He) as [segs [Hsegs Hsh]].
      exists d, ops, segs. cbn [fst snd]. split; [|split; [|split; assumption]].
      - unfold td_kp, kind_of. cbn [ct_rail ct_pos]. unfold posr. rewrite <- Hpos. destruct (td_tt d); try discriminate. reflexivity.
      - (* the operations *)
        assert (HNpos : (0 < N)%nat) by lia.
        assert (Hz : zlen (vm_sigs vm) = Z.of_nat N) by (rewrite HN; apply (vmo_nsig _ _ _ Hvmo)).
        rewrite (cuts_of_track vs c vas vm N r q HNpos Hq HrN Hz), (vmo_index _ _ _ Hvmo), HN in C1.
        rewrite (bots_of_track vs c vas vm N r q HNpos Hq HrN Hz), (vmo_index _ _ _ Hvmo), HN in C2.
        rewrite (tops_of_track vs c vas vm N r q HNpos Hq HrN Hz), (vmo_index _ _ _ Hvmo), HN in C3.
        destruct (track_cuts_real _ _ _ _ _ _ _ Hwf Hvs Hm C1) as [K1 [K2 K3]].
        destruct (track_nets_real _ _ _ _ _ _ _ _ _ Hwf Hvs HF Hm C2 C3) as [N1 N2].
        exists bops, cops, (bo ++ to). split; [exact C4|]. repeat (split; [assumption|]).
        split; [|cbn [ct_rail ct_k]; split; assumption].
        subst ops. apply Forall_app. split; [exact Bk3|]. apply Forall_app. split; [exact K2|].
        revert N2. apply Forall_impl. intros o Hoo. destruct o; simpl in *; tauto. }
    exists vias, (er ++ es). split; [|split; [exact Hv|split]].
    - rewrite Ho, map_app, concat_app, Er2, Es2. reflexivity.
    - apply Forall_app. split; assumption.
    - rewrite map_app, Er1, Es1. unfold period_cts. apply Permutation_app_tail.
      assert (Ek : map Fr dr = map (fun kp => mkCt (-1) (match fst kp with Rail k => Some k | _ => None end) q (snd kp)) (map td_kp dr))
        by (rewrite map_map; reflexivity).
      rewrite Ek. unfold dr. rewrite (filter_ext_in' _ is_rail (fun d => is_railt (td_tt d))) by reflexivity.
      rewrite walk_ent_list by reflexivity. unfold c0. rewrite (period_tracks_spec is_railt m q eq_refl Hq).
      fold (rail_idx m). destruct (mirrored m q).
      + rewrite map_rev, map_map. cbn [fst snd]. apply Permutation_sym, Permutation_rev.
      + rewrite map_map. cbn [fst snd]. apply Permutation_refl.
  Qed.
End PeriodTracks.

(** * Part M: consequences for one drawn track: tiling, position, layer *)
Lemma requested_app : forall a b, requested (a ++ b) = requested a ++ requested b.
Proof. intros. unfold requested. apply flat_map_app. Qed.

Lemma requested_nets : forall ops, Forall is_ONet ops -> requested ops = [].
Proof. intros ops H. induction H as [|o ops Ho H IH]; [reflexivity|]. destruct o; simpl in *; try contradiction. exact IH. Qed.

Lemma ops_real_nonwire : forall st c l m ct ops, ops_real st c l m ct ops ->
  In (map bounds (requested ops)) (nonwire_choices st c l m ct).
Proof.
  intros st c l m ct ops [bops [cops [nops [-> [_ [Hb [_ [Hn [_ Hk]]]]]]]]].
  rewrite !requested_app, (requested_nets _ Hn), app_nil_r, map_app, Hb. unfold nonwire_choices.
  destruct (ct_rail ct).
  - destruct Hk as [-> _]. simpl. rewrite app_nil_r. left. reflexivity.
  - destruct Hk as [Hk _]. apply in_map_iff. exists (map bounds (requested cops)). auto.
Qed.

Lemma ops_real_ok : forall st c l m ct ops, ops_real st c l m ct ops -> Forall (op_ok (along_len st c m)) ops.
Proof. intros st c l m ct ops [bops [cops [nops [_ [_ [_ [_ [_ [H _]]]]]]]]]. exact H. Qed.

Lemma fresh_tiled : forall span d, 0 <= span -> Tiled span (t_segs (fresh_track span d)).
Proof.
  intros span d H. unfold fresh_track; cbn [t_segs]. split; [discriminate|].
  apply (chain_cons (mkSeg _ 0 span)); simpl; [lia|constructor].
Qed.
Lemma fresh_nonwire : forall span d, filter nonwire (t_segs (fresh_track span d)) = [].
Proof. intros. unfold fresh_track; cbn [t_segs filter]. unfold nonwire; simpl. destruct (td_tt d); reflexivity. Qed.

(** the segments of a drawn track *)
Lemma track_real_segs : forall st c l m lay e, wf_cell st c -> track_real st c l m lay e ->
  exists d ops segs,
    td_kp d = (kind_of (fst e), ct_pos (fst e)) /\ ops_real st c l m (fst e) ops /\
    foldM apply_op ops (t_segs (fresh_track (along_len st c m) d)) = Ok segs /\
    snd e = map (rect_of (m_horiz m) lay d) (filter is_wire segs) /\
    Tiled (along_len st c m) segs /\ Permutation (filter nonwire segs) (requested ops).
Proof.
  intros st c l m lay e Hwf [d [ops [segs [Hd [Ho [Hf Hs]]]]]].
  exists d, ops, segs. repeat (split; [assumption|]).
  pose proof (along_len_pos st c m Hwf) as HL.
  assert (HT : Tiled (along_len st c m) (t_segs (fresh_track (along_len st c m) d))) by (apply fresh_tiled; lia).
  destruct (track_ops_tiled _ _ _ _ HT (ops_real_ok _ _ _ _ _ _ Ho) Hf) as [T P].
  rewrite fresh_nonwire in P. auto.
Qed.

Lemma sh_along_rect : forall m lay d s, sh_along m (rect_of (m_horiz m) lay d s) = bounds s.
Proof. intros. unfold sh_along, rect_of, bounds. destruct (m_horiz m); reflexivity. Qed.
Lemma sh_across_rect : forall m lay d s, sh_across m (rect_of (m_horiz m) lay d s) = (td_start d, td_start d + td_width d).
Proof. intros. unfold sh_across, rect_of. destruct (m_horiz m); reflexivity. Qed.
Lemma sh_layer_rect : forall h lay d s, sh_layer (rect_of h lay d s) = lay.
Proof. intros. unfold rect_of. destruct h; reflexivity. Qed.
Lemma sh_net_rect : forall h lay d s, sh_net (rect_of h lay d s) = seg_net s.
Proof. intros. unfold rect_of. destruct h; reflexivity. Qed.

(** (c) PER-TRACK TILING in the specification's terms: the rectangles of a drawn track, with its
    period's blocked spans and an admissible placement of each of its cuts, tile [0, along_len];
    every rectangle is on the layer, at the track's position, with ordered corners *)
Theorem track_real_tiles : forall st c l m lay e, wf_cell st c -> 0 < snd (ct_pos (fst e)) ->
  track_real st c l m lay e ->
  (exists nw, In nw (nonwire_choices st c l m (fst e)) /\
     tiles_set (map (sh_along m) (snd e) ++ nw) 0 (along_len st c m)) /\
  Forall (fun s => sh_layer s = lay /\
                   sh_across m s = (fst (ct_pos (fst e)), fst (ct_pos (fst e)) + snd (ct_pos (fst e))) /\
                   norm s = s) (snd e).
Proof.
  intros st c l m lay e Hwf Hw Hr.
  destruct (track_real_segs _ _ _ _ _ _ Hwf Hr) as [d [ops [segs [Hd [Ho [Hf [Hs [[Hne Hc] Hp]]]]]]]].
  unfold td_kp in Hd. inversion Hd as [[Hk Hpos]]. split.
  - exists (map bounds (requested ops)). split; [eapply ops_real_nonwire; eauto|].
    exists (map bounds segs). split; [|apply chain_tiles; assumption].
    eapply Permutation_trans; [apply Permutation_map, (filter_partition_perm _ nonwire)|].
    rewrite map_app. eapply Permutation_trans; [apply Permutation_app_comm|].
    apply Permutation_app.
    + rewrite Hs, map_map. unfold is_wire.
      erewrite map_ext; [apply Permutation_refl|]. intros a. cbv beta. symmetry. apply sh_along_rect.
    + apply Permutation_map. exact Hp.
  - rewrite Hs. apply Forall_forall. intros s Hin. apply in_map_iff in Hin. destruct Hin as [g [<- Hg]].
    apply filter_In in Hg. destruct Hg as [Hg _].
    destruct (chain_In _ _ _ _ Hc Hg) as [_ [Hle _]].
    rewrite sh_layer_rect, sh_across_rect.
    assert (Hw' : 0 < td_width d) by (first [rewrite <- Hpos in Hw; exact Hw | exact Hw]).
    unfold td_pos. cbn [fst snd]. split; [reflexivity|]. split; [reflexivity|].
    apply norm_id; unfold rect_of; destruct (m_horiz m); cbn [sh_x0 sh_x1 sh_y0 sh_y1]; lia.
Qed.

(** widths of the specification's tracks *)
Lemma period_cts_width : forall st c m q ct, wf_metal m -> In ct (period_cts st c m q) -> 0 < snd (ct_pos ct).
Proof.
  intros st c m q ct Wm Hin. unfold period_cts in Hin. apply in_app_or in Hin. destruct Hin as [Hin|Hin].
  - apply in_map_iff in Hin. destruct Hin as [i [<- Hi]]. cbn [ct_pos]. unfold entry_pos. cbn [snd].
    unfold rail_idx, idx_where in Hi. apply filter_In in Hi. destruct Hi as [Hi _]. apply in_seq in Hi.
    pose proof (wfm_widths _ Wm) as F. rewrite Forall_forall in F. apply F. apply nth_In. lia.
  - apply in_flat_map in Hin. destruct Hin as [r [_ Hin]]. cbv zeta in Hin.
    destruct (track_pos_m m (q * nsig m + r)) as [p|] eqn:Hp; [|destruct Hin]. destruct Hin as [<-|[]]. cbn [ct_pos].
    eapply track_pos_m_width; eauto.
Qed.

Lemma tracks_of_width : forall st c m ct, wf_metal m -> In ct (tracks_of st c m) -> 0 < snd (ct_pos ct).
Proof.
  intros st c m ct Wm Hin. rewrite tracks_of_periods in Hin. apply in_flat_map in Hin. destruct Hin as [q [_ Hin]].
  eapply period_cts_width; eauto.
Qed.

(** * Part N: the specification's executable tiling test accepts every tiling *)
Definition pleP (p q : Z * Z) : Prop := ple p q = true.

Lemma ple_spec : forall p q, ple p q = true <-> (fst p < fst q \/ (fst p = fst q /\ snd p <= snd q)).
Proof.
  intros p q. unfold ple. rewrite orb_true_iff, andb_true_iff, Z.ltb_lt, Z.eqb_eq, Z.leb_le. tauto.
Qed.
Lemma ple_total : forall p q, ple p q = true \/ ple q p = true.
Proof. intros p q. rewrite !ple_spec. lia. Qed.
Lemma ple_trans : forall p q r, ple p q = true -> ple q r = true -> ple p r = true.
Proof. intros p q r. rewrite !ple_spec. lia. Qed.
Lemma ple_antisym : forall p q, ple p q = true -> ple q p = true -> p = q.
Proof. intros [a b] [c d]. rewrite !ple_spec. cbn [fst snd]. intros H1 H2. f_equal; lia. Qed.
Lemma ple_false : forall p q, ple p q = false -> ple q p = true.
Proof. intros p q H. destruct (ple_total p q); congruence. Qed.

Lemma pinsert_perm : forall p l, Permutation (pinsert p l) (p :: l).
Proof.
  intros p l. induction l as [|q l IH]; simpl; [apply Permutation_refl|].
  destruct (ple p q); [apply Permutation_refl|]. eapply Permutation_trans; [apply perm_skip, IH|]. apply perm_swap.
Qed.
Lemma psort_perm : forall l, Permutation (psort l) l.
Proof.
  induction l as [|p l IH]; simpl; [constructor|].
  eapply Permutation_trans; [apply pinsert_perm|]. constructor. exact IH.
Qed.

Lemma pinsert_sorted : forall p l, StronglySorted pleP l -> StronglySorted pleP (pinsert p l).
Proof.
  intros p l H. induction H as [|q l Hs IH Hq]; simpl; [repeat constructor|].
  destruct (ple p q) eqn:E.
  - constructor; [constructor; assumption|]. constructor; [exact E|].
    rewrite Forall_forall in *. intros x Hx. eapply ple_trans; [exact E|]. apply Hq; assumption.
  - constructor; [exact IH|]. rewrite Forall_forall in *. intros x Hx.
    apply (Permutation_in _ (pinsert_perm p l)) in Hx. destruct Hx as [<-|Hx]; [apply ple_false; assumption|apply Hq; assumption].
Qed.
Lemma psort_sorted : forall l, StronglySorted pleP (psort l).
Proof. induction l as [|p l IH]; simpl; [constructor|]. apply pinsert_sorted. exact IH. Qed.

Lemma sorted_perm_eq : forall l1 l2, StronglySorted pleP l1 -> StronglySorted pleP l2 -> Permutation l1 l2 -> l1 = l2.
Proof.
  induction l1 as [|x l1 IH]; intros l2 H1 H2 P.
  - apply Permutation_nil in P. congruence.
  - destruct l2 as [|y l2]; [apply Permutation_sym, Permutation_nil in P; discriminate|].
    inversion H1 as [|? ? S1 F1]; subst. inversion H2 as [|? ? S2 F2]; subst.
    assert (x = y) as ->.
    { rewrite Forall_forall in F1, F2.
      assert (Hxy : In x (y :: l2)) by (eapply Permutation_in; [exact P|left; reflexivity]).
      assert (Hyx : In y (x :: l1)) by (eapply Permutation_in; [apply Permutation_sym; exact P|left; reflexivity]).
      destruct Hxy as [->|Hxy]; [reflexivity|]. destruct Hyx as [->|Hyx]; [reflexivity|].
      apply ple_antisym; [apply F1; assumption|apply F2; assumption]. }
    f_equal. apply IH; auto. eapply Permutation_cons_inv; eauto.
Qed.

Lemma psort_unique : forall l l', StronglySorted pleP l -> Permutation l l' -> psort l' = l.
Proof.
  intros l l' Hs P. apply sorted_perm_eq; [apply psort_sorted|exact Hs|].
  eapply Permutation_trans; [apply psort_perm|apply Permutation_sym; exact P].
Qed.
Lemma psort_perm_inv : forall l l', Permutation l l' -> psort l = psort l'.
Proof.
  intros l l' P. symmetry. apply psort_unique; [apply psort_sorted|].
  eapply Permutation_trans; [apply psort_perm|exact P].
Qed.

Lemma tiles_bounds : forall l lo hi, tiles l lo hi -> lo <= hi /\ forall x, In x l -> lo <= fst x /\ fst x <= snd x /\ snd x <= hi.
Proof.
  intros l lo hi H. induction H as [x|a b l hi Hab H [IH1 IH2]].
  - split; [lia|]. intros x0 [].
  - split; [lia|]. intros x [<-|Hx]; cbn [fst snd]; [lia|]. specialize (IH2 _ Hx). lia.
Qed.

Lemma tiles_sorted : forall l lo hi, tiles l lo hi -> StronglySorted pleP l.
Proof.
  intros l lo hi H. induction H as [x|a b l hi Hab H IH]; constructor; [exact IH|].
  apply Forall_forall. intros x Hx. destruct (tiles_bounds _ _ _ H) as [_ Hb]. specialize (Hb _ Hx).
  apply ple_spec. cbn [fst snd]. lia.
Qed.

Lemma tiles_tilesb : forall l lo hi, tiles l lo hi -> tilesb l lo hi = true.
Proof.
  intros l lo hi H. induction H as [x|a b l hi Hab H IH]; simpl; [apply Z.eqb_refl|].
  rewrite Z.eqb_refl, IH. cbn [andb]. rewrite andb_true_r. apply Z.leb_le. exact Hab.
Qed.

Lemma tilesb_tiles : forall l lo hi, tilesb l lo hi = true -> tiles l lo hi.
Proof.
  induction l as [|[a b] l IH]; intros lo hi H; simpl in H.
  - apply Z.eqb_eq in H. subst. constructor.
  - apply andb_prop in H. destruct H as [H H3]. apply andb_prop in H. destruct H as [H1 H2].
    apply Z.eqb_eq in H1. apply Z.leb_le in H2. subst a. constructor; auto.
Qed.

Theorem tiles_set_setb : forall pieces lo hi, tiles_set pieces lo hi -> tiles_setb pieces lo hi = true.
Proof.
  intros pieces lo hi [l [P T]]. unfold tiles_setb.
  rewrite (psort_unique l pieces (tiles_sorted _ _ _ T) P). apply tiles_tilesb. exact T.
Qed.
Theorem tiles_setb_set : forall pieces lo hi, tiles_setb pieces lo hi = true -> tiles_set pieces lo hi.
Proof.
  intros pieces lo hi H. exists (psort pieces). split; [apply psort_perm|apply tilesb_tiles; exact H].
Qed.

Lemma tiles_set_perm : forall p p' lo hi, Permutation p p' -> tiles_set p lo hi -> tiles_set p' lo hi.
Proof. intros p p' lo hi P [l [Q T]]. exists l. split; [eapply Permutation_trans; eauto|exact T]. Qed.

(** * Part O: all the rectangles on one metal's raw layer are the rectangles of that layer's tracks *)
Definition onlay (lay : Z) (o : list shape) : list shape := filter (on_layer (Some lay)) (map norm o).

Lemma onlay_app : forall lay a b, onlay lay (a ++ b) = onlay lay a ++ onlay lay b.
Proof. intros. unfold onlay. rewrite map_app, filter_app. reflexivity. Qed.
Lemma onlay_concat : forall lay l, onlay lay (concat l) = concat (map (onlay lay) l).
Proof. intros lay l. induction l as [|x l IH]; simpl; [reflexivity|]. rewrite onlay_app, IH. reflexivity. Qed.

Lemma onlay_other : forall lay o, Forall (fun s => sh_layer s <> lay) o -> onlay lay o = [].
Proof.
  intros lay o H. unfold onlay. apply filter_none. intros s Hs. apply in_map_iff in Hs. destruct Hs as [s0 [<- Hs0]].
  rewrite Forall_forall in H. specialize (H _ Hs0). unfold on_layer, norm. cbn [sh_layer]. apply Z.eqb_neq. exact H.
Qed.
Lemma onlay_same : forall lay o, Forall (fun s => sh_layer s = lay /\ norm s = s) o -> onlay lay o = o.
Proof.
  intros lay o H. unfold onlay. induction H as [|s o [H1 H2] H IH]; [reflexivity|]. simpl. rewrite H2.
  unfold on_layer. rewrite H1, Z.eqb_refl. f_equal. exact IH.
Qed.

Lemma NoDup_app_l : forall A (l1 l2 : list A), NoDup (l1 ++ l2) -> NoDup l1.
Proof.
  intros A l1. induction l1 as [|a l1 IH]; intros l2 H; [constructor|]. simpl in H. inversion H; subst.
  constructor; [|eapply IH; eauto]. intro Hin. apply H2. apply in_or_app; left; assumption.
Qed.

Lemma raws_nth_inj : forall (ms : list metal) i j m1 m2 r,
  NoDup (flat_map (fun m => match m_raw m with Some r => [r] | None => [] end) ms) ->
  nth_error ms i = Some m1 -> nth_error ms j = Some m2 -> m_raw m1 = Some r -> m_raw m2 = Some r -> i = j.
Proof.
  induction ms as [|m ms IH]; intros i j m1 m2 r Hnd Hi Hj H1 H2; [destruct i; discriminate|].
  simpl in Hnd.
  assert (Hin : forall k mk, nth_error ms k = Some mk -> m_raw mk = Some r ->
                  In r (flat_map (fun m => match m_raw m with Some r => [r] | None => [] end) ms)).
  { intros k mk Hk Hr. apply in_flat_map. exists mk. split; [eapply nth_error_In; eauto|]. rewrite Hr. left; reflexivity. }
  destruct i as [|i], j as [|j]; simpl in Hi, Hj.
  - reflexivity.
  - inversion Hi; subst m1. rewrite H1 in Hnd. exfalso. eapply (NoDup_app_disj _ _ _ r Hnd); [left; reflexivity|eapply Hin; eauto].
  - inversion Hj; subst m2. rewrite H2 in Hnd. exfalso. eapply (NoDup_app_disj _ _ _ r Hnd); [left; reflexivity|eapply Hin; eauto].
  - f_equal. eapply IH; eauto. destruct (m_raw m); [|exact Hnd]. simpl in Hnd. inversion Hnd; assumption.
Qed.

Lemma metal_raw_inj : forall st l1 l2 m1 m2 r, wf_stack st ->
  metal_of st l1 = Some m1 -> metal_of st l2 = Some m2 -> m_raw m1 = Some r -> m_raw m2 = Some r -> l1 = l2.
Proof.
  intros st l1 l2 m1 m2 r Hwf H1 H2 R1 R2. unfold metal_of in *.
  destruct (l1 <? 0) eqn:E1; [discriminate|]. destruct (l2 <? 0) eqn:E2; [discriminate|].
  apply Z.ltb_ge in E1. apply Z.ltb_ge in E2.
  pose proof (raws_nth_inj _ _ _ _ _ _ (NoDup_app_l _ _ _ (wfs_nodup _ Hwf)) H1 H2 R1 R2). lia.
Qed.

Lemma via_rel_layer : forall st vs vm v s lay m, wf_stack st -> vs_of st vs -> In m (s_metals st) -> m_raw m = Some lay ->
  via_rel vs vm v s -> sh_layer s <> lay.
Proof.
  intros st vs vm v s lay m Hwf Hvs Hm Hlay Hr Heq.
  destruct (via_rel_shape _ _ _ _ _ Hwf Hvs Hr) as [Hv _].
  rewrite (metal_not_via _ _ _ _ Hwf Hm Hlay Heq) in Hv. discriminate.
Qed.

Lemma Forall2_imp_in : forall A B (R S : A -> B -> Prop) l1 l2,
  (forall x y, In x l1 -> R x y -> S x y) -> Forall2 R l1 l2 -> Forall2 S l1 l2.
Proof.
  intros A B R S l1 l2 H F. induction F; constructor.
  - apply H; [left; reflexivity|assumption].
  - apply IHF. intros x0 y0 Hx. apply H. right; assumption.
Qed.

Lemma collect_tracks : forall (R : ctrack * list shape -> Prop) (G : list shape -> list shape) (f : Z -> list ctrack) qs pouts,
  (forall a b, G (a ++ b) = G a ++ G b) -> G [] = [] ->
  Forall2 (fun q o => exists etr, G o = concat (map snd etr) /\ Forall R etr /\ Permutation (map fst etr) (f q)) qs pouts ->
  exists ETR, G (concat pouts) = concat (map snd ETR) /\ Forall R ETR /\ Permutation (map fst ETR) (flat_map f qs).
Proof.
  intros R G f qs pouts Happ Hnil H. induction H as [|q o qs pouts [etr [E1 [E2 E3]]] H [ETR [I1 [I2 I3]]]].
  - exists []. simpl. repeat split; auto.
  - exists (etr ++ ETR). simpl. rewrite Happ, E1, I1, !map_app, concat_app. repeat split.
    + apply Forall_app; auto.
    + apply Permutation_app; assumption.
Qed.

(** THE TRACKS OF A LAYER: the (normalised) rectangles of a cell on the raw layer of metal l are, in
    exporter order, the rectangles of a list of drawn tracks which is a permutation of the
    specification's tracks of that layer, each drawn track being described by [track_real] *)
Theorem cell_layer_tracks : forall st vs c shapes l m lay,
  wf_cell st c -> vs_of st vs -> export_layout fixed vs c = Ok shapes ->
  0 <= l < c_metals c -> metal_of st l = Some m -> m_raw m = Some lay ->
  exists ETR, onlay lay shapes = concat (map snd ETR) /\ Forall (track_real st c l m lay) ETR /\
              Permutation (map fst ETR) (tracks_of st c m).
Proof.
  intros st vs c shapes l m lay Hwf Hvs H Hl Hm Hlay.
  destruct (cell_structure _ _ _ _ Hwf Hvs H) as [vas [louts [Hv [Hs HF]]]].
  pose proof (vas_rel _ _ _ _ Hwf Hv) as Hrel. pose proof (wfc_stack _ _ Hwf) as Hws.
  subst shapes. rewrite onlay_concat.
  (* every other layer contributes nothing; layer l contributes its tracks *)
  assert (Hother : forall l' out, l' <> l -> layer_rel st vs c vas l' out -> onlay lay out = []).
  { intros l' out Hne [m' [vm' [pouts [Hm' [Hvm' [Hval' [Ho HF']]]]]]]. subst out. rewrite onlay_concat.
    pose proof (validate_metal_vm_of _ _ _ _ _ Hval') as Hvmo'.
    destruct (wfm_raw _ (wf_metal_of _ _ _ Hws Hm')) as [lay' Hlay'].
    assert (Hll : lay' <> lay) by (intro; subst lay'; apply Hne; eapply metal_raw_inj; eauto).
    assert (Hz : Forall (fun o => onlay lay o = []) pouts).
    { eapply Forall2_Forall_r; [exact HF'|]. intros q o _ Hp.
      destruct (period_rel_parts _ _ _ _ _ _ _ _ _ _ Hvs Hm' Hvm' Hvmo' Hlay' Hp) as [vias [trk [-> [Hvi Ht]]]].
      rewrite onlay_app, (onlay_other lay trk), app_nil_r.
      - apply onlay_other. eapply Forall2_Forall_r; [exact Hvi|]. intros v s _ Hr.
        eapply via_rel_layer; eauto. eapply metal_of_In; eauto.
      - revert Ht. apply Forall_impl. intros s Hs. congruence. }
    clear - Hz. induction Hz as [|o pouts Ho Hz IH]; simpl; [reflexivity|]. rewrite Ho, IH. reflexivity. }
  assert (Hthis : forall out, layer_rel st vs c vas l out ->
            exists ETR, onlay lay out = concat (map snd ETR) /\ Forall (track_real st c l m lay) ETR /\
                        Permutation (map fst ETR) (tracks_of st c m)).
  { intros out [m' [vm [pouts [Hm' [Hvm [Hval [Ho HF']]]]]]]. rewrite Hm in Hm'. inversion Hm'; subst m'. subst out.
    rewrite tracks_of_periods. apply collect_tracks; [apply onlay_app|reflexivity|].
    revert HF'. apply Forall2_imp_in. intros q o Hq Hp. apply zseq_In in Hq.
    destruct (period_tracks st vs c vas l m vm lay Hwf Hvs Hrel Hm Hvm Hval Hlay q o (proj1 Hq) Hp) as [vias [etr [-> [Hvi [Hr Hpm]]]]].
    exists etr. split; [|split; assumption].
    rewrite onlay_app, (onlay_other lay vias), app_nil_l.
    - apply onlay_same. apply Forall_concat. apply Forall_forall. intros sh Hsh. apply in_map_iff in Hsh.
      destruct Hsh as [e [<- He]]. rewrite Forall_forall in Hr.
      assert (Hw : 0 < snd (ct_pos (fst e))).
      { eapply (period_cts_width st c m q); [eapply wf_metal_of; eauto|].
        eapply Permutation_in; [exact Hpm|]. apply in_map. exact He. }
      destruct (track_real_tiles _ _ _ _ _ _ Hwf Hw (Hr _ He)) as [_ Hall].
      revert Hall. apply Forall_impl. intros s [A [_ B]]. auto.
    - eapply Forall2_Forall_r; [exact Hvi|]. intros v s _ Hrv. eapply via_rel_layer; eauto. eapply metal_of_In; eauto. }
  (* walk over the layers *)
  assert (Hgen : forall ls louts, NoDup ls -> Forall2 (layer_rel st vs c vas) ls louts ->
            (In l ls -> exists ETR, concat (map (onlay lay) louts) = concat (map snd ETR) /\
                          Forall (track_real st c l m lay) ETR /\ Permutation (map fst ETR) (tracks_of st c m)) /\
            (~ In l ls -> concat (map (onlay lay) louts) = [])).
  { intros ls lo Hnd HF2. induction HF2 as [|l' out ls lo Hrl HF2 IH]; [split; [intros []|reflexivity]|].
    inversion Hnd as [|? ? Hnin Hnd']; subst. destruct (IH Hnd') as [IH1 IH2]. simpl. split.
    - intros [->|Hin].
      + destruct (Hthis _ Hrl) as [ETR [E1 [E2 E3]]]. exists ETR. rewrite (IH2 Hnin), app_nil_r. auto.
      + rewrite (Hother l' out); [|intro; subst; contradiction|exact Hrl]. simpl. apply IH1. exact Hin.
    - intros Hn. rewrite (Hother l' out); [|intro; subst; apply Hn; left; reflexivity|exact Hrl]. simpl.
      apply IH2. intro; apply Hn; right; assumption. }
  destruct (Hgen _ _ (zseq_NoDup _) HF) as [G1 _]. apply G1. apply zseq_In. exact Hl.
Qed.

(** * Part P: the pieces found at a track position are the rectangles of the drawn tracks there *)
Lemma pair_eqb_eq : forall p q, pair_eqb p q = true <-> p = q.
Proof.
  intros [a b] [c d]. unfold pair_eqb. cbn [fst snd]. rewrite andb_true_iff, !Z.eqb_eq. split; [intros [-> ->]; reflexivity|intros H; inversion H; auto].
Qed.
Lemma pair_eqb_refl : forall p, pair_eqb p p = true. Proof. intros. apply pair_eqb_eq. reflexivity. Qed.

Lemma Permutation_filter' : forall A (p : A -> bool) l1 l2, Permutation l1 l2 -> Permutation (filter p l1) (filter p l2).
Proof.
  intros A p l1 l2 H. induction H; simpl.
  - constructor.
  - destruct (p x); [constructor|]; assumption.
  - destruct (p x), (p y); try apply perm_swap; try apply Permutation_refl.
  - eapply Permutation_trans; eauto.
Qed.

Definition at_pos (p : Z * Z) (e : ctrack * list shape) : bool := pair_eqb (ct_pos (fst e)) p.

Lemma pieces_at_onlay : forall m lay p shapes, m_raw m = Some lay ->
  pieces_at m p (map norm shapes) =
  filter (fun s => (fst (sh_across m s) =? fst p) && (snd (sh_across m s) =? fst p + snd p)) (onlay lay shapes).
Proof.
  intros m lay p shapes Hlay. unfold pieces_at, onlay. rewrite Hlay, filter_filter. apply filter_ext_in'.
  intros s _. rewrite andb_assoc. reflexivity.
Qed.

Lemma filter_sel_concat : forall (T : shape -> bool) (P : ctrack * list shape -> bool) ETR,
  (forall e, In e ETR -> filter T (snd e) = if P e then snd e else []) ->
  filter T (concat (map snd ETR)) = concat (map snd (filter P ETR)).
Proof.
  intros T P ETR H. induction ETR as [|e ETR IH]; [reflexivity|]. simpl. rewrite filter_app, (H e (or_introl eq_refl)), IH.
  - destruct (P e); reflexivity.
  - intros e' He'. apply H. right; assumption.
Qed.

(** all facts about the drawn tracks of layer l of a compiled well-formed cell *)
Record layer_tracks (st : stack) (c : cell) (shapes : list shape) (l : Z) (m : metal) (lay : Z)
       (ETR : list (ctrack * list shape)) : Prop := {
  lt_shapes : onlay lay shapes = concat (map snd ETR);
  lt_real : Forall (track_real st c l m lay) ETR;
  lt_perm : Permutation (map fst ETR) (tracks_of st c m) }.

Lemma lt_width : forall st c shapes l m lay ETR e, wf_metal m -> layer_tracks st c shapes l m lay ETR ->
  In e ETR -> 0 < snd (ct_pos (fst e)).
Proof.
  intros st c shapes l m lay ETR e Wm H He. apply (tracks_of_width st c m); [assumption|].
  eapply Permutation_in; [apply (lt_perm _ _ _ _ _ _ _ H)|]. apply in_map. exact He.
Qed.

Theorem pieces_at_tracks : forall st c shapes l m lay ETR p, wf_cell st c -> wf_metal m -> m_raw m = Some lay ->
  layer_tracks st c shapes l m lay ETR ->
  pieces_at m p (map norm shapes) = concat (map snd (filter (at_pos p) ETR)) /\
  Permutation (map fst (filter (at_pos p) ETR)) (filter (fun u => pair_eqb (ct_pos u) p) (tracks_of st c m)).
Proof.
  intros st c shapes l m lay ETR p Hwf Wm Hlay H. split.
  - rewrite (pieces_at_onlay m lay p shapes Hlay), (lt_shapes _ _ _ _ _ _ _ H).
    apply filter_sel_concat. intros e He.
    pose proof (lt_real _ _ _ _ _ _ _ H) as F. rewrite Forall_forall in F.
    destruct (track_real_tiles _ _ _ _ _ _ Hwf (lt_width _ _ _ _ _ _ _ _ Wm H He) (F _ He)) as [_ Hall].
    unfold at_pos. destruct (pair_eqb (ct_pos (fst e)) p) eqn:E.
    + apply pair_eqb_eq in E. apply filter_all_true. intros s Hs. rewrite Forall_forall in Hall.
      destruct (Hall _ Hs) as [_ [Hac _]]. rewrite Hac, E. cbn [fst snd]. rewrite !Z.eqb_refl. reflexivity.
    + apply filter_none. intros s Hs. rewrite Forall_forall in Hall. destruct (Hall _ Hs) as [_ [Hac _]].
      rewrite Hac. cbn [fst snd]. destruct p as [ps pw]. destruct (ct_pos (fst e)) as [es ew]. cbn [fst snd] in *.
      unfold pair_eqb in E. cbn [fst snd] in E.
      destruct (Z.eqb_spec es ps) as [->|Hne]; [|reflexivity]. cbn [andb] in *.
      apply Z.eqb_neq in E. apply Z.eqb_neq. lia.
  - assert (Ef : map fst (filter (at_pos p) ETR) = filter (fun u => pair_eqb (ct_pos u) p) (map fst ETR))
      by (rewrite filter_map_comm; reflexivity).
    rewrite Ef. apply Permutation_filter'. apply (lt_perm _ _ _ _ _ _ _ H).
Qed.

(** a track whose position no other track of the layer shares *)
Lemma singleton_group : forall st c shapes l m lay ETR t u, wf_cell st c -> wf_metal m -> m_raw m = Some lay ->
  layer_tracks st c shapes l m lay ETR -> In t (tracks_of st c m) ->
  same_track_group t (tracks_of st c m) = [u] ->
  u = t /\ exists e, In e ETR /\ fst e = t /\ pieces_at m (ct_pos t) (map norm shapes) = snd e.
Proof.
  intros st c shapes l m lay ETR t u Hwf Wm Hlay H Ht Hg.
  assert (Hu : u = t).
  { assert (Hin : In t (same_track_group t (tracks_of st c m))) by (apply filter_In; split; [exact Ht|apply pair_eqb_refl]).
    rewrite Hg in Hin. destruct Hin as [->|[]]. reflexivity. }
  split; [exact Hu|]. subst u.
  destruct (pieces_at_tracks _ _ _ _ _ _ _ (ct_pos t) Hwf Wm Hlay H) as [Hp Hperm].
  unfold same_track_group in Hg. rewrite Hg in Hperm.
  apply Permutation_sym, Permutation_length_1_inv in Hperm.
  destruct (filter (at_pos (ct_pos t)) ETR) as [|e [|e2 r]] eqn:Ef; simpl in Hperm; try discriminate.
  injection Hperm as Hfe. exists e. split; [|split; [exact Hfe|]].
  - assert (In e (filter (at_pos (ct_pos t)) ETR)) by (rewrite Ef; left; reflexivity). apply filter_In in H0. tauto.
  - rewrite Hp. simpl. apply app_nil_r.
Qed.

(** (c) PER-LAYER TILING, Prop level: on every track of the layer whose position no other track
    shares, the specification's tiling statement [track_tiled] holds *)
Theorem layer_track_tiled : forall st c shapes l m lay ETR t u, wf_cell st c -> wf_metal m -> m_raw m = Some lay ->
  layer_tracks st c shapes l m lay ETR -> In t (tracks_of st c m) ->
  same_track_group t (tracks_of st c m) = [u] ->
  track_tiled st c l m t (map norm shapes) /\ track_tiledb st c l m t (map norm shapes) = true.
Proof.
  intros st c shapes l m lay ETR t u Hwf Wm Hlay H Ht Hg.
  destruct (singleton_group _ _ _ _ _ _ _ _ _ Hwf Wm Hlay H Ht Hg) as [_ [e [He [Hfe Hp]]]].
  pose proof (lt_real _ _ _ _ _ _ _ H) as F. rewrite Forall_forall in F.
  destruct (track_real_tiles _ _ _ _ _ _ Hwf (lt_width _ _ _ _ _ _ _ _ Wm H He) (F _ He)) as [[nw [Hnw Hti]] _].
  rewrite Hfe in *. assert (HT : track_tiled st c l m t (map norm shapes)).
  { exists nw. split; [exact Hnw|]. rewrite Hp. exact Hti. }
  split; [exact HT|]. unfold track_tiledb. apply existsb_exists. exists nw. split; [exact Hnw|].
  apply tiles_set_setb. rewrite Hp. exact Hti.
Qed.

(** nothing else is drawn on the layer: every rectangle sits on one of the cell's tracks *)
Theorem layer_no_stray : forall st c shapes l m lay ETR, wf_cell st c -> wf_metal m -> m_raw m = Some lay ->
  layer_tracks st c shapes l m lay ETR ->
  forallb (fun s => negb (on_layer (m_raw m) s) ||
                    existsb (fun t => pair_eqb (sh_across m s) (fst (ct_pos t), fst (ct_pos t) + snd (ct_pos t))) (tracks_of st c m))
          (map norm shapes) = true.
Proof.
  intros st c shapes l m lay ETR Hwf Wm Hlay H. apply forallb_forall. intros s Hs.
  destruct (on_layer (m_raw m) s) eqn:Eon; [|reflexivity]. cbn [negb orb].
  assert (Hin : In s (onlay lay shapes)) by (unfold onlay; apply filter_In; split; [exact Hs|rewrite <- Hlay; exact Eon]).
  rewrite (lt_shapes _ _ _ _ _ _ _ H) in Hin. apply in_concat in Hin. destruct Hin as [sh [Hsh Hin]].
  apply in_map_iff in Hsh. destruct Hsh as [e [<- He]].
  pose proof (lt_real _ _ _ _ _ _ _ H) as F. rewrite Forall_forall in F.
  destruct (track_real_tiles _ _ _ _ _ _ Hwf (lt_width _ _ _ _ _ _ _ _ Wm H He) (F _ He)) as [_ Hall].
  rewrite Forall_forall in Hall. destruct (Hall _ Hin) as [_ [Hac _]].
  apply existsb_exists. exists (fst e). split.
  - eapply Permutation_in; [apply (lt_perm _ _ _ _ _ _ _ H)|]. apply in_map. exact He.
  - rewrite Hac. apply pair_eqb_refl.
Qed.

(** * Part R: nets on the segments of one signal track (segment level, no specification yet) *)
Definition nw_end (l : list seg) (x : Z) : Prop :=
  exists s, In s l /\ nonwire s = true /\ (s_start s = x \/ s_stop s = x).
(** every wire piece is flanked, on each side, by the track's end or by a cut / blockage *)
Definition flanked (span : Z) (l : list seg) : Prop :=
  forall g, In g l -> nonwire g = false ->
    (s_start g = 0 \/ exists n, In n l /\ nonwire n = true /\ s_stop n = s_start g) /\
    (s_stop g = span \/ exists n, In n l /\ nonwire n = true /\ s_start n = s_stop g).
Definition plainT (T : segtp) (l : list seg) : Prop := Forall (fun s => nonwire s = true \/ s_tp s = T) l.
Definition plain (l : list seg) : Prop := plainT (TWire None) l.
(** no two wire pieces are adjacent *)
Fixpoint altb (l : list seg) : bool :=
  match l with
  | s1 :: ((s2 :: _) as r) => (nonwire s1 || nonwire s2) && altb r
  | _ => true
  end.
Definition is_geo (o : op) : Prop := match o with ONet _ _ => False | _ => True end.

Lemma in_split_cases : forall A (x : A) pre a n tl post,
  In x (pre ++ a :: n :: tl ++ post) -> In x pre \/ x = a \/ x = n \/ In x tl \/ In x post.
Proof.
  intros A x pre a n tl post H. apply in_app_or in H. destruct H as [H|[H|[H|H]]]; auto.
  apply in_app_or in H. tauto.
Qed.

Lemma splits_flanked : forall span a b tp l l',
  nonwire (mkSeg tp a b) = true -> splits_at a b tp l l' -> flanked span l -> flanked span l'.
Proof.
  intros span a b tp l l' Hn [pre [s [post [El [Hw [Ha [Hb El']]]]]]] Hf.
  assert (Hs : nonwire s = false) by (unfold nonwire; destruct (s_tp s); simpl in Hw; try contradiction; reflexivity).
  assert (Hin_s : In s l) by (subst l; apply in_or_app; right; left; reflexivity).
  set (A := mkSeg (s_tp s) (s_start s) a) in *. set (Nn := mkSeg tp a b) in *.
  set (tl := if s_stop s =? b then [] else [mkSeg (s_tp s) b (s_stop s)]) in *.
  assert (HNn : In Nn l') by (subst l'; apply in_or_app; right; right; left; reflexivity).
  assert (Hkeep : forall n, In n l -> nonwire n = true -> In n l').
  { intros n Hin Hnn. subst l l'. apply in_app_or in Hin. destruct Hin as [Hin|[Hin|Hin]].
    - apply in_or_app; left; assumption.
    - subst n. congruence.
    - apply in_or_app. right. right. right. apply in_or_app. right. assumption. }
  assert (Hold : forall g, In g l -> nonwire g = false ->
            (s_start g = 0 \/ exists n, In n l' /\ nonwire n = true /\ s_stop n = s_start g) /\
            (s_stop g = span \/ exists n, In n l' /\ nonwire n = true /\ s_start n = s_stop g)).
  { intros g Hg Hgw. destruct (Hf g Hg Hgw) as [HL HR]. split.
    - destruct HL as [L|[n [N1 [N2 N3]]]]; [left; exact L|right; exists n; auto].
    - destruct HR as [R|[n [N1 [N2 N3]]]]; [left; exact R|right; exists n; auto]. }
  intros g Hg Hgw. rewrite El' in Hg. apply in_split_cases in Hg. destruct Hg as [Hg|[Hg|[Hg|[Hg|Hg]]]].
  - apply Hold; [subst l; apply in_or_app; left; assumption|assumption].
  - subst g. destruct (Hold s Hin_s Hs) as [L _]. split.
    + exact L.
    + right. exists Nn. auto.
  - subst g. congruence.
  - unfold tl in Hg. destruct (s_stop s =? b); [destruct Hg|]. destruct Hg as [<-|[]].
    destruct (Hold s Hin_s Hs) as [_ R]. split.
    + right. exists Nn. auto.
    + exact R.
  - apply Hold; [subst l; apply in_or_app; right; right; assumption|assumption].
Qed.

Lemma splits_plain : forall T a b tp l l',
  nonwire (mkSeg tp a b) = true -> splits_at a b tp l l' -> plainT T l -> plainT T l'.
Proof.
  intros T a b tp l l' Hn [pre [s [post [El [Hw [Ha [Hb El']]]]]]] Hp. unfold plainT in *. subst l l'.
  apply Forall_app in Hp. destruct Hp as [P1 P2]. inversion P2 as [|? ? Ps P3]; subst.
  assert (Hs' : forall x y, nonwire (mkSeg (s_tp s) x y) = true \/ s_tp (mkSeg (s_tp s) x y) = T).
  { intros x y. destruct Ps as [Ps|Ps]; [left; exact Ps|right; exact Ps]. }
  apply Forall_app. split; [exact P1|]. constructor; [apply Hs'|]. constructor; [left; exact Hn|].
  apply Forall_app. split; [|exact P3]. destruct (s_stop s =? b); constructor; [apply Hs'|constructor].
Qed.

Lemma altb_cons2 : forall s1 s2 r, altb (s1 :: s2 :: r) = (nonwire s1 || nonwire s2) && altb (s2 :: r).
Proof. reflexivity. Qed.
Lemma altb_one : forall s, altb [s] = true. Proof. reflexivity. Qed.

Lemma altb_split : forall pre s post A Nn tl,
  altb (pre ++ s :: post) = true -> nonwire s = false -> nonwire A = false -> nonwire Nn = true ->
  (tl = [] \/ exists B, tl = [B] /\ nonwire B = false) ->
  altb (pre ++ A :: Nn :: tl ++ post) = true.
Proof.
  induction pre as [|x pre IH]; intros s post A Nn tl H Hs HA HN Htl.
  - simpl app in *.
    destruct Htl as [->|[B [-> HB]]]; simpl app; destruct post as [|p r];
      rewrite ?altb_cons2, ?altb_one in *; rewrite ?HA, ?HN, ?HB; cbn [orb andb]; try reflexivity.
    + apply andb_prop in H. tauto.
    + apply andb_prop in H. destruct H as [H1 H2]. rewrite Hs in H1. cbn [orb] in H1. rewrite H1, H2. reflexivity.
  - simpl app in *. destruct pre as [|y pre'].
    + simpl app in *. rewrite altb_cons2 in H. apply andb_prop in H. destruct H as [H1 H2].
      specialize (IH s post A Nn tl H2 Hs HA HN Htl). simpl app in IH.
      rewrite altb_cons2, IH, HA. rewrite Hs in H1. rewrite H1. reflexivity.
    + simpl app in *. rewrite altb_cons2 in H. apply andb_prop in H. destruct H as [H1 H2].
      specialize (IH s post A Nn tl H2 Hs HA HN Htl). simpl app in IH.
      rewrite altb_cons2, IH, H1. reflexivity.
Qed.

Lemma splits_altb : forall a b tp l l',
  nonwire (mkSeg tp a b) = true -> splits_at a b tp l l' -> altb l = true -> altb l' = true.
Proof.
  intros a b tp l l' Hn [pre [s [post [El [Hw [Ha [Hb El']]]]]]] H. subst l l'.
  assert (Hs : forall x y, nonwire (mkSeg (s_tp s) x y) = false)
    by (intros; unfold nonwire; simpl; destruct (s_tp s); simpl in Hw; try contradiction; reflexivity).
  apply altb_split with (s := s); auto.
  - unfold nonwire. destruct (s_tp s); simpl in Hw; try contradiction; reflexivity.
  - destruct (s_stop s =? b); [left; reflexivity|right; eexists; split; [reflexivity|apply Hs]].
Qed.

Theorem geo_phase : forall T span ops l0 l',
  Tiled span l0 -> flanked span l0 -> plainT T l0 -> altb l0 = true -> Forall (op_ok span) ops -> Forall is_geo ops ->
  foldM apply_op ops l0 = Ok l' -> Tiled span l' /\ flanked span l' /\ plainT T l' /\ altb l' = true.
Proof.
  intros T span ops. induction ops as [|o ops IH]; intros l0 l' HT HF HP HA Hok Hg H; simpl in H.
  - inversion H; subst. auto.
  - inversion Hok as [|? ? Ho Hok']; subst. inversion Hg as [|? ? Hgo Hg']; subst.
    destruct (apply_op l0 o) as [l1| |] eqn:E; cbn [bind] in H; try discriminate.
    assert (Hstep : Tiled span l1 /\ flanked span l1 /\ plainT T l1 /\ altb l1 = true).
    { destruct o as [a b src|a b src|x n]; simpl in E, Ho, Hgo; try contradiction.
      - destruct Ho as [A [B C]]. destruct (cut_or_block_preserves _ _ _ _ _ _ HT A B C E) as [T0 S].
        split; [exact T0|]. split; [eapply splits_flanked; eauto; reflexivity|]. split; [eapply splits_plain; eauto; reflexivity|eapply splits_altb; eauto; reflexivity].
      - destruct Ho as [A [B C]]. destruct (cut_or_block_preserves _ _ _ _ _ _ HT A B C E) as [T0 S].
        split; [exact T0|]. split; [eapply splits_flanked; eauto; reflexivity|]. split; [eapply splits_plain; eauto; reflexivity|eapply splits_altb; eauto; reflexivity]. }
    destruct Hstep as [T1 [F1 [P1 A1]]]. eapply IH; eauto.
Qed.

Lemma fresh_flanked : forall span d, flanked span (t_segs (fresh_track span d)).
Proof. intros span d g Hg _. unfold fresh_track in Hg; cbn [t_segs] in Hg. destruct Hg as [<-|[]]. simpl. auto. Qed.
Lemma fresh_plain : forall span d, td_tt d = Signal -> plain (t_segs (fresh_track span d)).
Proof. intros span d H. unfold fresh_track; cbn [t_segs]. rewrite H. constructor; [right; reflexivity|constructor]. Qed.
Lemma fresh_railed : forall span d k, td_tt d = Rail k -> plainT (TRail k) (t_segs (fresh_track span d)).
Proof. intros span d k H. unfold fresh_track; cbn [t_segs]. rewrite H. constructor; [right; reflexivity|constructor]. Qed.
Lemma fresh_altb : forall span d, altb (t_segs (fresh_track span d)) = true.
Proof. reflexivity. Qed.

(** ** the wire pieces of a track are the gaps between its cuts / blockages *)
Lemma chain_head : forall lo s l hi, chain lo (s :: l) hi -> lo = s_start s /\ s_start s <= s_stop s /\ chain (s_stop s) l hi.
Proof. intros lo s l hi H. inversion H; subst. auto. Qed.
Lemma chain_nil_eq : forall lo hi, chain lo [] hi -> lo = hi.
Proof. intros lo hi H. inversion H; reflexivity. Qed.

Lemma gaps_chain : forall l lo hi, chain lo l hi -> altb l = true ->
  gaps (map bounds (filter nonwire l)) lo hi =
  Some (filter (fun p => fst p <? snd p) (map bounds (filter is_wire l))).
Proof.
  assert (G : forall n l, (length l <= n)%nat -> forall lo hi, chain lo l hi -> altb l = true ->
    gaps (map bounds (filter nonwire l)) lo hi = Some (filter (fun p => fst p <? snd p) (map bounds (filter is_wire l)))).
  { induction n as [|n IH]; intros l Hl lo hi Hc Ha.
    - destruct l; [|simpl in Hl; lia]. apply chain_nil_eq in Hc. subst hi. simpl. rewrite Z.leb_refl, Z.ltb_irrefl. reflexivity.
    - destruct l as [|s1 l]; [apply chain_nil_eq in Hc; subst hi; simpl; rewrite Z.leb_refl, Z.ltb_irrefl; reflexivity|].
      destruct (chain_head _ _ _ _ Hc) as [-> [Hle1 Hc1]]. unfold is_wire. cbn [filter].
      destruct (nonwire s1) eqn:E1; cbn [negb].
      + (* a cut / blockage first *)
        cbn [map gaps]. unfold bounds at 1. rewrite Z.leb_refl. cbn [andb].
        assert (E : (s_start s1 <=? s_stop s1) = true) by (apply Z.leb_le; exact Hle1). rewrite E, Z.ltb_irrefl.
        rewrite (IH l ltac:(simpl in Hl; lia) _ _ Hc1).
        * reflexivity.
        * destruct l; [reflexivity|]. rewrite altb_cons2 in Ha. apply andb_prop in Ha. tauto.
      + (* a wire first: then the end, or a cut / blockage *)
        destruct l as [|s2 l].
        * apply chain_nil_eq in Hc1. subst hi. cbn [filter map gaps]. unfold bounds. cbn [fst snd].
          assert (E : (s_start s1 <=? s_stop s1) = true) by (apply Z.leb_le; exact Hle1). rewrite E.
          destruct (s_start s1 <? s_stop s1); reflexivity.
        * rewrite altb_cons2 in Ha. apply andb_prop in Ha. destruct Ha as [Ha1 Ha2]. rewrite E1 in Ha1. cbn [orb] in Ha1.
          destruct (chain_head _ _ _ _ Hc1) as [Est [Hle2 Hc2]]. cbn [filter]. rewrite Ha1. cbn [negb map gaps].
          unfold bounds at 1.
          assert (Ea : (s_start s1 <=? s_start s2) = true) by (apply Z.leb_le; lia).
          assert (Eb : (s_start s2 <=? s_stop s2) = true) by (apply Z.leb_le; lia).
          rewrite Ea, Eb. cbn [andb].
          rewrite (IH l ltac:(simpl in Hl; lia) _ _ Hc2).
          -- cbn [option_map filter]. assert (Hb1 : bounds s1 = (s_start s1, s_stop s1)) by reflexivity. rewrite !Hb1. cbn [fst snd].
             rewrite <- Est. unfold is_wire. destruct (s_start s1 <? s_stop s1); reflexivity.
          -- destruct l; [reflexivity|]. rewrite altb_cons2 in Ha2. apply andb_prop in Ha2. tauto. }
  intros l lo hi. apply (G (length l)). lia.
Qed.

(** ** the covering segment of a point that is not the end of a cut / blockage is unique *)
Lemma chain_app_inv : forall l1 l2 lo hi, chain lo (l1 ++ l2) hi -> exists mid, chain lo l1 mid /\ chain mid l2 hi.
Proof.
  induction l1 as [|s l1 IH]; intros l2 lo hi H; simpl in H.
  - exists lo. split; [constructor|exact H].
  - inversion H as [|? ? ? Hle Hc]; subst. destruct (IH _ _ _ Hc) as [mid [A B]]. exists mid. split; [constructor; assumption|exact B].
Qed.

Lemma cover_unique : forall span l pre g post x,
  0 < span -> chain 0 l span -> flanked span l -> ~ nw_end l x -> l = pre ++ g :: post -> covers g x ->
  (forall p, In p pre -> ~ covers p x) /\ (forall p, In p post -> ~ covers p x).
Proof.
  intros span l pre g post x Hsp Hc Hf Hne El Hg.
  assert (Hgl : In g l) by (subst l; apply in_or_app; right; left; reflexivity).
  pose proof Hc as Hc0. rewrite El in Hc. destruct (chain_app_inv _ _ _ _ Hc) as [mid [C1 C2]].
  inversion C2 as [|s0 l00 hi0 Hle C3]; subst s0 l00 hi0. subst mid.
  assert (Hnot : forall z, In z l -> (s_start z = x \/ s_stop z = x) -> nonwire z = false).
  { intros z Hz Hx. destruct (nonwire z) eqn:E; [|reflexivity]. exfalso. apply Hne. exists z. auto. }
  assert (Hwit : forall n, In n l -> nonwire n = true -> s_start n <> x /\ s_stop n <> x).
  { intros n Hn Hnn. split; intro; apply Hne; exists n; auto. }
  split.
  - intros p Hp [P1 P2]. destruct (chain_In _ _ _ _ C1 Hp) as [_ [_ P3]]. destruct Hg as [G1 G2].
    assert (E1 : s_stop p = x) by lia. assert (E2 : s_start g = x) by lia.
    assert (Hpl : In p l) by (rewrite El; apply in_or_app; left; assumption).
    pose proof (Hnot p Hpl (or_intror E1)) as Wp. pose proof (Hnot g Hgl (or_introl E2)) as Wg.
    destruct (Hf g Hgl Wg) as [[L|[n [N1 [N2 N3]]]] _].
    + destruct (Hf p Hpl Wp) as [_ [R|[n [N1 [N2 N3]]]]]; [lia|]. destruct (Hwit n N1 N2). lia.
    + destruct (Hwit n N1 N2). lia.
  - intros p Hp [P1 P2]. destruct (chain_In _ _ _ _ C3 Hp) as [P3 _]. destruct Hg as [G1 G2].
    assert (E1 : s_start p = x) by lia. assert (E2 : s_stop g = x) by lia.
    assert (Hpl : In p l) by (rewrite El; apply in_or_app; right; right; assumption).
    pose proof (Hnot p Hpl (or_introl E1)) as Wp. pose proof (Hnot g Hgl (or_intror E2)) as Wg.
    destruct (Hf g Hgl Wg) as [_ [R|[n [N1 [N2 N3]]]]].
    + destruct (Hf p Hpl Wp) as [[L|[n [N1 [N2 N3]]]] _]; [lia|]. destruct (Hwit n N1 N2). lia.
    + destruct (Hwit n N1 N2). lia.
Qed.

(** a wire and a cut / blockage of one track do not overlap *)
Lemma chain_disjoint : forall lo l hi g z, chain lo l hi -> In g l -> In z l -> nonwire g = false -> nonwire z = true ->
  s_stop g <= s_start z \/ s_stop z <= s_start g.
Proof.
  intros lo l hi g z H. induction H as [x|s l hi Hle Hc IH]; intros Hg Hz Wg Wz; [destruct Hg|].
  destruct Hg as [->|Hg], Hz as [->|Hz].
  - congruence.
  - left. destruct (chain_In _ _ _ _ Hc Hz). lia.
  - right. destruct (chain_In _ _ _ _ Hc Hg). lia.
  - apply IH; assumption.
Qed.

(** ** the net phase *)
Lemma net_set_flanked : forall span at_ net l l', net_set_at at_ net l l' -> flanked span l -> flanked span l'.
Proof.
  intros span at_ net l l' [pre [s [post [El [_ [_ [[src [_ ->]]|[n0 [Htp ->]]]]]]]]] Hf; [exact Hf|].
  assert (Hs : nonwire s = false) by (unfold nonwire; rewrite Htp; reflexivity).
  set (s' := mkSeg (TWire (Some net)) (s_start s) (s_stop s)).
  assert (Hkeep : forall n, In n l -> nonwire n = true -> In n (pre ++ s' :: post)).
  { intros n Hin Hn. subst l. apply in_app_or in Hin. destruct Hin as [Hin|[Hin|Hin]].
    - apply in_or_app; left; assumption.
    - subst n; congruence.
    - apply in_or_app; right; right; assumption. }
  assert (Hold : forall g, In g l -> nonwire g = false ->
            (s_start g = 0 \/ exists n, In n (pre ++ s' :: post) /\ nonwire n = true /\ s_stop n = s_start g) /\
            (s_stop g = span \/ exists n, In n (pre ++ s' :: post) /\ nonwire n = true /\ s_start n = s_stop g)).
  { intros g Hg Hgw. destruct (Hf g Hg Hgw) as [HL HR]. split.
    - destruct HL as [L|[n [N1 [N2 N3]]]]; [left; exact L|right; exists n; auto].
    - destruct HR as [R|[n [N1 [N2 N3]]]]; [left; exact R|right; exists n; auto]. }
  intros g Hg Hgw. apply in_app_or in Hg. destruct Hg as [Hg|[Hg|Hg]].
  - apply Hold; [subst l; apply in_or_app; left; assumption|assumption].
  - subst g. apply (Hold s); [subst l; apply in_or_app; right; left; reflexivity|assumption].
  - apply Hold; [subst l; apply in_or_app; right; right; assumption|assumption].
Qed.

Definition hit (done : list (Z * Z)) (l : list seg) : Prop :=
  forall at_ n g, In (at_, n) done -> In g l -> covers g at_ -> nonwire g = false -> exists n', s_tp g = TWire (Some n').
Definition wires_only (l : list seg) : Prop := forall g, In g l -> nonwire g = false -> exists o, s_tp g = TWire o.

Lemma nw_end_filter : forall l l' x, filter nonwire l' = filter nonwire l -> nw_end l' x -> nw_end l x.
Proof.
  intros l l' x E [s [Hs [Hn He]]]. exists s. split; [|auto].
  assert (In s (filter nonwire l')) by (apply filter_In; auto). rewrite E in H. apply filter_In in H. tauto.
Qed.

Lemma net_phase_hit : forall span nets done l0 l l',
  0 < span -> (forall at_ n, In (at_, n) nets -> ~ nw_end l0 at_) ->
  chain 0 l span -> flanked span l -> filter nonwire l = filter nonwire l0 -> wires_only l -> hit done l ->
  foldM (fun l an => set_net (fst an) (snd an) l) nets l = Ok l' ->
  hit (done ++ nets) l' /\ wires_only l'.
Proof.
  intros span nets. induction nets as [|[at_ net] nets IH]; intros done l0 l l' Hsp Hne Hc Hf Hnw Hw Hh H; simpl in H.
  - inversion H; subst. rewrite app_nil_r. auto.
  - destruct (set_net at_ net l) as [l1| |] eqn:E; cbn [bind] in H; try discriminate.
    destruct (set_net_ok _ _ _ _ _ _ Hc E) as [Hc1 Hset].
    pose proof (net_set_flanked span _ _ _ _ Hset Hf) as Hf1.
    pose proof (filter_nonwire_net _ _ _ _ Hset) as Hnw1.
    assert (Hne_l : ~ nw_end l at_).
    { intro Hx. apply (Hne at_ net); [left; reflexivity|]. eapply nw_end_filter; eauto. }
    destruct Hset as [pre [s [post [El [Hcv [_ Hcase]]]]]].
    destruct (cover_unique span l pre s post at_ Hsp Hc Hf Hne_l El Hcv) as [U1 U2].
    assert (Hh1 : hit (done ++ [(at_, net)]) l1 /\ wires_only l1).
    { destruct Hcase as [[src [Htp ->]]|[n0 [Htp ->]]].
      - split; [|exact Hw]. intros a n g Hin Hg Hcg Hwg. apply in_app_or in Hin. destruct Hin as [Hin|[Hin|[]]]; [eapply Hh; eauto|].
        inversion Hin; subst a n. exfalso. rewrite El in Hg. apply in_app_or in Hg. destruct Hg as [Hg|[Hg|Hg]].
        + apply (U1 g Hg Hcg).
        + subst g. unfold nonwire in Hwg. rewrite Htp in Hwg. discriminate.
        + apply (U2 g Hg Hcg).
      - split.
        + intros a n g Hin Hg Hcg Hwg. apply in_app_or in Hg. destruct Hg as [Hg|[Hg|Hg]].
          * apply in_app_or in Hin. destruct Hin as [Hin|[Hin|[]]].
            -- eapply Hh; eauto. rewrite El. apply in_or_app; left; assumption.
            -- inversion Hin; subst a n. exfalso. apply (U1 g Hg Hcg).
          * subst g. eexists; reflexivity.
          * apply in_app_or in Hin. destruct Hin as [Hin|[Hin|[]]].
            -- eapply Hh; eauto. rewrite El. apply in_or_app; right; right; assumption.
            -- inversion Hin; subst a n. exfalso. apply (U2 g Hg Hcg).
        + intros g Hg Hwg. apply in_app_or in Hg. destruct Hg as [Hg|[Hg|Hg]].
          * apply Hw; [rewrite El; apply in_or_app; left; assumption|assumption].
          * subst g. eexists; reflexivity.
          * apply Hw; [rewrite El; apply in_or_app; right; right; assumption|assumption]. }
    destruct Hh1 as [Hh1 Hw1].
    destruct (IH (done ++ [(at_, net)]) l0 l1 l' Hsp) as [A B]; auto.
    + intros a n Hin. apply (Hne a n). right; assumption.
    + congruence.
    + rewrite <- app_assoc in A. auto.
Qed.

(** THE NET PHASE, exactly: after the exporter's set_net calls on a track whose wires carried no net,
    (1) a wire carrying net n covers the crossing of an assignment of n, and
    (2) every wire covering the crossing of an assignment of n carries n --
    provided no crossing sits on the end of a cut / blockage and crossings of different nets are
    separated by a cut / blockage *)
Theorem net_phase_exact : forall span nets l0 l',
  0 < span -> chain 0 l0 span -> flanked span l0 -> plain l0 ->
  (forall at_ n, In (at_, n) nets -> ~ nw_end l0 at_) ->
  (forall a n a' n', In (a, n) nets -> In (a', n') nets -> n <> n' -> a <= a' ->
     exists z, In z l0 /\ nonwire z = true /\ a < s_start z /\ s_start z < s_stop z /\ s_stop z <= a') ->
  foldM (fun l an => set_net (fst an) (snd an) l) nets l0 = Ok l' ->
  chain 0 l' span /\ map bounds l' = map bounds l0 /\ filter nonwire l' = filter nonwire l0 /\ flanked span l' /\
  (forall g n, In g l' -> s_tp g = TWire (Some n) -> exists at_, In (at_, n) nets /\ covers g at_) /\
  (forall at_ n g, In (at_, n) nets -> In g l' -> covers g at_ -> nonwire g = false -> s_tp g = TWire (Some n)) /\
  wires_only l'.
Proof.
  intros span nets l0 l' Hsp Hc Hf Hp Hne Hsep H.
  assert (Hnc : netted_covered [] l0).
  { intros s n Hs Htp. unfold plain, plainT in Hp. rewrite Forall_forall in Hp. destruct (Hp _ Hs) as [Hn|Hn].
    - unfold nonwire in Hn. rewrite Htp in Hn. discriminate.
    - congruence. }
  destruct (nets_phase _ _ _ _ _ _ Hc Hnc H) as [C1 [C2 [C3 C4]]]. simpl in C4.
  assert (Hw0 : wires_only l0).
  { intros g Hg Hw. unfold plain, plainT in Hp. rewrite Forall_forall in Hp. destruct (Hp _ Hg) as [Hn|Hn]; [congruence|eauto]. }
  assert (Hh0 : hit [] l0) by (intros a n g []).
  destruct (net_phase_hit span nets [] l0 l0 l' Hsp Hne Hc Hf eq_refl Hw0 Hh0 H) as [Hh Hw]. simpl in Hh.
  assert (Hfl : flanked span l').
  { clear - H Hc Hf. revert l0 Hc Hf H. induction nets as [|[a n] nets IH]; intros l0 Hc Hf H; simpl in H.
    - inversion H; subst; assumption.
    - destruct (set_net a n l0) as [l1| |] eqn:E; cbn [bind] in H; try discriminate.
      destruct (set_net_ok _ _ _ _ _ _ Hc E) as [Hc1 Hset]. eapply IH; [exact Hc1| |exact H]. eapply net_set_flanked; eauto. }
  repeat (split; [assumption|]). split; [|exact Hw].
  intros a n g Hin Hg Hcg Hwg.
  destruct (Hh a n g Hin Hg Hcg Hwg) as [n' Htp]. destruct (C4 g n' Hg Htp) as [a' [Hin' Hcg']].
  destruct (Z.eq_dec n n') as [->|Hnn]; [exact Htp|]. exfalso.
  assert (Hz : forall x y nx ny, In (x, nx) nets -> In (y, ny) nets -> nx <> ny -> x <= y -> covers g x -> covers g y -> False).
  { intros x y nx ny Hx Hy Hd Hxy [X1 X2] [Y1 Y2]. destruct (Hsep x nx y ny Hx Hy Hd Hxy) as [z [Z1 [Z2 [Z3 [Z4 Z5]]]]].
    assert (Z1' : In z l').
    { assert (In z (filter nonwire l0)) by (apply filter_In; auto). rewrite <- C3 in H0. apply filter_In in H0. tauto. }
    destruct (chain_disjoint _ _ _ g z C1 Hg Z1' Hwg Z2); lia. }
  destruct (Z.le_ge_cases a a').
  - eapply (Hz a a' n n'); eauto.
  - eapply (Hz a' a n' n); eauto; lia.
Qed.

(** * Part S: the two phases of a drawn track: geometry (blockages, cuts), then nets *)
Definition wire_tp (tt : ttype) : segtp := match tt with Rail k => TRail k | _ => TWire None end.

Lemma fresh_plainT : forall span d, plainT (wire_tp (td_tt d)) (t_segs (fresh_track span d)).
Proof. intros span d. unfold fresh_track, wire_tp; cbn [t_segs]. constructor; [right; reflexivity|constructor]. Qed.

Lemma foldM_nets : forall nops l, Forall is_ONet nops ->
  foldM apply_op nops l = foldM (fun l an => set_net (fst an) (snd an) l) (ats_of nops) l.
Proof.
  intros nops l H. revert l. induction H as [|o nops Ho H IH]; intros l; [reflexivity|].
  destruct o as [| |a n]; simpl in Ho; try contradiction. simpl. destruct (set_net a n l); simpl; auto.
Qed.

Lemma is_geo_block : forall ops, Forall is_OBlock ops -> Forall is_geo ops.
Proof. intros ops H. revert H. apply Forall_impl. intros o. destruct o; simpl; tauto. Qed.
Lemma is_geo_cut : forall ops, Forall is_OCut ops -> Forall is_geo ops.
Proof. intros ops H. revert H. apply Forall_impl. intros o. destruct o; simpl; tauto. Qed.

Record phases (st : stack) (c : cell) (l : Z) (m : metal) (lay : Z) (e : ctrack * list shape)
       (d : tdata) (bops cops nops : list op) (l0 segs : list seg) : Prop := {
  ph_kp : td_kp d = (kind_of (fst e), ct_pos (fst e));
  ph_blocks : map bounds (requested bops) = blocks st c l m (ct_q (fst e));
  ph_bops : Forall is_OBlock bops; ph_cops : Forall is_OCut cops; ph_nops : Forall is_ONet nops;
  ph_ok : Forall (op_ok (along_len st c m)) (bops ++ cops);
  ph_kind : match ct_rail (fst e) with
            | Some _ => cops = [] /\ nops = []
            | None => In (map bounds (requested cops)) (choices (cut_candidates st c l m (ct_k (fst e)))) /\
                      ats_rel st c l (ct_k (fst e)) (ats_of nops)
            end;
  ph_geo : foldM apply_op (bops ++ cops) (t_segs (fresh_track (along_len st c m) d)) = Ok l0;
  ph_net : foldM (fun l an => set_net (fst an) (snd an) l) (ats_of nops) l0 = Ok segs;
  ph_shapes : snd e = map (rect_of (m_horiz m) lay d) (filter is_wire segs);
  ph_tiled : Tiled (along_len st c m) l0;
  ph_flanked : flanked (along_len st c m) l0;
  ph_plain : plainT (wire_tp (td_tt d)) l0;
  ph_alt : altb l0 = true;
  ph_nonwire : Permutation (filter nonwire l0) (requested (bops ++ cops)) }.

Lemma track_real_phases : forall st c l m lay e, wf_cell st c -> track_real st c l m lay e ->
  exists d bops cops nops l0 segs, phases st c l m lay e d bops cops nops l0 segs.
Proof.
  intros st c l m lay e Hwf [d [ops [segs [Hd [[bops [cops [nops [-> [Hb [Hbl [Hc [Hn [Hok Hk]]]]]]]]] [Hf Hs]]]]]].
  rewrite app_assoc, foldM_app in Hf.
  destruct (foldM apply_op (bops ++ cops) _) as [l0| |] eqn:Hgeo; cbn [bind] in Hf; try discriminate.
  rewrite (foldM_nets _ _ Hn) in Hf.
  pose proof (along_len_pos st c m Hwf) as HL.
  assert (Hok' : Forall (op_ok (along_len st c m)) (bops ++ cops)).
  { rewrite app_assoc in Hok. apply Forall_app in Hok. tauto. }
  assert (Hgeoops : Forall is_geo (bops ++ cops)) by (apply Forall_app; split; [apply is_geo_block|apply is_geo_cut]; assumption).
  assert (HT : Tiled (along_len st c m) (t_segs (fresh_track (along_len st c m) d))) by (apply fresh_tiled; lia).
  destruct (geo_phase (wire_tp (td_tt d)) _ _ _ _ HT (fresh_flanked _ d) (fresh_plainT _ d) (fresh_altb _ d) Hok' Hgeoops Hgeo)
    as [T1 [F1 [P1 A1]]].
  destruct (track_ops_tiled _ _ _ _ HT Hok' Hgeo) as [_ Pm]. rewrite fresh_nonwire in Pm. simpl in Pm.
  exists d, bops, cops, nops, l0, segs. constructor; auto.
Qed.

(** ** rails *)
Lemma plainT_net_fold : forall T nets l l', plainT T l ->
  foldM (fun l an => set_net (fst an) (snd an) l) nets l = Ok l' -> nets = [] -> l' = l.
Proof. intros T nets l l' _ H ->. simpl in H. inversion H; reflexivity. Qed.

Theorem rail_real : forall st c l m lay e k, wf_cell st c -> track_real st c l m lay e -> ct_rail (fst e) = Some k ->
  Forall (fun s => sh_net s = Some (rail_name k)) (snd e) /\
  gaps (psort (blocks st c l m (ct_q (fst e)))) 0 (along_len st c m)
    = Some (filter (fun p => fst p <? snd p) (map (sh_along m) (snd e))) /\
  Forall (fun p => fst p < snd p \/ fst p = 0 \/
                   exists b, In b (blocks st c l m (ct_q (fst e))) /\ snd b = fst p) (map (sh_along m) (snd e)).
Proof.
  intros st c l m lay e k Hwf Hr Hk.
  destruct (track_real_phases _ _ _ _ _ _ Hwf Hr) as [d [bops [cops [nops [l0 [segs H]]]]]].
  pose proof (ph_kind _ _ _ _ _ _ _ _ _ _ _ _ H) as Hkind. rewrite Hk in Hkind. destruct Hkind as [-> ->].
  pose proof (ph_net _ _ _ _ _ _ _ _ _ _ _ _ H) as Hnet. simpl in Hnet. inversion Hnet; subst segs; clear Hnet.
  pose proof (ph_kp _ _ _ _ _ _ _ _ _ _ _ _ H) as Hkp. unfold td_kp, kind_of in Hkp. rewrite Hk in Hkp. inversion Hkp as [[Htt Hpos]].
  pose proof (ph_plain _ _ _ _ _ _ _ _ _ _ _ _ H) as Hpl. rewrite Htt in Hpl. cbn [wire_tp] in Hpl.
  pose proof (ph_nonwire _ _ _ _ _ _ _ _ _ _ _ _ H) as Hnw. rewrite app_nil_r in Hnw.
  pose proof (ph_tiled _ _ _ _ _ _ _ _ _ _ _ _ H) as [_ Hc].
  pose proof (ph_shapes _ _ _ _ _ _ _ _ _ _ _ _ H) as Hs.
  assert (Hbounds : map (sh_along m) (snd e) = map bounds (filter is_wire l0)).
  { rewrite Hs, map_map. apply map_ext. intros a. apply sh_along_rect. }
  split; [|split].
  - rewrite Hs. apply Forall_forall. intros s Hin. apply in_map_iff in Hin. destruct Hin as [g [<- Hg]].
    apply filter_In in Hg. destruct Hg as [Hg Hw]. rewrite sh_net_rect. unfold plainT in Hpl. rewrite Forall_forall in Hpl.
    destruct (Hpl _ Hg) as [Hn|Hn]; [unfold is_wire in Hw; rewrite Hn in Hw; discriminate|].
    unfold seg_net. rewrite Hn. destruct k; reflexivity.
  - rewrite Hbounds, <- (gaps_chain _ _ _ Hc (ph_alt _ _ _ _ _ _ _ _ _ _ _ _ H)). f_equal.
    apply psort_unique.
    + pose proof (tiles_sorted _ _ _ (chain_tiles _ _ _ Hc)) as Hsort. clear - Hsort.
      induction l0 as [|s l0 IH]; simpl; [constructor|]. simpl in Hsort. inversion Hsort as [|? ? S1 F1]; subst.
      destruct (nonwire s); [|apply IH; assumption]. simpl. constructor; [apply IH; assumption|].
      rewrite Forall_forall in *. intros x Hx. apply F1. apply in_map_iff in Hx. destruct Hx as [z [<- Hz]].
      apply in_map. apply filter_In in Hz. tauto.
    + rewrite <- (ph_blocks _ _ _ _ _ _ _ _ _ _ _ _ H). apply Permutation_map. exact Hnw.
  - rewrite Hbounds. apply Forall_forall. intros p Hp. apply in_map_iff in Hp. destruct Hp as [g [<- Hg]].
    apply filter_In in Hg. destruct Hg as [Hg Hw]. unfold is_wire in Hw. apply negb_true_iff in Hw.
    destruct (ph_flanked _ _ _ _ _ _ _ _ _ _ _ _ H g Hg Hw) as [[L|[n [N1 [N2 N3]]]] _]; unfold bounds; cbn [fst snd].
    + right. left. exact L.
    + right. right. exists (bounds n). split; [|unfold bounds; cbn [snd]; exact N3].
      rewrite <- (ph_blocks _ _ _ _ _ _ _ _ _ _ _ _ H).
      assert (Hin : In n (filter nonwire l0)) by (apply filter_In; auto).
      apply (Permutation_in _ Hnw) in Hin. apply in_map. exact Hin.
Qed.

(** * Part T: nets of a signal track in the specification's terms *)
(** The exporter rounds the centre of a track of odd width DOWN (`center`).  When the true centre
    c2/2 is a half-integer the rounded point (c2-1)/2 must not sit on the end of a cut or blocked
    span of the track, nor on the far outline edge: clause [crossing_clearb] of [assign_wfb]
    (Tetris/CompileCheck.v).  [half_clearb] collects it over the assignments of a cell; it follows
    from well-formedness ([wf_half_clear]). *)
Definition half_clearb (st : stack) (c : cell) : bool := forallb (crossing_clearb st c) (c_assigns c).

Lemma wf_half_clear : forall st c, wf_cell st c -> half_clearb st c = true.
Proof.
  intros st c Hwf. unfold half_clearb. apply forallb_forall. intros a Ha.
  pose proof (wfc_assigns _ _ Hwf) as F. rewrite Forall_forall in F. apply assign_wfb_clear. apply F. exact Ha.
Qed.

Lemma choices_Forall2 : forall A (ls : list (list A)) ch, In ch (choices ls) -> Forall2 (fun p cands => In p cands) ch ls.
Proof.
  intros A ls. induction ls as [|l ls IH]; intros ch H; simpl in H.
  - destruct H as [<-|[]]. constructor.
  - apply in_flat_map in H. destruct H as [x [Hx H]]. apply in_map_iff in H. destruct H as [ch' [<- Hch]].
    constructor; [exact Hx|apply IH; exact Hch].
Qed.

(** what well-formedness says about the assignments of one track *)
Lemma asg_track_facts : forall st c l m k n c2, wf_cell st c -> half_clearb st c = true -> metal_of st l = Some m ->
  In (n, c2) (assigns_on st c l k) ->
  existsb (Z.eqb c2) (boundaries2 st c l m k) = false /\ separatedb st c l m k = true /\ clear1 st c l m k c2 = true.
Proof.
  intros st c l m k n c2 Hwf Hcl Hm Hin. unfold assigns_on in Hin. apply in_flat_map in Hin. destruct Hin as [a [Ha Hin]].
  pose proof (wfc_assigns _ _ Hwf) as F. rewrite Forall_forall in F. specialize (F _ Ha).
  unfold half_clearb in Hcl. rewrite forallb_forall in Hcl. specialize (Hcl _ Ha). unfold crossing_clearb in Hcl.
  destruct (assign_bt a) as [[[net b] t]|] eqn:Hbt; [|destruct Hin].
  destruct (assign_wfb_unpack _ _ _ _ _ _ F Hbt) as [_ [_ [_ [_ [_ [vl [mb [mt [cb2 [ct2 [_ [Hmb [Hmt [Hcb [Hct [Nb [Nt [Sb St]]]]]]]]]]]]]]]]]].
  rewrite Hmb, Hmt, Hcb, Hct in Hcl. apply andb_prop in Hcl. destruct Hcl as [Cb Ct].
  apply in_app_or in Hin. destruct Hin as [Hin|Hin].
  - destruct ((fst b =? l) && (snd b =? k)) eqn:Hsel; [|destruct Hin]. apply pair_sel in Hsel.
    rewrite Hcb in Hin. destruct Hin as [Hin|[]]. inversion Hin; subst net c2.
    rewrite Hsel in *. cbn [fst snd] in *. rewrite Hm in Hmb. inversion Hmb; subst mb. auto.
  - destruct ((fst t =? l) && (snd t =? k)) eqn:Hsel; [|destruct Hin]. apply pair_sel in Hsel.
    rewrite Hct in Hin. destruct Hin as [Hin|[]]. inversion Hin; subst net c2.
    rewrite Hsel in *. cbn [fst snd] in *. rewrite Hm in Hmt. inversion Hmt; subst mt. auto.
Qed.

Lemma requested_ok_lt : forall span ops s, Forall (op_ok span) ops -> In s (requested ops) -> s_start s < s_stop s.
Proof.
  intros span ops s H Hin. unfold requested in Hin. apply in_flat_map in Hin. destruct Hin as [o [Ho Hs]].
  rewrite Forall_forall in H. specialize (H _ Ho). destruct o; simpl in *; try tauto; destruct Hs as [<-|[]]; simpl; lia.
Qed.

Lemma tracks_of_sig : forall st c m ct, 0 < nsig m -> In ct (tracks_of st c m) -> ct_rail ct = None ->
  0 <= ct_k ct /\ ct_q ct = period_of m (ct_k ct) /\ track_pos_m m (ct_k ct) = Some (ct_pos ct).
Proof.
  intros st c m ct Hn Hin Hr. rewrite tracks_of_periods in Hin. apply in_flat_map in Hin. destruct Hin as [q [Hq Hin]].
  apply zseq_In in Hq. unfold period_cts in Hin. apply in_app_or in Hin. destruct Hin as [Hin|Hin].
  - apply in_map_iff in Hin. destruct Hin as [i [<- Hi]]. cbn [ct_rail] in Hr. exfalso.
    unfold rail_idx, idx_where in Hi. apply filter_In in Hi. destruct Hi as [_ Hi].
    destruct (e_tt (nth i (flat m) (mkEntry Gap 0))); simpl in Hi; discriminate.
  - apply in_flat_map in Hin. destruct Hin as [r [Hr' Hin]]. apply zseq_In in Hr'. cbv zeta in Hin.
    destruct (track_pos_m m (q * nsig m + r)) as [p|] eqn:Hp; [|destruct Hin]. destruct Hin as [<-|[]].
    cbn [ct_k ct_q ct_pos]. split; [nia|]. split; [|exact Hp].
    unfold period_of. rewrite Z.div_add_l by lia. rewrite Z.div_small by lia. lia.
Qed.

Section SignalNets.
  Variables (st : stack) (c : cell) (l : Z) (m : metal) (lay : Z) (e : ctrack * list shape).
  Variables (d : tdata) (bops cops nops : list op) (l0 segs : list seg).
  Hypothesis Hwf : wf_cell st c.
  Hypothesis Hm : metal_of st l = Some m.
  Hypothesis Hsig : ct_rail (fst e) = None.
  Hypothesis Hin_t : In (fst e) (tracks_of st c m).
  Hypothesis Hph : phases st c l m lay e d bops cops nops l0 segs.

  Let k := ct_k (fst e).
  Let L := along_len st c m.
  Let asg := assigns_on st c l k.
  Let ats := ats_of nops.
  Let Wm : wf_metal m := wf_metal_of _ _ _ (wfc_stack _ _ Hwf) Hm.
  Let Hcl : half_clearb st c = true := wf_half_clear st c Hwf.

  Lemma sig_q : ct_q (fst e) = period_of m k.
  Proof. destruct (tracks_of_sig st c m (fst e) (wfm_nsig _ Wm) Hin_t Hsig) as [_ [H _]]. exact H. Qed.

  Lemma sig_kind : In (map bounds (requested cops)) (choices (cut_candidates st c l m k)) /\ ats_rel st c l k ats.
  Proof. pose proof (ph_kind _ _ _ _ _ _ _ _ _ _ _ _ Hph) as H. rewrite Hsig in H. exact H. Qed.

  (** the ends of the cuts and blockages of the track are among the specification's boundaries *)
  Lemma nonwire_boundaries : forall z, In z l0 -> nonwire z = true ->
    s_start z < s_stop z /\
    In (2 * s_start z) (boundaries2 st c l m k) /\ In (2 * s_stop z) (boundaries2 st c l m k) /\
    (In (bounds z) (blocks st c l m (ct_q (fst e))) \/ In (bounds z) (map bounds (requested cops))).
  Proof.
    intros z Hz Hn. assert (Hin : In z (filter nonwire l0)) by (apply filter_In; auto).
    apply (Permutation_in _ (ph_nonwire _ _ _ _ _ _ _ _ _ _ _ _ Hph)) in Hin.
    split; [eapply requested_ok_lt; [apply (ph_ok _ _ _ _ _ _ _ _ _ _ _ _ Hph)|exact Hin]|].
    rewrite requested_app in Hin.
    assert (Hb : In (bounds z) (blocks st c l m (period_of m k) ++ concat (cut_candidates st c l m k)) /\
                 (In (bounds z) (blocks st c l m (ct_q (fst e))) \/ In (bounds z) (map bounds (requested cops)))).
    { apply in_app_or in Hin. destruct Hin as [Hin|Hin].
      - assert (Hbz : In (bounds z) (blocks st c l m (ct_q (fst e)))).
        { rewrite <- (ph_blocks _ _ _ _ _ _ _ _ _ _ _ _ Hph). apply in_map. exact Hin. }
        split; [|left; exact Hbz]. apply in_or_app. left.
        rewrite <- sig_q. exact Hbz.
      - assert (Hbz : In (bounds z) (map bounds (requested cops))) by (apply in_map; exact Hin).
        split; [|right; exact Hbz]. apply in_or_app. right.
        destruct sig_kind as [Hch _]. pose proof (choices_Forall2 _ _ _ Hch) as F2.
        destruct (Forall2_In_l _ _ _ _ _ _ F2 Hbz) as [cands [Hc1 Hc2]]. apply in_concat. exists cands. auto. }
    destruct Hb as [Hb Hor]. split; [|split; [|exact Hor]]; unfold boundaries2; apply in_flat_map; exists (bounds z);
      (split; [exact Hb|]); unfold bounds; cbn [fst snd]; simpl; auto.
  Qed.
  Lemma existsb_false_notin : forall v ls, existsb (Z.eqb v) ls = false -> ~ In v ls.
  Proof.
    intros v ls H Hin. assert (existsb (Z.eqb v) ls = true) by (apply existsb_exists; exists v; split; [assumption|apply Z.eqb_refl]).
    congruence.
  Qed.

  Lemma half_cases : forall c2, 2 * (c2 / 2) = c2 \/ 2 * (c2 / 2) = c2 - 1.
  Proof. intros c2. pose proof (Z.div_mod c2 2 ltac:(lia)). pose proof (Z.mod_pos_bound c2 2 ltac:(lia)). lia. Qed.

  Lemma asg_facts : forall n c2, In (n, c2) asg ->
    ~ In c2 (boundaries2 st c l m k) /\ ~ In (c2 - 1) (boundaries2 st c l m k) /\ c2 - 1 <> 2 * L /\
    separatedb st c l m k = true.
  Proof.
    intros n c2 Hin. destruct (asg_track_facts _ _ _ _ _ _ _ Hwf Hcl Hm Hin) as [Nb [Sp Cl]].
    unfold clear1 in Cl. apply andb_prop in Cl. destruct Cl as [C1 C2]. apply negb_true_iff in C1. apply negb_true_iff in C2.
    apply Z.eqb_neq in C2. repeat split; auto; apply existsb_false_notin; assumption.
  Qed.

  Lemma ats_not_end : forall at_ n, In (at_, n) ats -> ~ nw_end l0 at_.
  Proof.
    intros at_ n Hin [z [Hz [Hn He]]]. destruct sig_kind as [_ [R1 _]]. destruct (R1 _ _ Hin) as [c2 [Hc2 ->]].
    destruct (asg_facts _ _ Hc2) as [N1 [N2 _]]. destruct (nonwire_boundaries z Hz Hn) as [_ [B1 [B2 _]]].
    destruct (half_cases c2) as [E|E]; destruct He as [He|He]; rewrite He, E in *; tauto.
  Qed.

  Lemma sep_witness : forall n c2 n' c2', In (n, c2) asg -> In (n', c2') asg -> n <> n' -> c2 < c2' ->
    exists z, In z l0 /\ nonwire z = true /\ c2 / 2 < s_start z /\ s_start z < s_stop z /\ s_stop z <= c2' / 2.
  Proof.
    intros n c2 n' c2' H1 H2 Hnn Hlt. destruct (asg_facts _ _ H1) as [_ [_ [_ Sp]]].
    unfold separatedb in Sp. apply andb_prop in Sp. destruct Sp as [Sp _].
    rewrite forallb_forall in Sp. specialize (Sp _ H1). rewrite forallb_forall in Sp. specialize (Sp _ H2).
    cbn [fst snd] in Sp. assert (E1 : (n =? n') = false) by (apply Z.eqb_neq; exact Hnn).
    assert (E2 : (c2 <? c2') = true) by (apply Z.ltb_lt; exact Hlt). rewrite E1, E2 in Sp. cbn [orb negb] in Sp.
    apply existsb_exists in Sp. destruct Sp as [cands [Hc Hp]]. apply andb_prop in Hp. destruct Hp as [Hne Hall].
    rewrite forallb_forall in Hall.
    assert (Hz : exists z, In z (requested (bops ++ cops)) /\ In (bounds z) cands).
    { apply in_app_or in Hc. destruct Hc as [Hc|Hc].
      - apply in_map_iff in Hc. destruct Hc as [bl [<- Hbl]]. rewrite <- sig_q, <- (ph_blocks _ _ _ _ _ _ _ _ _ _ _ _ Hph) in Hbl.
        apply in_map_iff in Hbl. destruct Hbl as [z [<- Hz]]. exists z. split; [rewrite requested_app; apply in_or_app; left; exact Hz|left; reflexivity].
      - destruct sig_kind as [Hch _]. pose proof (choices_Forall2 _ _ _ Hch) as F2.
        destruct (Forall2_In_r _ _ _ _ _ _ F2 Hc) as [p [Hp1 Hp2]]. apply in_map_iff in Hp1. destruct Hp1 as [z [<- Hz]].
        exists z. split; [rewrite requested_app; apply in_or_app; right; exact Hz|exact Hp2]. }
    destruct Hz as [z [Hz1 Hz2]]. specialize (Hall _ Hz2). apply andb_prop in Hall. destruct Hall as [A B].
    apply Z.ltb_lt in A. apply Z.ltb_lt in B. unfold bounds in A, B. cbn [fst snd] in A, B.
    pose proof (requested_ok_lt _ _ _ (ph_ok _ _ _ _ _ _ _ _ _ _ _ _ Hph) Hz1) as Hlt'.
    apply (Permutation_in _ (Permutation_sym (ph_nonwire _ _ _ _ _ _ _ _ _ _ _ _ Hph))) in Hz1. apply filter_In in Hz1.
    exists z. split; [tauto|]. split; [tauto|]. split; [apply Z.div_lt_upper_bound; lia|]. split; [exact Hlt'|].
    apply Z.div_le_lower_bound; lia.
  Qed.

  Lemma ats_separated : forall a n a' n', In (a, n) ats -> In (a', n') ats -> n <> n' -> a <= a' ->
    exists z, In z l0 /\ nonwire z = true /\ a < s_start z /\ s_start z < s_stop z /\ s_stop z <= a'.
  Proof.
    intros a n a' n' H1 H2 Hnn Hle. destruct sig_kind as [_ [R1 _]].
    destruct (R1 _ _ H1) as [c2 [Hc2 ->]]. destruct (R1 _ _ H2) as [c2' [Hc2' ->]].
    destruct (Z.lt_total c2 c2') as [Hlt|[Heq|Hgt]].
    - eapply sep_witness; eauto.
    - exfalso. subst c2'. destruct (asg_facts _ _ Hc2) as [_ [_ [_ Sp]]]. unfold separatedb in Sp.
      apply andb_prop in Sp. destruct Sp as [_ Sp]. rewrite forallb_forall in Sp. specialize (Sp _ Hc2).
      rewrite forallb_forall in Sp. specialize (Sp _ Hc2'). cbn [fst snd] in Sp. rewrite Z.eqb_refl in Sp.
      assert (E1 : (n =? n') = false) by (apply Z.eqb_neq; exact Hnn). rewrite E1 in Sp. discriminate.
    - exfalso. destruct (sep_witness n' c2' n c2 Hc2' Hc2 ltac:(congruence) Hgt) as [z [_ [_ [A [B C]]]]]. lia.
  Qed.

  (** (e) NETS OF ONE SIGNAL TRACK: every rectangle covering the crossing of an assignment carries its
      net, and a rectangle carrying a net covers the crossing of an assignment of that net *)
  Theorem signal_nets :
    (forall n c2 s, In (n, c2) asg -> In s (snd e) -> covers2 m s c2 = true -> sh_net s = Some n) /\
    (forall s n, In s (snd e) -> sh_net s = Some n -> exists c2, In (n, c2) asg /\ covers2 m s c2 = true).
  Proof.
    pose proof (along_len_pos st c m Hwf) as HL. fold L in HL.
    pose proof (ph_tiled _ _ _ _ _ _ _ _ _ _ _ _ Hph) as [_ Hc0]. fold L in Hc0.
    pose proof (ph_kp _ _ _ _ _ _ _ _ _ _ _ _ Hph) as Hkp. unfold td_kp, kind_of in Hkp. rewrite Hsig in Hkp.
    inversion Hkp as [[Htt Hpos]].
    pose proof (ph_plain _ _ _ _ _ _ _ _ _ _ _ _ Hph) as Hpl. rewrite Htt in Hpl. cbn [wire_tp] in Hpl.
    destruct (net_phase_exact L ats l0 segs HL Hc0 (ph_flanked _ _ _ _ _ _ _ _ _ _ _ _ Hph) Hpl ats_not_end ats_separated
               (ph_net _ _ _ _ _ _ _ _ _ _ _ _ Hph)) as [Hc1 [Hbd [Hnw [Hfl [Hcov [Hexact Hwo]]]]]].
    destruct sig_kind as [_ [R1 R2]].
    pose proof (ph_shapes _ _ _ _ _ _ _ _ _ _ _ _ Hph) as Hs.
    assert (Hcv2 : forall g c2, covers2 m (rect_of (m_horiz m) lay d g) c2 = true -> covers g (c2 / 2)).
    { intros g c2 H. unfold covers2 in H. rewrite sh_along_rect in H. unfold bounds in H. cbn [fst snd] in H.
      apply andb_prop in H. destruct H as [A B]. apply Z.leb_le in A. apply Z.leb_le in B. split.
      - apply Z.div_le_lower_bound; lia.
      - apply Z.div_le_upper_bound; lia. }
    split.
    - intros n c2 s Hin Hs' Hcv. rewrite Hs in Hs'. apply in_map_iff in Hs'. destruct Hs' as [g [<- Hg]].
      apply filter_In in Hg. destruct Hg as [Hg Hw]. unfold is_wire in Hw. apply negb_true_iff in Hw.
      rewrite sh_net_rect. pose proof (Hexact (c2 / 2) n g (R2 _ _ Hin) Hg (Hcv2 _ _ Hcv) Hw) as Htp.
      unfold seg_net. rewrite Htp. reflexivity.
    - intros s n Hs' Hnet. rewrite Hs in Hs'. apply in_map_iff in Hs'. destruct Hs' as [g [<- Hg]].
      apply filter_In in Hg. destruct Hg as [Hg Hw]. unfold is_wire in Hw. apply negb_true_iff in Hw.
      rewrite sh_net_rect in Hnet. destruct (Hwo g Hg Hw) as [o Ho]. unfold seg_net in Hnet. rewrite Ho in Hnet. subst o.
      destruct (Hcov g n Hg Ho) as [at_ [Hat [Ca Cb]]]. destruct (R1 _ _ Hat) as [c2 [Hc2 ->]].
      exists c2. split; [exact Hc2|]. unfold covers2. rewrite sh_along_rect. unfold bounds. cbn [fst snd].
      destruct (asg_facts _ _ Hc2) as [_ [N2 [N3 _]]].
      apply andb_true_intro. split; apply Z.leb_le.
      + destruct (half_cases c2); lia.
      + destruct (half_cases c2) as [E|E]; [lia|].
        (* odd: the rounded point is strictly inside, by the clearance hypothesis *)
        destruct (Z.eq_dec (c2 / 2) (s_stop g)) as [Heq|Hne]; [exfalso|lia].
        destruct (Hfl g Hg Hw) as [_ [R|[z [Z1 [Z2 Z3]]]]].
        * apply N3. fold L. lia.
        * assert (Z1' : In z l0).
          { assert (In z (filter nonwire segs)) by (apply filter_In; auto). rewrite Hnw in H. apply filter_In in H. tauto. }
          destruct (nonwire_boundaries z Z1' Z2) as [_ [B1 _]]. apply N2. replace (c2 - 1) with (2 * s_start z) by lia. exact B1.
  Qed.
End SignalNets.

(** * Part U: assembly -- the specification evaluated on the shapes of a compiled well-formed cell *)
Lemma list_eqb_refl : forall l, list_eqb pair_eqb l l = true.
Proof. induction l as [|x l IH]; simpl; [reflexivity|]. rewrite pair_eqb_refl, IH. reflexivity. Qed.

Lemma nth_error_indexed : forall A (l : list A) i, nth_error (indexed l) i = option_map (fun x => (Z.of_nat i, x)) (nth_error l i).
Proof.
  intros A l i. unfold indexed.
  assert (G : forall a i, nth_error (combine (map Z.of_nat (seq a (length l))) l) i
                          = option_map (fun x => (Z.of_nat (a + i), x)) (nth_error l i)).
  { induction l as [|x l IH]; intros a j; simpl; [destruct j; reflexivity|].
    destruct j as [|j]; simpl; [rewrite Nat.add_0_r; reflexivity|]. rewrite IH. replace (S a + j)%nat with (a + S j)%nat by lia. reflexivity. }
  rewrite G. reflexivity.
Qed.

Lemma in_firstn_nth : forall A (l : list A) n x, In x (firstn n l) <-> exists i, (i < n)%nat /\ nth_error l i = Some x.
Proof.
  intros A l. induction l as [|y l IH]; intros n x.
  - rewrite firstn_nil. split; [intros []|intros [i [_ H]]; destruct i; discriminate].
  - destruct n as [|n]; simpl.
    + split; [intros []|intros [i [H _]]; lia].
    + rewrite IH. split.
      * intros [->|[i [Hi Hn]]]; [exists O; split; [lia|reflexivity]|exists (S i); split; [lia|exact Hn]].
      * intros [[|i] [Hi Hn]]; simpl in Hn; [left; congruence|right; exists i; split; [lia|exact Hn]].
Qed.

Lemma layers_of_cell : forall st c l m, 0 <= c_metals c ->
  In (l, m) (firstn (Z.to_nat (c_metals c)) (indexed (s_metals st))) <-> (0 <= l < c_metals c /\ metal_of st l = Some m).
Proof.
  intros st c l m Hc. rewrite in_firstn_nth. split.
  - intros [i [Hi Hn]]. rewrite nth_error_indexed in Hn. destruct (nth_error (s_metals st) i) as [m'|] eqn:E; [|discriminate].
    simpl in Hn. inversion Hn; subst. split; [lia|]. unfold metal_of.
    destruct (Z.of_nat i <? 0) eqn:E0; [apply Z.ltb_lt in E0; lia|]. rewrite Nat2Z.id. exact E.
  - intros [Hl Hm]. unfold metal_of in Hm. destruct (l <? 0) eqn:E0; [discriminate|].
    exists (Z.to_nat l). split; [lia|]. rewrite nth_error_indexed, Hm. simpl. rewrite Z2Nat.id by lia. reflexivity.
Qed.

Lemma flat_map_all : forall A B (P : B -> Prop) (f : A -> list B) l,
  (forall x, In x l -> forall y, In y (f x) -> P y) -> forall y, In y (flat_map f l) -> P y.
Proof. intros A B P f l H y Hy. apply in_flat_map in Hy. destruct Hy as [x [Hx Hy]]. eapply H; eauto. Qed.

(** a track whose position is shared with a track of another kind (two signal tracks, a signal track and a
    rail, rails of different kinds): the specification does not judge it (code 9xx) *)
Definition ambiguous_at (st : stack) (c : cell) (m : metal) (t : ctrack) : bool :=
  match same_track_group t (tracks_of st c m) with
  | [_] => false
  | g => negb (forallb (fun u => rail_kind_eqb (ct_rail u) (ct_rail t)) g)
  end.

Section LayerSpec.
  Variables (st : stack) (c : cell) (shapes : list shape) (l : Z) (m : metal) (lay : Z) (ETR : list (ctrack * list shape)).
  Hypothesis Hwf : wf_cell st c.
  Hypothesis Hl : 0 <= l.
  Hypothesis Hm : metal_of st l = Some m.
  Hypothesis Hlay : m_raw m = Some lay.
  Hypothesis HT : layer_tracks st c shapes l m lay ETR.

  Let Wm : wf_metal m := wf_metal_of _ _ _ (wfc_stack _ _ Hwf) Hm.
  Let ts := tracks_of st c m.
  Let shapes' := map norm shapes.

  Lemma etr_real : forall e, In e ETR -> track_real st c l m lay e /\ In (fst e) ts.
  Proof.
    intros e He. pose proof (lt_real _ _ _ _ _ _ _ HT) as F. rewrite Forall_forall in F. split; [apply F; exact He|].
    eapply Permutation_in; [apply (lt_perm _ _ _ _ _ _ _ HT)|]. apply in_map. exact He.
  Qed.

  (** nets of the pieces of one drawn track *)
  Lemma nets_one : forall e t, In e ETR -> fst e = t -> pieces_at m (ct_pos t) shapes' = snd e -> nets_okb st c l m t shapes' = true.
  Proof.
    intros e t He Hfe Hp. destruct (etr_real e He) as [Hr Hin]. unfold nets_okb. fold shapes'. rewrite Hp.
    destruct (track_real_phases _ _ _ _ _ _ Hwf Hr) as [d [bops [cops [nops [l0 [segs Hph]]]]]].
    destruct (ct_rail t) as [k|] eqn:Hk.
    - rewrite <- Hfe in Hk. destruct (rail_real _ _ _ _ _ _ _ Hwf Hr Hk) as [Hn _].
      apply forallb_forall. intros s Hs. rewrite Forall_forall in Hn. rewrite (Hn _ Hs). apply Z.eqb_refl.
    - rewrite <- Hfe in Hk.
      destruct (signal_nets st c l m lay e d bops cops nops l0 segs Hwf Hm Hk Hin Hph) as [N1 N2].
      rewrite Hfe in N1, N2. apply andb_true_intro. split.
      + apply forallb_forall. intros [n c2] Hnc. apply forallb_forall. intros s Hs. cbn [fst snd].
        destruct (covers2 m s c2) eqn:Ecv; [|reflexivity]. cbn [negb orb]. rewrite (N1 n c2 s Hnc Hs Ecv). apply Z.eqb_refl.
      + apply forallb_forall. intros s Hs. destruct (sh_net s) as [n|] eqn:En; [|reflexivity].
        destruct (N2 s n Hs En) as [c2 [Hin2 Hcv]]. apply existsb_exists. exists (n, c2). split; [exact Hin2|].
        cbn [fst snd]. rewrite Z.eqb_refl, Hcv. reflexivity.
  Qed.

  (** a group of coinciding rails of one kind *)
  Lemma group_rails : forall t k, In t ts -> ct_rail t = Some k ->
    forallb (fun u => rail_kind_eqb (ct_rail u) (ct_rail t)) (same_track_group t ts) = true ->
    group_tiledb st c l m (same_track_group t ts) (pieces_at m (ct_pos t) shapes') = true /\
    nets_okb st c l m t shapes' = true.
  Proof.
    intros t k Ht Hk Hall. set (g := same_track_group t ts) in *.
    destruct (pieces_at_tracks _ _ _ _ _ _ _ (ct_pos t) Hwf Wm Hlay HT) as [Hp Hperm].
    fold shapes' in Hp. fold ts in Hperm. fold (same_track_group t ts) in Hperm. fold g in Hperm.
    set (Eg := filter (at_pos (ct_pos t)) ETR) in *.
    assert (HEg : forall e, In e Eg -> In e ETR /\ In (fst e) g /\ ct_rail (fst e) = Some k).
    { intros e He. split; [unfold Eg in He; apply filter_In in He; tauto|].
      assert (Hg : In (fst e) g) by (eapply Permutation_in; [exact Hperm|apply in_map; exact He]).
      split; [exact Hg|]. rewrite forallb_forall in Hall. specialize (Hall _ Hg). rewrite Hk in Hall.
      destruct (ct_rail (fst e)) as [[|]|]; destruct k; simpl in Hall; try discriminate; reflexivity. }
    assert (Hrail : forall e, In e Eg ->
       Forall (fun s => sh_net s = Some (rail_name k)) (snd e) /\
       gaps (psort (blocks st c l m (ct_q (fst e)))) 0 (along_len st c m)
         = Some (filter (fun p => fst p <? snd p) (map (sh_along m) (snd e))) /\
       Forall (fun p => fst p < snd p \/ fst p = 0 \/
                        exists b, In b (blocks st c l m (ct_q (fst e))) /\ snd b = fst p) (map (sh_along m) (snd e))).
    { intros e He. destruct (HEg e He) as [H1 [_ H3]]. destruct (etr_real e H1) as [Hr _]. eapply rail_real; eauto. }
    split.
    - (* tiling of the group *)
      unfold group_tiledb. fold shapes'. rewrite Hp.
      set (Hf := fun u : ctrack => match gaps (psort (blocks st c l m (ct_q u))) 0 (along_len st c m) with Some x => x | None => [] end).
      assert (Hsome : forall u, In u g -> exists e, In e Eg /\ fst e = u).
      { intros u Hu. apply (Permutation_in _ (Permutation_sym Hperm)) in Hu. apply in_map_iff in Hu. destruct Hu as [e [<- He]]. eauto. }
      assert (Hall_some : forallb (fun o : option (list (Z * Z)) => match o with Some _ => true | None => false end)
                (map (fun t0 => gaps (psort (blocks st c l m (ct_q t0))) 0 (along_len st c m)) g) = true).
      { apply forallb_forall. intros o Ho. apply in_map_iff in Ho. destruct Ho as [u [<- Hu]].
        destruct (Hsome u Hu) as [e [He <-]]. destruct (Hrail e He) as [_ [-> _]]. reflexivity. }
      rewrite Hall_some.
      apply andb_true_intro. split.
      + assert (Ewant : flat_map (fun o : option (list (Z * Z)) => match o with Some x => x | None => [] end)
                   (map (fun t0 => gaps (psort (blocks st c l m (ct_q t0))) 0 (along_len st c m)) g) = flat_map Hf g).
        { rewrite flat_map_concat_map, map_map, <- flat_map_concat_map. reflexivity. }
        rewrite Ewant.
        assert (Epieces : filter (fun p => fst p <? snd p) (map (sh_along m) (concat (map snd Eg))) = flat_map (fun e => Hf (fst e)) Eg).
        { clear - Hrail. induction Eg as [|e r IH]; [reflexivity|]. simpl. rewrite map_app, filter_app, IH.
          - f_equal. unfold Hf. destruct (Hrail e (or_introl eq_refl)) as [_ [-> _]]. reflexivity.
          - intros e' He'. apply Hrail. right; exact He'. }
        rewrite Epieces.
        assert (Eperm : Permutation (flat_map Hf g) (flat_map (fun e => Hf (fst e)) Eg)).
        { rewrite (flat_map_concat_map (fun e => Hf (fst e))), <- (map_map fst Hf), <- flat_map_concat_map.
          apply Permutation_flat_map. apply Permutation_sym. exact Hperm. }
        rewrite (psort_perm_inv _ _ Eperm). apply list_eqb_refl.
      + apply forallb_forall. intros p Hp'. rewrite map_map in Hp' || idtac.
        apply in_map_iff in Hp'. destruct Hp' as [s [<- Hs]]. apply in_concat in Hs. destruct Hs as [sh [Hsh Hs]].
        apply in_map_iff in Hsh. destruct Hsh as [e [<- He]].
        destruct (Hrail e He) as [_ [_ F3]]. rewrite Forall_forall in F3.
        specialize (F3 (sh_along m s) (in_map _ _ _ Hs)). destruct F3 as [F3|[F3|[b [Hb1 Hb2]]]].
        * apply Z.ltb_lt in F3. rewrite F3. reflexivity.
        * apply orb_true_iff. right. apply existsb_exists. exists 0. split; [left; reflexivity|]. apply Z.eqb_eq. exact F3.
        * apply orb_true_iff. right. apply existsb_exists. exists (snd b). split; [|apply Z.eqb_eq; auto].
          right. right. apply in_flat_map. exists (fst e). split; [apply (HEg e He)|].
          apply in_flat_map. exists b. split; [exact Hb1|right; left; reflexivity].
    - (* nets *)
      unfold nets_okb. fold shapes'. rewrite Hp, Hk. apply forallb_forall. intros s Hs.
      apply in_concat in Hs. destruct Hs as [sh [Hsh Hs]]. apply in_map_iff in Hsh. destruct Hsh as [e [<- He]].
      destruct (Hrail e He) as [F1 _]. rewrite Forall_forall in F1. rewrite (F1 _ Hs). apply Z.eqb_refl.
  Qed.

  (** every code the specification emits for the layer is an "ambiguous" code (>= 900) *)
  Theorem spec_layer_judged : forall code, In code (spec_layer st c l m shapes') ->
    code = 900 + l /\ exists t, In t ts /\ ambiguous_at st c m t = true.
  Proof.
    intros code Hcode. unfold spec_layer in Hcode. fold ts in Hcode. apply in_app_or in Hcode. destruct Hcode as [Hcode|Hcode].
    - revert code Hcode. apply flat_map_all. intros t Ht code Hcode.
      destruct (same_track_group t ts) as [|u [|u2 r]] eqn:Hg.
      + (* impossible: t is in its own group *)
        exfalso. assert (Hin : In t (same_track_group t ts)) by (apply filter_In; split; [exact Ht|apply pair_eqb_refl]).
        rewrite Hg in Hin. destruct Hin.
      + destruct (layer_track_tiled _ _ _ _ _ _ _ _ _ Hwf Wm Hlay HT Ht Hg) as [_ Htb]. fold shapes' in Htb. rewrite Htb in Hcode.
        destruct (singleton_group _ _ _ _ _ _ _ _ _ Hwf Wm Hlay HT Ht Hg) as [_ [e [He [Hfe Hp]]]]. fold shapes' in Hp.
        rewrite (nets_one e t He Hfe Hp) in Hcode. destruct Hcode.
      + rewrite <- Hg in Hcode.
        destruct (forallb (fun u0 => rail_kind_eqb (ct_rail u0) (ct_rail t)) (same_track_group t ts)) eqn:Hall.
        * assert (Hk : exists k, ct_rail t = Some k).
          { rewrite forallb_forall in Hall. assert (Hin : In t (same_track_group t ts)) by (apply filter_In; split; [exact Ht|apply pair_eqb_refl]).
            specialize (Hall _ Hin). destruct (ct_rail t) as [k|]; [eauto|discriminate]. }
          destruct Hk as [k Hk]. destruct (group_rails t k Ht Hk Hall) as [G1 G2]. rewrite G1, G2 in Hcode. destruct Hcode.
        * destruct Hcode as [<-|[]]. split; [reflexivity|]. exists t. split; [exact Ht|].
          unfold ambiguous_at. fold ts. rewrite Hg in Hall |- *. cbv beta iota zeta. rewrite Hall. reflexivity.
    - pose proof (layer_no_stray _ _ _ _ _ _ _ Hwf Wm Hlay HT) as Hs. fold ts in Hs. fold shapes' in Hs. rewrite Hs in Hcode. destruct Hcode.
  Qed.
End LayerSpec.

(** * Part V: the whole cell and the whole library *)
Lemma Forall2_concat_In : forall A B (R : A -> list B -> Prop) ls outs s,
  Forall2 R ls outs -> In s (concat outs) -> exists l out, In l ls /\ R l out /\ In s out.
Proof.
  intros A B R ls outs s H Hs. apply in_concat in Hs. destruct Hs as [out [Ho Hs]].
  destruct (Forall2_In_r _ _ _ _ _ _ H Ho) as [l [Hl Hr]]. eauto.
Qed.

(** nothing but vias and the rectangles of the cell's own metals is drawn *)
Theorem cell_no_other : forall st vs c shapes, wf_cell st c -> vs_of st vs -> export_layout fixed vs c = Ok shapes ->
  forallb (fun s => is_via_shape st s || is_metal_shape st c s) (map norm shapes) = true.
Proof.
  intros st vs c shapes Hwf Hvs H. destruct (cell_structure _ _ _ _ Hwf Hvs H) as [vas [louts [Hv [-> HF]]]].
  apply forallb_forall. intros s' Hs'. apply in_map_iff in Hs'. destruct Hs' as [s [<- Hs]].
  destruct (Forall2_concat_In _ _ _ _ _ _ HF Hs) as [l [out [Hl [[m [vm [pouts [Hm [Hvm [Hval [-> HFp]]]]]]] Hin]]]].
  apply zseq_In in Hl.
  destruct (Forall2_concat_In _ _ _ _ _ _ HFp Hin) as [q [o [_ [Hp Hin']]]].
  pose proof (validate_metal_vm_of _ _ _ _ _ Hval) as Hvmo.
  destruct (wfm_raw _ (wf_metal_of _ _ _ (wfc_stack _ _ Hwf) Hm)) as [lay Hlay].
  destruct (period_rel_parts _ _ _ _ _ _ _ _ _ _ Hvs Hm Hvm Hvmo Hlay Hp) as [vias [trk [-> [Hvi Ht]]]].
  apply in_app_or in Hin'. destruct Hin' as [Hin'|Hin'].
  - destruct (Forall2_In_r _ _ _ _ _ _ Hvi Hin') as [v [_ Hr]].
    destruct (via_rel_shape _ _ _ _ _ (wfc_stack _ _ Hwf) Hvs Hr) as [A _]. rewrite is_via_norm, A. reflexivity.
  - rewrite Forall_forall in Ht. specialize (Ht _ Hin'). apply orb_true_iff. right.
    unfold is_metal_shape. apply existsb_exists. exists (l, m). split.
    + apply layers_of_cell; [pose proof (wfc_metals _ _ Hwf); lia|]. auto.
    + cbn [snd]. unfold on_layer. rewrite Hlay. unfold norm. cbn [sh_layer]. apply Z.eqb_eq. exact Ht.
Qed.

(** (f) THE WHOLE CELL.  On the shapes of a well-formed cell that compiles, the specification emits no
    failure code: every code it emits is a code 9xx of a layer where tracks of different kinds
    coincide -- positions the specification declares ambiguous and does not judge *)
Theorem cell_spec_judged : forall st vs c shapes,
  wf_cell st c -> vs_of st vs -> export_layout fixed vs c = Ok shapes ->
  forall code, In code (spec_cell st c shapes) ->
    exists l m t, 0 <= l < c_metals c /\ metal_of st l = Some m /\ code = 900 + l /\
                  In t (tracks_of st c m) /\ ambiguous_at st c m t = true.
Proof.
  intros st vs c shapes Hwf Hvs H code Hcode. unfold spec_cell in Hcode. cbv zeta in Hcode.
  apply in_app_or in Hcode. destruct Hcode as [Hcode|Hcode].
  - apply in_flat_map in Hcode. destruct Hcode as [[l m] [Hlm Hcode]]. cbn [fst snd] in Hcode.
    apply layers_of_cell in Hlm; [|pose proof (wfc_metals _ _ Hwf); lia]. destruct Hlm as [Hl Hm].
    destruct (wfm_raw _ (wf_metal_of _ _ _ (wfc_stack _ _ Hwf) Hm)) as [lay Hlay].
    destruct (cell_layer_tracks _ _ _ _ _ _ _ Hwf Hvs H Hl Hm Hlay) as [ETR [E1 [E2 E3]]].
    assert (HT : layer_tracks st c shapes l m lay ETR) by (constructor; assumption).
    destruct (spec_layer_judged st c shapes l m lay ETR Hwf Hm Hlay HT code Hcode) as [Hc [t [Ht Ha]]].
    exists l, m, t. auto.
  - exfalso. apply in_app_or in Hcode. destruct Hcode as [Hcode|Hcode].
    + pose proof (vias_realised _ _ _ _ Hwf Hvs H) as Hv. unfold vias_okb in Hv. cbv zeta in Hv.
      rewrite Hv in Hcode. destruct Hcode.
    + rewrite (cell_no_other _ _ _ _ Hwf Hvs H) in Hcode. destruct Hcode.
Qed.

Definition unambiguousb (st : stack) (c : cell) : bool :=
  forallb (fun lm => forallb (fun t => negb (ambiguous_at st c (snd lm) t)) (tracks_of st c (snd lm)))
          (firstn (Z.to_nat (c_metals c)) (indexed (s_metals st))).

Theorem cell_spec_holds : forall st vs c shapes,
  wf_cell st c -> unambiguousb st c = true -> vs_of st vs ->
  export_layout fixed vs c = Ok shapes -> spec_cell st c shapes = [].
Proof.
  intros st vs c shapes Hwf Hun Hvs H. destruct (spec_cell st c shapes) as [|code r] eqn:E; [reflexivity|exfalso].
  assert (Hin : In code (spec_cell st c shapes)) by (rewrite E; left; reflexivity).
  destruct (cell_spec_judged _ _ _ _ Hwf Hvs H code Hin) as [l [m [t [Hl [Hm [_ [Ht Ha]]]]]]].
  unfold unambiguousb in Hun. rewrite forallb_forall in Hun.
  assert (Hlm : In (l, m) (firstn (Z.to_nat (c_metals c)) (indexed (s_metals st))))
    by (apply layers_of_cell; [pose proof (wfc_metals _ _ Hwf); lia|auto]).
  specialize (Hun _ Hlm). cbn [snd] in Hun. rewrite forallb_forall in Hun. specialize (Hun _ Ht). rewrite Ha in Hun. discriminate.
Qed.

(** ** the library *)
Theorem compile_spec_judged : forall st cells out,
  compile fixed st cells = Ok out ->
  Forall2 (fun c shapes => wf_cellb st c = true ->
             forall code, In code (spec_cell st c shapes) -> 900 <= code) cells out.
Proof.
  intros st cells out H. destruct (compile_structure _ _ _ H) as [vs [Hvs HF]].
  pose proof (validate_stack_vs_of _ _ Hvs) as Hvo.
  revert HF. apply Forall2_imp. intros c shapes He Hwfb code Hcode.
  destruct (cell_spec_judged _ _ _ _ (wf_cellb_wf _ _ Hwfb) Hvo He code Hcode) as [l [m [t [Hl [_ [-> _]]]]]]. lia.
Qed.

Theorem compile_spec_holds : forall st cells out,
  compile fixed st cells = Ok out ->
  Forall2 (fun c shapes => wf_cellb st c = true -> unambiguousb st c = true ->
             spec_cell st c shapes = []) cells out.
Proof.
  intros st cells out H. destruct (compile_structure _ _ _ H) as [vs [Hvs HF]].
  pose proof (validate_stack_vs_of _ _ Hvs) as Hvo.
  revert HF. apply Forall2_imp. intros c shapes He Hwfb Hun.
  eapply cell_spec_holds; eauto. apply wf_cellb_wf; assumption.
Qed.

(** stacks whose signal tracks all have even width: the clearance clause of well-formedness is vacuous *)
Definition even_sig_widthsb (st : stack) : bool :=
  forallb (fun m => forallb (fun e => match e_tt e with Signal => Z.even (e_w e) | _ => true end) (flat m)) (s_metals st).

(** * Part W: even track widths imply the clearance hypothesis; closed witnesses *)
Lemma track_pos_m_even : forall st m k p, even_sig_widthsb st = true -> In m (s_metals st) ->
  track_pos_m m k = Some p -> Z.even (snd p) = true.
Proof.
  intros st m k p He Hm H. unfold track_pos_m in H. destruct ((nsig m =? 0) || (k <? 0)); [discriminate|].
  destruct (nth_error (sig_idx m) _) as [i|] eqn:Hi; [|discriminate]. inversion H; subst p. unfold entry_pos. cbn [snd].
  apply nth_error_In in Hi. unfold sig_idx, idx_where in Hi. apply filter_In in Hi. destruct Hi as [Hi Hs]. apply in_seq in Hi.
  unfold even_sig_widthsb in He. rewrite forallb_forall in He. specialize (He _ Hm). rewrite forallb_forall in He.
  assert (Hlt : (i < length (flat m))%nat) by lia.
  specialize (He (nth i (flat m) (mkEntry Gap 0)) (nth_In _ _ Hlt)).
  destruct (e_tt (nth i (flat m) (mkEntry Gap 0))); simpl in Hs; try discriminate. exact He.
Qed.

Lemma boundaries2_even : forall st c l m k x, In x (boundaries2 st c l m k) -> Z.even x = true.
Proof.
  intros st c l m k x H. unfold boundaries2 in H. apply in_flat_map in H. destruct H as [p [_ [<-|[<-|[]]]]];
    rewrite Z.even_mul; reflexivity.
Qed.

Lemma clear1_even : forall st c l m k c2, Z.even c2 = true -> clear1 st c l m k c2 = true.
Proof.
  intros st c l m k c2 He. unfold clear1. apply andb_true_intro. split; apply negb_true_iff.
  - destruct (existsb _ _) eqn:E; [|reflexivity]. apply existsb_exists in E. destruct E as [x [Hx Hq]].
    apply Z.eqb_eq in Hq. subst x. apply boundaries2_even in Hx. rewrite Z.even_sub, He in Hx. discriminate.
  - apply Z.eqb_neq. intro Hq. assert (Z.even (c2 - 1) = true) by (rewrite Hq, Z.even_mul; reflexivity).
    rewrite Z.even_sub, He in H. discriminate.
Qed.

Theorem even_widths_clear : forall st c a n b t mb mt cb2 ct2, even_sig_widthsb st = true ->
  assign_bt a = Some (n, b, t) -> metal_of st (fst b) = Some mb -> metal_of st (fst t) = Some mt ->
  cross2 st (fst t) (snd t) = Some cb2 -> cross2 st (fst b) (snd b) = Some ct2 ->
  crossing_clearb st c a = true.
Proof.
  intros st c a n b t mb mt cb2 ct2 He Hbt Hmb Hmt Hcb Hct. unfold crossing_clearb. rewrite Hbt, Hmb, Hmt, Hcb, Hct.
  assert (Hev : forall l m k c2, metal_of st l = Some m -> cross2 st l k = Some c2 -> Z.even c2 = true).
  { intros l m k c2 Hm Hc. unfold cross2 in Hc. rewrite (track_pos_metal _ _ _ _ Hm) in Hc.
    destruct (track_pos_m m k) as [p|] eqn:Hp; [|discriminate]. simpl in Hc. inversion Hc; subst c2.
    unfold centre2. rewrite Z.even_add, Z.even_mul. cbn [Z.even orb].
    rewrite (track_pos_m_even st m k p He (metal_of_In _ _ _ Hm) Hp). reflexivity. }
  rewrite (clear1_even _ _ _ _ _ _ (Hev _ _ _ _ Hmt Hcb)), (clear1_even _ _ _ _ _ _ (Hev _ _ _ _ Hmb Hct)). reflexivity.
Qed.

(** ** closed witnesses *)
(** (i) THE STATEMENT [C08_full] AS WRITTEN IS FALSE: a well-formed stack whose pattern overlap makes the
    last signal track of one period coincide with the first of the next; the cell compiles, the
    specification answers 900 (not judged), which is not []. *)
Definition st_coincide := mkStack 150 150
  [mkMetal true 50 [SEntry (mkEntry Signal 100); SEntry (mkEntry Gap 50); SEntry (mkEntry Signal 100)] 0 100 false false (Some 10020)]
  [] true true.
Definition cells_coincide := [mkCell 1 2 2 [] [] []].

Lemma coincide_witness :
  all_wfb st_coincide cells_coincide = true /\
  exists shapes, compile fixed st_coincide cells_coincide = Ok [shapes] /\
                 spec_cell st_coincide (mkCell 1 2 2 [] [] []) shapes = [900; 900].
Proof. split; [vm_compute; reflexivity|]. eexists. split; vm_compute; reflexivity. Qed.

(** (ii) WHY THE CLEARANCE CLAUSE IS PART OF WELL-FORMEDNESS: the vertical track at x = 3..8 (odd width 5) has its centre at
    5.5; `center` rounds it to 5, which is the end of the span 0..5 blocked by the instance, so
    set_net finds the blockage first and the wire piece 5..10 -- which covers 5.5 -- gets no net. *)
Definition st_oddc := mkStack 5 10
  [mkMetal true 2 [SEntry (mkEntry Signal 10)] 0 0 false false (Some 10020);
   mkMetal false 2 [SEntry (mkEntry Gap 3); SEntry (mkEntry Signal 5); SEntry (mkEntry Gap 2)] 0 0 false false (Some 11020)]
  [mkVia (Some 0) (Some 1) 2 2 (Some 10044)] true true.
Definition cell_oddc := mkCell 2 2 1 [mkInst 1 1 1 0 0 false false] [] [(1, mkCross 1 0 0 0)].

Lemma oddc_witness :
  wf_cellb st_oddc cell_oddc = false /\ half_clearb st_oddc cell_oddc = false /\ unambiguousb st_oddc cell_oddc = true /\
  compile fixed st_oddc [cell_oddc] =
    Ok [[mkShape 10044 4 4 6 6 (Some 1); mkShape 10020 0 0 0 10 None; mkShape 10020 5 0 10 10 None;
         mkShape 11020 3 0 8 10 (Some 1)]] /\
  spec_cell st_oddc cell_oddc
    [mkShape 10044 4 4 6 6 (Some 1); mkShape 10020 0 0 0 10 None; mkShape 10020 5 0 10 10 None;
     mkShape 11020 3 0 8 10 (Some 1)] = [200].
Proof. vm_compute. repeat split; reflexivity. Qed.

(** non-vacuity of the whole-cell theorems: the suite's own cell on the repo's sample stack satisfies the
    hypotheses (its rails coincide pairwise, both of one kind) *)
Lemma pdka_hyps :
  all_wfb st_pdka cells_create_lib1 = true /\
  forallb (half_clearb st_pdka) cells_create_lib1 = true /\ forallb (unambiguousb st_pdka) cells_create_lib1 = true /\
  even_sig_widthsb st_pdka = true.
Proof. vm_compute. repeat split; reflexivity. Qed.

(** * Part X: the intermediate layers at the level of `compile` (statements used by Properties/C08.v) *)
Lemma compile_cells : forall st cells out (Q : cell -> list shape -> Prop),
  compile fixed st cells = Ok out ->
  (forall vs c shapes, vs_of st vs -> export_layout fixed vs c = Ok shapes -> wf_cell st c -> Q c shapes) ->
  Forall2 (fun c shapes => wf_cellb st c = true -> Q c shapes) cells out.
Proof.
  intros st cells out Q H HQ. destruct (compile_structure _ _ _ H) as [vs [Hvs HF]].
  pose proof (validate_stack_vs_of _ _ Hvs) as Hvo. revert HF. apply Forall2_imp. intros c shapes He Hwfb.
  eapply HQ; eauto. apply wf_cellb_wf; assumption.
Qed.

(** (d) vias and centres *)
Theorem compile_vias : forall st cells out, compile fixed st cells = Ok out ->
  Forall2 (fun c shapes => wf_cellb st c = true -> vias_okb st c shapes = true) cells out.
Proof. intros st cells out H. apply (compile_cells _ _ _ _ H). intros vs c shapes Hvs He Hwf. eapply vias_realised; eauto. Qed.

(** (c) per-layer tiling, positions, nothing else drawn *)
Definition layer_in_cell (st : stack) (c : cell) (l : Z) (m : metal) : Prop := 0 <= l < c_metals c /\ metal_of st l = Some m.
Definition alone_at (st : stack) (c : cell) (m : metal) (t : ctrack) : Prop :=
  In t (tracks_of st c m) /\ same_track_group t (tracks_of st c m) = [t].

Lemma layer_ctx : forall st vs c shapes l m, wf_cell st c -> vs_of st vs -> export_layout fixed vs c = Ok shapes ->
  layer_in_cell st c l m -> exists lay ETR, m_raw m = Some lay /\ wf_metal m /\ layer_tracks st c shapes l m lay ETR.
Proof.
  intros st vs c shapes l m Hwf Hvs He [Hl Hm].
  pose proof (wf_metal_of _ _ _ (wfc_stack _ _ Hwf) Hm) as Wm. destruct (wfm_raw _ Wm) as [lay Hlay].
  destruct (cell_layer_tracks _ _ _ _ _ _ _ Hwf Hvs He Hl Hm Hlay) as [ETR [E1 [E2 E3]]].
  exists lay, ETR. split; [exact Hlay|]. split; [exact Wm|]. constructor; assumption.
Qed.

Theorem compile_layer_tiled : forall st cells out, compile fixed st cells = Ok out ->
  Forall2 (fun c shapes => wf_cellb st c = true ->
     forall l m, layer_in_cell st c l m ->
       (forall t, alone_at st c m t ->
          track_tiled st c l m t (map norm shapes) /\ track_tiledb st c l m t (map norm shapes) = true) /\
       (forall s, In s (map norm shapes) -> on_layer (m_raw m) s = true ->
          exists t, In t (tracks_of st c m) /\
                    sh_across m s = (fst (ct_pos t), fst (ct_pos t) + snd (ct_pos t)))) cells out.
Proof.
  intros st cells out H. apply (compile_cells _ _ _ _ H). intros vs c shapes Hvs He Hwf l m Hlm.
  destruct (layer_ctx _ _ _ _ _ _ Hwf Hvs He Hlm) as [lay [ETR [Hlay [Wm HT]]]]. split.
  - intros t [Ht Hg]. eapply layer_track_tiled; eauto.
  - intros s Hs Hon. pose proof (layer_no_stray _ _ _ _ _ _ _ Hwf Wm Hlay HT) as Hst.
    rewrite forallb_forall in Hst. specialize (Hst _ Hs). rewrite Hon in Hst. cbn [negb orb] in Hst.
    apply existsb_exists in Hst. destruct Hst as [t [Ht Hp]]. apply pair_eqb_eq in Hp. eauto.
Qed.

Theorem compile_nothing_else : forall st cells out, compile fixed st cells = Ok out ->
  Forall2 (fun c shapes => wf_cellb st c = true ->
     forallb (fun s => is_via_shape st s || is_metal_shape st c s) (map norm shapes) = true) cells out.
Proof. intros st cells out H. apply (compile_cells _ _ _ _ H). intros vs c shapes Hvs He Hwf. eapply cell_no_other; eauto. Qed.

(** (e) nets *)
Theorem compile_nets : forall st cells out, compile fixed st cells = Ok out ->
  Forall2 (fun c shapes => wf_cellb st c = true ->
     forall l m t, layer_in_cell st c l m -> alone_at st c m t -> nets_okb st c l m t (map norm shapes) = true) cells out.
Proof.
  intros st cells out H. apply (compile_cells _ _ _ _ H).
  intros vs c shapes Hvs He Hwf l m t Hlm [Ht Hg].
  destruct (layer_ctx _ _ _ _ _ _ Hwf Hvs He Hlm) as [lay [ETR [Hlay [Wm HT]]]]. destruct Hlm as [Hl Hm].
  destruct (singleton_group _ _ _ _ _ _ _ _ _ Hwf Wm Hlay HT Ht Hg) as [_ [e [Hin [Hfe Hp]]]].
  eapply nets_one; eauto.
Qed.

(** rails shared by several periods (coinciding rails of one kind): tiling of the group and nets *)
Theorem compile_shared_rails : forall st cells out, compile fixed st cells = Ok out ->
  Forall2 (fun c shapes => wf_cellb st c = true ->
     forall l m t k, layer_in_cell st c l m -> In t (tracks_of st c m) -> ct_rail t = Some k ->
       forallb (fun u => rail_kind_eqb (ct_rail u) (ct_rail t)) (same_track_group t (tracks_of st c m)) = true ->
       group_tiledb st c l m (same_track_group t (tracks_of st c m)) (pieces_at m (ct_pos t) (map norm shapes)) = true /\
       nets_okb st c l m t (map norm shapes) = true) cells out.
Proof.
  intros st cells out H. apply (compile_cells _ _ _ _ H). intros vs c shapes Hvs He Hwf l m t k Hlm Ht Hk Hall.
  destruct (layer_ctx _ _ _ _ _ _ Hwf Hvs He Hlm) as [lay [ETR [Hlay [Wm HT]]]]. destruct Hlm as [Hl Hm].
  eapply group_rails; eauto.
Qed.

(** the statement C08_full as written does not hold *)
Lemma full_as_stated_refuted :
  ~ (forall st cells out, compile fixed st cells = Ok out ->
       Forall2 (fun c shapes => wf_cellb st c = true -> spec_cell st c shapes = []) cells out).
Proof.
  intros Hfull. destruct coincide_witness as [Hwf [shapes [Hc Hs]]]. specialize (Hfull _ _ _ Hc).
  inversion Hfull as [|c0 s0 l1 l2 Hcs _]; subst. unfold all_wfb, cells_coincide in Hwf. cbn [forallb] in Hwf.
  rewrite andb_true_r in Hwf. specialize (Hcs Hwf). rewrite Hs in Hcs. discriminate.
Qed.

(** (b) PER-PERIOD SELECTION, in one statement.  For layer l (metal m), period q and the r-th signal track
    of the period -- the one `&mut signals[track % nsig]` selects -- with k = q * nsig + r its number:
    the spans the exporter blocks on every track of the period are the specification's [blocks];
    the cuts it applies to that track are exactly the cell's cuts on track (l, k), in order; the
    bottom / top assignments it applies to that track are exactly the validated assignments whose
    bottom / top track is (l, k), in order. *)
Theorem period_selection : forall st vs c vas m l vm q (N r : nat),
  vs_of st vs -> vm_of m l vm -> (0 < N)%nat -> Z.of_nat N = nsig m -> 0 <= q -> (r < N)%nat ->
  let tp := temp_period fixed vs c vas vm q in
  let k := q * nsig m + Z.of_nat r in
  map bounds (requested (map (block_op vs (m_horiz m)) (tp_blocks tp))) = blocks st c l m q /\
  map snd (filter (fun x => Nat.eqb (cut_idx N x) r) (tp_cuts tp)) = filter (fun x => (x_tl x =? l) && (x_tt x =? k)) (c_cuts c) /\
  filter (fun x => Nat.eqb (asg_idx N false x) r) (tp_bot tp) = filter (fun v => (fst (va_bot v) =? l) && (snd (va_bot v) =? k)) vas /\
  filter (fun x => Nat.eqb (asg_idx N true x) r) (tp_top tp) = filter (fun v => (fst (va_top v) =? l) && (snd (va_top v) =? k)) vas.
Proof.
  intros st vs c vas m l vm q N r Hvs Hvm HN HNn Hq Hr tp k.
  assert (Hz : zlen (vm_sigs vm) = Z.of_nat N) by (rewrite HNn; apply (vmo_nsig _ _ _ Hvm)).
  split; [apply period_blocks_spec; assumption|].
  unfold tp, k. rewrite (cuts_of_track vs c vas vm N r q HN Hq Hr Hz), (bots_of_track vs c vas vm N r q HN Hq Hr Hz),
    (tops_of_track vs c vas vm N r q HN Hq Hr Hz), (vmo_index _ _ _ Hvm), HNn.
  split; [|split; reflexivity].
  apply (indexed_filter_snd _ (fun x => (x_tl x =? l) && (x_tt x =? q * nsig m + Z.of_nat r)) (c_cuts c)).
Qed.

