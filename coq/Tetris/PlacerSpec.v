(** Specification for property C09, written from the property statement (not from placer.rs).
    Only the DATA types of the model (Side, Dir, Separation, Array, Node ...) are shared; every
    definition below is geometry over plain integers.

    - [inst_box]: the rectangle an instance occupies: the cell's bounding rectangle [0,w] x [0,h]
      in the cell's own frame, mirrored about the vertical / horizontal axis through the instance
      origin when reflected horizontally / vertically, with the origin put at (x, y).
    - [touches side sep b r]: box [b] lies on side [side] of reference box [r], the facing edges
      [sep] apart.   [flush a b r]: the [a] edges of [b] and [r] coincide.
    - [sep_amount]: the separation a relation requests along the axis of its side.
    - [spec_array]: the elements of a (nested) array instance: copy i at i times the pitch,
      positions and elements mirrored by the array instance's reflection.
    - [chain_ends] / [cyclic_from]: a chain of "placed relative to" references that never ends. *)
From Coq Require Import ZArith List Bool Arith.
From L21 Require Import Tetris.Placer.
Import ListNotations.
Local Open Scope Z_scope.

Record box := mkbox { bx0 : Z; by0 : Z; bx1 : Z; by1 : Z }.

(** coordinate of a point at distance [p] from the origin [o] along an axis, mirrored or not *)
Definition tx (refl : bool) (o p : Z) : Z := if refl then o - p else o + p.

Definition inst_box (w h x y : Z) (rh rv : bool) : box :=
  mkbox (Z.min (tx rh x 0) (tx rh x w)) (Z.min (tx rv y 0) (tx rv y h))
        (Z.max (tx rh x 0) (tx rh x w)) (Z.max (tx rv y 0) (tx rv y h)).

Definition touches (s : Side) (sep : Z) (b r : box) : Prop :=
  match s with
  | Right => bx0 b = bx1 r + sep
  | Left => bx1 b = bx0 r - sep
  | Top => by0 b = by1 r + sep
  | Bottom => by1 b = by0 r - sep
  end.

Definition flush (a : Side) (b r : box) : Prop :=
  match a with
  | Left => bx0 b = bx0 r
  | Right => bx1 b = bx1 r
  | Bottom => by0 b = by0 r
  | Top => by1 b = by1 r
  end.

Definition touchesb (s : Side) (sep : Z) (b r : box) : bool :=
  match s with
  | Right => bx0 b =? bx1 r + sep
  | Left => bx1 b =? bx0 r - sep
  | Top => by0 b =? by1 r + sep
  | Bottom => by1 b =? by0 r - sep
  end.

Definition flushb (a : Side) (b r : box) : bool :=
  match a with
  | Left => bx0 b =? bx0 r
  | Right => bx1 b =? bx1 r
  | Bottom => by0 b =? by0 r
  | Top => by1 b =? by1 r
  end.

(** the axis along which a side faces *)
Definition axis_of (s : Side) : Dir := match s with Left | Right => Horiz | Top | Bottom => Vert end.
(** the two alignments that make sense for a side: the edges running along the other axis *)
Definition orthogonal (s a : Side) : bool := negb (dir_eqb (axis_of s) (axis_of a)).

Definition size_along (cells : Cells) (c : nat) (d : Dir) : option Z :=
  match nth_error cells c with
  | Some (Some (w, h)) => Some (match d with Horiz => w | Vert => h end)
  | _ => None
  end.

(** The requested separation of a relation on side [s]: nothing = 0, a number of primitive pitches
    along the side's axis, or the extent of another cell along that axis.  [None] = not one of the
    separation kinds of the property (other axis, z, other units, cell without outline). *)
Definition sep_amount (cells : Cells) (s : Side) (sep : Separation) : option Z :=
  match sepz sep, sep_dir sep (dir_other (axis_of s)) with
  | None, None =>
    match sep_dir sep (axis_of s) with
    | None => Some 0
    | Some (SepUnits (UPrim d n)) => if dir_eqb d (axis_of s) then Some n else None
    | Some (SepSizeOf c) => size_along cells c (axis_of s)
    | Some (SepUnits _) => None
    end
  | _, _ => None
  end.

(** * Arrays *)
Definition pitch_of (s : option SepBy) (d : Dir) : option Z :=
  match s with
  | None => Some 0
  | Some (SepUnits (UPrim pd n)) => if dir_eqb pd d then Some n else None
  | _ => None
  end.

(** an element: index path, cell, position *)
Definition elem := (list nat * nat * Z * Z)%type.

(** the elements of an array in its own frame, in order: copy i (i = 0 .. count-1) sits at i * pitch;
    [None] when a pitch is not given in primitive pitches along its own axis *)
Fixpoint spec_elems (a : Array) : option (list elem) :=
  match a with
  | mkArray unit count sep =>
    match pitch_of (sepx sep) Horiz, pitch_of (sepy sep) Vert with
    | Some dx, Some dy =>
      match unit with
      | UCell c => Some (map (fun i => ([i], c, Z.of_nat i * dx, Z.of_nat i * dy)) (seq 0 count))
      | UArr a' =>
        match spec_elems a' with
        | Some inner =>
          Some (flat_map (fun i =>
                  map (fun e : elem => let '(p, c, x, y) := e in
                                       (i :: p, c, x + Z.of_nat i * dx, y + Z.of_nat i * dy)) inner)
                  (seq 0 count))
        | None => None
        end
      end
    | _, _ => None
    end
  end.

(** an array instance named [name] at (x, y) with reflections (rh, rv): positions mirrored about
    the array origin, every element mirrored the same way *)
Definition spec_array (name : nat) (x y : Z) (rh rv : bool) (a : Array) : option (list OInst) :=
  match spec_elems a with
  | Some es =>
    Some (map (fun e : elem => let '(p, c, ex, ey) := e in
                 mkOInst (name :: p) c (PAbs (xy_of (tx rh x ex) (tx rv y ey))) rh rv) es)
  | None => None
  end.

(** * The relation graph *)
Definition node_rel (nd : Node) : option RelPlace :=
  match nd with
  | NInst i => match iloc i with PRel r => Some r | PAbs _ => None end
  | NArray a => match aloc a with PRel r => Some r | PAbs _ => None end
  | NPort _ => None
  end.

(** following "placed relative to" from node [n] ends (at an absolutely placed object) within [k] steps *)
Fixpoint chain_ends (pool : Pool) (k : nat) (n : nat) : bool :=
  match k with
  | O => false
  | S k' =>
    match nth_error pool n with
    | None => true
    | Some nd => match node_rel nd with None => true | Some r => chain_ends pool k' (rto r) end
    end
  end.

(** a chain over [length pool] nodes that has not ended after [length pool + 1] steps repeats a node *)
Definition cyclic_from (pool : Pool) (n : nat) : bool := negb (chain_ends pool (S (length pool)) n).
