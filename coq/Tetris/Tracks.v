(** Model of layout21tetris/src/tracks.rs: Track::set_net, Track::cut_or_block (cut, block)
    on the segment list of one track -- property C08.  No proofs here. *)
From Coq Require Import ZArith List Bool.
From L21 Require Import Tetris.Stack.
Import ListNotations.
Local Open Scope Z_scope.

(** error codes (TrackError variants) *)
Definition E_OutOfBounds := 301.
Definition E_Overlap := 302.
Definition E_Conflict := 303.
Definition E_CutConflict := 304.
Definition E_BlockageConflict := 305.

(** Track::set_net at net: the first segment with start <= at <= stop, unless a segment with
    start > at is met first.  Rail: `unreachable!()`; Cut: Err(Conflict); Blockage: Ok, nothing
    changes (the code's FIXME); Wire: the net is replaced. *)
Fixpoint set_net (at_ : Z) (net : Z) (segs : list seg) : res (list seg) :=
  match segs with
  | [] => Err E_OutOfBounds
  | s :: rest =>
    if s_start s >? at_ then Err E_OutOfBounds
    else if (s_start s <=? at_) && (s_stop s >=? at_) then
      match s_tp s with
      | TRail _ => Panic 310
      | TCut _ => Err E_Conflict
      | TBlock _ => Ok (s :: rest)
      | TWire _ => Ok (mkSeg (TWire (Some net)) (s_start s) (s_stop s) :: rest)
      end
    else do r <- set_net at_ net rest; Ok (s :: r)
  end.

(** the part of cut_or_block after the bounds check: find the first segment with
    stop > start (`position`), check its type and that the interval ends inside it, split *)
Fixpoint cob_go (start stop : Z) (tp : segtp) (segs : list seg) : res (list seg) :=
  match segs with
  | [] => Err E_OutOfBounds
  | s :: rest =>
    if s_stop s >? start then
      match s_tp s with
      | TBlock _ => Err E_BlockageConflict
      | TCut _ => Err E_CutConflict
      | tpcopy =>
        if s_stop s <? stop then Err E_Overlap
        else
          let tail := if s_stop s =? stop then rest else mkSeg tpcopy stop (s_stop s) :: rest in
          Ok (mkSeg tpcopy (s_start s) start :: mkSeg tp start stop :: tail)
      end
    else do r <- cob_go start stop tp rest; Ok (s :: r)
  end.

(** Track::cut_or_block start stop tp *)
Definition cut_or_block (start stop : Z) (tp : segtp) (segs : list seg) : res (list seg) :=
  match last (map Some segs) None with
  | None => Panic 311                       (* self.segments.last().unwrap() *)
  | Some l => if stop >? s_stop l then Err E_OutOfBounds else cob_go start stop tp segs
  end.

Definition track_cut (start stop src : Z) (t : track) : res track :=
  do s <- cut_or_block start stop (TCut src) (t_segs t); Ok (mkTrack (t_data t) s).
Definition track_block (start stop src : Z) (t : track) : res track :=
  do s <- cut_or_block start stop (TBlock src) (t_segs t); Ok (mkTrack (t_data t) s).
Definition track_set_net (at_ net : Z) (t : track) : res track :=
  do s <- set_net at_ net (t_segs t); Ok (mkTrack (t_data t) s).

(** LayerPeriod::block: all rails, then all signals *)
Definition period_block (start stop src : Z) (p : list track * list track) : res (list track * list track) :=
  let '(sigs, rails) := p in
  do rails' <- mapM (track_block start stop src) rails;
  do sigs' <- mapM (track_block start stop src) sigs;
  Ok (sigs', rails').
