(** Tie (a) of DESIGN.md 2.3 for the track arithmetic of the tetris stack (family "tetris_stack", property C08):
    the definitions generated from layout21tetris/src/validate.rs (`ValidMetalLayer::track_start_width`, `center`,
    `span`, `ValidStack::metal`) and stack.rs (`MetalLayer::entries`) -- Gen/KernelsTetrisGen.v, read over Z with the
    outcomes of Tetris/Stack.v ([ts_xops], Tetris/KernelsInstTetris.v) -- EQUAL the hand-written model functions
    [track_start_width fixed], [center fixed], [span fixed], [metal_at] (Tetris/Compile.v) and [entries]
    (Tetris/Stack.v), error and panic codes apart ([cls]: the codes are diagnostics).  The helper operators the Rust
    code goes through (`impl Mul<usize> for DbUnits`, `impl Div<Int> for DbUnits`, the derive_more `Add` / `Sub` of
    DbUnits) are generated too and unfolded here.  `idx` is a `usize`: the ties are for 0 <= idx. *)
From Coq Require Import ZArith Bool List Lia Ring.
From L21 Require Import Base.KernelOps Base.KernelOpsX Gen.KernelsTetrisGen Tetris.KernelsInstTetris.
From L21 Require Import Tetris.Stack Tetris.Compile.
Import ListNotations.
Local Open Scope Z_scope.

Lemma tie_dbunits_add : forall a b, g_DbUnits_add ts_xops (Gu a) (Gu b) = Ok (Gu (a + b)).
Proof. reflexivity. Qed.
Lemma tie_dbunits_sub : forall a b, g_DbUnits_sub ts_xops (Gu a) (Gu b) = Ok (Gu (a - b)).
Proof. reflexivity. Qed.
Lemma tie_dbunits_mul_usize : forall a k, g_DbUnits_mul_usize ts_xops (Gu a) k = Ok (Gu (k * a)).
Proof. reflexivity. Qed.
Lemma tie_dbunits_div_int : forall a k, k <> 0 -> g_DbUnits_div_Int ts_xops (Gu a) k = Ok (Gu (Z.quot a k)).
Proof.
  intros a k H. unfold g_DbUnits_div_Int, g_DbUnits_raw. cbn.
  apply Z.eqb_neq in H. rewrite H. reflexivity.
Qed.
Lemma zget_Gtd : forall l i, 0 <= i ->
  zget ts_ret ts_pan _ (map Gtd l) i = match nth_error l (Z.to_nat i) with Some t => Ok (Gtd t) | None => Panic 0 end.
Proof.
  intros l i H. unfold zget. destruct (i <? 0) eqn:E; [apply Z.ltb_lt in E; lia|].
  rewrite nth_error_map. destruct (nth_error l (Z.to_nat i)); reflexivity.
Qed.
Lemma zsub_usize : forall a b, 0 <= a - b -> zsub ts_ret ts_pan Usize a b = Ok (a - b).
Proof. intros a b H. unfold zsub. destruct (a - b <? 0) eqn:E; [apply Z.ltb_lt in E; lia|reflexivity]. Qed.

Lemma tie_track_start_width : forall vm idx, 0 <= idx ->
  g_ValidMetalLayer_track_start_width ts_xops (Gvm vm) idx = cls Gupair (track_start_width fixed vm idx).
Proof.
  intros vm idx Hidx.
  unfold g_ValidMetalLayer_track_start_width, track_start_width, zlen.
  cbn [fx_flip fixed Gvm gValidMetalLayer_period_data gLayerPeriodData_signals gValidMetalLayer_spec gValidMetalLayer_pitch
       Gmetal gMetalLayer_flip gMetalLayer_offset gMetalLayer_overlap].
  cbn [ts_xops z_xops kx_base z_kops v_len i_eq i_lit k_fail i_div k_bind k_ret i_rem i_sub v_get].
  rewrite map_length.
  set (len := Z.of_nat (length (vm_sigs vm))).
  destruct (len =? 0) eqn:E0.
  - reflexivity.
  - apply Z.eqb_neq in E0.
    assert (Hlen : 0 < len) by (unfold len in *; lia).
    assert (Hr : 0 <= Z.rem idx len < len) by (apply Z.rem_bound_pos; lia).
    cbn [ts_bind bind ts_ret]. rewrite tie_dbunits_mul_usize. cbn [ts_bind bind andb].
    change (2 =? 0) with false. cbv iota. cbn [ts_bind bind ts_ret].
    destruct (m_flip (vm_spec vm)); cbn [Gflip gFlipMode_eqb ts_bind bind ts_ret andb].
    + destruct (Z.rem (idx ÷ len) 2 =? 1).
      * rewrite zsub_usize by lia. cbn [ts_bind bind]. rewrite zsub_usize by lia. cbn [ts_bind bind].
        rewrite zget_Gtd by lia.
        destruct (nth_error (vm_sigs vm) (Z.to_nat (len - 1 - Z.rem idx len))) as [t|]; [|reflexivity].
        cbn [ts_bind bind Gtd gTrackData_start gTrackData_width].
        repeat (first [rewrite tie_dbunits_add | rewrite tie_dbunits_sub]; cbn [ts_bind bind]).
        cbn [ts_bind bind cls Gupair fst snd ts_ret].
        unfold ts_ret, Gupair; cbn [fst snd]. f_equal. f_equal. f_equal. ring.
      * rewrite zget_Gtd by lia.
        destruct (nth_error (vm_sigs vm) (Z.to_nat (Z.rem idx len))) as [t|]; [|reflexivity].
        cbn [ts_bind bind Gtd gTrackData_start gTrackData_width].
        rewrite tie_dbunits_add. cbn [ts_bind bind cls Gupair fst snd ts_ret].
        unfold ts_ret, Gupair; cbn [fst snd]. f_equal. f_equal. f_equal. ring.
    + rewrite zget_Gtd by lia.
      destruct (nth_error (vm_sigs vm) (Z.to_nat (Z.rem idx len))) as [t|]; [|reflexivity].
      cbn [ts_bind bind Gtd gTrackData_start gTrackData_width].
      rewrite tie_dbunits_add. cbn [ts_bind bind cls Gupair fst snd ts_ret].
      unfold ts_ret, Gupair; cbn [fst snd]. f_equal. f_equal. f_equal. ring.
Qed.

Lemma tie_center : forall vm idx, 0 <= idx ->
  g_ValidMetalLayer_center ts_xops (Gvm vm) idx = cls Gu (center fixed vm idx).
Proof.
  intros vm idx H. unfold g_ValidMetalLayer_center, center.
  cbn [ts_xops z_xops kx_base z_kops k_bind k_ret i_lit]. fold ts_xops.
  rewrite tie_track_start_width by assumption.
  destruct (track_start_width fixed vm idx) as [[s w]|c|c]; try reflexivity.
Qed.

Lemma tie_span : forall vm idx, 0 <= idx ->
  g_ValidMetalLayer_span ts_xops (Gvm vm) idx = cls Gupair (span fixed vm idx).
Proof.
  intros vm idx H. unfold g_ValidMetalLayer_span, span.
  cbn [ts_xops z_xops kx_base z_kops k_bind k_ret i_lit]. fold ts_xops.
  rewrite tie_track_start_width by assumption.
  destruct (track_start_width fixed vm idx) as [[s w]|c|c]; try reflexivity.
Qed.

Lemma tie_metal : forall vs idx, 0 <= idx ->
  g_ValidStack_metal ts_xops (Gvs vs) idx = cls Gvm (metal_at vs idx).
Proof.
  intros vs idx H. unfold g_ValidStack_metal, metal_at.
  cbn [ts_xops z_xops kx_base z_kops v_len i_le k_fail k_bind k_ret v_get Gvs gValidStack_metals].
  rewrite map_length.
  destruct (idx <? 0) eqn:E; [apply Z.ltb_lt in E; lia|].
  unfold zget. rewrite E. rewrite nth_error_map.
  destruct (Z.of_nat (length (vs_metals vs)) <=? idx) eqn:E2.
  - apply Z.leb_le in E2.
    destruct (nth_error (vs_metals vs) (Z.to_nat idx)) eqn:E3; [|reflexivity].
    exfalso. assert (Z.to_nat idx < length (vs_metals vs))%nat by (apply nth_error_Some; congruence). lia.
  - destruct (nth_error (vs_metals vs) (Z.to_nat idx)) eqn:E3; [reflexivity|].
    exfalso. apply Z.leb_gt in E2. apply nth_error_None in E3. lia.
Qed.

(** MetalLayer::entries *)
Lemma tie_entries_loop3 : forall (l : list (gTrackEntry unit Z)) v,
  k_foreach (kx_base ts_xops) (R := list (gTrackEntry unit Z)) l (fun ee st => g_MetalLayer_entries_loop3 ts_xops ee st) v
  = Ok (Cont (v ++ l)).
Proof.
  induction l as [|x r IH]; intros v; cbn [k_foreach].
  - rewrite app_nil_r. reflexivity.
  - unfold g_MetalLayer_entries_loop3 at 1. cbn [ts_xops z_xops kx_base z_kops k_bind k_ret ts_bind bind ts_ret]. fold ts_xops.
    rewrite IH. rewrite <- app_assoc. reflexivity.
Qed.
Lemma tie_entries_loop2 : forall p i v,
  g_MetalLayer_entries_loop2 ts_xops p i v = Ok (Cont (v ++ gRepeat_entries p)).
Proof.
  intros. unfold g_MetalLayer_entries_loop2. rewrite tie_entries_loop3. reflexivity.
Qed.
Lemma tie_entries_for : forall es n i v,
  for_from ts_ret ts_bind (R := list (gTrackEntry unit Z)) n i
    (fun _i st => g_MetalLayer_entries_loop2 ts_xops (mk_gRepeat (map Gentry es) (Z.of_nat n)) _i st) v
  = Ok (Cont (v ++ map Gentry (rep_entries n es))).
Proof.
  intros es n. generalize (Z.of_nat n) as nn. induction n as [|k IH]; intros nn i v; cbn [for_from rep_entries].
  - cbn [map]. rewrite app_nil_r. reflexivity.
  - rewrite tie_entries_loop2. cbn [ts_bind bind gRepeat_entries]. rewrite IH. rewrite map_app, app_assoc. reflexivity.
Qed.
Lemma tie_entries_loop1 : forall s v,
  g_MetalLayer_entries_loop1 ts_xops (Gspec s) v = Ok (Cont (v ++ map Gentry (spec_entries s))).
Proof.
  intros [e|es n] v; unfold g_MetalLayer_entries_loop1; cbn [Gspec spec_entries map].
  - reflexivity.
  - cbn [ts_xops z_xops kx_base z_kops k_bind k_ret k_for i_lit gRepeat_nrep]. fold ts_xops.
    unfold for_Z. rewrite Z.sub_0_r, Nat2Z.id. rewrite tie_entries_for. reflexivity.
Qed.
Lemma tie_entries_outer : forall specs v,
  k_foreach (kx_base ts_xops) (R := list (gTrackEntry unit Z)) (map Gspec specs)
    (fun e st => g_MetalLayer_entries_loop1 ts_xops e st) v
  = Ok (Cont (v ++ map Gentry (flat_map spec_entries specs))).
Proof.
  induction specs as [|s r IH]; intros v; cbn [map k_foreach flat_map].
  - rewrite app_nil_r. reflexivity.
  - rewrite tie_entries_loop1. cbn [ts_xops z_xops kx_base z_kops k_bind k_ret ts_bind bind]. fold ts_xops.
    rewrite IH. rewrite map_app, app_assoc. reflexivity.
Qed.
Lemma tie_entries : forall m, g_MetalLayer_entries ts_xops (Gmetal m) = Ok (map Gentry (entries m)).
Proof.
  intros m. unfold g_MetalLayer_entries, entries. cbn [Gmetal gMetalLayer_entries].
  rewrite tie_entries_outer. reflexivity.
Qed.

(** LibValidator::validate_track_ref / validate_track_cross *)
Lemma tie_validate_track_ref : forall vs layer track,
  g_LibValidator_validate_track_ref ts_xops (Gval vs) (mk_gTrackRef layer track) = cls (fun u => u) (validate_track_ref vs layer).
Proof.
  intros vs layer track. unfold g_LibValidator_validate_track_ref, validate_track_ref, assert, zlen.
  cbn [ts_xops z_xops kx_base z_kops k_bind k_ret k_fail i_lt v_len Gval Gvs gLibValidator_stack gValidStack_metals gTrackRef_layer].
  rewrite map_length. destruct (layer <? Z.of_nat (length (vs_metals vs))); reflexivity.
Qed.

Lemma dir_eqb_Gdirb : forall a b, gDir_eqb (Gdirb a) (Gdirb b) = Bool.eqb a b.
Proof. intros [] []; reflexivity. Qed.

Lemma tie_validate_track_cross : forall vs c, 0 <= x_tl c -> 0 <= x_cl c ->
  g_LibValidator_validate_track_cross ts_xops (Gval vs) (Gcross4 c) = cls (fun u => u) (validate_track_cross vs c).
Proof.
  intros vs c Ht Hc. unfold g_LibValidator_validate_track_cross, validate_track_cross.
  cbn [Gcross4 gTrackCross_track gTrackCross_cross gTrackRef_layer].
  rewrite !tie_validate_track_ref.
  cbn [ts_xops z_xops kx_base z_kops k_bind k_ret k_fail Gval gLibValidator_stack]. fold ts_xops.
  destruct (validate_track_ref vs (x_tl c)) as [[]|e|e]; try reflexivity. cbn [cls ts_bind bind].
  destruct (validate_track_ref vs (x_cl c)) as [[]|e|e]; try reflexivity. cbn [cls ts_bind bind].
  rewrite (tie_metal vs (x_tl c) Ht).
  destruct (metal_at vs (x_tl c)) as [mt|e|e]; try reflexivity. cbn [cls ts_bind bind ts_ret].
  rewrite (tie_metal vs (x_cl c) Hc).
  destruct (metal_at vs (x_cl c)) as [mc|e|e]; try reflexivity. cbn [cls ts_bind bind ts_ret].
  cbn [Gvm gValidMetalLayer_spec Gmetal gMetalLayer_dir]. rewrite dir_eqb_Gdirb. unfold assert.
  destruct (Bool.eqb (m_horiz (vm_spec mt)) (m_horiz (vm_spec mc))); reflexivity.
Qed.

(** MetalLayer::to_layer_period_data *)
Lemma Gtds_from_snoc : forall h l i t, Gtds_from h i (l ++ [t]) = Gtds_from h i l ++ [Gtdi h (i + length l) t].
Proof.
  intros h. induction l as [|x l IH]; intros i t; cbn [app Gtds_from length].
  - rewrite Nat.add_0_r. reflexivity.
  - rewrite IH. replace (S i + length l)%nat with (i + S (length l))%nat by lia. reflexivity.
Qed.
Lemma Gtds_from_length : forall h l i, length (Gtds_from h i l) = length l.
Proof. intros h. induction l as [|x l IH]; intros i; cbn [Gtds_from length]; [reflexivity|]. rewrite IH. reflexivity. Qed.

Lemma Gtds_length : forall h l, length (Gtds h l) = length l.
Proof. intros. apply Gtds_from_length. Qed.
Lemma Gtds_snoc : forall h l t, Gtds h (l ++ [t]) = Gtds h l ++ [Gtdi h (length l) t].
Proof. intros. unfold Gtds. rewrite Gtds_from_snoc. reflexivity. Qed.

Lemma tie_to_layer_period_data_loop : forall (gm : gMetalLayer unit Z) h es sigs rails c, gMetalLayer_dir gm = Gdirb h ->
  k_foreach (kx_base ts_xops) (R := gLayerPeriodData unit Z) (map Gentry es)
    (fun e st => g_MetalLayer_to_layer_period_data_loop1 ts_xops gm e st)
    (mk_gLayerPeriodData (Gtds h sigs) (Gtds h rails), Gu c)
  = Ok (Cont (mk_gLayerPeriodData (Gtds h (sigs ++ filter is_sig (walk es c))) (Gtds h (rails ++ filter is_rail (walk es c))),
              Gu (c + sum_w es))).
Proof.
  intros gm h es. change (kx_base ts_xops) with (z_kops ts_ret ts_bind ts_pan).
  induction es as [|e r IH]; intros sigs rails c Hd; cbn [map k_foreach walk filter].
  - rewrite !app_nil_r. cbn [sum_w fold_right]. rewrite Z.add_0_r. reflexivity.
  - unfold g_MetalLayer_to_layer_period_data_loop1 at 1.
    cbn [ts_xops z_xops kx_base z_kops k_bind k_ret v_len Gentry gTrackEntry_width gTrackEntry_ttype
         gLayerPeriodData_signals gLayerPeriodData_rails]. fold ts_xops.
    rewrite Hd.
    destruct e as [ety ew]. cbn [e_tt e_w].
    destruct ety as [| |k]; cbn [Gtt].
    + rewrite tie_dbunits_add. cbn [ts_bind bind ts_ret]. rewrite (IH sigs rails (c + ew) Hd).
      cbn [sum_w fold_right e_w]. rewrite Z.add_assoc. reflexivity.
    + rewrite tie_dbunits_add. cbn [ts_bind bind ts_ret].
      rewrite Gtds_length.
      change (mk_gTrackData gTrackType_Signal (Z.of_nat (length sigs)) (Gdirb h) (Gu c) (Gu ew))
        with (Gtdi h (length sigs) (mkTd Signal c ew)).
      rewrite <- Gtds_snoc.
      rewrite (IH (sigs ++ [mkTd Signal c ew]) rails (c + ew) Hd).
      cbn [is_sig is_rail td_tt]. rewrite <- !app_assoc. cbn [app].
      cbn [sum_w fold_right e_w]. rewrite Z.add_assoc. reflexivity.
    + destruct k; cbn [Gtt]; rewrite tie_dbunits_add; cbn [ts_bind bind ts_ret]; rewrite Gtds_length.
      * change (mk_gTrackData (gTrackType_Rail gRailKind_Pwr) (Z.of_nat (length rails)) (Gdirb h) (Gu c) (Gu ew))
          with (Gtdi h (length rails) (mkTd (Rail Pwr) c ew)).
        rewrite <- Gtds_snoc. rewrite (IH sigs (rails ++ [mkTd (Rail Pwr) c ew]) (c + ew) Hd).
        cbn [is_sig is_rail td_tt]; rewrite <- !app_assoc; cbn [app].
        cbn [sum_w fold_right e_w]; rewrite Z.add_assoc; reflexivity.
      * change (mk_gTrackData (gTrackType_Rail gRailKind_Gnd) (Z.of_nat (length rails)) (Gdirb h) (Gu c) (Gu ew))
          with (Gtdi h (length rails) (mkTd (Rail Gnd) c ew)).
        rewrite <- Gtds_snoc. rewrite (IH sigs (rails ++ [mkTd (Rail Gnd) c ew]) (c + ew) Hd).
        cbn [is_sig is_rail td_tt]; rewrite <- !app_assoc; cbn [app].
        cbn [sum_w fold_right e_w]; rewrite Z.add_assoc; reflexivity.
Qed.

Lemma tie_to_layer_period_data : forall m,
  g_MetalLayer_to_layer_period_data ts_xops (Gmetal m)
  = Ok (mk_gLayerPeriodData (Gtds (m_horiz m) (fst (to_layer_period_data m))) (Gtds (m_horiz m) (snd (to_layer_period_data m)))).
Proof.
  intros m. unfold g_MetalLayer_to_layer_period_data, to_layer_period_data.
  rewrite tie_entries.
  cbn [ts_xops z_xops kx_base z_kops k_bind k_ret ts_bind bind]. fold ts_xops.
  change (@nil (gTrackData unit Z)) with (Gtds (m_horiz m) []).
  cbn [Gmetal gMetalLayer_offset].
  rewrite (tie_to_layer_period_data_loop _ (m_horiz m) (entries m) [] [] (m_offset m)) by reflexivity.
  reflexivity.
Qed.

(** ValidMetalLayer::track_index *)
Lemma tie_track_index_position : forall rm (p : gTrackData unit Z -> res bool),
  (forall s, p (Gtd s) = Ok (rm <? td_start s + td_width s)) ->
  forall l n,
  k_position_from (z_kops ts_ret ts_bind ts_pan) p (map Gtd l) n
  = Ok (option_map (fun k => Z.of_nat n + k) (position (fun s => td_start s + td_width s >? rm) l)).
Proof.
  intros rm p Hp. induction l as [|s r IH]; intros n; cbn [map k_position_from position]; [reflexivity|].
  rewrite Hp. cbn [z_kops k_bind k_ret i_lit ts_bind bind ts_ret].
  rewrite Z.gtb_ltb. destruct (rm <? td_start s + td_width s).
  - cbn [option_map]. rewrite Z.add_0_r. reflexivity.
  - rewrite IH.
    destruct (position (fun s0 => td_start s0 + td_width s0 >? rm) r) as [k|]; cbn [option_map]; [|reflexivity].
    do 2 f_equal. lia.
Qed.

Lemma tie_track_index : forall vm dist, vm_pitch vm <> 0 ->
  g_ValidMetalLayer_track_index ts_xops (Gvm vm) (Gu dist) = cls (fun z => z) (track_index vm dist).
Proof.
  intros vm dist Hp. unfold g_ValidMetalLayer_track_index, track_index, g_DbUnits_div_DbUnits, g_DbUnits_rem, g_DbUnits_raw, k_position_m.
  cbn [Gvm gValidMetalLayer_pitch gValidMetalLayer_period_data gLayerPeriodData_signals Gu gDbUnits_0].
  apply Z.eqb_neq in Hp.
  cbn [ts_xops z_xops kx_base z_kops k_bind k_ret k_panic i_div i_rem i_mul i_add i_try_from_q v_len ts_bind bind ts_ret zunsigned andb]. fold ts_xops.
  rewrite !Hp. cbn [ts_bind bind ts_ret]. unfold zlen. rewrite map_length.
  destruct (Z.quot dist (vm_pitch vm) <? 0); [reflexivity|]. cbn [ts_bind bind ts_ret].
  rewrite (tie_track_index_position (Z.rem dist (vm_pitch vm))).
  2:{ intros s. cbn [Gtd gTrackData_start gTrackData_width]. rewrite tie_dbunits_add. reflexivity. }
  cbn [ts_bind bind].
  destruct (position (fun s => td_start s + td_width s >? Z.rem dist (vm_pitch vm)) (vm_sigs vm)) as [k|]; reflexivity.
Qed.

(** MetalLayer::pitch *)
Lemma tie_pitch_sum : forall es acc,
  k_sum (kx_base ts_xops) (fun a b => g_DbUnits_add ts_xops a b) (Gu acc) (List.map (fun e => gTrackEntry_width e) (map Gentry es))
  = Ok (Gu (acc + sum_w es)).
Proof.
  induction es as [|e r IH]; intros acc; cbn [map k_sum].
  - cbn [sum_w fold_right]. rewrite Z.add_0_r. reflexivity.
  - cbn [Gentry gTrackEntry_width]. rewrite tie_dbunits_add.
    cbn [ts_xops z_xops kx_base z_kops k_bind ts_bind bind]. fold ts_xops.
    change (z_kops ts_ret ts_bind ts_pan) with (kx_base ts_xops). rewrite IH.
    cbn [sum_w fold_right]. rewrite Z.add_assoc. reflexivity.
Qed.

Lemma tie_pitch : forall m, g_MetalLayer_pitch ts_xops (Gmetal m) = Ok (Gu (pitch m)).
Proof.
  intros m. unfold g_MetalLayer_pitch, pitch. rewrite tie_entries.
  cbn [ts_xops z_xops kx_base z_kops k_bind k_ret i_lit ts_bind bind ts_ret]. fold ts_xops.
  change (z_kops ts_ret ts_bind ts_pan) with (kx_base ts_xops).
  change (mk_gDbUnits 0) with (Gu 0). rewrite tie_pitch_sum. cbn [ts_bind bind Gmetal gMetalLayer_overlap].
  rewrite tie_dbunits_sub. reflexivity.
Qed.
