(** Executable checks for the correspondence run of C08 (tools/props/c08.py).  No proofs here.

    [c08_check fx st cells kind out]:
      fx    = which variant of the code the /repo working tree holds (five flags detected by sentinel cases, [fx_raw] read
              from the text of `export_stack` and cross-checked by a sentinel case),
      kind  = 0 the implementation returned Ok with the shapes [out] (one list per cell, in order),
              1 it returned Err (stack validation or conversion), 2 it panicked.
    Result = code + 10 * flags, code as in the guide:
      0 = impl equals the model and the property holds on the impl's output,
      1 = impl differs from the model, the property holds on the impl's output or is silent,
      2 = the property fails on the impl's output (a panic always does: every failure must be an Err);
    flags: 1 = some cell is outside the property's domain (not well-formed: the property is silent
    on it), 2 = the spec evaluation was ambiguous for some track (coinciding tracks of different
    kinds; not judged). *)
From Coq Require Import ZArith List Bool.
From L21 Require Import Tetris.Stack Tetris.Tracks Tetris.Compile Tetris.CompileSpec.
Import ListNotations.
Local Open Scope Z_scope.

Definition opt_eqb (a b : option Z) : bool :=
  match a, b with Some x, Some y => x =? y | None, None => true | _, _ => false end.
Definition shape_eqb (a b : shape) : bool :=
  (sh_layer a =? sh_layer b) && (sh_x0 a =? sh_x0 b) && (sh_y0 a =? sh_y0 b) &&
  (sh_x1 a =? sh_x1 b) && (sh_y1 a =? sh_y1 b) && opt_eqb (sh_net a) (sh_net b).
Fixpoint list_eqb {A} (eq : A -> A -> bool) (a b : list A) : bool :=
  match a, b with
  | [], [] => true
  | x :: r, y :: s => eq x y && list_eqb eq r s
  | _, _ => false
  end.

Fixpoint all2b {A B} (f : A -> B -> bool) (a : list A) (b : list B) : bool :=
  match a, b with
  | [], [] => true
  | x :: r, y :: s => f x y && all2b f r s
  | _, _ => false
  end.

(** shapes arrive from Python as tuples (layer, x0, y0, x1, y1, net) with net 0 = none *)
Definition mk_shape (t : Z * Z * Z * Z * Z * Z) : shape :=
  let '(l, x0, y0, x1, y1, n) := t in mkShape l x0 y0 x1 y1 (if n =? 0 then None else Some n).

(** ** the property's domain *)
Definition pair_eqb (p q : Z * Z) : bool := (fst p =? fst q) && (snd p =? snd q).
Fixpoint nodupb (l : list Z) : bool :=
  match l with [] => true | x :: r => negb (existsb (Z.eqb x) r) && nodupb r end.

(** the stack is one the property talks about: positive widths, pitches, every layer drawn on its
    own raw layer *)
Definition wf_stackb (st : stack) : bool :=
  (0 <? s_px st) && (0 <? s_py st) &&
  forallb (fun m => forallb (fun e => 0 <? e_w e) (flat m) && (0 <? period_len m) && (0 <? nsig m)
                    && (0 <? m_cutsize m) && (0 <=? m_overlap m)
                    && match m_raw m with Some _ => true | None => false end) (s_metals st) &&
  forallb (fun v => (0 <? v_sx v) && (0 <? v_sy v) && match v_raw v with Some _ => true | None => false end) (s_vias st) &&
  nodupb (flat_map (fun m => match m_raw m with Some r => [r] | None => [] end) (s_metals st)
          ++ flat_map (fun v => match v_raw v with Some r => [r] | None => [] end) (s_vias st)).

Definition ntracks (st : stack) (c : cell) (m : metal) : Z := nperiods st c m * nsig m.
Definition dir_differs (st : stack) (l1 l2 : Z) : bool :=
  match metal_of st l1, metal_of st l2 with
  | Some a, Some b => negb (Bool.eqb (m_horiz a) (m_horiz b))
  | _, _ => false
  end.
Definition track_in_cell (st : stack) (c : cell) (l k : Z) : bool :=
  match metal_of st l with
  | Some m => (0 <=? k) && (k <? ntracks st c m)
  | None => false
  end.
Definition period_of (m : metal) (k : Z) : Z := k / nsig m.

(** the boundaries of the non-wire pieces of signal track (l, k), doubled *)
Definition boundaries2 (st : stack) (c : cell) (l : Z) (m : metal) (k : Z) : list Z :=
  flat_map (fun p => [2 * fst p; 2 * snd p])
           (blocks st c l m (period_of m k) ++ concat (cut_candidates st c l m k)).

Definition cut_wfb (st : stack) (c : cell) (x : cross) : bool :=
  match metal_of st (x_tl x) with
  | Some m =>
    (x_tl x <? c_metals c) && track_in_cell st c (x_tl x) (x_tt x) &&
    dir_differs st (x_tl x) (x_cl x) && track_in_cell st c (x_cl x) (x_ct x) &&
    match cross2 st (x_cl x) (x_ct x) with
    | Some c2 => forallb (fun p => (0 <=? fst p) && (snd p <=? along_len st c m))
                         (centred_candidates c2 (m_cutsize m))
    | None => false
    end
  | None => false
  end.

(** nets on one track are separated: two assignments with different nets have a cut or a block
    strictly between their crossings *)
Definition separatedb (st : stack) (c : cell) (l : Z) (m : metal) (k : Z) : bool :=
  let asg := assigns_on st c l k in
  let seps := map (fun bl => [bl]) (blocks st c l m (period_of m k)) ++ cut_candidates st c l m k in
  forallb (fun a => forallb (fun b =>
     (fst a =? fst b) || negb (snd a <? snd b) ||
     existsb (fun cands => negb (match cands with [] => true | _ => false end) &&
                forallb (fun p => (snd a <? 2 * fst p) && (2 * snd p <? snd b)) cands)
             seps) asg) asg
  && forallb (fun a => forallb (fun b => (fst a =? fst b) || negb (snd a =? snd b)) asg) asg.

(** clearance of a crossing ON THE INTEGER GRID (added 2026-10-01, coordinator decision, DESIGN.md sections 4 and 9):
    `center` rounds the centre of a track of ODD width down, so the point the exporter works with is
    (c2 - 1) / 2 when the doubled crossing coordinate c2 is odd.  An assignment whose rounded crossing
    sits on the end of a cut / blocked span of the track (or on the far outline edge) asks for a via that
    touches the cut / instance area: it is outside the property's well-formed space, exactly like the
    exact-boundary case excluded below.  Vacuous when c2 is even (all ends are even once doubled). *)
Definition clear1 (st : stack) (c : cell) (l : Z) (m : metal) (k c2 : Z) : bool :=
  negb (existsb (Z.eqb (c2 - 1)) (boundaries2 st c l m k)) && negb (c2 - 1 =? 2 * along_len st c m).
Definition crossing_clearb (st : stack) (c : cell) (a : Z * cross) : bool :=
  match assign_bt a with
  | Some (_, b, t) =>
    match metal_of st (fst b), metal_of st (fst t), cross2 st (fst t) (snd t), cross2 st (fst b) (snd b) with
    | Some mb, Some mt, Some cb2, Some ct2 => clear1 st c (fst b) mb (snd b) cb2 && clear1 st c (fst t) mt (snd t) ct2
    | _, _, _, _ => false
    end
  | None => false
  end.

Definition assign_wfb (st : stack) (c : cell) (a : Z * cross) : bool :=
  (0 <? fst a) && crossing_clearb st c a &&
  match assign_bt a with
  | Some (_, b, t) =>
    (fst t <? c_metals c) && dir_differs st (fst b) (fst t) &&
    track_in_cell st c (fst b) (snd b) && track_in_cell st c (fst t) (snd t) &&
    match via_between st (fst b), metal_of st (fst b), metal_of st (fst t),
          cross2 st (fst t) (snd t), cross2 st (fst b) (snd b) with
    | Some _, Some mb, Some mt, Some cb2, Some ct2 =>
      (* the crossing is not on the boundary of a cut or blocked span of either track *)
      negb (existsb (Z.eqb cb2) (boundaries2 st c (fst b) mb (snd b))) &&
      negb (existsb (Z.eqb ct2) (boundaries2 st c (fst t) mt (snd t))) &&
      separatedb st c (fst b) mb (snd b) && separatedb st c (fst t) mt (snd t)
    | _, _, _, _, _ => false
    end
  | None => false
  end.

Definition inst_wfb (st : stack) (c : cell) (i : inst) : bool :=
  let b := inst_box st i in
  (0 <=? i_metals i) && (0 <? i_ox i) && (0 <? i_oy i) &&
  (0 <=? fst (fst b)) && (snd (fst b) <=? c_ox c * s_px st) &&
  (0 <=? fst (snd b)) && (snd (snd b) <=? c_oy c * s_py st).

Definition wf_cellb (st : stack) (c : cell) : bool :=
  wf_stackb st && (0 <? c_ox c) && (0 <? c_oy c) && (0 <=? c_metals c) &&
  (c_metals c <=? zlen (s_metals st)) &&
  forallb (cut_wfb st c) (c_cuts c) && forallb (assign_wfb st c) (c_assigns c) &&
  forallb (inst_wfb st c) (c_insts c).

(** ** the property evaluated on the shapes of one cell: list of failure codes, [] = holds.
    1xx tiling on layer xx, 2xx nets on layer xx, 3xx vias, 4xx stray shape, 9xx ambiguous *)
Definition same_track_group (t : ctrack) (ts : list ctrack) : list ctrack :=
  filter (fun u => pair_eqb (ct_pos u) (ct_pos t)) ts.
Definition rail_kind_eqb (a b : option railkind) : bool :=
  match a, b with
  | Some Pwr, Some Pwr | Some Gnd, Some Gnd => true
  | _, _ => false
  end.

(** complement of sorted, disjoint blocks within [lo, hi]: the non-empty gaps; None if the blocks
    overlap or leave [lo, hi] *)
Fixpoint gaps (bl : list (Z * Z)) (lo hi : Z) : option (list (Z * Z)) :=
  match bl with
  | [] => if lo <=? hi then Some (if lo <? hi then [(lo, hi)] else []) else None
  | (a, b) :: r =>
    if (lo <=? a) && (a <=? b) then
      option_map (fun g => if lo <? a then (lo, a) :: g else g) (gaps r b hi)
    else None
  end.

(** several coinciding rails of one kind (shared between adjacent periods): the non-empty pieces
    drawn there are exactly the gaps of every member, empty pieces sit on breakpoints *)
Definition group_tiledb (st : stack) (c : cell) (l : Z) (m : metal) (g : list ctrack) (ps : list shape) : bool :=
  let L := along_len st c m in
  let gs := map (fun t => gaps (psort (blocks st c l m (ct_q t))) 0 L) g in
  if forallb (fun o => match o with Some _ => true | None => false end) gs then
    let want := psort (flat_map (fun o => match o with Some x => x | None => [] end) gs) in
    let pieces := map (sh_along m) ps in
    let nonempty := psort (filter (fun p => fst p <? snd p) pieces) in
    let brk := 0 :: L :: flat_map (fun t => flat_map (fun p => [fst p; snd p]) (blocks st c l m (ct_q t))) g in
    list_eqb pair_eqb want nonempty &&
    forallb (fun p => (fst p <? snd p) || existsb (Z.eqb (fst p)) brk) pieces
  else false.

Definition spec_layer (st : stack) (c : cell) (l : Z) (m : metal) (shapes : list shape) : list Z :=
  let ts := tracks_of st c m in
  flat_map (fun t =>
    let g := same_track_group t ts in
    match g with
    | [_] => (if track_tiledb st c l m t shapes then [] else [100 + l])
             ++ (if nets_okb st c l m t shapes then [] else [200 + l])
    | _ =>
      if forallb (fun u => rail_kind_eqb (ct_rail u) (ct_rail t)) g then
        (if group_tiledb st c l m g (pieces_at m (ct_pos t) shapes) then [] else [100 + l])
        ++ (if nets_okb st c l m t shapes then [] else [200 + l])
      else [900 + l]
    end) ts
  (* every rectangle on this metal sits on one of the cell's tracks *)
  ++ (if forallb (fun s => negb (on_layer (m_raw m) s) ||
                           existsb (fun t => pair_eqb (sh_across m s) (fst (ct_pos t), fst (ct_pos t) + snd (ct_pos t))) ts)
                 shapes then [] else [400 + l]).

Definition is_via_shape (st : stack) (s : shape) : bool := existsb (fun v => on_layer (v_raw v) s) (s_vias st).
Definition is_metal_shape (st : stack) (c : cell) (s : shape) : bool :=
  existsb (fun lm => on_layer (m_raw (snd lm)) s) (firstn (Z.to_nat (c_metals c)) (indexed (s_metals st))).

Definition spec_cell (st : stack) (c : cell) (shapes0 : list shape) : list Z :=
  let shapes := map norm shapes0 in
  flat_map (fun lm => spec_layer st c (fst lm) (snd lm) shapes)
           (firstn (Z.to_nat (c_metals c)) (indexed (s_metals st)))
  (* one via per assignment *)
  ++ (let vs := filter (is_via_shape st) shapes in
      if (zlen vs =? zlen (c_assigns c))
         && forallb (fun a => existsb (via_okb st a) vs) (c_assigns c)
         && forallb (fun s => existsb (fun a => via_okb st a s) (c_assigns c)) vs then [] else [300])
  (* nothing else is drawn *)
  ++ (if forallb (fun s => is_via_shape st s || is_metal_shape st c s) shapes then [] else [499]).

(** ** the check *)
Definition res_shapes_eqb (m : res (list (list shape))) (kind : Z) (out : list (list shape)) : bool :=
  match m with
  | Ok ms => (kind =? 0) && list_eqb (list_eqb shape_eqb) ms out
  | Err _ => kind =? 1
  | Panic _ => kind =? 2
  end.

Definition c08_explain (st : stack) (cells : list cell) (out : list (list (Z * Z * Z * Z * Z * Z))) : list (list Z) :=
  map (fun co => if wf_cellb st (fst co) then spec_cell st (fst co) (map mk_shape (snd co)) else [-1])
      (combine cells out).

Definition c08_check (fx : fixes) (st : stack) (cells : list cell) (kind : Z)
           (out : list (list (Z * Z * Z * Z * Z * Z))) : Z :=
  let outs := map (map mk_shape) out in
  let model_eq := res_shapes_eqb (compile fx st cells) kind outs in
  if kind =? 2 then 2
  else if kind =? 1 then (if model_eq then 0 else 1)
  else
    let ex := c08_explain st cells out in
    let codes := concat ex in
    let fail := existsb (fun x => (0 <=? x) && (x <? 900)) codes || negb (zlen out =? zlen cells) in
    let silent := existsb (fun x => x =? -1) codes in
    let ambig := existsb (fun x => 900 <=? x) codes in
    (if fail then 2 else if model_eq then 0 else 1)
    + 10 * ((if silent then 1 else 0) + (if ambig then 2 else 0)).

(** model evaluation alone (for the sentinel cases that detect the variant in /repo, and for
    the tracks op): class of the result, 0 Ok / 1 Err / 2 Panic *)
Definition res_class {A} (r : res A) : Z := match r with Ok _ => 0 | Err _ => 1 | Panic _ => 2 end.

(** op "tracks": center / span of the first n tracks of every metal, and the lcm pitches *)
Definition tracks_model (fx : fixes) (st : stack) (n : Z) : res (list (list (Z * Z * Z)) * list Z) :=
  do vs <- validate_stack st;
  do rows <- mapM (fun vm => mapM (fun k => do c <- center fx vm k; do s <- span fx vm k; Ok (c, fst s, snd s)) (zseq n))
                  (vs_metals vs);
  Ok (rows, vs_pitches vs).
Definition triple_eqb (a b : Z * Z * Z) : bool :=
  let '(a1, a2, a3) := a in let '(b1, b2, b3) := b in (a1 =? b1) && (a2 =? b2) && (a3 =? b3).
(** spec for center/span: equal to track_pos (centre = pos + width/2 rounded down or up) *)
Definition tracks_spec_ok (st : stack) (rows : list (list (Z * Z * Z))) : bool :=
  all2b (fun (lm : Z * metal) row =>
      all2b (fun k (r : Z * Z * Z) =>
          let '(c, a, b) := r in
          match track_pos_m (snd lm) k with
          | Some p => (a =? fst p) && (b =? fst p + snd p) && (Z.abs (2 * c - centre2 p) <=? 1)
          | None => false
          end) (zseq (zlen row)) row)
    (indexed (s_metals st)) rows.
Definition c08_check_tracks (fx : fixes) (st : stack) (n : Z) (kind : Z) (rows : list (list (Z * Z * Z))) (pitches : list Z) : Z :=
  let m := tracks_model fx st n in
  let model_eq := match m with
                  | Ok (r, p) => (kind =? 0) && list_eqb (list_eqb triple_eqb) r rows && list_eqb Z.eqb p pitches
                  | Err _ => kind =? 1
                  | Panic _ => kind =? 2
                  end in
  if kind =? 2 then 2
  else if kind =? 1 then (if model_eq then 0 else 1)
  else if wf_stackb st && negb (tracks_spec_ok st rows) then 2
  else if model_eq then 0 else 1.
