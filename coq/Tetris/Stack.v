(** Model of layout21tetris/src/stack.rs (MetalLayer::entries, pitch, to_layer_period_data,
    to_layer_period) and of the stack validation in validate.rs (validate_stack,
    validate_metal) -- property C08.  No proofs here.

    Integers are [Z].  `isize` `/` and `%` are [Z.quot] and [Z.rem] (truncation towards zero);
    `usize` quantities are non-negative by construction of the inputs, where both pairs of
    operators agree.  Overflow of `isize` arithmetic is NOT modelled (all coordinates of the
    correspondence run are far below 2^31); every other way the Rust code can stop -- `Err`,
    index out of bounds, `unwrap` on `None`, remainder by zero, `usize` subtraction below zero,
    `unreachable!` -- is an explicit outcome.

    Error / panic codes are for diagnostics only; the correspondence compares the class
    (Ok / Err / Panic), not the message. *)
From Coq Require Import ZArith List Bool.
Import ListNotations.
Local Open Scope Z_scope.

Inductive res (A : Type) : Type :=
| Ok (a : A)
| Err (code : Z)      (* LayoutResult::Err / TrackResult::Err *)
| Panic (code : Z).   (* the thread panics *)
Arguments Ok {A} a.
Arguments Err {A} code.
Arguments Panic {A} code.

Definition bind {A B} (x : res A) (f : A -> res B) : res B :=
  match x with Ok a => f a | Err c => Err c | Panic c => Panic c end.
Notation "'do' x <- e ; k" := (bind e (fun x => k))
  (at level 200, x pattern, e at level 100, k at level 200, right associativity).

Definition assert (b : bool) (code : Z) : res unit := if b then Ok tt else Err code.

(** monadic map / fold with early exit, left to right (Rust `for … { …? }`) *)
Fixpoint mapM {A B} (f : A -> res B) (l : list A) : res (list B) :=
  match l with
  | [] => Ok []
  | x :: r => do y <- f x; do ys <- mapM f r; Ok (y :: ys)
  end.
Fixpoint foldM {A S} (f : S -> A -> res S) (l : list A) (s : S) : res S :=
  match l with
  | [] => Ok s
  | x :: r => do s' <- f s x; foldM f r s'
  end.

(** ** tracks.rs: TrackType, RailKind, TrackEntry, TrackSpec, Repeat *)
Inductive railkind := Pwr | Gnd.
Inductive ttype := Gap | Signal | Rail (k : railkind).
Record entry := mkEntry { e_tt : ttype; e_w : Z }.
Inductive tspec :=
| SEntry (e : entry)
| SRepeat (es : list entry) (nrep : nat).

(** stack.rs: MetalLayer (name omitted).  [m_horiz] = (dir == Dir::Horiz); [m_flip] = (flip ==
    FlipMode::EveryOther); [m_primgrid] = (prim is Split or Prim), the only use of `prim`;
    [m_raw] = the raw layer the metal is drawn on (None = `raw: None`). *)
Record metal := mkMetal {
  m_horiz : bool; m_cutsize : Z; m_specs : list tspec; m_offset : Z; m_overlap : Z;
  m_flip : bool; m_primgrid : bool; m_raw : option Z }.

(** stack.rs: ViaLayer; targets are [Some i] = Metal(i), [None] = Primitive *)
Record via := mkVia { v_bot : option Z; v_top : option Z; v_sx : Z; v_sy : Z; v_raw : option Z }.

(** stack.rs: Stack (units omitted); [s_haslayers]/[s_hasboundary] = rawlayers/boundary_layer is Some *)
Record stack := mkStack {
  s_px : Z; s_py : Z; s_metals : list metal; s_vias : list via;
  s_haslayers : bool; s_hasboundary : bool }.

(** MetalLayer::entries -- flatten one level of Repeat *)
Fixpoint rep_entries (n : nat) (es : list entry) : list entry :=
  match n with O => [] | S k => es ++ rep_entries k es end.
Definition spec_entries (s : tspec) : list entry :=
  match s with SEntry e => [e] | SRepeat es n => rep_entries n es end.
Definition entries (m : metal) : list entry := flat_map spec_entries (m_specs m).

Definition sum_w (es : list entry) : Z := fold_right (fun e a => e_w e + a) 0 es.
(** MetalLayer::pitch *)
Definition pitch (m : metal) : Z := sum_w (entries m) - m_overlap m.

(** tracks.rs: TrackData (index, dir are derivable and omitted): rail kind or signal, start, width *)
Record tdata := mkTd { td_tt : ttype; td_start : Z; td_width : Z }.

(** the common loop of to_layer_period_data / to_layer_period: walk the entries with a cursor,
    emitting a TrackData for every non-gap entry, in visiting order *)
Fixpoint walk (es : list entry) (cursor : Z) : list tdata :=
  match es with
  | [] => []
  | e :: r =>
    match e_tt e with
    | Gap => walk r (cursor + e_w e)
    | ty => mkTd ty cursor (e_w e) :: walk r (cursor + e_w e)
    end
  end.
Definition is_sig (t : tdata) : bool := match td_tt t with Signal => true | _ => false end.
Definition is_rail (t : tdata) : bool := match td_tt t with Rail _ => true | _ => false end.

(** MetalLayer::to_layer_period_data: (signals, rails) of the template period *)
Definition to_layer_period_data (m : metal) : list tdata * list tdata :=
  let w := walk (entries m) (m_offset m) in (filter is_sig w, filter is_rail w).

(** tracks.rs: TrackSegmentType / TrackSegment.  Cuts and blockages carry the index of the
    TrackCross / Instance they come from (`src`); wires carry the assigned net (Z id). *)
Inductive segtp := TCut (src : Z) | TBlock (src : Z) | TWire (net : option Z) | TRail (k : railkind).
Record seg := mkSeg { s_tp : segtp; s_start : Z; s_stop : Z }.
Record track := mkTrack { t_data : tdata; t_segs : list seg }.

(** Track::validate *)
Definition track_validate (t : track) : res track :=
  if td_width (t_data t) <? 0 then Err 101 else Ok t.

Definition fresh_track (stop : Z) (d : tdata) : track :=
  mkTrack d [mkSeg (match td_tt d with Rail k => TRail k | _ => TWire None end) 0 stop].

(** MetalLayer::to_layer_period index stop: (signals, rails), entries reversed on odd periods
    of an EveryOther layer *)
Definition period_entries (m : metal) (index : Z) : list entry :=
  if m_flip m && (Z.rem index 2 =? 1) then rev (entries m) else entries m.
Definition to_layer_period (m : metal) (index stop : Z) : res (list track * list track) :=
  let w := walk (period_entries m index) (m_offset m + pitch m * index) in
  do ts <- mapM (fun d => track_validate (fresh_track stop d)) w;
  Ok (filter (fun t => is_sig (t_data t)) ts, filter (fun t => is_rail (t_data t)) ts).

(** ** validate.rs: validate_metal / validate_stack *)
Record vmetal := mkVm {
  vm_spec : metal; vm_index : Z; vm_sigs : list tdata; vm_rails : list tdata; vm_pitch : Z }.
Record vstack := mkVs { vs_stack : stack; vs_metals : list vmetal; vs_pitches : list Z }.

Definition validate_metal (px py : Z) (m : metal) (index : Z) : res vmetal :=
  do _ <- assert (forallb (fun e => e_w e >? 0) (entries m)) 201;
  let p := pitch m in
  do _ <- assert (p >? 0) 202;
  do _ <- (if m_primgrid m
           then (* prim.pitches[!layer.dir] *)
                let pp := if m_horiz m then py else px in
                assert (Z.rem p pp =? 0) 203
           else Ok tt);
  let '(sigs, rails) := to_layer_period_data m in
  Ok (mkVm m index sigs rails p).

Fixpoint validate_metals (px py : Z) (ms : list metal) (index : Z) : res (list vmetal) :=
  match ms with
  | [] => Ok []
  | m :: r => do v <- validate_metal px py m index;
              do vs <- validate_metals px py r (index + 1); Ok (v :: vs)
  end.

(** the lcm pitches (ValidStack.pitches; used by the placer, not by the raw exporter):
    for metal [num], lcm of prim.pitches[!dir] and the pitches of same-direction metals 0..=num *)
Definition lcm_pitch (px py : Z) (vms : list vmetal) (num : nat) : Z :=
  match nth_error vms num with
  | None => 0
  | Some vm =>
    let h := m_horiz (vm_spec vm) in
    fold_left (fun p v => if Bool.eqb (m_horiz (vm_spec v)) h then Z.lcm p (vm_pitch v) else p)
              (firstn (S num) vms) (if h then py else px)
  end.

Definition validate_stack (st : stack) : res vstack :=
  do _ <- assert (s_px st >? 0) 204;
  do _ <- assert (s_py st >? 0) 205;
  do vms <- validate_metals (s_px st) (s_py st) (s_metals st) 0;
  Ok (mkVs st vms (map (lcm_pitch (s_px st) (s_py st) vms) (seq 0 (length vms)))).
