(** Tie (a) of DESIGN.md 2.3 for the relative placement of the tetris placer (family "tetris_place", property C09):
    the definitions generated from layout21tetris/src/instance.rs (`Instance::boundbox`, `reflected`, `boundbox_size`),
    placer.rs (`Placer::resolve_instance_place`, the whole match over side / align / reflection / separation),
    bbox.rs (`BoundBox::side`, `new`), coords.rs (`impl Add / Sub for PrimPitches`, `negate`, `Xy::new`, `Index<Dir>`),
    placement.rs (`Place::abs`, `Separation::dir`) and layout21raw geom.rs (`Dir::other`) -- Gen/KernelsTetrisGen.v, read over
    Z with the outcomes of Tetris/Placer.v ([tp_xops]) -- EQUAL the hand-written [inst_boundbox] and
    [target_boundbox ;; resolve] of Tetris/Placer.v.  What the Rust code reaches through pointers and other files
    (`Ptr::read`, `Cell::outline`, `Cell::boundbox_size`, `Outline::xmax / ymax`, `ArrayInstance::boundbox`) is external to
    the generated definitions; Tetris/KernelsInstTetris.v says which model function stands for each. *)
From Coq Require Import ZArith Bool List Lia.
From L21 Require Import Base.KernelOps Base.KernelOpsX Gen.KernelsTetrisGen Tetris.KernelsInstTetris.
From L21 Require Import Tetris.Placer.
Import ListNotations.
Local Open Scope Z_scope.

Lemma dir_eqb_G : forall a b, gDir_eqb (Gdir a) (Gdir b) = dir_eqb a b.
Proof. intros [] []; reflexivity. Qed.

Lemma tie_pp_add : forall a b, g_PrimPitches_add tp_xops (Gpp a) (Gpp b) = pmap Gpp (pp_add a b).
Proof.
  intros [da na] [db nb]. unfold g_PrimPitches_add, pp_add. cbn [Gpp gPrimPitches_dir gPrimPitches_num pdir pnum].
  rewrite dir_eqb_G. destruct (dir_eqb da db); reflexivity.
Qed.
Lemma tie_pp_sub : forall a b, g_PrimPitches_sub tp_xops (Gpp a) (Gpp b) = pmap Gpp (pp_sub a b).
Proof.
  intros [da na] [db nb]. unfold g_PrimPitches_sub, pp_sub. cbn [Gpp gPrimPitches_dir gPrimPitches_num pdir pnum].
  rewrite dir_eqb_G. destruct (dir_eqb da db); reflexivity.
Qed.
Lemma tie_place_abs : forall pool p, g_Place_abs tp_xops (Gplace pool p) = pmap Gxy (place_abs p).
Proof. intros pool [xy|r]; reflexivity. Qed.

Lemma tie_inst_boundbox : forall cells pool i,
  g_boundbox cells (Ginst pool i) = pmap Gbbox (inst_boundbox cells i).
Proof.
  intros cells pool [c loc rh rv]. unfold g_boundbox, g_Instance_boundbox, inst_boundbox, cell_size.
  cbn [Ginst gInstance_loc gInstance_cell gInstance_reflect_horiz gInstance_reflect_vert icell iloc irh irv].
  rewrite tie_place_abs.
  cbn [tp_xops z_xops kx_base z_kops k_bind k_ret]. fold tp_xops.
  destruct (place_abs loc) as [[lx ly]| | | |]; try reflexivity.
  cbn [pmap tp_bind bind x_read_cell]. unfold x_cell_outline.
  destruct (nth_error cells c) as [[[w h]|]|]; try reflexivity.
  unfold box_at, xy_of.
  cbn [tp_bind bind x_outline_xmax x_outline_ymax fst snd Gxy gXy_x gXy_y px py].
  destruct rh, rv; cbn [tp_bind bind]; rewrite ?tie_pp_add, ?tie_pp_sub.
  all: repeat match goal with
       | |- context [pp_add ?a ?b] => destruct (pp_add a b); cbn [pmap tp_bind bind tp_ret]; try reflexivity; rewrite ?tie_pp_add, ?tie_pp_sub
       | |- context [pp_sub ?a ?b] => destruct (pp_sub a b); cbn [pmap tp_bind bind tp_ret]; try reflexivity; rewrite ?tie_pp_add, ?tie_pp_sub
       end.
Qed.

Ltac step :=
  match goal with
  | |- ?a = ?a => reflexivity
  | |- context [match ?x with _ => _ end] => is_var x; destruct x
  | |- context [nth_error ?cells ?c] => destruct (nth_error cells c) as [[[? ?]|]|]
  end; cbv -[Z.add Z.sub Z.opp nth_error].

Lemma tie_resolve_core : forall cells pool inst rel bbox,
  g_resolve_core cells (Ginst pool inst) (Grel pool rel) (Gbbox bbox) = pmap Gxy (resolve cells inst rel bbox).
Proof.
  intros cells pool [c loc rh rv] [to side align [sx sy sz]] [[[d1 n1] [d2 n2]] [[d3 n3] [d4 n4]]].
  cbv -[Z.add Z.sub Z.opp nth_error].
  repeat step.
Qed.

Lemma tie_resolve_split : forall cells pool asg gi gr,
  g_resolve cells pool asg gi gr =
  tp_bind _ _ (g_target cells pool asg (gRelativePlace_to gr)) (fun gb => g_resolve_core cells gi gr gb).
Proof.
  intros cells pool asg gi [to side align sep].
  unfold g_resolve, g_resolve_core, g_Placer_resolve_instance_place, g_target, g_boundbox.
  cbn [gRelativePlace_to gRelativePlace_side gRelativePlace_align gRelativePlace_sep].
  cbn [tp_xops z_xops kx_base z_kops k_bind k_ret k_panic]. fold tp_xops.
  destruct to as [ptr|ptr|o|ptr o|ptr]; reflexivity.
Qed.

Lemma tie_resolve : forall cells pool asg inst rel, (rto rel < length pool)%nat ->
  g_resolve cells pool asg (Ginst pool inst) (Grel pool rel) =
  pmap Gxy (bind (target_boundbox cells pool asg (rto rel)) (fun bbox => resolve cells inst rel bbox)).
Proof.
  intros cells pool asg inst rel Hwf. rewrite tie_resolve_split.
  cbn [Grel gRelativePlace_to]. unfold Gto, target_boundbox.
  destruct (nth_error pool (rto rel)) as [[j|a|p]|] eqn:E.
  - cbn [g_target]. unfold x_read_inst. rewrite E. cbn [tp_bind bind]. rewrite tie_inst_boundbox.
    destruct (inst_boundbox cells (inst_at j (cur_place asg (rto rel) (iloc j)))) as [b| | | |]; try reflexivity.
    cbn [pmap bind]. apply (tie_resolve_core cells pool inst rel b).
  - cbn [g_target]. unfold x_read_arr. rewrite E. cbn [tp_bind bind]. unfold x_arr_boundbox.
    destruct (arrayinst_boundbox cells a) as [b| | | |]; try reflexivity.
    cbn [pmap bind]. apply (tie_resolve_core cells pool inst rel b).
  - reflexivity.
  - apply nth_error_None in E. lia.
Qed.
