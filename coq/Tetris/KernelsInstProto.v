(** Reading of the generated tetris <-> protobuf kernels (Gen/KernelsTetrisProtoGen.v: layout21tetris/src/conv/proto.rs
    `ProtoExporter::export_outline` with `export_dimensions` / `export_dimension` (generic over `T: HasUnits`, read at
    T = PrimPitches) and `PrimPitches::raw`; `ProtoLibImporter::import_outline` with `import_prim_pitches_list` /
    `import_prim_pitches`; outline.rs `Outline::from_prim_pitches`) at the level of the model of C19 (Tetris/TProto.v):
    outcomes = [res] of Order/DepOrder.v, integers = Z without overflow ([z_kops] of Tetris/KernelsInstTetris.v: `usize`
    subtraction below zero and an index out of bounds are panics), `T::try_from(x)?` fails exactly when x is outside T.
    No proofs in this file. *)
From Coq Require Import ZArith Bool List.
From L21 Require Import Base.KernelOps Base.KernelOpsX Base.KernelOpsS Order.DepOrder Order.KernelsInstOrder Gen.KernelsTetrisProtoGen.
From L21 Require Tetris.TProto Tetris.KernelsInstTetris.
Import ListNotations.
Local Open Scope Z_scope.
Module TP := Tetris.TProto.

Definition tq_kops : kops res unit Z := Tetris.KernelsInstTetris.z_kops od_ret od_bind od_pan.
Definition tq_xops : kxops res unit Z :=
  {| kx_base := tq_kops; k_fail := od_err;
     k_unwrap := fun A x => match x with Err => Panic | y => y end;
     i_try_from_q := fun _ t z => if ity_in t z then Ok z else Err;
     v_set := fun A l i x =>
       if (i <? 0) || (Z.of_nat (length l) <=? i) then Panic else Ok (k_list_set l (Z.to_nat i) x);
     v_insert := fun A l i x =>
       if (i <? 0) || (Z.of_nat (length l) <? i) then Panic else Ok (k_list_insert l (Z.to_nat i) x) |}.

Definition Gdir (d : TP.Dir) : gDir unit Z := match d with TP.Horiz => gDir_Horiz | TP.Vert => gDir_Vert end.
Definition Gpp (p : TP.PrimP) : gPrimPitches unit Z := mk_gPrimPitches (Gdir (TP.pp_dir p)) (TP.pp_num p).
Definition Gout (o : TP.TOutline) : gOutline unit Z := mk_gOutline (map Gpp (TP.to_x o)) (map Gpp (TP.to_y o)).
Definition Gpo (o : TP.POutline) : gtproto__Outline unit Z := mk_gtproto__Outline (TP.po_x o) (TP.po_y o) (TP.po_metals o).

(** values of `isize` / `i64` (64-bit target) and of `usize` *)
Definition i64v (z : Z) : Prop := ity_in I64 z = true.
Definition usizev (z : Z) : Prop := ity_in Usize z = true.

Definition g_export_outline (o : TP.TOutline) (metals : Z) : res (gtproto__Outline unit Z) :=
  g_ProtoExporter_export_outline tq_xops mk_gProtoExporter (Gout o) metals.
Definition g_import_outline (po : TP.POutline) : res (gOutline unit Z * Z) :=
  g_ProtoLibImporter_import_outline tq_xops mk_gProtoLibImporter (Gpo po).
Definition g_from_prim_pitches (x y : list TP.PrimP) : res (gOutline unit Z) :=
  g_Outline_from_prim_pitches tq_xops (map Gpp x) (map Gpp y).
