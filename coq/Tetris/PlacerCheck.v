(** Executable checks for the correspondence run of C09 (tools/props/c09.py).
    A case = cell table, pool of placeables, and several runs (listing, implementation result) of
    `Placer::place` on the same pool.  Codes: 0 = impl equals the model and the property holds on the
    impl's output; 1 = impl differs from the model, property holds or is silent; 2 = property fails on
    the impl's output.  The property is evaluated on the IMPL's output with Tetris/PlacerSpec.v only. No proofs. *)
From Coq Require Import ZArith List Bool Arith.
From L21 Require Import Tetris.Placer Tetris.PlacerSpec.
Import ListNotations.
Local Open Scope Z_scope.

Inductive impl := IOk (out : list OInst) | IErr | IPanic.

(** what the harness prints for an instance whose location is still relative *)
Definition rel_marker : Place := PRel (mkRel 0 Top ACenter (mkSep None None None)).

Definition pp_eqb (a b : PP) : bool := dir_eqb (pdir a) (pdir b) && (pnum a =? pnum b).
Definition xy_eqb (a b : Xy) : bool := pp_eqb (px a) (px b) && pp_eqb (py a) (py b).
Definition place_eqb (a b : Place) : bool :=
  match a, b with PAbs p, PAbs q => xy_eqb p q | _, _ => false end.
Fixpoint list_eqb {A : Type} (eqb : A -> A -> bool) (l1 l2 : list A) : bool :=
  match l1, l2 with
  | [], [] => true
  | x :: r1, y :: r2 => eqb x y && list_eqb eqb r1 r2
  | _, _ => false
  end.
Definition oinst_eqb (a b : OInst) : bool :=
  list_eqb Nat.eqb (oname a) (oname b) && Nat.eqb (ocell a) (ocell b) && place_eqb (oloc a) (oloc b)
  && Bool.eqb (orh a) (orh b) && Bool.eqb (orv a) (orv b).

Definition count_of (x : OInst) (l : list OInst) : nat := length (filter (oinst_eqb x) l).
Definition perm_eqb (l1 l2 : list OInst) : bool :=
  Nat.eqb (length l1) (length l2) && forallb (fun x => Nat.eqb (count_of x l1) (count_of x l2)) l1.

(** * The property on an implementation output *)
Definition well_tagged (p : Xy) : bool := dir_eqb (pdir (px p)) Horiz && dir_eqb (pdir (py p)) Vert.

Definition entry_box (cells : Cells) (e : OInst) : option box :=
  match oloc e, nth_error cells (ocell e) with
  | PAbs p, Some (Some (w, h)) =>
    if well_tagged p then Some (inst_box w h (pnum (px p)) (pnum (py p)) (orh e) (orv e)) else None
  | _, _ => None
  end.

Definition find_entry (name : list nat) (out : list OInst) : option OInst :=
  find (fun e => list_eqb Nat.eqb (oname e) name) out.

Definition all_absolute (out : list OInst) : bool :=
  forallb (fun e => match oloc e with PAbs _ => true | PRel _ => false end) out.

(** every listed instance appears exactly once *)
Definition listed_present (pool : Pool) (items : list nat) (out : list OInst) : bool :=
  forallb (fun n => match nth_error pool n with
                    | Some (NInst _) =>
                      Nat.eqb (length (filter (fun e => list_eqb Nat.eqb (oname e) [n]) out)) 1
                    | _ => true
                    end) items.

(** is the relation one the property speaks about: to an instance, orthogonal edge alignment, a
    separation of one of the three kinds, sizes known; then (side, align, separation) *)
Definition eligible (cells : Cells) (pool : Pool) (i : Inst) (r : RelPlace) : option (Side * Side * Z) :=
  match nth_error pool (rto r), ralign r, nth_error cells (icell i) with
  | Some (NInst _), ASide a, Some (Some _) =>
    if orthogonal (rside r) a then
      match sep_amount cells (rside r) (rsep r) with
      | Some s => Some (rside r, a, s)
      | None => None
      end
    else None
  | _, _, _ => None
  end.

Definition relation_ok (cells : Cells) (pool : Pool) (out : list OInst) (e : OInst) : bool :=
  match oname e with
  | [n] =>
    match nth_error pool n with
    | Some (NInst i) =>
      match iloc i with
      | PRel r =>
        match eligible cells pool i r with
        | Some (s, a, d) =>
          match entry_box cells e, find_entry [rto r] out with
          | Some b, Some te =>
            match entry_box cells te with
            | Some rb => touchesb s d b rb && flushb a b rb
            | None => true       (* reference cell without outline: not in the property's space *)
            end
          | _, _ => false         (* the placed instance or its reference has no proper absolute box *)
          end
        | None => true
        end
      | PAbs p => place_eqb (oloc e) (PAbs p)       (* an absolute placement is left where it is *)
      end
    | _ => true
    end
  | _ => true
  end.

Definition array_ok (pool : Pool) (out : list OInst) (n : nat) : bool :=
  match nth_error pool n with
  | Some (NArray a) =>
    match aloc a with
    | PAbs p =>
      if well_tagged p then
        match spec_array n (pnum (px p)) (pnum (py p)) (arh a) (arv a) (aarr a) with
        | Some want =>
          let got := filter (fun e => match oname e with
                                      | m :: _ :: _ => Nat.eqb m n
                                      | _ => false
                                      end) out in
          list_eqb oinst_eqb got want
        | None => true
        end
      else true
    | PRel _ => true
    end
  | _ => true
  end.

(** * Is the program inside the space the property quantifies over *)
Fixpoint array_in_space (a : Array) : bool :=
  match a with
  | mkArray unit _ sep =>
    match pitch_of (sepx sep) Horiz, pitch_of (sepy sep) Vert with
    | Some _, Some _ => match unit with UCell _ => true | UArr a' => array_in_space a' end
    | _, _ => false
    end
  end.

Definition node_in_space (cells : Cells) (pool : Pool) (nd : Node) : bool :=
  match nd with
  | NInst i =>
    match nth_error cells (icell i) with
    | Some (Some _) =>
      match iloc i with
      | PAbs p => well_tagged p
      | PRel r => match eligible cells pool i r with
                  | Some _ =>
                    match nth_error pool (rto r) with
                    | Some (NInst j) => match nth_error cells (icell j) with Some (Some _) => true | _ => false end
                    | _ => false
                    end
                  | None => false
                  end
      end
    | _ => false
    end
  | NArray a => match aloc a with PAbs p => well_tagged p && array_in_space (aarr a) | PRel _ => false end
  | NPort _ => false
  end.
Definition in_space (cells : Cells) (pool : Pool) : bool := forallb (node_in_space cells pool) pool.

Definition prop_on (cells : Cells) (pool : Pool) (items : list nat) (r : impl) : bool :=
  if existsb (cyclic_from pool) items then
    match r with IErr => true | _ => false end                (* cycles are reported as errors *)
  else
    match r with
    | IOk out =>
      all_absolute out && listed_present pool items out
      && forallb (relation_ok cells pool out) out
      && forallb (array_ok pool out) items                  (* the listed arrays *)
    | IErr | IPanic => negb (in_space cells pool)             (* a program of the property's space must be placed *)
    end.

Definition model_eq (cells : Cells) (pool : Pool) (items : list nat) (r : impl) : bool :=
  match place_layout (enough_fuel pool) cells pool items, r with
  | Ok out, IOk out' => list_eqb oinst_eqb out out'
  | Err, IErr => true
  | Panic, IPanic => true
  | _, _ => false
  end.

Definition code (prop_ok meq : bool) : Z := if negb prop_ok then 2 else if meq then 0 else 1.

Definition run_code (cells : Cells) (pool : Pool) (run : list nat * impl) : Z :=
  code (prop_on cells pool (fst run) (snd run)) (model_eq cells pool (fst run) (snd run)).

(** the runs list the same objects in different orders: the results must agree per instance *)
Definition order_independent (runs : list (list nat * impl)) : bool :=
  match runs with
  | [] => true
  | (_, r0) :: rest =>
    forallb (fun run => match r0, snd run with
                        | IOk a, IOk b => perm_eqb a b
                        | IOk _, _ | _, IOk _ => false
                        | _, _ => true
                        end) rest
  end.

Definition c09_check (cells : Cells) (pool : Pool) (same_set : bool) (runs : list (list nat * impl)) : Z :=
  let codes := map (run_code cells pool) runs in
  let worst := fold_left Z.max codes 0 in
  if same_set && negb (order_independent runs) then 2 else worst.

(** the model's own answer, for replay / debugging: 0 Ok, 1 Err, 2 Panic, 3 OutOfFuel, 4 BadRef *)
Definition model_outcome (cells : Cells) (pool : Pool) (items : list nat) : Z :=
  match place_layout (enough_fuel pool) cells pool items with
  | Ok _ => 0 | Err => 1 | Panic => 2 | OutOfFuel => 3 | BadRef => 4
  end.
