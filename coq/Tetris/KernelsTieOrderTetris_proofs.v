(** Tie (a) of DESIGN.md 2.3 for the orderers of layout21tetris (family "order_tetris"; properties C17, C09, C19):
    the definitions generated from layout21tetris/src/library.rs `DepOrder::push / order`, placer.rs `PlaceOrder::process /
    fail` (Gen/KernelsTetrisOrderGen.v) and conv/proto.rs `CellOrder::process / fail` (Gen/KernelsTetrisProtoOrderGen.v), read as
    in Tetris/KernelsInstOrderTetris.v, EQUAL the models:

    - [tie_tetris_push] (one step, as for layout21raw: the recursive call is the Section variable rec_DepOrder_push) and
      [tie_tetris_order]: [cpush] / [order_checked] of Order/DepOrderFixed.v on the graph read off the heaps;
    - [tie_place_process], [tie_cell_process]: `process` IS "push every dependency, pass the error on", the reading of
      `P::process` under which Order/KernelsTieOrder_proofs.v ties the generic helper to [push] of Order/DepOrder.v;
      [tie_place_fail], [tie_cell_fail]: `fail()` is the error return; [tie_cell_process_lib]: the graph is [lib_deps] of
      Tetris/TProto.v;
    - [tie_placer_push], [tie_placer_process]: the orderer inside the placement model of C09 (Tetris/Placer.v [push],
      [node_dep]) is the generic helper and `PlaceOrder::process` as generated from the sources. *)
From Coq Require Import ZArith NArith Bool List.
From L21 Require Import Base.KernelOps Base.KernelOpsX Base.KernelOpsS Order.DepOrder Order.DepOrderFixed Order.KernelsInstOrder.
From L21 Require Import Tetris.KernelsInstOrderTetris.
From L21 Require Gen.KernelsOrderGen Gen.KernelsTetrisOrderGen Gen.KernelsTetrisProtoOrderGen.
From L21 Require Tetris.Placer Tetris.TProto Tetris.KernelsInstTetris.
Import ListNotations.

(** * library.rs DepOrder *)
Section TetrisDepOrder.
Import Gen.KernelsTetrisOrderGen.
Ltac tsimp := cbn [OT.Gst OT.unG stack seen pending gDepOrder_lib gDepOrder_stack gDepOrder_seen gDepOrder_pending set_ptr ks_contains ks_insert ks_remove ks_empty
       od_xops kx_base od_kops k_bind k_ret k_fail od_bind od_ret od_err rmap negb].

Lemma t_of_to_map : forall l, map N.of_nat (map N.to_nat l) = l.
Proof. induction l as [|x r IH]; [reflexivity|]. cbn [map]. rewrite N2Nat.id, IH. reflexivity. Qed.
Lemma t_unG_Gst : forall lib s, OT.unG (OT.Gst lib s) = s.
Proof. intros lib [a b c]. unfold OT.unG, OT.Gst. tsimp. rewrite t_of_to_map. reflexivity. Qed.

(** `for ptr in layout.instances.iter() { let inst = ptr.read()?; self.push(&inst.cell)?; }` *)
Lemma tie_tetris_push_loop : forall (ih : OT.iheap) lib (pushf : st -> N -> res st) ips s,
  k_foreach od_kops ips (fun ip st__ => g_DepOrder_push_loop1 od_xops set_ptr (fun q => Ok (ih q)) (OT.rec_of lib pushf) ip st__) (OT.Gst lib s)
  = rmap (fun s' => Cont (OT.Gst lib s')) (for_each pushf s (map (fun ip => N.of_nat (gInstance_cell (ih ip))) ips)).
Proof.
  intros ih lib pushf. induction ips as [|i r IH]; intros s; [reflexivity|].
  cbn [k_foreach map for_each]. unfold g_DepOrder_push_loop1 at 1. unfold OT.rec_of at 1. rewrite t_unG_Gst. tsimp.
  destruct (pushf s (N.of_nat (gInstance_cell (ih i)))) as [s'| | |]; tsimp; try reflexivity. apply IH.
Qed.

Lemma t_for_each_lookup_all : forall (p : st -> N -> res st) l s, for_each (lookup_err all_defined p) s l = for_each p s l.
Proof. intros p. induction l as [|x r IH]; intros s; [reflexivity|]. cbn [for_each]. unfold lookup_err at 1, all_defined. destruct (p s x); auto. Qed.

(** ONE STEP: the generated body of tetris `DepOrder::push` with the recursive call read as the model at fuel f is the model at fuel S f *)
Lemma tie_tetris_push : forall ch ih lib f s item,
  OT.g_push ch ih (OT.rec_of lib (cpush f all_defined (OT.tetris_deps ch ih))) (OT.Gst lib s) (N.to_nat item)
  = rmap (OT.Gst lib) (cpush (S f) all_defined (OT.tetris_deps ch ih) s item).
Proof.
  intros ch ih lib f [stk sn pd] item. unfold OT.g_push, g_DepOrder_push. cbn [cpush]. tsimp. rewrite !N2Nat.id.
  destruct (mem item sn); tsimp; [reflexivity|].
  destruct (mem item pd); [reflexivity|].
  rewrite t_for_each_lookup_all. unfold OT.tetris_deps.
  destruct (gCell_layout (ch (N.to_nat item))) as [l|].
  - change (mk_gDepOrder set_ptr lib (map N.to_nat stk) sn (set_insert item pd)) with (OT.Gst lib (mkst stk sn (set_insert item pd))).
    rewrite (tie_tetris_push_loop ih).
    destruct (for_each _ _ _) as [[stk2 sn2 pd2]| | |]; tsimp; try reflexivity.
    unfold OT.Gst. tsimp. rewrite map_app. reflexivity.
  - cbn [for_each]. tsimp. unfold OT.Gst. tsimp. rewrite map_app. reflexivity.
Qed.

Lemma tie_tetris_order_loop : forall ch ih lib rec (pushf : st -> N -> res st),
  (forall s item, OT.g_push ch ih rec (OT.Gst lib s) (N.to_nat item) = rmap (OT.Gst lib) (pushf s item)) ->
  forall items s,
  k_foreach od_kops (map N.to_nat items)
            (fun cell st__ => g_DepOrder_order_loop1 od_xops set_ptr (fun q => Ok (ch q)) (fun q => Ok (ih q)) rec cell st__) (OT.Gst lib s)
  = rmap (fun s' => Cont (OT.Gst lib s')) (for_each pushf s items).
Proof.
  intros ch ih lib rec pushf H. induction items as [|x r IH]; intros s; [reflexivity|].
  cbn [map k_foreach for_each]. unfold g_DepOrder_order_loop1 at 1. fold (OT.g_push ch ih rec (OT.Gst lib s) (N.to_nat x)). rewrite H. tsimp.
  destruct (pushf s x) as [s'| | |]; tsimp; try reflexivity. apply IH.
Qed.

(** tetris `DepOrder::order` on the library listing [items] *)
Lemma tie_tetris_order : forall ch ih f items,
  OT.g_order ch ih (OT.rec_of (mk_gLibrary (map N.to_nat items)) (cpush f all_defined (OT.tetris_deps ch ih))) (mk_gLibrary (map N.to_nat items))
  = rmap (map N.to_nat) (order_checked (S f) all_defined (OT.tetris_deps ch ih) items).
Proof.
  intros ch ih f items. unfold OT.g_order, g_DepOrder_order, order_checked. tsimp. cbn [gLibrary_cells].
  set (lib := mk_gLibrary (map N.to_nat items)).
  change (mk_gDepOrder set_ptr lib [] [] []) with (OT.Gst lib (mkst [] [] [])).
  rewrite (tie_tetris_order_loop ch ih lib _ (cpush (S f) all_defined (OT.tetris_deps ch ih))).
  - destruct (for_each _ _ items) as [[a b c]| | |]; reflexivity.
  - intros s item. apply tie_tetris_push.
Qed.

(** * placer.rs PlaceOrder *)
Ltac psimp := cbn [od_xops kx_base od_kops k_bind k_ret k_fail od_bind od_ret od_err rmap negb].

(** `PlaceOrder::process`: push what the placeable is placed relative to, if anything; pass the error on *)
Lemma tie_place_process : forall (T : Type) h (pushf : T -> OP.gpl -> res T) item o,
  OP.g_process h pushf item o = match OP.place_dep h item with Some t => pushf o t | None => Ok o end.
Proof.
  intros T h pushf item o. unfold OP.g_process, g_PlaceOrder_process.
  destruct item as [p|p|p|p k|a]; cbn [OP.place_dep]; psimp.
  - destruct (gInstance_loc (OP.h_inst h p)) as [xy|r]; cbn [OP.rel_to]; psimp; [reflexivity|]. destruct (pushf o _); reflexivity.
  - destruct (gArrayInstance_loc (OP.h_arr h p)) as [xy|r]; cbn [OP.rel_to]; psimp; [reflexivity|]. destruct (pushf o _); reflexivity.
  - destruct (gGroupInstance_loc (OP.h_grp h p)) as [xy|r]; cbn [OP.rel_to]; psimp; [reflexivity|]. destruct (pushf o _); reflexivity.
  - destruct (gInstance_loc (OP.h_inst h p)) as [xy|r]; cbn [OP.rel_to]; psimp; [reflexivity|]. destruct (pushf o _); reflexivity.
  - destruct (pushf o _); reflexivity.
Qed.
(** `PlaceOrder::fail()` is the error return *)
Lemma tie_place_fail : g_PlaceOrder_fail od_xops = Err.
Proof. reflexivity. Qed.
End TetrisDepOrder.

(** * conv/proto.rs CellOrder *)
Section CellOrder.
Import Gen.KernelsTetrisProtoOrderGen.
Ltac csimp := cbn [od_xops kx_base od_kops k_bind k_ret k_fail od_bind od_ret od_err rmap negb].

Lemma tie_cell_process_loop : forall (T : Type) (ih : OC.iheap) (pushf : T -> kptr -> res T) ips o,
  k_foreach od_kops ips (fun ip st__ => g_CellOrder_process_loop1 od_xops T pushf (fun q => Ok (ih q)) ip st__) o
  = rmap (fun o' => Cont (R:=unit) o') (OC.for_each_ptr pushf o (map (fun ip => gInstance_cell (ih ip)) ips)).
Proof.
  intros T ih pushf. induction ips as [|i r IH]; intros o; [reflexivity|].
  cbn [k_foreach map OC.for_each_ptr]. unfold g_CellOrder_process_loop1 at 1. csimp.
  destruct (pushf o (gInstance_cell (ih i))) as [o'| | |]; csimp; try reflexivity. apply IH.
Qed.

(** `CellOrder::process`: push the cell of every instance of the cell's layout, in order; nothing without a layout *)
Lemma tie_cell_process : forall (T : Type) ch ih (pushf : T -> kptr -> res T) item o,
  OC.g_process ch ih pushf item o = OC.for_each_ptr pushf o (OC.cell_deps ch ih item).
Proof.
  intros T ch ih pushf item o. unfold OC.g_process, g_CellOrder_process, OC.cell_deps. csimp.
  destruct (gCell_layout (ch item)) as [l|]; [|reflexivity].
  rewrite (tie_cell_process_loop T ih). destruct (OC.for_each_ptr _ _ _); reflexivity.
Qed.
Lemma tie_cell_fail : g_CellOrder_fail od_xops = Err.
Proof. reflexivity. Qed.

(** the graph of the C19 model ([lib_deps], Tetris/TProto.v) is the one `process` walks on the library's heap *)
Lemma tie_cell_process_lib : forall L p,
  map N.of_nat (OC.cell_deps (OC.ch_of L) OC.ih_id (N.to_nat p)) = TProto.lib_deps L p.
Proof.
  intros L p. unfold OC.cell_deps, OC.ch_of, TProto.lib_deps. rewrite N2Nat.id.
  destruct (TProto.heap_get L p) as [c|]; [|reflexivity].
  cbn [gCell_layout]. destruct (TProto.tc_layout c) as [l|]; [|reflexivity].
  cbn [option_map gLayout_instances]. rewrite !map_map. apply map_ext. intros i. cbn [OC.ih_id gInstance_cell]. apply N2Nat.id.
Qed.
End CellOrder.

(** * Tetris/Placer.v: the orderer of the placement model IS the generic helper *)
Module P := Tetris.Placer.
Section PlacerPush.
Import Gen.KernelsOrderGen.
Ltac qsimp := cbn [OPl.Gst OPl.unG P.ostack P.oseen P.opending gDepOrderer_stack gDepOrderer_seen gDepOrderer_pending OPl.set_cons
       ks_contains ks_insert ks_remove ks_empty KernelsInstTetris.tp_xops KernelsInstTetris.z_xops KernelsInstTetris.z_kops kx_base
       k_bind k_ret k_fail KernelsInstTetris.tp_bind KernelsInstTetris.tp_ret KernelsInstTetris.tp_err P.bind OPl.pmap negb].

Lemma p_unG_Gst : forall s, OPl.unG (OPl.Gst s) = s.
Proof. intros [a b c]. reflexivity. Qed.

(** ONE STEP for the C09 model: `DepOrderer::push` with `process` = "push the node's dependency" at fuel f is [Placer.push] at fuel S f *)
Lemma tie_placer_push : forall f pool s item,
  OPl.g_push (OPl.proc_of pool (P.push f pool)) (OPl.Gst s) item = OPl.pmap OPl.Gst (P.push (S f) pool s item).
Proof.
  intros f pool [stk sn pd] item. unfold OPl.g_push, g_DepOrderer_push. cbn [P.push]. qsimp.
  destruct (P.mem item sn); qsimp; [reflexivity|].
  destruct (P.mem item pd); [reflexivity|].
  unfold OPl.proc_of. qsimp.
  destruct (P.node_dep pool item) as [[t|]| | | |]; qsimp; try reflexivity.
  - destruct (P.push f pool _ t) as [[stk2 sn2 pd2]| | | |]; qsimp; try reflexivity.
    destruct (P.mem item pd2); reflexivity.
  - destruct (P.mem item (item :: pd)); reflexivity.
Qed.

(** `PlaceOrder::process` on a node of the pool pushes exactly the node's dependency [Placer.node_dep] *)
Lemma tie_placer_process : forall (T : Type) pool (pushf : T -> OPl.TG.gPlaceable unit Z -> P.res T) n o,
  OPl.g_process pool pushf n o
  = P.bind (P.node_dep pool n) (fun d => match d with Some t => pushf o (OPl.Gto pool t) | None => P.Ok o end).
Proof.
  intros T pool pushf n o. unfold OPl.g_process, OPl.TG.g_PlaceOrder_process, P.node_dep, OPl.Gto at 1.
  destruct (nth_error pool n) as [[i|a|j]|] eqn:En; qsimp.
  - unfold OPl.rd_inst. rewrite En. qsimp. cbn [OPl.TG.gInstance_loc].
    destruct (P.iloc i) as [xy|r]; cbn [OPl.Gplace P.place_dep OPl.TG.gRelativePlace_to]; qsimp; [reflexivity|].
    destruct (pushf o _); reflexivity.
  - unfold OPl.rd_arr. rewrite En. qsimp. cbn [OPl.TG.gArrayInstance_loc].
    destruct (P.aloc a) as [xy|r]; cbn [OPl.Gplace P.place_dep OPl.TG.gRelativePlace_to]; qsimp; [reflexivity|].
    destruct (pushf o _); reflexivity.
  - unfold OPl.rd_inst. destruct (nth_error pool j) as [[i|a|j']|]; qsimp; try reflexivity. cbn [OPl.TG.gInstance_loc].
    destruct (P.iloc i) as [xy|r]; cbn [OPl.Gplace P.place_dep OPl.TG.gRelativePlace_to]; qsimp; [reflexivity|].
    destruct (pushf o _); reflexivity.
  - reflexivity.
Qed.
End PlacerPush.
