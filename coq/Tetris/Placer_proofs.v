(** Lemmas for property C09 (relative placement). Model: Tetris/Placer.v, specification: Tetris/PlacerSpec.v.
    Parts: 1 resolve_instance_place and Instance::boundbox against the geometry of the specification;
    2 the dependency orderer (PlaceOrder / DepOrderer::push) on the relation graph; 3 the placement loop:
    soundness and completeness w.r.t. the graph-only relation [placed]; 4 place_layout: absolute
    locations, independence of the listing order, touching end to end, cycles; 5 arrays. *)
From Coq Require Import ZArith List Bool Arith Lia Permutation.
From L21 Require Import Tetris.Placer Tetris.PlacerSpec.
Import ListNotations.

(** * Part 1: one relation *)
Local Open Scope Z_scope.
Definition box_of (b : BBox) : box :=
  mkbox (pnum (px (p0 b))) (pnum (py (p0 b))) (pnum (px (p1 b))) (pnum (py (p1 b))).
Definition tagged (p : Xy) : Prop := pdir (px p) = Horiz /\ pdir (py p) = Vert.
Definition tagged_box (b : BBox) : Prop := tagged (p0 b) /\ tagged (p1 b).
Definition loc_box (w h : Z) (loc : Xy) (rh rv : bool) : box :=
  inst_box w h (pnum (px loc)) (pnum (py loc)) rh rv.

Lemma cell_size_some cells c w h :
  nth_error cells c = Some (Some (w, h)) -> cell_size cells c = Ok (xy_of w h).
Proof. intros H. unfold cell_size. now rewrite H. Qed.

Ltac case_cell cells c :=
  let E := fresh "Ecell" in
  unfold cell_size;
  destruct (nth_error cells c) as [[[? ?]|]|] eqn:E.

Theorem resolve_touching cells inst rel refbox loc a w h :
  ralign rel = ASide a -> orthogonal (rside rel) a = true -> tagged_box refbox ->
  nth_error cells (icell inst) = Some (Some (w, h)) -> 0 <= w -> 0 <= h ->
  resolve cells inst rel refbox = Ok loc ->
  exists s, sep_amount cells (rside rel) (rsep rel) = Some s /\ tagged loc /\
    touches (rside rel) s (loc_box w h loc (irh inst) (irv inst)) (box_of refbox) /\
    flush a (loc_box w h loc (irh inst) (irv inst)) (box_of refbox).
Proof.
  destruct inst as [ic il rh rv]. destruct rel as [to side al [sx sy sz]].
  destruct refbox as [[[d1 x0] [d2 y0]] [[d3 x1] [d4 y1]]].
  cbn [ralign rside rsep icell irh irv]. intros Hal Horth [[T1 T2] [T3 T4]] Hc Hw Hh.
  cbn in T1, T2, T3, T4. subst d1 d2 d3 d4 al.
  unfold resolve. cbn [ralign rside rsep icell irh irv bind].
  rewrite (cell_size_some _ _ _ _ Hc).
  destruct side, a; try discriminate Horth; clear Horth;
  destruct rh, rv; cbn -[Z.add Z.sub Z.opp cell_size nth_error];
  (destruct sz; cbn -[Z.add Z.sub Z.opp cell_size nth_error]; [discriminate|]);
  (destruct sx as [[[?|[|] ?|? ?]|cx]|]; cbn -[Z.add Z.sub Z.opp cell_size nth_error]; try discriminate);
  (destruct sy as [[[?|[|] ?|? ?]|cy]|]; cbn -[Z.add Z.sub Z.opp cell_size nth_error]; try discriminate);
  try (case_cell cells cx; cbn -[Z.add Z.sub Z.opp]; try discriminate);
  try (case_cell cells cy; cbn -[Z.add Z.sub Z.opp]; try discriminate);
  intros Hr; injection Hr as <-;
  (eexists; split; [unfold sep_amount, size_along; cbn; repeat match goal with H : nth_error _ _ = _ |- _ => rewrite H; clear H end; reflexivity|]);
  unfold tagged, loc_box, inst_box, box_of, tx, touches, flush; cbn; repeat split; lia.
Qed.

Theorem resolve_total cells inst rel refbox a w h s :
  ralign rel = ASide a -> orthogonal (rside rel) a = true -> tagged_box refbox ->
  nth_error cells (icell inst) = Some (Some (w, h)) ->
  sep_amount cells (rside rel) (rsep rel) = Some s ->
  exists loc, resolve cells inst rel refbox = Ok loc.
Proof.
  destruct inst as [ic il rh rv]. destruct rel as [to side al [sx sy sz]].
  destruct refbox as [[[d1 x0] [d2 y0]] [[d3 x1] [d4 y1]]].
  cbn [ralign rside rsep icell irh irv]. intros Hal Horth [[T1 T2] [T3 T4]] Hc.
  cbn in T1, T2, T3, T4. subst d1 d2 d3 d4 al.
  unfold resolve, sep_amount, size_along. cbn [ralign rside rsep icell irh irv bind].
  rewrite (cell_size_some _ _ _ _ Hc).
  destruct side, a; try discriminate Horth; clear Horth;
  destruct rh, rv; cbn -[Z.add Z.sub Z.opp cell_size nth_error];
  (destruct sz; cbn -[Z.add Z.sub Z.opp cell_size nth_error]; [discriminate|]);
  (destruct sx as [[[?|[|] ?|? ?]|cx]|]; cbn -[Z.add Z.sub Z.opp cell_size nth_error]; try discriminate);
  (destruct sy as [[[?|[|] ?|? ?]|cy]|]; cbn -[Z.add Z.sub Z.opp cell_size nth_error]; try discriminate);
  try (case_cell cells cx; cbn -[Z.add Z.sub Z.opp]; try discriminate);
  try (case_cell cells cy; cbn -[Z.add Z.sub Z.opp]; try discriminate);
  intros _; eexists; reflexivity.
Qed.

(** centre / port alignment: unimplemented!() *)
Lemma resolve_align_unimplemented cells inst rel refbox :
  ralign rel = ACenter \/ ralign rel = APorts -> resolve cells inst rel refbox = Panic.
Proof. intros [H|H]; unfold resolve; rewrite H; reflexivity. Qed.

(** Instance::boundbox against the specification's box *)
Lemma inst_boundbox_spec cells i p w h b :
  iloc i = PAbs p -> nth_error cells (icell i) = Some (Some (w, h)) -> 0 <= w -> 0 <= h ->
  inst_boundbox cells i = Ok b ->
  tagged p /\ tagged_box b /\ box_of b = loc_box w h p (irh i) (irv i).
Proof.
  destruct i as [ic il rh rv]; cbn [iloc icell irh irv]. intros -> Hc Hw Hh.
  unfold inst_boundbox. cbn [iloc icell irh irv place_abs bind]. rewrite (cell_size_some _ _ _ _ Hc).
  destruct p as [[dx x] [dy y]]. unfold box_at, pp_add, pp_sub, xy_of. cbn [px py pdir pnum].
  destruct dx, dy, rh, rv; cbn -[Z.add Z.sub]; try discriminate; intros Hb; injection Hb as <-;
  unfold tagged, tagged_box, tagged, box_of, loc_box, inst_box, tx; cbn; repeat split; f_equal; lia.
Qed.

Lemma inst_boundbox_total cells i p w h :
  iloc i = PAbs p -> nth_error cells (icell i) = Some (Some (w, h)) -> tagged p ->
  exists b, inst_boundbox cells i = Ok b.
Proof.
  destruct i as [ic il rh rv]; cbn [iloc icell irh irv]. intros -> Hc [T1 T2].
  unfold inst_boundbox. cbn [iloc icell irh irv place_abs bind]. rewrite (cell_size_some _ _ _ _ Hc).
  destruct p as [[dx x] [dy y]]. cbn in T1, T2. subst.
  destruct rh, rv; eexists; reflexivity.
Qed.

(** Array::boundbox_size ends in todo!(): an array is never a usable reference *)
Lemma array_boundbox_size_not_ok cells a : forall sz, array_boundbox_size cells a <> Ok sz.
Proof.
  destruct a as [u c s]. cbn. intros sz.
  destruct u as [c0|a']; [destruct (cell_size cells c0)|destruct (array_boundbox_size cells a')]; cbn; discriminate.
Qed.

Lemma arrayinst_boundbox_not_ok cells a : forall b, arrayinst_boundbox cells a <> Ok b.
Proof.
  intros b. unfold arrayinst_boundbox. destruct (place_abs (aloc a)); cbn; try discriminate.
  destruct (array_boundbox_size cells (aarr a)) eqn:E; cbn; try discriminate.
  exfalso. eapply array_boundbox_size_not_ok; eauto.
Qed.
Local Close Scope Z_scope.

(** * Part 2: the dependency orderer *)
Lemma mem_In x l : mem x l = true <-> In x l.
Proof.
  unfold mem. rewrite existsb_exists. split.
  - intros [y [Hy He]]. apply Nat.eqb_eq in He. now subst.
  - intros H. exists x. split; auto. apply Nat.eqb_refl.
Qed.
Lemma mem_false x l : mem x l = false <-> ~ In x l.
Proof. rewrite <- mem_In. destruct (mem x l); split; congruence. Qed.
Lemma set_remove_notin x l : ~ In x l -> set_remove x l = l.
Proof.
  induction l as [|y r IH]; cbn; auto. intros H.
  destruct (Nat.eqb x y) eqn:E; [apply Nat.eqb_eq in E; subst; tauto|].
  f_equal. apply IH. tauto.
Qed.

Lemma NoDup_app_snoc (x : nat) l : NoDup l -> ~ In x l -> NoDup (l ++ [x]).
Proof.
  induction l as [|y r IH]; cbn; intros Hn Hx.
  - repeat constructor. intros [].
  - inversion Hn as [|? ? Hy Hr]; subst. constructor.
    + intros Hi. apply in_app_or in Hi as [Hi|[Hi|[]]]; [auto|]. subst. apply Hx. now left.
    + apply IH; auto.
Qed.

Section Graph.
Variable pool : Pool.

Inductive reach : nat -> nat -> Prop :=
| reach_refl a : reach a a
| reach_step a b c : node_dep pool a = Ok (Some b) -> reach b c -> reach a c.

Definition reach1 (a c : nat) : Prop := exists b, node_dep pool a = Ok (Some b) /\ reach b c.

Inductive term : nat -> Prop :=
| term_none n : node_dep pool n = Ok None -> term n
| term_some n d : node_dep pool n = Ok (Some d) -> term d -> term n.

Lemma reach_trans a b c : reach a b -> reach b c -> reach a c.
Proof. induction 1; eauto using reach. Qed.
Lemma reach_snoc a b c : reach a b -> node_dep pool b = Ok (Some c) -> reach a c.
Proof. intros H1 H2. eapply reach_trans; eauto using reach. Qed.

Lemma term_reach a b : term a -> reach a b -> term b.
Proof.
  intros Ht Hr. induction Hr as [|a b c Hd Hr IH]; auto.
  apply IH. inversion Ht as [n Hn|n d Hn Hd']; subst; congruence.
Qed.

Lemma reach_back_cycle d n : reach d n -> node_dep pool n = Ok (Some d) -> reach1 d d.
Proof.
  intros Hr Hn. destruct Hr as [a|a b c Hd Hr].
  - exists a. split; auto. constructor.
  - exists b. split; auto. eapply reach_snoc; eauto.
Qed.

Lemma term_no_cycle n : term n -> ~ reach1 n n.
Proof.
  induction 1 as [n Hn|n d Hn Ht IH]; intros [b [Hb Hr]]; [congruence|].
  assert (b = d) by congruence; subst b. apply IH.
  eapply reach_back_cycle; eauto.
Qed.

Lemma node_dep_lt n d : node_dep pool n = Ok d -> (n < length pool)%nat.
Proof.
  unfold node_dep. destruct (nth_error pool n) eqn:E; [|discriminate].
  intros _. apply nth_error_Some. congruence.
Qed.

(** every node's dependency (if any) occurs earlier, given the prefix [pre] *)
Fixpoint deps_first_from (pre l : list nat) : Prop :=
  match l with
  | [] => True
  | x :: r => (forall d, node_dep pool x = Ok (Some d) -> In d pre) /\ deps_first_from (pre ++ [x]) r
  end.

Lemma deps_first_app pre l1 l2 :
  deps_first_from pre (l1 ++ l2) <-> deps_first_from pre l1 /\ deps_first_from (pre ++ l1) l2.
Proof.
  revert pre. induction l1 as [|x r IH]; intros pre; cbn.
  - rewrite app_nil_r. tauto.
  - rewrite IH. rewrite <- app_assoc. cbn. tauto.
Qed.

Definition seen_ok (s : ost) : Prop := forall x, mem x (oseen s) = true <-> In x (ostack s).

Ltac splits := repeat match goal with |- _ /\ _ => split end.

Lemma seen_ok_push s s2 item new2 :
  seen_ok s2 -> ostack s2 = ostack s ++ new2 ->
  seen_ok (mkost (ostack s2 ++ [item]) (item :: oseen s2) (opending s)).
Proof.
  intros Hso2 Hst x. cbn. split.
  - intros Hx. destruct (Nat.eqb x item) eqn:E.
    + apply Nat.eqb_eq in E. subst. apply in_or_app. right. now left.
    + apply in_or_app. left. apply Hso2. exact Hx.
  - intros Hx. destruct (Nat.eqb x item) eqn:E; auto. cbn.
    apply in_app_or in Hx as [Hx|[Hx|[]]]; [now apply Hso2|].
    subst. now rewrite Nat.eqb_refl in E.
Qed.

Lemma push_spec fuel : forall s item s',
  push fuel pool s item = Ok s' -> seen_ok s -> (forall x, In x (ostack s) -> term x) ->
  exists new, ostack s' = ostack s ++ new /\ opending s' = opending s /\ seen_ok s' /\
    NoDup new /\
    (forall x, In x new -> ~ In x (ostack s) /\ ~ In x (opending s) /\ reach item x /\ term x) /\
    In item (ostack s') /\ deps_first_from (ostack s) new.
Proof.
  induction fuel as [|f IH]; intros s item s' H Hso Hterm; cbn in H; [discriminate|].
  destruct (mem item (oseen s)) eqn:Hseen.
  - injection H as <-. exists []. rewrite app_nil_r. splits; auto.
    + constructor.
    + intros x [].
    + apply Hso; auto.
    + exact I.
  - destruct (mem item (opending s)) eqn:Hpend; [discriminate|].
    apply mem_false in Hpend.
    assert (Hnst : ~ In item (ostack s)) by (intros Hi; apply Hso in Hi; congruence).
    destruct (node_dep pool item) as [d| | | |] eqn:Hd; cbn in H; try discriminate.
    assert (Hrm : set_remove item (item :: opending s) = opending s).
    { cbn. rewrite Nat.eqb_refl. now apply set_remove_notin. }
    assert (Hrm' : set_remove item (opending s) = opending s) by now apply set_remove_notin.
    assert (Hmm : mem item (item :: opending s) = true) by (apply mem_In; now left).
    destruct d as [t|].
    + destruct (push f pool (mkost (ostack s) (oseen s) (item :: opending s)) t) as [s2| | | |] eqn:Hp;
        cbn in H; try discriminate.
      apply IH in Hp as (new2 & Hst & Hpe & Hso2 & Hnd & Hnew & Hin & Hdf); auto.
      cbn [ostack opending] in Hst, Hpe, Hnew, Hdf. rewrite Hpe, Hmm in H. injection H as <-.
      cbn [ostack opending oseen]. rewrite ?Nat.eqb_refl, ?Hrm, ?Hrm'.
      assert (Hnot : ~ In item new2).
      { intros Hi. apply Hnew in Hi as (_ & Hi & _). apply Hi. now left. }
      assert (Htt : term t).
      { rewrite Hst in Hin. apply in_app_or in Hin as [Hi|Hi]; [auto|]. now apply Hnew in Hi. }
      exists (new2 ++ [item]). splits.
      * rewrite Hst. now rewrite app_assoc.
      * reflexivity.
      * eapply seen_ok_push; eauto.
      * apply NoDup_app_snoc; auto.
      * intros x Hx. apply in_app_or in Hx as [Hx|[<-|[]]].
        -- apply Hnew in Hx as (H1 & H2 & H3 & H4). splits; auto.
           ++ intros Hi. apply H2. now right.
           ++ econstructor; eauto.
        -- splits; auto; [constructor|eapply term_some; eauto].
      * apply in_or_app. right. now left.
      * apply deps_first_app. split; auto. cbn. split; auto.
        intros d Hd'. assert (d = t) by congruence. subst d. now rewrite <- Hst.
    + cbn in H. rewrite Nat.eqb_refl in H. cbn in H. injection H as <-. cbn [ostack opending oseen]. rewrite ?Nat.eqb_refl, ?Hrm, ?Hrm'.
      exists [item]. splits; auto.
      * apply (seen_ok_push s (mkost (ostack s) (oseen s) (item :: opending s)) item []); auto.
        cbn. now rewrite app_nil_r.
      * repeat constructor. intros [].
      * intros x [<-|[]]. splits; auto; [constructor|now constructor].
      * apply in_or_app. right. now left.
      * cbn. split; auto. intros d Hd'. congruence.
Qed.

Lemma nodup_app (l1 l2 : list nat) :
  NoDup l1 -> NoDup l2 -> (forall x, In x l2 -> ~ In x l1) -> NoDup (l1 ++ l2).
Proof.
  induction l1 as [|y r IH]; cbn; auto. intros H1 H2 Hd.
  inversion H1 as [|? ? Hy Hr]; subst. constructor.
  - intros Hi. apply in_app_or in Hi as [Hi|Hi]; [auto|]. apply (Hd y Hi). now left.
  - apply IH; auto. intros x Hx Hi. apply (Hd x Hx). now right.
Qed.

Lemma bounded_nodup_length (l : list nat) n :
  NoDup l -> (forall p, In p l -> (p < n)%nat) -> (length l <= n)%nat.
Proof.
  intros Hn Hb. rewrite <- (seq_length n 0). apply NoDup_incl_length; auto.
  intros p Hp. apply in_seq. specialize (Hb p Hp). lia.
Qed.

Record top_inv (s : ost) : Prop := mk_top_inv {
  ti_seen : seen_ok s;
  ti_nodup : NoDup (ostack s);
  ti_df : deps_first_from [] (ostack s);
  ti_term : forall x, In x (ostack s) -> term x;
  ti_pend : opending s = [] }.

Lemma top_inv_init : top_inv (mkost [] [] []).
Proof.
  constructor; cbn; auto.
  - intros x; cbn; split; [discriminate|intros []].
  - constructor.
  - intros x [].
Qed.

Lemma top_inv_push fuel s item s' :
  push fuel pool s item = Ok s' -> top_inv s ->
  top_inv s' /\ exists new, ostack s' = ostack s ++ new /\ In item (ostack s') /\
                            forall x, In x new -> reach item x.
Proof.
  intros Hp [Hso Hnd Hdf Hte Hpe].
  destruct (push_spec _ _ _ _ Hp Hso Hte) as (new & Hst & Hpe' & Hso' & Hnd' & Hnew & Hin & Hdf').
  split.
  - constructor; auto.
    + rewrite Hst. apply nodup_app; auto. intros x Hx. now apply Hnew in Hx.
    + rewrite Hst. apply deps_first_app. split; auto.
    + rewrite Hst. intros x Hx. apply in_app_or in Hx as [Hx|Hx]; auto. now apply Hnew in Hx.
    + congruence.
  - exists new. splits; auto. intros x Hx. now apply Hnew in Hx.
Qed.

Lemma fold_push_spec fuel : forall items s s',
  fold_res (push fuel pool) s items = Ok s' -> top_inv s ->
  top_inv s' /\ (forall x, In x (ostack s) -> In x (ostack s')) /\
  (forall x, In x items -> In x (ostack s')) /\
  (forall x, In x (ostack s') -> In x (ostack s) \/ exists i, In i items /\ reach i x).
Proof.
  induction items as [|i r IH]; intros s s' H Hinv; cbn in H.
  - injection H as <-. splits; auto. intros x [].
  - destruct (push fuel pool s i) as [s1| | | |] eqn:Hp; cbn in H; try discriminate.
    destruct (top_inv_push _ _ _ _ Hp Hinv) as (Hinv1 & new & Hst & Hin & Hnew).
    destruct (IH _ _ H Hinv1) as (Hinv' & Hmono & Hitems & Hback).
    splits; auto.
    + intros x Hx. apply Hmono. rewrite Hst. apply in_or_app. now left.
    + intros x [<-|Hx]; auto.
    + intros x Hx. apply Hback in Hx as [Hx|(j & Hj & Hr)].
      * rewrite Hst in Hx. apply in_app_or in Hx as [Hx|Hx]; auto.
        right. exists i. split; [now left|auto].
      * right. exists j. split; [now right|auto].
Qed.

(** ** What an Ok ordering satisfies *)
Lemma order_spec fuel items ord :
  order fuel pool items = Ok ord ->
  NoDup ord /\ deps_first_from [] ord /\ (forall x, In x items -> In x ord) /\
  (forall x, In x ord -> exists i, In i items /\ reach i x) /\ (forall x, In x ord -> term x).
Proof.
  unfold order. destruct (fold_res (push fuel pool) (mkost [] [] []) items) as [s| | | |] eqn:H; cbn; try discriminate.
  intros Ho. injection Ho as <-.
  destruct (fold_push_spec _ _ _ _ H top_inv_init) as ([Hso Hnd Hdf Hte Hpe] & _ & Hitems & Hback).
  splits; auto. intros x Hx. apply Hback in Hx as [[]|Hx]; auto.
Qed.

(** an ordering is closed under dependencies *)
Lemma deps_first_closed pre l x d :
  deps_first_from pre l -> In x l -> node_dep pool x = Ok (Some d) -> In d (pre ++ l).
Proof.
  revert pre. induction l as [|y r IH]; intros pre Hdf Hx Hd; [destruct Hx|].
  destruct Hdf as [Hy Hr]. destruct Hx as [<-|Hx].
  - apply in_or_app. left. auto.
  - specialize (IH _ Hr Hx Hd). rewrite <- app_assoc in IH. exact IH.
Qed.

Lemma closed_reach l a b :
  (forall x d, In x l -> node_dep pool x = Ok (Some d) -> In d l) -> reach a b -> In a l -> In b l.
Proof. intros Hc Hr. induction Hr; eauto. Qed.

(** ** Progress: enough fuel, no OutOfFuel; terminating chains are ordered, the others rejected *)
Notation N := (length pool).

Lemma push_term_ok fuel : forall s item,
  term item -> seen_ok s -> (forall x, In x (ostack s) -> term x) ->
  NoDup (opending s) -> (forall p, In p (opending s) -> (p < N)%nat) ->
  (forall p, In p (opending s) -> reach1 p item) ->
  (N + 1 <= fuel + length (opending s))%nat ->
  exists s', push fuel pool s item = Ok s'.
Proof.
  induction fuel as [|f IH]; intros s item Ht Hso Hte Hnd Hlt Hanc Hfuel.
  - pose proof (bounded_nodup_length _ _ Hnd Hlt). lia.
  - cbn. destruct (mem item (oseen s)) eqn:Hseen; [eauto|].
    destruct (mem item (opending s)) eqn:Hpend.
    { apply mem_In in Hpend. exfalso. eapply term_no_cycle; eauto. }
    apply mem_false in Hpend.
    inversion Ht as [n Hn|n d Hn Htd]; subst n; rewrite Hn; cbn.
    + rewrite Nat.eqb_refl. cbn. eauto.
    + pose proof (node_dep_lt _ _ Hn) as Hlti.
      destruct (IH (mkost (ostack s) (oseen s) (item :: opending s)) d) as [s2 Hp]; auto.
      * cbn. constructor; auto.
      * cbn. intros p [<-|Hp]; auto.
      * cbn. intros p [<-|Hp].
        -- exists d. split; auto. constructor.
        -- destruct (Hanc p Hp) as (b & Hb & Hr). exists b. split; auto. eapply reach_snoc; eauto.
      * cbn. lia.
      * rewrite Hp. cbn.
        destruct (push_spec _ _ _ _ Hp Hso Hte) as (new & _ & Hpe & _).
        cbn in Hpe. rewrite Hpe. cbn. rewrite Nat.eqb_refl. cbn. eauto.
Qed.

Lemma fold_push_term_ok fuel : forall items s,
  (N + 1 <= fuel)%nat -> top_inv s -> (forall i, In i items -> term i) ->
  exists s', fold_res (push fuel pool) s items = Ok s'.
Proof.
  induction items as [|i r IH]; intros s Hf Hinv Ht; cbn; [eauto|].
  destruct Hinv as [Hso Hnd Hdf Hte Hpe].
  destruct (push_term_ok fuel s i) as [s1 Hp]; auto.
  - now apply Ht; left.
  - rewrite Hpe. constructor.
  - rewrite Hpe. intros p [].
  - rewrite Hpe. intros p [].
  - rewrite Hpe. cbn. lia.
  - rewrite Hp. cbn.
    destruct (top_inv_push _ _ _ _ Hp (mk_top_inv _ Hso Hnd Hdf Hte Hpe)) as (Hinv1 & _).
    apply IH; auto. intros j Hj. apply Ht. now right.
Qed.

Lemma order_term_ok fuel items :
  (N + 1 <= fuel)%nat -> (forall i, In i items -> term i) -> exists ord, order fuel pool items = Ok ord.
Proof.
  intros Hf Ht. unfold order.
  destruct (fold_push_term_ok fuel items (mkost [] [] []) Hf top_inv_init Ht) as [s' Hs].
  rewrite Hs. cbn. eauto.
Qed.

(** the specification's chain test agrees: a chain that ends, ends within [fuel] steps when push succeeds
    from a state in which nothing has been seen *)
Lemma push_chain_ends f : forall s i s',
  oseen s = [] -> push f pool s i = Ok s' -> chain_ends pool f i = true.
Proof.
  induction f as [|f IH]; intros s i s' Hs H; cbn in H; [discriminate|].
  rewrite Hs in H. cbn in H.
  destruct (mem i (opending s)); [discriminate|].
  cbn. unfold node_dep in H.
  destruct (nth_error pool i) as [[inst|a|j]|] eqn:E; cbn in H; try discriminate; auto.
  - unfold node_rel. destruct (iloc inst) as [p|r]; cbn in H; auto.
    destruct (push f pool _ (rto r)) as [s2| | | |] eqn:Hp; cbn in H; try discriminate.
    eapply IH; [|exact Hp]. auto.
  - unfold node_rel. destruct (aloc a) as [p|r]; cbn in H; auto.
    destruct (push f pool _ (rto r)) as [s2| | | |] eqn:Hp; cbn in H; try discriminate.
    eapply IH; [|exact Hp]. auto.
Qed.

Lemma cyclic_not_term i : cyclic_from pool i = true -> ~ term i.
Proof.
  unfold cyclic_from. intros Hc Ht.
  destruct (push_term_ok (S N) (mkost [] [] []) i) as [s' Hs]; auto.
  - intros x; cbn; split; [discriminate|intros []].
  - intros x [].
  - constructor.
  - intros p [].
  - intros p [].
  - cbn. lia.
  - apply push_chain_ends in Hs; auto. rewrite Hs in Hc. discriminate.
Qed.

Hypothesis Hwf : wf_pool pool = true.

Lemma wf_node_dep n : (n < N)%nat ->
  exists d, node_dep pool n = Ok d /\ forall t, d = Some t -> (t < N)%nat.
Proof.
  intros Hn. unfold node_dep. destruct (nth_error pool n) as [nd|] eqn:E.
  2:{ apply nth_error_None in E. lia. }
  assert (Hok : node_ok pool nd = true).
  { unfold wf_pool in Hwf. rewrite forallb_forall in Hwf. apply Hwf. eapply nth_error_In; eauto. }
  assert (Hpl : forall p, place_refs_ok N p = true -> forall t, place_dep p = Some t -> (t < N)%nat).
  { intros [p|r]; cbn; intros H t Ht; [discriminate|]. injection Ht as <-. now apply Nat.ltb_lt. }
  destruct nd as [i|a|j]; cbn in Hok.
  - eexists; split; eauto.
  - eexists; split; eauto.
  - destruct (nth_error pool j) as [[i| |]|] eqn:Ej; try discriminate.
    assert (Hoki : node_ok pool (NInst i) = true).
    { unfold wf_pool in Hwf. rewrite forallb_forall in Hwf. apply Hwf. eapply nth_error_In; eauto. }
    cbn in Hoki. eexists; split; eauto.
Qed.

Lemma push_total fuel : forall s item,
  (item < N)%nat -> seen_ok s -> (forall x, In x (ostack s) -> term x) ->
  NoDup (opending s) -> (forall p, In p (opending s) -> (p < N)%nat) ->
  (N + 1 <= fuel + length (opending s))%nat ->
  (exists s', push fuel pool s item = Ok s') \/ push fuel pool s item = Err.
Proof.
  induction fuel as [|f IH]; intros s item Hi Hso Hte Hnd Hlt Hfuel.
  - pose proof (bounded_nodup_length _ _ Hnd Hlt). lia.
  - cbn. destruct (mem item (oseen s)) eqn:Hseen; [eauto|].
    destruct (mem item (opending s)) eqn:Hpend; [auto|].
    apply mem_false in Hpend.
    destruct (wf_node_dep _ Hi) as (d & Hd & Hdlt). rewrite Hd. cbn.
    destruct d as [t|].
    + destruct (IH (mkost (ostack s) (oseen s) (item :: opending s)) t) as [[s2 Hp]|Hp]; auto.
      * cbn. constructor; auto.
      * cbn. intros p [<-|Hp]; auto.
      * cbn. lia.
      * rewrite Hp. cbn.
        destruct (push_spec _ _ _ _ Hp Hso Hte) as (new & _ & Hpe & _).
        cbn in Hpe. rewrite Hpe. cbn. rewrite Nat.eqb_refl. cbn. eauto.
      * rewrite Hp. cbn. auto.
    + cbn. rewrite Nat.eqb_refl. cbn. eauto.
Qed.

Lemma fold_push_total fuel : forall items s,
  (N + 1 <= fuel)%nat -> top_inv s -> (forall i, In i items -> (i < N)%nat) ->
  (exists s', fold_res (push fuel pool) s items = Ok s') \/
  (fold_res (push fuel pool) s items = Err /\ exists i, In i items /\ ~ term i).
Proof.
  induction items as [|i r IH]; intros s Hf Hinv Hlt; cbn; [eauto|].
  destruct Hinv as [Hso Hnd Hdf Hte Hpe].
  assert (Hb : (N + 1 <= fuel + length (opending s))%nat) by (rewrite Hpe; cbn; lia).
  assert (Hnp : NoDup (opending s)) by (rewrite Hpe; constructor).
  assert (Hlp : forall p, In p (opending s) -> (p < N)%nat) by (rewrite Hpe; intros p []).
  destruct (push_total fuel s i) as [[s1 Hp]|Hp]; auto.
  - now apply Hlt; left.
  - rewrite Hp. cbn.
    destruct (top_inv_push _ _ _ _ Hp (mk_top_inv _ Hso Hnd Hdf Hte Hpe)) as (Hinv1 & _).
    destruct (IH s1 Hf Hinv1) as [Hok|(He & j & Hj & Hnt)]; auto.
    + intros j Hj. apply Hlt. now right.
    + right. split; auto. exists j. split; [now right|auto].
  - rewrite Hp. cbn. right. split; auto. exists i. split; [now left|].
    intros Ht. destruct (push_term_ok fuel s i) as [s' Hs']; auto; [|congruence].
    rewrite Hpe. intros p [].
Qed.

(** cycles are rejected by the ordering: exactly Err *)
Lemma order_cycle_err fuel items i :
  (N + 1 <= fuel)%nat -> (forall j, In j items -> (j < N)%nat) -> In i items -> ~ term i ->
  order fuel pool items = Err.
Proof.
  intros Hf Hlt Hi Hnt. unfold order.
  destruct (fold_push_total fuel items (mkost [] [] []) Hf top_inv_init Hlt) as [[s' Hs]|[He _]].
  - exfalso. apply Hnt.
    destruct (fold_push_spec _ _ _ _ Hs top_inv_init) as ([_ _ _ Hte _] & _ & Hitems & _). auto.
  - now rewrite He.
Qed.

Lemma order_err_cycle fuel items :
  (N + 1 <= fuel)%nat -> (forall j, In j items -> (j < N)%nat) ->
  order fuel pool items = Err -> exists i, In i items /\ ~ term i.
Proof.
  intros Hf Hlt. unfold order.
  destruct (fold_push_total fuel items (mkost [] [] []) Hf top_inv_init Hlt) as [[s' Hs]|[He Hex]].
  - rewrite Hs. cbn. discriminate.
  - auto.
Qed.

Lemma order_ok_or_err fuel items :
  (N + 1 <= fuel)%nat -> (forall j, In j items -> (j < N)%nat) ->
  (exists ord, order fuel pool items = Ok ord) \/ order fuel pool items = Err.
Proof.
  intros Hf Hlt. unfold order.
  destruct (fold_push_total fuel items (mkost [] [] []) Hf top_inv_init Hlt) as [[s' Hs]|[He _]].
  - rewrite Hs. cbn. eauto.
  - rewrite He. cbn. auto.
Qed.
End Graph.

(** * Part 3: the placement loop *)
Lemma Permutation_concat {A} (l1 l2 : list (list A)) :
  Permutation l1 l2 -> Permutation (concat l1) (concat l2).
Proof.
  induction 1; cbn; auto.
  - now apply Permutation_app_head.
  - rewrite !app_assoc. apply Permutation_app_tail. apply Permutation_app_comm.
  - eapply Permutation_trans; eauto.
Qed.

Lemma Forall2_fun {A B} (R : A -> B -> Prop) :
  (forall a b b', R a b -> R a b' -> b = b') ->
  forall l m m', Forall2 R l m -> Forall2 R l m' -> m = m'.
Proof.
  intros HR l m m' H. revert m'. induction H; intros m' H'; inversion H'; subst; auto.
  f_equal; eauto.
Qed.

Lemma Forall2_in_l {A B} (R : A -> B -> Prop) l m a :
  Forall2 R l m -> In a l -> exists b, In b m /\ R a b.
Proof.
  induction 1; intros Hi; [destruct Hi|]. destruct Hi as [<-|Hi].
  - eexists; split; [now left|eauto].
  - destruct (IHForall2 Hi) as (b & Hb & Hr). exists b. split; [now right|auto].
Qed.

Lemma map_res_forall {X Y} (f : X -> res Y) (P : Y -> Prop) :
  (forall x y, f x = Ok y -> P y) -> forall l l', map_res f l = Ok l' -> Forall P l'.
Proof.
  intros Hf. induction l as [|x r IH]; intros l' H; cbn in H.
  - injection H as <-. constructor.
  - destruct (f x) eqn:E; cbn in H; try discriminate.
    destruct (map_res f r) eqn:Er; cbn in H; try discriminate.
    injection H as <-. constructor; eauto.
Qed.

Section Place.
Variables (cells : Cells) (pool : Pool).

(** the location of an instance as a function of the relation graph alone *)
Inductive placed : nat -> Xy -> Prop :=
| placed_abs n i p :
    nth_error pool n = Some (NInst i) -> iloc i = PAbs p -> placed n p
| placed_rel n i r j pt bbox loc :
    nth_error pool n = Some (NInst i) -> iloc i = PRel r ->
    nth_error pool (rto r) = Some (NInst j) -> placed (rto r) pt ->
    inst_boundbox cells (inst_at j (PAbs pt)) = Ok bbox ->
    resolve cells i r bbox = Ok loc -> placed n loc.

Lemma placed_fun n p : placed n p -> forall q, placed n q -> p = q.
Proof.
  induction 1 as [n i p Hn Hl|n i r j pt bbox loc Hn Hl Hj Hpt IH Hb Hr]; intros q Hq;
    inversion Hq as [n' i' p' Hn' Hl'|n' i' r' j' pt' bbox' loc' Hn' Hl' Hj' Hpt' Hb' Hr']; subst;
    rewrite Hn in Hn'; injection Hn' as <-; rewrite Hl in Hl'; try discriminate.
  - congruence.
  - injection Hl' as <-. rewrite Hj in Hj'. injection Hj' as <-.
    apply IH in Hpt'. subst pt'. congruence.
Qed.

Definition asg_sound (asg : Asg) : Prop := forall t p, lookup asg t = Some p -> placed t p.

Lemma cur_place_placed asg t j q :
  asg_sound asg -> nth_error pool t = Some (NInst j) -> cur_place asg t (iloc j) = PAbs q -> placed t q.
Proof.
  intros Hs Hj. unfold cur_place. destruct (lookup asg t) as [p|] eqn:E.
  - intros H. injection H as <-. auto.
  - intros H. eapply placed_abs; eauto.
Qed.

Lemma target_boundbox_sound asg t bbox :
  asg_sound asg -> target_boundbox cells pool asg t = Ok bbox ->
  exists j pt, nth_error pool t = Some (NInst j) /\ placed t pt /\
               inst_boundbox cells (inst_at j (PAbs pt)) = Ok bbox.
Proof.
  intros Hs. unfold target_boundbox. destruct (nth_error pool t) as [[j|a|k]|] eqn:E; try discriminate.
  - destruct (cur_place asg t (iloc j)) as [q|r] eqn:Ec.
    + intros H. exists j, q. split; auto. split; auto. eapply cur_place_placed; eauto.
    + unfold inst_boundbox. cbn. discriminate.
  - intros H. exfalso. eapply arrayinst_boundbox_not_ok; eauto.
Qed.

(** what one placeable contributes to `layout.instances` *)
Definition emits (n : nat) (os : list OInst) : Prop :=
  match nth_error pool n with
  | Some (NInst i) => exists p, placed n p /\ os = [mkOInst [n] (icell i) (PAbs p) (irh i) (irv i)]
  | Some (NArray a) => (exists p, aloc a = PAbs p) /\ flatten_array_inst n a = Ok os
  | Some (NPort _) => os = []
  | None => False
  end.

Lemma emits_fun n a b : emits n a -> emits n b -> a = b.
Proof.
  unfold emits. destruct (nth_error pool n) as [[i|ar|k]|]; try tauto.
  - intros (p & Hp & ->) (q & Hq & ->). now rewrite (placed_fun _ _ Hp _ Hq).
  - intros (_ & H1) (_ & H2). congruence.
  - congruence.
Qed.

Lemma lookup_cons asg n p t : lookup ((n, p) :: asg) t = if Nat.eqb t n then Some p else lookup asg t.
Proof. reflexivity. Qed.

Lemma place_node_sound asg out n asg' out' :
  place_node cells pool (asg, out) n = Ok (asg', out') -> asg_sound asg ->
  asg_sound asg' /\ exists os, emits n os /\ out' = out ++ os.
Proof.
  intros H Hs. unfold place_node in H. unfold emits.
  destruct (nth_error pool n) as [[i|a|k]|] eqn:E; try discriminate.
  - destruct (cur_place asg n (iloc i)) as [p|r] eqn:Ec.
    + injection H as <- <-. split; auto. eexists; split; eauto.
      exists p. split; auto. eapply cur_place_placed; eauto.
    + destruct (target_boundbox cells pool asg (rto r)) as [bbox| | | |] eqn:Et; cbn in H; try discriminate.
      destruct (resolve cells i r bbox) as [abs| | | |] eqn:Er; cbn in H; try discriminate.
      injection H as <- <-.
      destruct (target_boundbox_sound _ _ _ Hs Et) as (j & pt & Hj & Hpt & Hb).
      assert (Hil : iloc i = PRel r).
      { unfold cur_place in Ec. destruct (lookup asg n); [discriminate|auto]. }
      assert (Hpl : placed n abs) by (eapply placed_rel; eauto).
      split.
      * intros t p. rewrite lookup_cons. destruct (Nat.eqb t n) eqn:Etn; auto.
        apply Nat.eqb_eq in Etn. subst t. intros Hp. injection Hp as <-. auto.
      * eexists; split; eauto.
  - destruct (aloc a) as [p|r] eqn:Ea; try discriminate.
    destruct (flatten_array_inst n a) as [ch| | | |] eqn:Ef; cbn in H; try discriminate.
    injection H as <- <-. split; auto. exists ch. split; auto. split; eauto.
  - injection H as <- <-. split; auto. exists []. split; auto. now rewrite app_nil_r.
Qed.

Lemma place_nodes_sound : forall ord asg out asg' out',
  fold_res (place_node cells pool) (asg, out) ord = Ok (asg', out') -> asg_sound asg ->
  asg_sound asg' /\ exists outs, Forall2 emits ord outs /\ out' = out ++ concat outs.
Proof.
  induction ord as [|n r IH]; intros asg out asg' out' H Hs; cbn [fold_res] in H.
  - injection H as <- <-. split; auto. exists []. split; [constructor|]. cbn. now rewrite app_nil_r.
  - destruct (place_node cells pool (asg, out) n) as [[asg1 out1]| | | |] eqn:Hn; cbn in H; try discriminate.
    destruct (place_node_sound _ _ _ _ _ Hn Hs) as (Hs1 & os & Hos & ->).
    destruct (IH _ _ _ _ H Hs1) as (Hs' & outs & Hf & ->).
    split; auto. exists (os :: outs). split; [now constructor|]. cbn. now rewrite app_assoc.
Qed.

(** ** Completeness: in any dependency-first order every node that has a location gets it *)
Definition is_abs (asg : Asg) (t : nat) : Prop :=
  match nth_error pool t with
  | Some (NInst j) => exists p, cur_place asg t (iloc j) = PAbs p
  | _ => True
  end.

Lemma place_node_complete asg out n pre :
  asg_sound asg ->
  (forall d, node_dep pool n = Ok (Some d) -> In d pre) ->
  (forall t, In t pre -> is_abs asg t) ->
  (exists os, emits n os) ->
  exists asg' out', place_node cells pool (asg, out) n = Ok (asg', out') /\
    (forall t, is_abs asg t -> is_abs asg' t) /\ is_abs asg' n.
Proof.
  intros Hs Hdep Hpre [os Hem]. unfold place_node. unfold emits in Hem. unfold is_abs at 3.
  destruct (nth_error pool n) as [[i|a|k]|] eqn:E; try tauto.
  - destruct (cur_place asg n (iloc i)) as [p|r] eqn:Ec.
    + do 2 eexists. split; [reflexivity|]. split; auto. eauto.
    + assert (Hlk : lookup asg n = None /\ iloc i = PRel r).
      { unfold cur_place in Ec. destruct (lookup asg n); [discriminate|auto]. }
      destruct Hlk as [Hlk Hil].
      destruct Hem as (p & Hp & _).
      inversion Hp as [n' i' p' Hn' Hl'|n' i' r' j pt bbox loc' Hn' Hl' Hj Hpt Hb Hr]; subst;
        rewrite E in Hn'; injection Hn' as <-; rewrite Hil in Hl'; [discriminate|].
      injection Hl' as <-.
      assert (Hd : node_dep pool n = Ok (Some (rto r))).
      { unfold node_dep. rewrite E, Hil. reflexivity. }
      specialize (Hpre _ (Hdep _ Hd)). unfold is_abs in Hpre. rewrite Hj in Hpre.
      destruct Hpre as [q Hq].
      assert (q = pt) by (eapply placed_fun; [eapply cur_place_placed; eauto|auto]). subst q.
      unfold target_boundbox. rewrite Hj, Hq, Hb. cbn. rewrite Hr. cbn.
      do 2 eexists. split; [reflexivity|]. split.
      * intros t. unfold is_abs. destruct (nth_error pool t) as [[jt| |]|]; auto.
        unfold cur_place. rewrite lookup_cons. destruct (Nat.eqb t n); eauto.
      * unfold cur_place. rewrite lookup_cons, Nat.eqb_refl. eauto.
  - destruct Hem as ((p & Hp) & Hf). rewrite Hp, Hf. cbn. do 2 eexists. split; [reflexivity|]. auto.
  - do 2 eexists. split; [reflexivity|]. auto.
Qed.

Lemma place_nodes_complete : forall ord pre asg out,
  asg_sound asg -> deps_first_from pool pre ord -> (forall t, In t pre -> is_abs asg t) ->
  (forall n, In n ord -> exists os, emits n os) ->
  exists st, fold_res (place_node cells pool) (asg, out) ord = Ok st.
Proof.
  induction ord as [|n r IH]; intros pre asg out Hs Hdf Hpre Hem; cbn [fold_res]; [eauto|].
  destruct Hdf as [Hn Hr].
  destruct (place_node_complete asg out n pre Hs Hn Hpre) as (asg1 & out1 & Hp & Hmono & Habs).
  { apply Hem. now left. }
  rewrite Hp. cbn.
  destruct (place_node_sound _ _ _ _ _ Hp Hs) as (Hs1 & _).
  apply (IH (pre ++ [n])); auto.
  - intros t Ht. apply in_app_or in Ht as [Ht|[<-|[]]]; auto.
  - intros m Hm. apply Hem. now right.
Qed.
End Place.

(** * Part 4: place_layout *)
Section Main.
Variables (cells : Cells) (pool : Pool).
Notation N := (length pool).

Definition entry (n : nat) (i : Inst) (p : Xy) : OInst := mkOInst [n] (icell i) (PAbs p) (irh i) (irv i).
Definition is_placed (e : OInst) : Prop := exists p, oloc e = PAbs p.

Lemma asg_sound_nil : asg_sound cells pool [].
Proof. intros t p H. discriminate. Qed.

Lemma place_layout_inv fuel items out :
  place_layout fuel cells pool items = Ok out ->
  exists ord outs, order fuel pool items = Ok ord /\
                   Forall2 (emits cells pool) ord outs /\ out = concat outs.
Proof.
  unfold place_layout. destruct (order fuel pool items) as [ord| | | |] eqn:Ho; cbn; try discriminate.
  destruct (place_nodes cells pool ord) as [[asg out']| | | |] eqn:Hp; cbn; try discriminate.
  intros H. injection H as <-.
  destruct (place_nodes_sound _ _ _ _ _ _ _ Hp asg_sound_nil) as (_ & outs & Hf & He).
  exists ord, outs. cbn in He. subst. auto.
Qed.

Lemma emits_placed n os : emits cells pool n os -> Forall is_placed os.
Proof.
  unfold emits. destruct (nth_error pool n) as [[i|a|k]|]; try tauto.
  - intros (p & _ & ->). repeat constructor. exists p. reflexivity.
  - intros (_ & H). unfold flatten_array_inst, place_children in H.
    destruct (flatten_array (aarr a) [n]) as [ch| | | |]; cbn in H; try discriminate.
    destruct (place_abs (aloc a)) as [l| | | |]; cbn in H; try discriminate.
    eapply map_res_forall; [|exact H].
    intros x y. unfold place_child.
    destruct (place_abs (oloc x)); cbn; try discriminate.
    destruct (xy_add _ l); cbn; try discriminate.
    intros Hy. injection Hy as <-. eexists; reflexivity.
  - intros ->. constructor.
Qed.

(** every instance of the layout has an absolute location afterwards; a listed instance is there, at
    the location the relation graph determines *)
Theorem place_layout_all_absolute fuel items out :
  place_layout fuel cells pool items = Ok out ->
  Forall is_placed out /\
  forall n i, In n items -> nth_error pool n = Some (NInst i) ->
    exists p, placed cells pool n p /\ In (entry n i p) out.
Proof.
  intros H. destruct (place_layout_inv _ _ _ H) as (ord & outs & Ho & Hf & ->). split.
  - apply Forall_concat. clear Ho H. induction Hf; constructor; auto. eapply emits_placed; eauto.
  - intros n i Hn Hi.
    destruct (order_spec _ _ _ _ Ho) as (_ & _ & Hitems & _).
    destruct (Forall2_in_l _ _ _ _ Hf (Hitems _ Hn)) as (os & Hos & Hem).
    unfold emits in Hem. rewrite Hi in Hem. destruct Hem as (p & Hp & ->).
    exists p. split; auto. apply in_concat. eexists; split; eauto. now left.
Qed.

(** the result does not depend on the listing order *)
Theorem place_layout_perm fuel l l' out :
  (N + 1 <= fuel)%nat -> Permutation l l' ->
  place_layout fuel cells pool l = Ok out ->
  exists out', place_layout fuel cells pool l' = Ok out' /\ Permutation out out'.
Proof.
  intros Hfuel Hperm H.
  destruct (place_layout_inv _ _ _ H) as (ord & outs & Ho & Hf & ->).
  destruct (order_spec _ _ _ _ Ho) as (Hnd & Hdf & Hitems & Hback & Hterm).
  destruct (order_term_ok pool fuel l' Hfuel) as [ord' Ho'].
  { intros i Hi. apply Hterm, Hitems. eapply Permutation_in; [apply Permutation_sym|]; eauto. }
  destruct (order_spec _ _ _ _ Ho') as (Hnd' & Hdf' & Hitems' & Hback' & _).
  assert (Hclosed : forall o, deps_first_from pool [] o ->
                    forall x d, In x o -> node_dep pool x = Ok (Some d) -> In d o).
  { intros o Hd x d Hx Hdx. apply (deps_first_closed pool [] o x d Hd Hx Hdx). }
  assert (Hpo : Permutation ord ord').
  { apply NoDup_Permutation; auto. intros x. split; intros Hx.
    - destruct (Hback _ Hx) as (i & Hi & Hr).
      eapply closed_reach; [apply (Hclosed _ Hdf')|exact Hr|].
      apply Hitems'. eapply Permutation_in; eauto.
    - destruct (Hback' _ Hx) as (i & Hi & Hr).
      eapply closed_reach; [apply (Hclosed _ Hdf)|exact Hr|].
      apply Hitems. eapply Permutation_in; [apply Permutation_sym|]; eauto. }
  destruct (place_nodes_complete cells pool ord' [] [] []) as [[asg' out'] Hp']; auto.
  { apply asg_sound_nil. }
  { intros t []. }
  { intros n Hn. eapply Permutation_in in Hn; [|apply Permutation_sym; exact Hpo].
    destruct (Forall2_in_l _ _ _ _ Hf Hn) as (os & _ & Hem). eauto. }
  destruct (place_nodes_sound _ _ _ _ _ _ _ Hp' asg_sound_nil) as (_ & outs' & Hf' & He).
  cbn in He. subst out'.
  exists (concat outs'). split.
  - assert (Hpn : place_nodes cells pool ord' = Ok (asg', concat outs')) by exact Hp'.
    unfold place_layout. rewrite Ho'. cbn [bind]. rewrite Hpn. reflexivity.
  - destruct (Permutation_Forall2 Hpo Hf) as (outs2 & Hp2 & Hf2).
    assert (outs2 = outs') by (eapply Forall2_fun; [apply emits_fun| |]; eauto). subst.
    now apply Permutation_concat.
Qed.

(** end to end: a relatively placed instance touches its reference instance *)
Theorem place_layout_touching fuel items out n i r j a w h wj hj :
  place_layout fuel cells pool items = Ok out ->
  In n items -> nth_error pool n = Some (NInst i) -> iloc i = PRel r ->
  nth_error pool (rto r) = Some (NInst j) ->
  ralign r = ASide a -> orthogonal (rside r) a = true ->
  nth_error cells (icell i) = Some (Some (w, h)) -> nth_error cells (icell j) = Some (Some (wj, hj)) ->
  (0 <= w)%Z -> (0 <= h)%Z -> (0 <= wj)%Z -> (0 <= hj)%Z ->
  exists p pt s,
    In (entry n i p) out /\ In (entry (rto r) j pt) out /\ tagged p /\ tagged pt /\
    sep_amount cells (rside r) (rsep r) = Some s /\
    touches (rside r) s (loc_box w h p (irh i) (irv i)) (loc_box wj hj pt (irh j) (irv j)) /\
    flush a (loc_box w h p (irh i) (irv i)) (loc_box wj hj pt (irh j) (irv j)).
Proof.
  intros H Hn Hi Hl Hj Hal Hor Hc Hcj Hw Hh Hwj Hhj.
  destruct (place_layout_all_absolute _ _ _ H) as (_ & Hall).
  destruct (Hall _ _ Hn Hi) as (p & Hp & Hin).
  inversion Hp as [n' i' p' Hn' Hl'|n' i' r' j' pt bbox loc' Hn' Hl' Hj' Hpt Hb Hr]; subst;
    rewrite Hi in Hn'; injection Hn' as <-; rewrite Hl in Hl'; [discriminate|].
  injection Hl' as <-. rewrite Hj in Hj'. injection Hj' as <-.
  destruct (inst_boundbox_spec cells (inst_at j (PAbs pt)) pt wj hj bbox) as (Htp & Htb & Hbox); auto.
  destruct (resolve_touching _ _ _ _ _ _ _ _ Hal Hor Htb Hc Hw Hh Hr) as (s & Hs & Htl & Hto & Hfl).
  cbn in Hbox. rewrite Hbox in Hto, Hfl.
  exists p, pt, s. repeat split; auto; try apply Htl; try apply Htp.
  (* the reference instance is in the output too *)
  destruct (place_layout_inv _ _ _ H) as (ord & outs & Ho & Hf & ->).
  destruct (order_spec _ _ _ _ Ho) as (_ & Hdf & Hitems & _).
  assert (Hd : node_dep pool n = Ok (Some (rto r))) by (unfold node_dep; rewrite Hi, Hl; reflexivity).
  pose proof (deps_first_closed pool [] ord n (rto r) Hdf (Hitems _ Hn) Hd) as Hto'.
  destruct (Forall2_in_l _ _ _ _ Hf Hto') as (os & Hos & Hem).
  unfold emits in Hem. rewrite Hj in Hem. destruct Hem as (q & Hq & ->).
  rewrite (placed_fun _ _ _ _ Hq _ Hpt) in Hos.
  apply in_concat. eexists; split; eauto. now left.
Qed.

(** cycles *)
Theorem place_layout_cycle_err fuel items i :
  wf_pool pool = true -> wf_items pool items = true -> (N + 1 <= fuel)%nat ->
  In i items -> ~ term pool i -> place_layout fuel cells pool items = Err.
Proof.
  intros Hwf Hwi Hf Hi Hnt. unfold place_layout.
  rewrite (order_cycle_err pool Hwf fuel items i); auto.
  intros j Hj. unfold wf_items in Hwi. rewrite forallb_forall in Hwi. apply Nat.ltb_lt. auto.
Qed.
End Main.

(** * Part 5: arrays *)
Local Open Scope Z_scope.
Scheme Array_mind := Induction for Array Sort Prop
  with Arrayable_mind := Induction for Arrayable Sort Prop.

Lemma dir_eqb_eq a b : dir_eqb a b = true -> a = b.
Proof. destruct a, b; cbn; congruence. Qed.

Lemma array_sep_pitch s d n : pitch_of s d = Some n -> array_sep s d = Ok (mkPP d n).
Proof.
  destruct s as [[[?|pd m|? ?]|?]|]; cbn; try discriminate.
  - destruct (dir_eqb pd d) eqn:E; [|discriminate]. apply dir_eqb_eq in E. subst. congruence.
  - congruence.
Qed.

Lemma map_res_map {X Y W} (f : Y -> res W) (g : X -> Y) (h : X -> W) l :
  (forall e, In e l -> f (g e) = Ok (h e)) -> map_res f (map g l) = Ok (map h l).
Proof.
  induction l as [|e r IH]; intros H; cbn; auto.
  rewrite H by now left. cbn. rewrite IH; auto. intros e' He. apply H. now right.
Qed.

Lemma map_flat_map' {X Y W} (f : Y -> W) (g : X -> list Y) l :
  map f (flat_map g l) = flat_map (fun x => map f (g x)) l.
Proof. induction l; cbn; auto. now rewrite map_app, IHl. Qed.

Lemma flat_map_single {X Y} (f : X -> Y) l : flat_map (fun x => [f x]) l = map f l.
Proof. induction l; cbn; congruence. Qed.

Lemma flat_map_ext_in' {X Y} (f g : X -> list Y) l :
  (forall x, In x l -> f x = g x) -> flat_map f l = flat_map g l.
Proof.
  induction l as [|x r IH]; intros H; cbn; auto.
  rewrite H by now left. rewrite IH; auto. intros y Hy. apply H. now right.
Qed.

Lemma array_loop_spec body g dx dy : forall k i acc,
  (forall j, (i <= j < i + k)%nat -> body j (xy_of (Z.of_nat j * dx) (Z.of_nat j * dy)) = Ok (g j)) ->
  array_loop body (xy_of dx dy) k i (xy_of (Z.of_nat i * dx) (Z.of_nat i * dy)) acc
  = Ok (acc ++ flat_map g (seq i k)).
Proof.
  induction k as [|k IH]; intros i acc H; cbn [array_loop seq flat_map].
  - now rewrite app_nil_r.
  - rewrite H by lia. cbn [bind].
    assert (Hadd : xy_add (xy_of (Z.of_nat i * dx) (Z.of_nat i * dy)) (xy_of dx dy)
                   = Ok (xy_of (Z.of_nat (S i) * dx) (Z.of_nat (S i) * dy))).
    { rewrite Nat2Z.inj_succ. unfold xy_add, xy_of, pp_add. cbn [px py pdir pnum dir_eqb bind].
      assert (E : forall d, Z.of_nat i * d + d = Z.succ (Z.of_nat i) * d) by (intros; ring).
      now rewrite !E. }
    rewrite Hadd. cbn [bind]. rewrite IH.
    + now rewrite <- app_assoc.
    + intros j Hj. apply H. lia.
Qed.

(** an element of the specification as an output instance *)
Definition elem_inst (prefix : list nat) (e : elem) : OInst :=
  let '(p, c, x, y) := e in mkOInst (prefix ++ p) c (PAbs (xy_of x y)) false false.
Definition shift (i : nat) (dx dy : Z) (e : elem) : elem :=
  let '(p, c, x, y) := e in (i :: p, c, x + Z.of_nat i * dx, y + Z.of_nat i * dy).

Lemma flatten_array_spec : forall a prefix es,
  spec_elems a = Some es -> flatten_array a prefix = Ok (map (elem_inst prefix) es).
Proof.
  apply (Array_mind
           (fun a => forall prefix es, spec_elems a = Some es ->
                                       flatten_array a prefix = Ok (map (elem_inst prefix) es))
           (fun u => match u with
                     | UCell _ => True
                     | UArr a => forall prefix es, spec_elems a = Some es ->
                                                   flatten_array a prefix = Ok (map (elem_inst prefix) es)
                     end)); auto.
  intros u IH count sep prefix es. cbn [spec_elems flatten_array].
  destruct (pitch_of (sepx sep) Horiz) as [dx|] eqn:Ex; [|discriminate].
  destruct (pitch_of (sepy sep) Vert) as [dy|] eqn:Ey; [|discriminate].
  rewrite (array_sep_pitch _ _ _ Ex), (array_sep_pitch _ _ _ Ey). cbn [bind].
  change (mkXy (mkPP Horiz dx) (mkPP Vert dy)) with (xy_of dx dy).
  change (xy_of 0 0) with (xy_of (Z.of_nat 0 * dx) (Z.of_nat 0 * dy)).
  destruct u as [c|a'].
  - intros H. injection H as <-.
    rewrite (array_loop_spec _ (fun i => [elem_inst prefix ([i], c, Z.of_nat i * dx, Z.of_nat i * dy)])).
    + cbn [app]. rewrite flat_map_single. now rewrite map_map.
    + intros j _. reflexivity.
  - destruct (spec_elems a') as [inner|] eqn:Ei; [|discriminate].
    intros H. injection H as <-.
    rewrite (array_loop_spec _ (fun i => map (fun e => elem_inst prefix (shift i dx dy e)) inner)).
    + cbn [app]. rewrite map_flat_map'. apply f_equal. apply flat_map_ext_in'. intros i _.
      rewrite map_map. apply map_ext. intros [[[p c] x] y]. reflexivity.
    + intros j _. rewrite (IH _ _ eq_refl). cbn [bind]. unfold place_children. cbn [place_abs bind].
      apply map_res_map. intros [[[p c] x] y] _. unfold place_child. cbn.
      rewrite <- app_assoc. reflexivity.
Qed.

Theorem flatten_array_inst_spec name a x y rh rv l :
  spec_array name x y rh rv a = Some l ->
  flatten_array_inst name (mkArrayInst a (PAbs (xy_of x y)) rh rv) = Ok l.
Proof.
  unfold spec_array, flatten_array_inst. cbn [aarr aloc arh arv].
  destruct (spec_elems a) as [es|] eqn:E; [|discriminate]. intros H. injection H as <-.
  rewrite (flatten_array_spec _ _ _ E). cbn [bind]. unfold place_children. cbn [place_abs bind].
  apply map_res_map. intros [[[p c] ex] ey] _. unfold place_child. cbn.
  assert (Hc : forall nm cc r1 r2 a a' b b', a = a' -> b = b' ->
            Ok (mkOInst nm cc (PAbs (mkXy (mkPP Horiz a) (mkPP Vert b))) r1 r2)
            = Ok (mkOInst nm cc (PAbs (xy_of a' b')) r1 r2)) by (intros; subst; reflexivity).
  destruct rh, rv; cbn -[Z.add Z.mul Z.sub]; apply Hc; unfold tx; lia.
Qed.

(** explicit positions *)
Lemma nth_error_seq s n i : (i < n)%nat -> nth_error (seq s n) i = Some (s + i)%nat.
Proof.
  revert s i. induction n as [|n IH]; intros s i H; [lia|].
  destruct i as [|i]; cbn; [f_equal; lia|]. rewrite IH by lia. f_equal. lia.
Qed.

Theorem spec_array_flat_ith name x y rh rv c count sep dx dy :
  pitch_of (sepx sep) Horiz = Some dx -> pitch_of (sepy sep) Vert = Some dy ->
  exists l, spec_array name x y rh rv (mkArray (UCell c) count sep) = Some l /\
    length l = count /\
    forall i, (i < count)%nat ->
      nth_error l i = Some (mkOInst [name; i] c
                              (PAbs (xy_of (tx rh x (Z.of_nat i * dx)) (tx rv y (Z.of_nat i * dy)))) rh rv).
Proof.
  intros Hx Hy. unfold spec_array. cbn [spec_elems]. rewrite Hx, Hy.
  eexists. split; [reflexivity|]. split.
  - now rewrite !map_length, seq_length.
  - intros i Hi. rewrite map_map. erewrite map_nth_error; [|apply nth_error_seq; exact Hi]. reflexivity.
Qed.

Lemma nth_error_flat_map_uniform {X Y} (g : X -> list Y) m : forall l i j x,
  (forall x, In x l -> length (g x) = m) -> nth_error l i = Some x -> (j < m)%nat ->
  nth_error (flat_map g l) (i * m + j) = nth_error (g x) j.
Proof.
  induction l as [|y r IH]; intros i j x Hm Hi Hj; [destruct i; discriminate|].
  cbn [flat_map]. destruct i as [|i]; cbn in Hi.
  - injection Hi as <-. cbn. apply nth_error_app1. rewrite Hm; [auto|now left].
  - rewrite nth_error_app2 by (rewrite Hm; [cbn; lia|now left]).
    rewrite Hm by now left. replace (S i * m + j - m)%nat with (i * m + j)%nat by (cbn; lia).
    apply IH; auto. intros z Hz. apply Hm. now right.
Qed.

Theorem spec_elems_nested_ith a' count sep dx dy inner i j p c ex ey :
  pitch_of (sepx sep) Horiz = Some dx -> pitch_of (sepy sep) Vert = Some dy ->
  spec_elems a' = Some inner -> (i < count)%nat -> nth_error inner j = Some (p, c, ex, ey) ->
  exists es, spec_elems (mkArray (UArr a') count sep) = Some es /\
    length es = (count * length inner)%nat /\
    nth_error es (i * length inner + j) = Some (i :: p, c, ex + Z.of_nat i * dx, ey + Z.of_nat i * dy).
Proof.
  intros Hx Hy Hi Hic Hj. cbn [spec_elems]. rewrite Hx, Hy, Hi.
  eexists. split; [reflexivity|]. split.
  - clear. generalize 0%nat. induction count as [|n IH]; intros s; cbn; auto.
    rewrite app_length, map_length, IH. reflexivity.
  - erewrite (nth_error_flat_map_uniform _ (length inner)); [| |apply nth_error_seq; exact Hic|].
    + cbn. erewrite map_nth_error; [|exact Hj]. reflexivity.
    + intros z _. now rewrite map_length.
    + apply nth_error_Some. congruence.
Qed.

(** * Part 6: corollaries used by Properties/C09.v *)
Local Close Scope Z_scope.

Theorem place_lib_all_absolute cells layouts outs :
  place_lib cells layouts = Ok outs -> Forall (Forall is_placed) outs.
Proof.
  unfold place_lib. apply map_res_forall. intros [pool items] out H.
  now apply place_layout_all_absolute in H.
Qed.

Theorem place_layout_perm_fail cells pool fuel l l' :
  (length pool + 1 <= fuel)%nat -> Permutation l l' ->
  (forall out, place_layout fuel cells pool l <> Ok out) ->
  forall out', place_layout fuel cells pool l' <> Ok out'.
Proof.
  intros Hf Hp Hn out' H'.
  destruct (place_layout_perm cells pool fuel l' l out' Hf (Permutation_sym Hp) H') as (out & Ho & _).
  exact (Hn _ Ho).
Qed.

Lemma wf_items_lt pool items : wf_items pool items = true -> forall j, In j items -> (j < length pool)%nat.
Proof.
  unfold wf_items. rewrite forallb_forall. intros H j Hj. apply Nat.ltb_lt. auto.
Qed.

Theorem place_layout_cyclic_err cells pool fuel items i :
  wf_pool pool = true -> wf_items pool items = true -> (length pool + 1 <= fuel)%nat ->
  In i items -> cyclic_from pool i = true -> place_layout fuel cells pool items = Err.
Proof.
  intros Hwf Hwi Hf Hi Hc. eapply place_layout_cycle_err; eauto. now apply cyclic_not_term.
Qed.

Theorem place_layout_reach_cycle_err cells pool fuel items i n :
  wf_pool pool = true -> wf_items pool items = true -> (length pool + 1 <= fuel)%nat ->
  In i items -> reach pool i n -> reach1 pool n n -> place_layout fuel cells pool items = Err.
Proof.
  intros Hwf Hwi Hf Hi Hr Hc. eapply place_layout_cycle_err; eauto.
  intros Ht. eapply term_no_cycle; [|exact Hc]. eapply term_reach; eauto.
Qed.

Theorem place_layout_self_reference_err cells pool fuel items n i r :
  wf_pool pool = true -> wf_items pool items = true -> (length pool + 1 <= fuel)%nat ->
  In n items -> nth_error pool n = Some (NInst i) -> iloc i = PRel r -> rto r = n ->
  place_layout fuel cells pool items = Err.
Proof.
  intros Hwf Hwi Hf Hn Hi Hl Hr.
  assert (Hd : node_dep pool n = Ok (Some n)) by (unfold node_dep; rewrite Hi, Hl; cbn; now rewrite Hr).
  eapply place_layout_reach_cycle_err; eauto; [constructor|].
  exists n. split; auto. constructor.
Qed.

(** with the fuel [enough_fuel] the ordering phase returns Ok or Err, never OutOfFuel / BadRef / Panic;
    nothing after the ordering phase uses fuel *)
Theorem order_total pool fuel items :
  wf_pool pool = true -> wf_items pool items = true -> (length pool + 1 <= fuel)%nat ->
  (exists ord, order fuel pool items = Ok ord) \/ order fuel pool items = Err.
Proof.
  intros Hwf Hwi Hf. apply order_ok_or_err; auto. now apply wf_items_lt.
Qed.

Theorem order_err_only_cycle pool fuel items :
  wf_pool pool = true -> wf_items pool items = true -> (length pool + 1 <= fuel)%nat ->
  order fuel pool items = Err -> exists i, In i items /\ ~ term pool i.
Proof.
  intros Hwf Hwi Hf. apply order_err_cycle; auto. now apply wf_items_lt.
Qed.

From L21 Require Import Tetris.PlacerCheck.
(** * Part 7: every acyclic program of the property's space is placed *)
Definition cells_nonneg (cells : Cells) : Prop :=
  forall c w h, nth_error cells c = Some (Some (w, h)) -> (0 <= w /\ 0 <= h)%Z.

Lemma well_tagged_tagged p : well_tagged p = true -> tagged p.
Proof.
  unfold well_tagged, tagged. intros H. apply andb_prop in H as [H1 H2].
  split; now apply dir_eqb_eq.
Qed.

Lemma tagged_xy_of p : tagged p -> p = xy_of (pnum (px p)) (pnum (py p)).
Proof. destruct p as [[d1 x] [d2 y]]. unfold tagged, xy_of. cbn. intros [-> ->]. reflexivity. Qed.

Lemma in_space_node cells pool n nd :
  in_space cells pool = true -> nth_error pool n = Some nd -> node_in_space cells pool nd = true.
Proof.
  unfold in_space. rewrite forallb_forall. intros H Hn. apply H. eapply nth_error_In; eauto.
Qed.

Lemma array_in_space_elems : forall a, array_in_space a = true -> exists es, spec_elems a = Some es.
Proof.
  apply (Array_mind
           (fun a => array_in_space a = true -> exists es, spec_elems a = Some es)
           (fun u => match u with
                     | UCell _ => True
                     | UArr a => array_in_space a = true -> exists es, spec_elems a = Some es
                     end)); auto.
  intros u IH count sep. cbn [array_in_space spec_elems].
  destruct (pitch_of (sepx sep) Horiz); [|discriminate].
  destruct (pitch_of (sepy sep) Vert); [|discriminate].
  destruct u as [c|a']; [eauto|]. intros H. destruct (IH H) as [inner ->]. eauto.
Qed.

Section InSpace.
Variables (cells : Cells) (pool : Pool).
Hypothesis Hsp : in_space cells pool = true.
Hypothesis Hnn : cells_nonneg cells.

Lemma in_space_placed n : term pool n -> forall i, nth_error pool n = Some (NInst i) ->
  exists p, placed cells pool n p /\ tagged p.
Proof.
  induction 1 as [n Hd|n d Hd Ht IH]; intros i Hi;
    pose proof (in_space_node _ _ _ _ Hsp Hi) as Hns; cbn in Hns;
    destruct (nth_error cells (icell i)) as [[[w h]|]|] eqn:Ec; try discriminate;
    unfold node_dep in Hd; rewrite Hi in Hd; destruct (iloc i) as [p|r] eqn:El; cbn in Hd; try discriminate.
  - exists p. split; [eapply placed_abs; eauto|now apply well_tagged_tagged].
  - injection Hd as <-.
    unfold eligible in Hns. rewrite Ec in Hns.
    destruct (nth_error pool (rto r)) as [[j| |]|] eqn:Ej; try discriminate.
    destruct (ralign r) as [a| |] eqn:Ea; try discriminate.
    destruct (orthogonal (rside r) a) eqn:Eo; try discriminate.
    destruct (sep_amount cells (rside r) (rsep r)) as [s|] eqn:Es; try discriminate.
    destruct (nth_error cells (icell j)) as [[[wj hj]|]|] eqn:Ecj; try discriminate.
    destruct (IH j eq_refl) as (pt & Hpt & Htg).
    destruct (Hnn _ _ _ Ec) as [Hw Hh]. destruct (Hnn _ _ _ Ecj) as [Hwj Hhj].
    destruct (inst_boundbox_total cells (inst_at j (PAbs pt)) pt wj hj eq_refl Ecj Htg) as [bbox Hb].
    destruct (inst_boundbox_spec cells (inst_at j (PAbs pt)) pt wj hj bbox eq_refl Ecj Hwj Hhj Hb) as (_ & Htb & _).
    destruct (resolve_total cells i r bbox a w h s Ea Eo Htb Ec Es) as [loc Hr].
    destruct (resolve_touching cells i r bbox loc a w h Ea Eo Htb Ec Hw Hh Hr) as (_ & _ & Htl & _).
    exists loc. split; auto. eapply placed_rel; eauto.
Qed.

Lemma in_space_emits n : term pool n -> exists os, emits cells pool n os.
Proof.
  intros Ht. unfold emits.
  assert (Hn : exists nd, nth_error pool n = Some nd).
  { inversion Ht as [m Hd|m d Hd _]; subst; unfold node_dep in Hd;
      destruct (nth_error pool n); try discriminate; eauto. }
  destruct Hn as [nd Hn]. rewrite Hn. pose proof (in_space_node _ _ _ _ Hsp Hn) as Hns.
  destruct nd as [i|a|k].
  - destruct (in_space_placed n Ht i Hn) as (p & Hp & _). eauto.
  - destruct a as [arr al rh rv]. cbn in Hns. cbn [aloc]. destruct al as [p|r]; try discriminate.
    apply andb_prop in Hns as [Htg Has]. apply well_tagged_tagged in Htg.
    destruct (array_in_space_elems _ Has) as [es Hes].
    rewrite (tagged_xy_of p Htg).
    eexists. split; [eauto|].
    apply flatten_array_inst_spec. unfold spec_array. rewrite Hes. reflexivity.
  - discriminate.
Qed.

Lemma in_space_chain_term k : forall n, (n < length pool)%nat -> chain_ends pool k n = true -> term pool n.
Proof.
  induction k as [|k IH]; intros n Hn H; cbn in H; [discriminate|].
  destruct (nth_error pool n) as [nd|] eqn:En; [|apply nth_error_None in En; lia].
  pose proof (in_space_node _ _ _ _ Hsp En) as Hns.
  destruct nd as [i|a|j]; cbn in H, Hns; try discriminate.
  - destruct (iloc i) as [p|r] eqn:El.
    + apply term_none. unfold node_dep. now rewrite En, El.
    + destruct (nth_error cells (icell i)) as [[[w h]|]|]; try discriminate.
      unfold eligible in Hns.
      destruct (nth_error pool (rto r)) as [[j| |]|] eqn:Ej; try discriminate.
      eapply term_some; [unfold node_dep; rewrite En, El; reflexivity|].
      apply IH; auto. apply nth_error_Some. congruence.
  - destruct (aloc a) as [p|r] eqn:El; try discriminate.
    apply term_none. unfold node_dep. now rewrite En, El.
Qed.

Theorem place_layout_in_space_ok fuel items :
  wf_items pool items = true -> (length pool + 1 <= fuel)%nat ->
  (forall i, In i items -> cyclic_from pool i = false) ->
  exists out, place_layout fuel cells pool items = Ok out.
Proof.
  intros Hwi Hf Hac.
  assert (Hterm : forall i, In i items -> term pool i).
  { intros i Hi. eapply in_space_chain_term; [eapply wf_items_lt; eauto|].
    specialize (Hac i Hi). unfold cyclic_from in Hac. apply negb_false_iff in Hac. exact Hac. }
  destruct (order_term_ok pool fuel items Hf Hterm) as [ord Ho].
  destruct (order_spec _ _ _ _ Ho) as (_ & Hdf & _ & _ & Hto).
  destruct (place_nodes_complete cells pool ord [] [] []) as [[asg out] Hp]; auto.
  - apply asg_sound_nil.
  - intros t [].
  - intros n Hn. apply in_space_emits. auto.
  - exists out. assert (Hpn : place_nodes cells pool ord = Ok (asg, out)) by exact Hp.
    unfold place_layout. rewrite Ho. cbn [bind]. rewrite Hpn. reflexivity.
Qed.
End InSpace.
