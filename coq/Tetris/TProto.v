(** Model of layout21tetris/src/conv/proto.rs (property C19): [ProtoExporter::export] and
    [ProtoLibImporter::import], with the parts of the tetris data model and of the prost-generated
    `vlsir.tetris` messages that the two converters touch.  No proofs here.

    Tetris side.  A [Ptr<Cell>] is an `Arc<RwLock<Cell>>` compared and hashed BY ADDRESS, and
    `lib.cells` is a `Vec<Ptr<Cell>>` that can list any pointer any number of times, while an
    instance may point at a cell that is not listed at all.  So a library is a HEAP of cell
    objects ([tlib_heap], pointer = index, type N) plus the LISTING [tlib_cells] (a list of
    pointers).  A pointer outside the heap cannot exist in Rust; the model returns [Panic] on it
    and every theorem carries [ptrs_valid] (typing, not a restriction).  `RwLock::read()?` never
    fails in single-threaded use (no poisoning): not modelled.
    Fields of the tetris types that neither converter reads or writes are absent:
    `Library::rawlibs`, `Cell::interface`, `Cell::raw`, `Layout::places` (they are dropped by the
    exporter), and the contents of `RelativePlace` / `PortKind::ZTopInner::locs` (the code fails /
    panics on the variant before looking inside).

    Integers are Z.  `usize` fields (metals, layer and track indices) live in 0 <= v < 2^64,
    `isize` fields ([Int]: outline steps, locations) in -2^63 <= v < 2^63; the target is 64-bit, so
    `i64::try_from(isize)` and `isize::try_from(i64)` always succeed and are the identity, while
    `i64::try_from(usize)` fails (-> `Err`, through `From<TryFromIntError> for LayoutError`) from
    2^63 on, and `usize::try_from(i64)` fails on negatives.

    Outcomes: [res] of Order/DepOrder.v: [Ok], [Err] (a `LayoutError`; messages are not modelled),
    [Panic] (`todo!()`, `usize` subtraction/addition overflow with overflow checks on), [OutOfFuel]
    (only the dependency order runs on fuel).  `self.unwrap(opt, msg)` in the importer is
    `ErrorHelper::unwrap`: it returns `Err`, it does not panic.

    Protobuf side: plain records; every `optional` sub-message / `oneof` is an explicit [option].
    `Cell::interface`, `Cell::module`, `Library::author` are never written by the exporter (left
    `None`) and never read by the importer: absent.

    Cell order: [CellOrder] implements utils `DepOrder`; `process` pushes `inst.cell` for every
    instance of the cell's layout, in order.  That is [order_pending] of Order/DepOrder.v (the C17
    model) on [lib_deps].  `HashMap<String, Ptr<Cell>>` (`cell_map`) is only inserted into and looked
    up, never iterated: an association list where the newest binding wins. *)
From Coq Require Import ZArith NArith List Bool String.
From L21 Require Import Order.DepOrder.
Import ListNotations.
Local Open Scope Z_scope.

(** * Outcomes *)
Definition bind {A B : Type} (r : res A) (f : A -> res B) : res B :=
  match r with
  | Ok a => f a
  | Err => Err
  | Panic => Panic
  | OutOfFuel => OutOfFuel
  end.
Notation "x <- e ;; k" := (bind e (fun x => k)) (at level 61, e at next level, right associativity).

(** `for a in l { v.push(f(a)?) }` *)
Fixpoint mapM {A B : Type} (f : A -> res B) (l : list A) : res (list B) :=
  match l with
  | [] => Ok []
  | a :: r => b <- f a ;; bs <- mapM f r ;; Ok (b :: bs)
  end.

(** `self.unwrap(opt, msg)?` / `opt.ok_or(err)?` *)
Definition unwrap_or_err {A : Type} (o : option A) : res A :=
  match o with Some a => Ok a | None => Err end.

(** * Integer conversions (64-bit target) *)
Definition two63 : Z := 9223372036854775808.
Definition usize_to_i64 (v : Z) : res Z := if v <? two63 then Ok v else Err.   (* i64::try_from(usize)? *)
Definition i64_to_usize (v : Z) : res Z := if v <? 0 then Err else Ok v.       (* usize::try_from(i64)? *)
Definition isize_to_i64 (v : Z) : res Z := Ok v.                               (* i64::try_from(isize)? *)
Definition i64_to_isize (v : Z) : res Z := Ok v.                               (* pt.try_into()? : isize *)
Definition usize_max : Z := 18446744073709551615.

(** * Tetris data model *)
Inductive Dir := Horiz | Vert.
Definition dir_eqb (a b : Dir) : bool :=
  match a, b with Horiz, Horiz | Vert, Vert => true | _, _ => false end.

(** coords.rs PrimPitches { dir, num } (both fields pub) *)
Record PrimP := mkPP { pp_dir : Dir; pp_num : Z }.
(** outline.rs Outline { x, y } (both fields pub: an invalid outline can be built without
    going through [Outline::from_prim_pitches]) *)
Record TOutline := mkTO { to_x : list PrimP; to_y : list PrimP }.
(** tracks.rs TrackRef { layer, track }, TrackCross { track, cross }; stack.rs Assign { net, at } *)
Record TTrackRef := mkTR { tr_layer : Z; tr_track : Z }.
Record TCross := mkTX { tx_track : TTrackRef; tx_cross : TTrackRef }.
Record TAssign := mkTA { ta_net : string; ta_at : TCross }.
(** placement.rs Place<Xy<PrimPitches>> *)
Inductive TPlace := PAbs (x y : PrimP) | PRel.
(** instance.rs Instance *)
Record TInst := mkTI { ti_name : string; ti_cell : N; ti_loc : TPlace; ti_rh : bool; ti_rv : bool }.
(** layout.rs Layout *)
Record TLayout := mkTL {
  tl_name : string; tl_metals : Z; tl_outline : TOutline;
  tl_insts : list TInst; tl_assigns : list TAssign; tl_cuts : list TCross }.
(** abs.rs *)
Inductive TSide := BottomOrLeft | TopOrRight.
Inductive TRelZ := Above | Below.
Inductive TPortKind :=
| PKEdge (layer track : Z) (side : TSide)
| PKZTopEdge (track : Z) (side : TSide) (into : Z) (relz : TRelZ)
| PKZTopInner.
Record TPort := mkTP { tp_name : string; tp_kind : TPortKind }.
Record TAbs := mkTAbs { tabs_name : string; tabs_outline : TOutline; tabs_metals : Z; tabs_ports : list TPort }.
(** cell.rs Cell *)
Record TCell := mkTCell { tc_name : string; tc_abs : option TAbs; tc_layout : option TLayout }.
(** library.rs Library *)
Record TLib := mkTLib { tlib_name : string; tlib_heap : list TCell; tlib_cells : list N }.

Definition heap_get (L : TLib) (p : N) : option TCell := nth_error (tlib_heap L) (N.to_nat p).

(** `ptr.read()?` *)
Definition read_cell (L : TLib) (p : N) : res TCell :=
  match heap_get L p with Some c => Ok c | None => Panic end.

(** * Protobuf messages (vlsir.tetris, vlsir.utils.Reference, vlsir.raw.Point) *)
Record PPoint := mkPPt { ppt_x : Z; ppt_y : Z }.
Inductive PPlaceKind := PPAbs (p : PPoint) | PPRel.
Record PPlace := mkPPlace { pplace_place : option PPlaceKind }.
Inductive PRefTo := RLocal (s : string) | RExternal.
Record PReference := mkPRef { pref_to : option PRefTo }.
Record PInstance := mkPI {
  pi_name : string; pi_cell : option PReference; pi_loc : option PPlace; pi_rh : bool; pi_rv : bool }.
Record PTrackRef := mkPTR { ptr_layer : Z; ptr_track : Z }.
Record PTrackCross := mkPTX { ptx_track : option PTrackRef; ptx_cross : option PTrackRef }.
Record PAssign := mkPA { pa_net : string; pa_at : option PTrackCross }.
Record POutline := mkPO { po_x : list Z; po_y : list Z; po_metals : Z }.
Record PLayout := mkPL {
  pl_name : string; pl_outline : option POutline;
  pl_insts : list PInstance; pl_assigns : list PAssign; pl_cuts : list PTrackCross }.
Inductive PPortKind :=
| PPKEdge (track : option PTrackRef) (side : Z)
| PPKZtopEdge (track : Z) (side : Z) (into : option PTrackRef)
| PPKZtopInner.
Record PAbsPort := mkPAP { pap_net : string; pap_kind : option PPortKind }.
Record PAbstract := mkPAbs { pabs_name : string; pabs_outline : option POutline; pabs_ports : list PAbsPort }.
Record PCell := mkPCell { pc_name : string; pc_abs : option PAbstract; pc_layout : option PLayout }.
Record PLib := mkPLib { plib_domain : string; plib_cells : list PCell }.

(** * Exporter *)
(** export_dimensions / export_dimension *)
Definition export_dimensions (l : list PrimP) : res (list Z) := mapM (fun p => isize_to_i64 (pp_num p)) l.

(** export_outline *)
Definition export_outline (o : TOutline) (metals : Z) : res POutline :=
  x <- export_dimensions (to_x o) ;;
  y <- export_dimensions (to_y o) ;;
  m <- usize_to_i64 metals ;;
  Ok (mkPO x y m).

(** export_track_ref / export_track_cross / export_assignment *)
Definition export_track_ref (t : TTrackRef) : res PTrackRef :=
  layer <- usize_to_i64 (tr_layer t) ;;
  track <- usize_to_i64 (tr_track t) ;;
  Ok (mkPTR layer track).
Definition export_track_cross (c : TCross) : res PTrackCross :=
  track <- export_track_ref (tx_track c) ;;
  cross <- export_track_ref (tx_cross c) ;;
  Ok (mkPTX (Some track) (Some cross)).
Definition export_assignment (a : TAssign) : res PAssign :=
  at_ <- export_track_cross (ta_at a) ;;
  Ok (mkPA (ta_net a) (Some at_)).

(** export_point *)
Definition export_point (x y : PrimP) : res PPoint :=
  px <- isize_to_i64 (pp_num x) ;;
  py <- isize_to_i64 (pp_num y) ;;
  Ok (mkPPt px py).

(** export_instance: `inst.cell.read()?`, `inst.loc.abs()?`, export_point *)
Definition export_instance (L : TLib) (i : TInst) : res PInstance :=
  cell <- read_cell L (ti_cell i) ;;
  match ti_loc i with
  | PRel => Err
  | PAbs x y =>
    loc <- export_point x y ;;
    Ok (mkPI (ti_name i) (Some (mkPRef (Some (RLocal (tc_name cell)))))
             (Some (mkPPlace (Some (PPAbs loc)))) (ti_rh i) (ti_rv i))
  end.

(** export_layout *)
Definition export_layout (L : TLib) (l : TLayout) : res PLayout :=
  o <- export_outline (tl_outline l) (tl_metals l) ;;
  insts <- mapM (export_instance L) (tl_insts l) ;;
  assigns <- mapM export_assignment (tl_assigns l) ;;
  cuts <- mapM export_track_cross (tl_cuts l) ;;
  Ok (mkPL (tl_name l) (Some o) insts assigns cuts).

Definition side_code (s : TSide) : Z := match s with BottomOrLeft => 0 | TopOrRight => 1 end.

(** export_abstract_port; `metals + 1` / `metals - 1` are `usize` arithmetic (overflow checks on) *)
Definition export_abstract_port (p : TPort) (metals : Z) : res PAbsPort :=
  kind <-
    match tp_kind p with
    | PKEdge layer track side =>
      l <- usize_to_i64 layer ;;
      t <- usize_to_i64 track ;;
      Ok (PPKEdge (Some (mkPTR l t)) (side_code side))
    | PKZTopEdge track side into relz =>
      t <- usize_to_i64 track ;;
      layer <- match relz with
               | Above => if metals =? usize_max then Panic else Ok (metals + 1)
               | Below => if metals =? 0 then Panic else Ok (metals - 1)
               end ;;
      l <- usize_to_i64 layer ;;
      i <- usize_to_i64 into ;;
      Ok (PPKZtopEdge t (side_code side) (Some (mkPTR l i)))
    | PKZTopInner => Panic                                  (* todo!() *)
    end ;;
  Ok (mkPAP (tp_name p) (Some kind)).

(** export_abstract: ports first, then the outline *)
Definition export_abstract (a : TAbs) : res PAbstract :=
  ports <- mapM (fun p => export_abstract_port p (tabs_metals a)) (tabs_ports a) ;;
  o <- export_outline (tabs_outline a) (tabs_metals a) ;;
  Ok (mkPAbs (tabs_name a) (Some o) ports).

Definition opt_mapM {A B : Type} (f : A -> res B) (o : option A) : res (option B) :=
  match o with None => Ok None | Some a => b <- f a ;; Ok (Some b) end.

(** export_cell: layout first, then the abstract *)
Definition export_cell (L : TLib) (c : TCell) : res PCell :=
  lay <- opt_mapM (export_layout L) (tc_layout c) ;;
  abs <- opt_mapM export_abstract (tc_abs c) ;;
  Ok (mkPCell (tc_name c) abs lay).

(** CellOrder::process: the cells instantiated by the cell's layout, in instance order *)
Definition lib_deps (L : TLib) (p : N) : list N :=
  match heap_get L p with
  | Some c => match tc_layout c with Some l => map ti_cell (tl_insts l) | None => [] end
  | None => []
  end.

(** recursion depth of the orderer never exceeds the number of distinct cell objects + 1 *)
Definition order_fuel (L : TLib) : nat := S (List.length (tlib_heap L)).

Definition cell_order (L : TLib) : res (list N) :=
  order_pending (order_fuel L) (lib_deps L) (tlib_cells L).

(** ProtoExporter::export / export_lib *)
Definition export (L : TLib) : res PLib :=
  ord <- cell_order L ;;
  cells <- mapM (fun p => c <- read_cell L p ;; export_cell L c) ord ;;
  Ok (mkPLib (tlib_name L) cells).

(** * Importer *)
(** outline.rs Outline::from_prim_pitches: every failing check is the same `Err`, so the checks are
    one boolean.  `x[k]`, `y[k]` are only indexed after the lengths were found equal. *)
Fixpoint non_increasing (l : list Z) : bool :=
  match l with
  | a :: ((b :: _) as r) => (b <=? a) && non_increasing r
  | _ => true
  end.
Fixpoint non_decreasing (l : list Z) : bool :=
  match l with
  | a :: ((b :: _) as r) => (a <=? b) && non_decreasing r
  | _ => true
  end.
Definition outline_validb (x y : list PrimP) : bool :=
  (Nat.leb 1 (List.length x)) && (Nat.eqb (List.length x) (List.length y)) &&
  forallb (fun p => dir_eqb (pp_dir p) Horiz && (0 <=? pp_num p)) x &&
  forallb (fun p => dir_eqb (pp_dir p) Vert && (0 <=? pp_num p)) y &&
  non_increasing (map pp_num x) && non_decreasing (map pp_num y).
Definition from_prim_pitches (x y : list PrimP) : res TOutline :=
  if outline_validb x y then Ok (mkTO x y) else Err.

(** import_prim_pitches_list *)
Definition import_prim_pitches_list (l : list Z) (d : Dir) : res (list PrimP) :=
  mapM (fun v => n <- i64_to_isize v ;; Ok (mkPP d n)) l.

(** import_outline *)
Definition import_outline (po : POutline) : res (TOutline * Z) :=
  x <- import_prim_pitches_list (po_x po) Horiz ;;
  y <- import_prim_pitches_list (po_y po) Vert ;;
  metals <- i64_to_usize (po_metals po) ;;
  o <- from_prim_pitches x y ;;
  Ok (o, metals).

(** import_track_ref / import_track_cross / import_assignment *)
Definition import_track_ref (t : PTrackRef) : res TTrackRef :=
  layer <- i64_to_usize (ptr_layer t) ;;
  track <- i64_to_usize (ptr_track t) ;;
  Ok (mkTR layer track).
Definition import_track_cross (c : PTrackCross) : res TCross :=
  track <- unwrap_or_err (ptx_track c) ;;
  cross <- unwrap_or_err (ptx_cross c) ;;
  track <- import_track_ref track ;;
  cross <- import_track_ref cross ;;
  Ok (mkTX track cross).
Definition import_assignment (a : PAssign) : res TAssign :=
  at_ <- unwrap_or_err (pa_at a) ;;
  at_ <- import_track_cross at_ ;;
  Ok (mkTA (pa_net a) at_).

(** cell_map : HashMap<String, Ptr<Cell>> *)
Definition cmap := list (string * N).
Fixpoint cmap_get (m : cmap) (k : string) : option N :=
  match m with
  | [] => None
  | (k', v) :: r => if String.eqb k k' then Some v else cmap_get r k
  end.
Definition cmap_insert (m : cmap) (k : string) (v : N) : cmap := (k, v) :: m.

(** import_reference *)
Definition import_reference (m : cmap) (pi : PInstance) : res N :=
  pref <- unwrap_or_err (pi_cell pi) ;;
  to <- unwrap_or_err (pref_to pref) ;;
  match to with
  | RExternal => Err
  | RLocal name => unwrap_or_err (cmap_get m name)
  end.

(** import_xy_prim_pitches *)
Definition import_xy_prim_pitches (p : PPoint) : res TPlace :=
  x <- i64_to_isize (ppt_x p) ;;
  y <- i64_to_isize (ppt_y p) ;;
  Ok (PAbs (mkPP Horiz x) (mkPP Vert y)).

(** import_instance *)
Definition import_instance (m : cmap) (pi : PInstance) : res TInst :=
  cell <- import_reference m pi ;;
  loc <- unwrap_or_err (pi_loc pi) ;;
  loc <- unwrap_or_err (pplace_place loc) ;;
  loc <- match loc with
         | PPAbs p => import_xy_prim_pitches p
         | PPRel => Err
         end ;;
  Ok (mkTI (pi_name pi) cell loc (pi_rh pi) (pi_rv pi)).

(** import_layout *)
Definition import_layout (m : cmap) (pl : PLayout) : res TLayout :=
  po <- unwrap_or_err (pl_outline pl) ;;
  om <- import_outline po ;;
  insts <- mapM (import_instance m) (pl_insts pl) ;;
  assigns <- mapM import_assignment (pl_assigns pl) ;;
  cuts <- mapM import_track_cross (pl_cuts pl) ;;
  Ok (mkTL (pl_name pl) (snd om) (fst om) insts assigns cuts).

(** import_abstract_port: `todo!()` *)
Definition import_abstract_port (p : PAbsPort) : res TPort := Panic.

(** import_abstract *)
Definition import_abstract (pa : PAbstract) : res TAbs :=
  po <- unwrap_or_err (pabs_outline pa) ;;
  om <- import_outline po ;;
  ports <- mapM import_abstract_port (pabs_ports pa) ;;
  Ok (mkTAbs (pabs_name pa) (fst om) (snd om) ports).

(** import_cell: layout first, then the abstract *)
Definition import_cell (m : cmap) (pc : PCell) : res TCell :=
  lay <- opt_mapM (import_layout m) (pc_layout pc) ;;
  abs <- opt_mapM import_abstract (pc_abs pc) ;;
  Ok (mkTCell (pc_name pc) abs lay).

(** the loop of import_lib: `lib.cells.insert(cell)` makes a fresh pointer (the next heap index) *)
Fixpoint import_cells (m : cmap) (acc : list TCell) (cells : list PCell) : res (list TCell) :=
  match cells with
  | [] => Ok acc
  | pc :: r =>
    c <- import_cell m pc ;;
    import_cells (cmap_insert m (pc_name pc) (N.of_nat (List.length acc))) (acc ++ [c]) r
  end.

Definition seqN (n : nat) : list N := map N.of_nat (seq 0 n).

(** ProtoLibImporter::import / import_lib *)
Definition import (P : PLib) : res TLib :=
  cells <- import_cells [] [] (plib_cells P) ;;
  Ok (mkTLib (plib_domain P) cells (seqN (List.length cells))).
