(** Tie (a) of DESIGN.md 2.3 for the arithmetic of the tetris -> raw compiler (family "tetris_conv", property C08): the
    definitions generated from layout21tetris/src/conv/raw.rs `RawExporter::track_cross_xy` (Gen/KernelsTetrisConvXGen.v) and
    `RawExporter::instance_intersects` (Gen/KernelsTetrisConvIGen.v, with `Dir::not`, `Place::abs`, `impl Index<Dir> for Xy`, the
    DbUnits operators), read as in Tetris/KernelsInstConv.v, EQUAL [track_cross_xy] and [instance_intersects] of
    Tetris/Compile.v. *)
From Coq Require Import ZArith Bool List Lia.
From L21 Require Import Base.KernelOps Base.KernelOpsX Base.KernelOpsS Tetris.KernelsInstConv.
From L21 Require Gen.KernelsTetrisConvXGen Gen.KernelsTetrisConvIGen.
From L21 Require Tetris.Stack Tetris.Tracks Tetris.Compile Tetris.KernelsInstTetris.
Import ListNotations.
Local Open Scope Z_scope.
Import Tetris.KernelsInstTetris.

Section TrackCross.
Import Gen.KernelsTetrisConvXGen.
Ltac xsimp := cbn [CX.ts_xops ts_xops z_xops z_kops kx_base k_bind k_ret k_fail ts_bind ts_ret S.bind].

Lemma dir_eqb_horiz : forall b, gDir_eqb (CX.Gdirb b) (@gDir_Horiz unit Z) = b.
Proof. intros []; reflexivity. Qed.

(** `track_cross_xy`: the centre of the track in x, that of the crossing track in y, transposed when the track's layer is
    horizontal; for a validated stack (layers numbered by position) *)
Lemma tie_track_cross_xy : forall fx vs c, CX.indexed_stack vs ->
  CX.g_track_cross_xy fx vs c = S.bind (C.track_cross_xy fx vs c) (fun p => S.Ok (CX.Gxy p)).
Proof.
  intros fx vs c Hix. unfold CX.g_track_cross_xy, g_RawExporter_track_cross_xy, C.track_cross_xy. xsimp.
  cbn [CX.Gcross gTrackCross_track gTrackCross_cross gTrackRef_layer gTrackRef_track gRawExporter_stack].
  unfold CX.x_metal at 1. destruct (C.metal_at vs (C.x_tl c)) as [mt| |] eqn:Emt; xsimp; try reflexivity.
  unfold CX.x_center at 1. cbn [CX.Gvm gValidMetalLayer_index]. rewrite (Hix _ _ Emt), Emt. xsimp.
  destruct (C.center fx mt (C.x_tt c)) as [x| |]; xsimp; try reflexivity.
  unfold CX.x_metal at 1. destruct (C.metal_at vs (C.x_cl c)) as [mc| |] eqn:Emc; xsimp; try reflexivity.
  unfold CX.x_center at 1. cbn [CX.Gvm gValidMetalLayer_index]. rewrite (Hix _ _ Emc), Emc. xsimp.
  destruct (C.center fx mc (C.x_ct c)) as [y| |]; xsimp; try reflexivity.
  unfold g_Xy_new. xsimp. unfold CX.x_metal. rewrite Emt. xsimp.
  cbn [CX.Gvm gValidMetalLayer_spec gMetalLayer_dir]. rewrite dir_eqb_horiz.
  destruct (S.m_horiz (S.vm_spec mt)); reflexivity.
Qed.
End TrackCross.

Section Intersects.
Import Gen.KernelsTetrisConvIGen.
Ltac isimp := cbn [CI.ts_xops ts_xops z_xops z_kops kx_base k_bind k_ret k_fail ts_bind ts_ret S.bind i_lt i_add i_mul i_sub i_lit i_try_from zunsigned andb].

(** `instance_intersects`: the instance's extent in the layer's periodic direction against the period's extent;
    touching edge to edge is no intersection *)
Lemma tie_instance_intersects : forall vs i vm periodnum,
  CI.g_instance_intersects vs i vm periodnum = S.Ok (C.instance_intersects vs i vm periodnum).
Proof.
  intros vs i vm periodnum. unfold CI.g_instance_intersects, g_RawExporter_instance_intersects, C.instance_intersects.
  cbn [CI.Gvm gValidMetalLayer_spec gValidMetalLayer_pitch gMetalLayer_dir CI.Ginst gInstance_loc gInstance_cell gInstance_reflect_horiz gInstance_reflect_vert].
  unfold g_Dir_not, g_Dir_other, g_Place_abs, g_Xy_index, g_DbUnits_add, g_DbUnits_sub, g_DbUnits_mul_usize, CI.x_db_units, CI.x_outline_max.
  destruct (S.m_horiz (S.vm_spec vm)); cbn [CI.Gdirb negb]; isimp;
    cbn [gXy_x gXy_y gPrimPitches_dir gPrimPitches_num CI.is_horiz CI.Gu gDbUnits_0 zsub].
  - destruct (C.i_rv i); cbn [negb]; isimp; cbn [CI.Gu gDbUnits_0 zsub];
      rewrite Z.gtb_ltb, (Z.mul_comm (S.vm_pitch vm) periodnum), (Z.mul_comm (S.vm_pitch vm) (periodnum + 1));
      destruct (_ <? _); reflexivity.
  - destruct (C.i_rh i); cbn [negb]; isimp; cbn [CI.Gu gDbUnits_0 zsub];
      rewrite Z.gtb_ltb, (Z.mul_comm (S.vm_pitch vm) periodnum), (Z.mul_comm (S.vm_pitch vm) (periodnum + 1));
      destruct (_ <? _); reflexivity.
Qed.
End Intersects.
