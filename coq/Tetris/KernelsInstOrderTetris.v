(** Reading of the generated orderers of layout21tetris (Gen/KernelsTetrisOrderGen.v: library.rs `DepOrder::push / order`,
    placer.rs `PlaceOrder::process / fail`; Gen/KernelsTetrisProtoOrderGen.v: conv/proto.rs `CellOrder::process / fail`) at the
    level of the models of C17 (Order/DepOrder.v, Order/DepOrderFixed.v), of C09's placer (Tetris/Placer.v [push],
    [node_dep]) and of C19's exporter (Tetris/TProto.v [lib_deps]).  Outcomes, sets and the conversion of pointer keys are
    those of Order/KernelsInstOrder.v; the heaps (what `ptr.read()` gives) are arbitrary total functions, and the models'
    graphs are READ OFF them.  No proofs in this file. *)
From Coq Require Import ZArith NArith Bool List.
From L21 Require Import Base.KernelOps Base.KernelOpsX Base.KernelOpsS Order.DepOrder Order.DepOrderFixed Order.KernelsInstOrder.
From L21 Require Gen.KernelsOrderGen Gen.KernelsTetrisOrderGen Gen.KernelsTetrisProtoOrderGen.
From L21 Require Tetris.Placer Tetris.TProto Tetris.KernelsInstTetris.
Import ListNotations.

(** * layout21tetris/src/library.rs DepOrder: cells and instances behind pointers *)
Module OT.
Import Gen.KernelsTetrisOrderGen.
Definition gst : Type := gDepOrder set_ptr unit Z.
Definition glib : Type := gLibrary unit Z.
Definition Gst (lib : glib) (s : st) : gst :=
  mk_gDepOrder set_ptr lib (map N.to_nat (stack s)) (seen s) (pending s).
Definition unG (o : gst) : st :=
  mkst (map N.of_nat (gDepOrder_stack set_ptr o)) (gDepOrder_seen set_ptr o) (gDepOrder_pending set_ptr o).
Definition cheap : Type := kptr -> gCell unit Z.
Definition iheap : Type := kptr -> gInstance unit Z.
(** the graph the orderer walks: for every instance pointer of the cell's layout, in order, the cell of the instance *)
Definition tetris_deps (ch : cheap) (ih : iheap) (n : N) : list N :=
  match gCell_layout (ch (N.to_nat n)) with
  | Some l => map (fun ip => N.of_nat (gInstance_cell (ih ip))) (gLayout_instances l)
  | None => []
  end.
Definition g_push (ch : cheap) (ih : iheap) (rec : gst -> kptr -> res gst) (o : gst) (p : kptr) : res gst :=
  g_DepOrder_push od_xops set_ptr (fun q => Ok (ch q)) (fun q => Ok (ih q)) rec o p.
Definition g_order (ch : cheap) (ih : iheap) (rec : gst -> kptr -> res gst) (lib : glib) : res (list kptr) :=
  g_DepOrder_order od_xops set_ptr (fun q => Ok (ch q)) (fun q => Ok (ih q)) rec lib.
Definition rec_of (lib : glib) (pushf : st -> N -> res st) (o : gst) (p : kptr) : res gst :=
  rmap (Gst lib) (pushf (unG o) (N.of_nat p)).
End OT.

(** * layout21tetris/src/placer.rs PlaceOrder::process: the orderer state is abstract, `orderer.push` an argument *)
Module OP.
Import Gen.KernelsTetrisOrderGen.
Definition gpl : Type := gPlaceable unit Z.
Record heaps : Type := mkHeaps {
  h_inst : kptr -> gInstance unit Z; h_arr : kptr -> gArrayInstance unit Z;
  h_grp : kptr -> gGroupInstance unit Z; h_asg : kptr -> gRelAssign unit Z }.
Definition rel_to (p : gPlace unit Z) : option gpl :=
  match p with gPlace_Rel r => Some (gRelativePlace_to r) | gPlace_Abs _ => None end.
(** what a placeable is placed relative to: the `to` of its relative placement (an assignment is always relative; a port
    follows its instance) *)
Definition place_dep (h : heaps) (item : gpl) : option gpl :=
  match item with
  | gPlaceable_Instance p => rel_to (gInstance_loc (h_inst h p))
  | gPlaceable_Array p => rel_to (gArrayInstance_loc (h_arr h p))
  | gPlaceable_Group p => rel_to (gGroupInstance_loc (h_grp h p))
  | gPlaceable_Assign a => Some (gRelativePlace_to (gRelAssign_loc (h_asg h a)))
  | gPlaceable_Port inst _ => rel_to (gInstance_loc (h_inst h inst))
  end.
Definition g_process {T : Type} (h : heaps) (pushf : T -> gpl -> res T) (item : gpl) (o : T) : res T :=
  g_PlaceOrder_process od_xops T pushf (fun p => Ok (h_arr h p)) (fun p => Ok (h_grp h p)) (fun p => Ok (h_inst h p))
                       (fun p => Ok (h_asg h p)) item o.
End OP.

(** * layout21tetris/src/conv/proto.rs CellOrder::process *)
Module OC.
Import Gen.KernelsTetrisProtoOrderGen.
Definition cheap : Type := kptr -> gCell unit Z.
Definition iheap : Type := kptr -> gInstance unit Z.
Definition cell_deps (ch : cheap) (ih : iheap) (item : kptr) : list kptr :=
  match gCell_layout (ch item) with
  | Some l => map (fun ip => gInstance_cell (ih ip)) (gLayout_instances l)
  | None => []
  end.
Definition g_process {T : Type} (ch : cheap) (ih : iheap) (pushf : T -> kptr -> res T) (item : kptr) (o : T) : res T :=
  g_CellOrder_process od_xops T pushf (fun q => Ok (ch q)) (fun q => Ok (ih q)) item o.
(** `for d in l { orderer.push(d)? }` over pointers *)
Fixpoint for_each_ptr {T : Type} (pushf : T -> kptr -> res T) (o : T) (l : list kptr) : res T :=
  match l with
  | [] => Ok o
  | x :: r => match pushf o x with Ok o' => for_each_ptr pushf o' r | e => e end
  end.
(** the library of the C19 model as a heap: a cell pointer is its index in the heap; an instance pointer is (stands for)
    the index of the cell it instantiates, so that reading it gives an instance of that cell *)
Module TP := Tetris.TProto.
Definition ch_of (L : TP.TLib) : cheap := fun p =>
  match TP.heap_get L (N.of_nat p) with
  | Some c => mk_gCell (option_map (fun l => mk_gLayout (map (fun i => N.to_nat (TP.ti_cell i)) (TP.tl_insts l))) (TP.tc_layout c))
  | None => mk_gCell None
  end.
Definition ih_id : iheap := fun ip => mk_gInstance ip.
End OC.

(** * Tetris/Placer.v: the generic helper at items = node ids, sets = the lists of that model (insert = cons) *)
Module OPl.
Module P := Tetris.Placer.
Import Gen.KernelsOrderGen.
Definition set_cons : ksetops nat :=
  {| ks_t := list nat; ks_empty := []; ks_contains := fun s x => P.mem x s;
     ks_insert := fun s x => x :: s; ks_remove := fun s x => P.set_remove x s |}.
Definition gst : Type := gDepOrderer nat set_cons unit Z.
Definition Gst (s : P.ost) : gst := mk_gDepOrderer nat set_cons (P.ostack s) (P.oseen s) (P.opending s).
Definition unG (o : gst) : P.ost :=
  P.mkost (gDepOrderer_stack nat set_cons o) (gDepOrderer_seen nat set_cons o) (gDepOrderer_pending nat set_cons o).
Definition pmap {A B : Type} (f : A -> B) (r : P.res A) : P.res B := P.bind r (fun a => P.Ok (f a)).
Definition g_push (proc : nat -> gst -> P.res gst) (o : gst) (item : nat) : P.res gst :=
  g_DepOrderer_push KernelsInstTetris.tp_xops nat set_cons P.Err proc o item.
(** `PlaceOrder::process` on node ids: the at most one dependency of the node is pushed *)
Definition proc_of (pool : P.Pool) (pushf : P.ost -> nat -> P.res P.ost) (item : nat) (o : gst) : P.res gst :=
  P.bind (P.node_dep pool item) (fun d => match d with Some t => pmap Gst (pushf (unG o) t) | None => P.Ok o end).
(** `PlaceOrder::process` on the pool of that model: a node id is the placeable the pool has at that index (as in
    Tetris/KernelsInstTetris.v); what the function does not read (side, align, separation, absolute coordinates) is filled
    with fixed values; groups and assignments are outside that model ([BadRef], like a dangling node id) *)
Module TG := Gen.KernelsTetrisOrderGen.
Definition Gto (pool : P.Pool) (n : nat) : TG.gPlaceable unit Z :=
  match nth_error pool n with
  | Some (P.NInst _) => TG.gPlaceable_Instance n
  | Some (P.NArray _) => TG.gPlaceable_Array n
  | Some (P.NPort j) => TG.gPlaceable_Port j kopaque_any
  | None => TG.gPlaceable_Group n
  end.
Definition Gplace (pool : P.Pool) (p : P.Place) : TG.gPlace unit Z :=
  match p with
  | P.PAbs _ => TG.gPlace_Abs (TG.mk_gXy TG.mk_gPrimPitches TG.mk_gPrimPitches)
  | P.PRel r => TG.gPlace_Rel (TG.mk_gRelativePlace (Gto pool (P.rto r)) TG.gSide_Top TG.gAlign_Center (TG.mk_gSeparation None None None))
  end.
Definition rd_inst (pool : P.Pool) (p : kptr) : P.res (TG.gInstance unit Z) :=
  match nth_error pool p with
  | Some (P.NInst i) => P.Ok (TG.mk_gInstance (P.icell i) (Gplace pool (P.iloc i)))
  | _ => P.BadRef
  end.
Definition rd_arr (pool : P.Pool) (p : kptr) : P.res (TG.gArrayInstance unit Z) :=
  match nth_error pool p with
  | Some (P.NArray a) => P.Ok (TG.mk_gArrayInstance (Gplace pool (P.aloc a)))
  | _ => P.BadRef
  end.
Definition g_process {T : Type} (pool : P.Pool) (pushf : T -> TG.gPlaceable unit Z -> P.res T) (n : nat) (o : T) : P.res T :=
  TG.g_PlaceOrder_process KernelsInstTetris.tp_xops T pushf (rd_arr pool) (fun _ => P.BadRef) (rd_inst pool) (fun _ => P.BadRef)
                          (Gto pool n) o.
End OPl.
