(** Proofs for property C19 (statements collected in Properties/C19.v). *)
From Coq Require Import ZArith NArith List Bool String Sorted Lia Arith.
From L21 Require Import Order.DepOrder Order.DepOrderSpec Order.DepOrder_proofs.
From L21 Require Import Tetris.TProto Tetris.TProtoSpec.
Import ListNotations.
Local Open Scope Z_scope.

(** * Generic facts *)
Lemma mapM_ok_map : forall (A B : Type) (f : A -> res B) (g : A -> B) l,
  (forall a, In a l -> f a = Ok (g a)) -> mapM f l = Ok (map g l).
Proof.
  induction l as [|a r IH]; intros H; cbn [mapM map]; [reflexivity|].
  rewrite (H a (or_introl eq_refl)). cbn [bind].
  rewrite IH by (intros; apply H; right; assumption). reflexivity.
Qed.

Lemma mapM_ok_Forall2 : forall (A B : Type) (f : A -> res B) l r,
  mapM f l = Ok r -> Forall2 (fun a b => f a = Ok b) l r.
Proof.
  induction l as [|a l IH]; intros r H; cbn [mapM] in H.
  - inversion H. constructor.
  - destruct (f a) as [b| | |] eqn:Ea; cbn [bind] in H; try discriminate.
    destruct (mapM f l) as [bs| | |] eqn:El; cbn [bind] in H; try discriminate.
    inversion H; subst. constructor; [assumption|]. apply IH. reflexivity.
Qed.

Lemma mapM_Forall2_ok : forall (A B : Type) (f : A -> res B) l r,
  Forall2 (fun a b => f a = Ok b) l r -> mapM f l = Ok r.
Proof.
  induction 1 as [|a b l r Hab _ IH]; cbn [mapM]; [reflexivity|].
  rewrite Hab. cbn [bind]. rewrite IH. reflexivity.
Qed.

(** results that are not a crash *)
Definition ok_or_err {A : Type} (r : res A) : Prop := (exists a, r = Ok a) \/ r = Err.

Lemma ok_or_err_Ok : forall (A : Type) (a : A), ok_or_err (Ok a).
Proof. intros; left; eexists; reflexivity. Qed.
Lemma ok_or_err_Err : forall (A : Type), ok_or_err (@Err A).
Proof. intros; right; reflexivity. Qed.
Lemma ok_or_err_bind : forall (A B : Type) (r : res A) (f : A -> res B),
  ok_or_err r -> (forall a, r = Ok a -> ok_or_err (f a)) -> ok_or_err (bind r f).
Proof.
  intros A B r f [[a Ha]|He] Hf; subst; cbn [bind]; [apply Hf; reflexivity | apply ok_or_err_Err].
Qed.
Lemma ok_or_err_mapM : forall (A B : Type) (f : A -> res B) l,
  (forall a, In a l -> ok_or_err (f a)) -> ok_or_err (mapM f l).
Proof.
  induction l as [|a l IH]; intros H; cbn [mapM]; [apply ok_or_err_Ok|].
  apply ok_or_err_bind; [apply H; left; reflexivity|]. intros b _.
  apply ok_or_err_bind; [apply IH; intros; apply H; right; assumption|].
  intros; apply ok_or_err_Ok.
Qed.
Lemma ok_or_err_unwrap : forall (A : Type) (o : option A), ok_or_err (unwrap_or_err o).
Proof. destruct o; [apply ok_or_err_Ok | apply ok_or_err_Err]. Qed.
Lemma ok_or_err_not_panic : forall (A : Type) (r : res A), ok_or_err r -> r <> Panic /\ r <> OutOfFuel.
Proof. intros A r [[a ->]| ->]; split; discriminate. Qed.

(** an error stops a sequence whose earlier steps do not crash *)
Lemma bind_err_l : forall (A B : Type) (r : res A) (f : A -> res B),
  ok_or_err r -> (forall a, r = Ok a -> f a = Err) -> bind r f = Err.
Proof. intros A B r f [[a Ha]|He] Hf; subst; cbn [bind]; [apply Hf|]; reflexivity. Qed.

Lemma mapM_exists_err : forall (A B : Type) (f : A -> res B) l,
  (forall a, In a l -> ok_or_err (f a)) -> Exists (fun a => f a = Err) l -> mapM f l = Err.
Proof.
  induction l as [|a l IH]; intros Hc Hex; [inversion Hex|].
  cbn [mapM]. inversion Hex as [x r Hx|x r Hr]; subst.
  - rewrite Hx. reflexivity.
  - apply bind_err_l; [apply Hc; left; reflexivity|]. intros b _.
    rewrite IH; [reflexivity | intros; apply Hc; right; assumption | assumption].
Qed.

Lemma NoDup_app_cons_unique : forall (A : Type) (x : A) l1 l2 l1' l2',
  NoDup (l1 ++ x :: l2) -> l1 ++ x :: l2 = l1' ++ x :: l2' -> l1 = l1' /\ l2 = l2'.
Proof.
  induction l1 as [|a l1 IH]; intros l2 l1' l2' Hnd Heq.
  - destruct l1' as [|b l1']; cbn in *.
    + inversion Heq; auto.
    + inversion Heq; subst. inversion Hnd as [|? ? Hnin _]; subst.
      exfalso; apply Hnin. apply in_or_app; right; left; reflexivity.
  - destruct l1' as [|b l1']; cbn in *.
    + inversion Heq; subst. inversion Hnd as [|? ? Hnin _]; subst.
      exfalso; apply Hnin. apply in_or_app; right; left; reflexivity.
    + inversion Heq; subst. inversion Hnd; subst.
      destruct (IH l2 l1' l2') as [-> ->]; auto.
Qed.

Lemma nth_error_split_len : forall (A : Type) (l : list A) k x,
  nth_error l k = Some x -> exists l1 l2, l = l1 ++ x :: l2 /\ List.length l1 = k.
Proof. intros; apply nth_error_split; assumption. Qed.

(** * Reachability and pointer validity *)
Lemma heap_get_ok : forall L p, ptr_ok L p -> exists c, heap_get L p = Some c.
Proof.
  intros L p H. unfold heap_get. destruct (nth_error (tlib_heap L) (N.to_nat p)) eqn:E; [eauto|].
  apply nth_error_None in E. unfold ptr_ok in H. lia.
Qed.
Lemma heap_get_In : forall L p c, heap_get L p = Some c -> In c (tlib_heap L).
Proof. intros L p c H; eapply nth_error_In; exact H. Qed.
Lemma heap_get_ptr_ok : forall L p c, heap_get L p = Some c -> ptr_ok L p.
Proof. intros L p c H. unfold ptr_ok. apply nth_error_Some. unfold heap_get in H. congruence. Qed.

Lemma lib_deps_cell : forall L p c, heap_get L p = Some c -> lib_deps L p = map ti_cell (cell_insts c).
Proof. intros L p c H. unfold lib_deps, cell_insts. rewrite H. destruct (tc_layout c); reflexivity. Qed.

Lemma deps_ptr_ok : forall L p d, ptrs_valid L -> In d (lib_deps L p) -> ptr_ok L d.
Proof.
  intros L p d [_ Hi] Hd. unfold lib_deps in Hd.
  destruct (heap_get L p) as [c|] eqn:Ec; [|inversion Hd].
  assert (Hd' : In d (map ti_cell (cell_insts c))) by (unfold cell_insts; destruct (tc_layout c); assumption).
  apply in_map_iff in Hd' as [i [<- Hin]]. eapply Hi; [eapply heap_get_In; eassumption | assumption].
Qed.

Lemma reach_ptr_ok : forall L p q, ptrs_valid L -> ptr_ok L p -> reach (lib_deps L) p q -> ptr_ok L q.
Proof.
  intros L p q Hv Hp Hr. induction Hr as [x|x d y Hd _ IH]; [assumption|].
  apply IH. eapply deps_ptr_ok; eassumption.
Qed.

Lemma reachable_ptr_ok : forall L p, ptrs_valid L -> lib_reachable L p -> ptr_ok L p.
Proof.
  intros L p Hv [r [Hr Hreach]]. eapply reach_ptr_ok; [assumption | apply Hv; exact Hr | exact Hreach].
Qed.

Lemma seqN_In : forall n p, (N.to_nat p < n)%nat -> In p (seqN n).
Proof.
  intros n p H. unfold seqN. apply in_map_iff. exists (N.to_nat p). split; [apply N2Nat.id|].
  apply in_seq. lia.
Qed.
Lemma seqN_length : forall n, List.length (seqN n) = n.
Proof. intros; unfold seqN; rewrite map_length, seq_length; reflexivity. Qed.

(** the orderer always has enough fuel and never panics *)
Lemma cell_order_cases : forall L, ptrs_valid L ->
  (exists ord, cell_order L = Ok ord) \/ cell_order L = Err.
Proof.
  intros L Hv. unfold cell_order.
  assert (Hf : order_pending (order_fuel L) (lib_deps L) (tlib_cells L) <> OutOfFuel).
  { apply order_pending_bounded with (nodes := seqN (List.length (tlib_heap L))).
    - intros x Hx. apply seqN_In. apply (reachable_ptr_ok L x Hv Hx).
    - rewrite seqN_length. unfold order_fuel. lia. }
  pose proof (order_pending_no_panic (lib_deps L) (tlib_cells L) (order_fuel L)) as Hp.
  destruct (order_pending (order_fuel L) (lib_deps L) (tlib_cells L)); [left; eauto | right; reflexivity | congruence | congruence].
Qed.

Lemma cell_order_acyclic : forall L, ptrs_valid L -> acyclic L ->
  exists ord, cell_order L = Ok ord /\ topo_ok (lib_deps L) (tlib_cells L) ord.
Proof.
  intros L Hv Hac. destruct (cell_order_cases L Hv) as [[ord Ho]|He].
  - exists ord; split; [assumption|]. eapply order_pending_sound; exact Ho.
  - exfalso. apply Hac. unfold cell_order in He.
    apply (order_pending_cycle (lib_deps L) (tlib_cells L) (order_fuel L)); [congruence | exact He].
Qed.

Lemma cell_order_cyclic : forall L, ptrs_valid L -> cyclic (lib_deps L) (tlib_cells L) -> cell_order L = Err.
Proof.
  intros L Hv Hc. destruct (cell_order_cases L Hv) as [[ord Ho]|He]; [|assumption].
  exfalso. eapply topo_ok_acyclic; [eapply order_pending_sound; exact Ho | exact Hc].
Qed.

(** * C19_export_cycle_error *)
Lemma export_cycle_error : forall L, ptrs_valid L -> ~ acyclic L -> export L = Err.
Proof.
  intros L Hv Hn. destruct (cell_order_cases L Hv) as [[ord Ho]|He].
  - exfalso. apply Hn. unfold acyclic. eapply topo_ok_acyclic. eapply order_pending_sound; exact Ho.
  - unfold export. rewrite He. reflexivity.
Qed.

Lemma export_cyclic_error : forall L, ptrs_valid L -> cyclic (lib_deps L) (tlib_cells L) -> export L = Err.
Proof. intros L Hv Hc. unfold export. rewrite (cell_order_cyclic L Hv Hc). reflexivity. Qed.

Lemma export_ok_acyclic : forall L P, export L = Ok P -> acyclic L.
Proof.
  intros L P H. unfold export in H. destruct (cell_order L) as [ord| | |] eqn:Ho; cbn [bind] in H; try discriminate.
  unfold acyclic. eapply topo_ok_acyclic. eapply order_pending_sound. exact Ho.
Qed.

(** * The exporter, in closed form, on well-formed cells *)
Definition x_outline (o : TOutline) (m : Z) : POutline :=
  mkPO (map pp_num (to_x o)) (map pp_num (to_y o)) m.
Definition x_tr (t : TTrackRef) : PTrackRef := mkPTR (tr_layer t) (tr_track t).
Definition x_cross (c : TCross) : PTrackCross := mkPTX (Some (x_tr (tx_track c))) (Some (x_tr (tx_cross c))).
Definition x_assign (a : TAssign) : PAssign := mkPA (ta_net a) (Some (x_cross (ta_at a))).
Definition tname (L : TLib) (p : N) : string :=
  match heap_get L p with Some c => tc_name c | None => EmptyString end.
Definition x_inst (L : TLib) (i : TInst) : PInstance :=
  mkPI (ti_name i) (Some (mkPRef (Some (RLocal (tname L (ti_cell i))))))
       (Some (mkPPlace (Some (PPAbs match ti_loc i with
                                    | PAbs x y => mkPPt (pp_num x) (pp_num y)
                                    | PRel => mkPPt 0 0 end))))
       (ti_rh i) (ti_rv i).
Definition x_layout (L : TLib) (l : TLayout) : PLayout :=
  mkPL (tl_name l) (Some (x_outline (tl_outline l) (tl_metals l)))
       (map (x_inst L) (tl_insts l)) (map x_assign (tl_assigns l)) (map x_cross (tl_cuts l)).
Definition x_abs (a : TAbs) : PAbstract :=
  mkPAbs (tabs_name a) (Some (x_outline (tabs_outline a) (tabs_metals a))) [].
Definition x_cell (L : TLib) (c : TCell) : PCell :=
  mkPCell (tc_name c) (option_map x_abs (tc_abs c)) (option_map (x_layout L) (tc_layout c)).

Lemma usize_to_i64_ok : forall v, fits63 v -> usize_to_i64 v = Ok v.
Proof. intros v [_ H]. unfold usize_to_i64. apply Z.ltb_lt in H. rewrite H. reflexivity. Qed.

Lemma export_dimensions_ok : forall l, export_dimensions l = Ok (map pp_num l).
Proof. intros l. unfold export_dimensions. apply mapM_ok_map. reflexivity. Qed.

Lemma export_outline_ok : forall o m, fits63 m -> export_outline o m = Ok (x_outline o m).
Proof.
  intros o m Hm. unfold export_outline. rewrite !export_dimensions_ok. cbn [bind].
  rewrite (usize_to_i64_ok m Hm). reflexivity.
Qed.

Lemma export_track_ref_ok : forall t, tr_fits t -> export_track_ref t = Ok (x_tr t).
Proof.
  intros t [Hl Ht]. unfold export_track_ref. rewrite (usize_to_i64_ok _ Hl), (usize_to_i64_ok _ Ht). reflexivity.
Qed.

Lemma export_track_cross_ok : forall c, tx_fits c -> export_track_cross c = Ok (x_cross c).
Proof.
  intros c [Ha Hb]. unfold export_track_cross.
  rewrite (export_track_ref_ok _ Ha), (export_track_ref_ok _ Hb). reflexivity.
Qed.

Lemma export_assignment_ok : forall a, tx_fits (ta_at a) -> export_assignment a = Ok (x_assign a).
Proof. intros a H. unfold export_assignment. rewrite (export_track_cross_ok _ H). reflexivity. Qed.

Lemma export_instance_ok : forall L i, ptr_ok L (ti_cell i) -> ti_loc i <> PRel ->
  export_instance L i = Ok (x_inst L i).
Proof.
  intros L i Hp Hl. unfold export_instance, read_cell, x_inst, tname.
  destruct (heap_get_ok L _ Hp) as [c Hc]. rewrite Hc. cbn [bind].
  destruct (ti_loc i) as [x y|]; [reflexivity | congruence].
Qed.

Lemma export_layout_ok : forall L l, layout_wf l ->
  (forall i, In i (tl_insts l) -> ptr_ok L (ti_cell i) /\ ti_loc i <> PRel) ->
  export_layout L l = Ok (x_layout L l).
Proof.
  intros L l (Ho & Hm & _ & Ha & Hc) Hi. unfold export_layout.
  rewrite (export_outline_ok _ _ Hm). cbn [bind].
  rewrite (mapM_ok_map _ _ (export_instance L) (x_inst L)) by (intros i Hin; apply export_instance_ok; apply Hi; assumption).
  cbn [bind].
  rewrite (mapM_ok_map _ _ export_assignment x_assign)
    by (intros a Hin; apply export_assignment_ok; rewrite Forall_forall in Ha; apply Ha; assumption).
  cbn [bind].
  rewrite (mapM_ok_map _ _ export_track_cross x_cross)
    by (intros a Hin; apply export_track_cross_ok; rewrite Forall_forall in Hc; apply Hc; assumption).
  reflexivity.
Qed.

Lemma export_abstract_ok : forall a, abs_wf a -> export_abstract a = Ok (x_abs a).
Proof.
  intros a (Ho & Hm & Hp). unfold export_abstract, x_abs. rewrite Hp. cbn [mapM bind].
  rewrite (export_outline_ok _ _ Hm). reflexivity.
Qed.

Lemma export_cell_ok : forall L c, cell_wf c ->
  (forall i, In i (cell_insts c) -> ptr_ok L (ti_cell i) /\ ti_loc i <> PRel) ->
  export_cell L c = Ok (x_cell L c).
Proof.
  intros L c [Hl Ha] Hi. unfold export_cell, x_cell, cell_insts in *.
  destruct (tc_layout c) as [l|]; cbn [opt_mapM option_map bind].
  - rewrite (export_layout_ok L l (Hl l eq_refl) Hi). cbn [bind].
    destruct (tc_abs c) as [a|]; cbn [opt_mapM option_map bind]; [|reflexivity].
    rewrite (export_abstract_ok a (Ha a eq_refl)). reflexivity.
  - destruct (tc_abs c) as [a|]; cbn [opt_mapM option_map bind]; [|reflexivity].
    rewrite (export_abstract_ok a (Ha a eq_refl)). reflexivity.
Qed.

Definition hcell (L : TLib) (p : N) : TCell :=
  match heap_get L p with Some c => c | None => mkTCell EmptyString None None end.

Lemma export_ok_form : forall L ord, ptrs_valid L -> placed L -> wf L ->
  cell_order L = Ok ord -> (forall p, In p ord -> lib_reachable L p) ->
  export L = Ok (mkPLib (tlib_name L) (map (fun p => x_cell L (hcell L p)) ord)).
Proof.
  intros L ord Hv Hpl [Hwf _] Ho Hr. unfold export. rewrite Ho. cbn [bind].
  rewrite (mapM_ok_map _ _ _ (fun p => x_cell L (hcell L p))); [reflexivity|].
  intros p Hp. pose proof (Hr p Hp) as Hreach.
  destruct (heap_get_ok L p (reachable_ptr_ok L p Hv Hreach)) as [c Hc].
  unfold read_cell, hcell. rewrite Hc. cbn [bind].
  apply export_cell_ok.
  - apply (Hwf p c). split; assumption.
  - intros i Hi. split.
    + apply (proj2 Hv c i); [eapply heap_get_In; eassumption | assumption].
    + apply (Hpl p c i); [split; assumption | assumption].
Qed.

(** * The importer on exported cells *)
Lemma mapM_map_rel : forall (A A' B : Type) (g : A -> A') (f : A' -> res B) (R : A -> B -> Prop) l,
  (forall a, In a l -> exists b, f (g a) = Ok b /\ R a b) ->
  exists r, mapM f (map g l) = Ok r /\ Forall2 R l r.
Proof.
  induction l as [|a l IH]; intros H; cbn [mapM map].
  - exists []; split; [reflexivity | constructor].
  - destruct (H a (or_introl eq_refl)) as [b [Hb HR]].
    destruct IH as [r [Hr HF]]; [intros; apply H; right; assumption|].
    exists (b :: r). rewrite Hb. cbn [bind]. rewrite Hr. cbn [bind]. split; [reflexivity | constructor; assumption].
Qed.

Lemma mapM_map_id : forall (A A' : Type) (g : A -> A') (f : A' -> res A) l,
  (forall a, In a l -> f (g a) = Ok a) -> mapM f (map g l) = Ok l.
Proof.
  induction l as [|a l IH]; intros H; cbn [mapM map]; [reflexivity|].
  rewrite (H a (or_introl eq_refl)). cbn [bind]. rewrite IH by (intros; apply H; right; assumption). reflexivity.
Qed.

Lemma import_prim_pitches_list_ok : forall d l, Forall (fun p => pp_dir p = d) l ->
  import_prim_pitches_list (map pp_num l) d = Ok l.
Proof.
  intros d l H. unfold import_prim_pitches_list. apply mapM_map_id.
  rewrite Forall_forall in H. intros p Hp. cbn [i64_to_isize bind].
  rewrite <- (H p Hp). destruct p; reflexivity.
Qed.

Lemma non_increasing_cons2 : forall a b l, non_increasing (a :: b :: l) = (b <=? a) && non_increasing (b :: l).
Proof. reflexivity. Qed.
Lemma non_decreasing_cons2 : forall a b l, non_decreasing (a :: b :: l) = (a <=? b) && non_decreasing (b :: l).
Proof. reflexivity. Qed.

Lemma non_increasing_sorted : forall l, Sorted (fun a b => b <= a) l -> non_increasing l = true.
Proof.
  induction l as [|a l IH]; intros H; [reflexivity|].
  inversion H as [|? ? Hs Hh]; subst. destruct l as [|b l]; [reflexivity|].
  rewrite non_increasing_cons2. inversion Hh; subst. rewrite IH by assumption.
  rewrite (proj2 (Z.leb_le b a)) by assumption. reflexivity.
Qed.
Lemma non_decreasing_sorted : forall l, Sorted (fun a b => a <= b) l -> non_decreasing l = true.
Proof.
  induction l as [|a l IH]; intros H; [reflexivity|].
  inversion H as [|? ? Hs Hh]; subst. destruct l as [|b l]; [reflexivity|].
  rewrite non_decreasing_cons2. inversion Hh; subst. rewrite IH by assumption.
  rewrite (proj2 (Z.leb_le a b)) by assumption. reflexivity.
Qed.
Lemma sorted_non_increasing : forall l, non_increasing l = true -> Sorted (fun a b => b <= a) l.
Proof.
  induction l as [|a l IH]; intros H; [constructor|].
  destruct l as [|b l]; [repeat constructor|].
  rewrite non_increasing_cons2 in H. apply andb_true_iff in H as [H1 H2].
  constructor; [apply IH; assumption | constructor; apply Z.leb_le; assumption].
Qed.
Lemma sorted_non_decreasing : forall l, non_decreasing l = true -> Sorted (fun a b => a <= b) l.
Proof.
  induction l as [|a l IH]; intros H; [constructor|].
  destruct l as [|b l]; [repeat constructor|].
  rewrite non_decreasing_cons2 in H. apply andb_true_iff in H as [H1 H2].
  constructor; [apply IH; assumption | constructor; apply Z.leb_le; assumption].
Qed.

Lemma dir_eqb_eq : forall a b, dir_eqb a b = true <-> a = b.
Proof. intros [|] [|]; cbn; split; intros; congruence. Qed.

(** the specification of a valid outline is exactly what [Outline::from_prim_pitches] accepts *)
Lemma outline_validb_spec : forall o, outline_validb (to_x o) (to_y o) = true <-> outline_valid o.
Proof.
  intros o. unfold outline_validb, outline_valid. rewrite !andb_true_iff.
  rewrite Nat.leb_le, Nat.eqb_eq, !forallb_forall, !Forall_forall.
  split.
  - intros (((((H1 & H2) & H3) & H4) & H5) & H6).
    split; [assumption|]. split; [assumption|].
    split; [intros p Hp; apply H3 in Hp; apply andb_true_iff in Hp as [Hd Hn]; split; [apply dir_eqb_eq | apply Z.leb_le]; assumption|].
    split; [intros p Hp; apply H4 in Hp; apply andb_true_iff in Hp as [Hd Hn]; split; [apply dir_eqb_eq | apply Z.leb_le]; assumption|].
    split; [apply sorted_non_increasing | apply sorted_non_decreasing]; assumption.
  - intros (H1 & H2 & H3 & H4 & H5 & H6).
    repeat split; try assumption.
    + intros p Hp. destruct (H3 p Hp) as [Hd Hn]. apply andb_true_iff; split; [apply dir_eqb_eq | apply Z.leb_le]; assumption.
    + intros p Hp. destruct (H4 p Hp) as [Hd Hn]. apply andb_true_iff; split; [apply dir_eqb_eq | apply Z.leb_le]; assumption.
    + apply non_increasing_sorted; assumption.
    + apply non_decreasing_sorted; assumption.
Qed.

Lemma outline_valid_iff_accepted :
  forall o, from_prim_pitches (to_x o) (to_y o) = Ok o <-> outline_valid o.
Proof.
  intros o. unfold from_prim_pitches. rewrite <- outline_validb_spec.
  destruct (outline_validb (to_x o) (to_y o)); destruct o; cbn; split; intros; congruence.
Qed.

Lemma i64_to_usize_ok : forall v, 0 <= v -> i64_to_usize v = Ok v.
Proof. intros v H. unfold i64_to_usize. destruct (v <? 0) eqn:E; [apply Z.ltb_lt in E; lia | reflexivity]. Qed.

Lemma import_outline_ok : forall o m, outline_valid o -> 0 <= m ->
  import_outline (x_outline o m) = Ok (o, m).
Proof.
  intros o m Ho Hm. pose proof Ho as (_ & _ & Hx & Hy & _ & _).
  unfold import_outline, x_outline. cbn [po_x po_y po_metals].
  rewrite import_prim_pitches_list_ok by (eapply Forall_impl; [|exact Hx]; intros a [Ha _]; exact Ha).
  cbn [bind].
  rewrite import_prim_pitches_list_ok by (eapply Forall_impl; [|exact Hy]; intros a [Ha _]; exact Ha).
  cbn [bind]. rewrite (i64_to_usize_ok m Hm). cbn [bind].
  unfold from_prim_pitches. rewrite (proj2 (outline_validb_spec o) Ho). cbn [bind].
  destruct o; reflexivity.
Qed.

Lemma import_track_ref_ok : forall t, tr_fits t -> import_track_ref (x_tr t) = Ok t.
Proof.
  intros t [[Hl _] [Ht _]]. unfold import_track_ref, x_tr. cbn [ptr_layer ptr_track].
  rewrite (i64_to_usize_ok _ Hl), (i64_to_usize_ok _ Ht). destruct t; reflexivity.
Qed.
Lemma import_track_cross_ok : forall c, tx_fits c -> import_track_cross (x_cross c) = Ok c.
Proof.
  intros c [Ha Hb]. unfold import_track_cross, x_cross. cbn [ptx_track ptx_cross unwrap_or_err bind].
  rewrite (import_track_ref_ok _ Ha), (import_track_ref_ok _ Hb). destruct c; reflexivity.
Qed.
Lemma import_assignment_ok : forall a, tx_fits (ta_at a) -> import_assignment (x_assign a) = Ok a.
Proof.
  intros a H. unfold import_assignment, x_assign. cbn [pa_at pa_net unwrap_or_err bind].
  rewrite (import_track_cross_ok _ H). destruct a; reflexivity.
Qed.

Lemma import_instance_ok : forall L m i j, cmap_get m (tname L (ti_cell i)) = Some j ->
  ti_loc i <> PRel -> loc_canon (ti_loc i) ->
  import_instance m (x_inst L i) = Ok (mkTI (ti_name i) j (ti_loc i) (ti_rh i) (ti_rv i)).
Proof.
  intros L m i j Hj Hl Hc. unfold import_instance, import_reference, x_inst.
  cbn [pi_cell pi_loc pi_name pi_rh pi_rv pref_to pplace_place unwrap_or_err bind]. rewrite Hj. cbn [unwrap_or_err bind].
  destruct (ti_loc i) as [x y|]; [|congruence].
  unfold import_xy_prim_pitches. cbn [ppt_x ppt_y i64_to_isize bind].
  destruct Hc as [Hx Hy]. destruct x as [dx nx], y as [dy ny]; cbn in *; subst. reflexivity.
Qed.

Lemma import_layout_ok : forall L ord m l, layout_wf l ->
  (forall i, In i (tl_insts l) -> ti_loc i <> PRel /\
     exists j, cmap_get m (tname L (ti_cell i)) = Some (N.of_nat j) /\ nth_error ord j = Some (ti_cell i)) ->
  exists l', import_layout m (x_layout L l) = Ok l' /\ layout_equiv ord l l'.
Proof.
  intros L ord m l (Ho & Hm & Hcan & Ha & Hc) Hi.
  unfold import_layout, x_layout. cbn [pl_outline pl_insts pl_assigns pl_cuts pl_name unwrap_or_err bind].
  rewrite (import_outline_ok _ _ Ho (proj1 Hm)). cbn [bind fst snd].
  destruct (mapM_map_rel _ _ _ (x_inst L) (import_instance m) (inst_equiv ord) (tl_insts l)) as [insts' [Hins HF]].
  { intros i Hin. destruct (Hi i Hin) as [Hrel [j [Hj Hnth]]].
    rewrite Forall_forall in Hcan.
    eexists; split; [apply import_instance_ok; [exact Hj | exact Hrel | apply Hcan; exact Hin]|].
    unfold inst_equiv; cbn. rewrite Nat2N.id. auto. }
  rewrite Hins. cbn [bind].
  rewrite (mapM_map_id _ _ x_assign import_assignment)
    by (intros a Hin; apply import_assignment_ok; rewrite Forall_forall in Ha; apply Ha; assumption).
  cbn [bind].
  rewrite (mapM_map_id _ _ x_cross import_track_cross)
    by (intros a Hin; apply import_track_cross_ok; rewrite Forall_forall in Hc; apply Hc; assumption).
  cbn [bind]. eexists; split; [reflexivity|].
  unfold layout_equiv; cbn. auto 10.
Qed.

Lemma import_abstract_ok : forall a, abs_wf a -> import_abstract (x_abs a) = Ok a.
Proof.
  intros a (Ho & Hm & Hp). unfold import_abstract, x_abs. cbn [pabs_outline pabs_ports pabs_name unwrap_or_err bind].
  rewrite (import_outline_ok _ _ Ho (proj1 Hm)). cbn [bind mapM fst snd].
  destruct a; cbn in *; subst; reflexivity.
Qed.

Lemma import_cell_ok : forall L ord m c, cell_wf c ->
  (forall i, In i (cell_insts c) -> ti_loc i <> PRel /\
     exists j, cmap_get m (tname L (ti_cell i)) = Some (N.of_nat j) /\ nth_error ord j = Some (ti_cell i)) ->
  exists c', import_cell m (x_cell L c) = Ok c' /\ cell_equiv ord c c'.
Proof.
  intros L ord m c [Hl Ha] Hi. unfold import_cell, x_cell, cell_insts in *. cbn [pc_layout pc_abs pc_name].
  assert (Habs : opt_mapM import_abstract (option_map x_abs (tc_abs c)) = Ok (tc_abs c)).
  { destruct (tc_abs c) as [a|]; cbn [option_map opt_mapM]; [|reflexivity].
    rewrite (import_abstract_ok a (Ha a eq_refl)). reflexivity. }
  destruct (tc_layout c) as [l|] eqn:El; cbn [option_map opt_mapM bind].
  - destruct (import_layout_ok L ord m l (Hl l eq_refl) Hi) as [l' [Hl' Heq]].
    rewrite Hl'. cbn [bind]. rewrite Habs. cbn [bind].
    eexists; split; [reflexivity|]. unfold cell_equiv; cbn. rewrite El. cbn. auto.
  - rewrite Habs. cbn [bind]. eexists; split; [reflexivity|]. unfold cell_equiv; cbn. rewrite El. cbn. auto.
Qed.

(** * The import loop over an exported library *)
Definition cell_image (L : TLib) (ord : list N) (p : N) (c' : TCell) : Prop :=
  exists c, heap_get L p = Some c /\ cell_equiv ord c c'.

Lemma tname_cell : forall L p c, heap_get L p = Some c -> tname L p = tc_name c.
Proof. intros L p c H. unfold tname. rewrite H. reflexivity. Qed.

Lemma hcell_cell : forall L p c, heap_get L p = Some c -> hcell L p = c.
Proof. intros L p c H. unfold hcell. rewrite H. reflexivity. Qed.

Lemma import_cells_exported : forall L ord,
  ptrs_valid L -> placed L -> wf L -> topo_ok (lib_deps L) (tlib_cells L) ord ->
  forall rest done m acc,
    ord = done ++ rest ->
    List.length acc = List.length done ->
    (forall j p, nth_error done j = Some p -> cmap_get m (tname L p) = Some (N.of_nat j)) ->
    Forall2 (cell_image L ord) done acc ->
    exists acc', import_cells m acc (map (fun p => x_cell L (hcell L p)) rest) = Ok acc' /\
                 Forall2 (cell_image L ord) ord acc'.
Proof.
  intros L ord Hv Hpl Hwf Htopo. pose proof Htopo as (Hnd & Hreach & _).
  induction rest as [|p rest IH]; intros done m acc Hord Hlen Hmap HF.
  - cbn [map import_cells]. exists acc. split; [reflexivity|]. rewrite app_nil_r in Hord. subst. exact HF.
  - cbn [map import_cells].
    assert (Hp : In p ord) by (subst ord; apply in_or_app; right; left; reflexivity).
    assert (Hrp : lib_reachable L p) by (apply Hreach; exact Hp).
    destruct (heap_get_ok L p (reachable_ptr_ok L p Hv Hrp)) as [c Hc].
    rewrite (hcell_cell L p c Hc).
    destruct (import_cell_ok L ord m c) as [c' [Hc' Heq]].
    { apply (proj1 Hwf p c). split; assumption. }
    { intros i Hi. split; [apply (Hpl p c i); [split; assumption | assumption]|].
      assert (Hd : In (ti_cell i) (lib_deps L p)).
      { rewrite (lib_deps_cell L p c Hc). apply in_map. exact Hi. }
      destruct (topo_ok_before _ _ _ _ _ Htopo Hp Hd) as [l1 [l2 [Hsplit Hin1]]].
      assert (l1 = done).
      { rewrite Hord in Hsplit. rewrite Hord in Hnd.
        symmetry in Hsplit. destruct (NoDup_app_cons_unique _ p l1 l2 done rest) as [E _]; [rewrite Hsplit; exact Hnd | exact Hsplit | exact E]. }
      subst l1. apply In_nth_error in Hin1 as [j Hj]. exists j. split; [apply Hmap; exact Hj|].
      rewrite Hord. rewrite nth_error_app1; [exact Hj|]. apply nth_error_Some. congruence. }
    rewrite Hc'. cbn [bind].
    apply (IH (done ++ [p])).
    + rewrite <- app_assoc. exact Hord.
    + rewrite !app_length, Hlen. reflexivity.
    + intros j q Hj. unfold cmap_insert. cbn [cmap_get pc_name x_cell].
      destruct (Nat.lt_ge_cases j (List.length done)) as [Hlt|Hge].
      * rewrite nth_error_app1 in Hj by exact Hlt.
        assert (Hq : In q ord) by (subst ord; apply in_or_app; left; eapply nth_error_In; exact Hj).
        assert (Hrq : lib_reachable L q) by (apply Hreach; exact Hq).
        destruct (heap_get_ok L q (reachable_ptr_ok L q Hv Hrq)) as [cq Hcq].
        destruct (String.eqb (tname L q) (tc_name c)) eqn:E.
        -- exfalso. apply String.eqb_eq in E. rewrite (tname_cell L q cq Hcq) in E.
           assert (q = p) by (apply (proj2 Hwf q p cq c); [split; assumption | split; assumption | exact E]).
           subst q. rewrite Hord in Hnd. apply NoDup_remove_2 in Hnd. apply Hnd.
           apply in_or_app; left. eapply nth_error_In; exact Hj.
        -- apply Hmap. exact Hj.
      * rewrite nth_error_app2 in Hj by exact Hge.
        destruct (j - List.length done)%nat as [|k] eqn:Ek; cbn in Hj; [|destruct k; discriminate].
        inversion Hj; subst q. rewrite (tname_cell L p c Hc). rewrite String.eqb_refl.
        f_equal. f_equal. lia.
    + apply Forall2_app; [exact HF|]. constructor; [|constructor]. exists c. split; assumption.
Qed.

Lemma Forall2_len : forall (A B : Type) (R : A -> B -> Prop) l r, Forall2 R l r -> List.length l = List.length r.
Proof. induction 1; cbn; congruence. Qed.

(** * C19_roundtrip *)
Theorem roundtrip : forall L, ptrs_valid L -> placed L -> acyclic L -> wf L ->
  exists P L', export L = Ok P /\ import P = Ok L' /\ tlib_equiv L L'.
Proof.
  intros L Hv Hpl Hac Hwf.
  destruct (cell_order_acyclic L Hv Hac) as [ord [Ho Htopo]].
  pose proof Htopo as (Hnd & Hreach & _).
  pose proof (export_ok_form L ord Hv Hpl Hwf Ho (fun p Hp => proj1 (Hreach p) Hp)) as Hexp.
  destruct (import_cells_exported L ord Hv Hpl Hwf Htopo ord [] [] []) as [cells [Himp HF]].
  { reflexivity. } { reflexivity. } { intros j p Hj. destruct j; discriminate. } { constructor. }
  eexists. exists (mkTLib (tlib_name L) cells (seqN (List.length cells))).
  split; [exact Hexp|]. split.
  - unfold import. cbn [plib_cells plib_domain]. rewrite Himp. reflexivity.
  - split; [reflexivity|]. exists ord. split; [exact Hnd|]. split; [exact Hreach|]. split.
    + cbn [tlib_cells]. rewrite (Forall2_len _ _ _ _ _ HF). reflexivity.
    + exact HF.
Qed.

(** the image of an instance's target carries the target's name *)
Lemma Forall2_nth_l : forall (A B : Type) (R : A -> B -> Prop) l r k a,
  Forall2 R l r -> nth_error l k = Some a -> exists b, nth_error r k = Some b /\ R a b.
Proof.
  intros A B R l r k a H. revert k. induction H as [|x y l r Hxy _ IH]; intros k Hk.
  - destruct k; discriminate.
  - destruct k as [|k]; cbn in *; [inversion Hk; subst; eauto | apply IH; assumption].
Qed.
Lemma Forall2_nth_r : forall (A B : Type) (R : A -> B -> Prop) l r k b,
  Forall2 R l r -> nth_error r k = Some b -> exists a, nth_error l k = Some a /\ R a b.
Proof.
  intros A B R l r k b H. revert k. induction H as [|x y l r Hxy _ IH]; intros k Hk.
  - destruct k; discriminate.
  - destruct k as [|k]; cbn in *; [inversion Hk; subst; eauto | apply IH; assumption].
Qed.

Theorem equiv_target_names : forall L L' ord i i',
  Forall2 (cell_image L ord) ord (tlib_heap L') -> inst_equiv ord i i' ->
  exists c c', heap_get L (ti_cell i) = Some c /\ heap_get L' (ti_cell i') = Some c' /\ tc_name c' = tc_name c.
Proof.
  intros L L' ord i i' HF (_ & Hn & _).
  destruct (Forall2_nth_l _ _ _ _ _ _ _ HF Hn) as [c' [Hc' Himg]].
  destruct Himg as [c [Hc [Hname _]]].
  exists c, c'. auto.
Qed.

(** * C19_deps_first *)
Ltac inv_bind H :=
  match type of H with
  | bind ?r _ = Ok _ => let E := fresh "E" in destruct r eqn:E; cbn [bind] in H; try discriminate
  end.

Lemma export_instance_inv : forall L i pi, export_instance L i = Ok pi ->
  exists c, heap_get L (ti_cell i) = Some c /\ pinst_local pi = Some (tc_name c).
Proof.
  intros L i pi H. unfold export_instance in H. inv_bind H.
  unfold read_cell in E. destruct (heap_get L (ti_cell i)) as [c|] eqn:Ec; [|discriminate].
  injection E as E'; subst a.
  destruct (ti_loc i); [|discriminate]. inv_bind H. injection H as H'; subst pi. exists c. split; reflexivity.
Qed.

Lemma export_cell_inv : forall L c pc, export_cell L c = Ok pc ->
  pc_name pc = tc_name c /\
  forall pi, In pi (pcell_insts pc) -> exists i, In i (cell_insts c) /\ export_instance L i = Ok pi.
Proof.
  intros L c pc H. unfold export_cell in H. inv_bind H. inv_bind H. inversion H; subst. clear H.
  split; [reflexivity|]. unfold pcell_insts, cell_insts. cbn [pc_layout].
  destruct (tc_layout c) as [l|]; cbn [opt_mapM] in E.
  - inv_bind E. inversion E; subst. unfold export_layout in E1. do 4 inv_bind E1. inversion E1; subst. cbn [pl_insts].
    intros pi Hpi. apply mapM_ok_Forall2 in E3. apply In_nth_error in Hpi as [k Hk].
    destruct (Forall2_nth_r _ _ _ _ _ _ _ E3 Hk) as [i [Hi Hexp]].
    exists i. split; [eapply nth_error_In; exact Hi | exact Hexp].
  - inversion E; subst. intros pi [].
Qed.

Theorem export_deps_first : forall L P, export L = Ok P -> deps_first P.
Proof.
  intros L P H. unfold export in H. inv_bind H. rename a into ord. rename E into Ho. inv_bind H. rename a into cells.
  inversion H; subst. clear H.
  pose proof (order_pending_sound _ _ _ _ Ho) as Htopo. pose proof Htopo as (Hnd & _ & _).
  apply mapM_ok_Forall2 in E.
  intros k pc pi n Hk Hpi Hn. cbn [plib_cells] in *.
  destruct (Forall2_nth_r _ _ _ _ _ _ _ E Hk) as [p [Hp Hf]].
  inv_bind Hf. unfold read_cell in E0. destruct (heap_get L p) as [c|] eqn:Hc; [|discriminate]. inversion E0; subst a.
  destruct (export_cell_inv L c pc Hf) as [_ Hinsts].
  destruct (Hinsts pi Hpi) as [i [Hi Hexp]].
  destruct (export_instance_inv L i pi Hexp) as [cd [Hcd Hloc]].
  rewrite Hloc in Hn. inversion Hn; subst n.
  assert (Hd : In (ti_cell i) (lib_deps L p)) by (rewrite (lib_deps_cell L p c Hc); apply in_map; exact Hi).
  destruct (topo_ok_before _ _ _ _ _ Htopo (nth_error_In _ _ Hp) Hd) as [l1 [l2 [Hsplit Hin1]]].
  destruct (nth_error_split _ _ Hp) as [l1' [l2' [Hsplit' Hlen]]].
  assert (l1 = l1').
  { destruct (NoDup_app_cons_unique _ p l1 l2 l1' l2') as [E1 _]; [rewrite <- Hsplit; exact Hnd | congruence | exact E1]. }
  subst l1'. apply In_nth_error in Hin1 as [j Hj].
  assert (Hjk : (j < k)%nat) by (rewrite <- Hlen; apply nth_error_Some; congruence).
  assert (Hjo : nth_error ord j = Some (ti_cell i)).
  { rewrite Hsplit. rewrite nth_error_app1; [exact Hj | lia]. }
  destruct (Forall2_nth_l _ _ _ _ _ _ _ E Hjo) as [pcd [Hpcd Hfd]].
  exists j, pcd. split; [exact Hjk|]. split; [exact Hpcd|].
  inv_bind Hfd. unfold read_cell in E1. rewrite Hcd in E1. inversion E1; subst a.
  apply (export_cell_inv L cd pcd Hfd).
Qed.

(** * The importer never crashes on a message without abstract ports *)
Lemma ooe_i64_to_usize : forall v, ok_or_err (i64_to_usize v).
Proof. intros v. unfold i64_to_usize. destruct (v <? 0); [apply ok_or_err_Err | apply ok_or_err_Ok]. Qed.
Lemma ooe_import_prim_pitches_list : forall l d, ok_or_err (import_prim_pitches_list l d).
Proof. intros l d. apply ok_or_err_mapM. intros v _. cbn. apply ok_or_err_Ok. Qed.
Lemma ooe_from_prim_pitches : forall x y, ok_or_err (from_prim_pitches x y).
Proof. intros x y. unfold from_prim_pitches. destruct (outline_validb x y); [apply ok_or_err_Ok | apply ok_or_err_Err]. Qed.

Ltac ooe_step :=
  first [ apply ok_or_err_Ok | apply ok_or_err_Err | apply ok_or_err_unwrap | apply ooe_i64_to_usize
        | apply ooe_import_prim_pitches_list | apply ooe_from_prim_pitches
        | (apply ok_or_err_bind; [|intros ? _]) ].

Lemma ooe_import_outline : forall po, ok_or_err (import_outline po).
Proof. intros po. unfold import_outline. repeat ooe_step. Qed.
Lemma ooe_import_track_ref : forall t, ok_or_err (import_track_ref t).
Proof. intros t. unfold import_track_ref. repeat ooe_step. Qed.
Lemma ooe_import_track_cross : forall c, ok_or_err (import_track_cross c).
Proof. intros c. unfold import_track_cross. repeat first [apply ooe_import_track_ref | ooe_step]. Qed.
Lemma ooe_import_assignment : forall a, ok_or_err (import_assignment a).
Proof. intros a. unfold import_assignment. repeat first [apply ooe_import_track_cross | ooe_step]. Qed.
Lemma ooe_import_reference : forall m pi, ok_or_err (import_reference m pi).
Proof.
  intros m pi. unfold import_reference. repeat ooe_step.
  match goal with |- ok_or_err (match ?t with _ => _ end) => destruct t end; ooe_step.
Qed.
Lemma ooe_import_instance : forall m pi, ok_or_err (import_instance m pi).
Proof.
  intros m pi. unfold import_instance.
  apply ok_or_err_bind; [apply ooe_import_reference | intros ? _].
  repeat ooe_step.
  match goal with |- ok_or_err (match ?t with _ => _ end) => destruct t end; [|ooe_step].
  unfold import_xy_prim_pitches. cbn. ooe_step.
Qed.
Lemma ooe_import_layout : forall m pl, ok_or_err (import_layout m pl).
Proof.
  intros m pl. unfold import_layout.
  repeat first [ apply ooe_import_outline
               | (apply ok_or_err_mapM; intros ? _;
                  first [apply ooe_import_instance | apply ooe_import_assignment | apply ooe_import_track_cross])
               | ooe_step ].
Qed.
Lemma ooe_import_abstract : forall pa, pabs_ports pa = [] -> ok_or_err (import_abstract pa).
Proof.
  intros pa Hp. unfold import_abstract. rewrite Hp. cbn [mapM].
  repeat first [apply ooe_import_outline | ooe_step].
Qed.
Lemma ooe_import_cell : forall m pc, (forall a, pc_abs pc = Some a -> pabs_ports a = []) -> ok_or_err (import_cell m pc).
Proof.
  intros m pc Hp. unfold import_cell.
  apply ok_or_err_bind.
  { destruct (pc_layout pc); cbn [opt_mapM]; [|ooe_step]. apply ok_or_err_bind; [apply ooe_import_layout | intros ? _; ooe_step]. }
  intros ? _. apply ok_or_err_bind.
  { destruct (pc_abs pc) as [ab|]; cbn [opt_mapM]; [|ooe_step].
    apply ok_or_err_bind; [apply ooe_import_abstract; apply Hp; reflexivity | intros ? _; ooe_step]. }
  intros ? _. ooe_step.
Qed.
Lemma ooe_import_cells : forall cells m acc,
  (forall c a, In c cells -> pc_abs c = Some a -> pabs_ports a = []) -> ok_or_err (import_cells m acc cells).
Proof.
  induction cells as [|pc cells IH]; intros m acc Hp; cbn [import_cells]; [ooe_step|].
  apply ok_or_err_bind; [apply ooe_import_cell; intros a Ha; apply (Hp pc a); [left; reflexivity | exact Ha]|].
  intros c _. apply IH. intros c0 a Hc0; apply Hp; right; exact Hc0.
Qed.

Theorem import_no_crash : forall P, no_abs_ports P -> import P <> Panic /\ import P <> OutOfFuel.
Proof.
  intros P Hp. apply ok_or_err_not_panic. unfold import.
  apply ok_or_err_bind; [apply ooe_import_cells; exact Hp | intros ? _; ooe_step].
Qed.

(** * C19_malformed_is_error *)
Lemma import_track_cross_malformed : forall c, cross_malformed c -> import_track_cross c = Err.
Proof.
  intros c [H|H]; unfold import_track_cross; rewrite H; cbn [unwrap_or_err bind]; [reflexivity|].
  destruct (ptx_track c); reflexivity.
Qed.
Lemma import_assignment_malformed : forall a, assign_malformed a -> import_assignment a = Err.
Proof.
  intros a [H|[c [H Hc]]]; unfold import_assignment; rewrite H; cbn [unwrap_or_err bind]; [reflexivity|].
  rewrite (import_track_cross_malformed c Hc). reflexivity.
Qed.
Lemma import_instance_malformed : forall (D : string -> Prop) m i,
  (forall n, ~ D n -> cmap_get m n = None) -> inst_malformed D i -> import_instance m i = Err.
Proof.
  intros D m i HD H. unfold import_instance.
  destruct H as [H|[[r [H Hr]]|[H|[pl [H Hpl]]]]].
  - unfold import_reference. rewrite H. reflexivity.
  - unfold import_reference. rewrite H. cbn [unwrap_or_err bind].
    destruct Hr as [Hr|[Hr|[n [Hr Hn]]]]; rewrite Hr; cbn [unwrap_or_err bind]; try reflexivity.
    rewrite (HD n Hn). reflexivity.
  - apply bind_err_l; [apply ooe_import_reference|]. intros j _. rewrite H. reflexivity.
  - apply bind_err_l; [apply ooe_import_reference|]. intros j _. rewrite H. cbn [unwrap_or_err bind].
    destruct Hpl as [Hpl|Hpl]; rewrite Hpl; reflexivity.
Qed.
Lemma import_layout_malformed : forall (D : string -> Prop) m l,
  (forall n, ~ D n -> cmap_get m n = None) -> layout_malformed D l -> import_layout m l = Err.
Proof.
  intros D m l HD H. unfold import_layout.
  destruct H as [H|H]; [rewrite H; reflexivity|].
  apply bind_err_l; [apply ok_or_err_unwrap | intros po _].
  apply bind_err_l; [apply ooe_import_outline | intros om _].
  destruct H as [H|H].
  { rewrite (mapM_exists_err _ _ (import_instance m) (pl_insts l)); [reflexivity | intros; apply ooe_import_instance|].
    eapply Exists_impl; [|exact H]. intros i Hi. eapply import_instance_malformed; eassumption. }
  apply bind_err_l; [apply ok_or_err_mapM; intros; apply ooe_import_instance | intros insts _].
  destruct H as [H|H].
  { rewrite (mapM_exists_err _ _ import_assignment (pl_assigns l)); [reflexivity | intros; apply ooe_import_assignment|].
    eapply Exists_impl; [|exact H]. intros a Ha. apply import_assignment_malformed; exact Ha. }
  apply bind_err_l; [apply ok_or_err_mapM; intros; apply ooe_import_assignment | intros assigns _].
  rewrite (mapM_exists_err _ _ import_track_cross (pl_cuts l)); [reflexivity | intros; apply ooe_import_track_cross|].
  eapply Exists_impl; [|exact H]. intros a Ha. apply import_track_cross_malformed; exact Ha.
Qed.
Lemma import_cell_malformed : forall (D : string -> Prop) m c,
  (forall n, ~ D n -> cmap_get m n = None) -> cell_malformed D c -> import_cell m c = Err.
Proof.
  intros D m c HD H. unfold import_cell.
  destruct H as [[l [Hl H]]|[a [Ha H]]].
  - rewrite Hl. cbn [opt_mapM]. rewrite (import_layout_malformed D m l HD H). reflexivity.
  - apply bind_err_l.
    { destruct (pc_layout c); cbn [opt_mapM]; [|ooe_step]. apply ok_or_err_bind; [apply ooe_import_layout | intros ? _; ooe_step]. }
    intros lay _. rewrite Ha. cbn [opt_mapM]. unfold import_abstract. rewrite H. reflexivity.
Qed.

Lemma cell_malformed_ext : forall (D D' : string -> Prop) c,
  (forall n, D' n -> D n) -> cell_malformed D c -> cell_malformed D' c.
Proof.
  intros D D' c HDD [[l [Hl H]]|H]; [|right; exact H]. left. exists l. split; [exact Hl|].
  destruct H as [H|[H|H]]; [left; exact H | | right; right; exact H].
  right; left. eapply Exists_impl; [|exact H]. intros i Hi.
  destruct Hi as [Hi|[[r [Hr Hi]]|Hi]]; [left; exact Hi | | right; right; exact Hi].
  right; left. exists r. split; [exact Hr|].
  destruct Hi as [Hi|[Hi|[n [Hi Hn]]]]; [left; exact Hi | right; left; exact Hi|].
  right; right. exists n. split; [exact Hi|]. intros Hd. apply Hn. apply HDD. exact Hd.
Qed.

Lemma cmap_get_none : forall m n, ~ In n (map fst m) -> cmap_get m n = None.
Proof.
  induction m as [|[k v] m IH]; intros n Hn; cbn [cmap_get]; [reflexivity|].
  destruct (String.eqb n k) eqn:E.
  - apply String.eqb_eq in E. subst. exfalso. apply Hn. left. reflexivity.
  - apply IH. intros Hin. apply Hn. right. exact Hin.
Qed.

Lemma import_cells_malformed : forall cells m acc k c,
  (forall c a, In c cells -> pc_abs c = Some a -> pabs_ports a = []) ->
  nth_error cells k = Some c ->
  cell_malformed (fun n => In n (map fst m) \/ In n (map pc_name (firstn k cells))) c ->
  import_cells m acc cells = Err.
Proof.
  induction cells as [|pc cells IH]; intros m acc k c Hp Hk Hm; [destruct k; discriminate|].
  cbn [import_cells]. destruct k as [|k]; cbn in Hk.
  - inversion Hk; subst pc. rewrite (import_cell_malformed _ m c) with (2 := Hm); [reflexivity|].
    intros n Hn. apply cmap_get_none. intros Hin. apply Hn. left. exact Hin.
  - apply bind_err_l; [apply ooe_import_cell; intros a Ha; apply (Hp pc a); [left; reflexivity | exact Ha]|].
    intros c0 _. apply (IH _ _ k c); [intros c1 a Hc1; apply Hp; right; exact Hc1 | exact Hk|].
    eapply cell_malformed_ext; [|exact Hm]. cbn [cmap_insert map fst firstn].
    intros n [[Hn|Hn]|Hn]; [right; left; exact Hn | left; exact Hn | right; right; exact Hn].
Qed.

Theorem malformed_is_error : forall P, no_abs_ports P -> malformed P -> import P = Err.
Proof.
  intros P Hp [k [c [Hk Hm]]]. unfold import.
  rewrite (import_cells_malformed (plib_cells P) [] [] k c Hp Hk); [reflexivity|].
  eapply cell_malformed_ext; [|exact Hm]. cbn [map]. intros n [[]|Hn].
  apply in_map_iff in Hn as [c' [Hname Hin]]. apply In_nth_error in Hin as [j Hj].
  assert (Hjk : (j < k)%nat).
  { assert (j < List.length (firstn k (plib_cells P)))%nat by (apply nth_error_Some; congruence).
    rewrite firstn_length in H. lia. }
  exists j, c'. split; [exact Hjk|]. split; [|exact Hname].
  rewrite <- (firstn_skipn k (plib_cells P)). rewrite nth_error_app1; [exact Hj|].
  apply nth_error_Some; congruence.
Qed.

(** * The exporter never crashes on a library whose abstracts have no ports *)
Lemma ooe_usize_to_i64 : forall v, ok_or_err (usize_to_i64 v).
Proof. intros v. unfold usize_to_i64. destruct (v <? two63); [apply ok_or_err_Ok | apply ok_or_err_Err]. Qed.
Lemma ooe_export_outline : forall o m, ok_or_err (export_outline o m).
Proof.
  intros o m. unfold export_outline. rewrite !export_dimensions_ok. cbn [bind].
  apply ok_or_err_bind; [apply ooe_usize_to_i64 | intros ? _; apply ok_or_err_Ok].
Qed.
Lemma ooe_export_track_ref : forall t, ok_or_err (export_track_ref t).
Proof. intros t. unfold export_track_ref. repeat first [apply ooe_usize_to_i64 | ooe_step]. Qed.
Lemma ooe_export_track_cross : forall c, ok_or_err (export_track_cross c).
Proof. intros c. unfold export_track_cross. repeat first [apply ooe_export_track_ref | ooe_step]. Qed.
Lemma ooe_export_assignment : forall a, ok_or_err (export_assignment a).
Proof. intros a. unfold export_assignment. repeat first [apply ooe_export_track_cross | ooe_step]. Qed.
Lemma ooe_export_instance : forall L i, ptr_ok L (ti_cell i) -> ok_or_err (export_instance L i).
Proof.
  intros L i Hp. unfold export_instance, read_cell. destruct (heap_get_ok L _ Hp) as [c ->]. cbn [bind].
  destruct (ti_loc i); [|ooe_step]. cbn. ooe_step.
Qed.
Lemma ooe_export_layout : forall L l, (forall i, In i (tl_insts l) -> ptr_ok L (ti_cell i)) -> ok_or_err (export_layout L l).
Proof.
  intros L l Hi. unfold export_layout.
  apply ok_or_err_bind; [apply ooe_export_outline | intros ? _].
  apply ok_or_err_bind; [apply ok_or_err_mapM; intros i Hin; apply ooe_export_instance; apply Hi; exact Hin | intros ? _].
  apply ok_or_err_bind; [apply ok_or_err_mapM; intros; apply ooe_export_assignment | intros ? _].
  apply ok_or_err_bind; [apply ok_or_err_mapM; intros; apply ooe_export_track_cross | intros ? _].
  ooe_step.
Qed.
Lemma ooe_export_abstract : forall a, tabs_ports a = [] -> ok_or_err (export_abstract a).
Proof.
  intros a Hp. unfold export_abstract. rewrite Hp. cbn [mapM bind].
  apply ok_or_err_bind; [apply ooe_export_outline | intros ? _; ooe_step].
Qed.
Lemma ooe_export_cell : forall L c, (forall i, In i (cell_insts c) -> ptr_ok L (ti_cell i)) ->
  (forall a, tc_abs c = Some a -> tabs_ports a = []) -> ok_or_err (export_cell L c).
Proof.
  intros L c Hi Ha. unfold export_cell, cell_insts in *.
  apply ok_or_err_bind.
  { destruct (tc_layout c) as [l|]; cbn [opt_mapM]; [|ooe_step].
    apply ok_or_err_bind; [apply ooe_export_layout; exact Hi | intros ? _; ooe_step]. }
  intros ? _. apply ok_or_err_bind.
  { destruct (tc_abs c) as [ab|]; cbn [opt_mapM]; [|ooe_step].
    apply ok_or_err_bind; [apply ooe_export_abstract; apply Ha; reflexivity | intros ? _; ooe_step]. }
  intros ? _. ooe_step.
Qed.

Theorem export_no_crash : forall L, ptrs_valid L ->
  (forall p c a, rcell L p c -> tc_abs c = Some a -> tabs_ports a = []) ->
  export L <> Panic /\ export L <> OutOfFuel.
Proof.
  intros L Hv Hports. apply ok_or_err_not_panic. unfold export.
  destruct (cell_order_cases L Hv) as [[ord Ho]|He]; [|rewrite He; ooe_step].
  rewrite Ho. cbn [bind]. pose proof (order_pending_sound _ _ _ _ Ho) as (_ & Hreach & _).
  apply ok_or_err_bind; [|intros ? _; ooe_step].
  apply ok_or_err_mapM. intros p Hp. apply Hreach in Hp.
  destruct (heap_get_ok L p (reachable_ptr_ok L p Hv Hp)) as [c Hc].
  unfold read_cell. rewrite Hc. cbn [bind]. apply ooe_export_cell.
  - intros i Hi. apply (proj2 Hv c i); [eapply heap_get_In; exact Hc | exact Hi].
  - intros a Ha. apply (Hports p c a); [split; assumption | exact Ha].
Qed.

(** * Concrete libraries: non-vacuity and witnesses *)
Local Open Scope string_scope.

(** three cells listed against the dependency order: top -> {mid, leaf}, mid -> leaf (twice) *)
Definition ex_leaf : TCell :=
  mkTCell "leaf" (Some (mkTAbs "leaf" (mkTO [mkPP Horiz 2] [mkPP Vert 1]) 1 []))
          (Some (mkTL "leaf" 1 (mkTO [mkPP Horiz 2] [mkPP Vert 1]) []
                      [mkTA "vdd" (mkTX (mkTR 0 1) (mkTR 1 0))] [])).
Definition ex_mid : TCell :=
  mkTCell "mid" None
          (Some (mkTL "mid" 2 (mkTO [mkPP Horiz 6; mkPP Horiz 4] [mkPP Vert 1; mkPP Vert 3])
                      [mkTI "l0" 1%N (PAbs (mkPP Horiz 0) (mkPP Vert 0)) false false;
                       mkTI "l1" 1%N (PAbs (mkPP Horiz 4) (mkPP Vert 1)) true false]
                      [] [mkTX (mkTR 1 2) (mkTR 0 3)])).
Definition ex_top : TCell :=
  mkTCell "top" None
          (Some (mkTL "top_layout" 3 (mkTO [mkPP Horiz 10; mkPP Horiz 10; mkPP Horiz 7] [mkPP Vert 2; mkPP Vert 5; mkPP Vert 5])
                      [mkTI "m0" 2%N (PAbs (mkPP Horiz 6) (mkPP Vert (-3))) true true;
                       mkTI "x" 1%N (PAbs (mkPP Horiz (-1)) (mkPP Vert 2)) false true]
                      [mkTA "clk" (mkTX (mkTR 2 5) (mkTR 1 7)); mkTA "" (mkTX (mkTR 0 0) (mkTR 1 0))]
                      [mkTX (mkTR 2 0) (mkTR 1 1)])).
Definition ex_lib : TLib := mkTLib "demo" [ex_top; ex_leaf; ex_mid] [0%N; 2%N; 1%N].

Lemma ex_cells : forall c, In c (tlib_heap ex_lib) -> c = ex_top \/ c = ex_leaf \/ c = ex_mid.
Proof. intros c [H|[H|[H|[]]]]; auto. Qed.

Lemma ex_ptrs_valid : ptrs_valid ex_lib.
Proof.
  split.
  - intros p [<-|[<-|[<-|[]]]]; unfold ptr_ok; cbn; lia.
  - intros c i Hc Hi. apply ex_cells in Hc as [->|[->| ->]]; cbn in Hi;
      repeat (destruct Hi as [<-|Hi]; [unfold ptr_ok; cbn; lia|]); destruct Hi.
Qed.

Lemma ex_placed : placed ex_lib.
Proof.
  intros p c i [_ Hc] Hi. apply heap_get_In in Hc. apply ex_cells in Hc as [->|[->| ->]]; cbn in Hi;
    repeat (destruct Hi as [<-|Hi]; [discriminate|]); destruct Hi.
Qed.

Lemma ex_export : export ex_lib = Ok (mkPLib "demo" [x_cell ex_lib ex_leaf; x_cell ex_lib ex_mid; x_cell ex_lib ex_top]).
Proof. vm_compute. reflexivity. Qed.

Lemma ex_acyclic : acyclic ex_lib.
Proof. eapply export_ok_acyclic. exact ex_export. Qed.

Lemma ex_cell_wf : forall c, In c (tlib_heap ex_lib) -> cell_wf c.
Proof.
  intros c Hc. apply ex_cells in Hc as [->|[->| ->]]; split; intros x Hx; cbn in Hx; inversion Hx; subst; clear Hx;
    unfold layout_wf, abs_wf; cbn [tl_outline tl_metals tl_insts tl_assigns tl_cuts tabs_outline tabs_metals tabs_ports];
    repeat split; try (apply outline_validb_spec; vm_compute; reflexivity);
    try (unfold two63; lia);
    repeat (constructor; try (cbn; auto; fail); try (repeat split; cbn; unfold two63; lia)).
Qed.

Lemma ex_wf : wf ex_lib.
Proof.
  split.
  - intros p c [_ Hc]. apply ex_cell_wf. eapply heap_get_In; exact Hc.
  - intros p q c d [_ Hc] [_ Hd] Hn. unfold heap_get in *. apply N2Nat.inj.
    cbn [tlib_heap ex_lib] in *.
    destruct (N.to_nat p) as [|[|[|?]]]; destruct (N.to_nat q) as [|[|[|?]]]; cbn in Hc, Hd;
      try discriminate; try reflexivity; inversion Hc; inversion Hd; subst; cbn in Hn; try discriminate;
      try (destruct n; discriminate).
Qed.

Lemma ex_nonvacuous :
  ptrs_valid ex_lib /\ placed ex_lib /\ acyclic ex_lib /\ wf ex_lib /\
  exists P, export ex_lib = Ok P /\ map pc_name (plib_cells P) = ["leaf"; "mid"; "top"] /\
            import P = Ok (mkTLib "demo"
              [ex_leaf;
               mkTCell "mid" None (option_map (fun l => mkTL (tl_name l) (tl_metals l) (tl_outline l)
                   [mkTI "l0" 0%N (PAbs (mkPP Horiz 0) (mkPP Vert 0)) false false;
                    mkTI "l1" 0%N (PAbs (mkPP Horiz 4) (mkPP Vert 1)) true false] (tl_assigns l) (tl_cuts l)) (tc_layout ex_mid));
               mkTCell "top" None (option_map (fun l => mkTL (tl_name l) (tl_metals l) (tl_outline l)
                   [mkTI "m0" 1%N (PAbs (mkPP Horiz 6) (mkPP Vert (-3))) true true;
                    mkTI "x" 0%N (PAbs (mkPP Horiz (-1)) (mkPP Vert 2)) false true] (tl_assigns l) (tl_cuts l)) (tc_layout ex_top))]
              [0%N; 1%N; 2%N]).
Proof.
  split; [exact ex_ptrs_valid|]. split; [exact ex_placed|]. split; [exact ex_acyclic|]. split; [exact ex_wf|].
  eexists. split; [exact ex_export|]. split; vm_compute; reflexivity.
Qed.

(** a proto library that is malformed in the sense of the specification *)
Definition ex_plib_no_outline : PLib :=
  mkPLib "d" [mkPCell "a" None (Some (mkPL "a" (Some (mkPO [1] [1] 0)) [] [] []));
              mkPCell "b" None (Some (mkPL "b" None [mkPI "i" (Some (mkPRef (Some (RLocal "a")))) (Some (mkPPlace (Some (PPAbs (mkPPt 0 0))))) false false] [] []))].
Lemma ex_malformed_nonvacuous : no_abs_ports ex_plib_no_outline /\ malformed ex_plib_no_outline.
Proof.
  split.
  - intros c a [<-|[<-|[]]] H; discriminate.
  - exists 1%nat. eexists. split; [reflexivity|]. left. eexists. split; [reflexivity|]. left. reflexivity.
Qed.

(** witnesses for the crash paths that lie outside the property's list (abstract ports) *)
Definition ex_abs_port (k : TPortKind) (metals : Z) : TLib :=
  mkTLib "w" [mkTCell "a" (Some (mkTAbs "a" (mkTO [mkPP Horiz 1] [mkPP Vert 1]) metals [mkTP "p" k])) None] [0%N].

Lemma abstract_port_panics :
  (exists P, export (ex_abs_port (PKEdge 0 1 BottomOrLeft) 1) = Ok P /\ import P = Panic) /\
  export (ex_abs_port PKZTopInner 1) = Panic /\
  export (ex_abs_port (PKZTopEdge 1 TopOrRight 2 Below) 0) = Panic.
Proof. split; [eexists; split; vm_compute; reflexivity|]. split; vm_compute; reflexivity. Qed.

(** witnesses for the hypotheses of the round trip being needed *)
(** (a) two cells with one name: the instance of the first comes back as an instance of the second *)
Definition ex_dup : TLib :=
  mkTLib "w"
    [mkTCell "a" None (Some (mkTL "a" 1 (mkTO [mkPP Horiz 1] [mkPP Vert 1]) [] [] []));
     mkTCell "a" None (Some (mkTL "a" 2 (mkTO [mkPP Horiz 5] [mkPP Vert 5]) [] [] []));
     mkTCell "b" None (Some (mkTL "b" 3 (mkTO [mkPP Horiz 9] [mkPP Vert 9])
                                  [mkTI "i" 0%N (PAbs (mkPP Horiz 0) (mkPP Vert 0)) false false] [] []))]
    [0%N; 1%N; 2%N].
Definition target_metals (L : TLib) (p : N) (k : nat) : option Z :=
  match heap_get L p with
  | Some c => match nth_error (cell_insts c) k with
              | Some i => match heap_get L (ti_cell i) with
                          | Some d => option_map tl_metals (tc_layout d)
                          | None => None end
              | None => None end
  | None => None
  end.
Lemma duplicate_names_misresolve :
  exists P L', export ex_dup = Ok P /\ import P = Ok L' /\
    target_metals ex_dup 2%N 0 = Some 1 /\ target_metals L' 2%N 0 = Some 2.
Proof.
  do 2 eexists. split; [vm_compute; reflexivity|]. split; [vm_compute; reflexivity|].
  split; vm_compute; reflexivity.
Qed.

(** (b) a metal count that does not fit the schema's int64: export reports an error *)
Lemma big_metals_export_error :
  export (mkTLib "w" [mkTCell "a" None (Some (mkTL "a" two63 (mkTO [mkPP Horiz 1] [mkPP Vert 1]) [] [] []))] [0%N]) = Err.
Proof. vm_compute. reflexivity. Qed.

(** (c) an invalid outline (built through the pub fields) is exported but refused by the importer *)
Lemma invalid_outline_import_error :
  exists P, export (mkTLib "w" [mkTCell "a" None (Some (mkTL "a" 1 (mkTO [mkPP Horiz 1; mkPP Horiz 2] [mkPP Vert 1; mkPP Vert 1]) [] [] []))] [0%N]) = Ok P
            /\ import P = Err.
Proof. eexists. split; vm_compute; reflexivity. Qed.

(** (d) a relative place: export reports an error *)
Lemma relative_place_export_error :
  export (mkTLib "w" [mkTCell "a" None (Some (mkTL "a" 1 (mkTO [mkPP Horiz 1] [mkPP Vert 1]) [] [] []));
                      mkTCell "b" None (Some (mkTL "b" 1 (mkTO [mkPP Horiz 1] [mkPP Vert 1]) [mkTI "i" 0%N PRel false false] [] []))]
                     [0%N; 1%N]) = Err.
Proof. vm_compute. reflexivity. Qed.

(** (e) a location whose x is given in vertical pitches comes back in horizontal pitches *)
Lemma swapped_loc_dir_normalised :
  exists P L', export (mkTLib "w" [mkTCell "a" None (Some (mkTL "a" 1 (mkTO [mkPP Horiz 1] [mkPP Vert 1]) [] [] []));
                      mkTCell "b" None (Some (mkTL "b" 1 (mkTO [mkPP Horiz 1] [mkPP Vert 1])
                                                   [mkTI "i" 0%N (PAbs (mkPP Vert 3) (mkPP Vert 4)) false false] [] []))]
                     [0%N; 1%N]) = Ok P /\ import P = Ok L' /\
    option_map ti_loc (match heap_get L' 1%N with Some c => nth_error (cell_insts c) 0 | None => None end)
      = Some (PAbs (mkPP Horiz 3) (mkPP Vert 4)).
Proof. do 2 eexists. split; [vm_compute; reflexivity|]. split; vm_compute; reflexivity. Qed.

(** the self-instantiating cell *)
Definition ex_self : TLib :=
  mkTLib "w" [mkTCell "a" None (Some (mkTL "a" 1 (mkTO [mkPP Horiz 1] [mkPP Vert 1])
                                            [mkTI "i" 0%N (PAbs (mkPP Horiz 0) (mkPP Vert 0)) false false] [] []))] [0%N].
Lemma ex_self_cyclic : ptrs_valid ex_self /\ ~ acyclic ex_self /\ export ex_self = Err.
Proof.
  assert (Hv : ptrs_valid ex_self).
  { split.
    - intros p [<-|[]]; unfold ptr_ok; cbn; lia.
    - intros c i [<-|[]] [<-|[]]; unfold ptr_ok; cbn; lia. }
  split; [exact Hv|]. split; [|vm_compute; reflexivity].
  intros Hac. apply Hac. exists 0%N. split.
  - exists 0%N. split; [left; reflexivity | apply reach_refl].
  - exists 0%N. split; [left; reflexivity | apply reach_refl].
Qed.

(** existential forms, as stated in Properties/C19.v *)
Lemma abstract_port_import_panics_ex : exists L P, export L = Ok P /\ import P = Panic.
Proof. destruct abstract_port_panics as [[P H] _]. eexists; exists P; exact H. Qed.
Lemma abstract_port_export_panics_ex :
  exists L1 L2, export L1 = Panic /\ export L2 = Panic /\
    tlib_heap L1 = [mkTCell "a" (Some (mkTAbs "a" (mkTO [mkPP Horiz 1] [mkPP Vert 1]) 1 [mkTP "p" PKZTopInner])) None] /\
    tlib_heap L2 = [mkTCell "a" (Some (mkTAbs "a" (mkTO [mkPP Horiz 1] [mkPP Vert 1]) 0 [mkTP "p" (PKZTopEdge 1 TopOrRight 2 Below)])) None].
Proof.
  destruct abstract_port_panics as [_ [H1 H2]].
  exists (ex_abs_port PKZTopInner 1), (ex_abs_port (PKZTopEdge 1 TopOrRight 2 Below) 0). auto.
Qed.
Lemma duplicate_names_misresolve_ex :
  exists L P L', ptrs_valid L /\ placed L /\ acyclic L /\ (forall p c, rcell L p c -> cell_wf c) /\
    export L = Ok P /\ import P = Ok L' /\
    target_metals L 2%N 0 = Some 1 /\ target_metals L' 2%N 0 = Some 2.
Proof.
  destruct duplicate_names_misresolve as [P [L' (He & Hi & H1 & H2)]].
  exists ex_dup, P, L'.
  assert (Hcells : forall c, In c (tlib_heap ex_dup) ->
            c = mkTCell "a" None (Some (mkTL "a" 1 (mkTO [mkPP Horiz 1] [mkPP Vert 1]) [] [] [])) \/
            c = mkTCell "a" None (Some (mkTL "a" 2 (mkTO [mkPP Horiz 5] [mkPP Vert 5]) [] [] [])) \/
            c = mkTCell "b" None (Some (mkTL "b" 3 (mkTO [mkPP Horiz 9] [mkPP Vert 9])
                                  [mkTI "i" 0%N (PAbs (mkPP Horiz 0) (mkPP Vert 0)) false false] [] []))).
  { intros c [H|[H|[H|[]]]]; auto. }
  split.
  { split.
    - intros p [<-|[<-|[<-|[]]]]; unfold ptr_ok; cbn; lia.
    - intros c i Hc Hin. apply Hcells in Hc as [->|[->| ->]]; cbn in Hin;
        repeat (destruct Hin as [<-|Hin]; [unfold ptr_ok; cbn; lia|]); destruct Hin. }
  split.
  { intros p c i [_ Hc] Hin. apply heap_get_In in Hc. apply Hcells in Hc as [->|[->| ->]]; cbn in Hin;
      repeat (destruct Hin as [<-|Hin]; [discriminate|]); destruct Hin. }
  split; [eapply export_ok_acyclic; exact He|].
  split; [|auto].
  intros p c [_ Hc]. apply heap_get_In in Hc. apply Hcells in Hc as [->|[->| ->]]; split; intros x Hx; cbn in Hx; inversion Hx; subst; clear Hx;
    unfold layout_wf; cbn [tl_outline tl_metals tl_insts tl_assigns tl_cuts];
    repeat split; try (apply outline_validb_spec; vm_compute; reflexivity);
    try (unfold two63; lia);
    repeat (constructor; try (cbn; auto; fail)).
Qed.
Lemma big_metals_export_error_ex : exists L, export L = Err /\
  tlib_heap L = [mkTCell "a" None (Some (mkTL "a" two63 (mkTO [mkPP Horiz 1] [mkPP Vert 1]) [] [] []))].
Proof. eexists. split; [exact big_metals_export_error | reflexivity]. Qed.
Lemma ex_self_cyclic_ex : exists L, ptrs_valid L /\ ~ acyclic L /\ export L = Err.
Proof. exists ex_self. exact ex_self_cyclic. Qed.
