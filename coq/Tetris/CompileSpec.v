(** Specification for property C08, written from the property statement (NOT from the code):
    what the tracks of a layer stack are, what "tile the track" means, where vias go, which
    wire pieces carry which net.  Shares only the DATA types (stack, cell, shape) with the model.

    Tracks.  A metal layer's pattern is the flattened list of its entries (repeats unrolled).
    Entry i of the pattern occupies, relative to the pattern origin, [prefix i, prefix i + w_i).
    The pattern is stepped in the layer's periodic direction every
        period_len = (sum of all widths) - overlap
    starting at [offset]; in every other period (the odd ones) of an EveryOther layer the
    pattern is MIRRORED within its own extent [0, sum of widths].  Signal tracks of a layer are
    numbered 0,1,2,.. in order of increasing position: n per period; number k lies in period
    k / n and is the (k mod n)-th signal entry counted from the low side of that period (in a
    mirrored period that is the (n-1 - k mod n)-th entry of the pattern).

    [track_pos] never mentions `center`, `span`, cursors or reversed iteration. *)
From Coq Require Import ZArith List Bool Permutation.
From L21 Require Import Tetris.Stack Tetris.Compile.
Import ListNotations.
Local Open Scope Z_scope.

(** ** the pattern *)
Definition flat (m : metal) : list entry :=
  concat (map (fun s => match s with SEntry e => [e] | SRepeat es n => concat (repeat es n) end) (m_specs m)).
Definition total (es : list entry) : Z := fold_left Z.add (map e_w es) 0.
Definition period_len (m : metal) : Z := total (flat m) - m_overlap m.
Definition prefix (es : list entry) (i : nat) : Z := total (firstn i es).
Definition mirrored (m : metal) (q : Z) : bool := m_flip m && Z.odd q.

(** (start, width), in the periodic direction, of pattern entry [i] in period [q] *)
Definition entry_pos (m : metal) (q : Z) (i : nat) : Z * Z :=
  let es := flat m in
  let w := e_w (nth i es (mkEntry Gap 0)) in
  let s := prefix es i in
  let rel := if mirrored m q then total es - s - w else s in
  (m_offset m + period_len m * q + rel, w).

(** indices of the signal / rail entries of the pattern, increasing *)
Definition idx_where (p : ttype -> bool) (es : list entry) : list nat :=
  filter (fun i => p (e_tt (nth i es (mkEntry Gap 0)))) (seq 0 (length es)).
Definition is_signal (t : ttype) : bool := match t with Signal => true | _ => false end.
Definition is_railt (t : ttype) : bool := match t with Rail _ => true | _ => false end.
Definition sig_idx (m : metal) : list nat := idx_where is_signal (flat m).
Definition rail_idx (m : metal) : list nat := idx_where is_railt (flat m).
Definition nsig (m : metal) : Z := Z.of_nat (length (sig_idx m)).

(** position and width of signal track number [k] of metal [m]; None when the layer has no signal tracks *)
Definition track_pos_m (m : metal) (k : Z) : option (Z * Z) :=
  let n := nsig m in
  if (n =? 0) || (k <? 0) then None else
  let q := k / n in
  let r := k mod n in
  let j := if mirrored m q then n - 1 - r else r in
  match nth_error (sig_idx m) (Z.to_nat j) with
  | Some i => Some (entry_pos m q i)
  | None => None
  end.
Definition track_pos (st : stack) (layer k : Z) : option (Z * Z) :=
  if layer <? 0 then None else
  match nth_error (s_metals st) (Z.to_nat layer) with
  | Some m => track_pos_m m k
  | None => None
  end.
(** twice the centre coordinate of a track (exact even when the width is odd) *)
Definition centre2 (p : Z * Z) : Z := 2 * fst p + snd p.

(** ** tiling *)
(** [tiles l lo hi]: the intervals of [l], in this order, go from lo to hi, each starting where the
    previous one stops (no gap, no overlap); empty intervals are allowed *)
Inductive tiles : list (Z * Z) -> Z -> Z -> Prop :=
| tiles_nil : forall x, tiles [] x x
| tiles_cons : forall a b l hi, a <= b -> tiles l b hi -> tiles ((a, b) :: l) a hi.
(** a set (list in any order) of pieces tiles [lo, hi] *)
Definition tiles_set (pieces : list (Z * Z)) (lo hi : Z) : Prop :=
  exists l, Permutation l pieces /\ tiles l lo hi.

Fixpoint tilesb (l : list (Z * Z)) (lo hi : Z) : bool :=
  match l with
  | [] => lo =? hi
  | (a, b) :: r => (a =? lo) && (a <=? b) && tilesb r b hi
  end.
Definition ple (p q : Z * Z) : bool := (fst p <? fst q) || ((fst p =? fst q) && (snd p <=? snd q)).
Fixpoint pinsert (p : Z * Z) (l : list (Z * Z)) : list (Z * Z) :=
  match l with [] => [p] | q :: r => if ple p q then p :: l else q :: pinsert p r end.
Definition psort (l : list (Z * Z)) : list (Z * Z) := fold_right pinsert [] l.
Definition tiles_setb (pieces : list (Z * Z)) (lo hi : Z) : bool := tilesb (psort pieces) lo hi.

(** an interval of length [len] centred on the point c2/2, as exactly as the integer grid allows *)
Definition centred (c2 len a b : Z) : Prop := b - a = len /\ Z.abs (a + b - c2) <= 1.
Definition centredb (c2 len a b : Z) : bool := (b - a =? len) && (Z.abs (a + b - c2) <=? 1).
(** the one or two such intervals *)
Definition centred_candidates (c2 len : Z) : list (Z * Z) :=
  let a := (c2 - len) / 2 in
  if (c2 - len) mod 2 =? 0 then [(a, a + len)] else [(a, a + len); (a + 1, a + 1 + len)].

(** ** the cell seen through the stack *)
Definition metal_of (st : stack) (l : Z) : option metal :=
  if l <? 0 then None else nth_error (s_metals st) (Z.to_nat l).
(** extent of the cell along / across the tracks of a layer, db units *)
Definition along_len (st : stack) (c : cell) (m : metal) : Z :=
  if m_horiz m then c_ox c * s_px st else c_oy c * s_py st.
Definition across_len (st : stack) (c : cell) (m : metal) : Z :=
  if m_horiz m then c_oy c * s_py st else c_ox c * s_px st.
Definition nperiods (st : stack) (c : cell) (m : metal) : Z := across_len st c m / period_len m.

(** the box an instance occupies, prim pitches -> db units, honouring both reflections *)
Definition inst_box (st : stack) (i : inst) : (Z * Z) * (Z * Z) :=
  let xs := if i_rh i then (i_x i - i_ox i, i_x i) else (i_x i, i_x i + i_ox i) in
  let ys := if i_rv i then (i_y i - i_oy i, i_y i) else (i_y i, i_y i + i_oy i) in
  ((fst xs * s_px st, snd xs * s_px st), (fst ys * s_py st, snd ys * s_py st)).
Definition box_along (m : metal) (b : (Z * Z) * (Z * Z)) : Z * Z := if m_horiz m then fst b else snd b.
Definition box_across (m : metal) (b : (Z * Z) * (Z * Z)) : Z * Z := if m_horiz m then snd b else fst b.

(** spans blocked by instances on the tracks of period [q] of layer [l]: the instances whose cell
    uses that metal and whose box meets the period's strip (touching does not count) *)
Definition blocks (st : stack) (c : cell) (l : Z) (m : metal) (q : Z) : list (Z * Z) :=
  map (fun i => box_along m (inst_box st i))
      (filter (fun i =>
         (l <? i_metals i) &&
         (let a := box_across m (inst_box st i) in
          (period_len m * q <? snd a) && (fst a <? period_len m * (q + 1))))
       (c_insts c)).

(** twice the along-track coordinate of the crossing of a track on layer l with track (cl, ct) *)
Definition cross2 (st : stack) (cl ct : Z) : option Z := option_map centre2 (track_pos st cl ct).

(** the cuts requested on signal track (l, k): candidates for each *)
Definition cut_candidates (st : stack) (c : cell) (l : Z) (m : metal) (k : Z) : list (list (Z * Z)) :=
  map (fun x => match cross2 st (x_cl x) (x_ct x) with
                | Some c2 => centred_candidates c2 (m_cutsize m)
                | None => []
                end)
      (filter (fun x => (x_tl x =? l) && (x_tt x =? k)) (c_cuts c)).

(** all ways of choosing one candidate per cut *)
Fixpoint choices {A} (ls : list (list A)) : list (list A) :=
  match ls with
  | [] => [[]]
  | l :: r => flat_map (fun x => map (cons x) (choices r)) l
  end.

(** ** shapes *)
Definition norm (s : shape) : shape :=
  mkShape (sh_layer s) (Z.min (sh_x0 s) (sh_x1 s)) (Z.min (sh_y0 s) (sh_y1 s))
          (Z.max (sh_x0 s) (sh_x1 s)) (Z.max (sh_y0 s) (sh_y1 s)) (sh_net s).
Definition sh_along (m : metal) (s : shape) : Z * Z := if m_horiz m then (sh_x0 s, sh_x1 s) else (sh_y0 s, sh_y1 s).
Definition sh_across (m : metal) (s : shape) : Z * Z := if m_horiz m then (sh_y0 s, sh_y1 s) else (sh_x0 s, sh_x1 s).
Definition on_layer (lay : option Z) (s : shape) : bool :=
  match lay with Some l => sh_layer s =? l | None => false end.
(** the shapes drawn on metal [m] whose across-track extent is exactly the track [p] = (pos, width) *)
Definition pieces_at (m : metal) (p : Z * Z) (shapes : list shape) : list shape :=
  filter (fun s => on_layer (m_raw m) s && (fst (sh_across m s) =? fst p) && (snd (sh_across m s) =? fst p + snd p)) shapes.

(** one track of a cell: signal number (or -1 for a rail), rail kind, period, (pos, width) *)
Record ctrack := mkCt { ct_k : Z; ct_rail : option railkind; ct_q : Z; ct_pos : Z * Z }.
Definition tracks_of (st : stack) (c : cell) (m : metal) : list ctrack :=
  flat_map (fun q =>
     map (fun i => mkCt (-1) (match e_tt (nth i (flat m) (mkEntry Gap 0)) with Rail k => Some k | _ => None end)
                        q (entry_pos m q i)) (rail_idx m)
     ++ flat_map (fun r => let k := q * nsig m + r in
                    match track_pos_m m k with Some p => [mkCt k None q p] | None => [] end) (zseq (nsig m)))
   (zseq (nperiods st c m)).

(** non-wire pieces required on a track: the blocks of its period, and one choice per cut *)
Definition nonwire_choices (st : stack) (c : cell) (l : Z) (m : metal) (t : ctrack) : list (list (Z * Z)) :=
  let bl := blocks st c l m (ct_q t) in
  match ct_rail t with
  | Some _ => [bl]
  | None => map (fun ch => bl ++ ch) (choices (cut_candidates st c l m (ct_k t)))
  end.

(** THE TILING STATEMENT for one track (Prop): the wire rectangles drawn at the track's position,
    some admissible placement of the requested cuts, and the blocked spans tile [0, along_len] *)
Definition track_tiled (st : stack) (c : cell) (l : Z) (m : metal) (t : ctrack) (shapes : list shape) : Prop :=
  exists nw, In nw (nonwire_choices st c l m t) /\
    tiles_set (map (sh_along m) (pieces_at m (ct_pos t) shapes) ++ nw) 0 (along_len st c m).
Definition track_tiledb (st : stack) (c : cell) (l : Z) (m : metal) (t : ctrack) (shapes : list shape) : bool :=
  existsb (fun nw => tiles_setb (map (sh_along m) (pieces_at m (ct_pos t) shapes) ++ nw) 0 (along_len st c m))
          (nonwire_choices st c l m t).

(** ** vias and nets *)
(** net numbers standing for the rail names "VDD" and "VSS" in the canonical output *)
Definition rail_name (k : railkind) : Z := match k with Pwr => -1 | Gnd => -2 end.
Definition via_between (st : stack) (bot : Z) : option via :=
  find (fun v => match v_bot v with Some k => k =? bot | None => false end) (s_vias st).

(** normalised assignment: net, (bottom layer, track), (top layer, track); None if not on adjacent layers *)
Definition assign_bt (a : Z * cross) : option (Z * (Z * Z) * (Z * Z)) :=
  let '(net, x) := a in
  if x_tl x =? x_cl x + 1 then Some (net, (x_cl x, x_ct x), (x_tl x, x_tt x))
  else if x_cl x =? x_tl x + 1 then Some (net, (x_tl x, x_tt x), (x_cl x, x_ct x))
  else None.

(** twice the (x, y) of the crossing of two tracks on layers of different direction *)
Definition crossing2 (st : stack) (b t : Z * Z) : option (Z * Z) :=
  match metal_of st (fst b), track_pos st (fst b) (snd b), track_pos st (fst t) (snd t) with
  | Some mb, Some pb, Some pt =>
    (* a horizontal track fixes y, a vertical one x *)
    if m_horiz mb then Some (centre2 pt, centre2 pb) else Some (centre2 pb, centre2 pt)
  | _, _, _ => None
  end.

(** a via rectangle realises assignment [a]: on the via layer between the two metals, of exactly
    that layer's size, centred on the crossing, carrying the net *)
Definition via_okb (st : stack) (a : Z * cross) (s : shape) : bool :=
  match assign_bt a with
  | Some (net, b, t) =>
    match via_between st (fst b), crossing2 st b t with
    | Some v, Some (cx2, cy2) =>
      on_layer (v_raw v) s && centredb cx2 (v_sx v) (sh_x0 s) (sh_x1 s) && centredb cy2 (v_sy v) (sh_y0 s) (sh_y1 s)
      && match sh_net s with Some n => n =? net | None => false end
    | _, _ => false
    end
  | None => false
  end.

(** the wire piece [s] of track (l, k) covers the crossing with track [o] *)
Definition covers2 (m : metal) (s : shape) (c2 : Z) : bool :=
  (2 * fst (sh_along m s) <=? c2) && (c2 <=? 2 * snd (sh_along m s)).

(** the assignments touching signal track (l, k): (net, twice the along coordinate of the crossing) *)
Definition assigns_on (st : stack) (c : cell) (l k : Z) : list (Z * Z) :=
  flat_map (fun a => match assign_bt a with
     | Some (net, b, t) =>
       (if (fst b =? l) && (snd b =? k) then match cross2 st (fst t) (snd t) with Some c2 => [(net, c2)] | None => [] end else [])
       ++ (if (fst t =? l) && (snd t =? k) then match cross2 st (fst b) (snd b) with Some c2 => [(net, c2)] | None => [] end else [])
     | None => [] end) (c_assigns c).

(** nets on the pieces of one track: rails carry their name; on a signal track every piece covering
    an assignment's crossing carries that net, and a piece carrying a net covers such a crossing *)
Definition nets_okb (st : stack) (c : cell) (l : Z) (m : metal) (t : ctrack) (shapes : list shape) : bool :=
  let ps := pieces_at m (ct_pos t) shapes in
  match ct_rail t with
  | Some k => forallb (fun s => match sh_net s with Some n => n =? rail_name k | None => false end) ps
  | None =>
    let asg := assigns_on st c l (ct_k t) in
    forallb (fun nc => forallb (fun s => negb (covers2 m s (snd nc)) ||
                                         match sh_net s with Some n => n =? fst nc | None => false end) ps) asg
    && forallb (fun s => match sh_net s with
                         | None => true
                         | Some n => existsb (fun nc => (fst nc =? n) && covers2 m s (snd nc)) asg
                         end) ps
  end.
