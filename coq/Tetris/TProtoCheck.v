(** Executable checks for the correspondence run of C19 (tools/props/c19.py).
    Result codes: 0 = impl agrees with the model and the property holds on the impl's output;
    1 = impl differs from the model, property still holds on the impl's output (or is silent);
    2 = the property fails on the impl's output.  No proofs here.

    The property side ([tlib_equivb], [deps_firstb], [malformedb], [reach_set], [acyclicb]) is written
    from the property statement: cells are matched BY NAME, reachability is a plain closure; none
    of it uses the exporter's order or the importer's map. *)
From Coq Require Import ZArith NArith List Bool String.
From L21 Require Import Order.DepOrder Tetris.TProto Tetris.TProtoSpec.
Import ListNotations.
Local Open Scope Z_scope.

(** * Boolean equalities *)
Fixpoint list_eqb {A : Type} (e : A -> A -> bool) (a b : list A) : bool :=
  match a, b with
  | [], [] => true
  | x :: r, y :: s => e x y && list_eqb e r s
  | _, _ => false
  end.
Definition opt_eqb {A : Type} (e : A -> A -> bool) (a b : option A) : bool :=
  match a, b with
  | None, None => true
  | Some x, Some y => e x y
  | _, _ => false
  end.
Definition res_eqb {A : Type} (e : A -> A -> bool) (a b : res A) : bool :=
  match a, b with
  | Ok x, Ok y => e x y
  | Err, Err | Panic, Panic | OutOfFuel, OutOfFuel => true
  | _, _ => false
  end.

Definition pp_eqb (a b : PrimP) := dir_eqb (pp_dir a) (pp_dir b) && (pp_num a =? pp_num b).
Definition outline_eqb (a b : TOutline) := list_eqb pp_eqb (to_x a) (to_x b) && list_eqb pp_eqb (to_y a) (to_y b).
Definition tr_eqb (a b : TTrackRef) := (tr_layer a =? tr_layer b) && (tr_track a =? tr_track b).
Definition tx_eqb (a b : TCross) := tr_eqb (tx_track a) (tx_track b) && tr_eqb (tx_cross a) (tx_cross b).
Definition ta_eqb (a b : TAssign) := String.eqb (ta_net a) (ta_net b) && tx_eqb (ta_at a) (ta_at b).
Definition place_eqb (a b : TPlace) :=
  match a, b with
  | PAbs x y, PAbs x' y' => pp_eqb x x' && pp_eqb y y'
  | PRel, PRel => true
  | _, _ => false
  end.
Definition ti_eqb (a b : TInst) :=
  String.eqb (ti_name a) (ti_name b) && N.eqb (ti_cell a) (ti_cell b) && place_eqb (ti_loc a) (ti_loc b) &&
  Bool.eqb (ti_rh a) (ti_rh b) && Bool.eqb (ti_rv a) (ti_rv b).
Definition tl_eqb (a b : TLayout) :=
  String.eqb (tl_name a) (tl_name b) && (tl_metals a =? tl_metals b) && outline_eqb (tl_outline a) (tl_outline b) &&
  list_eqb ti_eqb (tl_insts a) (tl_insts b) && list_eqb ta_eqb (tl_assigns a) (tl_assigns b) &&
  list_eqb tx_eqb (tl_cuts a) (tl_cuts b).
Definition side_eqb (a b : TSide) := side_code a =? side_code b.
Definition relz_eqb (a b : TRelZ) := match a, b with Above, Above | Below, Below => true | _, _ => false end.
Definition pk_eqb (a b : TPortKind) :=
  match a, b with
  | PKEdge l t s, PKEdge l' t' s' => (l =? l') && (t =? t') && side_eqb s s'
  | PKZTopEdge t s i r, PKZTopEdge t' s' i' r' => (t =? t') && side_eqb s s' && (i =? i') && relz_eqb r r'
  | PKZTopInner, PKZTopInner => true
  | _, _ => false
  end.
Definition tp_eqb (a b : TPort) := String.eqb (tp_name a) (tp_name b) && pk_eqb (tp_kind a) (tp_kind b).
Definition tabs_eqb (a b : TAbs) :=
  String.eqb (tabs_name a) (tabs_name b) && outline_eqb (tabs_outline a) (tabs_outline b) &&
  (tabs_metals a =? tabs_metals b) && list_eqb tp_eqb (tabs_ports a) (tabs_ports b).
Definition tcell_eqb (a b : TCell) :=
  String.eqb (tc_name a) (tc_name b) && opt_eqb tabs_eqb (tc_abs a) (tc_abs b) && opt_eqb tl_eqb (tc_layout a) (tc_layout b).
Definition tlib_eqb (a b : TLib) :=
  String.eqb (tlib_name a) (tlib_name b) && list_eqb tcell_eqb (tlib_heap a) (tlib_heap b) &&
  list_eqb N.eqb (tlib_cells a) (tlib_cells b).

Definition ptr_eqb (a b : PTrackRef) := (ptr_layer a =? ptr_layer b) && (ptr_track a =? ptr_track b).
Definition ptx_eqb (a b : PTrackCross) := opt_eqb ptr_eqb (ptx_track a) (ptx_track b) && opt_eqb ptr_eqb (ptx_cross a) (ptx_cross b).
Definition pa_eqb (a b : PAssign) := String.eqb (pa_net a) (pa_net b) && opt_eqb ptx_eqb (pa_at a) (pa_at b).
Definition po_eqb (a b : POutline) :=
  list_eqb Z.eqb (po_x a) (po_x b) && list_eqb Z.eqb (po_y a) (po_y b) && (po_metals a =? po_metals b).
Definition ppk_eqb (a b : PPlaceKind) :=
  match a, b with
  | PPAbs p, PPAbs q => (ppt_x p =? ppt_x q) && (ppt_y p =? ppt_y q)
  | PPRel, PPRel => true
  | _, _ => false
  end.
Definition pplace_eqb (a b : PPlace) := opt_eqb ppk_eqb (pplace_place a) (pplace_place b).
Definition refto_eqb (a b : PRefTo) :=
  match a, b with
  | RLocal s, RLocal t => String.eqb s t
  | RExternal, RExternal => true
  | _, _ => false
  end.
Definition pref_eqb (a b : PReference) := opt_eqb refto_eqb (pref_to a) (pref_to b).
Definition pi_eqb (a b : PInstance) :=
  String.eqb (pi_name a) (pi_name b) && opt_eqb pref_eqb (pi_cell a) (pi_cell b) &&
  opt_eqb pplace_eqb (pi_loc a) (pi_loc b) && Bool.eqb (pi_rh a) (pi_rh b) && Bool.eqb (pi_rv a) (pi_rv b).
Definition pl_eqb (a b : PLayout) :=
  String.eqb (pl_name a) (pl_name b) && opt_eqb po_eqb (pl_outline a) (pl_outline b) &&
  list_eqb pi_eqb (pl_insts a) (pl_insts b) && list_eqb pa_eqb (pl_assigns a) (pl_assigns b) &&
  list_eqb ptx_eqb (pl_cuts a) (pl_cuts b).
Definition ppkind_eqb (a b : PPortKind) :=
  match a, b with
  | PPKEdge t s, PPKEdge t' s' => opt_eqb ptr_eqb t t' && (s =? s')
  | PPKZtopEdge t s i, PPKZtopEdge t' s' i' => (t =? t') && (s =? s') && opt_eqb ptr_eqb i i'
  | PPKZtopInner, PPKZtopInner => true
  | _, _ => false
  end.
Definition pap_eqb (a b : PAbsPort) := String.eqb (pap_net a) (pap_net b) && opt_eqb ppkind_eqb (pap_kind a) (pap_kind b).
Definition pabs_eqb (a b : PAbstract) :=
  String.eqb (pabs_name a) (pabs_name b) && opt_eqb po_eqb (pabs_outline a) (pabs_outline b) &&
  list_eqb pap_eqb (pabs_ports a) (pabs_ports b).
Definition pcell_eqb (a b : PCell) :=
  String.eqb (pc_name a) (pc_name b) && opt_eqb pabs_eqb (pc_abs a) (pc_abs b) && opt_eqb pl_eqb (pc_layout a) (pc_layout b).
Definition plib_eqb (a b : PLib) :=
  String.eqb (plib_domain a) (plib_domain b) && list_eqb pcell_eqb (plib_cells a) (plib_cells b).

(** * The property, executable *)
(** everything the listing reaches, by a plain worklist closure *)
Fixpoint closure (fuel : nat) (deps : N -> list N) (todo acc : list N) : list N :=
  match fuel with
  | O => acc
  | S f =>
    match todo with
    | [] => acc
    | x :: r => if mem x acc then closure f deps r acc else closure f deps (deps x ++ r) (x :: acc)
    end
  end.
Definition closure_fuel (L : TLib) (items : list N) : nat :=
  (List.length items + list_sum (map (fun p => List.length (lib_deps L p)) (seqN (List.length (tlib_heap L)))) +
   List.length (tlib_heap L) + 1)%nat.
Definition reach_from (L : TLib) (items : list N) : list N :=
  closure (closure_fuel L items) (lib_deps L) items [].
Definition reach_set (L : TLib) : list N := reach_from L (tlib_cells L).

Definition acyclicb (L : TLib) : bool :=
  forallb (fun x => negb (mem x (reach_from L (lib_deps L x)))) (reach_set L).

Definition ptrs_validb (L : TLib) : bool :=
  let n := N.of_nat (List.length (tlib_heap L)) in
  forallb (fun p => N.ltb p n) (tlib_cells L) &&
  forallb (fun c => match tc_layout c with
                    | Some l => forallb (fun i => N.ltb (ti_cell i) n) (tl_insts l)
                    | None => true end) (tlib_heap L).

Definition reach_cells (L : TLib) : list TCell :=
  flat_map (fun p => match heap_get L p with Some c => [c] | None => [] end) (reach_set L).

Definition placedb (L : TLib) : bool :=
  forallb (fun c => forallb (fun i => match ti_loc i with PAbs _ _ => true | PRel => false end) (cell_insts c))
          (reach_cells L).

Definition fits63b (v : Z) : bool := (0 <=? v) && (v <? two63).
Definition tr_fitsb (t : TTrackRef) := fits63b (tr_layer t) && fits63b (tr_track t).
Definition tx_fitsb (c : TCross) := tr_fitsb (tx_track c) && tr_fitsb (tx_cross c).
Definition outline_okb (o : TOutline) := outline_validb (to_x o) (to_y o).
Definition loc_canonb (p : TPlace) : bool :=
  match p with PAbs x y => dir_eqb (pp_dir x) Horiz && dir_eqb (pp_dir y) Vert | PRel => true end.
Definition layout_wfb (l : TLayout) : bool :=
  outline_okb (tl_outline l) && fits63b (tl_metals l) &&
  forallb (fun i => loc_canonb (ti_loc i)) (tl_insts l) &&
  forallb (fun a => tx_fitsb (ta_at a)) (tl_assigns l) && forallb tx_fitsb (tl_cuts l).
Definition abs_wfb (a : TAbs) : bool :=
  outline_okb (tabs_outline a) && fits63b (tabs_metals a) &&
  match tabs_ports a with [] => true | _ => false end.
Definition cell_wfb (c : TCell) : bool :=
  match tc_layout c with Some l => layout_wfb l | None => true end &&
  match tc_abs c with Some a => abs_wfb a | None => true end.
Fixpoint nodup_strb (l : list string) : bool :=
  match l with
  | [] => true
  | s :: r => negb (existsb (String.eqb s) r) && nodup_strb r
  end.
Definition wfb (L : TLib) : bool :=
  forallb cell_wfb (reach_cells L) && nodup_strb (map tc_name (reach_cells L)).

(** the library that came back, cells matched by name *)
Definition find_by_name (cells : list TCell) (n : string) : list TCell :=
  filter (fun c => String.eqb (tc_name c) n) cells.
Definition target_name (L : TLib) (i : TInst) : option string :=
  match heap_get L (ti_cell i) with Some c => Some (tc_name c) | None => None end.
Definition inst_equivb (L L' : TLib) (i i' : TInst) : bool :=
  String.eqb (ti_name i) (ti_name i') && place_eqb (ti_loc i) (ti_loc i') &&
  Bool.eqb (ti_rh i) (ti_rh i') && Bool.eqb (ti_rv i) (ti_rv i') &&
  match target_name L i, target_name L' i' with
  | Some a, Some b => String.eqb a b
  | _, _ => false
  end.
Definition layout_equivb (L L' : TLib) (l l' : TLayout) : bool :=
  String.eqb (tl_name l) (tl_name l') && (tl_metals l =? tl_metals l') &&
  outline_eqb (tl_outline l) (tl_outline l') &&
  list_eqb (inst_equivb L L') (tl_insts l) (tl_insts l') &&
  list_eqb ta_eqb (tl_assigns l) (tl_assigns l') && list_eqb tx_eqb (tl_cuts l) (tl_cuts l').
Definition cell_equivb (L L' : TLib) (c c' : TCell) : bool :=
  String.eqb (tc_name c) (tc_name c') && opt_eqb tabs_eqb (tc_abs c) (tc_abs c') &&
  opt_eqb (layout_equivb L L') (tc_layout c) (tc_layout c').
Definition tlib_equivb (L L' : TLib) : bool :=
  String.eqb (tlib_name L) (tlib_name L') &&
  Nat.eqb (List.length (tlib_heap L')) (List.length (reach_set L)) &&
  list_eqb N.eqb (tlib_cells L') (seqN (List.length (tlib_heap L'))) &&
  forallb (fun c => match find_by_name (tlib_heap L') (tc_name c) with
                    | [c'] => cell_equivb L L' c c'
                    | _ => false
                    end) (reach_cells L).

(** every local reference of cell k names a cell listed before k; returns the names seen *)
Fixpoint deps_first_from (seen : list string) (cells : list PCell) : bool :=
  match cells with
  | [] => true
  | c :: r =>
    forallb (fun i => match pinst_local i with
                      | Some n => existsb (String.eqb n) seen
                      | None => true end) (pcell_insts c) &&
    deps_first_from (pc_name c :: seen) r
  end.
Definition deps_firstb (P : PLib) : bool := deps_first_from [] (plib_cells P).

(** the exported message has every mandatory sub-message *)
Definition ptx_completeb (c : PTrackCross) : bool :=
  match ptx_track c, ptx_cross c with Some _, Some _ => true | _, _ => false end.
Definition pinst_malformedb (seen : list string) (i : PInstance) : bool :=
  match pi_cell i with
  | None => true
  | Some r => match pref_to r with
              | None => true
              | Some RExternal => true
              | Some (RLocal n) => negb (existsb (String.eqb n) seen)
              end
  end ||
  match pi_loc i with
  | None => true
  | Some pl => match pplace_place pl with
               | None => true
               | Some PPRel => true
               | Some (PPAbs _) => false
               end
  end.
Definition playout_malformedb (seen : list string) (l : PLayout) : bool :=
  match pl_outline l with None => true | Some _ => false end ||
  existsb (pinst_malformedb seen) (pl_insts l) ||
  existsb (fun a => match pa_at a with None => true | Some c => negb (ptx_completeb c) end) (pl_assigns l) ||
  existsb (fun c => negb (ptx_completeb c)) (pl_cuts l).
Definition pabs_malformedb (a : PAbstract) : bool :=
  match pabs_outline a with None => true | Some _ => false end.
Definition pcell_malformedb (seen : list string) (c : PCell) : bool :=
  match pc_layout c with Some l => playout_malformedb seen l | None => false end ||
  match pc_abs c with Some a => pabs_malformedb a | None => false end.
Fixpoint malformed_from (seen : list string) (cells : list PCell) : bool :=
  match cells with
  | [] => false
  | c :: r => pcell_malformedb seen c || malformed_from (pc_name c :: seen) r
  end.
Definition malformedb (P : PLib) : bool := malformed_from [] (plib_cells P).
Definition no_abs_portsb (P : PLib) : bool :=
  forallb (fun c => match pc_abs c with
                    | Some a => match pabs_ports a with [] => true | _ => false end
                    | None => true end) (plib_cells P).

Definition code (prop_ok model_eq : bool) : Z :=
  if negb prop_ok then 2 else if model_eq then 0 else 1.

Definition is_err {A : Type} (r : res A) : bool := match r with Err => true | _ => false end.
Definition is_panic {A : Type} (r : res A) : bool := match r with Panic => true | _ => false end.

(** op 1 (round trip): the library, the exporter's result, and the importer's result on the
    exported message (present iff the export succeeded) *)
Definition c19_check_rt (L : TLib) (expo : res PLib) (impo : option (res TLib)) : Z :=
  let model_eq :=
    res_eqb plib_eqb (export L) expo &&
    match expo with
    | Ok P => opt_eqb (res_eqb tlib_eqb) (Some (import P)) impo
    | _ => match impo with None => true | Some _ => false end
    end in
  let prop_ok :=
    if negb (ptrs_validb L) then false (* generator error *)
    else if negb (acyclicb L) then is_err expo
    else
      match expo with
      | Ok P => deps_firstb P
      | _ => true
      end &&
      (if placedb L && wfb L then
         match expo, impo with
         | Ok P, Some (Ok L') => tlib_equivb L L'
         | _, _ => false
         end
       else true) in
  code prop_ok model_eq.

(** op 2 (import of a message built directly) *)
Definition c19_check_imp (P : PLib) (impo : res TLib) : Z :=
  let model_eq := res_eqb tlib_eqb (import P) impo in
  let prop_ok :=
    if no_abs_portsb P then
      (if malformedb P then is_err impo else negb (is_panic impo))
    else true in
  code prop_ok model_eq.

(** coverage: 1 when the case meets the hypotheses of C19_roundtrip / C19_malformed_is_error *)
Definition c19_cover_rt (L : TLib) : Z :=
  if ptrs_validb L && acyclicb L && placedb L && wfb L then 1 else 0.
Definition c19_cover_imp (P : PLib) : Z :=
  if no_abs_portsb P && malformedb P then 1 else 0.
