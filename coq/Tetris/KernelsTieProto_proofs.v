(** Tie (a) of DESIGN.md 2.3 for the tetris <-> protobuf conversion of outlines (family "tetris_proto", property C19): the
    definitions generated from layout21tetris/src/conv/proto.rs `ProtoExporter::export_outline` (with the generic
    `export_dimensions` / `export_dimension` at T = PrimPitches and `PrimPitches::raw`), `ProtoLibImporter::import_outline`
    (with `import_prim_pitches_list` / `import_prim_pitches`) and outline.rs `Outline::from_prim_pitches` (the length test and
    its two index loops with their early failures) (Gen/KernelsTetrisProtoGen.v), read as in Tetris/KernelsInstProto.v, EQUAL
    [export_outline], [import_outline], [from_prim_pitches] of Tetris/TProto.v.  The model states the outline check as one
    boolean ([outline_validb]); the code runs index loops: the equality is proved here, the model is not changed. *)
From Coq Require Import ZArith Bool List Lia.
From L21 Require Import Base.KernelOps Base.KernelOpsX Base.KernelOpsS Order.DepOrder Order.KernelsInstOrder Gen.KernelsTetrisProtoGen Tetris.KernelsInstProto.
From L21 Require Tetris.TProto Tetris.KernelsInstTetris.
Import ListNotations.
Local Open Scope Z_scope.

Ltac ps := cbn [tq_xops tq_kops kx_base KernelsInstTetris.z_kops KernelsInstTetris.zget KernelsInstTetris.zsub k_bind k_ret k_fail k_panic i_try_from_q i_lit i_eq i_lt i_sub v_get v_len k_for
                od_bind od_ret od_err od_pan rmap TP.bind].

(** * export_outline *)
Lemma tie_proto_export_dimensions_loop : forall l acc, Forall (fun p => i64v (TP.pp_num p)) l ->
  k_foreach tq_kops (map Gpp l) (fun val st__ => g_ProtoExporter_export_dimensions_loop1 tq_xops mk_gProtoExporter val st__) acc
  = Ok (Cont (R:=list Z) (acc ++ map TP.pp_num l)).
Proof.
  induction l as [|p r IH]; intros acc H.
  - cbn. rewrite app_nil_r. reflexivity.
  - inversion H as [|? ? Hp Hr]; subst. cbn [map k_foreach].
    unfold g_ProtoExporter_export_dimensions_loop1 at 1, g_ProtoExporter_export_dimension, g_PrimPitches_raw. ps.
    cbn [Gpp gPrimPitches_num]. unfold i64v in Hp. rewrite Hp. ps.
    change (kx_base tq_xops) with tq_kops in IH. rewrite (IH _ Hr). rewrite <- app_assoc. reflexivity.
Qed.

Lemma mapM_isize : forall l, TP.mapM (fun p => TP.isize_to_i64 (TP.pp_num p)) l = Ok (map TP.pp_num l).
Proof. induction l as [|p r IH]; [reflexivity|]. cbn [TP.mapM map]. unfold TP.isize_to_i64 at 1. cbn [TP.bind]. rewrite IH. reflexivity. Qed.

Lemma usize_i64 : forall m, usizev m -> (if ity_in I64 m then Ok m else Err) = TP.usize_to_i64 m.
Proof.
  intros m H. unfold usizev, ity_in in H. change (ity_min Usize) with 0 in H. apply andb_true_iff in H. destruct H as [A _]. apply Z.leb_le in A.
  unfold TP.usize_to_i64, TP.two63, ity_in. change (ity_min I64) with (- 2 ^ 63). change (ity_max I64) with (2 ^ 63 - 1).
  destruct (m <? 9223372036854775808) eqn:E.
  - apply Z.ltb_lt in E. replace (- 2 ^ 63 <=? m) with true by (symmetry; apply Z.leb_le; lia).
    replace (m <=? 2 ^ 63 - 1) with true by (symmetry; apply Z.leb_le; lia). reflexivity.
  - apply Z.ltb_ge in E. replace (m <=? 2 ^ 63 - 1) with false by (symmetry; apply Z.leb_gt; lia). rewrite andb_false_r. reflexivity.
Qed.

(** `export_outline`: the coordinates (values of isize) and the number of metals (a value of usize) into i64 *)
Lemma tie_proto_export_outline : forall o metals,
  Forall (fun p => i64v (TP.pp_num p)) (TP.to_x o) -> Forall (fun p => i64v (TP.pp_num p)) (TP.to_y o) -> usizev metals ->
  g_export_outline o metals = rmap Gpo (TP.export_outline o metals).
Proof.
  intros o metals Hx Hy Hm. unfold g_export_outline, g_ProtoExporter_export_outline, g_ProtoExporter_export_dimensions, TP.export_outline, TP.export_dimensions.
  ps. cbn [Gout gOutline_x gOutline_y]. rewrite (tie_proto_export_dimensions_loop _ _ Hx). ps.
  rewrite (tie_proto_export_dimensions_loop _ _ Hy). ps. rewrite !mapM_isize. ps. cbn [app].
  rewrite (usize_i64 _ Hm). destruct (TP.usize_to_i64 metals); reflexivity.
Qed.

(** * import_outline *)
Lemma tie_proto_import_pp_list_loop : forall d l acc, Forall i64v l ->
  k_foreach tq_kops l (fun pt st__ => g_ProtoLibImporter_import_prim_pitches_list_loop1 tq_xops mk_gProtoLibImporter (Gdir d) pt st__) acc
  = Ok (Cont (R:=list (gPrimPitches unit Z)) (acc ++ map (fun v => Gpp (TP.mkPP d v)) l)).
Proof.
  intros d. induction l as [|v r IH]; intros acc H.
  - cbn. rewrite app_nil_r. reflexivity.
  - inversion H as [|? ? Hv Hr]; subst. cbn [map k_foreach].
    unfold g_ProtoLibImporter_import_prim_pitches_list_loop1 at 1, g_ProtoLibImporter_import_prim_pitches, g_PrimPitches_new. ps.
    unfold i64v in Hv. change (ity_in Isize v) with (ity_in I64 v). rewrite Hv. ps.
    change (kx_base tq_xops) with tq_kops in IH. rewrite (IH _ Hr). rewrite <- app_assoc. reflexivity.
Qed.
Lemma mapM_pp : forall d l, TP.import_prim_pitches_list l d = Ok (map (TP.mkPP d) l).
Proof.
  intros d. unfold TP.import_prim_pitches_list. induction l as [|v r IH]; [reflexivity|].
  cbn [TP.mapM map]. unfold TP.i64_to_isize at 1. cbn [TP.bind]. rewrite IH. reflexivity.
Qed.
Lemma i64_usize : forall m, i64v m -> (if ity_in Usize m then Ok m else Err) = TP.i64_to_usize m.
Proof.
  intros m H. unfold i64v, ity_in in H. change (ity_max I64) with (2 ^ 63 - 1) in H. apply andb_true_iff in H. destruct H as [_ B]. apply Z.leb_le in B.
  unfold TP.i64_to_usize, ity_in. change (ity_min Usize) with 0. change (ity_max Usize) with (2 ^ 64 - 1).
  destruct (m <? 0) eqn:E.
  - apply Z.ltb_lt in E. replace (0 <=? m) with false by (symmetry; apply Z.leb_gt; lia). reflexivity.
  - apply Z.ltb_ge in E. replace (0 <=? m) with true by (symmetry; apply Z.leb_le; lia).
    replace (m <=? 2 ^ 64 - 1) with true by (symmetry; apply Z.leb_le; lia). reflexivity.
Qed.

(** * Outline::from_prim_pitches *)
Definition cx (p : TP.PrimP) : bool := TP.dir_eqb (TP.pp_dir p) TP.Horiz && (0 <=? TP.pp_num p).
Definition cy (p : TP.PrimP) : bool := TP.dir_eqb (TP.pp_dir p) TP.Vert && (0 <=? TP.pp_num p).

Lemma zget_mid : forall (pre : list TP.PrimP) a r,
  KernelsInstTetris.zget od_ret od_pan _ (map Gpp (pre ++ a :: r)) (Z.of_nat (length pre)) = Ok (Gpp a).
Proof.
  intros pre a r. unfold KernelsInstTetris.zget.
  replace (Z.of_nat (length pre) <? 0) with false by (symmetry; apply Z.ltb_ge; lia).
  rewrite Nat2Z.id, nth_error_map, nth_error_app2 by lia. rewrite Nat.sub_diag. reflexivity.
Qed.

Lemma dir_horiz : forall d, gDir_eqb (Gdir d) (@gDir_Horiz unit Z) = TP.dir_eqb d TP.Horiz.
Proof. intros []; reflexivity. Qed.
Lemma dir_vert : forall d, gDir_eqb (Gdir d) (@gDir_Vert unit Z) = TP.dir_eqb d TP.Vert.
Proof. intros []; reflexivity. Qed.

Lemma loop1_body : forall prex a sx prey b sy, length prex = length prey ->
  g_Outline_from_prim_pitches_loop1 tq_xops (map Gpp (prex ++ a :: sx)) (map Gpp (prey ++ b :: sy)) (Z.of_nat (length prex)) tt
  = if cx a && cy b then Ok (Cont (R:=gOutline unit Z) tt) else Err.
Proof.
  intros prex a sx prey b sy Hl. unfold g_Outline_from_prim_pitches_loop1. ps.
  rewrite !zget_mid. rewrite Hl, !zget_mid. ps. cbn [Gpp gPrimPitches_dir gPrimPitches_num].
  rewrite dir_horiz, dir_vert. unfold cx, cy.
  destruct (TP.dir_eqb (TP.pp_dir a) TP.Horiz); cbn [negb andb]; ps; [|reflexivity].
  destruct (TP.dir_eqb (TP.pp_dir b) TP.Vert); cbn [negb andb]; ps; [|rewrite andb_false_r; reflexivity].
  rewrite !Z.leb_antisym. destruct (TP.pp_num a <? 0); cbn [negb andb]; ps; [reflexivity|].
  destruct (TP.pp_num b <? 0); reflexivity.
Qed.

Lemma tie_proto_from_pp_loop1 : forall sx sy prex prey, length prex = length prey -> length sx = length sy ->
  for_from od_ret od_bind (length sx) (Z.of_nat (length prex))
           (fun k st__ => g_Outline_from_prim_pitches_loop1 tq_xops (map Gpp (prex ++ sx)) (map Gpp (prey ++ sy)) k st__) tt
  = if forallb cx sx && forallb cy sy then Ok (Cont (R:=gOutline unit Z) tt) else Err.
Proof.
  induction sx as [|a sx IH]; intros sy prex prey Hp Hs; destruct sy as [|b sy]; try discriminate; [reflexivity|].
  cbn [length for_from forallb]. rewrite (loop1_body prex a sx prey b sy Hp).
  destruct (cx a) eqn:Ea; cbn [andb]; [|reflexivity].
  destruct (cy b) eqn:Eb; cbn [andb od_bind]; [|rewrite andb_false_r; reflexivity].
  replace (prex ++ a :: sx) with ((prex ++ [a]) ++ sx) by (rewrite <- app_assoc; reflexivity).
  replace (prey ++ b :: sy) with ((prey ++ [b]) ++ sy) by (rewrite <- app_assoc; reflexivity).
  replace (Z.of_nat (length prex) + 1) with (Z.of_nat (length (prex ++ [a]))) by (rewrite app_length; cbn [length]; lia).
  apply IH; [rewrite !app_length; cbn [length]; lia | cbn [length] in Hs; lia].
Qed.

Lemma loop2_body : forall prex a a' sx prey b b' sy, length prex = length prey ->
  g_Outline_from_prim_pitches_loop2 tq_xops (map Gpp (prex ++ a :: a' :: sx)) (map Gpp (prey ++ b :: b' :: sy)) (Z.of_nat (length prex) + 1) tt
  = if (TP.pp_num a' <=? TP.pp_num a) && (TP.pp_num b <=? TP.pp_num b') then Ok (Cont (R:=gOutline unit Z) tt) else Err.
Proof.
  intros prex a a' sx prey b b' sy Hl. unfold g_Outline_from_prim_pitches_loop2. ps.
  replace (Z.of_nat (length prex) + 1 - 1 <? 0) with false by (symmetry; apply Z.ltb_ge; lia).
  replace (Z.of_nat (length prex) + 1 - 1) with (Z.of_nat (length prex)) by lia. ps.
  assert (E1 : forall (pre : list TP.PrimP) u v r,
             KernelsInstTetris.zget od_ret od_pan _ (map Gpp (pre ++ u :: v :: r)) (Z.of_nat (length pre) + 1) = Ok (Gpp v)).
  { intros pre u v r. replace (pre ++ u :: v :: r) with ((pre ++ [u]) ++ v :: r) by (rewrite <- app_assoc; reflexivity).
    replace (Z.of_nat (length pre) + 1) with (Z.of_nat (length (pre ++ [u]))) by (rewrite app_length; cbn [length]; lia).
    apply zget_mid. }
  rewrite !E1, !zget_mid. rewrite Hl, !E1, !zget_mid. ps. cbn [Gpp gPrimPitches_num].
  rewrite !Z.leb_antisym.
  destruct (TP.pp_num a <? TP.pp_num a'); cbn [negb andb]; ps; [reflexivity|].
  destruct (TP.pp_num b' <? TP.pp_num b); reflexivity.
Qed.

Lemma tie_proto_from_pp_loop2 : forall sx sy prex a prey b, length prex = length prey -> length sx = length sy ->
  for_from od_ret od_bind (length sx) (Z.of_nat (length prex) + 1)
           (fun k st__ => g_Outline_from_prim_pitches_loop2 tq_xops (map Gpp (prex ++ a :: sx)) (map Gpp (prey ++ b :: sy)) k st__) tt
  = if TP.non_increasing (map TP.pp_num (a :: sx)) && TP.non_decreasing (map TP.pp_num (b :: sy))
    then Ok (Cont (R:=gOutline unit Z) tt) else Err.
Proof.
  induction sx as [|a' sx IH]; intros sy prex a prey b Hp Hs; destruct sy as [|b' sy]; try discriminate; [reflexivity|].
  cbn [length for_from]. rewrite (loop2_body prex a a' sx prey b b' sy Hp).
  cbn [map TP.non_increasing TP.non_decreasing].
  destruct (TP.pp_num a' <=? TP.pp_num a); cbn [andb]; [|reflexivity].
  destruct (TP.pp_num b <=? TP.pp_num b'); cbn [andb od_bind]; [|rewrite andb_false_r; reflexivity].
  replace (prex ++ a :: a' :: sx) with ((prex ++ [a]) ++ a' :: sx) by (rewrite <- app_assoc; reflexivity).
  replace (prey ++ b :: b' :: sy) with ((prey ++ [b]) ++ b' :: sy) by (rewrite <- app_assoc; reflexivity).
  replace (Z.of_nat (length prex) + 1 + 1) with (Z.of_nat (length (prex ++ [a])) + 1) by (rewrite app_length; cbn [length]; lia).
  apply (IH sy (prex ++ [a]) a' (prey ++ [b]) b'); [rewrite !app_length; cbn [length]; lia | cbn [length] in Hs; lia].
Qed.

(** `Outline::from_prim_pitches`: the length test, the loop over directions and signs, the loop over the monotonicity of
    neighbours; every failing check is the same error *)
Lemma tie_proto_from_prim_pitches : forall x y,
  g_from_prim_pitches x y = rmap Gout (TP.from_prim_pitches x y).
Proof.
  intros x y. unfold g_from_prim_pitches, g_Outline_from_prim_pitches, TP.from_prim_pitches, TP.outline_validb. ps.
  rewrite !map_length.
  destruct x as [|a sx]; [reflexivity|].
  replace (Z.of_nat (length (a :: sx)) <? 1) with false by (symmetry; apply Z.ltb_ge; cbn [length]; lia).
  cbn [orb Nat.leb andb].
  destruct (Nat.eqb (length (a :: sx)) (length y)) eqn:El.
  - apply Nat.eqb_eq in El. rewrite <- El, Z.eqb_refl. cbn [negb].
    destruct y as [|b sy]; [discriminate|].
    unfold for_Z. replace (Z.to_nat (Z.of_nat (length (a :: sx)) - 0)) with (length (a :: sx)) by lia.
    change 0 with (Z.of_nat (@length TP.PrimP [])) at 1.
    change (map Gpp (a :: sx)) with (map Gpp ([] ++ a :: sx)). change (map Gpp (b :: sy)) with (map Gpp ([] ++ b :: sy)).
    rewrite (tie_proto_from_pp_loop1 (a :: sx) (b :: sy) [] [] eq_refl El).
    fold cx cy.
    destruct (forallb cx (a :: sx)); cbn [andb]; [|reflexivity].
    destruct (forallb cy (b :: sy)); cbn [andb od_bind]; [|reflexivity].
    replace (Z.to_nat (Z.of_nat (length (a :: sx)) - 1)) with (length sx) by (cbn [length]; lia).
    change 1 with (Z.of_nat (@length TP.PrimP []) + 1) at 1.
    rewrite (tie_proto_from_pp_loop2 sx sy [] a [] b eq_refl) by (cbn [length] in El; lia).
    destruct (TP.non_increasing (map TP.pp_num (a :: sx)) && TP.non_decreasing (map TP.pp_num (b :: sy))) eqn:E.
    + apply andb_true_iff in E. destruct E as [E1 E2]. rewrite E1, E2. reflexivity.
    + apply andb_false_iff in E. destruct E as [E|E]; rewrite E; [reflexivity|rewrite andb_false_r; reflexivity].
  - replace (Z.of_nat (length (a :: sx)) =? Z.of_nat (length y)) with false
      by (symmetry; apply Z.eqb_neq; apply Nat.eqb_neq in El; lia).
    reflexivity.
Qed.

(** `import_outline`: the coordinates (values of i64) with their directions, the number of metals into usize, then the
    outline check *)
Lemma tie_proto_import_outline : forall po,
  Forall i64v (TP.po_x po) -> Forall i64v (TP.po_y po) -> i64v (TP.po_metals po) ->
  g_import_outline po = rmap (fun om => (Gout (fst om), snd om)) (TP.import_outline po).
Proof.
  intros po Hx Hy Hm. unfold g_import_outline, g_ProtoLibImporter_import_outline, g_ProtoLibImporter_import_prim_pitches_list, TP.import_outline.
  ps. cbn [Gpo gtproto__Outline_x gtproto__Outline_y gtproto__Outline_metals].
  change (@gDir_Horiz unit Z) with (Gdir TP.Horiz). change (@gDir_Vert unit Z) with (Gdir TP.Vert).
  rewrite (tie_proto_import_pp_list_loop TP.Horiz _ _ Hx). ps. rewrite (tie_proto_import_pp_list_loop TP.Vert _ _ Hy). ps. cbn [app].
  rewrite !mapM_pp. ps. rewrite (i64_usize _ Hm).
  destruct (TP.i64_to_usize (TP.po_metals po)) as [m| | |]; ps; try reflexivity.
  rewrite <- !map_map with (f := TP.mkPP _) (g := Gpp).
  fold (g_from_prim_pitches (map (TP.mkPP TP.Horiz) (TP.po_x po)) (map (TP.mkPP TP.Vert) (TP.po_y po))).
  rewrite tie_proto_from_prim_pitches. destruct (TP.from_prim_pitches _ _); reflexivity.
Qed.
