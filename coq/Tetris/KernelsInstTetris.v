(** Readings of the generated tetris kernels (Gen/KernelsTetrisGen.v) at the level of the hand-written models:

    - [ts_xops]  outcomes of Tetris/Stack.v ([Stack.res]: Ok / Err code / Panic code), integers = Z without
                 overflow (as Stack.v and Compile.v model them), `usize` subtraction below zero and division by
                 zero are panics, `try_from` into `usize` of a negative number fails                     (C08)
    - [tp_xops]  outcomes of Tetris/Placer.v ([Placer.res]: Ok / Err / Panic / OutOfFuel / BadRef), same integers (C09)

    and the maps from the models' data (Stack.metal, vmetal, tdata, Placer.Inst, RelPlace, ...) to the generated
    records and inductive types.  The models omit fields the translated functions do not read (TrackData.index,
    TrackData.dir): the maps fill them with a fixed value.  No proofs in this file. *)
From Coq Require Import ZArith Bool List.
From L21 Require Import Base.KernelOps Base.KernelOpsX Gen.KernelsTetrisGen.
From L21 Require Tetris.Stack Tetris.Tracks Tetris.Compile Tetris.Placer.
Import ListNotations.
Local Open Scope Z_scope.

(** * Integers: Z, no overflow; what can still stop a computation is passed in as [pan] *)
Section IntOps.
  Context {M : Type -> Type} (ret : forall A : Type, A -> M A) (bind : forall A B : Type, M A -> (A -> M B) -> M B)
          (pan : forall A : Type, M A) (err : forall A : Type, M A).
  Definition nof1 (x : unit) : M unit := pan unit.
  Definition nof2 (x y : unit) : M unit := pan unit.
  Definition zget (A : Type) (l : list A) (i : Z) : M A :=
    if i <? 0 then pan A else match nth_error l (Z.to_nat i) with Some x => ret A x | None => pan A end.
  Definition zsub (t : ity) (a b : Z) : M Z :=
    match t with
    | Usize | U64 | U32 | U8 => if a - b <? 0 then pan Z else ret Z (a - b)
    | _ => ret Z (a - b)
    end.
  Definition zunsigned (t : ity) : bool := match t with Usize | U64 | U32 | U8 => true | _ => false end.
  Definition z_kops : kops M unit Z :=
    {| k_ret := ret; k_bind := bind; k_panic := pan;
       f_zero := tt; f_one := tt; f_lit := fun _ _ => tt;
       f_add := nof2; f_sub := nof2; f_mul := nof2; f_div := nof2; f_neg := nof1;
       f_eq := fun _ _ => false; f_lt := fun _ _ => false; f_le := fun _ _ => false;
       KernelOps.f_round := nof1; f_rem_euclid := nof2;
       f_to_radians := nof1; f_sin := nof1; f_cos := nof1;
       f_powi := fun _ _ => pan unit;
       i_lit := fun z => z; i_minval := ity_min; i_maxval := ity_max;
       i_add := fun _ a b => ret Z (a + b);
       i_sub := zsub;
       i_mul := fun _ a b => ret Z (a * b);
       i_div := fun _ a b => if b =? 0 then pan Z else ret Z (Z.quot a b);
       i_rem := fun _ a b => if b =? 0 then pan Z else ret Z (Z.rem a b);
       i_neg := fun _ a => ret Z (- a);
       i_and := fun _ a b => ret Z (Z.land a b);
       i_or := fun _ a b => ret Z (Z.lor a b);
       i_shl := fun _ _ _ => pan Z; i_shr := fun _ _ _ => pan Z;
       i_min := Z.min; i_max := Z.max; i_eq := Z.eqb; i_lt := Z.ltb; i_le := Z.leb;
       i_cast := fun _ _ z => ret Z z;
       i_try_from := fun _ t z => if zunsigned t && (z <? 0) then pan Z else ret Z z;
       i_to_f := fun _ _ => pan unit; f_to_i := fun _ _ => pan Z;
       v_len := fun A l => Z.of_nat (length l); v_get := zget;
       k_for := fun Rt St => for_Z ret bind |}.
  Definition z_xops : kxops M unit Z :=
    {| kx_base := z_kops; k_fail := err;
       k_unwrap := fun A x => x;          (* not used by the translated tetris functions *)
       i_try_from_q := fun _ t z => if zunsigned t && (z <? 0) then err Z else ret Z z;
       v_set := fun A l i x =>
         if (i <? 0) || (Z.of_nat (length l) <=? i) then pan (list A) else ret (list A) (k_list_set l (Z.to_nat i) x);
       v_insert := fun A l i x =>
         if (i <? 0) || (Z.of_nat (length l) <? i) then pan (list A) else ret (list A) (k_list_insert l (Z.to_nat i) x) |}.
End IntOps.

(** * (A) Stack.res *)
Module S := Tetris.Stack.
Definition ts_ret (A : Type) (a : A) : S.res A := S.Ok a.
Definition ts_bind (A B : Type) (x : S.res A) (f : A -> S.res B) : S.res B := S.bind x f.
Definition ts_pan (A : Type) : S.res A := S.Panic 0.
Definition ts_err (A : Type) : S.res A := S.Err 0.
Definition ts_xops : kxops S.res unit Z := z_xops ts_ret ts_bind ts_pan ts_err.

(** error and panic codes are diagnostics only (Stack.v): outcomes are compared by class *)
Definition cls {A B : Type} (f : A -> B) (r : S.res A) : S.res B :=
  match r with S.Ok a => S.Ok (f a) | S.Err _ => S.Err 0 | S.Panic _ => S.Panic 0 end.

Definition Gu (z : Z) : gDbUnits unit Z := mk_gDbUnits z.
Definition Gtt (t : S.ttype) : gTrackType unit Z :=
  match t with
  | S.Gap => gTrackType_Gap
  | S.Signal => gTrackType_Signal
  | S.Rail S.Pwr => gTrackType_Rail gRailKind_Pwr
  | S.Rail S.Gnd => gTrackType_Rail gRailKind_Gnd
  end.
Definition Gentry (e : S.entry) : gTrackEntry unit Z := mk_gTrackEntry (Gtt (S.e_tt e)) (Gu (S.e_w e)).
Definition Gspec (s : S.tspec) : gTrackSpec unit Z :=
  match s with
  | S.SEntry e => gTrackSpec_Entry (Gentry e)
  | S.SRepeat es n => gTrackSpec_Repeat (mk_gRepeat (map Gentry es) (Z.of_nat n))
  end.
Definition Gflip (b : bool) : gFlipMode unit Z := if b then gFlipMode_EveryOther else gFlipMode_None.
Definition Gdirb (horiz : bool) : gDir unit Z := if horiz then gDir_Horiz else gDir_Vert.
Definition Gmetal (m : S.metal) : gMetalLayer unit Z :=
  mk_gMetalLayer (Gdirb (S.m_horiz m)) (map Gspec (S.m_specs m)) (Gu (S.m_offset m)) (Gu (S.m_overlap m)) (Gflip (S.m_flip m)).
(** TrackData.index and TrackData.dir are not in the model (derivable, never read by the translated functions) *)
Definition Gtd (t : S.tdata) : gTrackData unit Z :=
  mk_gTrackData (Gtt (S.td_tt t)) 0 gDir_Horiz (Gu (S.td_start t)) (Gu (S.td_width t)).
(** the TrackData the code builds: with its index in the list it is pushed onto and the layer's direction *)
Definition Gtdi (horiz : bool) (i : nat) (t : S.tdata) : gTrackData unit Z :=
  mk_gTrackData (Gtt (S.td_tt t)) (Z.of_nat i) (Gdirb horiz) (Gu (S.td_start t)) (Gu (S.td_width t)).
Fixpoint Gtds_from (horiz : bool) (i : nat) (l : list S.tdata) : list (gTrackData unit Z) :=
  match l with [] => [] | t :: r => Gtdi horiz i t :: Gtds_from horiz (S i) r end.
Definition Gtds (horiz : bool) (l : list S.tdata) : list (gTrackData unit Z) := Gtds_from horiz 0 l.
Definition Gvm (vm : S.vmetal) : gValidMetalLayer unit Z :=
  mk_gValidMetalLayer (Gmetal (S.vm_spec vm)) (mk_gLayerPeriodData (map Gtd (S.vm_sigs vm)) (map Gtd (S.vm_rails vm)))
                      (Gu (S.vm_pitch vm)).
Definition Gvs (vs : S.vstack) : gValidStack unit Z := mk_gValidStack (map Gvm (S.vs_metals vs)).
(** validate.rs: LibValidator { stack }, TrackCross *)
Definition Gval (vs : S.vstack) : gLibValidator unit Z := mk_gLibValidator (Gvs vs).
Definition Gcross4 (c : Tetris.Compile.cross) : gTrackCross unit Z :=
  mk_gTrackCross (mk_gTrackRef (Tetris.Compile.x_tl c) (Tetris.Compile.x_tt c))
                 (mk_gTrackRef (Tetris.Compile.x_cl c) (Tetris.Compile.x_ct c)).
Definition Gupair (p : Z * Z) : gDbUnits unit Z * gDbUnits unit Z := (Gu (fst p), Gu (snd p)).

(** tracks.rs: segments of a track.  A cut's source (`&TrackCross`) and a blockage's (`Ptr<Instance>`) are the model's
    indices; of an assigned net (`&Assign`, a record with a string) only its presence is represented *)
Definition Gcross (src : Z) : gTrackCross unit Z := mk_gTrackCross (mk_gTrackRef src 0) (mk_gTrackRef 0 0).
Definition Gstp (t : S.segtp) : gTrackSegmentType unit Z :=
  match t with
  | S.TCut src => gTrackSegmentType_Cut (Gcross src)
  | S.TBlock src => gTrackSegmentType_Blockage (Z.to_nat src)
  | S.TWire net => gTrackSegmentType_Wire (option_map (fun _ => mk_gAssign) net)
  | S.TRail S.Pwr => gTrackSegmentType_Rail gRailKind_Pwr
  | S.TRail S.Gnd => gTrackSegmentType_Rail gRailKind_Gnd
  end.
Definition Gseg (s : S.seg) : gTrackSegment unit Z :=
  mk_gTrackSegment (Gstp (S.s_tp s)) (Gu (S.s_start s)) (Gu (S.s_stop s)).

(** `Track::cut_or_block` on the track with data [d] and segments [segs] *)
Definition g_cob (d : gTrackData unit Z) (start stop : Z) (tp : S.segtp) (segs : list S.seg) : S.res (gTrack unit Z) :=
  g_Track_cut_or_block ts_xops (mk_gTrack d (map Gseg segs)) (Gu start) (Gu stop) (Gstp tp).

(** * (B) Placer.res *)
Module P := Tetris.Placer.
Definition tp_ret (A : Type) (a : A) : P.res A := P.Ok a.
Definition tp_bind (A B : Type) (x : P.res A) (f : A -> P.res B) : P.res B := P.bind x f.
Definition tp_pan (A : Type) : P.res A := P.Panic.
Definition tp_err (A : Type) : P.res A := P.Err.
Definition tp_xops : kxops P.res unit Z := z_xops tp_ret tp_bind tp_pan tp_err.

Definition pmap {A B : Type} (f : A -> B) (r : P.res A) : P.res B := P.bind r (fun a => P.Ok (f a)).

Definition Gdir (d : P.Dir) : gDir unit Z := match d with P.Horiz => gDir_Horiz | P.Vert => gDir_Vert end.
Definition Gside (s : P.Side) : gSide unit Z :=
  match s with P.Top => gSide_Top | P.Bottom => gSide_Bottom | P.Left => gSide_Left | P.Right => gSide_Right end.
Definition Gpp (p : P.PP) : gPrimPitches unit Z := mk_gPrimPitches (Gdir (P.pdir p)) (P.pnum p).
Definition Gxy (p : P.Xy) : gXy unit Z := mk_gXy (Gpp (P.px p)) (Gpp (P.py p)).
Definition Gbbox (b : P.BBox) : gBoundBox unit Z := mk_gBoundBox (Gxy (P.p0 b)) (Gxy (P.p1 b)).
Definition Galign (a : P.Align) : gAlign unit Z :=
  match a with
  | P.ASide s => gAlign_Side (Gside s)
  | P.ACenter => gAlign_Center
  | P.APorts => gAlign_Ports kopaque_any kopaque_any
  end.
Definition Gunits (u : P.UnitSpeced) : gUnitSpeced unit Z :=
  match u with
  | P.UDb n => gUnitSpeced_DbUnits (mk_gDbUnits n)
  | P.UPrim d n => gUnitSpeced_PrimPitches (mk_gPrimPitches (Gdir d) n)
  | P.ULayer l n => gUnitSpeced_LayerPitches (mk_gLayerPitches l n)
  end.
Definition Gsepby (s : P.SepBy) : gSepBy unit Z :=
  match s with P.SepUnits u => gSepBy_UnitSpeced (Gunits u) | P.SepSizeOf c => gSepBy_SizeOf c end.
Definition Gsep (s : P.Separation) : gSeparation unit Z :=
  mk_gSeparation (option_map Gsepby (P.sepx s)) (option_map Gsepby (P.sepy s)) (P.sepz s).
(** `rel.to`: the model has the node id; which kind of placeable it is stands in the pool *)
Definition Gto (pool : P.Pool) (n : nat) : gPlaceable unit Z :=
  match nth_error pool n with
  | Some (P.NInst _) => gPlaceable_Instance n
  | Some (P.NArray _) => gPlaceable_Array n
  | Some (P.NPort j) => gPlaceable_Port j kopaque_any
  | None => gPlaceable_Group kopaque_any
  end.
Definition Grel (pool : P.Pool) (r : P.RelPlace) : gRelativePlace unit Z :=
  mk_gRelativePlace (Gto pool (P.rto r)) (Gside (P.rside r)) (Galign (P.ralign r)) (Gsep (P.rsep r)).
Definition Gplace (pool : P.Pool) (p : P.Place) : gPlace unit Z :=
  match p with P.PAbs xy => gPlace_Abs (Gxy xy) | P.PRel r => gPlace_Rel (Grel pool r) end.
Definition Ginst (pool : P.Pool) (i : P.Inst) : gInstance unit Z :=
  mk_gInstance (P.icell i) (Gplace pool (P.iloc i)) (P.irh i) (P.irv i).

(** what stands for the functions kept external (cell.rs, outline.rs, array.rs, Ptr::read): a cell is its index,
    an outline its (xmax, ymax) *)
Definition x_read_cell (c : kptr) : P.res nat := P.Ok c.
Definition x_cell_outline (cells : P.Cells) (c : nat) : P.res (Z * Z) :=
  match nth_error cells c with
  | None => P.BadRef
  | Some None => P.Err
  | Some (Some wh) => P.Ok wh
  end.
Definition x_outline_xmax (wh : Z * Z) : P.res (gPrimPitches unit Z) := P.Ok (Gpp (P.mkPP P.Horiz (fst wh))).
Definition x_outline_ymax (wh : Z * Z) : P.res (gPrimPitches unit Z) := P.Ok (Gpp (P.mkPP P.Vert (snd wh))).
Definition x_cell_size (cells : P.Cells) (c : nat) : P.res (gXy unit Z) := pmap Gxy (P.cell_size cells c).
Definition x_read_inst (pool : P.Pool) (asg : P.Asg) (p : kptr) : P.res (gInstance unit Z) :=
  match nth_error pool p with
  | Some (P.NInst j) => P.Ok (Ginst pool (P.inst_at j (P.cur_place asg p (P.iloc j))))
  | Some _ => P.Panic       (* not reached: a Placeable::Instance holds a Ptr<Instance> *)
  | None => P.BadRef
  end.
Definition x_read_arr (pool : P.Pool) (p : kptr) : P.res P.ArrayInst :=
  match nth_error pool p with
  | Some (P.NArray a) => P.Ok a
  | Some _ => P.Panic
  | None => P.BadRef
  end.
Definition x_arr_boundbox (cells : P.Cells) (a : P.ArrayInst) : P.res (gBoundBox unit Z) :=
  pmap Gbbox (P.arrayinst_boundbox cells a).

(** * The generated placer functions with the external operations above in place *)
Definition g_boundbox (cells : P.Cells) (gi : gInstance unit Z) : P.res (gBoundBox unit Z) :=
  g_Instance_boundbox tp_xops nat (Z * Z)%type (x_cell_outline cells) x_outline_xmax x_outline_ymax x_read_cell gi.

Definition g_resolve (cells : P.Cells) (pool : P.Pool) (asg : P.Asg) (gi : gInstance unit Z) (gr : gRelativePlace unit Z)
  : P.res (gXy unit Z) :=
  g_Placer_resolve_instance_place tp_xops P.ArrayInst nat (Z * Z)%type (x_arr_boundbox cells) (x_cell_size cells)
    (x_cell_outline cells) x_outline_xmax x_outline_ymax (x_read_arr pool) x_read_cell (x_read_inst pool asg)
    mk_gPlacer gi gr.

(** the function after its first statement (`let bbox = match rel.to { .. }`) *)
Definition g_resolve_core (cells : P.Cells) (gi : gInstance unit Z) (gr : gRelativePlace unit Z) (gb : gBoundBox unit Z)
  : P.res (gXy unit Z) :=
  g_Placer_resolve_instance_place tp_xops unit nat (Z * Z)%type (fun _ => P.Ok gb) (x_cell_size cells)
    (x_cell_outline cells) x_outline_xmax x_outline_ymax (fun _ => P.Ok tt) x_read_cell (fun _ => P.Panic)
    mk_gPlacer gi (mk_gRelativePlace (gPlaceable_Array 0%nat) (gRelativePlace_side gr) (gRelativePlace_align gr) (gRelativePlace_sep gr)).

Definition g_target (cells : P.Cells) (pool : P.Pool) (asg : P.Asg) (to : gPlaceable unit Z) : P.res (gBoundBox unit Z) :=
  match to with
  | gPlaceable_Instance ptr => tp_bind _ _ (x_read_inst pool asg ptr) (fun i => g_boundbox cells i)
  | gPlaceable_Array ptr => tp_bind _ _ (x_read_arr pool ptr) (fun a => x_arr_boundbox cells a)
  | _ => P.Panic
  end.
